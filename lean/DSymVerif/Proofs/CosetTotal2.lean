/-
C11 totality, part 2: the main loop of `coset_table` never runs out of fuel and fails only through
the row-limit assertion.
-/
import DSymVerif.Proofs.CosetTotal1

namespace DSymVerif.CosetInvP
open DSymVerif DSymVerif.Cosets DSymVerif.LowIndexP DSymVerif.CosetPartP DSymVerif.CanonP

/-- the only way the modelled enumeration can fail: a (sound, invariant-satisfying) table has
    reached the row limit of the code's `assert!` -/
def Lim (n : Nat) : Prop := ∃ t : Table, TCq t [] ∧ t.nrGens = n ∧ rowLimit ≤ t.len

/-- the outcome is a value, or the row-limit assertion fired -/
def OkOrLim {α : Type} (n : Nat) (o : Outcome α) (P : α → Prop) : Prop :=
  (∃ a, o = .ok a ∧ P a) ∨ (o = .panic ∧ Lim n)

theorem scanAndConnect_total {t : Table} (inv : TCq t []) {w : List Int} (hw : WordOK t w)
    {start : Nat} (hc : t.canon start = start) (hl : start < t.len) :
    ∃ t', scanAndConnect t w start = .ok t' ∧ t'.len = t.len := by
  unfold scanAndConnect
  obtain ⟨⟨head, tail, gap, c⟩, hs⟩ := scanBothWays_total inv.shape hw hl
  rw [hs]
  simp only []
  obtain ⟨b1, b2, b3, b4, b5⟩ := scanBothWays_rows inv.shape hw hc hl hs
  by_cases hg1 : gap = 1
  · subst hg1
    simp only [if_true]
    obtain ⟨t1, hj⟩ := join_succeeds inv.shape.width head tail (b5 rfl)
    exact ⟨t1, hj, by rw [join_len hj]; omega⟩
  · simp only [hg1, if_false]
    by_cases hm : gap = 0 ∧ head ≠ tail
    · simp only [hm, and_self, if_true]
      obtain ⟨t1, hmg, _, _⟩ := merge_total inv b2 b4
      obtain ⟨_, _, _, hlen⟩ := merge_spec inv b2 b4 hmg
      exact ⟨t1, by simpa [hm.2] using hmg, hlen⟩
    · simp only [hm, if_false]
      exact ⟨t, rfl, rfl⟩

theorem scanRelators_total (i : Nat) (g : Int) : ∀ (rels : List (List Int)) (t : Table),
    TCq t [] → (∀ w ∈ rels, WordOK t w) → i < t.len →
    ∃ t', scanRelators i g rels t = .ok t' ∧ t'.len = t.len
  | [], t, _, _, _ => ⟨t, rfl, rfl⟩
  | w :: ws, t, inv, hw, hi => by
    have hws : ∀ w' ∈ ws, WordOK t w' := fun w' h' => hw w' (by simp [h'])
    cases w with
    | nil =>
      simp only [scanRelators]
      exact scanRelators_total i g ws t inv hws hi
    | cons x xs =>
      simp only [scanRelators]
      by_cases hx : x = g
      · simp only [hx, if_true]
        have hwx : WordOK t (g :: xs) := by rw [← hx]; exact hw _ (by simp)
        obtain ⟨t1, h1, hl1⟩ := scanAndConnect_total inv hwx (canon_idem inv.shape i) (canon_lt inv.shape hi)
        rw [h1]
        simp only []
        obtain ⟨a1, a2⟩ := scanAndConnect_spec inv hwx (canon_idem inv.shape i) (canon_lt inv.shape hi) h1
        obtain ⟨t', h', hl'⟩ := scanRelators_total i g ws t1 a1 (fun w' h' => (hws w' h').step a2) (by omega)
        exact ⟨t', h', by omega⟩
      · simp only [hx, if_false]
        exact scanRelators_total i g ws t inv hws hi

theorem scanSubgens_total : ∀ (subs : List (List Int)) (t : Table),
    TCq t [] → (∀ w ∈ subs, WordOK t w) → ∃ t', scanSubgens subs t = .ok t' ∧ t'.len = t.len
  | [], t, _, _ => ⟨t, rfl, rfl⟩
  | w :: ws, t, inv, hw => by
    simp only [scanSubgens]
    have hw0 := hw w (by simp)
    obtain ⟨t1, h1, hl1⟩ := scanAndConnect_total inv hw0 (canon_idem inv.shape 0) (canon_lt inv.shape inv.shape.pos)
    rw [h1]
    simp only []
    obtain ⟨a1, a2⟩ := scanAndConnect_spec inv hw0 (canon_idem inv.shape 0) (canon_lt inv.shape inv.shape.pos) h1
    obtain ⟨t', h', hl'⟩ := scanSubgens_total ws t1 a1 (fun w' h' => (hw w' (by simp [h'])).step a2)
    exact ⟨t', h', by omega⟩

theorem defineAndScan_total {rels subs : List (List Int)} {t : Table} {i : Nat} {g : Int}
    (inv : TCq t []) (hr : ∀ w ∈ rels, WordOK t w) (hsb : ∀ w ∈ subs, WordOK t w)
    (hc : t.canon i = i) (hi : i < t.len) (hg : g ∈ t.allGens) (hfree : t.get i g = .ok none) :
    OkOrLim t.nrGens (defineAndScan rels subs t i g) (fun t' => t'.len = t.len + 1 ∧ t.len < rowLimit) := by
  unfold defineAndScan
  simp only []
  by_cases hlim : t.len < rowLimit
  · simp only [hlim, if_true]
    obtain ⟨t1, hj⟩ := join_succeeds inv.shape.width i t.len hg
    rw [hj]
    simp only []
    obtain ⟨j1, j2, j3⟩ := join_tcq inv hj hg hc hi (canon_ge inv.shape (Nat.le_refl _))
      (Or.inr ⟨rfl, hi⟩) hfree (get_ge_len _ (Nat.le_refl _))
    have s1 : Step t t1 := ⟨j2, fun x hx => by unfold Table.canon at hx ⊢; rw [j3] at hx; exact hx⟩
    have hl1 : t1.len = t.len + 1 := by rw [join_len hj]; omega
    obtain ⟨t2, h2, hl2⟩ := scanRelators_total i g rels t1 j1 (fun w hw => (hr w hw).step s1) (by omega)
    rw [h2]
    simp only []
    obtain ⟨a1, a2⟩ := scanRelators_spec i g rels t1 t2 j1 (fun w hw => (hr w hw).step s1) (by omega) h2
    obtain ⟨t3, h3, hl3⟩ := scanSubgens_total subs t2 a1 (fun w hw => (hsb w hw).step (s1.trans a2))
    refine Or.inl ⟨t3, h3, ?_⟩
    show t3.len = t.len + 1 ∧ True
    exact ⟨by omega, trivial⟩
  · simp only [hlim, if_false]
    exact Or.inr ⟨rfl, t, inv, rfl, by omega⟩

theorem processRow_total {rels subs : List (List Int)} (i : Nat) : ∀ (gs : List Int) (t : Table),
    TCq t [] → (∀ w ∈ rels, WordOK t w) → (∀ w ∈ subs, WordOK t w) → i < t.len →
    (∀ g ∈ gs, g ∈ t.allGens) → t.len ≤ rowLimit →
    OkOrLim t.nrGens (processRow rels subs i gs t) (fun t' => t'.len ≤ rowLimit)
  | [], t, _, _, _, _, _, hlen => Or.inl ⟨t, rfl, hlen⟩
  | g :: gs, t, inv, hr, hsb, hi, hgs, hlen => by
    simp only [processRow]
    by_cases hc : i ≠ t.canon i
    · rw [if_pos hc]
      exact Or.inl ⟨t, rfl, hlen⟩
    · rw [if_neg hc]
      have hc' : t.canon i = i := by
        by_contra hne; exact hc (fun e => hne e.symm)
      have hg : g ∈ t.allGens := hgs g (by simp)
      have hgs' : ∀ g' ∈ gs, g' ∈ t.allGens := fun g' h' => hgs g' (by simp [h'])
      rcases get_total inv.shape hi hg with hget | ⟨d, hget⟩
      · rw [hget]
        simp only []
        rcases defineAndScan_total inv hr hsb hc' hi hg hget (rels := rels) (subs := subs) with
          ⟨t1, hd, hl1, hlt⟩ | ⟨hd, hlim⟩
        · rw [hd]
          simp only []
          obtain ⟨d1, d2, _⟩ := defineAndScan_spec inv hr hsb hc' hi hg hget hd
          have hn1 : t1.nrGens = t.nrGens := d2.1.1
          have := processRow_total i gs t1 d1 (fun w hw => (hr w hw).step d2)
            (fun w hw => (hsb w hw).step d2) (by omega)
            (fun g' h' => by rw [d2.allGens]; exact hgs' g' h') (by omega) (rels := rels) (subs := subs)
          rw [hn1] at this
          exact this
        · rw [hd]
          exact Or.inr ⟨rfl, hlim⟩
      · rw [hget]
        simp only []
        exact processRow_total i gs t inv hr hsb hi hgs' hlen

theorem mainLoop_total {rels subs : List (List Int)} : ∀ (fuel i : Nat) (t : Table),
    TCq t [] → (∀ w ∈ rels, WordOK t w) → (∀ w ∈ subs, WordOK t w) → t.len ≤ rowLimit →
    rowLimit + 1 ≤ fuel + i → 1 ≤ fuel →
    OkOrLim t.nrGens (mainLoop rels subs fuel i t) (fun _ => True) := by
  intro fuel
  induction fuel with
  | zero => intro i t _ _ _ _ _ h1; omega
  | succ f ih =>
    intro i t inv hr hsb hlen hf _
    simp only [mainLoop]
    by_cases hi : i ≥ t.len
    · simp only [hi, if_true]
      exact Or.inl ⟨t, rfl, trivial⟩
    · simp only [hi, if_false]
      rcases processRow_total i t.allGens t inv hr hsb (by omega) (fun g hg => hg) hlen
        (rels := rels) (subs := subs) with ⟨t1, hp, hl1⟩ | ⟨hp, hlim⟩
      · rw [hp]
        simp only []
        obtain ⟨a1, a2, _⟩ := processRow_spec i t.allGens t t1 inv hr hsb (by omega) (fun g hg => hg) hp
        have hn1 : t1.nrGens = t.nrGens := a2.1.1
        have := ih (i + 1) t1 a1 (fun w hw => (hr w hw).step a2) (fun w hw => (hsb w hw).step a2) hl1
          (by omega) (by omega)
        rw [hn1] at this
        exact this
      · rw [hp]
        exact Or.inr ⟨rfl, hlim⟩

end DSymVerif.CosetInvP
