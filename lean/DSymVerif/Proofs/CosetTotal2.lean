/-
C11 totality, part 2: the main loop of `coset_table` never runs out of fuel and fails only through
the row-limit assertion.
-/
import DSymVerif.Proofs.CosetTotal1

namespace DSymVerif.CosetInvP
open DSymVerif DSymVerif.Cosets DSymVerif.LowIndexP DSymVerif.CosetPartP DSymVerif.CanonP

/-- the outcome is a value, or a panic for the stated reason -/
def OkOrLim {α : Type} (o : Outcome α) (P : α → Prop) (L : Prop) : Prop :=
  (∃ a, o = .ok a ∧ P a) ∨ (o = .panic ∧ L)

/-- the run of `processRow` from `(gs, t)` arrives — every earlier step having returned `.ok` — at
    a free slot of the live row `i` while the table has `rowLimit` rows or more: the code's
    `assert!(n < 100_000)` in `defineAndScan` fires.  (Defined along the control flow of
    `processRow`; no other branch makes it true.) -/
def processRowHits (rels subs : List (List Int)) (i : Nat) : List Int → Table → Prop
  | [], _ => False
  | g :: gs, t =>
    if i ≠ t.canon i then False else
    match t.get i g with
    | .ok (some _) => processRowHits rels subs i gs t
    | .ok none =>
      if t.len < rowLimit then
        match defineAndScan rels subs t i g with
        | .ok t' => processRowHits rels subs i gs t'
        | _ => False
      else True
    | _ => False

/-- the run of `mainLoop` from `(fuel, i, t)` arrives, every earlier row having been processed
    with result `.ok`, at a row whose processing hits the row-limit assertion -/
def mainLoopHits (rels subs : List (List Int)) : Nat → Nat → Table → Prop
  | 0, _, _ => False
  | f + 1, i, t =>
    if i ≥ t.len then False else
      processRowHits rels subs i t.allGens t ∨
        match processRow rels subs i t.allGens t with
        | .ok t' => mainLoopHits rels subs f (i + 1) t'
        | _ => False

theorem scanAndConnect_total {t : Table} (inv : TCq t []) {w : List Int} (hw : WordOK t w)
    {start : Nat} (hc : t.canon start = start) (hl : start < t.len) :
    ∃ t', scanAndConnect t w start = .ok t' ∧ t'.len = t.len := by
  unfold scanAndConnect
  obtain ⟨⟨head, tail, gap, c⟩, hs⟩ := scanBothWays_total inv.shape hw hl
  rw [hs]
  simp only []
  obtain ⟨b1, b2, b3, b4, b5⟩ := scanBothWays_rows inv.shape hw hc hl hs
  by_cases hg1 : gap = 1
  · subst hg1
    simp only [if_true]
    obtain ⟨t1, hj⟩ := join_succeeds inv.shape.width head tail (b5 rfl)
    exact ⟨t1, hj, by rw [join_len hj]; omega⟩
  · simp only [hg1, if_false]
    by_cases hm : gap = 0 ∧ head ≠ tail
    · simp only [hm, and_self, if_true]
      obtain ⟨t1, hmg, _, _⟩ := merge_total inv b2 b4
      obtain ⟨_, _, _, hlen⟩ := merge_spec inv b2 b4 hmg
      exact ⟨t1, by simpa [hm.2] using hmg, hlen⟩
    · simp only [hm, if_false]
      exact ⟨t, rfl, rfl⟩

theorem scanRelators_total (i : Nat) (g : Int) : ∀ (rels : List (List Int)) (t : Table),
    TCq t [] → (∀ w ∈ rels, WordOK t w) → i < t.len →
    ∃ t', scanRelators i g rels t = .ok t' ∧ t'.len = t.len
  | [], t, _, _, _ => ⟨t, rfl, rfl⟩
  | w :: ws, t, inv, hw, hi => by
    have hws : ∀ w' ∈ ws, WordOK t w' := fun w' h' => hw w' (by simp [h'])
    cases w with
    | nil =>
      simp only [scanRelators]
      exact scanRelators_total i g ws t inv hws hi
    | cons x xs =>
      simp only [scanRelators]
      by_cases hx : x = g
      · simp only [hx, if_true]
        have hwx : WordOK t (g :: xs) := by rw [← hx]; exact hw _ (by simp)
        obtain ⟨t1, h1, hl1⟩ := scanAndConnect_total inv hwx (canon_idem inv.shape i) (canon_lt inv.shape hi)
        rw [h1]
        simp only []
        obtain ⟨a1, a2⟩ := scanAndConnect_spec inv hwx (canon_idem inv.shape i) (canon_lt inv.shape hi) h1
        obtain ⟨t', h', hl'⟩ := scanRelators_total i g ws t1 a1 (fun w' h' => (hws w' h').step a2) (by omega)
        exact ⟨t', h', by omega⟩
      · simp only [hx, if_false]
        exact scanRelators_total i g ws t inv hws hi

theorem scanSubgens_total : ∀ (subs : List (List Int)) (t : Table),
    TCq t [] → (∀ w ∈ subs, WordOK t w) → ∃ t', scanSubgens subs t = .ok t' ∧ t'.len = t.len
  | [], t, _, _ => ⟨t, rfl, rfl⟩
  | w :: ws, t, inv, hw => by
    simp only [scanSubgens]
    have hw0 := hw w (by simp)
    obtain ⟨t1, h1, hl1⟩ := scanAndConnect_total inv hw0 (canon_idem inv.shape 0) (canon_lt inv.shape inv.shape.pos)
    rw [h1]
    simp only []
    obtain ⟨a1, a2⟩ := scanAndConnect_spec inv hw0 (canon_idem inv.shape 0) (canon_lt inv.shape inv.shape.pos) h1
    obtain ⟨t', h', hl'⟩ := scanSubgens_total ws t1 a1 (fun w' h' => (hw w' (by simp [h'])).step a2)
    exact ⟨t', h', by omega⟩

theorem defineAndScan_total {rels subs : List (List Int)} {t : Table} {i : Nat} {g : Int}
    (inv : TCq t []) (hr : ∀ w ∈ rels, WordOK t w) (hsb : ∀ w ∈ subs, WordOK t w)
    (hc : t.canon i = i) (hi : i < t.len) (hg : g ∈ t.allGens) (hfree : t.get i g = .ok none) :
    OkOrLim (defineAndScan rels subs t i g) (fun t' => t'.len = t.len + 1 ∧ t.len < rowLimit)
      (rowLimit ≤ t.len) := by
  unfold defineAndScan
  simp only []
  by_cases hlim : t.len < rowLimit
  · simp only [hlim, if_true]
    obtain ⟨t1, hj⟩ := join_succeeds inv.shape.width i t.len hg
    rw [hj]
    simp only []
    obtain ⟨j1, j2, j3⟩ := join_tcq inv hj hg hc hi (canon_ge inv.shape (Nat.le_refl _))
      (Or.inr ⟨rfl, hi⟩) hfree (get_ge_len _ (Nat.le_refl _))
    have s1 : Step t t1 := ⟨j2, fun x hx => by unfold Table.canon at hx ⊢; rw [j3] at hx; exact hx⟩
    have hl1 : t1.len = t.len + 1 := by rw [join_len hj]; omega
    obtain ⟨t2, h2, hl2⟩ := scanRelators_total i g rels t1 j1 (fun w hw => (hr w hw).step s1) (by omega)
    rw [h2]
    simp only []
    obtain ⟨a1, a2⟩ := scanRelators_spec i g rels t1 t2 j1 (fun w hw => (hr w hw).step s1) (by omega) h2
    obtain ⟨t3, h3, hl3⟩ := scanSubgens_total subs t2 a1 (fun w hw => (hsb w hw).step (s1.trans a2))
    refine Or.inl ⟨t3, h3, ?_⟩
    show t3.len = t.len + 1 ∧ True
    exact ⟨by omega, trivial⟩
  · simp only [hlim, if_false]
    exact Or.inr ⟨rfl, by omega⟩

theorem processRow_total {rels subs : List (List Int)} (i : Nat) : ∀ (gs : List Int) (t : Table),
    TCq t [] → (∀ w ∈ rels, WordOK t w) → (∀ w ∈ subs, WordOK t w) → i < t.len →
    (∀ g ∈ gs, g ∈ t.allGens) → t.len ≤ rowLimit →
    OkOrLim (processRow rels subs i gs t) (fun t' => t'.len ≤ rowLimit) (processRowHits rels subs i gs t)
  | [], t, _, _, _, _, _, hlen => Or.inl ⟨t, rfl, hlen⟩
  | g :: gs, t, inv, hr, hsb, hi, hgs, hlen => by
    simp only [processRow, processRowHits]
    by_cases hc : i ≠ t.canon i
    · rw [if_pos hc, if_pos hc]
      exact Or.inl ⟨t, rfl, hlen⟩
    · rw [if_neg hc, if_neg hc]
      have hc' : t.canon i = i := by
        by_contra hne; exact hc (fun e => hne e.symm)
      have hg : g ∈ t.allGens := hgs g (by simp)
      have hgs' : ∀ g' ∈ gs, g' ∈ t.allGens := fun g' h' => hgs g' (by simp [h'])
      rcases get_total inv.shape hi hg with hget | ⟨d, hget⟩
      · rw [hget]
        simp only []
        rcases defineAndScan_total inv hr hsb hc' hi hg hget (rels := rels) (subs := subs) with
          ⟨t1, hd, hl1, hlt⟩ | ⟨hd, hlim⟩
        · rw [hd]
          simp only [hlt, if_true]
          obtain ⟨d1, d2, _⟩ := defineAndScan_spec inv hr hsb hc' hi hg hget hd
          exact processRow_total i gs t1 d1 (fun w hw => (hr w hw).step d2)
            (fun w hw => (hsb w hw).step d2) (by omega)
            (fun g' h' => by rw [d2.allGens]; exact hgs' g' h') (by omega) (rels := rels) (subs := subs)
        · rw [hd]
          have : ¬ t.len < rowLimit := by omega
          simp only [this, if_false]
          exact Or.inr ⟨rfl, trivial⟩
      · rw [hget]
        simp only []
        exact processRow_total i gs t inv hr hsb hi hgs' hlen

theorem mainLoop_total {rels subs : List (List Int)} : ∀ (fuel i : Nat) (t : Table),
    TCq t [] → (∀ w ∈ rels, WordOK t w) → (∀ w ∈ subs, WordOK t w) → t.len ≤ rowLimit →
    rowLimit + 1 ≤ fuel + i → 1 ≤ fuel →
    OkOrLim (mainLoop rels subs fuel i t) (fun _ => True) (mainLoopHits rels subs fuel i t) := by
  intro fuel
  induction fuel with
  | zero => intro i t _ _ _ _ _ h1; omega
  | succ f ih =>
    intro i t inv hr hsb hlen hf _
    simp only [mainLoop, mainLoopHits]
    by_cases hi : i ≥ t.len
    · simp only [hi, if_true]
      exact Or.inl ⟨t, rfl, trivial⟩
    · simp only [hi, if_false]
      rcases processRow_total i t.allGens t inv hr hsb (by omega) (fun g hg => hg) hlen
        (rels := rels) (subs := subs) with ⟨t1, hp, hl1⟩ | ⟨hp, hlim⟩
      · rw [hp]
        simp only []
        obtain ⟨a1, a2, _⟩ := processRow_spec i t.allGens t t1 inv hr hsb (by omega) (fun g hg => hg) hp
        rcases ih (i + 1) t1 a1 (fun w hw => (hr w hw).step a2) (fun w hw => (hsb w hw).step a2) hl1
          (by omega) (by omega) with ⟨a, ha, _⟩ | ⟨ha, hh⟩
        · exact Or.inl ⟨a, ha, trivial⟩
        · exact Or.inr ⟨ha, Or.inr hh⟩
      · rw [hp]
        exact Or.inr ⟨rfl, Or.inl hlim⟩

/-- conversely, hitting the limit makes the run panic (so `processRowHits` / `mainLoopHits` hold
    exactly for the runs that end in the row-limit assertion) -/
theorem processRow_panic_of_hits {rels subs : List (List Int)} (i : Nat) : ∀ (gs : List Int) (t : Table),
    processRowHits rels subs i gs t → processRow rels subs i gs t = .panic
  | [], _, h => by simp [processRowHits] at h
  | g :: gs, t, h => by
    simp only [processRowHits] at h
    simp only [processRow]
    by_cases hc : i ≠ t.canon i
    · rw [if_pos hc] at h; exact absurd h (by simp)
    · rw [if_neg hc] at h
      rw [if_neg hc]
      cases hget : t.get i g with
      | ok o =>
        cases o with
        | some d =>
          simp only [hget] at h ⊢
          exact processRow_panic_of_hits i gs t h
        | none =>
          simp only [hget] at h ⊢
          by_cases hl : t.len < rowLimit
          · simp only [hl, if_true] at h
            cases hd : defineAndScan rels subs t i g with
            | ok t' =>
              simp only [hd] at h ⊢
              exact processRow_panic_of_hits i gs t' h
            | err => simp [hd] at h
            | panic => simp [hd] at h
          · have : defineAndScan rels subs t i g = .panic := by
              unfold defineAndScan
              simp [hl]
            rw [this]
      | err => simp [hget] at h
      | panic => simp [hget] at h

theorem mainLoop_panic_of_hits {rels subs : List (List Int)} : ∀ (fuel i : Nat) (t : Table),
    mainLoopHits rels subs fuel i t → mainLoop rels subs fuel i t = .panic
  | 0, _, _, h => by simp [mainLoopHits] at h
  | f + 1, i, t, h => by
    simp only [mainLoopHits] at h
    simp only [mainLoop]
    by_cases hi : i ≥ t.len
    · simp only [hi, if_true] at h
    · simp only [hi, if_false] at h ⊢
      rcases h with h | h
      · rw [processRow_panic_of_hits i _ t h]
      · cases hp : processRow rels subs i t.allGens t with
        | ok t' =>
          simp only [hp] at h ⊢
          exact mainLoop_panic_of_hits f (i + 1) t' h
        | err => simp [hp] at h
        | panic => simp [hp] at h

end DSymVerif.CosetInvP
