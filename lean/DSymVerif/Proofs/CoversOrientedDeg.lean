/-
Property C05, part 8: the oriented double cover preserves every degree — the premise "orbit
length divides the base degree" of `cover_is_covering` always holds for `oriented_cover`.

The colour  col(sheet k, chamber b) = (ori[b] = 1) xor (k = 1)  flips across *every* edge of
the double cover, so after the 2t steps of (op_j ∘ op_i)^t it is unchanged; a chamber of the
cover is determined by its projection and its colour; hence the periods of a chamber of the
cover under op_j ∘ op_i are exactly the periods of its projection: r_cover = r_base.
-/
import DSymVerif.Proofs.CoversOriented

namespace DSymVerif.DS
open View

section
variable {s : DSymData} (hs : ValidSet s.dset) (hsz : 1 ≤ s.size)
  {ori : Array Nat} (hori : ∀ x, 1 ≤ x → x ≤ s.size → ori.getD x 0 = 1 ∨ ori.getD x 0 = 2)
  {c : DSetData} (hc : ValidSet c) (hsize : c.size = 2 * s.size) (hdim : c.dim = s.dim)
  (hop : ∀ i d, i ≤ s.dim → 1 ≤ d → d ≤ 2 * s.size → c.opU i d = coverF s.dset (oriSheetMap s ori) i d)

/-- the 2-colouring of the double cover -/
def dcol (s : DSymData) (ori : Array Nat) (d : Nat) : Bool :=
  xor (decide (ori.getD (cproj s.size d) 0 = 1)) (decide (csheet s.size d = 1))

include hs hsz hori hop

/-- projection and colour of the image of a chamber under an operation of the double cover -/
theorem dc_step {i d : Nat} (hi : i ≤ s.dim) (h1 : 1 ≤ d) (h2 : d ≤ 2 * s.size) :
    cproj s.size (c.opU i d) = s.dset.opU i (cproj s.size d) ∧
    dcol s ori (c.opU i d) = !dcol s ori d := by
  have hsop : s.op i (cproj s.size d) = some (s.dset.opU i (cproj s.size d)) := by
    have hp := cproj_range (d := d) hsz
    exact opSimple_eq_some.2 ⟨hi, hp.1, hp.2, rfl⟩
  have hp := cproj_range (d := d) hsz
  have hb := hs.range i _ hi hp.1 hp.2
  have hkl := csheet_lt hsz h1 h2
  have hproj : cproj s.size (c.opU i d) = s.dset.opU i (cproj s.size d) := by
    rw [hop i d hi h1 h2]; exact cproj_coverF hs hsz hi
  have hsheet : csheet s.size (c.opU i d) =
      (if ori.getD (cproj s.size d) 0 = ori.getD (s.dset.opU i (cproj s.size d)) 0
        then csheet s.size d ^^^ 1 else csheet s.size d) := by
    rw [hop i d hi h1 h2]
    have e : csheet s.size (coverF s.dset (oriSheetMap s ori) i d) =
        oriSheetMap s ori (csheet s.size d) i (cproj s.size d) :=
      csheet_mk (sz := s.size) hb.1 hb.2
    rw [e]
    unfold oriSheetMap
    rw [hsop]
  refine ⟨hproj, ?_⟩
  unfold dcol
  rw [hproj, hsheet]
  have ho1 := hori _ hp.1 hp.2
  have ho2 := hori _ hb.1 hb.2
  by_cases heq : ori.getD (cproj s.size d) 0 = ori.getD (s.dset.opU i (cproj s.size d)) 0
  · rw [if_pos heq, (xor_one_ne hkl).2, ← heq]
    cases decide (ori.getD (cproj s.size d) 0 = 1) <;> cases decide (csheet s.size d = 1) <;> decide
  · rw [if_neg heq]
    have : decide (ori.getD (s.dset.opU i (cproj s.size d)) 0 = 1) =
        !decide (ori.getD (cproj s.size d) 0 = 1) := by
      rcases ho1 with a | a <;> rcases ho2 with b | b
      · exact absurd (a.trans b.symm) heq
      · rw [a, b]; decide
      · rw [a, b]; decide
      · exact absurd (a.trans b.symm) heq
    rw [this]
    cases decide (ori.getD (cproj s.size d) 0 = 1) <;> cases decide (csheet s.size d = 1) <;> decide

include hc hsize hdim

/-- iterates of op_j ∘ op_i in the double cover: the projection follows the base, the colour is
    unchanged -/
theorem dc_iter {i j d : Nat} (hi : i ≤ s.dim) (hj : j ≤ s.dim) (h1 : 1 ≤ d) (h2 : d ≤ 2 * s.size) :
    ∀ t, (1 ≤ (c.comp i j)^[t] d ∧ (c.comp i j)^[t] d ≤ 2 * s.size) ∧
      cproj s.size ((c.comp i j)^[t] d) = (s.dset.comp i j)^[t] (cproj s.size d) ∧
      dcol s ori ((c.comp i j)^[t] d) = dcol s ori d
  | 0 => ⟨⟨h1, h2⟩, rfl, rfl⟩
  | t + 1 => by
    obtain ⟨hr, hp, hcol⟩ := dc_iter hi hj h1 h2 t
    rw [Function.iterate_succ_apply', Function.iterate_succ_apply']
    generalize (c.comp i j)^[t] d = e at hr hp hcol
    have hic : i ≤ c.dim := by rw [hdim]; exact hi
    have hjc : j ≤ c.dim := by rw [hdim]; exact hj
    have he2 : e ≤ c.size := by rw [hsize]; exact hr.2
    have hr1 := hc.range i e hic hr.1 he2
    have hr1' : c.opU i e ≤ 2 * s.size := by rw [← hsize]; exact hr1.2
    have hr2 := hc.range j _ hjc hr1.1 hr1.2
    obtain ⟨a1, a2⟩ := dc_step hs hsz hori hop hi hr.1 hr.2
    obtain ⟨b1, b2⟩ := dc_step hs hsz hori hop hj hr1.1 hr1'
    refine ⟨⟨hr2.1, by rw [← hsize]; exact hr2.2⟩, ?_, ?_⟩
    · show cproj s.size (c.opU j (c.opU i e)) = s.dset.opU j (s.dset.opU i _)
      rw [b1, a1, hp]
    · show dcol s ori (c.opU j (c.opU i e)) = _
      rw [b2, a2, Bool.not_not, hcol]

omit hs hori hc hsize hdim hop in
/-- a chamber of the double cover is determined by its projection and its colour -/
theorem dc_determined {d d' : Nat} (h1 : 1 ≤ d) (h2 : d ≤ 2 * s.size) (h1' : 1 ≤ d') (h2' : d' ≤ 2 * s.size)
    (hp : cproj s.size d = cproj s.size d') (hcol : dcol s ori d = dcol s ori d') : d = d' := by
  have hk := csheet_lt hsz h1 h2
  have hk' := csheet_lt hsz h1' h2'
  unfold dcol at hcol
  rw [hp] at hcol
  have hb : decide (csheet s.size d = 1) = decide (csheet s.size d' = 1) := by
    cases hx : decide (ori.getD (cproj s.size d') 0 = 1) <;> rw [hx] at hcol <;>
      cases hy : decide (csheet s.size d = 1) <;> cases hz : decide (csheet s.size d' = 1) <;>
      rw [hy, hz] at hcol <;> first | rfl | (exact absurd hcol (by decide))
  have hsheet : csheet s.size d = csheet s.size d' := by
    have := decide_eq_decide.1 hb
    omega
  rw [← cdecomp hsz h1, ← cdecomp hsz h1', hp, hsheet]

/-- the periods of a chamber of the double cover are the periods of its projection -/
theorem dc_period_iff {i j d t : Nat} (hi : i ≤ s.dim) (hj : j ≤ s.dim) (h1 : 1 ≤ d) (h2 : d ≤ 2 * s.size) :
    IsPeriod c i j t d ↔ IsPeriod s.dset i j t (cproj s.size d) := by
  obtain ⟨hr, hp, hcol⟩ := dc_iter hs hsz hori hc hsize hdim hop hi hj h1 h2 t
  unfold IsPeriod
  constructor
  · intro h
    rw [← hp, h]
  · intro h
    exact dc_determined hsz hr.1 hr.2 h1 h2 (by rw [hp, h]) hcol

theorem dc_leastPeriod {i j d r : Nat} (hi : i ≤ s.dim) (hj : j ≤ s.dim) (h1 : 1 ≤ d) (h2 : d ≤ 2 * s.size)
    (hr : IsLeastPeriod s.dset i j (cproj s.size d) r) : IsLeastPeriod c i j d r :=
  ⟨hr.1, (dc_period_iff hs hsz hori hc hsize hdim hop hi hj h1 h2).2 hr.2.1,
    fun t ht1 ht2 hp => hr.2.2 t ht1 ht2 ((dc_period_iff hs hsz hori hc hsize hdim hop hi hj h1 h2).1 hp)⟩

end

/-- **the oriented cover preserves all degrees**: for a non-oriented base with valid tables the
    double cover `c` returned by `oriented_cover` has, at every chamber `d` and adjacent pair
    (i,i+1), the orbit length, branching number and degree of the base at the projection of `d` -/
theorem orientedCover_degrees (s : DSymData) (hs : ValidTables s) (hsz : 1 ≤ s.size) (hdim : 1 ≤ s.dim)
    (ho : s.view.isOriented = false) :
    ∃ c, orientedCover s = .ok c ∧ c.size = 2 * s.size ∧ c.dim = s.dim ∧ ValidTables c ∧
      ∀ i d, i < s.dim → 1 ≤ d → d ≤ 2 * s.size →
        c.rPartial i (i + 1) d = s.rPartial i (i + 1) (cproj s.size d) ∧
        c.vPartial i (i + 1) d = s.vPartial i (i + 1) (cproj s.size d) ∧
        c.mPartial i (i + 1) d = s.mPartial i (i + 1) (cproj s.size d) := by
  have hσ := oriSheetMap_compat s hs.set s.view.partialOrientation
  obtain ⟨c, hc, hsize, hdim', hct, hop, hdeg⟩ := cover_ok s hs hsz hdim (n := 2) (by decide) hσ
  have hpin : s.view.PInvol := by rw [s.view_eq]; exact hs.set.pinvol
  have hori := partialOrientation_total hpin
  refine ⟨c, ?_, hsize, hdim', hct, ?_⟩
  · rw [orientedCover_eq, if_neg (by rw [ho]; simp)]; exact hc
  · intro i d hi h1 h2
    obtain ⟨r, hr, hrp, hvp, hmp⟩ := hdeg i d hi h1 h2
    have hp := cproj_range (d := d) hsz
    have hrs := hs.rs_least hi hp.1 hp.2
    have hrc := dc_leastPeriod hs.set hsz hori hct.set hsize hdim' hop (Nat.le_of_lt hi) hi h1 h2 hrs
    have hreq : r = s.orbitRs.getD (s.ixAt i (cproj s.size d)) 0 := hr.unique hrc
    have hmv : s.mVal i (cproj s.size d) / r = s.orbitVs.getD (s.ixAt i (cproj s.size d)) 0 := by
      unfold DSymData.mVal
      rw [hreq]
      exact Nat.mul_div_cancel_left _ (by have := hrs.1; omega)
    rw [hrp, hvp, hmp, hmv, hs.rPartial_adj hi hp.1 hp.2, hs.vPartial_adj hi hp.1 hp.2,
      hs.mPartial_adj hi hp.1 hp.2, hreq]
    exact ⟨rfl, rfl, rfl⟩

/-- **the oriented cover of a valid symbol is a valid symbol**: far operations of the double cover
    commute (the periods of a chamber are those of its projection, and `(op_j ∘ op_i)²` fixes every
    chamber of the base for `|i - j| > 1`) -/
theorem orientedCover_validSym (s : DSymData) (hs : ValidSym s) (hsz : 1 ≤ s.size) (hdim : 1 ≤ s.dim)
    (ho : s.view.isOriented = false) :
    ∃ c, orientedCover s = .ok c ∧ c.size = 2 * s.size ∧ c.dim = s.dim ∧ ValidSym c := by
  have hσ := oriSheetMap_compat s hs.set s.view.partialOrientation
  obtain ⟨c, hc, hsize, hdim', hct, hop, _⟩ := cover_ok s hs.toValidTables hsz hdim (n := 2) (by decide) hσ
  have hpin : s.view.PInvol := by rw [s.view_eq]; exact hs.set.pinvol
  have hori := partialOrientation_total hpin
  refine ⟨c, ?_, hsize, hdim', hct, ?_⟩
  · rw [orientedCover_eq, if_neg (by rw [ho]; simp)]; exact hc
  · intro i j d hij hj h1 h2
    have hjs : j ≤ s.dim := by rw [← hdim']; exact hj
    have his : i ≤ s.dim := by omega
    have hic : i ≤ c.dset.dim := by rw [show c.dset.dim = c.dim from rfl, hdim']; exact his
    have h2' : d ≤ 2 * s.size := by rw [← hsize]; exact h2
    have hp := cproj_range (d := d) hsz
    -- 2 is a period of the projection
    have hbase : IsPeriod s.dset i j 2 (cproj s.size d) := by
      show s.dset.opU j (s.dset.opU i (s.dset.opU j (s.dset.opU i (cproj s.size d)))) = cproj s.size d
      have r1 := hs.set.range i _ his hp.1 hp.2
      rw [← hs.far i j _ hij hjs r1.1 r1.2, hs.set.invol i _ his hp.1 hp.2, hs.set.invol j _ hjs hp.1 hp.2]
    have hP := (dc_period_iff hs.set hsz hori hct.set hsize hdim' hop his hjs h1 h2').2 hbase
    have hP' : c.dset.opU j (c.dset.opU i (c.dset.opU j (c.dset.opU i d))) = d := hP
    have r1 := hct.set.range i d hic h1 h2
    have r2 := hct.set.range j _ hj r1.1 r1.2
    have r3 := hct.set.range i _ hic r2.1 r2.2
    have e1 : c.dset.opU i (c.dset.opU j (c.dset.opU i d)) = c.dset.opU j d := by
      have := hct.set.invol j _ hj r3.1 r3.2
      rw [hP'] at this; exact this.symm
    have e2 := hct.set.invol i _ hic r2.1 r2.2
    rw [e1] at e2
    exact e2.symm

end DSymVerif.DS
