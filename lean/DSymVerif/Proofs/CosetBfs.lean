/-
Completeness of the breadth-first search of the Spec: the Boolean `connected` clause (and
hence `validTable`) accepts every table that satisfies the mathematical statement
`CosetP.Valid`; together with `valid_of_validTable` the Boolean Spec and the proposition
are equivalent.
-/
import DSymVerif.Proofs.Rebase

namespace DSymVerif.RebaseP
open DSymVerif.SpecC11 DSymVerif.CosetP

/-- the stored (reversed) words trace from `start` to their rows -/
def WordsOK (t : Tab) (n start : Nat) (s : St) : Prop :=
  ∀ d wr, s.2.getD d none = some wr → traceWord t n start wr.reverse = some d

/-- the rows at positions `< i` of the order array have all their images in the array -/
def ClosedUpTo (t : Tab) (n : Nat) (s : St) (i : Nat) : Prop :=
  ∀ p, p < s.1.size → p < i → ∀ g ∈ letters n, ∀ d, entry t n (s.1.getD p 0) g = some d → d ∈ s.1

theorem traceWord_snoc' {t : Tab} {n : Nat} {a : List Int} {x : Int} {c c' d : Nat}
    (h1 : traceWord t n c a = some c') (h2 : entry t n c' x = some d) :
    traceWord t n c (a ++ [x]) = some d := by
  rw [traceWord_append, h1]
  simp [traceWord, h2]

theorem bfsLetters_cons_none {t : Tab} {n c : Nat} {wc : List Int} {g : Int} {gs : List Int} {s : St}
    (he : entry t n c g = none) : bfsLetters t n c wc (g :: gs) s = bfsLetters t n c wc gs s := by
  obtain ⟨ord, ws⟩ := s
  simp only [bfsLetters, he]

theorem bfsLetters_cons_new {t : Tab} {n c : Nat} {wc : List Int} {g : Int} {gs : List Int}
    {ord : Array Nat} {ws : Array (Option (List Int))} {d : Nat}
    (he : entry t n c g = some d) (hv : (ws.getD d none).isNone = true) :
    bfsLetters t n c wc (g :: gs) (ord, ws) =
      bfsLetters t n c wc gs (ord.push d, ws.setIfInBounds d (some (g :: wc))) := by
  simp only [bfsLetters, he, hv, if_true]

theorem bfsLetters_cons_old {t : Tab} {n c : Nat} {wc : List Int} {g : Int} {gs : List Int}
    {ord : Array Nat} {ws : Array (Option (List Int))} {d : Nat}
    (he : entry t n c g = some d) (hv : ¬ (ws.getD d none).isNone = true) :
    bfsLetters t n c wc (g :: gs) (ord, ws) = bfsLetters t n c wc gs (ord, ws) := by
  simp only [bfsLetters, he, hv, Bool.false_eq_true, if_false]

theorem bfsLetters_inv (t : Tab) (n start c : Nat) (wc : List Int)
    (hwc : traceWord t n start wc.reverse = some c) :
    ∀ (gs : List Int) (s : St), Marks t.size s → WordsOK t n start s →
      Marks t.size (bfsLetters t n c wc gs s) ∧ WordsOK t n start (bfsLetters t n c wc gs s) ∧
      (∀ x ∈ s.1, x ∈ (bfsLetters t n c wc gs s).1) ∧
      (∀ g ∈ gs, ∀ d, entry t n c g = some d → d ∈ (bfsLetters t n c wc gs s).1) ∧
      (bfsLetters t n c wc gs s).1.size ≥ s.1.size ∧
      (∀ p, p < s.1.size → (bfsLetters t n c wc gs s).1.getD p 0 = s.1.getD p 0)
  | [], s, hm, hw => by
    simp only [bfsLetters]
    exact ⟨hm, hw, fun _ h => h, (fun g hg => by cases hg), Nat.le_refl _, fun _ _ => trivial⟩
  | g :: gs, (ord, ws), hm, hw => by
    cases he : entry t n c g with
    | none =>
      rw [bfsLetters_cons_none he]
      obtain ⟨a1, a2, a3, a4, a5, a6⟩ := bfsLetters_inv t n start c wc hwc gs (ord, ws) hm hw
      refine ⟨a1, a2, a3, ?_, a5, a6⟩
      intro g' hg' d hd
      rcases List.mem_cons.mp hg' with rfl | hg'
      · rw [he] at hd; cases hd
      · exact a4 g' hg' d hd
    | some d0 =>
      have hd0 : d0 < t.size := (entry_some he).1
      by_cases hv : (ws.getD d0 none).isNone = true
      · rw [bfsLetters_cons_new he hv]
        have hm' := bfsLetters_marks t n c wc [g] (ord, ws) hm
        rw [bfsLetters_cons_new he hv] at hm'
        simp only [bfsLetters] at hm'
        have hw' : WordsOK t n start (ord.push d0, ws.setIfInBounds d0 (some (g :: wc))) := by
          intro d wr hd
          simp only [getD_setIfInBounds] at hd
          by_cases e : d0 = d ∧ d0 < ws.size
          · rw [if_pos e] at hd
            injection hd with hd
            subst hd
            rw [List.reverse_cons, ← e.1]
            exact traceWord_snoc' hwc he
          · rw [if_neg e] at hd
            exact hw d wr hd
        obtain ⟨a1, a2, a3, a4, a5, a6⟩ := bfsLetters_inv t n start c wc hwc gs _ hm' hw'
        refine ⟨a1, a2, fun x hx => a3 x (Array.mem_push.mpr (Or.inl hx)), ?_, ?_, ?_⟩
        · intro g' hg' d hd
          rcases List.mem_cons.mp hg' with rfl | hg'
          · rw [he] at hd; injection hd with hd; subst hd
            exact a3 _ (Array.mem_push.mpr (Or.inr rfl))
          · exact a4 g' hg' d hd
        · have a5' : (bfsLetters t n c wc gs (ord.push d0, ws.setIfInBounds d0 (some (g :: wc)))).1.size ≥
              ord.size + 1 := by simpa using a5
          show _ ≥ ord.size
          omega
        · intro p hp
          have hp0 : p < ord.size := hp
          have hp1 : p < (ord.push d0).size := by simp only [Array.size_push]; omega
          rw [a6 p hp1]
          show (ord.push d0).getD p 0 = ord.getD p 0
          rw [getD_of_lt _ hp1, getD_of_lt _ hp0, Array.getElem_push_lt hp0]
      · rw [bfsLetters_cons_old he hv]
        obtain ⟨a1, a2, a3, a4, a5, a6⟩ := bfsLetters_inv t n start c wc hwc gs (ord, ws) hm hw
        refine ⟨a1, a2, a3, ?_, a5, a6⟩
        intro g' hg' d hd
        rcases List.mem_cons.mp hg' with rfl | hg'
        · rw [he] at hd; injection hd with hd
          rw [← hd]
          apply a3
          have hs : (ws.getD d0 none).isSome = true := by
            cases h : ws.getD d0 none with
            | none => rw [h] at hv; exact absurd rfl hv
            | some _ => rfl
          exact (hm.mark d0 hd0).mp hs
        · exact a4 g' hg' d hd

theorem bfsLoop_inv (t : Tab) (n start : Nat) : ∀ (fuel i : Nat) (s : St),
    Marks t.size s → WordsOK t n start s → ClosedUpTo t n s i → i ≤ s.1.size →
    fuel + i ≥ t.size →
    Marks t.size (bfsLoop t n fuel i s) ∧ WordsOK t n start (bfsLoop t n fuel i s) ∧
      (∀ x ∈ s.1, x ∈ (bfsLoop t n fuel i s).1) ∧
      ClosedUpTo t n (bfsLoop t n fuel i s) (bfsLoop t n fuel i s).1.size
  | 0, i, s, hm, hw, hc, hi, hf => by
    simp only [bfsLoop]
    have hsz : s.1.size ≤ t.size := by
      have h1 : s.1.toList.length ≤ (List.range t.size).length :=
        hm.nodup.length_le_of_subset (fun x hx => List.mem_range.mpr (hm.lt x (by simpa using hx)))
      simpa using h1
    refine ⟨hm, hw, fun _ h => h, ?_⟩
    intro p hp _ g hg d hd
    exact hc p hp (by omega) g hg d hd
  | f + 1, i, (ord, ws), hm, hw, hc, hi, hf => by
    simp only [bfsLoop]
    by_cases hlt : i < ord.size
    · simp only [hlt, dif_pos]
      have hci : ord[i] < t.size := hm.lt _ (by simp)
      have hmark : (ws.getD ord[i] none).isSome = true := (hm.mark _ hci).mpr (by simp)
      obtain ⟨wr, hwr⟩ := Option.isSome_iff_exists.mp hmark
      have hwc : traceWord t n start ((ws.getD ord[i] none).getD []).reverse = some ord[i] := by
        rw [hwr]; exact hw _ _ hwr
      obtain ⟨a1, a2, a3, a4, a5, a6⟩ := bfsLetters_inv t n start ord[i] _ hwc (letters n) (ord, ws) hm hw
      have hgi : ord.getD i 0 = ord[i] := getD_of_lt ord hlt
      have hcl : ClosedUpTo t n (bfsLetters t n ord[i] ((ws.getD ord[i] none).getD []) (letters n) (ord, ws)) (i + 1) := by
        intro p hp hpi g hg d hd
        by_cases e : p = i
        · subst e
          rw [a6 p hlt, hgi] at hd
          exact a4 g hg d hd
        · have hpo : p < ord.size := by omega
          rw [a6 p hpo] at hd
          exact a3 d (hc p hpo (by omega) g hg d hd)
      obtain ⟨b1, b2, b3, b4⟩ := bfsLoop_inv t n start f (i + 1) _ a1 a2 hcl (by
        have : (bfsLetters t n ord[i] ((ws.getD ord[i] none).getD []) (letters n) (ord, ws)).1.size ≥ ord.size := a5
        omega) (by omega)
      exact ⟨b1, b2, fun x hx => b3 x (a3 x hx), b4⟩
    · simp only [hlt, dif_neg, not_false_eq_true]
      refine ⟨hm, hw, fun _ h => h, ?_⟩
      intro p hp _ g hg d hd
      exact hc p hp (by omega) g hg d hd

/-- the Boolean `connected` clause accepts every table in which each row is reached from
    row 0 (completeness of the breadth-first search) -/
theorem connected_of_reach {t : Tab} {n : Nat} (hpos : 0 < t.size)
    (hconn : ∀ c, c < t.size → ∃ w, traceWord t n 0 w = some c) : connected t n = true := by
  unfold connected connectedBy witnesses rowsOf
  rw [List.all_eq_true]
  intro c hc
  have hc' := List.mem_range.mp hc
  have hm0 : Marks t.size (#[0], (Array.replicate t.size none).setIfInBounds 0 (some [])) := by
    have := bfs_marks t n 0 hpos
    refine ⟨by simp, ?_, by simp, ?_⟩
    · intro d hd
      simp only [getD_setIfInBounds, Array.size_replicate]
      by_cases hsd : 0 = d
      · subst hsd; simp [hpos]
      · have : ¬ (0 = d ∧ 0 < t.size) := fun x => hsd x.1
        simp only [this, if_false]
        simp [Array.getD_eq_getD_getElem?, hd]
        exact fun e => hsd e.symm
    · intro d hd
      simp at hd
      exact hd ▸ hpos
  have hw0 : WordsOK t n 0 (#[0], (Array.replicate t.size none).setIfInBounds 0 (some [])) := by
    intro d wr hd
    simp only [getD_setIfInBounds, Array.size_replicate] at hd
    by_cases e : 0 = d ∧ 0 < t.size
    · rw [if_pos e] at hd
      injection hd with hd
      subst hd
      rw [← e.1]; rfl
    · rw [if_neg e] at hd
      simp [Array.getD_eq_getD_getElem?, Array.getElem?_replicate] at hd
      split at hd <;> cases hd
  obtain ⟨b1, b2, b3, b4⟩ := bfsLoop_inv t n 0 t.size 0 _ hm0 hw0
    (fun p _ hp => by omega) (by simp) (by omega)
  -- every row is in the order array
  have hall : ∀ (w : List Int) (x d : Nat), x ∈ (bfs t n 0).1 → traceWord t n x w = some d → d ∈ (bfs t n 0).1 := by
    intro w
    induction w with
    | nil =>
      intro x d hx h
      simp only [traceWord, Option.some.injEq] at h
      exact h ▸ hx
    | cons g w ih =>
      intro x d hx h
      simp only [traceWord] at h
      cases he : entry t n x g with
      | none => simp [he] at h
      | some e =>
        simp only [he] at h
        obtain ⟨p, hp, rfl⟩ := Array.mem_iff_getElem.mp hx
        have hg' : (bfs t n 0).1.getD p 0 = (bfs t n 0).1[p] := getD_of_lt _ hp
        refine ih e d (b4 p hp hp g (entry_some he).2.2 e ?_) h
        show entry t n ((bfs t n 0).1.getD p 0) g = some e
        rw [hg']; exact he
  obtain ⟨w, hw⟩ := hconn c hc'
  have hin : c ∈ (bfs t n 0).1 := hall w 0 c (b3 0 (by simp)) hw
  have hsome : ((bfs t n 0).2.getD c none).isSome = true := (b1.mark c hc').mpr hin
  obtain ⟨wr, hwr⟩ := Option.isSome_iff_exists.mp hsome
  have htr := b2 c wr hwr
  have hget : ((bfs t n 0).2.map (fun o => o.map List.reverse)).getD c none = some wr.reverse := by
    simp only [Array.getD_eq_getD_getElem?, Array.getElem?_map] at hwr ⊢
    cases h : (bfs t n 0).2[c]? with
    | none => simp [h] at hwr
    | some o =>
      simp only [h, Option.getD_some] at hwr
      subst hwr
      simp
  rw [hget]
  simp [htr]

/-- the Boolean Spec accepts every table satisfying the mathematical statement -/
theorem validTable_of_valid {t : Tab} {n : Nat} {rels subs : List (List Int)}
    (hv : Valid t n rels subs) : validTable t n rels subs = true := by
  unfold validTable
  simp only [Bool.and_eq_true, decide_eq_true_eq]
  refine ⟨⟨⟨⟨⟨hv.pos, ?_⟩, ?_⟩, ?_⟩, ?_⟩, connected_of_reach hv.pos hv.conn⟩
  · unfold complete rowsOf
    rw [List.all_eq_true]
    intro c hc
    rw [List.all_eq_true]
    intro g hg
    obtain ⟨d, hd⟩ := hv.total c (List.mem_range.mp hc) g hg
    simp [hd]
  · unfold inverseConsistent rowsOf
    rw [List.all_eq_true]
    intro c _
    rw [List.all_eq_true]
    intro g _
    cases he : entry t n c g with
    | none => rfl
    | some d => simp [hv.inv c g d he]
  · unfold relatorsClose rowsOf
    rw [List.all_eq_true]
    intro r hr
    rw [List.all_eq_true]
    intro c hc
    simp [hv.rel r hr c (List.mem_range.mp hc)]
  · unfold subgensFix
    rw [List.all_eq_true]
    intro s hs
    simp [hv.sub s hs]

end DSymVerif.RebaseP
