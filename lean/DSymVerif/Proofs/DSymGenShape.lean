/-
Lemmas for property C07, phase 2, part 10: for positive curvature, **the shape of delaney2d's
orbifold symbol is the shape of the private key**.  Under C08's parity monitor (`D2.parityMonitor`,
a decidable check the drivers evaluate) and the additional decidable check "a symbol that is not
weakly oriented has at least one cross-cap", a symbol of positive curvature is exactly one of
  (A) loop-free and weakly oriented: no boundary, no cross-cap;
  (B) loop-free, not weakly oriented: no boundary, one cross-cap;
  (C) with a mirror and weakly oriented: one boundary component, no cross-cap;
never with handles.  Boundary tracing returns no component iff there is no mirror.
-/
import DSymVerif.Proofs.DSymGenCensus
import DSymVerif.Proofs.DSymGenOrient
import DSymVerif.Proofs.Delaney2dCorners
import DSymVerif.Proofs.Delaney2dGauss

set_option linter.unusedSectionVars false

namespace DSymVerif.SymGen
open DSymVerif.DS DSymVerif.D2

/-! ### `trace_boundary` returns components iff there is a mirror -/

theorem d2_insertDesc_ne_nil (x : List Nat) (l : List (List Nat)) : D2.insertDesc x l ≠ [] := by
  cases l with
  | nil => simp [D2.insertDesc]
  | cons y ys => simp only [D2.insertDesc]; split <;> simp

theorem d2_sortDesc_eq_nil {l : List (List Nat)} (h : D2.sortDesc l = []) : l = [] := by
  cases l with
  | nil => rfl
  | cons x xs =>
    unfold D2.sortDesc at h
    simp only [List.foldr_cons] at h
    exact absurd h (d2_insertDesc_ne_nil _ _)

/-- a step either skips (state unchanged) or appends a component -/
theorem traceStep_cases (s : Sym) (ori : Array Nat) (st st' : TraceState) (i d : Nat)
    (h : traceStep s ori st i d = .ok st') :
    (st' = st ∧ (s.op i d ≠ some d ∨ st.seen.contains (i, d) = true)) ∨
    (st'.result ≠ [] ∧ s.op i d = some d) := by
  unfold traceStep at h
  split at h
  · rename_i hc
    left
    refine ⟨(Outcome.ok.inj h).symm, ?_⟩
    simp only [Bool.or_eq_true, bne_iff_ne, ne_eq] at hc
    exact hc
  · rename_i hc
    simp only [Bool.or_eq_true, bne_iff_ne, ne_eq, not_or, not_not, Bool.not_eq_true] at hc
    right
    split at h
    · cases h
    · split at h
      all_goals
        simp only at h
        split at h
        · have := Outcome.ok.inj h
          rw [← this]
          exact ⟨by simp, hc.1⟩
        · cases h
        · cases h

theorem trace_fold (s : Sym) (ori : Array Nat) :
    ∀ (keys : List (Nat × Nat)) (st st' : TraceState),
      keys.foldl (fun (acc : Outcome TraceState) k =>
        match acc with
        | .ok st => traceStep s ori st k.1 k.2
        | o => o) (.ok st) = .ok st' →
      (st.result ≠ [] → st'.result ≠ []) ∧
      (st'.result = [] → st.seen = [] → ∀ k, k ∈ keys → s.op k.1 k.2 ≠ some k.2) := by
  intro keys
  induction keys with
  | nil =>
    intro st st' h
    simp only [List.foldl_nil] at h
    cases h
    exact ⟨id, fun _ _ k hk => by cases hk⟩
  | cons k rest ih =>
    intro st st' h
    simp only [List.foldl_cons] at h
    cases hstep : traceStep s ori st k.1 k.2 with
    | ok st1 =>
      rw [hstep] at h
      obtain ⟨m1, m2⟩ := ih st1 st' h
      rcases traceStep_cases s ori st st1 k.1 k.2 hstep with ⟨e, hskip⟩ | ⟨hne, _⟩
      · subst e
        refine ⟨m1, fun hr hs k' hk' => ?_⟩
        rcases List.mem_cons.mp hk' with rfl | hk''
        · rcases hskip with hh | hh
          · exact hh
          · rw [hs] at hh; simp at hh
        · exact m2 hr hs k' hk''
      · refine ⟨fun _ => m1 hne, fun hr _ => absurd hr (m1 hne)⟩
    | err =>
      rw [hstep] at h
      exfalso
      clear ih hstep
      induction rest with
      | nil => simp at h
      | cons _ _ ih' => simp only [List.foldl_cons] at h; exact ih' h
    | panic =>
      rw [hstep] at h
      exfalso
      clear ih hstep
      induction rest with
      | nil => simp at h
      | cons _ _ ih' => simp only [List.foldl_cons] at h; exact ih' h

/-- **no boundary component ⇔ no mirror** -/
theorem traceBoundary_nil_iff (s : Sym) (bnds : List (List Nat)) (h : traceBoundary s = .ok bnds)
    (hsz : s.view.size = s.size) (hdm : s.view.dim = s.dim) :
    bnds = [] ↔ s.view.isLoopless = true := by
  unfold traceBoundary at h
  simp only at h
  split at h
  · rename_i st hfold
    have hb : bnds = D2.sortDesc st.result := (Outcome.ok.inj h).symm
    obtain ⟨_, m2⟩ := trace_fold s _ _ _ _ hfold
    constructor
    · intro hnil
      rw [hb] at hnil
      have hres := d2_sortDesc_eq_nil hnil
      have hall := m2 hres rfl
      unfold View.isLoopless
      rw [List.all_eq_true]
      intro i hi
      rw [List.all_eq_true]
      intro d hd
      have hi' : i < s.dim + 1 := by
        have := List.mem_range.mp hi
        unfold View.indices at hi
        rw [hdm] at hi
        exact List.mem_range.mp hi
      have hd' : 1 ≤ d ∧ d ≤ s.size := by
        unfold View.elements at hd
        obtain ⟨d0, hd0, rfl⟩ := List.mem_map.mp hd
        have := List.mem_range.mp hd0
        rw [hsz] at this
        omega
      have hk : (i, d) ∈ (List.range (s.dim + 1)).flatMap fun i => (List.range s.size).map fun d0 => (i, d0 + 1) := by
        simp only [List.mem_flatMap, List.mem_range, List.mem_map]
        exact ⟨i, hi', d - 1, by omega, by congr 1; omega⟩
      have := hall (i, d) hk
      simp only [bne_iff_ne, ne_eq]
      exact this
    · intro hloop
      -- every step skips
      have key : ∀ (keys : List (Nat × Nat)) (st0 : TraceState),
          (∀ k, k ∈ keys → s.op k.1 k.2 ≠ some k.2) →
          keys.foldl (fun (acc : Outcome TraceState) k =>
            match acc with
            | .ok st => traceStep s s.view.partialOrientation st k.1 k.2
            | o => o) (.ok st0) = .ok st0 := by
        intro keys
        induction keys with
        | nil => intro st0 _; rfl
        | cons k rest ih =>
          intro st0 hk
          simp only [List.foldl_cons]
          have : traceStep s s.view.partialOrientation st0 k.1 k.2 = .ok st0 := by
            unfold traceStep
            rw [if_pos (by
              simp only [Bool.or_eq_true, bne_iff_ne, ne_eq]
              exact Or.inl (hk k (by simp)))]
          rw [this]
          exact ih st0 (fun k' hk' => hk k' (by simp [hk']))
      have hall : ∀ k, k ∈ ((List.range (s.dim + 1)).flatMap fun i => (List.range s.size).map fun d0 => (i, d0 + 1)) →
          s.op k.1 k.2 ≠ some k.2 := by
        intro k hk
        obtain ⟨i, hi, hk'⟩ := List.mem_flatMap.mp hk
        obtain ⟨d0, hd0, rfl⟩ := List.mem_map.mp hk'
        unfold View.isLoopless at hloop
        rw [List.all_eq_true] at hloop
        have h1 := hloop i (by unfold View.indices; rw [hdm]; exact hi)
        rw [List.all_eq_true] at h1
        have h2 := h1 (d0 + 1) (by
          unfold View.elements
          exact List.mem_map.mpr ⟨d0, by rw [hsz]; exact hd0, rfl⟩)
        have h2' : ¬ s.view.op i (d0 + 1) = some (d0 + 1) := by simpa using h2
        exact h2'
      have hk := key _ { result := [], seen := [] } hall
      have hst : Outcome.ok st = Outcome.ok ({ result := [], seen := [] } : TraceState) := hfold.symm.trans hk
      have hst' := Outcome.ok.inj hst
      rw [hb, hst']
      rfl
  · cases h
  · cases h

/-! ### the fields of the model's symbol -/

theorem orbSym_fields {s : Sym} (g : Good2d s) {o : OrbSym} (h : D2.orbifoldSymbol s = .ok o) :
    ∃ bnds, traceBoundary s = .ok bnds ∧ o.bnds = bnds ∧
      o.orientable = s.view.isWeaklyOriented ∧
      o.cones = sortDescNat (conesOf (typesOf s.data)) := by
  obtain ⟨y, rep⟩ := s
  obtain ⟨bnds, htb, _⟩ := traceBoundary_corners g.valid g.dim rep
  refine ⟨bnds, htb, ?_⟩
  unfold D2.orbifoldSymbol at h
  rw [if_neg (by simp [g.dim]), if_neg (by
    have : (⟨y, rep⟩ : Sym).isComplete = true := by
      cases rep <;> simp [Sym.isComplete, g.complete]
    simp [this]), htb, coneDegrees_good g] at h
  simp only at h
  split at h
  · cases h
  · have ho := (Outcome.ok.inj h).symm
    rw [ho]
    exact ⟨rfl, rfl, rfl⟩

/-! ### the three shapes -/

/-- the three shapes of a symbol of positive curvature (no handles) -/
inductive Shape (o : OrbSym) (loopless wo : Bool) : Prop
  | closedOrientable : loopless = true → wo = true → o.bnds = [] → (orbOf o).caps = 0 →
      (orbOf o).handles = 0 → Shape o loopless wo
  | closedCrossCap : loopless = true → wo = false → o.bnds = [] → (orbOf o).caps = 1 →
      (orbOf o).handles = 0 → Shape o loopless wo
  | disc (B : List Nat) : loopless = false → wo = true → o.bnds = [B] → (orbOf o).caps = 0 →
      (orbOf o).handles = 0 → Shape o loopless wo

theorem shape_of_positive {s : Sym} (g : Good2d s) (hsz : s.view.size = s.size) (hdm : s.view.dim = s.dim)
    {o : OrbSym} (hx : SymbolCensus s o) (hcap : o.orientable = false → 1 ≤ o.count)
    (hpos : 0 < SpecC08.chiQ (orbOf o)) :
    Shape o s.view.isLoopless s.view.isWeaklyOriented := by
  obtain ⟨bnds, htb, hb, hori, _⟩ := orbSym_fields g hx.sym
  obtain ⟨hh, hlen⟩ := SpecC08.chi_pos_shape (orbOf o) (orbOf_wf_census hx) hpos
  have hnil := traceBoundary_nil_iff s bnds htb hsz hdm
  rw [← hb] at hnil
  have hbl : (orbOf o).bnds = o.bnds := rfl
  have hcaps : (orbOf o).caps = if o.orientable then 0 else o.count := rfl
  rw [hbl] at hlen
  cases hl : s.view.isLoopless
  · -- a mirror: at least one boundary component
    have hne : o.bnds ≠ [] := by
      intro e; have := hnil.mp e; rw [hl] at this; cases this
    have hlen1 : o.bnds.length = 1 ∧ (orbOf o).caps = 0 := by
      have : 1 ≤ o.bnds.length := List.length_pos_iff.mpr hne
      omega
    cases hw : s.view.isWeaklyOriented
    · exfalso
      rw [hw] at hori
      have := hcap hori
      rw [hcaps, hori] at hlen1
      simp only [Bool.false_eq_true, if_false] at hlen1
      omega
    · obtain ⟨B, hB⟩ := List.length_eq_one_iff.mp hlen1.1
      exact Shape.disc B rfl rfl hB hlen1.2 hh
  · have hbn : o.bnds = [] := hnil.mpr hl
    cases hw : s.view.isWeaklyOriented
    · rw [hw] at hori
      have h1 := hcap hori
      have : (orbOf o).caps = 1 := by
        rw [hcaps, hori]
        simp only [Bool.false_eq_true, if_false]
        rw [hbn, hcaps, hori] at hlen
        simp only [List.length_nil, Bool.false_eq_true, if_false] at hlen
        omega
      exact Shape.closedCrossCap rfl rfl hbn this hh
    · rw [hw] at hori
      have : (orbOf o).caps = 0 := by rw [hcaps, hori]; rfl
      exact Shape.closedOrientable rfl rfl hbn this hh

end DSymVerif.SymGen
