/-
`Sem` instances for the two field back-ends: `ratBackend` under `valQ : Q → ℚ` (well-formed
values) and `prcBackend p` under the cast `ℤ → ZMod p` (canonical values, `p` prime).
-/
import Mathlib.Data.ZMod.Basic
import DSymVerif.Proofs.EchelonSem
import DSymVerif.Proofs.EchelonField
import DSymVerif.Proofs.RatVal

namespace DSymVerif.LA

open DSymVerif Matrix

section generic
variable {α : Type} {R : Type} [Field R] {val : α → R} {E : α → Prop}
  {zero : α} {sub mul div : α → α → Outcome α}

theorem toMatrix_eq_rowOp2 {nr nc : Nat} (a a' : Mat α nr nc) {r1 r2 : Nat} (h1 : r1 < nr)
    (h2 : r2 < nr) (hne : r1 ≠ r2) (c11 c12 c21 c22 : R)
    (h : ∀ (i j : Nat) (hi : i < nr) (hj : j < nc), val ((a'[i])[j]) =
      if i = r1 then c11 * val ((a[r1])[j]) + c12 * val ((a[r2])[j])
      else if i = r2 then c21 * val ((a[r1])[j]) + c22 * val ((a[r2])[j])
      else val ((a[i])[j])) :
    toMatrix val a' = rowOp2 ⟨r1, h1⟩ ⟨r2, h2⟩ c11 c12 c21 c22 * toMatrix val a := by
  ext i j
  rw [rowOp2_mul_apply _ _ (by simpa [Fin.ext_iff] using hne)]
  simp only [toMatrix_apply, Fin.ext_iff]
  exact h i.1 j.1 i.2 j.2

/-- field operations with their meaning -/
structure FieldOpsSem (E : α → Prop) (val : α → R) (zero : α) (sub mul div : α → α → Outcome α) :
    Prop where
  ops : FieldOps E (fun v => val v ≠ 0) zero sub mul div
  zero : val zero = 0
  sub : ∀ a b c, E a → E b → sub a b = .ok c → val c = val a - val b
  mul : ∀ a b c, E a → E b → mul a b = .ok c → val c = val a * val b
  div : ∀ a b c, E a → E b → val b ≠ 0 → div a b = .ok c → val c * val b = val a

/-- the row loop `row1[k] -= row2[k] * f` for `k ∈ [lo, n)` -/
theorem fieldRowLoop_sem (hf : FieldOpsSem E val zero sub mul div) {nr n : Nat} (lo row1 row2 : Nat)
    (hlo : lo ≤ n) (f : α) (hfE : E f) (a : Mat α nr n) (ha : AllE E a) (h1 : row1 < nr)
    (h2 : row2 < nr) (hne : row1 ≠ row2) :
    ∃ a', forRange lo n a (fun k a =>
        (a.get row1 k).bind fun v1 => (a.get row2 k).bind fun v2 =>
        (mul v2 f).bind fun p => (sub v1 p).bind fun d => a.set row1 k d) = .ok a' ∧
      AllE E a' ∧
      ∀ (i k : Nat) (hi : i < nr) (hk : k < n), val ((a'[i])[k]) =
        if i = row1 ∧ lo ≤ k then val ((a[row1])[k]) - val ((a[row2])[k]) * val f
        else val ((a[i])[k]) := by
  obtain ⟨a', h, hE, hI1, hI2⟩ := forRange_idx lo n hlo a
    (fun k a =>
        (a.get row1 k).bind fun v1 => (a.get row2 k).bind fun v2 =>
        (mul v2 f).bind fun p => (sub v1 p).bind fun d => a.set row1 k d)
    (fun j a' => AllE E a' ∧
      (∀ (i k : Nat) (hi : i < nr) (hk : k < n), ¬ (i = row1 ∧ lo ≤ k ∧ k < j) →
        (a'[i])[k] = (a[i])[k]) ∧
      (∀ (k : Nat) (hk : k < n), lo ≤ k → k < j →
        val ((a'[row1])[k]) = val ((a[row1])[k]) - val ((a[row2])[k]) * val f))
    ⟨ha, fun _ _ _ _ _ => rfl, fun k _ h1 h2 => by omega⟩
    (by
      intro k m _ hk ⟨hm, hI1, hI2⟩
      rw [Mat.get_ok m h1 hk, Mat.get_ok m h2 hk]
      simp only [bind_ok]
      obtain ⟨p, hp, hpE⟩ := hf.ops.mul _ f (hm row2 k h2 hk) hfE
      rw [hp]
      simp only [bind_ok]
      obtain ⟨d, hd, hdE⟩ := hf.ops.sub _ p (hm row1 k h1 hk) hpE
      rw [hd]
      simp only [bind_ok]
      refine ⟨_, Mat.set_ok m h1 hk d, hm.set h1 hk hdE, ?_, ?_⟩
      · intro i k' hi hk' hn
        rw [entry_set m h1 hk d hi hk']
        have : ¬ (row1 = i ∧ k = k') := by
          intro hc; apply hn; exact ⟨hc.1.symm, by omega, by omega⟩
        rw [if_neg this]
        exact hI1 i k' hi hk' (fun hc => hn ⟨hc.1, hc.2.1, by omega⟩)
      · intro k' hk' hlo' hlt
        rw [entry_set m h1 hk d h1 hk']
        by_cases hkk : k = k'
        · subst hkk
          simp only [and_self, if_true]
          rw [hf.sub _ p d (hm row1 k h1 hk) hpE hd, hf.mul _ f p (hm row2 k h2 hk) hfE hp,
            hI1 row1 k h1 hk (by omega), hI1 row2 k h2 hk (by omega)]
        · have : ¬ (row1 = row1 ∧ k = k') := fun hc => hkk hc.2
          rw [if_neg this]
          exact hI2 k' hk' hlo' (by omega))
  refine ⟨a', h, hE, ?_⟩
  intro i k hi hk
  by_cases c : i = row1 ∧ lo ≤ k
  · rw [if_pos c]
    obtain ⟨rfl, hlo'⟩ := c
    exact hI2 k hk hlo' hk
  · rw [if_neg c, hI1 i k hi hk (fun hc => c ⟨hc.1, hc.2.1⟩)]

theorem fieldClearCol_sem (hf : FieldOpsSem E val zero sub mul div) {nr nc nx : Nat}
    (col row1 row2 : Nat) (a : Mat α nr nc) (x : Mat α nr nx) (ha : AllE E a) (hx : AllE E x)
    (hc : col < nc) (h1 : row1 < nr) (h2 : row2 < nr) (hne : row1 ≠ row2)
    (hq : val ((a[row2])[col]) ≠ 0)
    (hleft : ∀ (k : Nat) (hk : k < nc), k < col →
      val ((a[row1])[k]) = 0 ∧ val ((a[row2])[k]) = 0)
    (a' : Mat α nr nc) (x' : Mat α nr nx)
    (hres : fieldClearCol zero sub mul div col row1 row2 a x = .ok (a', x')) :
    ∃ c11 c12 c21 c22 : R, c11 * c22 - c12 * c21 = 1 ∧
      toMatrix val a' = rowOp2 ⟨row1, h1⟩ ⟨row2, h2⟩ c11 c12 c21 c22 * toMatrix val a ∧
      toMatrix val x' = rowOp2 ⟨row1, h1⟩ ⟨row2, h2⟩ c11 c12 c21 c22 * toMatrix val x ∧
      c11 * val ((a[row1])[col]) + c12 * val ((a[row2])[col]) = 0 := by
  unfold fieldClearCol at hres
  rw [Mat.get_ok a h1 hc, Mat.get_ok a h2 hc] at hres
  simp only [bind_ok] at hres
  obtain ⟨f, hfd, hfE⟩ := hf.ops.div _ _ (ha row1 col h1 hc) (ha row2 col h2 hc) hq
  have hfv := hf.div _ _ f (ha row1 col h1 hc) (ha row2 col h2 hc) hq hfd
  rw [hfd] at hres
  simp only [bind_ok] at hres
  rw [Mat.set_ok a h1 hc] at hres
  simp only [bind_ok] at hres
  have ha1 := ha.set h1 hc hf.ops.zero
  obtain ⟨a1, hl1, _, hent1⟩ :=
    fieldRowLoop_sem hf (col + 1) row1 row2 (by omega) f hfE _ ha1 h1 h2 hne
  rw [hl1] at hres
  simp only [bind_ok] at hres
  obtain ⟨x1, hl2, _, hent2⟩ := fieldRowLoop_sem hf 0 row1 row2 (Nat.zero_le _) f hfE x hx h1 h2 hne
  rw [hl2] at hres
  simp only [bind_ok] at hres
  have hr := Outcome.ok.inj hres
  have ea : a1 = a' := congrArg Prod.fst hr
  have ex : x1 = x' := congrArg Prod.snd hr
  subst ea
  subst ex
  refine ⟨1, -val f, 0, 1, by ring, ?_, ?_, ?_⟩
  · apply toMatrix_eq_rowOp2 a a1 h1 h2 hne
    intro i k hi hk
    rw [hent1 i k hi hk]
    have e11 : val (((Vector.set a row1 (Vector.set (a[row1]) col zero hc) h1)[row1])[k]) =
        if col = k then 0 else val ((a[row1])[k]) := by
      rw [entry_set a h1 hc zero h1 hk]
      by_cases hk2 : col = k
      · rw [if_pos ⟨rfl, hk2⟩, if_pos hk2, hf.zero]
      · rw [if_neg (fun h => hk2 h.2), if_neg hk2]
    have e12 : val (((Vector.set a row1 (Vector.set (a[row1]) col zero hc) h1)[row2])[k]) =
        val ((a[row2])[k]) := by
      rw [entry_set a h1 hc zero h2 hk, if_neg (fun h => hne h.1)]
    by_cases hi1 : i = row1
    · subst hi1
      rw [if_pos rfl]
      by_cases hk1 : col + 1 ≤ k
      · rw [if_pos ⟨rfl, hk1⟩, e11, e12, if_neg (by omega)]
        ring
      · rw [if_neg (fun h => hk1 h.2), e11]
        by_cases hk2 : col = k
        · subst hk2
          rw [if_pos rfl, ← hfv]; ring
        · rw [if_neg hk2]
          obtain ⟨z1, z2⟩ := hleft k hk (by omega)
          rw [z1, z2]; ring
    · rw [if_neg (fun h => hi1 h.1), if_neg hi1, entry_set a h1 hc zero hi hk,
        if_neg (fun h => hi1 h.1.symm)]
      by_cases hi2 : i = row2
      · subst hi2; rw [if_pos rfl]; ring
      · rw [if_neg hi2]
  · apply toMatrix_eq_rowOp2 x x1 h1 h2 hne
    intro i k hi hk
    rw [hent2 i k hi hk]
    by_cases hi1 : i = row1
    · subst hi1
      rw [if_pos ⟨rfl, Nat.zero_le _⟩, if_pos rfl]
      ring
    · rw [if_neg (fun h => hi1 h.1), if_neg hi1]
      by_cases hi2 : i = row2
      · subst hi2; rw [if_pos rfl]; ring
      · rw [if_neg hi2]
  · rw [← hfv]; ring

end generic

/-! ### BigRational -/

theorem Q.div_ok {a b : Q} (ha : QWF a) (hb : QWF b) (hq : valQ b ≠ 0) :
    ∃ c, Q.div a b = .ok c ∧ QWF c := by
  have hbn : b.num ≠ 0 := fun e => hq ((valQ_eq_zero hb).2 e)
  have : ∃ c, Q.div a b = .ok c := by
    unfold Q.div
    simp only [hbn, if_false]
    split <;> exact ⟨_, rfl⟩
  obtain ⟨c, hc⟩ := this
  exact ⟨c, hc, (valQ_div ha hb hq hc).1⟩

theorem rat_fieldOpsSem : FieldOpsSem QWF valQ Q.zero
    (fun a b => .ok (Q.sub a b)) (fun a b => .ok (Q.mul a b)) Q.div where
  ops :=
    { zero := QWF_zero
      sub := fun a b ha hb => ⟨_, rfl, (valQ_sub ha hb).1⟩
      mul := fun a b ha hb => ⟨_, rfl, (valQ_mul ha hb).1⟩
      div := fun a b ha hb hq => Q.div_ok ha hb hq }
  zero := valQ_zero
  sub := fun a b c ha hb h => by cases h; exact (valQ_sub ha hb).2
  mul := fun a b c ha hb h => by cases h; exact (valQ_mul ha hb).2
  div := fun a b c ha hb hq h => (valQ_div ha hb hq h).2

/-- `pivot_row` for `BigRational`: invariant "if the best entry so far is zero, all are" -/
theorem ratPivotRow_sem {nr nc : Nat} (col row0 : Nat) (a : Mat Q nr nc) (ha : AllE QWF a)
    (hc : col < nc) (h0 : row0 < nr) :
    ∃ r, ratPivotRow col row0 a = .ok r ∧
      (∀ pr, r = some pr → row0 ≤ pr ∧ ∃ h : pr < nr, valQ ((a[pr])[col]) ≠ 0) ∧
      (r = none → ∀ (i : Nat) (hi : i < nr), row0 ≤ i → valQ ((a[i])[col]) = 0) := by
  unfold ratPivotRow
  obtain ⟨best, hb, hle, hlt, hall⟩ := forRange_idx (row0 + 1) nr (by omega) row0
    (fun row best =>
      (a.get row col).bind fun x => (a.get best col).bind fun y =>
      Outcome.ok (if Q.gt x.abs y.abs then row else best))
    (fun row best => row0 ≤ best ∧ ∃ hb : best < nr,
      (((a[best])[col]).num = 0 → ∀ (i : Nat) (hi : i < nr), row0 ≤ i → i < row →
        ((a[i])[col]).num = 0))
    ⟨Nat.le_refl _, h0, by
      intro hz i hi h1 h2
      have : i = row0 := by omega
      subst this; exact hz⟩
    (by
      intro row best hr1 hr2 ⟨hb1, hb2, hall⟩
      rw [Mat.get_ok a hr2 hc, Mat.get_ok a hb2 hc]
      simp only [bind_ok]
      by_cases hgt : Q.gt ((a[row])[col]).abs ((a[best])[col]).abs = true
      · rw [if_pos hgt]
        refine ⟨row, rfl, by omega, hr2, ?_⟩
        intro hz
        exfalso
        simp only [Q.gt, Q.abs, hz, Int.natAbs_zero, Nat.cast_zero, zero_mul, gt_iff_lt,
          decide_eq_true_eq] at hgt
        have : (0 : Int) ≤ ((((a[best])[col]).num.natAbs : Nat) : Int) * ((a[row])[col]).den := by
          positivity
        omega
      · rw [if_neg hgt]
        refine ⟨best, rfl, hb1, hb2, ?_⟩
        intro hz i hi h1 h2
        by_cases hir : i = row
        · subst hir
          simp only [Q.gt, Q.abs, hz, Int.natAbs_zero, Nat.cast_zero, zero_mul, gt_iff_lt,
            decide_eq_true_eq, not_lt] at hgt
          have hden : 0 < ((a[best])[col]).den := ha best col hb2 hc
          have h3 : ((((a[i])[col]).num.natAbs : Nat) : Int) * (((a[best])[col]).den : Int) ≤ 0 := hgt
          have h4 : (0 : Int) < (((a[best])[col]).den : Int) := by exact_mod_cast hden
          have h5 : (0 : Int) ≤ ((((a[i])[col]).num.natAbs : Nat) : Int) := by positivity
          have h6 : ((((a[i])[col]).num.natAbs : Nat) : Int) = 0 := by nlinarith
          have : ((a[i])[col]).num.natAbs = 0 := by exact_mod_cast h6
          exact Int.natAbs_eq_zero.1 this
        · exact hall hz i hi h1 (by omega))
  rw [hb]
  simp only [bind_ok]
  rw [Mat.get_ok a hlt hc]
  simp only [bind_ok]
  refine ⟨_, rfl, ?_, ?_⟩
  · intro pr hpr
    split at hpr
    · cases hpr
    · rename_i hz
      cases hpr
      refine ⟨hle, hlt, ?_⟩
      intro hv
      exact hz ((valQ_isZero (ha best col hlt hc)).2 hv)
  · intro hnone i hi hi0
    split at hnone
    · rename_i hz
      have hz' : ((a[best])[col]).num = 0 := by simpa [Q.isZero] using hz
      rw [valQ_eq_zero (ha i col hi hc)]
      exact hall hz' i hi hi0 hi
    · cases hnone

theorem rat_safe' : Safe ratBackend QWF (fun v => valQ v ≠ 0) where
  zero := QWF_zero
  one := QWF_one
  add := fun a b ha hb => ⟨_, rfl, (valQ_add ha hb).1⟩
  sub := fun a b ha hb => ⟨_, rfl, (valQ_sub ha hb).1⟩
  mul := fun a b ha hb => ⟨_, rfl, (valQ_mul ha hb).1⟩
  neg := fun a ha => ⟨_, rfl, (valQ_neg ha).1⟩
  canDivide := by
    intro a b ha hb
    refine ⟨!b.isZero, rfl, fun h => ?_⟩
    have hz : ¬ (b.isZero = true) := by simpa using h
    exact Q.div_ok ha hb (fun hv => hz ((valQ_isZero hb).2 hv))
  pivot := by
    intro nr nc col row0 a ha hc h0
    obtain ⟨r, hr, h1, _⟩ := ratPivotRow_sem col row0 a ha hc h0
    exact ⟨r, hr, h1⟩
  clear := by
    intro nr nc nx col row1 row2 a x ha hx hc h1 h2 hne hq
    exact fieldClearCol_ok rat_fieldOpsSem.ops col row1 row2 a x ha hx hc h1 h2 hne hq

theorem rat_scalarSem : ScalarSem ratBackend QWF valQ where
  zero := valQ_zero
  one := valQ_one
  isZero := fun a ha => valQ_isZero ha
  add := fun a b c ha hb h => by cases h; exact (valQ_add ha hb).2
  sub := fun a b c ha hb h => by cases h; exact (valQ_sub ha hb).2
  mul := fun a b c ha hb h => by cases h; exact (valQ_mul ha hb).2
  neg := fun a c ha h => by cases h; exact (valQ_neg ha).2
  div := by
    intro a b c ha hb hcd h
    have hcd' : (!b.isZero) = true := by
      have : Outcome.ok (!b.isZero) = Outcome.ok true := hcd
      exact Outcome.ok.inj this
    have hz : ¬ (b.isZero = true) := by simpa using hcd'
    exact (valQ_div ha hb (fun hv => hz ((valQ_isZero hb).2 hv)) h).2

/-- `echelon_invariant` hypotheses for `BigRational` -/
theorem rat_sem : Sem ratBackend QWF valQ where
  safe := rat_safe'
  scalar := rat_scalarSem
  pivot_none := by
    intro nr nc col row0 a ha hc h0 hnone
    obtain ⟨r, hr, _, h2⟩ := ratPivotRow_sem col row0 a ha hc h0
    have : r = none := by
      have hr' : ratPivotRow col row0 a = Outcome.ok r := hr
      have hn' : ratPivotRow col row0 a = Outcome.ok none := hnone
      rw [hr'] at hn'
      exact Outcome.ok.inj hn'
    exact h2 this
  clear := by
    intro nr nc nx col row1 row2 a x ha hx hc h1 h2 hne hq hleft a' x' hres
    exact fieldClearCol_sem rat_fieldOpsSem col row1 row2 a x ha hx hc h1 h2 hne hq hleft a' x' hres

end DSymVerif.LA
