/-
C13, towards injectivity: the action of `⟨1..n | rels⟩` on `rows × P` twisted by an
anti-symmetric edge labelling with values in a group `P` on which every relator cycle has trivial
voltage (`actionHomP`), and the resulting criterion `injective_of_twisted`.
-/
import DSymVerif.Proofs.StabilizerPresentation

set_option linter.unusedSectionVars false
set_option linter.unusedVariables false

namespace DSymVerif.StabP
open DSymVerif DSymVerif.SpecC11 DSymVerif.CosetP DSymVerif.FWP DSymVerif.Cosets
open DSymVerif.Stab hiding traceWord

/-! ### the action on rows × P twisted by an edge labelling -/

section Twisted
variable {t : Tab} {n : Nat} {rels subs : List (List Int)} {P : Type} [Group P]

/-- `(c, q) ↦ (c·g, q · λ(c, g))` -/
def stepP (t : Tab) (n : Nat) (lam : Nat → Int → P) (g : Int) (x : Fin t.size × P) : Fin t.size × P :=
  (stepFin t n g x.1, x.2 * lam x.1.val g)

theorem stepP_cancel (hv : Valid t n rels subs) {lam : Nat → Int → P} (hanti : AntiSym t n lam)
    {g : Int} (hg : g ∈ letters n) (x : Fin t.size × P) :
    stepP t n lam (-g) (stepP t n lam g x) = x := by
  obtain ⟨c, q⟩ := x
  obtain ⟨d, hd⟩ := hv.total c.val c.isLt g hg
  have h1 : (stepFin t n g c).val = d := stepFin_eq hd
  unfold stepP
  simp only
  rw [stepFin_cancel hv hg, h1, hanti _ _ _ hd]
  simp

/-- the twisted permutation of a letter -/
noncomputable def letterPermP (hv : Valid t n rels subs) {lam : Nat → Int → P} (hanti : AntiSym t n lam)
    (g : Int) : Equiv.Perm (Fin t.size × P) :=
  if hg : g ∈ letters n then
    { toFun := stepP t n lam g
      invFun := stepP t n lam (-g)
      left_inv := stepP_cancel hv hanti hg
      right_inv := fun x => by
        have := stepP_cancel hv hanti (neg_mem_letters hg) x
        simpa using this }
  else 1

variable (hv : Valid t n rels subs) {lam : Nat → Int → P} (hanti : AntiSym t n lam)

theorem letterPermP_apply {g : Int} (hg : g ∈ letters n) (x : Fin t.size × P) :
    letterPermP hv hanti g x = stepP t n lam g x := by
  unfold letterPermP; simp [hg]

theorem letterPermP_neg {g : Int} (hg : g ∈ letters n) :
    letterPermP hv hanti (-g) = (letterPermP hv hanti g)⁻¹ := by
  apply Equiv.ext
  intro c
  rw [letterPermP_apply hv hanti (neg_mem_letters hg)]
  symm
  rw [Equiv.Perm.inv_eq_iff_eq, letterPermP_apply hv hanti hg]
  have := stepP_cancel hv hanti (neg_mem_letters hg) c
  simpa using this.symm

noncomputable def genImgP (i : Fin n) : Equiv.Perm (Fin t.size × P) :=
  (letterPermP hv hanti ((i.val : Int) + 1))⁻¹

theorem lift_letterEltP {g : Int} (hg : g ∈ letters n) :
    (FreeGroup.lift (genImgP hv hanti) (letterElt n g))⁻¹ = letterPermP hv hanti g := by
  rw [mem_letters] at hg
  unfold letterElt
  by_cases h1 : 1 ≤ g ∧ g ≤ n
  · simp only [h1, and_self, dif_pos, FreeGroup.lift_apply_of]
    unfold genImgP
    simp only [inv_inv]
    congr 1
    show ((g.toNat - 1 : Nat) : Int) + 1 = g
    omega
  · have h2 : 1 ≤ -g ∧ -g ≤ n := by omega
    simp only [h1, dif_neg, h2, and_self, dif_pos, map_inv, FreeGroup.lift_apply_of, inv_inv, not_false_eq_true]
    unfold genImgP
    have hm : -g ∈ letters n := mem_letters.mpr (Or.inl h2)
    have : (((⟨(-g).toNat - 1, by omega⟩ : Fin n).val : Int) + 1) = -g := by
      show (((-g).toNat - 1 : Nat) : Int) + 1 = -g
      omega
    rw [this, ← letterPermP_neg hv hanti hm, neg_neg]

/-- tracing a word: the row moves along the word and the label is multiplied by the voltage -/
theorem lift_traceP : ∀ (w : List Int) (c : Fin t.size) (q : P) (d : Nat),
    traceWord t n c.val w = some d →
    ∃ hd : d < t.size, (FreeGroup.lift (genImgP hv hanti) (wordElt n w))⁻¹ (c, q) =
      (⟨d, hd⟩, q * vol t n lam c.val w)
  | [], c, q, d, h => by
    simp only [traceWord, Option.some.injEq] at h
    subst h
    exact ⟨c.isLt, by simp [vol]⟩
  | g :: w, c, q, d, h => by
    simp only [traceWord] at h
    cases he : entry t n c.val g with
    | none => simp [he] at h
    | some e =>
      simp only [he] at h
      have hg := (entry_some he).2.2
      have h1 : letterPermP hv hanti g (c, q) = (⟨e, (entry_some he).1⟩, q * lam c.val g) := by
        rw [letterPermP_apply hv hanti hg]
        unfold stepP
        simp only
        congr 1
        exact Fin.ext (stepFin_eq he)
      obtain ⟨hd, ih⟩ := lift_traceP w ⟨e, (entry_some he).1⟩ (q * lam c.val g) d h
      refine ⟨hd, ?_⟩
      rw [wordElt_cons, map_mul, mul_inv_rev, Equiv.Perm.mul_apply, lift_letterEltP hv hanti hg, h1, ih]
      simp only [vol, he, mul_assoc]

theorem lift_relP (hrel : ∀ r ∈ rels, ∀ c, c < t.size → vol t n lam c r = 1) :
    ∀ r ∈ relSet n rels, FreeGroup.lift (genImgP hv hanti) r = 1 := by
  rintro _ ⟨r, hr, rfl⟩
  rw [← inv_eq_one]
  apply Equiv.ext
  rintro ⟨c, q⟩
  obtain ⟨hd, h⟩ := lift_traceP hv hanti r c q c.val (hv.rel r hr c.val c.isLt)
  rw [h, hrel r hr c.val c.isLt]
  simp

/-- the twisted action homomorphism -/
noncomputable def actionHomP (hrel : ∀ r ∈ rels, ∀ c, c < t.size → vol t n lam c r = 1) :
    PresentedGroup (relSet n rels) →* Equiv.Perm (Fin t.size × P) :=
  PresentedGroup.toGroup (lift_relP hv hanti hrel)

theorem actionHomP_trace (hrel : ∀ r ∈ rels, ∀ c, c < t.size → vol t n lam c r = 1)
    (w : List Int) (c : Fin t.size) (q : P) (d : Nat) (h : traceWord t n c.val w = some d) :
    ∃ hd : d < t.size, (actionHomP hv hanti hrel (mkG n rels w))⁻¹ (c, q) = (⟨d, hd⟩, q * vol t n lam c.val w) := by
  obtain ⟨hd, h1⟩ := lift_traceP hv hanti w c q d h
  refine ⟨hd, ?_⟩
  have : actionHomP hv hanti hrel (mkG n rels w) = FreeGroup.lift (genImgP hv hanti) (wordElt n w) := rfl
  rw [this]; exact h1


end Twisted

section Injective
variable {t : Tab} {n : Nat} {rels subs : List (List Int)}

/-- if tracing the `i`-th generator word from the base row returns to it with voltage "new generator
    `i`", the map from the presented group on the new generators is injective -/
theorem injective_of_twisted (hv : Valid t n rels subs) {m : Nat} {srels : List (List Int)} {gens : List (List Int)} (hm : gens.length = m)
    {lam : Nat → Int → PresentedGroup (relSet m srels)} (hanti : AntiSym t n lam)
    (hrel : ∀ r ∈ rels, ∀ c, c < t.size → vol t n lam c r = 1)
    {base : Nat} (hb : base < t.size)
    (f : PresentedGroup (relSet m srels) →* GP n rels)
    (hK : ∀ i : Fin m, ∃ w, f (PresentedGroup.of i) = mkG n rels w ∧ traceWord t n base w = some base ∧
      vol t n lam base w = PresentedGroup.of i) :
    Function.Injective f := by
  let Φ := actionHomP hv hanti hrel
  let S : Subgroup (PresentedGroup (relSet m srels)) :=
    { carrier := {p | ∀ q, (Φ (f p))⁻¹ (⟨base, hb⟩, q) = (⟨base, hb⟩, q * p)}
      one_mem' := by intro q; simp
      mul_mem' := by
        intro a b ha hb' q
        rw [map_mul, map_mul, mul_inv_rev, Equiv.Perm.mul_apply, ha q, hb' (q * a), mul_assoc]
      inv_mem' := by
        intro a ha q
        rw [map_inv, map_inv, inv_inv]
        have := ha (q * a⁻¹)
        rw [inv_mul_cancel_right] at this
        rw [← this]
        simp }
  have hS : S = ⊤ := by
    rw [eq_top_iff, ← PresentedGroup.closure_range_of, Subgroup.closure_le]
    rintro _ ⟨i, rfl⟩
    intro q
    obtain ⟨w, hw1, hw2, hw3⟩ := hK i
    rw [hw1]
    obtain ⟨hd, h⟩ := actionHomP_trace hv hanti hrel w ⟨base, hb⟩ q base hw2
    rw [h, hw3]
  rw [injective_iff_map_eq_one]
  intro p hp
  have hpS : p ∈ S := by rw [hS]; trivial
  have := hpS 1
  rw [hp, map_one, inv_one, Equiv.Perm.one_apply, one_mul] at this
  exact (congrArg Prod.snd this).symm

end Injective

end DSymVerif.StabP
