/-
Helper lemmas for property C04, part 14: the minimal image has no proper quotient; any two
minimal quotients of a connected symbol are isomorphic (`IsIso` of C03); a symbol and every
symbol that maps onto it (a cover) have isomorphic minimal images.
-/
import DSymVerif.Proofs.MorphismQuot4

namespace DSymVerif.Mor
open DSymVerif.DS DSymVerif.DS.CanonP

/-- every degree-respecting congruence of `c` is trivial: `c` admits no proper quotient -/
def NoProperQuotient (c : DSymData) : Prop :=
  ∀ γ : Nat → Nat, OpClosed (ofSym c) γ → DegResp (ofSym c) γ →
    ∀ k k', 1 ≤ k → k ≤ c.size → 1 ≤ k' → k' ≤ c.size → γ k = γ k' → k = k'

/-- `is_minimal()` ⇔ no proper quotient (connected valid symbol) — Proofs-level form of
    `C04.is_minimal_iff_no_proper_quotient` -/
theorem isMinimal_true_iff (c : DSymData) (hc : ValidSet c.dset) (hconn : Connected (ofSym c))
    (h1 : 1 ≤ c.size) : isMinimal (ofSym c) = .ok true ↔ NoProperQuotient c := by
  obtain ⟨hR, _, hC, hI⟩ := ofSym_validSet c hc
  have h1' : 1 ≤ (ofSym c).size := h1
  obtain ⟨b, hb⟩ := isMinimal_total (ofSym c) hR h1'
  have hiff := isMinimal_spec (ofSym c) hR hC h1' b hb
  constructor
  · intro h γ hcc hcd x y hx1 hx2 hy1 hy2 hxy
    rw [hb] at h
    cases h
    have hno := hiff.1 rfl
    apply cong_trivial_of_class_one (ofSym c) hR hC hI hconn γ hcc ?_ x y ⟨hx1, hx2⟩ ⟨hy1, hy2⟩ hxy
    intro d hd hcd1
    by_cases hd1 : d = 1
    · exact hd1
    · exact (hno ⟨d, γ, by have := hd.1; omega, hd.2, hcc, hcd, hcd1⟩).elim
  · intro h
    have : b = true := hiff.2 (by
      rintro ⟨d, γ, hd1, hd2, hcc, hcd, h1d⟩
      have := h γ hcc hcd 1 d (Nat.le_refl 1) h1 (by omega) hd2 h1d
      omega)
    rw [hb, this]

/-- a quotient by the coarsest congruence has no proper quotient -/
theorem noProperQuotient_of_coarsest {a c : DSymData} {π Q : Nat → Nat} (ha : ValidTables a)
    (hc : ValidTables c) (hm : SymMor a c π) (hsurj : Surj a c π) (hQ : IsCoarsest (ofSym a) Q)
    (hker : ∀ d d', 1 ≤ d → d ≤ a.size → 1 ≤ d' → d' ≤ a.size → (π d = π d' ↔ Q d = Q d')) :
    NoProperQuotient c := by
  intro γ hcc hcd k k' hk1 hk2 hk1' hk2' hkk
  obtain ⟨d, hd1, hd2, rfl⟩ := hsurj k hk1 hk2
  obtain ⟨d', hd1', hd2', rfl⟩ := hsurj k' hk1' hk2'
  have hp := hm.pull_cong ha hc ⟨hcc, hcd⟩
  have := hQ.max _ hp d d' ⟨hd1, hd2⟩ ⟨hd1', hd2'⟩ ((pull_in ⟨hd1, hd2⟩ ⟨hd1', hd2'⟩).2 hkk)
  exact (hker d d' hd1 hd2 hd1' hd2').2 this

/-! ### bijective morphisms are isomorphisms -/

theorem size_eq_of_bij {n n' : Nat} (g : Nat → Nat)
    (hr : ∀ k, 1 ≤ k → k ≤ n' → 1 ≤ g k ∧ g k ≤ n)
    (hinj : ∀ k k', 1 ≤ k → k ≤ n' → 1 ≤ k' → k' ≤ n' → g k = g k' → k = k')
    (hsurj : ∀ e, 1 ≤ e → e ≤ n → ∃ k, 1 ≤ k ∧ k ≤ n' ∧ g k = e) : n = n' := by
  have h1 : (Finset.range n').card ≤ (Finset.range n).card := by
    apply Finset.card_le_card_of_injOn (fun k => g (k + 1) - 1)
    · intro k hk
      have hk' : k < n' := by simpa using hk
      have := hr (k + 1) (by omega) (by omega)
      simp only [Finset.coe_range, Set.mem_Iio]
      omega
    · intro k hk k' hk' hkk
      have hk1 : k < n' := by simpa using hk
      have hk1' : k' < n' := by simpa using hk'
      have r := hr (k + 1) (by omega) (by omega)
      have r' := hr (k' + 1) (by omega) (by omega)
      have : g (k + 1) = g (k' + 1) := by
        have : g (k + 1) - 1 = g (k' + 1) - 1 := hkk
        omega
      have := hinj (k + 1) (k' + 1) (by omega) (by omega) (by omega) (by omega) this
      omega
  have h2 : (Finset.range n).card ≤ (Finset.range n').card := by
    apply Finset.card_le_card_of_surjOn (fun k => g (k + 1) - 1)
    intro e he
    have he' : e < n := by simpa using he
    obtain ⟨k, hk1, hk2, hk⟩ := hsurj (e + 1) (by omega) (by omega)
    refine ⟨k - 1, by simp only [Finset.coe_range, Set.mem_Iio]; omega, ?_⟩
    show g (k - 1 + 1) - 1 = e
    have : k - 1 + 1 = k := by omega
    rw [this, hk]; rfl
  simp only [Finset.card_range] at h1 h2
  omega

theorem ValidTables.vAdj_val {s : DSymData} (h : ValidTables s) {i b : Nat} (hi : i < s.dim)
    (h1 : 1 ≤ b) (h2 : b ≤ s.size) : s.vAdj i b = some (s.orbitVs.getD (s.ixAt i b) 0) :=
  h.vAdj_eq hi h1 h2

/-- a bijective morphism is an isomorphism in the sense of C03 -/
theorem SymMor.isIso_of_bij {a b : DSymData} {g : Nat → Nat} (ha : ValidTables a) (hb : ValidTables b)
    (hm : SymMor a b g)
    (hinj : ∀ k k', 1 ≤ k → k ≤ a.size → 1 ≤ k' → k' ≤ a.size → g k = g k' → k = k')
    (hsurj : Surj a b g) : IsIso g a b := by
  have hsize : b.size = a.size :=
    size_eq_of_bij g (fun k h1 h2 => hm.conj.range k h1 h2) hinj hsurj
  refine ⟨hsize, hm.dim, fun d h1 h2 => by rw [← hsize]; exact hm.conj.range d h1 h2, hinj, ?_, ?_⟩
  · intro i d hi h1 h2
    have r := hm.conj.range d h1 h2
    show (ofSym b).op i (g d) = ((ofSym a).op i d).map g
    rw [ofSym_op hi h1 h2, ofSym_op (by rw [hm.dim]; exact hi) r.1 r.2, hm.conj.op i d hi h1 h2]
    rfl
  · intro i d hi h1 h2
    have r := hm.conj.range d h1 h2
    have hib : i < b.dim := by rw [hm.dim]; exact hi
    rw [hb.vAdj_eq hib r.1 r.2, ha.vAdj_eq hi h1 h2]
    -- orbit lengths agree, degrees agree, hence branching numbers agree
    have hra := ha.rs_least hi h1 h2
    have hrb := hb.rs_least hib r.1 r.2
    have hi0 : i ≤ a.dset.dim := Nat.le_of_lt hi
    have hi1 : i + 1 ≤ a.dset.dim := hi
    have hdvd1 := hm.conj.least_dvd ha.set hi0 hi1 h1 h2 hra hrb
    -- a period of g d is a period of d
    have hper : IsPeriod a.dset i (i + 1) (b.orbitRs.getD (b.ixAt i (g d)) 0) d := by
      have hp : (b.dset.comp i (i + 1))^[b.orbitRs.getD (b.ixAt i (g d)) 0] (g d) = g d := hrb.2.1
      rw [hm.conj.iter ha.set hi0 hi1 h1 h2] at hp
      have rr := ha.set.comp_range hi0 hi1 h1 h2 (b.orbitRs.getD (b.ixAt i (g d)) 0)
      exact hinj _ _ rr.1 rr.2 h1 h2 hp
    have hdvd2 := IsLeastPeriod.dvd hra hper
    have hreq : b.orbitRs.getD (b.ixAt i (g d)) 0 = a.orbitRs.getD (a.ixAt i d) 0 :=
      Nat.dvd_antisymm hdvd1 hdvd2
    have hdeg := hm.deg i d hi h1 h2
    unfold DSymData.mVal at hdeg
    rw [hreq] at hdeg
    have hpos : 0 < a.orbitRs.getD (a.ixAt i d) 0 := hra.1
    rw [Nat.eq_of_mul_eq_mul_left hpos hdeg]

/-! ### uniqueness of the minimal quotient -/

/-- two quotients of `a`, one by the coarsest congruence, the other without proper quotient, are
    isomorphic -/
theorem minimal_quotient_unique {a c c' : DSymData} {π σ Q : Nat → Nat} (ha : ValidTables a)
    (hc : ValidTables c) (hc' : ValidTables c')
    (hπ : SymMor a c π) (hπs : Surj a c π) (hQ : IsCoarsest (ofSym a) Q)
    (hker : ∀ d d', 1 ≤ d → d ≤ a.size → 1 ≤ d' → d' ≤ a.size → (π d = π d' ↔ Q d = Q d'))
    (hσ : SymMor a c' σ) (hσs : Surj a c' σ) (hmin : NoProperQuotient c') :
    ∃ g, IsIso g c' c := by
  -- the kernel of σ lies in the kernel of π
  have hle : ∀ x y, 1 ≤ x → x ≤ a.size → 1 ≤ y → y ≤ a.size → σ x = σ y → π x = π y := by
    intro x y hx1 hx2 hy1 hy2 hxy
    have hk := hσ.ker_cong ha hc'
    have := hQ.max _ hk x y ⟨hx1, hx2⟩ ⟨hy1, hy2⟩ ((pull_in ⟨hx1, hx2⟩ ⟨hy1, hy2⟩).2 hxy)
    exact (hker x y hx1 hx2 hy1 hy2).2 this
  -- a section of σ, by choice
  have hex : ∀ k, ∃ d, (1 ≤ k ∧ k ≤ c'.size) → (1 ≤ d ∧ d ≤ a.size ∧ σ d = k) := by
    intro k
    by_cases hk : 1 ≤ k ∧ k ≤ c'.size
    · obtain ⟨d, hd⟩ := hσs k hk.1 hk.2
      exact ⟨d, fun _ => hd⟩
    · exact ⟨0, fun h => absurd h hk⟩
  choose τ hτ using hex
  have hgσ : ∀ x, 1 ≤ x → x ≤ a.size → π (τ (σ x)) = π x := by
    intro x hx1 hx2
    have r := hσ.conj.range x hx1 hx2
    obtain ⟨t1, t2, t3⟩ := hτ (σ x) r
    exact hle _ _ t1 t2 hx1 hx2 t3
  have hgm : SymMor c' c (fun k => π (τ k)) := by
    refine ⟨⟨hπ.dim.trans hσ.dim.symm, fun k hk1 hk2 => ?_, fun i k hi hk1 hk2 => ?_⟩,
      fun i k hi hk1 hk2 => ?_⟩
    · obtain ⟨t1, t2, _⟩ := hτ k ⟨hk1, hk2⟩
      exact hπ.conj.range _ t1 t2
    · obtain ⟨t1, t2, t3⟩ := hτ k ⟨hk1, hk2⟩
      have hia : i ≤ a.dset.dim := by rw [← hσ.conj.dim]; exact hi
      show c.dset.opU i (π (τ k)) = π (τ (c'.dset.opU i k))
      have r := ha.set.range i _ hia t1 t2
      rw [hπ.conj.op i _ hia t1 t2]
      have : c'.dset.opU i k = σ (a.dset.opU i (τ k)) := by
        rw [← hσ.conj.op i _ hia t1 t2, t3]
      rw [this, hgσ _ r.1 r.2]
    · obtain ⟨t1, t2, t3⟩ := hτ k ⟨hk1, hk2⟩
      have hia : i < a.dim := by rw [← hσ.dim]; exact hi
      show c.mVal i (π (τ k)) = c'.mVal i k
      rw [hπ.deg i _ hia t1 t2, ← hσ.deg i _ hia t1 t2, t3]
  have hgs : Surj c' c (fun k => π (τ k)) := by
    intro e he1 he2
    obtain ⟨d, hd1, hd2, rfl⟩ := hπs e he1 he2
    have r := hσ.conj.range d hd1 hd2
    exact ⟨σ d, r.1, r.2, hgσ d hd1 hd2⟩
  have hgi : ∀ k k', 1 ≤ k → k ≤ c'.size → 1 ≤ k' → k' ≤ c'.size →
      π (τ k) = π (τ k') → k = k' := by
    intro k k' hk1 hk2 hk1' hk2' hkk
    have hk := hgm.ker_cong hc' hc
    exact hmin _ hk.closed hk.deg k k' hk1 hk2 hk1' hk2'
      ((pull_in (γ := fun k => k) (π := fun k => π (τ k)) ⟨hk1, hk2⟩ ⟨hk1', hk2'⟩).2 hkk)
  exact ⟨_, hgm.isIso_of_bij hc' hc hgi hgs⟩

/-- **cover invariance**: if the connected valid symbol `a` maps onto the connected valid symbol
    `b` by a morphism (e.g. `a` is a cover of `b`), their minimal images are isomorphic -/
theorem minimalImage_of_morphism {a b : DSymData} {φ : Nat → Nat} (ha : ValidSym a) (hb : ValidSym b)
    (hsa : 1 ≤ a.size) (hda : 1 ≤ a.dim) (hsb : 1 ≤ b.size)
    (hca : Connected (ofSym a)) (hcb : Connected (ofSym b))
    (hφ : SymMor a b φ) (hφs : Surj a b φ) :
    ∃ qa qb g, minimalImage a = .ok qa ∧ minimalImage b = .ok qb ∧ IsIso g qb qa := by
  have hdb : 1 ≤ b.dim := by rw [hφ.dim]; exact hda
  obtain ⟨qa, πa, Qa, hqa, hqav, _, hπa, hπas, _, hQa, hkera⟩ := minimalImage_ok a ha hsa hda hca
  obtain ⟨qb, πb, Qb, hqb, hqbv, _, hπb, hπbs, _, hQb, hkerb⟩ := minimalImage_ok b hb hsb hdb hcb
  have hmin : NoProperQuotient qb :=
    noProperQuotient_of_coarsest hb.toValidTables hqbv.toValidTables hπb hπbs hQb hkerb
  obtain ⟨g, hg⟩ := minimal_quotient_unique ha.toValidTables hqav.toValidTables hqbv.toValidTables
    hπa hπas hQa hkera (hφ.comp hπb) (hφs.comp hπbs) hmin
  exact ⟨qa, qb, g, hqa, hqb, hg⟩

end DSymVerif.Mor

namespace DSymVerif.Mor
open DSymVerif.DS DSymVerif.DS.CanonP

/-- everything about `minimal_image` on a connected valid symbol -/
theorem minimalImage_full (ds : DSymData) (hs : ValidSym ds) (hsz : 1 ≤ ds.size) (hdim : 1 ≤ ds.dim)
    (hconn : Connected (ofSym ds)) :
    ∃ c π Q, minimalImage ds = .ok c ∧ ValidSym c ∧ 1 ≤ c.size ∧ c.dim = ds.dim ∧
      SymMor ds c π ∧ Surj ds c π ∧ π 1 = 1 ∧ IsCoarsest (ofSym ds) Q ∧
      (∀ d d', 1 ≤ d → d ≤ ds.size → 1 ≤ d' → d' ≤ ds.size → (π d = π d' ↔ Q d = Q d')) ∧
      Connected (ofSym c) ∧ NoProperQuotient c ∧ isMinimal (ofSym c) = .ok true := by
  obtain ⟨c, π, Q, hc, hcv, hcs, hπ, hπs, hπ1, hQ, hker⟩ := minimalImage_ok ds hs hsz hdim hconn
  have hcc : Connected (ofSym c) := hπ.connected hπs hπ1 hconn
  have hmin : NoProperQuotient c :=
    noProperQuotient_of_coarsest hs.toValidTables hcv.toValidTables hπ hπs hQ hker
  exact ⟨c, π, Q, hc, hcv, hcs, hπ.dim, hπ, hπs, hπ1, hQ, hker, hcc, hmin,
    (isMinimal_true_iff c hcv.set hcc hcs).2 hmin⟩

/-- the projection of `derived::cover` is a surjective morphism when the degrees are preserved -/
theorem cover_symMor (s : DSymData) (hs : ValidTables s) (hsz : 1 ≤ s.size) (hdim : 1 ≤ s.dim)
    (n : Nat) (hn : 1 ≤ n) (σ : Nat → Nat → Nat → Nat) (hσ : SheetCompat s.dset n σ)
    (cv : DSymData) (hcv : cover s n σ = .ok cv)
    (hdeg : ∀ i d, i < s.dim → 1 ≤ d → d ≤ n * s.size →
      cv.mPartial i (i + 1) d = s.mPartial i (i + 1) (cproj s.size d)) :
    ValidTables cv ∧ cv.size = n * s.size ∧ SymMor cv s (cproj s.size) ∧ Surj cv s (cproj s.size) := by
  obtain ⟨c, hc, hsize, hdim', hct, hop, _⟩ := cover_ok s hs hsz hdim hn hσ
  rw [hcv] at hc
  cases hc
  refine ⟨hct, hsize, ⟨⟨hdim'.symm, fun x _ _ => cproj_range hsz, fun i x hi h1 h2 => ?_⟩,
    fun i d hi h1 h2 => ?_⟩, fun b hb1 hb2 => ?_⟩
  · have hi' : i ≤ s.dim := by rw [← hdim']; exact hi
    have h2' : x ≤ n * s.size := by rw [← hsize]; exact h2
    rw [hop i x hi' h1 h2']
    exact (cproj_coverF hs.set hsz hi').symm
  · have hi' : i < s.dim := by rw [← hdim']; exact hi
    have h2' : d ≤ n * s.size := by rw [← hsize]; exact h2
    have hp := cproj_range (d := d) hsz
    have e := hdeg i d hi' h1 h2'
    rw [hct.mPartial_adj hi h1 h2, hs.mPartial_adj hi' hp.1 hp.2] at e
    exact (Option.some.inj (Outcome.ok.inj e)).symm
  · refine ⟨b, hb1, ?_, ?_⟩
    · rw [hsize]
      calc b ≤ s.size := hb2
        _ = 1 * s.size := (Nat.one_mul _).symm
        _ ≤ n * s.size := Nat.mul_le_mul_right _ hn
    · unfold cproj
      rw [Nat.mod_eq_of_lt (by omega)]
      omega

end DSymVerif.Mor
