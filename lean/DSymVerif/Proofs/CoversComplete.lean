/-
Property C05, part 19: every connected covering is isomorphic over the base to an entry of
`covers(ds, k)`.

Given a covering `c` of the connected valid symbol `ds` with `j ≤ k` sheets: its gauged monodromy
representation `rhoC` (Proofs/CoversRhoC.lean) is transported to the presented group
`⟨1..n | relators⟩` (`actG`), which gives a valid coset table `T` with the sheets as rows
(`table_of_action`); by C12 completeness `T` is isomorphic (`σ`) to the view of a yielded table,
whose cover `c'` is an entry of the list; and
    φ(x) = sz · σ(γ_{π x}(sheet x)) + π x
is an isomorphism `c → c'` over `ds`.
-/
import DSymVerif.Proofs.CoversBridge
import DSymVerif.Proofs.CoversIso
import DSymVerif.Proofs.LowIndexMin

namespace DSymVerif.CoversP
open DSymVerif DSymVerif.DS DSymVerif.FG DSymVerif.FGP DSymVerif.Cosets DSymVerif.SpecC11
open DSymVerif.CosetP DSymVerif.Covers DSymVerif.LowIndexP DSymVerif.CosetInvP DSymVerif.RebaseP
open DSymVerif.CosetSoundP

theorem forall₂_mem_left {α β : Type} {R : α → β → Prop} :
    ∀ {xs : List α} {cs : List β}, List.Forall₂ R xs cs → ∀ x ∈ xs, ∃ c ∈ cs, R x c
  | _, _, .nil, _, h => by cases h
  | _, _, .cons h hall, x, hx => by
    rcases List.mem_cons.1 hx with rfl | hx
    · exact ⟨_, List.mem_cons_self .., h⟩
    · obtain ⟨c, hc, hr⟩ := forall₂_mem_left hall x hx
      exact ⟨c, List.mem_cons_of_mem _ hc, hr⟩

/-- **every connected covering is an entry up to isomorphism over the base** -/
theorem covering_is_entry {ds : DSymData} (hs : ValidSym ds) (hsz : 1 ≤ ds.size) (hdim : 1 ≤ ds.dim)
    (hconn : ds.view.isConnected = true) (k fuel : Nat) {c : DSymData} {j : Nat}
    (hcov : IsCoverOf ds c j) (hjk : j ≤ k) :
    ∃ f, fundamentalGroup ds = .ok f ∧
      ((BT.dfs (btProblem f.nrGenerators (expandedRelatorSet f.relators) k) (height k)
          (.ok (Table.new f.nrGenerators))).length ≤ fuel →
        ∃ cs, Covers.covers ds k fuel = .ok cs ∧
          ∃ c' ∈ cs, ∃ φ, c'.size = c.size ∧ CoverIso ds c c' c.size φ) := by
  obtain ⟨f, hf, hclasses⟩ := covers_classes hs hsz hdim k fuel
  refine ⟨f, hf, ?_⟩
  intro hfuel
  obtain ⟨cs, hcs, hall, _, _⟩ := hclasses hfuel
  refine ⟨cs, hcs, ?_⟩
  have hj : 0 < j := hcov.sheets
  have hlet := (fundamentalGroup_letters ds f hf).1
  -- the gauged monodromy representation of c
  obtain ⟨γ, hγ⟩ := exists_gauge hs.set (valC hs hsz hcov)
  have htransT := rhoC_transitive hs hsz hcov hγ (hcov.connected hconn)
  -- … on the presented group
  have htransA : ∀ q : Fin j, ∃ y, actG hs hdim hf (rhoC hs hsz hcov hγ) y ⟨0, hj⟩ = q := by
    intro q
    obtain ⟨g, hg⟩ := htransT q
    obtain ⟨y, hy⟩ := actG_surj hs hdim hf (rhoC hs hsz hcov hγ) g
    exact ⟨y, by rw [hy]; exact hg⟩
  obtain ⟨T, hvT, hszT, htraceT⟩ := table_of_action hlet hj (actG hs hdim hf (rhoC hs hsz hcov hγ)) htransA
  -- C12: T is isomorphic to the view of a yielded table
  obtain ⟨t', v, σ, hmem, hview, iso⟩ := CanonP.cosetTables_complete_all f.nrGenerators f.relators k fuel
    hlet hfuel T (validTable_of_valid hvT) (by rw [hszT]; exact hjk)
  obtain ⟨c', hc'mem, t2, v2, hv2, hx2, hview2, _, hcov', hops', _, _⟩ := forall₂_mem_left hall _ hmem
  cases hx2
  rw [hview] at hview2
  cases hview2
  have hsizeV : (viewTab v).size = j := by rw [iso.size, hszT]
  refine ⟨c', hc'mem, fun x => ds.size * σ (gsheet (ds := ds) γ hj x).val + cproj ds.size x, ?_, ?_⟩
  · rw [hcov'.size, hcov.size, hsizeV]
  rw [hcov.size]
  have hσlt : ∀ s : Fin j, σ s.val < j := fun s => by
    have := iso.lt s.val (by rw [hszT]; exact s.isLt)
    rw [hszT] at this; exact this
  -- the gauged sheet of a chamber `sz·q + b`
  have hgs : ∀ x (h1 : 1 ≤ x) (h2 : x ≤ j * ds.size),
      gsheet (ds := ds) γ hj x = γ (cproj ds.size x) ⟨csheet ds.size x, csheet_lt hsz h1 h2⟩ := by
    intro x h1 h2
    have hp := cproj_range (d := x) hsz
    have := gsheet_mk (ds := ds) (γ := γ) hj (csheet_lt hsz h1 h2) hp.1 hp.2
    rw [cdecomp hsz h1] at this
    exact this
  refine ⟨?_, ?_, ?_, ?_⟩
  · intro x h1 h2
    have hp := cproj_range (d := x) hsz
    exact cmk_range (sz := ds.size) (n := j) (hσlt _) hp.1 hp.2
  · intro a b ha1 ha2 hb1 hb2 hab
    have hpa := cproj_range (d := a) hsz
    have hpb := cproj_range (d := b) hsz
    have hproj : cproj ds.size a = cproj ds.size b := by
      have h1 := cproj_mk (sz := ds.size) (k := σ (gsheet (ds := ds) γ hj a).val) hpa.1 hpa.2
      have h2 := cproj_mk (sz := ds.size) (k := σ (gsheet (ds := ds) γ hj b).val) hpb.1 hpb.2
      rw [hab] at h1
      rw [h1] at h2
      exact h2
    have hσeq : σ (gsheet (ds := ds) γ hj a).val = σ (gsheet (ds := ds) γ hj b).val := by
      rw [hproj] at hab
      have h3 : ds.size * σ (gsheet (ds := ds) γ hj a).val = ds.size * σ (gsheet (ds := ds) γ hj b).val := by
        omega
      exact Nat.eq_of_mul_eq_mul_left (show 0 < ds.size by omega) h3
    have hgeq : gsheet (ds := ds) γ hj a = gsheet (ds := ds) γ hj b :=
      Fin.ext (iso.inj _ _ (by rw [hszT]; exact Fin.isLt _) (by rw [hszT]; exact Fin.isLt _) hσeq)
    rw [hgs a ha1 ha2, hgs b hb1 hb2, hproj] at hgeq
    have hsh := congrArg Fin.val ((γ (cproj ds.size b)).injective hgeq)
    simp only at hsh
    rw [← cdecomp hsz ha1, ← cdecomp hsz hb1, hproj, hsh]
  · intro x h1 h2
    have hp := cproj_range (d := x) hsz
    exact cproj_mk hp.1 hp.2
  · intro i x hi h1 h2
    have hp := cproj_range (d := x) hsz
    have hk := csheet_lt hsz h1 h2
    have hfac : FacetR ds (cproj ds.size x) i := ⟨hp.1, hp.2, hi⟩
    have hb' := hs.set.range i _ hi hp.1 hp.2
    -- left-hand side
    obtain ⟨hspec, hk'⟩ := sig_spec hsz hcov hk hi hp.1 hp.2
    rw [cdecomp hsz h1] at hspec
    have hgl : gsheet (ds := ds) γ hj (c.dset.opU i x) =
        (rhoC hs hsz hcov hγ (xT ds (cproj ds.size x) i))⁻¹ (gsheet (ds := ds) γ hj x) := by
      rw [hspec, gsheet_mk (γ := γ) hj hk' hb'.1 hb'.2, hgs x h1 h2,
        ← gauge_cross hs hsz hcov hγ hfac ⟨csheet ds.size x, hk⟩]
      congr 1
      exact Fin.ext (tauC_apply hs hsz hcov hfac ⟨csheet ds.size x, hk⟩).symm
    have hpl : cproj ds.size (c.dset.opU i x) = ds.dset.opU i (cproj ds.size x) := by
      rw [hspec]; exact cproj_mk hb'.1 hb'.2
    show ds.size * σ (gsheet (ds := ds) γ hj (c.dset.opU i x)).val + cproj ds.size (c.dset.opU i x) =
      c'.dset.opU i (ds.size * σ (gsheet (ds := ds) γ hj x).val + cproj ds.size x)
    rw [hgl, hpl]
    -- right-hand side
    generalize hsdef : gsheet (ds := ds) γ hj x = s
    obtain ⟨r, htr, hopr⟩ := hops' i (cproj ds.size x) (σ s.val) hi hp.1 hp.2
      (by rw [hsizeV]; exact hσlt s)
    rw [hopr]
    have hletE := (fundamentalGroup_letters ds f hf).2.2.1
    have hT := htraceT (e2wGet f.edgeToWord (cproj ds.size x, i)) (hletE _) s.val s.isLt
    rw [actG_facet hs hdim hf (rhoC hs hsz hcov hγ) hfac] at hT
    have hiso := CanonP.trace_iso iso (e2wGet f.edgeToWord (cproj ds.size x, i)) s.val (by rw [hszT]; exact s.isLt)
    rw [hT] at hiso
    simp only [Option.map_some] at hiso
    rw [htr] at hiso
    have hr : r = σ ((rhoC hs hsz hcov hγ (xT ds (cproj ds.size x) i))⁻¹ ⟨s.val, s.isLt⟩).val :=
      Option.some.inj hiso
    rw [hr]

theorem forall₂_mem_right {α β : Type} {R : α → β → Prop} :
    ∀ {xs : List α} {cs : List β}, List.Forall₂ R xs cs → ∀ c ∈ cs, ∃ x ∈ xs, R x c
  | _, _, .nil, _, h => by cases h
  | _, _, .cons h hall, c, hc => by
    rcases List.mem_cons.1 hc with rfl | hc
    · exact ⟨_, List.mem_cons_self .., h⟩
    · obtain ⟨x, hx, hr⟩ := forall₂_mem_right hall c hc
      exact ⟨x, List.mem_cons_of_mem _ hx, hr⟩

/-- **`covers(ds,k)` lists exactly the connected coverings with at most `k` sheets, each once up
    to isomorphism over `ds`** (connected valid `ds`) -/
theorem covers_exactly {ds : DSymData} (hs : ValidSym ds) (hsz : 1 ≤ ds.size) (hdim : 1 ≤ ds.dim)
    (hconn : ds.view.isConnected = true) (k fuel : Nat) :
    ∃ f, fundamentalGroup ds = .ok f ∧
      ((BT.dfs (btProblem f.nrGenerators (expandedRelatorSet f.relators) k) (height k)
          (.ok (Table.new f.nrGenerators))).length ≤ fuel →
        ∃ cs, Covers.covers ds k fuel = .ok cs ∧
          (∀ c' ∈ cs, ∃ n, IsCoverOf ds c' n ∧ n ≤ max k 1 ∧ c'.view.isConnected = true) ∧
          cs.Pairwise (fun c1 c2 => ∀ φ, ¬ (c2.size = c1.size ∧ CoverIso ds c1 c2 c1.size φ)) ∧
          (∀ c j, IsCoverOf ds c j → j ≤ k →
            ∃ c' ∈ cs, ∃ φ, c'.size = c.size ∧ CoverIso ds c c' c.size φ)) := by
  obtain ⟨f, hf, h1⟩ := covers_classes hs hsz hdim k fuel
  obtain ⟨f2, hf2, h2⟩ := covers_pairwise_nonisomorphic hs hsz hdim hconn k fuel
  rw [hf] at hf2
  cases hf2
  refine ⟨f, hf, ?_⟩
  intro hfuel
  obtain ⟨cs, hcs, hall, _, _⟩ := h1 hfuel
  obtain ⟨cs2, hcs2, hpair⟩ := h2 hfuel
  rw [hcs] at hcs2
  cases hcs2
  refine ⟨cs, hcs, ?_, hpair, ?_⟩
  · intro c' hc'
    obtain ⟨x, _, t, v, hv, _, _, _, hcov, _, _, hle⟩ := forall₂_mem_right hall c' hc'
    exact ⟨_, hcov, hle, hcov.connected hconn⟩
  · intro c j hcov hjk
    obtain ⟨f3, hf3, h3⟩ := covering_is_entry hs hsz hdim hconn k fuel hcov hjk
    rw [hf] at hf3
    cases hf3
    obtain ⟨cs3, hcs3, hex⟩ := h3 hfuel
    rw [hcs] at hcs3
    cases hcs3
    exact hex

end DSymVerif.CoversP
