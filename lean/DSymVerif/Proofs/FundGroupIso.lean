/-
Helper lemmas for property C09, part 15: in the textbook group every facet generator equals the
image of its edge word under  g ↦ x(gen_to_edge g)  — the invariant of the `Boundary` process —
and the resulting isomorphism between the returned group and the textbook group.
-/
import DSymVerif.Proofs.FundGroupPres
import DSymVerif.Proofs.FundGroupCert

namespace DSymVerif.FGP
open DSymVerif DSymVerif.DS DSymVerif.FG DSymVerif.FWP DSymVerif.SpecC10

/-! ### the facet generators in the textbook group -/

/-- the class of the facet generator `x(c,a)` in the textbook group -/
noncomputable def xT (ds : DSymData) (c a : Nat) : TGroup ds := PresentedGroup.mk (TRel ds) (xg ds c a)

theorem xT_oor {ds : DSymData} {c a : Nat} (h : ¬ FacetR ds c a) : xT ds c a = 1 := by
  unfold xT xg; rw [if_neg h, map_one]

theorem xT_pair {ds : DSymData} (a c : Nat) : xT ds (opT ds a c) a = (xT ds c a)⁻¹ := by
  by_cases h : FacetR ds c a
  · rw [opT_eq h.2.2 h.1 h.2.1]
    have : xT ds c a * xT ds (ds.dset.opU a c) a = 1 := by
      unfold xT
      rw [← map_mul]
      exact PresentedGroup.one_of_mem (Or.inl (Or.inl (Or.inl ⟨c, a, h, rfl⟩)))
    exact eq_inv_of_mul_eq_one_right this
  · rw [opT_oor (fun h' => h ⟨h'.2.1, h'.2.2, h'.1⟩), xT_oor h]; simp

theorem xT_orbit {ds : DSymData} (hs : ValidSym ds) {i j d : Nat} (hij : i ≠ j) (hi : i ≤ ds.dim)
    (hj : j ≤ ds.dim) (h1 : 1 ≤ d) (h2 : d ≤ ds.size) :
    OW ds (xT ds) i j d ^ orbV ds i j d = 1 := by
  have key : ∀ a b, a < b → b ≤ ds.dim → OW ds (xT ds) a b d ^ orbV ds a b d = 1 := by
    intro a b hab hb
    have : PresentedGroup.mk (TRel ds) (OW ds (xg ds) a b d ^ orbV ds a b d) = 1 :=
      PresentedGroup.one_of_mem (Or.inl (Or.inr ⟨a, b, d, hab, hb, h1, h2, rfl⟩))
    rw [map_pow] at this
    unfold OW at this ⊢
    rw [map_Wf] at this
    exact this
  rcases Nat.lt_or_ge i j with h | h
  · exact key i j h hj
  · have hlt : j < i := by omega
    have := key j i hlt hi
    rw [OW_swap hs (fun a c => xT_pair a c) hj hi h1 h2, orbV_swap ds j i d]
    rw [inv_pow, this, inv_one]

/-! ### the invariant of the word assignment -/

section einv
variable {ds : DSymData} (P : ℕ → TGroup ds)

/-- for the known facets the edge word, read with `g ↦ P g`, is the facet generator;
    the other facets have no edge word yet -/
structure EInv (K : Edge → Prop) (e2w : E2W) : Prop where
  val : ∀ c a, FacetR ds c a → K (c, a) → FreeGroup.lift P (valW e2w c a) = xT ds c a
  none : ∀ c a, FacetR ds c a → ¬ K (c, a) → e2wGet? e2w (c, a) = none

theorem valW_of_none {e2w : E2W} {c a : Nat} (h : e2wGet? e2w (c, a) = none) : valW e2w c a = 1 := by
  unfold valW e2wGet; rw [h]; rfl

theorem known_append {m0 : OppMap} {pre : List Item} {it : Item} {f : Edge} :
    Known ds m0 (pre ++ [it]) f ↔ Known ds m0 pre f ∨ touches ds it f := by
  unfold Known
  constructor
  · rintro (h | ⟨it', hit, ht⟩)
    · exact Or.inl (Or.inl h)
    · rcases List.mem_append.1 hit with h | h
      · exact Or.inl (Or.inr ⟨it', h, ht⟩)
      · simp only [List.mem_singleton] at h
        subst h
        exact Or.inr ht
  · rintro ((h | ⟨it', hit, ht⟩) | h)
    · exact Or.inl h
    · exact Or.inr ⟨it', List.mem_append_left _ hit, ht⟩
    · exact Or.inr ⟨it, by simp, h⟩

/-- one deduced facet: its word, read with `P`, is the inverse of the rest of the 2-orbit walk,
    hence the facet generator -/
theorem einv_item (hs : ValidSym ds) {m0 : OppMap} {pre : List Item} {e2w : E2W} {e i j : Nat}
    (hE : EInv P (Known ds m0 pre) e2w) (hc : CertItem ds m0 pre (e, i, some j)) {w : List Int}
    (hw : traceWord ds e2w (ds.dset.opU i e) (some j) (some i) = .ok w) :
    EInv P (Known ds m0 (pre ++ [(e, i, some j)]))
      (if w.length > 0 then
        e2wInsert (e2wInsert e2w (e, i) (FW.inverse w)) (ds.dset.opU i e, i) w else e2w) := by
  have hv := hs.set
  obtain ⟨hr, hv1, hkn, hn1, hn2⟩ := hc j rfl
  simp only at hr hv1 hkn hn1 hn2
  have hi := hr.2.2.1
  have hj := hr.2.2.2.1
  have hfe : FacetR ds e i := ⟨hr.1, hr.2.1, hi⟩
  have hfei := facetR_partner hv hfe
  have hei : opT ds i e = ds.dset.opU i e := opT_eq hi hr.1 hr.2.1
  rw [hei] at hkn
  -- the traced word
  have hden := traceWord_den hs e2w hj hi hfei.1 hfei.2.1 hw
  have hor : orbR ds j i (ds.dset.opU i e) = orbR ds i j e := by
    rw [orbR_swap, ← hei, (orbR_opA hs hi hj hr.1 hr.2.1).1]
  have hov : orbV ds j i (ds.dset.opU i e) = 1 := by
    rw [orbV_swap, ← hei, (orbR_opA hs hi hj hr.1 hr.2.1).2.2.1, hv1]
  have hper := orbR_period hs hj hi hfei.1 hfei.2.1
  rw [hor] at hper
  have hbl := wk_before_last hv hper.1 hper.2
  have hback : opT ds i (ds.dset.opU i e) = e := by rw [← hei, opT_invol hv]
  rw [hback] at hbl
  have h2r : 2 * orbR ds i j e = (2 * orbR ds i j e - 1) + 1 := by have := hper.1; omega
  -- own facets carry no word yet
  have hne1 := hE.none e i hfe hn1
  have hne2 := hE.none _ i hfei hn2
  -- reading the word with P
  have hPw : FreeGroup.lift P (den w) = xT ds (ds.dset.opU i e) i := by
    rw [hden]
    unfold OW
    rw [hor, map_Wf, h2r, Wf_succ_last, hbl.1, hbl.2.1, valW_of_none hne1, map_one, mul_one]
    have hcongr := Wf_congr_n (opT ds) (fun c a => FreeGroup.lift P (valW e2w c a)) (xT ds)
      (2 * orbR ds i j e - 1) j i (ds.dset.opU i e) (by
        intro t ht
        have r := wk_range hv hfei.1 hfei.2.1 t j i
        have hidx : ix j i t ≤ ds.dim := by
          rcases ix_mem j i t with ⟨h, _⟩ | ⟨h, _⟩
          · rw [h]; exact hj
          · rw [h]; exact hi
        exact hE.val _ _ ⟨r.1, r.2, hidx⟩ (hkn t (by omega)))
    rw [hcongr]
    -- the 2-orbit relation of the textbook group
    have hrel := xT_orbit hs (fun h => hr.2.2.2.2 h.symm) hj hi hfei.1 hfei.2.1
    rw [hov, pow_one] at hrel
    unfold OW at hrel
    rw [hor, h2r, Wf_succ_last, hbl.1, hbl.2.1] at hrel
    have := eq_inv_of_mul_eq_one_left hrel
    rw [this, ← hei, xT_pair]
  have hPinv : FreeGroup.lift P (den (FW.inverse w)) = xT ds e i := by
    rw [den_inverse, map_inv, hPw, ← hei, xT_pair, inv_inv]
  have hw0 : w.length = 0 → xT ds (ds.dset.opU i e) i = 1 := by
    intro h0
    have : w = [] := List.eq_nil_of_length_eq_zero h0
    rw [← hPw, this, den_nil, map_one]
  constructor
  · intro c a hca hk
    rcases known_append.1 hk with hk | hk
    · -- an old known facet: different from the two own facets
      have h1 : (c, a) ≠ (e, i) := fun h => hn1 (h ▸ hk)
      have h2 : (c, a) ≠ (ds.dset.opU i e, i) := fun h => hn2 (h ▸ hk)
      have : valW (if w.length > 0 then
          e2wInsert (e2wInsert e2w (e, i) (FW.inverse w)) (ds.dset.opU i e, i) w else e2w) c a =
          valW e2w c a := by
        unfold valW
        split
        · rw [e2wGet_insert, e2wGet_insert, if_neg h2, if_neg h1]
        · rfl
      rw [this]
      exact hE.val c a hca hk
    · rcases hk with hk | hk
      · -- the facet (e,i)
        simp only at hk
        have hc' : c = e := congrArg Prod.fst hk
        have ha' : a = i := congrArg Prod.snd hk
        subst hc'; subst ha'
        unfold valW
        split
        · rw [e2wGet_insert]
          by_cases hm : (c, a) = (ds.dset.opU a c, a)
          · rw [if_pos hm]
            have : ds.dset.opU a c = c := (congrArg Prod.fst hm).symm
            rw [hPw, this]
          · rw [if_neg hm, e2wGet_insert, if_pos rfl]
            exact hPinv
        · rename_i hl
          have hl0 : w.length = 0 := by omega
          have h1 := hw0 hl0
          show FreeGroup.lift P (valW e2w c a) = _
          rw [valW_of_none hne1, map_one]
          have := xT_pair (ds := ds) a c
          rw [hei, h1] at this
          rw [← inv_inv (xT ds c a), ← this, inv_one]
      · -- the facet on the other side
        simp only at hk
        have hc' : c = ds.dset.opU i e := congrArg Prod.fst hk
        have ha' : a = i := congrArg Prod.snd hk
        subst hc'; subst ha'
        unfold valW
        split
        · rw [e2wGet_insert, if_pos rfl]
          exact hPw
        · rename_i hl
          have hl0 : w.length = 0 := by omega
          show FreeGroup.lift P (valW e2w _ _) = _
          rw [valW_of_none hne2, map_one, hw0 hl0]
  · intro c a hca hk
    have hk' : ¬ Known ds m0 pre (c, a) := fun h => hk (known_append.2 (Or.inl h))
    have h1 : (c, a) ≠ (e, i) := fun h => hk (known_append.2 (Or.inr (Or.inl h)))
    have h2 : (c, a) ≠ (ds.dset.opU i e, i) := fun h => hk (known_append.2 (Or.inr (Or.inr h)))
    split
    · rw [e2wGet?_insert, e2wGet?_insert, if_neg h2, if_neg h1]
      exact hE.none c a hca hk'
    · exact hE.none c a hca hk'

theorem einv_congr {K K' : Edge → Prop} {e2w : E2W}
    (h : ∀ c a, FacetR ds c a → (K (c, a) ↔ K' (c, a))) (hE : EInv P K e2w) : EInv P K' e2w :=
  ⟨fun c a hca hk => hE.val c a hca ((h c a hca).2 hk),
   fun c a hca hk => hE.none c a hca (fun hk' => hk ((h c a hca).1 hk'))⟩

/-- the whole batch of deduced facets -/
theorem applyGlued_einv (hs : ValidSym ds) {m0 : OppMap} : ∀ (l pre : List Item) (e2w e2w' : E2W),
    (∀ it ∈ l, ∃ j, it.2.2 = some j) → CertList ds m0 pre l → EInv P (Known ds m0 pre) e2w →
    applyGlued ds e2w l = .ok e2w' → EInv P (Known ds m0 (pre ++ l)) e2w'
  | [], pre, e2w, e2w', _, _, hE, h => by
    simp [applyGlued] at h
    rw [← h, List.append_nil]; exact hE
  | (e, i, jo) :: rest, pre, e2w, e2w', hsome, hc, hE, h => by
    obtain ⟨j, hj⟩ := hsome (e, i, jo) List.mem_cons_self
    simp only at hj
    subst hj
    obtain ⟨hci, hcl⟩ := hc
    obtain ⟨hr, _⟩ := hci j rfl
    simp only at hr
    unfold applyGlued at h
    rw [op_eq hr.2.2.1 hr.1 hr.2.1] at h
    simp only at h
    split at h
    · rename_i w hw
      have hE1 := einv_item P hs hE hci hw
      have happ : pre ++ (e, i, some j) :: rest = (pre ++ [(e, i, some j)]) ++ rest := by simp
      rw [happ]
      split at h
      · rename_i hl
        rw [if_pos hl] at hE1
        exact applyGlued_einv hs rest _ _ e2w' (fun it hit => hsome it (List.mem_cons_of_mem _ hit))
          hcl hE1 h
      · rename_i hl
        rw [if_neg hl] at hE1
        exact applyGlued_einv hs rest _ _ e2w' (fun it hit => hsome it (List.mem_cons_of_mem _ hit))
          hcl hE1 h
    · cases h
    · cases h

end einv

/-! ### the invariant of the double loop of `find_generators`, in the textbook group -/

theorem winv_boundaryNew (ds : DSymData) : WInv ds (boundaryNew ds) := by
  intro d i j opp n hr g
  rw [oppGet_boundaryNew, if_pos hr] at g
  injection g with g
  have h1 : opp = (d, j, i) := (congrArg Prod.fst g).symm
  have h2 : n = 1 := (congrArg Prod.snd g).symm
  subst h1; subst h2
  refine ⟨fun t ht => by omega, Or.inl ?_⟩
  rfl

section sinv
variable {ds : DSymData} (P : ℕ → TGroup ds)

structure SInv (st : GenState) : Prop where
  winv : WInv ds st.bnd
  unif : Unif ds st.bnd
  einv : EInv P (fun f => Glued ds st.bnd f.1 f.2) st.e2w

theorem acc_init (ds : DSymData) (m : OppMap) : Acc ds m m [] :=
  ⟨fun _ _ h => h, fun _ _ _ hg => Or.inl hg, fun _ h => by cases h⟩

theorem lift_pos (g : ℕ) (hg : 1 ≤ g) : FreeGroup.lift P (den [(g : Int)]) = P g := by
  rw [den_pos g hg, FreeGroup.lift_apply_of]

theorem lift_neg (g : ℕ) (hg : 1 ≤ g) : FreeGroup.lift P (den [-(g : Int)]) = (P g)⁻¹ := by
  rw [den_neg g hg, map_inv, FreeGroup.lift_apply_of]

theorem genStep_sinv (hs : ValidSym ds) {st st' : GenState} (hG : GInv ds st) (hS : SInv P st)
    {d i : Nat} (hd : FacetR ds d i) (h : genStep ds st d i = .ok st')
    (hP : ∀ p ∈ st'.g2e, P p.1 = xT ds p.2.1 p.2.2) :
    SInv P st' ∧ Glued ds st'.bnd d i ∧
      (∀ r, Rng ds r → oppGet st.bnd r = none → oppGet st'.bnd r = none) := by
  have hv := hs.set
  unfold genStep at h
  split at h
  · rename_i hany
    obtain ⟨j0, hj0, hp0⟩ := List.any_eq_true.1 hany
    have hp0' : oppGet st.bnd (d, i, j0) ≠ none := by
      intro e; rw [e] at hp0; simp at hp0
    have hr0 : Rng ds (d, i, j0) := by
      cases g : oppGet st.bnd (d, i, j0) with
      | none => exact absurd g hp0'
      | some v =>
        rcases hG.bnd.1.keys _ _ g with hz | hr
        · have : d = 0 := congrArg Prod.fst hz
          have := hd.1
          omega
        · exact hr
    rw [op_eq hd.2.2 hd.1 hd.2.1] at h
    simp only at h
    obtain ⟨m1, m', l, eg, hb', inv1, mono1, mono2, hgd, hgp, hl⟩ := glueRec_single hs hG.bnd hd
    -- certificates for the batch
    have hcert := glueRecLoop_cert hs st.bnd (glueFuel ds [(d, i, none)]) st.bnd [(d, i, none)] []
      hG.bnd.1 hS.winv hS.unif
      (by
        intro it hit j hj
        simp only [List.mem_singleton] at hit
        subst hit
        cases hj)
      (acc_init ds st.bnd)
      (by
        intro it hit
        simp only [List.mem_singleton] at hit
        subst hit
        exact fun _ => hd)
      m' ((d, i, none) :: l) (by unfold glueRecursively at eg; exact eg)
    obtain ⟨bi', wi', ui', acc', l2, hl2, hcl⟩ := hcert
    simp only [List.reverse_nil, List.nil_append] at hl2 hcl
    subst hl2
    obtain ⟨_, hcl⟩ := hcl
    rw [eg] at h
    simp only at h
    split at h
    · rename_i e2w' hag
      injection h with h
      unfold applyGlued at hag
      rw [op_eq hd.2.2 hd.1 hd.2.1] at hag
      simp only at hag
      have htw : traceWord ds (e2wInsert (e2wInsert st.e2w (d, i) (FW.new [((st.g2e.length + 1 : Nat) : Int)]))
            (ds.dset.opU i d, i) (FW.new [-((st.g2e.length + 1 : Nat) : Int)]))
          (ds.dset.opU i d) none (some i) = .ok [-((st.g2e.length + 1 : Nat) : Int)] := by
        unfold traceWord
        simp only
        rw [e2wGet_insert, if_pos rfl, new_neg_letter]
        show Outcome.ok (FW.new ([] ++ [-((st.g2e.length + 1 : Nat) : Int)])) = _
        rw [List.nil_append, new_neg_letter]
      rw [htw] at hag
      simp only at hag
      rw [if_pos (by simp)] at hag
      rw [inverse_neg_letter, new_pos_letter, new_neg_letter] at hag
      -- the new generator
      have hlt : ∀ p ∈ st.g2e, p.1 < st.g2e.length + 1 := fun p hp => by
        have := (hG.keys p hp).2; omega
      have hPg : P (st.g2e.length + 1) = xT ds d i := by
        have := hP (st.g2e.length + 1, (d, i)) (by
          rw [← h]
          simp only
          rw [g2eInsert_append st.g2e _ _ hlt]
          simp)
        exact this
      have hgpos : 1 ≤ st.g2e.length + 1 := by omega
      have hei : opT ds i d = ds.dset.opU i d := opT_eq hd.2.2 hd.1 hd.2.1
      -- the state before the deduced facets
      have hE1 : EInv P (Known ds st.bnd [(d, i, none)])
          (e2wInsert (e2wInsert (e2wInsert (e2wInsert st.e2w (d, i) [((st.g2e.length + 1 : Nat) : Int)])
            (ds.dset.opU i d, i) [-((st.g2e.length + 1 : Nat) : Int)])
            (d, i) [((st.g2e.length + 1 : Nat) : Int)])
            (ds.dset.opU i d, i) [-((st.g2e.length + 1 : Nat) : Int)]) := by
        constructor
        · intro c a hca hk
          rcases hk with hk | ⟨it, hit, ht⟩
          · have hne := ne_of_present hv hG.bnd.1 hr0 hp0' hca hk
            have : valW (e2wInsert (e2wInsert (e2wInsert (e2wInsert st.e2w (d, i) [((st.g2e.length + 1 : Nat) : Int)])
                (ds.dset.opU i d, i) [-((st.g2e.length + 1 : Nat) : Int)])
                (d, i) [((st.g2e.length + 1 : Nat) : Int)])
                (ds.dset.opU i d, i) [-((st.g2e.length + 1 : Nat) : Int)]) c a = valW st.e2w c a := by
              unfold valW
              simp only [e2wGet_insert]
              rw [if_neg (fun e => hne.2.2.1 e.symm), if_neg (fun e => hne.1 e.symm),
                if_neg (fun e => hne.2.2.1 e.symm), if_neg (fun e => hne.1 e.symm)]
            rw [this]
            exact hS.einv.val c a hca hk
          · simp only [List.mem_singleton] at hit
            subst hit
            rcases ht with ht | ht
            · simp only at ht
              have hc' : c = d := congrArg Prod.fst ht
              have ha' : a = i := congrArg Prod.snd ht
              subst hc'; subst ha'
              unfold valW
              rw [e2wGet_insert]
              by_cases hm : (c, a) = (ds.dset.opU a c, a)
              · rw [if_pos hm, lift_neg P _ hgpos, hPg]
                have hmm : ds.dset.opU a c = c := (congrArg Prod.fst hm).symm
                have := xT_pair (ds := ds) a c
                rw [hei, hmm] at this
                exact this.symm
              · rw [if_neg hm, e2wGet_insert, if_pos rfl, lift_pos P _ hgpos, hPg]
            · simp only at ht
              have hc' : c = ds.dset.opU i d := congrArg Prod.fst ht
              have ha' : a = i := congrArg Prod.snd ht
              subst hc'; subst ha'
              unfold valW
              rw [e2wGet_insert, if_pos rfl, lift_neg P _ hgpos, hPg, ← hei, xT_pair]
        · intro c a hca hk
          have h1 : (c, a) ≠ (d, i) := fun e =>
            hk (Or.inr ⟨(d, i, none), by simp, Or.inl e⟩)
          have h2 : (c, a) ≠ (ds.dset.opU i d, i) := fun e =>
            hk (Or.inr ⟨(d, i, none), by simp, Or.inr e⟩)
          simp only [e2wGet?_insert]
          rw [if_neg h2, if_neg h1, if_neg h2, if_neg h1]
          exact hS.einv.none c a hca (fun hg => hk (Or.inl hg))
      have hE2 := applyGlued_einv P hs l _ _ e2w'
        (fun it hit => by
          obtain ⟨_, j, hj, _⟩ := hl it hit
          exact ⟨j, hj⟩) hcl hE1 hag
      -- known = glued in the final boundary
      have acc'' : Acc ds st.bnd m' ((d, i, none) :: l) :=
        ⟨acc'.mono0,
          fun x b hx hg => known_mono (fun it hit => List.mem_reverse.1 hit) (acc'.known x b hx hg),
          fun it hit => acc'.done it (List.mem_reverse.2 hit)⟩
      have hE3 : EInv P (fun f => Glued ds m' f.1 f.2) e2w' := by
        refine einv_congr P ?_ hE2
        intro c a hca
        constructor
        · intro hk
          exact known_glued hv acc'' (by simpa using hk)
        · intro hg
          have := acc''.known c a hca hg
          simpa using this
      rw [← h]
      refine ⟨⟨wi', ui', hE3⟩, ?_, ?_⟩
      · exact (acc''.done (d, i, none) List.mem_cons_self).2.1
      · exact acc''.mono0
    · cases h
    · cases h
  · rename_i hany
    injection h with h
    rw [← h]
    refine ⟨hS, ?_, fun _ _ h => h⟩
    intro j hj
    have : ¬ ((List.range (ds.dim + 1)).any fun j => (oppGet st.bnd (d, i, j)).isSome) = true := hany
    rw [List.any_eq_true] at this
    cases g : oppGet st.bnd (d, i, j) with
    | none => rfl
    | some v =>
      have hjd : j ≤ ds.dim := hj.2.2.2.1
      exact absurd ⟨j, List.mem_range.2 (by omega), by rw [g]; rfl⟩ this

end sinv

/-! ### the loop, the tree batch, and the value of every facet -/

theorem Wf_one {G : Type} [Group G] (op : Nat → Nat → Nat) : ∀ (n a b c : Nat),
    Wf op (fun _ _ => (1 : G)) a b n c = 1
  | 0, _, _, _ => rfl
  | n + 1, a, b, c => by
    show (1 : G) * Wf op (fun _ _ => (1 : G)) b a n (op a c) = 1
    rw [Wf_one op n b a (op a c), one_mul]

/-- a facet deduced from facets whose generators are trivial has a trivial generator -/
theorem deduce_triv {ds : DSymData} (hs : ValidSym ds) {m0 : OppMap} {pre : List Item} {e i j : Nat}
    (hc : CertItem ds m0 pre (e, i, some j))
    (hT : ∀ c a, FacetR ds c a → Known ds m0 pre (c, a) → xT ds c a = 1) :
    xT ds e i = 1 ∧ xT ds (ds.dset.opU i e) i = 1 := by
  have hv := hs.set
  obtain ⟨hr, hv1, hkn, _, _⟩ := hc j rfl
  simp only at hr hv1 hkn
  have hi := hr.2.2.1
  have hj := hr.2.2.2.1
  have hfe : FacetR ds e i := ⟨hr.1, hr.2.1, hi⟩
  have hfei := facetR_partner hv hfe
  have hei : opT ds i e = ds.dset.opU i e := opT_eq hi hr.1 hr.2.1
  rw [hei] at hkn
  have hor : orbR ds j i (ds.dset.opU i e) = orbR ds i j e := by
    rw [orbR_swap, ← hei, (orbR_opA hs hi hj hr.1 hr.2.1).1]
  have hov : orbV ds j i (ds.dset.opU i e) = 1 := by
    rw [orbV_swap, ← hei, (orbR_opA hs hi hj hr.1 hr.2.1).2.2.1, hv1]
  have hper := orbR_period hs hj hi hfei.1 hfei.2.1
  rw [hor] at hper
  have hbl := wk_before_last hv hper.1 hper.2
  have hback : opT ds i (ds.dset.opU i e) = e := by rw [← hei, opT_invol hv]
  rw [hback] at hbl
  have h2r : 2 * orbR ds i j e = (2 * orbR ds i j e - 1) + 1 := by have := hper.1; omega
  have hrel := xT_orbit hs (fun h => hr.2.2.2.2 h.symm) hj hi hfei.1 hfei.2.1
  rw [hov, pow_one] at hrel
  unfold OW at hrel
  rw [hor, h2r, Wf_succ_last, hbl.1, hbl.2.1] at hrel
  have hcongr := Wf_congr_n (opT ds) (xT ds) (fun _ _ => (1 : TGroup ds))
    (2 * orbR ds i j e - 1) j i (ds.dset.opU i e) (by
      intro t ht
      have r := wk_range hv hfei.1 hfei.2.1 t j i
      have hidx : ix j i t ≤ ds.dim := by
        rcases ix_mem j i t with ⟨h, _⟩ | ⟨h, _⟩
        · rw [h]; exact hj
        · rw [h]; exact hi
      exact hT _ _ ⟨r.1, r.2, hidx⟩ (hkn t (by omega)))
  rw [hcongr, Wf_one, one_mul] at hrel
  refine ⟨hrel, ?_⟩
  rw [← hei, xT_pair, hrel, inv_one]

theorem triv_batch {ds : DSymData} (hs : ValidSym ds) {m0 : OppMap} : ∀ (l pre : List Item),
    CertList ds m0 pre l → (∀ it ∈ l, FacetR ds it.1 it.2.1) →
    (∀ it ∈ l, it.2.2 = none → xT ds it.1 it.2.1 = 1) →
    (∀ c a, FacetR ds c a → Known ds m0 pre (c, a) → xT ds c a = 1) →
    ∀ c a, FacetR ds c a → Known ds m0 (pre ++ l) (c, a) → xT ds c a = 1
  | [], pre, _, _, _, hT => by simpa using hT
  | (e, i, jo) :: rest, pre, hc, hf, hn, hT => by
    have happ : pre ++ (e, i, jo) :: rest = (pre ++ [(e, i, jo)]) ++ rest := by simp
    rw [happ]
    refine triv_batch hs rest _ hc.2 (fun it hit => hf it (List.mem_cons_of_mem _ hit))
      (fun it hit => hn it (List.mem_cons_of_mem _ hit)) ?_
    have hfe := hf (e, i, jo) List.mem_cons_self
    have hown : xT ds e i = 1 ∧ xT ds (ds.dset.opU i e) i = 1 := by
      cases jo with
      | none =>
        have h1 := hn (e, i, none) List.mem_cons_self rfl
        simp only at h1
        refine ⟨h1, ?_⟩
        rw [← opT_eq hfe.2.2 hfe.1 hfe.2.1, xT_pair, h1, inv_one]
      | some j => exact deduce_triv hs hc.1 hT
    intro c a hca hk
    rcases known_append.1 hk with hk | hk
    · exact hT c a hca hk
    · rcases hk with hk | hk
      · simp only at hk
        rw [show c = e from congrArg Prod.fst hk, show a = i from congrArg Prod.snd hk]
        exact hown.1
      · simp only at hk
        rw [show c = ds.dset.opU i e from congrArg Prod.fst hk, show a = i from congrArg Prod.snd hk]
        exact hown.2

theorem genStep_g2e_mono {ds : DSymData} {st st' : GenState} (hG : GInv ds st) {d i : Nat}
    (h : genStep ds st d i = .ok st') : ∀ p ∈ st.g2e, p ∈ st'.g2e := by
  intro p hp
  rcases genStep_g2e ds st st' d i h with he | he
  · rw [he]; exact hp
  · rw [he, g2eInsert_append st.g2e _ _ (fun q hq => by have := (hG.keys q hq).2; omega)]
    exact List.mem_append_left _ hp

theorem genLoop_g2e_mono {ds : DSymData} (hs : ValidSym ds) : ∀ (fs : List Edge) (st st' : GenState),
    GInv ds st → (∀ f ∈ fs, FacetR ds f.1 f.2) → genLoop ds st fs = .ok st' →
    ∀ p ∈ st.g2e, p ∈ st'.g2e
  | [], st, st', _, _, h => by simp [genLoop] at h; rw [← h]; exact fun p hp => hp
  | (d, i) :: rest, st, st', hG, hf, h => by
    unfold genLoop at h
    split at h
    · rename_i st1 h1
      have hd := hf (d, i) List.mem_cons_self
      intro p hp
      exact genLoop_g2e_mono hs rest st1 st' (genStep_ginv hs hG hd h1)
        (fun f hf' => hf f (List.mem_cons_of_mem _ hf')) h p (genStep_g2e_mono hG h1 p hp)
    · cases h
    · cases h

theorem genLoop_sinv {ds : DSymData} (P : ℕ → TGroup ds) (hs : ValidSym ds) : ∀ (fs : List Edge)
    (st st' : GenState), GInv ds st → SInv P st → (∀ f ∈ fs, FacetR ds f.1 f.2) →
    genLoop ds st fs = .ok st' → (∀ p ∈ st'.g2e, P p.1 = xT ds p.2.1 p.2.2) →
    SInv P st' ∧ (∀ f ∈ fs, Glued ds st'.bnd f.1 f.2) ∧
      (∀ r, Rng ds r → oppGet st.bnd r = none → oppGet st'.bnd r = none)
  | [], st, st', _, hS, _, h, _ => by
    simp [genLoop] at h; rw [← h]
    exact ⟨hS, fun f hf => (by cases hf), fun _ _ h => h⟩
  | (d, i) :: rest, st, st', hG, hS, hf, h, hP => by
    unfold genLoop at h
    split at h
    · rename_i st1 h1
      have hd := hf (d, i) List.mem_cons_self
      have hG1 := genStep_ginv hs hG hd h1
      have hrest : ∀ f ∈ rest, FacetR ds f.1 f.2 := fun f hf' => hf f (List.mem_cons_of_mem _ hf')
      have hP1 : ∀ p ∈ st1.g2e, P p.1 = xT ds p.2.1 p.2.2 := fun p hp =>
        hP p (genLoop_g2e_mono hs rest st1 st' hG1 hrest h p hp)
      obtain ⟨hS1, hg1, mono1⟩ := genStep_sinv P hs hG hS hd h1 hP1
      obtain ⟨hS', hg', mono'⟩ := genLoop_sinv P hs rest st1 st' hG1 hS1 hrest h hP
      refine ⟨hS', ?_, fun r hr hn => mono' r hr (mono1 r hr hn)⟩
      intro f hf'
      rcases List.mem_cons.1 hf' with h' | h'
      · rw [h']; exact glued_mono mono' hg1
      · exact hg' f h'
    · cases h
    · cases h

/-- **(c)**: in the textbook group, the edge word of every facet, read with
    `g ↦ x(gen_to_edge g)`, is the generator of that facet -/
theorem findGenerators_val {ds : DSymData} (hs : ValidSym ds) (hdim : 1 ≤ ds.dim) {e2w : E2W}
    {g2e : G2E} (h : findGenerators ds = .ok (e2w, g2e)) (P : ℕ → TGroup ds)
    (hP : ∀ p ∈ g2e, P p.1 = xT ds p.2.1 p.2.2) :
    ∀ c a, FacetR ds c a → FreeGroup.lift P (valW e2w c a) = xT ds c a := by
  have hv := hs.set
  unfold findGenerators at h
  obtain ⟨m', out, e, inv, mono, ⟨l, hl, hlr, hlp⟩, hc, hgl⟩ := glueRecLoop_ok hs
    (glueFuel ds (spanningTree ds)) (boundaryNew ds) (spanningTree ds) [] (boundaryNew_inv hv)
    (spanningTree_ok hv) (by
      unfold glueFuel
      have := (boundaryNew_bnd hv).2
      have h2 : ds.size * (ds.dim + 1) * (ds.dim + 1) ≤ 2 * (ds.size + 1) * (ds.dim + 1) * (ds.dim + 1) := by
        have : ds.size ≤ 2 * (ds.size + 1) := by omega
        exact Nat.mul_le_mul_right _ (Nat.mul_le_mul_right _ this)
      omega)
  have hb' : Bnd ds m' := ⟨inv, hc.trans (boundaryNew_bnd hv).2⟩
  have e' : glueRecursively ds (boundaryNew ds) (spanningTree ds) = .ok (m', out) := e
  rw [e'] at h
  simp only at h
  obtain ⟨bi, wi, ui, acc, l2, hl2, hcl⟩ := glueRecLoop_cert hs (boundaryNew ds) _ (boundaryNew ds)
    (spanningTree ds) [] (boundaryNew_inv hv) (winv_boundaryNew ds) (unif_boundaryNew ds)
    (by
      intro it hit j hj
      obtain ⟨hn, _⟩ := spanningTree_itemOk hv it hit
      rw [hn] at hj; cases hj)
    (acc_init ds _) (spanningTree_ok hv) m' out e
  simp only [List.reverse_nil, List.nil_append] at hl hl2 hcl
  subst hl
  subst hl2
  -- everything glued in the tree batch has a trivial generator
  have htriv : ∀ c a, FacetR ds c a → Glued ds m' c a → xT ds c a = 1 := by
    intro c a hca hg
    have hk := acc.known c a hca hg
    have hk' : Known ds (boundaryNew ds) ([] ++ out) (c, a) :=
      known_mono (fun it hit => by simpa using List.mem_reverse.1 hit) hk
    refine triv_batch hs out [] hcl (fun it hit => (hlr it hit).1) ?_ ?_ c a hca hk'
    · intro it hit hn
      rcases hlp it hit with ⟨_, h2⟩ | ⟨j, hj, _⟩
      · have : PresentedGroup.mk (TRel ds) (xg ds it.1 it.2.1) = 1 :=
          PresentedGroup.one_of_mem (Or.inl (Or.inl (Or.inr ⟨it, h2, rfl⟩)))
        exact this
      · rw [hn] at hj; cases hj
    · intro c a hca hk
      rcases hk with hk | ⟨it, hit, _⟩
      · -- nothing is glued in the initial boundary (every facet has a ridge: dim ≥ 1)
        exfalso
        have hr : Rng ds (c, a, if a = 0 then 1 else 0) := by
          refine ⟨hca.1, hca.2.1, hca.2.2, ?_, ?_⟩
          · show (if a = 0 then 1 else 0) ≤ ds.dim
            split <;> omega
          · show a ≠ (if a = 0 then 1 else 0)
            split <;> omega
        have := hk _ hr
        rw [oppGet_boundaryNew, if_pos hr] at this
        cases this
      · cases hit
  have h0 : GInv ds { bnd := m', e2w := [], g2e := [] } :=
    ⟨hb', fun p hp => (by cases hp), fun p hp => (by cases hp), fun p hp => (by cases hp)⟩
  have hS0 : SInv P { bnd := m', e2w := [], g2e := [] } := by
    refine ⟨wi, ui, ?_, ?_⟩
    · intro c a hca hg
      rw [htriv c a hca hg, valW_of_none (e2w := []) (c := c) (a := a) rfl, map_one]
    · intro c a _ _; rfl
  split at h
  · rename_i st hst
    injection h with h
    have h1 : st.e2w = e2w := congrArg Prod.fst h
    have h2 : st.g2e = g2e := congrArg Prod.snd h
    obtain ⟨hS', hg', _⟩ := genLoop_sinv P hs (facets ds) _ st h0 hS0 (fun f hf => mem_facets.1 hf) hst
      (by rw [h2]; exact hP)
    intro c a hca
    rw [← h1]
    exact hS'.einv.val c a hca (hg' (c, a) (mem_facets.2 hca))
  · cases h
  · cases h

/-! ### the homomorphism back and the isomorphism -/

/-- `gen_to_edge.get(g)` -/
def g2eGet? : G2E → Nat → Option Edge
  | [], _ => none
  | (k, e) :: rest, g => if k = g then some e else g2eGet? rest g

theorem g2eGet?_mem : ∀ (m : G2E), (m.map Prod.fst).Nodup → ∀ p ∈ m, g2eGet? m p.1 = some p.2
  | [], _, p, hp => by cases hp
  | (k, e) :: rest, hn, p, hp => by
    rw [List.map_cons, List.nodup_cons] at hn
    unfold g2eGet?
    rcases List.mem_cons.1 hp with h | h
    · rw [h]; simp
    · have : ¬ k = p.1 := by
        intro e'
        apply hn.1
        rw [e']
        exact List.mem_map.2 ⟨p, h, rfl⟩
      rw [if_neg this]
      exact g2eGet?_mem rest hn.2 p h

theorem g2eGet?_none : ∀ (m : G2E) (g : Nat), g ∉ m.map Prod.fst → g2eGet? m g = none
  | [], _, _ => rfl
  | (k, e) :: rest, g, h => by
    unfold g2eGet?
    have h1 : ¬ k = g := fun e' => h (by simp [e'])
    rw [if_neg h1]
    exact g2eGet?_none rest g (fun hm => h (List.mem_cons_of_mem _ hm))

/-- image of the returned generator `g` in the textbook group: the generator of its facet -/
noncomputable def psi0 (ds : DSymData) (f : FundGroup) (g : ℕ) : TGroup ds :=
  match g2eGet? f.genToEdge g with
  | some e => xT ds e.1 e.2
  | none => 1

section iso
variable {ds : DSymData} (hs : ValidSym ds) (hdim : 1 ≤ ds.dim) {f : FundGroup}
  (hf : fundamentalGroup ds = .ok f)

include hf in
theorem keys_nodup : (f.genToEdge.map Prod.fst).Nodup := by
  rw [(findGenerators_genInv ds _ _ (fundamentalGroup_e2w hf)).1]
  exact List.nodup_range'

include hf in
theorem psi0_mem : ∀ p ∈ f.genToEdge, psi0 ds f p.1 = xT ds p.2.1 p.2.2 := by
  intro p hp
  unfold psi0
  rw [g2eGet?_mem _ (keys_nodup hf) p hp]

include hf in
theorem psi0_junk {k : ℕ} (hk : k = 0 ∨ f.nrGenerators < k) : psi0 ds f k = 1 := by
  unfold psi0
  rw [g2eGet?_none]
  rw [(findGenerators_genInv ds _ _ (fundamentalGroup_e2w hf)).1, List.mem_range'_1]
  unfold FundGroup.nrGenerators at hk
  omega

include hs hdim hf in
/-- (c) for the returned value -/
theorem psi_val (c a : Nat) (hca : FacetR ds c a) :
    FreeGroup.lift (psi0 ds f) (valW f.edgeToWord c a) = xT ds c a :=
  findGenerators_val hs hdim (fundamentalGroup_e2w hf) (psi0 ds f) (psi0_mem hf) c a hca

include hs hdim hf in
/-- a closed walk read with the edge words and mapped to the textbook group is the walk read
    with the facet generators -/
theorem psi_OW {a b c : Nat} (ha : a ≤ ds.dim) (hb : b ≤ ds.dim) (h1 : 1 ≤ c) (h2 : c ≤ ds.size) :
    FreeGroup.lift (psi0 ds f) (OW ds (valW f.edgeToWord) a b c) = OW ds (xT ds) a b c := by
  unfold OW
  rw [map_Wf]
  refine (Wf_congr (opT ds) _ (xT ds) (fun c => 1 ≤ c ∧ c ≤ ds.size) ?_ ?_ _ c ⟨h1, h2⟩).1
  · intro c hc
    exact ⟨opT_range hs.set hc.1 hc.2, opT_range hs.set hc.1 hc.2⟩
  · intro c hc
    exact ⟨psi_val hs hdim hf c a ⟨hc.1, hc.2, ha⟩, psi_val hs hdim hf c b ⟨hc.1, hc.2, hb⟩⟩

include hs hdim hf in
/-- **(b)**: `g ↦ x(gen_to_edge g)` kills every returned relator in the textbook group -/
theorem psi_rels : ∀ r ∈ MRel f.nrGenerators f.relators, FreeGroup.lift (psi0 ds f) r = 1 := by
  intro r hr
  rcases hr with hr | hr
  · obtain ⟨w, hw, rfl⟩ := hr
    have hh := ((fundamentalGroup_holds ds f hf).1 w).1 hw
    obtain ⟨o, ho, word, v, ⟨di, hop, htr, hvp⟩, _, rfl⟩ := hh
    obtain ⟨hp, hd⟩ := mem_orbitList.1 ho
    obtain ⟨hij, hj⟩ := mem_indexPairs.1 hp
    have hi : o.1 ≤ ds.dim := by omega
    have hr := (D2.orbitReps2d_ok hs.set hi hj).range _ hd
    obtain ⟨_, _, _, hdi⟩ := op_some_iff.1 hop
    subst hdi
    have hdr := hs.set.range o.1 o.2.2 hi hr.1 hr.2
    have hred : isReduced (relOf word v) = true := raisedTo_isReduced _ _
    rw [hom_relRep_eq_one _ hred]
    unfold relOf
    rw [den_raisedTo, zpow_natCast, map_pow, traceWord_den hs _ hj hi hdr.1 hdr.2 htr,
      psi_OW hs hdim hf hj hi hdr.1 hdr.2]
    have hov : orbV ds o.1 o.2.1 o.2.2 = v := by unfold orbV; rw [hvp]
    rcases Nat.lt_or_ge o.1 o.2.1 with hlt | hge
    · have := xT_orbit hs (Nat.ne_of_gt hlt) hj hi hdr.1 hdr.2
      rw [orbV_swap, ← opT_eq hi hr.1 hr.2, (orbR_opA hs hi hj hr.1 hr.2).2.2.1, hov] at this
      rw [← opT_eq hi hr.1 hr.2]
      exact this
    · have heq : o.2.1 = o.1 := by omega
      rw [heq]
      have hor : orbR ds o.1 o.1 (ds.dset.opU o.1 o.2.2) = 1 := by
        unfold orbR; rw [ds.rPartial_diag hi hdr.1 hdr.2]
      unfold OW
      rw [hor]
      have e : Wf (opT ds) (xT ds) o.1 o.1 (2 * 1) (ds.dset.opU o.1 o.2.2) =
          xT ds (ds.dset.opU o.1 o.2.2) o.1 *
            (xT ds (opT ds o.1 (ds.dset.opU o.1 o.2.2)) o.1 * 1) := rfl
      rw [e, xT_pair]
      simp
  · obtain ⟨k, hk, rfl⟩ := hr
    rw [FreeGroup.lift_apply_of]
    exact psi0_junk hf hk

/-- the homomorphism  returned group → textbook group,  `g ↦ x(gen_to_edge g)` -/
noncomputable def psi : MGroup f →* TGroup ds := PresentedGroup.toGroup (psi_rels hs hdim hf)

include hs hdim hf in
/-- **(c)**: `ψ ∘ φ = id` on the textbook group -/
theorem psi_phi : (psi hs hdim hf).comp (phi hs hf) = MonoidHom.id _ := by
  apply PresentedGroup.ext
  intro k
  show psi hs hdim hf (phi hs hf (PresentedGroup.of k)) = PresentedGroup.of k
  by_cases hk : isCode ds k
  · have hx : (PresentedGroup.of k : TGroup ds) = PresentedGroup.mk _ (xg ds (decD ds k) (decI ds k)) := by
      unfold xg
      rw [if_pos hk.1, hk.2]
      rfl
    rw [hx, phi_xg, valM_of_facet hk.1]
    show FreeGroup.lift (psi0 ds f) (valW f.edgeToWord _ _) = _
    rw [psi_val hs hdim hf _ _ hk.1]
    rfl
  · have : (PresentedGroup.of k : TGroup ds) = 1 :=
      PresentedGroup.one_of_mem (Or.inr ⟨k, hk, rfl⟩)
    rw [this, map_one, map_one]

include hs hdim hf in
/-- **(d)**: `φ ∘ ψ = id` on the returned group -/
theorem phi_psi : (phi hs hf).comp (psi hs hdim hf) = MonoidHom.id _ := by
  apply PresentedGroup.ext
  intro g
  show phi hs hf (psi hs hdim hf (PresentedGroup.of g)) = PresentedGroup.of g
  have hpsi : psi hs hdim hf (PresentedGroup.of g) = psi0 ds f g := by
    unfold psi
    rw [PresentedGroup.toGroup.of]
  rw [hpsi]
  by_cases hg : g = 0 ∨ f.nrGenerators < g
  · have : (PresentedGroup.of g : MGroup f) = 1 :=
      PresentedGroup.one_of_mem (Or.inr ⟨g, hg, rfl⟩)
    rw [this, psi0_junk hf hg, map_one]
  · have hg1 : 1 ≤ g ∧ g ≤ f.nrGenerators := by omega
    obtain ⟨bnd, gi⟩ := findGenerators_ginv hs (fundamentalGroup_e2w hf)
    have hkeys := (findGenerators_genInv ds _ _ (fundamentalGroup_e2w hf)).1
    have hmem : g ∈ f.genToEdge.map Prod.fst := by
      rw [hkeys, List.mem_range'_1]
      unfold FundGroup.nrGenerators at hg1
      omega
    obtain ⟨p, hp, hpg⟩ := List.mem_map.1 hmem
    obtain ⟨hfac, _, hw⟩ := gi.gens p hp
    rw [← hpg, psi0_mem hf p hp]
    show phi hs hf (PresentedGroup.mk _ (xg ds p.2.1 p.2.2)) = _
    rw [phi_xg, valM_of_facet hfac]
    unfold valW
    by_cases hm : ds.dset.opU p.2.2 p.2.1 = p.2.1
    · -- a mirror generator is an involution of the returned group
      have h1 := hw.2 hm
      simp only at h1
      rw [h1, den_neg p.1 (by omega), map_inv]
      have hsq := valM_pair hs hf p.2.2 p.2.1
      rw [opT_eq hfac.2.2 hfac.1 hfac.2.1, hm, valM_of_facet hfac] at hsq
      unfold valW at hsq
      rw [h1, den_neg p.1 (by omega), map_inv, inv_inv] at hsq
      rw [hsq]
      rfl
    · have h1 := (hw.1 hm).1
      simp only at h1
      rw [h1, den_pos p.1 (by omega)]
      rfl

/-- **the isomorphism**: the returned presentation presents the textbook group -/
noncomputable def presIso : TGroup ds ≃* MGroup f :=
  MonoidHom.toMulEquiv (phi hs hf) (psi hs hdim hf) (psi_phi hs hdim hf) (phi_psi hs hdim hf)

theorem presIso_apply (x : TGroup ds) : presIso hs hdim hf x = phi hs hf x := rfl

theorem presIso_symm_apply (y : MGroup f) : (presIso hs hdim hf).symm y = psi hs hdim hf y := rfl

end iso

end DSymVerif.FGP
