/-
C12, the canonical pruning (3): for a standard table `T1` and an isomorphism `σ : T1 → T2`,
`compare_renumbered_from(T2, σ 0)` returns the first non-zero difference `T1 − T2` in
row-major order: the on-the-fly renumbering of `T2` from `σ 0` reproduces `T1`.
-/
import DSymVerif.Proofs.LowIndexCanon2

namespace DSymVerif.CanonP
open DSymVerif DSymVerif.Cosets DSymVerif.LowIndexP DSymVerif.CosetInvP

/-- the value of a slot (0 where undefined) -/
def val (t : Table) (k : Nat) (g : Int) : Nat :=
  match t.get k g with
  | .ok (some d) => d
  | _ => 0

theorem val_eq {t : Table} {k d : Nat} {g : Int} (h : t.get k g = .ok (some d)) : val t k g = d := by
  simp only [val, h]

/-- first non-zero difference of the values of two tables along a row / along rows -/
def fdGens (t1 t2 : Table) (row : Nat) : List Int → Option Int
  | [] => none
  | g :: gs =>
    if ((val t1 row g : Int) - (val t2 row g : Int)) ≠ 0 then some ((val t1 row g : Int) - (val t2 row g : Int))
    else fdGens t1 t2 row gs

def fdRows (t1 t2 : Table) (gens : List Int) : List Nat → Int
  | [] => 0
  | row :: rows =>
    match fdGens t1 t2 row gens with
    | some r => r
    | none => fdRows t1 t2 gens rows

/-! ### the renumbering state -/

theorem lookupNat_cons (x k v : Nat) (l : List (Nat × Nat)) :
    lookupNat x ((k, v) :: l) = if k = x then some v else lookupNat x l := rfl

/-- the numbering built so far is `σ` on `0..c-1` -/
structure CI (σ : Nat → Nat) (N c : Nat) (st : CSt) : Prop where
  size : st.1.size = c
  n2o : ∀ i, i < c → st.1[i]? = some (σ i)
  o2n : ∀ x i, lookupNat x st.2 = some i ↔ (i < c ∧ x = σ i)
  pos : 1 ≤ c
  le : c ≤ N

theorem assign_old {σ : Nat → Nat} {N c : Nat} {st : CSt} (ci : CI σ N c st) {e : Nat} (he : e < c) :
    assign (σ e) st = st ∧ lookupNat (σ e) st.2 = some e := by
  have h := (ci.o2n (σ e) e).mpr ⟨he, rfl⟩
  exact ⟨by simp only [assign, h], h⟩

theorem assign_new {σ : Nat → Nat} {N c : Nat} {st : CSt} (ci : CI σ N c st)
    (hinj : ∀ a b, a < N → b < N → σ a = σ b → a = b) (hc : c < N) :
    CI σ N (c + 1) (assign (σ c) st) ∧ lookupNat (σ c) (assign (σ c) st).2 = some c := by
  have hnone : lookupNat (σ c) st.2 = none := by
    cases h : lookupNat (σ c) st.2 with
    | none => rfl
    | some i =>
      obtain ⟨hi, e⟩ := (ci.o2n (σ c) i).mp h
      have := hinj c i hc (by have := ci.le; omega) e
      omega
  have hassign : assign (σ c) st = (st.1.push (σ c), (σ c, st.1.size) :: st.2) := by
    simp only [assign, hnone]
  rw [hassign]
  refine ⟨⟨by simp [ci.size], ?_, ?_, by omega, by omega⟩, by simp [lookupNat_cons, ci.size]⟩
  · intro i hi
    by_cases hic : i < c
    · rw [Array.getElem?_push_lt (by rw [ci.size]; exact hic)]
      have := ci.n2o i hic
      rw [Array.getElem?_eq_getElem (by rw [ci.size]; exact hic)] at this
      exact this
    · have : i = c := by omega
      subst this
      have : i = st.1.size := ci.size.symm
      rw [this]
      simp
  · intro x i
    simp only [lookupNat_cons, ci.size]
    by_cases hx : σ c = x
    · simp only [hx, if_true, Option.some.injEq]
      constructor
      · rintro rfl; exact ⟨by omega, hx.symm⟩
      · rintro ⟨hi, e⟩
        have := hinj c i hc (by have := ci.le; omega) (hx.trans e)
        exact this
    · simp only [hx, if_false]
      rw [ci.o2n x i]
      constructor
      · rintro ⟨hi, e⟩; exact ⟨by omega, e⟩
      · rintro ⟨hi, e⟩
        refine ⟨?_, e⟩
        by_contra hge
        have : i = c := by omega
        subst this
        exact hx e.symm


/-! ### comparing with the renumbering from the image of the base point -/

structure IsoStd (T1 T2 : Table) (σ : Nat → Nat) (N : Nat) : Prop where
  len1 : T1.len = N
  len2 : T2.len = N
  gens : T2.allGens = T1.allGens
  def1 : ∀ k, k < N → ∀ g ∈ T1.allGens, ∃ d, T1.get k g = .ok (some d) ∧ d < N
  def2 : ∀ k, k < N → ∀ g ∈ T1.allGens, ∃ d, T2.get k g = .ok (some d)
  lt : ∀ c, c < N → σ c < N
  inj : ∀ a b, a < N → b < N → σ a = σ b → a = b
  hom : ∀ c g d, c < N → g ∈ T1.allGens → T1.get c g = .ok (some d) → T2.get (σ c) g = .ok (some (σ d))
  cs : CS T1

/-- all slots before the current position hold values below the count -/
def Proc (T1 : Table) (c row : Nat) (pre : List Int) : Prop :=
  ∀ k' g', g' ∈ T1.allGens → Before k' g' row pre → val T1 k' g' < c

/-- in a standard table the next value is at most the count of values seen so far -/
theorem next_le {T1 T2 : Table} {σ : Nat → Nat} {N : Nat} (h : IsoStd T1 T2 σ N) {c row : Nat}
    {pre post : List Int} {g : Int} (hsplit : T1.allGens = pre ++ g :: post) (hrow : row < N)
    (hc : 1 ≤ c) (hp : Proc T1 c row pre) : val T1 row g ≤ c := by
  have hnd : T1.allGens.Nodup := allGensOf_nodup _
  by_contra hgt
  have hg : g ∈ T1.allGens := by rw [hsplit]; simp
  obtain ⟨e, he, heN⟩ := h.def1 row hrow g hg
  have hve : val T1 row g = e := val_eq he
  rw [hve] at hgt
  -- a slot holding the value `j` whose predecessors are all smaller, compared with the current slot
  have key : ∀ j, 0 < j → j < N → c ≤ j → j ≤ e →
      (j = e ∧ ∀ k' g', g' ∈ T1.allGens → Before k' g' row pre → val T1 k' g' < j) := by
    intro j hj0 hjN hcj hje
    obtain ⟨k0, g0, pre0, post0, _, hsplit0, hget0, hbef0⟩ := h.cs j hj0 (by rw [h.len1]; exact hjN)
    have hg0 : g0 ∈ T1.allGens := by rw [hsplit0]; simp
    have hv0 : val T1 k0 g0 = j := val_eq hget0
    have hcase : Before k0 g0 row pre ∨ (k0 = row ∧ g0 = g ∧ pre0 = pre) ∨ Before row g k0 pre0 := by
      by_cases h1 : k0 < row
      · exact Or.inl (Or.inl h1)
      · by_cases h2 : row < k0
        · exact Or.inr (Or.inr (Or.inl h2))
        · have hk : k0 = row := by omega
          rcases split_trichotomy hnd hsplit hsplit0 with h3 | ⟨h3, h4⟩ | h3
          · exact Or.inr (Or.inr (Or.inr ⟨hk.symm, h3⟩))
          · exact Or.inr (Or.inl ⟨hk, h3.symm, h4.symm⟩)
          · exact Or.inl (Or.inr ⟨hk, h3⟩)
    rcases hcase with hb | ⟨rfl, rfl, rfl⟩ | hb
    · have := hp k0 g0 hg0 hb
      omega
    · rw [hve] at hv0
      refine ⟨hv0.symm, ?_⟩
      intro k' g' hg' hb'
      obtain ⟨v, hv, hvj⟩ := hbef0 k' g' hg' hb'
      rw [val_eq hv]; exact hvj
    · obtain ⟨v, hv, hvj⟩ := hbef0 row g hg hb
      rw [he] at hv
      injection hv with hv; injection hv with hv
      omega
  have h1 := key e (by omega) heN (by omega) (Nat.le_refl _)
  have h2 := key c (by omega) (by omega) (Nat.le_refl _) (by omega)
  omega

theorem compareGens_iso {T1 T2 : Table} {σ : Nat → Nat} {N : Nat} (h : IsoStd T1 T2 σ N) (row : Nat)
    (hrow : row < N) :
    ∀ (gs pre : List Int) (c : Nat) (st : CSt), T1.allGens = pre ++ gs → CI σ N c st → row < c →
      Proc T1 c row pre →
      ∃ st', compareGens T2 N row gs st = .ok (fdGens T1 T2 row gs, st') ∧
        (fdGens T1 T2 row gs = none → ∃ c', CI σ N c' st' ∧ Proc T1 c' (row + 1) [])
  | [], pre, c, st, hsplit, ci, _, hp => by
    refine ⟨st, rfl, fun _ => ⟨c, ci, ?_⟩⟩
    intro k' g' hg' hb
    apply hp k' g' hg'
    rcases hb with hb | ⟨_, hb⟩
    · by_cases hk : k' < row
      · exact Or.inl hk
      · exact Or.inr ⟨by omega, by rw [hsplit] at hg'; simpa using hg'⟩
    · cases hb
  | g :: gs, pre, c, st, hsplit, ci, hrc, hp => by
    have hg : g ∈ T1.allGens := by rw [hsplit]; simp
    obtain ⟨e, he, heN⟩ := h.def1 row hrow g hg
    obtain ⟨o, ho⟩ := h.def2 row hrow g hg
    have hle : val T1 row g ≤ c := next_le h hsplit hrow ci.pos hp
    rw [val_eq he] at hle
    have h2 : st.1[row]? = some (σ row) := ci.n2o row hrc
    have h3 : T2.get (σ row) g = .ok (some (σ e)) := h.hom row g e hrow hg he
    rw [compareGens_cons_def T2 N row g gs st ho h2 h3]
    -- the new number is `e`
    have hassign : ∃ c', CI σ N c' (assign (σ e) st) ∧ lookupNat (σ e) (assign (σ e) st).2 = some e ∧
        e < c' ∧ c ≤ c' := by
      by_cases hec : e < c
      · obtain ⟨a1, a2⟩ := assign_old ci hec
        exact ⟨c, by rw [a1]; exact ci, by rw [a1]; exact a2, hec, Nat.le_refl _⟩
      · have hec' : e = c := by omega
        subst hec'
        obtain ⟨a1, a2⟩ := assign_new ci h.inj heN
        exact ⟨e + 1, a1, a2, by omega, by omega⟩
    obtain ⟨c', ci', hl, hec', hcc'⟩ := hassign
    rw [hl]
    simp only [fdGens, val_eq he, val_eq ho]
    by_cases hd : ((e : Int) - (o : Int)) ≠ 0
    · rw [if_pos hd, if_pos hd]
      exact ⟨_, rfl, fun hn => by cases hn⟩
    · rw [if_neg hd, if_neg hd]
      refine compareGens_iso h row hrow gs (pre ++ [g]) c' (assign (σ e) st) (by rw [hsplit]; simp) ci'
        (by omega) ?_
      intro k' g' hg' hb
      rcases hb with hb | ⟨hk, hb⟩
      · have := hp k' g' hg' (Or.inl hb); omega
      · rcases List.mem_append.mp hb with hb | hb
        · have := hp k' g' hg' (Or.inr ⟨hk, hb⟩); omega
        · simp only [List.mem_singleton] at hb
          subst hb; subst hk
          rw [val_eq he]; exact hec'

theorem compareRows_iso {T1 T2 : Table} {σ : Nat → Nat} {N : Nat} (h : IsoStd T1 T2 σ N) :
    ∀ (m row c : Nat) (st : CSt), row + m = N → CI σ N c st → Proc T1 c row [] →
      compareRows T2 N (List.range' row m) st = .ok (fdRows T1 T2 T1.allGens (List.range' row m))
  | 0, row, c, st, _, _, _ => by simp [compareRows, fdRows]
  | m + 1, row, c, st, hm, ci, hp => by
    have hrow : row < N := by omega
    -- the row has been seen
    have hrc : row < c := by
      by_cases h0 : row = 0
      · have := ci.pos; omega
      · obtain ⟨k0, g0, pre0, post0, hk0, hsplit0, hget0, _⟩ := h.cs row (by omega) (by rw [h.len1]; exact hrow)
        have hg0 : g0 ∈ T1.allGens := by rw [hsplit0]; simp
        have := hp k0 g0 hg0 (Or.inl hk0)
        rw [val_eq hget0] at this
        exact this
    obtain ⟨n2o, o2n⟩ := st
    simp only [List.range'_succ, compareRows, fdRows]
    have hsz : row < n2o.size := by rw [ci.size]; exact hrc
    rw [if_pos hsz, h.gens]
    obtain ⟨st', e1, e2⟩ := compareGens_iso h row hrow T1.allGens [] c (n2o, o2n) rfl ci hrc hp
    rw [e1]
    cases hf : fdGens T1 T2 row T1.allGens with
    | some r => rfl
    | none =>
      simp only []
      obtain ⟨c', ci', hp'⟩ := e2 hf
      exact compareRows_iso h m (row + 1) c' st' (by omega) ci' hp'

/-- **the comparison computes the lexicographic difference**: for a standard table `T1` and an
    isomorphism `σ : T1 → T2`, `compare_renumbered_from(T2, σ 0)` is the first non-zero
    difference `T1[slot] − T2[slot]` in row-major order -/
theorem compareRenumberedFrom_iso {T1 T2 : Table} {σ : Nat → Nat} {N : Nat} (h : IsoStd T1 T2 σ N)
    (hN : 0 < N) :
    compareRenumberedFrom T2 (σ 0) = .ok (fdRows T1 T2 T1.allGens (List.range N)) := by
  unfold compareRenumberedFrom
  rw [h.len2, List.range_eq_range']
  refine compareRows_iso h N 0 1 _ (by omega) ⟨rfl, ?_, ?_, Nat.le_refl _, hN⟩ ?_
  · intro i hi
    have : i = 0 := by omega
    subst this; rfl
  · intro x i
    simp only [lookupNat_cons, lookupNat]
    by_cases hx : σ 0 = x
    · simp only [hx, if_true, Option.some.injEq]
      constructor
      · rintro rfl; exact ⟨by omega, hx.symm⟩
      · rintro ⟨hi, _⟩; omega
    · simp only [hx, if_false]
      constructor
      · intro h'; cases h'
      · rintro ⟨hi, e⟩
        have : i = 0 := by omega
        subst this
        exact absurd e.symm hx
  · intro k' g' _ hb
    rcases hb with hb | ⟨_, hb⟩
    · omega
    · cases hb

end DSymVerif.CanonP
