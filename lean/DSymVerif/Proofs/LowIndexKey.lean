/-
C12 completeness, part 8: the first non-zero difference computed by `compare_renumbered_from`
against the lexicographic order of the Spec keys.
-/
import DSymVerif.Proofs.LowIndexRep

namespace DSymVerif.CanonP
open DSymVerif DSymVerif.Cosets DSymVerif.SpecC11 DSymVerif.SpecC12 DSymVerif.CosetP DSymVerif.RebaseP
open DSymVerif.LowIndexP DSymVerif.CosetInvP DSymVerif.CosetPartP

/-! ### the key of a table and the first non-zero difference -/

def keyRows (M : Table) (gens : List Int) (rows : List Nat) : List Int :=
  rows.flatMap (fun i => gens.map (fun g => ((val M i g : Nat) : Int)))

theorem lexLt_append_same : ∀ (l a b : List Int), lexLt (l ++ a) (l ++ b) = lexLt a b
  | [], _, _ => rfl
  | x :: l, a, b => by
    simp only [List.cons_append, lexLt, Int.lt_irrefl, if_false]
    exact lexLt_append_same l a b

theorem fdGens_lex (M1 M2 : Table) (row : Nat) : ∀ (gens : List Int) (a b : List Int),
    (∀ r, fdGens M1 M2 row gens = some r → r < 0 →
      lexLt (gens.map (fun g => ((val M1 row g : Nat) : Int)) ++ a)
        (gens.map (fun g => ((val M2 row g : Nat) : Int)) ++ b) = true) ∧
    (fdGens M1 M2 row gens = none →
      gens.map (fun g => ((val M1 row g : Nat) : Int)) = gens.map (fun g => ((val M2 row g : Nat) : Int)))
  | [], a, b => by simp [fdGens]
  | g :: gens, a, b => by
    obtain ⟨ih1, ih2⟩ := fdGens_lex M1 M2 row gens a b
    simp only [fdGens]
    by_cases hne : ((val M1 row g : Nat) : Int) - ((val M2 row g : Nat) : Int) ≠ 0
    · rw [if_pos hne]
      refine ⟨?_, fun h => by cases h⟩
      intro r hr hneg
      simp only [Option.some.injEq] at hr
      subst hr
      simp only [List.map_cons, List.cons_append, lexLt]
      have : ((val M1 row g : Nat) : Int) < ((val M2 row g : Nat) : Int) := by omega
      simp [this]
    · rw [if_neg hne]
      have he : ((val M1 row g : Nat) : Int) = ((val M2 row g : Nat) : Int) := by omega
      refine ⟨?_, ?_⟩
      · intro r hr hneg
        simp only [List.map_cons, List.cons_append, lexLt, he, Int.lt_irrefl, if_false]
        exact ih1 r hr hneg
      · intro hn
        simp only [List.map_cons, he, ih2 hn]

theorem fdRows_lex (M1 M2 : Table) (gens : List Int) : ∀ (rows : List Nat),
    fdRows M1 M2 gens rows < 0 → lexLt (keyRows M1 gens rows) (keyRows M2 gens rows) = true
  | [], h => by simp [fdRows] at h
  | row :: rows, h => by
    simp only [fdRows] at h
    simp only [keyRows, List.flatMap_cons]
    obtain ⟨h1, h2⟩ := fdGens_lex M1 M2 row gens
      (rows.flatMap (fun i => gens.map (fun g => ((val M1 i g : Nat) : Int))))
      (rows.flatMap (fun i => gens.map (fun g => ((val M2 i g : Nat) : Int))))
    cases hf : fdGens M1 M2 row gens with
    | some r =>
      rw [hf] at h
      exact h1 r hf h
    | none =>
      rw [hf] at h
      rw [h2 hf, lexLt_append_same]
      exact fdRows_lex M1 M2 gens rows h

/-- the Spec key of a re-based table is its row count followed by the model key -/
theorem tabKey_renum {t : Tab} {n s : Nat} {rels : List (List Int)} {u : Tab} {ord o2n : Array Nat}
    (hv : Valid t n rels []) (r : Renum t n s u ord o2n) :
    tabKey u = (u.size : Int) :: keyRows (Table.ofView n u) (letters n) (List.range u.size) := by
  have husz : u.size = t.size := by rw [r.u_eq]; simp [renumTab, r.size]
  unfold tabKey keyRows
  congr 1
  have hord : ord.toList = (List.range u.size).map (fun i => ord.getD i 0) := by
    apply List.ext_getElem
    · simp [husz, r.size]
    · intro i h1 h2
      simp only [Array.length_toList] at h1
      simp [Array.getD_eq_getD_getElem?, h1]
  conv_lhs => rw [r.u_eq]
  unfold renumTab
  rw [Array.toList_map, hord, List.flatMap_def, List.flatMap_def, List.map_map, List.map_map]
  congr 1
  apply List.map_congr_left
  intro i hi
  have hi' : i < ord.size := by rw [r.size, ← husz]; exact List.mem_range.mp hi
  simp only [Function.comp]
  apply List.map_congr_left
  intro g hg
  have hlt : ord.getD i 0 < t.size := by rw [getD_of_lt ord hi']; exact r.lt _ (by simp)
  obtain ⟨d, hd⟩ := hv.total _ hlt g hg
  rw [hd]
  simp only []
  have hent : entry u n i g = some (o2n.getD d 0) := by
    rw [r.u_eq, entry_renumTab r.size (fun d hd => r.o2n_lt d hd) i hi' g]
    rw [getD_of_lt ord hi'] at hd
    rw [hd]; rfl
  rw [val_eq (get_ofView hent)]

end DSymVerif.CanonP
