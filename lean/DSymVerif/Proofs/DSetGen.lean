/-
Lemmas about the model of the D-set generator (`Model/DSetGen.lean`), part 1:
inversion lemmas for the checked accessors, the "extension" order on partial D-sets,
the height function that strictly decreases along `children`, and fuel adequacy.
Core Lean only.
-/
import DSymVerif.Model.DSetGen
import DSymVerif.Proofs.Backtrack

namespace DSymVerif.DSG
open DSymVerif.DS

/-! ### checked accessors -/

theorem opC_ok {s : DSetData} {i d x : Nat} (h : opC s i d = .ok x) :
    d ≠ 0 ∧ s.idx i d < s.op.size ∧ s.opU i d = x := by
  unfold opC at h
  split at h
  · cases h
  · rename_i hd
    split at h
    · rename_i y hy
      cases h
      have := Array.getElem?_eq_some_iff.1 hy
      obtain ⟨hlt, hy'⟩ := this
      refine ⟨hd, hlt, ?_⟩
      unfold DSetData.opU
      simp [Array.getD, hlt, hy']
    · cases h

theorem opC_of_lt {s : DSetData} {i d : Nat} (hd : d ≠ 0) (h : s.idx i d < s.op.size) :
    opC s i d = .ok (s.opU i d) := by
  unfold opC
  rw [if_neg hd]
  have : s.op[s.idx i d]? = some (s.op[s.idx i d]) := Array.getElem?_eq_getElem h
  rw [this]
  simp [DSetData.opU, Array.getD, h]

theorem getC_ok {α : Type} {a : Array α} {k : Nat} {x : α} (h : getC a k = .ok x) :
    ∃ hk : k < a.size, a[k] = x := by
  unfold getC at h
  split at h
  · rename_i y hy
    cases h
    exact Array.getElem?_eq_some_iff.1 hy
  · cases h

theorem putC_ok {α : Type} {a a' : Array α} {k : Nat} {v : α} (h : putC a k v = .ok a') :
    k < a.size ∧ a' = a.setIfInBounds k v := by
  unfold putC at h
  split at h
  · cases h; exact ⟨‹_›, rfl⟩
  · cases h

/-- what a successful `set` tells us -/
theorem setC_ok {s s' : DSetData} {i d e : Nat} (h : setC s i d e = .ok s') :
    i ≤ s.dim ∧ 1 ≤ d ∧ d ≤ s.size ∧ 1 ≤ e ∧ e ≤ s.size ∧
    s.idx i d < s.op.size ∧ s.idx i e < s.op.size ∧
    (s.opU i d = 0 ∨ s.opU i d = e) ∧ (s.opU i e = 0 ∨ s.opU i e = d) ∧
    s' = { s with op := (s.op.setIfInBounds (s.idx i d) e).setIfInBounds (s.idx i e) d } := by
  unfold setC at h
  split at h
  · rename_i hb
    unfold DSetData.set at h
    split at h
    · cases h
    · rename_i h1
      split at h
      · cases h
      · rename_i h2
        split at h
        · cases h
        · rename_i h3
          simp only at h
          split at h
          · cases h
          · rename_i h4
            split at h
            · cases h
            · rename_i h5
              cases h
              simp only [Bool.not_eq_eq_eq_not, Bool.and_eq_true,
                decide_eq_true_eq, ne_eq, Bool.not_true, Bool.and_eq_false_imp,
                decide_eq_false_iff_not, Classical.not_imp, Decidable.not_not] at h1 h2 h3 h4 h5
              refine ⟨by omega, by omega, by omega, by omega, by omega, hb.1, hb.2, ?_, ?_, rfl⟩
              · by_cases hz : s.opU i d = 0
                · exact Or.inl hz
                · exact Or.inr (Classical.byContradiction fun he => h4 ⟨hz, he⟩)
              · by_cases hz : s.opU i e = 0
                · exact Or.inl hz
                · exact Or.inr (Classical.byContradiction fun he => h5 ⟨hz, he⟩)
  · cases h

/-! ### array bookkeeping -/

theorem getD_setIfInBounds (a : Array Nat) (k v j : Nat) :
    (a.setIfInBounds k v).getD j 0 = if k = j ∧ k < a.size then v else a.getD j 0 := by
  simp only [Array.getD_eq_getD_getElem?, Array.getElem?_setIfInBounds]
  by_cases h : k = j
  · subst h
    by_cases h2 : k < a.size
    · simp [h2]
    · have : a[k]? = none := Array.getElem?_eq_none (by omega)
      simp [h2]
  · simp [h]

theorem zeros_setIfInBounds_le (a : Array Nat) (k v : Nat) (hv : v ≠ 0) :
    zeros (a.setIfInBounds k v) ≤ zeros a := by
  unfold zeros
  rw [Array.setIfInBounds_def]
  split
  · rename_i h
    rw [Array.count_set h]
    have : (if (v == 0) = true then 1 else 0) = 0 := by simp [hv]
    rw [this]
    omega
  · exact Nat.le_refl _

theorem zeros_setIfInBounds_lt (a : Array Nat) (k v : Nat) (hv : v ≠ 0) (hk : k < a.size)
    (h0 : a.getD k 0 = 0) : zeros (a.setIfInBounds k v) + 1 ≤ zeros a := by
  unfold zeros
  rw [Array.setIfInBounds_def, dif_pos hk, Array.count_set hk]
  have h1 : (if (v == 0) = true then 1 else 0) = 0 := by simp [hv]
  have h0' : a[k] = 0 := by simpa [Array.getD, hk] using h0
  have h2 : (if (a[k] == 0) = true then 1 else 0) = 1 := by simp [h0']
  have h3 := Array.boole_getElem_le_count (xs := a) (a := 0) hk
  rw [h2] at h3
  rw [h1, h2]
  omega

/-! ### extension of partial D-sets -/

/-- `t` extends `s`: same shape, every defined entry kept, no more undefined entries -/
structure Ext (s t : DSetData) : Prop where
  size_eq : t.size = s.size
  dim_eq : t.dim = s.dim
  len_eq : t.op.size = s.op.size
  keep : ∀ k, s.op.getD k 0 ≠ 0 → t.op.getD k 0 = s.op.getD k 0
  zeros_le : zeros t.op ≤ zeros s.op

theorem Ext.refl (s : DSetData) : Ext s s := ⟨rfl, rfl, rfl, fun _ _ => rfl, Nat.le_refl _⟩

theorem Ext.trans {s t u : DSetData} (h1 : Ext s t) (h2 : Ext t u) : Ext s u :=
  ⟨h2.size_eq.trans h1.size_eq, h2.dim_eq.trans h1.dim_eq, h2.len_eq.trans h1.len_eq,
   fun k hk => by
     have := h1.keep k hk
     rw [← this]
     exact h2.keep k (by rw [this]; exact hk),
   Nat.le_trans h2.zeros_le h1.zeros_le⟩

theorem Ext.idx {s t : DSetData} (h : Ext s t) (i d : Nat) : t.idx i d = s.idx i d := by
  simp [DSetData.idx, h.dim_eq]

theorem Ext.opU_keep {s t : DSetData} (h : Ext s t) {i d : Nat} (hd : s.opU i d ≠ 0) :
    t.opU i d = s.opU i d := by
  unfold DSetData.opU at *
  rw [h.idx]
  exact h.keep _ hd

/-- a successful `set` extends the set, and strictly so when one of the two entries was
    undefined -/
theorem setC_ext {s s' : DSetData} {i d e : Nat} (h : setC s i d e = .ok s') : Ext s s' := by
  obtain ⟨_, hd1, _, he1, _, _, _, hdi, hei, rfl⟩ := setC_ok h
  refine ⟨rfl, rfl, by simp, ?_, ?_⟩
  · intro k hk
    simp only [getD_setIfInBounds, Array.size_setIfInBounds]
    split
    · rename_i h1
      have : s.opU i e = s.op.getD k 0 := by unfold DSetData.opU; rw [h1.1]
      rcases hei with h0 | h0
      · rw [this] at h0; exact absurd h0 hk
      · rw [← this, h0]
    · split
      · rename_i h1
        have : s.opU i d = s.op.getD k 0 := by unfold DSetData.opU; rw [h1.1]
        rcases hdi with h0 | h0
        · rw [this] at h0; exact absurd h0 hk
        · rw [← this, h0]
      · rfl
  · exact Nat.le_trans (zeros_setIfInBounds_le _ _ _ (by omega)) (zeros_setIfInBounds_le _ _ _ (by omega))

theorem setC_zeros_lt {s s' : DSetData} {i d e : Nat} (h : setC s i d e = .ok s')
    (h0 : s.opU i e = 0) : zeros s'.op + 1 ≤ zeros s.op := by
  obtain ⟨_, hd1, _, he1, _, hkd, hke, _, _, rfl⟩ := setC_ok h
  simp only
  by_cases hk : s.idx i d = s.idx i e
  · -- both writes hit the same cell
    have h1 := zeros_setIfInBounds_lt s.op (s.idx i d) e (by omega) hkd (by rw [hk]; exact h0)
    have h2 := zeros_setIfInBounds_le (s.op.setIfInBounds (s.idx i d) e) (s.idx i e) d (by omega)
    omega
  · have h1 := zeros_setIfInBounds_le s.op (s.idx i d) e (by omega)
    have h2 := zeros_setIfInBounds_lt (s.op.setIfInBounds (s.idx i d) e) (s.idx i e) d (by omega)
      (by simpa using hke) (by
        rw [getD_setIfInBounds]
        rw [if_neg (by intro hh; exact hk hh.1)]
        exact h0)
    omega

/-! ### check_and_apply_implications only extends -/

theorem implRow_ext (i d : Nat) : ∀ (js : List Nat) (ds : DSetData) (q : List (Nat × Nat))
    (ds' : DSetData) (q' : List (Nat × Nat)),
    implRow i d js ds q = .ok (some (ds', q')) → Ext ds ds' := by
  intro js
  induction js with
  | nil =>
    intro ds q ds' q' h
    simp only [implRow] at h
    cases h
    exact Ext.refl _
  | cons j js ih =>
    intro ds q ds' q' h
    simp only [implRow] at h
    split at h
    · split at h
      · rename_i head tail gap k hs
        split at h
        · cases h
        · split at h
          · split at h
            · rename_i ds1 hset
              exact (setC_ext hset).trans (ih _ _ _ _ h)
            · cases h
          · exact ih _ _ _ _ h
      · cases h
    · exact ih _ _ _ _ h

theorem implLoop_ext : ∀ (fuel : Nat) (ds : DSetData) (q : List (Nat × Nat)) (ds' : DSetData),
    implLoop fuel ds q = .ok (some ds') → Ext ds ds' := by
  intro fuel
  induction fuel with
  | zero =>
    intro ds q ds' h
    cases q with
    | nil => simp only [implLoop] at h; cases h; exact Ext.refl _
    | cons a q => simp only [implLoop] at h; cases h
  | succ fuel ih =>
    intro ds q ds' h
    cases q with
    | nil => simp only [implLoop] at h; cases h; exact Ext.refl _
    | cons a q =>
      obtain ⟨i, d⟩ := a
      simp only [implLoop] at h
      split at h
      · rename_i ds1 q1 hrow
        exact (implRow_ext _ _ _ _ _ _ _ hrow).trans (ih _ _ _ h)
      · cases h
      · cases h

theorem checkImpl_ext {ds ds' : DSetData} {i d : Nat} (h : checkImpl ds i d = .ok (some ds')) :
    Ext ds ds' := implLoop_ext _ _ _ _ h

/-! ### one child -/

theorem childFor_ok {maxSize : Nat} {s c : GenState} {i d e : Nat}
    (h : childFor maxSize s i d e = .ok (some c)) :
    ∃ ds0 irs0 ds1,
      ((s.dset.size < e ∧ e < s.isRemapStart.size ∧ ds0 = s.dset.grow 1 ∧
          irs0 = s.isRemapStart.setIfInBounds e true) ∨
       (¬ s.dset.size < e ∧ ds0 = s.dset ∧ irs0 = s.isRemapStart)) ∧
      setC ds0 i d e = .ok ds1 ∧ checkImpl ds1 i d = .ok (some c.dset) ∧
      checkCanonicity c.dset maxSize irs0 = .ok (some c.isRemapStart) ∧
      nextUndefined c.dset i d = .ok c.next := by
  unfold childFor at h
  simp only at h
  split at h
  · rename_i ds0 irs0 hg
    split at h
    · rename_i ds1 hset
      split at h
      · rename_i ds2 himpl
        split at h
        · rename_i irs hcan
          split at h
          · rename_i nx hnx
            cases h
            refine ⟨ds0, irs0, ds1, ?_, hset, himpl, hcan, hnx⟩
            split at hg
            · rename_i hlt
              split at hg
              · rename_i irs' hput
                cases hg
                obtain ⟨h1, h2⟩ := putC_ok hput
                exact Or.inl ⟨hlt, h1, rfl, h2⟩
              · cases hg
            · rename_i hlt
              cases hg
              exact Or.inr ⟨hlt, rfl, rfl⟩
          · cases h
        · cases h
        · cases h
      · cases h
      · cases h
    · cases h
  · cases h

theorem getD_append_replicate_zero (a : Array Nat) (n k : Nat) (hk : a.size ≤ k) :
    (a ++ Array.replicate n 0).getD k 0 = 0 := by
  simp only [Array.getD_eq_getD_getElem?]
  by_cases h : k < a.size + n
  · have hlt : k < (a ++ Array.replicate n 0).size := by simp; omega
    rw [Array.getElem?_eq_getElem hlt, Array.getElem_append_right hk]
    simp
  · have : (a ++ Array.replicate n 0)[k]? = none :=
      Array.getElem?_eq_none (by simp; omega)
    rw [this]; rfl

theorem zeros_append_replicate (a : Array Nat) (n : Nat) :
    zeros (a ++ Array.replicate n 0) = zeros a + n := by
  simp [zeros]

/-! ### the height function -/

/-- undefined entries still to fill, counting the rows of chambers not yet created -/
def height (maxSize : Nat) : Node → Nat
  | .panicked => 0
  | .st s => (maxSize - s.dset.size) * (s.dset.dim + 1) + zeros s.dset.op + 1

theorem childFor_height {maxSize : Nat} {s c : GenState} {i d e : Nat}
    (hst : storeOk s.dset = true) (hmax : e ≤ maxSize)
    (hz : ¬ s.dset.size < e → s.dset.opU i e = 0)
    (h : childFor maxSize s i d e = .ok (some c)) :
    height maxSize (.st c) < height maxSize (.st s) := by
  obtain ⟨ds0, irs0, ds1, hg, hset, himpl, _, _⟩ := childFor_ok h
  have hx := checkImpl_ext himpl
  have hsz := hx.size_eq
  have hdm := hx.dim_eq
  have hzl := hx.zeros_le
  obtain ⟨_, _, _, _, hes, _, _, _, _, _⟩ := setC_ok hset
  have hx1 := setC_ext hset
  simp only [storeOk, beq_iff_eq] at hst
  unfold height
  simp only
  rcases hg with ⟨hlt, _, rfl, _⟩ | ⟨hlt, rfl, _⟩
  · -- a new chamber
    have he : e = s.dset.size + 1 := by
      have : (s.dset.grow 1).size = s.dset.size + 1 := rfl
      omega
    have h0 : (s.dset.grow 1).opU i e = 0 := by
      unfold DSetData.opU DSetData.grow DSetData.idx
      simp only
      apply getD_append_replicate_zero
      rw [hst, he]
      simp
    have hlt1 := setC_zeros_lt hset h0
    have hz0 : zeros (s.dset.grow 1).op = zeros s.dset.op + (s.dset.dim + 1) := by
      unfold DSetData.grow
      simp only [zeros_append_replicate]
      omega
    rw [hsz, hdm, hx1.size_eq, hx1.dim_eq]
    have e1 : (s.dset.grow 1).size = s.dset.size + 1 := rfl
    have e2 : (s.dset.grow 1).dim = s.dset.dim := rfl
    rw [e1, e2]
    have e3 : maxSize - s.dset.size = (maxSize - (s.dset.size + 1)) + 1 := by omega
    rw [e3, Nat.add_mul, Nat.one_mul]
    omega
  · have hlt1 := setC_zeros_lt hset (hz hlt)
    rw [hsz, hdm, hx1.size_eq, hx1.dim_eq]
    omega

/-! ### the loop over `e` -/

theorem childLoop_mem {maxSize : Nat} {s : GenState} {i d : Nat} :
    ∀ (es : List Nat) (cs : List GenState), childLoop maxSize s i d es = .ok cs →
    ∀ c, c ∈ cs → ∃ e, e ∈ es ∧ (¬ s.dset.size < e → opC s.dset i e = .ok 0) ∧
      childFor maxSize s i d e = .ok (some c) := by
  intro es
  induction es with
  | nil =>
    intro cs h c hc
    simp only [childLoop] at h
    cases h
    cases hc
  | cons e es ih =>
    intro cs h c hc
    simp only [childLoop] at h
    split at h
    · rename_i htake
      have hcond : ¬ s.dset.size < e → opC s.dset i e = .ok 0 := by
        intro hlt
        rw [if_neg hlt] at htake
        split at htake
        · rename_i x hx
          injection htake with hx0
          have : x = 0 := by simpa using hx0
          rw [hx, this]
        · cases htake
      split at h
      · rename_i c0 hc0
        split at h
        · rename_i cs0 hcs0
          cases h
          rcases List.mem_cons.1 hc with rfl | hc'
          · exact ⟨e, List.mem_cons_self, hcond, hc0⟩
          · obtain ⟨e', he', hh⟩ := ih _ hcs0 c hc'
            exact ⟨e', List.mem_cons_of_mem _ he', hh⟩
        · cases h
      · obtain ⟨e', he', hh⟩ := ih _ h c hc
        exact ⟨e', List.mem_cons_of_mem _ he', hh⟩
      · cases h
    · obtain ⟨e', he', hh⟩ := ih _ h c hc
      exact ⟨e', List.mem_cons_of_mem _ he', hh⟩
    · cases h

theorem childLoop_length {maxSize : Nat} {s : GenState} {i d : Nat} :
    ∀ (es : List Nat) (cs : List GenState), childLoop maxSize s i d es = .ok cs →
    cs.length ≤ es.length := by
  intro es
  induction es with
  | nil => intro cs h; simp only [childLoop] at h; cases h; simp
  | cons e es ih =>
    intro cs h
    simp only [childLoop] at h
    split at h
    · split at h
      · split at h
        · rename_i cs0 hcs0
          cases h
          have := ih _ hcs0
          simp only [List.length_cons]; omega
        · cases h
      · have := ih _ h; simp only [List.length_cons]; omega
      · cases h
    · have := ih _ h; simp only [List.length_cons]; omega
    · cases h

/-- **children strictly decrease the height** -/
theorem children_decreasing (dim maxSize : Nat) :
    BT.Decreasing (problem dim maxSize) (height maxSize) := by
  intro n c hc
  change c ∈ children maxSize n at hc
  unfold children at hc
  split at hc
  · cases hc
  · rename_i s
    split at hc
    · cases hc
    · rename_i i d hnext
      split at hc
      · -- store guard
        have : c = .panicked := by simpa using hc
        subst this
        simp [height]
      · rename_i hst
        simp only at hc
        split at hc
        · rename_i cs hcs
          obtain ⟨c', hc', rfl⟩ := List.mem_map.1 hc
          obtain ⟨e, he, hcond, hfor⟩ := childLoop_mem _ _ hcs c' hc'
          have hst' : storeOk s.dset = true := by simpa using hst
          have hmax : e ≤ maxSize := by
            have := List.mem_range'_1.1 he
            have hm : min (s.dset.size + 1) maxSize ≤ maxSize := Nat.min_le_right _ _
            omega
          exact childFor_height hst' hmax (fun hlt => (opC_ok (hcond hlt)).2.2) hfor
        · have : c = .panicked := by simpa using hc
          subst this
          simp [height]

theorem children_length_le (maxSize : Nat) (n : Node) :
    (children maxSize n).length ≤ maxSize + 1 := by
  unfold children
  split
  · simp
  · rename_i s
    split
    · simp
    · rename_i i d hnext
      split
      · simp
      · simp only
        split
        · rename_i cs hcs
          have := childLoop_length _ _ hcs
          have hm : min (s.dset.size + 1) maxSize ≤ maxSize := Nat.min_le_right _ _
          simp only [List.length_map, List.length_range'] at this ⊢
          omega
        · simp

end DSymVerif.DSG

/-! ### a size bound for finitely branching trees of finite height -/

namespace DSymVerif.BT
variable {σ α : Type}

theorem length_flatMap_le {β γ : Type} (l : List β) (f : β → List γ) (m : Nat)
    (h : ∀ x, x ∈ l → (f x).length ≤ m) : (l.flatMap f).length ≤ l.length * m := by
  induction l with
  | nil => simp
  | cons a t ih =>
    simp only [List.flatMap_cons, List.length_append, List.length_cons]
    have h1 := h a (by simp)
    have h2 := ih (fun x hx => h x (by simp [hx]))
    rw [Nat.succ_mul]
    omega

/-- a tree with at most `b` children per node and height function `h` has at most
    `(b+1)^(h s)` nodes below `s` -/
theorem dfs_length_le (p : Problem σ α) (h : σ → Nat) (hd : Decreasing p h) (b : Nat)
    (hb : ∀ s, (p.children s).length ≤ b) :
    ∀ (n : Nat) (s : σ), h s ≤ n → (dfs p h s).length ≤ (b + 1) ^ n := by
  intro n
  induction n with
  | zero =>
    intro s hs
    rw [dfs_unfold p h hd s]
    have : p.children s = [] := by
      cases hc : p.children s with
      | nil => rfl
      | cons c t =>
        have := hd s c (by rw [hc]; simp)
        omega
    simp [this]
  | succ n ih =>
    intro s hs
    rw [dfs_unfold p h hd s]
    simp only [List.length_cons]
    have h1 := length_flatMap_le (p.children s) (dfs p h) ((b + 1) ^ n) (fun c hc => by
      have := hd s c hc
      exact ih c (by omega))
    have h2 : (p.children s).length * (b + 1) ^ n ≤ b * (b + 1) ^ n :=
      Nat.mul_le_mul_right _ (hb s)
    have h3 : 0 < (b + 1) ^ n := Nat.pow_pos (by omega)
    have h4 : (b + 1) ^ (n + 1) = b * (b + 1) ^ n + (b + 1) ^ n := by
      rw [Nat.pow_succ, Nat.mul_comm, Nat.add_mul, Nat.one_mul]
    omega

end DSymVerif.BT

namespace DSymVerif.DSG
open DSymVerif.DS

theorem height_root_le (dim maxSize : Nat) :
    height maxSize (root dim maxSize) ≤ (maxSize + 1) * (dim + 1) + 2 := by
  unfold root DSetData.new
  split
  · rename_i ds h
    split at h
    · cases h
    · cases h
      simp only [height, zeros, Array.count_replicate_self]
      have : (maxSize - 1) * (dim + 1) ≤ maxSize * (dim + 1) :=
        Nat.mul_le_mul_right _ (by omega)
      rw [Nat.add_mul]
      omega
  · simp [height]

/-- **fuel adequacy**: the fuel handed to the iterator model covers the whole tree -/
theorem fuel_adequate (dim maxSize : Nat) :
    (BT.dfs (problem dim maxSize) (height maxSize) (problem dim maxSize).root).length ≤
      fuel dim maxSize := by
  have h := BT.dfs_length_le (problem dim maxSize) (height maxSize)
    (children_decreasing dim maxSize) (maxSize + 1) (children_length_le maxSize)
    _ (root dim maxSize) (height_root_le dim maxSize)
  exact h

/-- **backtrack_preorder for the D-set generator**: the emitted sequence is the
    `extract`-filter of the depth-first preorder listing of the search tree -/
theorem dsets_eq_dfs (dim maxSize : Nat) :
    dsets dim maxSize =
      (BT.dfs (problem dim maxSize) (height maxSize) (root dim maxSize)).filterMap extract :=
  BT.run_eq_dfs (problem dim maxSize) (height maxSize) (children_decreasing dim maxSize)
    (fuel dim maxSize) (fuel_adequate dim maxSize)

end DSymVerif.DSG
