/-
C12 irredundancy: the children of a search state differ pairwise in the value of the parent's
first free slot, which every descendant inherits; two complete standard canonical states that
are isomorphic have identical entries (`iso_canonical_eq`); hence no two tables yielded by the
model of `coset_tables` are isomorphic.
-/
import DSymVerif.Proofs.LowIndexCanon5

namespace DSymVerif.CanonP
open DSymVerif DSymVerif.Cosets DSymVerif.LowIndexP DSymVerif.CosetInvP DSymVerif.CosetPartP

/-- two tables are isomorphic as sets with an action of the letters -/
def TIso (n : Nat) (t1 t2 : Table) : Prop :=
  ∃ (σ : Nat → Nat) (N : Nat), t1.len = N ∧ t2.len = N ∧ (∀ c, c < N → σ c < N) ∧
    (∀ a b, a < N → b < N → σ a = σ b → a = b) ∧
    ∀ c g d, c < N → g ∈ allGensOf n → t1.get c g = .ok (some d) → t2.get (σ c) g = .ok (some (σ d))

section
variable {maxRows n : Nat} {rels R : List (List Int)}

/-- the children of a state differ pairwise in the value of its first free slot, which every
    descendant inherits -/
theorem potentialChildren_key (hrot : RotClosed rels R)
    (hwr : ∀ w ∈ rels, ∀ x ∈ w, x ∈ allGensOf n) (hwR : ∀ u ∈ R, ∀ x ∈ u, x ∈ allGensOf n)
    {t : Table} (s : SInv maxRows n rels t) {l : List Table} (h : potentialChildren t R maxRows = .ok l) :
    ∃ k g, (∀ t' ∈ l, Ext2 t t' ∧ k < t.len ∧ g ∈ t.allGens ∧ ∃ pos, t'.get k g = .ok (some pos)) ∧
      l.Pairwise (fun a b => val a k g ≠ val b k g) := by
  unfold potentialChildren at h
  cases hf : firstFreeInTable t with
  | ok o =>
    cases o with
    | none =>
      simp only [hf, Outcome.ok.injEq] at h
      subst h
      exact ⟨0, 0, (fun _ h' => by cases h'), List.Pairwise.nil⟩
    | some p =>
      obtain ⟨k, g⟩ := p
      simp only [hf] at h
      obtain ⟨hgen, _⟩ := firstFreeRows_spec t _ k g hf
      have hk : k < t.len := List.mem_range.mp (firstFreeRows_mem t _ k g hf)
      have hmin1 := Nat.min_le_left maxRows (t.len + 1)
      have hmin2 := Nat.min_le_right maxRows (t.len + 1)
      have hfacts : ∀ pos, pos ∈ List.range' k (min maxRows (t.len + 1) - k) → ∀ t',
          derivedTable t R k pos g = .ok (some t') → Ext2 t t' ∧ val t' k g = pos ∧
            t'.get k g = .ok (some pos) := by
        intro pos hpos t' hd
        rw [List.mem_range'_1] at hpos
        have hdd : pos < t.len ∨ (pos = t.len ∧ k < pos) := by
          by_cases hpl : pos < t.len
          · exact Or.inl hpl
          · exact Or.inr ⟨by omega, by omega⟩
        obtain ⟨_, e, _, hg'⟩ := derivedTable_sinv hrot hwr hwR s hgen hk hdd (by omega) hd
        exact ⟨e, val_eq hg', hg'⟩
      refine ⟨k, g, ?_, ?_⟩
      · intro t' ht'
        obtain ⟨pos, hpos, hd⟩ := childrenFrom_spec t R k g _ l h t' ht'
        exact ⟨(hfacts pos hpos t' hd).1, hk, hgen, pos, (hfacts pos hpos t' hd).2.2⟩
      · -- pairwise distinct keys, by induction over the position list
        have hnd : (List.range' k (min maxRows (t.len + 1) - k)).Nodup := List.nodup_range' (step := 1)
        generalize List.range' k (min maxRows (t.len + 1) - k) = ps at h hfacts hnd
        induction ps generalizing l with
        | nil =>
          simp only [childrenFrom, Outcome.ok.injEq] at h
          subst h; exact List.Pairwise.nil
        | cons pos ps ih =>
          simp only [childrenFrom] at h
          cases hd : derivedTable t R k pos g with
          | ok r =>
            simp only [hd] at h
            cases hc : childrenFrom t R k g ps with
            | ok rest =>
              simp only [hc, Outcome.ok.injEq] at h
              subst h
              have ih' := ih hc (fun p hp => hfacts p (by simp [hp])) (List.nodup_cons.mp hnd).2
              cases r with
              | none => exact ih'
              | some t1 =>
                refine List.pairwise_cons.mpr ⟨?_, ih'⟩
                intro b hb
                obtain ⟨pb, hpb, hdb⟩ := childrenFrom_spec t R k g ps rest hc b hb
                rw [(hfacts pos (by simp) t1 hd).2.1, (hfacts pb (by simp [hpb]) b hdb).2.1]
                intro e
                subst e
                exact (List.nodup_cons.mp hnd).1 hpb
            | err => simp [hc] at h
            | panic => simp [hc] at h
          | err => simp [hd] at h
          | panic => simp [hd] at h
  | err => simp [hf] at h
  | panic => simp [hf] at h


theorem btChildren_ext2 (hrot : RotClosed rels R)
    (hwr : ∀ w ∈ rels, ∀ x ∈ w, x ∈ allGensOf n) (hwR : ∀ u ∈ R, ∀ x ∈ u, x ∈ allGensOf n)
    {t t' : Table} (s : SInv maxRows n rels t) (hc : (.ok t' : Outcome Table) ∈ btChildren R maxRows (.ok t)) :
    Ext2 t t' := by
  simp only [btChildren] at hc
  cases hp : potentialChildren t R maxRows with
  | ok ts =>
    simp only [hp] at hc
    cases hf : filterCanonical ts with
    | ok cs =>
      simp only [hf, List.mem_map, Outcome.ok.injEq] at hc
      obtain ⟨t1, ht1, rfl⟩ := hc
      obtain ⟨k, g, h1, _⟩ := potentialChildren_key hrot hwr hwR s hp
      exact (h1 t1 (filterCanonical_subset ts cs hf t1 ht1)).1
    | err => simp [hf] at hc
    | panic => simp [hf] at hc
  | err => simp [hp] at hc
  | panic => simp [hp] at hc

theorem reach_ext2 (hrot : RotClosed rels R)
    (hwr : ∀ w ∈ rels, ∀ x ∈ w, x ∈ allGensOf n) (hwR : ∀ u ∈ R, ∀ x ∈ u, x ∈ allGensOf n)
    {s s' : Outcome Table} (hr : BT.Reach (btProblem n R maxRows) s s') :
    ∀ t t', s = .ok t → s' = .ok t' → SInv2 maxRows n rels t → Ext2 t t' := by
  induction hr with
  | refl s =>
    intro t t' h1 h2 _
    rw [h1] at h2; injection h2 with h2; subst h2; exact Ext2.refl _
  | step hc hr' ih =>
    rename_i s0 c0 t0
    intro t t' h1 h2 si
    subst h1
    cases c0 with
    | ok tc =>
      have hc' : (.ok tc : Outcome Table) ∈ btChildren R maxRows (.ok t) := hc
      have e1 := btChildren_ext2 hrot hwr hwR si.1 hc'
      have si' := (btChildren_sinv2 (s := .ok t) hrot hwr hwR hc'
        (fun t0 h0 => by injection h0 with h0; exact h0 ▸ si) tc rfl).1
      exact e1.trans (ih tc t' rfl h2 si')
    | err =>
      -- an error state has no descendants but itself
      cases hr' with
      | refl => cases h2
      | step hc' _ => simp [btProblem, btChildren] at hc'
    | panic =>
      cases hr' with
      | refl => cases h2
      | step hc' _ => simp [btProblem, btChildren] at hc'

/-- a state that is extracted has no children -/
theorem btChildren_of_extract {t t1 : Table} (h : btExtract (.ok t) = some (.ok t1)) :
    btChildren R maxRows (.ok t) = [] := by
  simp only [btExtract] at h
  cases hf : firstFreeInTable t with
  | ok o =>
    cases o with
    | none => simp [btChildren, potentialChildren, hf, filterCanonical]
    | some p => simp [hf] at h
  | err => simp [hf] at h
  | panic => simp [hf] at h

/-- yielded tables from two states: not isomorphic -/
def NoIso (n : Nat) (s1 s2 : Outcome Table) : Prop :=
  ∀ t1 t2, btExtract s1 = some (.ok t1) → btExtract s2 = some (.ok t2) → ¬ TIso n t1 t2

/-- from an isomorphism of the yielded (compacted) tables to an isomorphism of the states -/
theorem isoStd_of_tiso {P1 P2 t1 t2 : Table} (s1 : SInv2 maxRows n rels P1) (s2 : SInv2 maxRows n rels P2)
    (e1 : btExtract (.ok P1) = some (.ok t1)) (e2 : btExtract (.ok P2) = some (.ok t2))
    (hiso : TIso n t1 t2) :
    ∃ σ N, IsoStd P1 P2 σ N ∧ 0 < N ∧
      (∀ k, k < N → ∀ g ∈ P1.allGens, ∃ d, P2.get k g = .ok (some d) ∧ d < N) := by
  obtain ⟨hc1, hd1⟩ := btExtract_complete e1
  obtain ⟨hc2, hd2⟩ := btExtract_complete e2
  have hcomp1 : AllComplete P1 := fun c hc _ g hg => (get_some_iff P1 c g).mp (hd1 c hc g hg)
  have hcomp2 : AllComplete P2 := fun c hc _ g hg => (get_some_iff P2 c g).mp (hd2 c hc g hg)
  obtain ⟨l1, _, _, _, g1⟩ := compact_clean s1.1.tcq s1.1.clean hcomp1 hc1
  obtain ⟨l2, _, _, _, g2⟩ := compact_clean s2.1.tcq s2.1.clean hcomp2 hc2
  obtain ⟨σ, N, a1, a2, a3, a4, a5⟩ := hiso
  have hN1 : P1.len = N := by rw [← l1]; exact a1
  have hN2 : P2.len = N := by rw [← l2]; exact a2
  have hg1 : P1.allGens = allGensOf n := s1.1.allGens
  have hg2 : P2.allGens = allGensOf n := s2.1.allGens
  refine ⟨σ, N, ⟨hN1, hN2, by rw [hg1, hg2], ?_, ?_, a3, a4, ?_, s1.2⟩, by rw [← hN1]; exact s1.1.tcq.shape.pos, ?_⟩
  · intro k hk g hg
    obtain ⟨d, hd⟩ := hd1 k (by rw [hN1]; exact hk) g hg
    exact ⟨d, hd, by rw [← hN1]; exact s1.1.tcq.shape.range k g d hg hd⟩
  · intro k hk g hg
    rw [hg1, ← hg2] at hg
    exact hd2 k (by rw [hN2]; exact hk) g hg
  · intro c g d hc hg hget
    have h1 := g1 c g d hg (by rw [hN1]; exact hc) hget
    have h2 := a5 c g d hc (by rw [← hg1]; exact hg) h1
    -- back from the compacted table to the state
    have hσc : σ c < P2.len := by rw [hN2]; exact a3 c hc
    obtain ⟨d', hd'⟩ := hd2 (σ c) hσc g (by rw [hg2, ← hg1]; exact hg)
    have h3 := g2 (σ c) g d' (by rw [hg2, ← hg1]; exact hg) hσc hd'
    rw [h2] at h3
    injection h3 with h3; injection h3 with h3
    rw [h3]; exact hd'
  · intro k hk g hg
    rw [hg1, ← hg2] at hg
    obtain ⟨d, hd⟩ := hd2 k (by rw [hN2]; exact hk) g hg
    exact ⟨d, hd, by rw [← hN2]; exact s2.1.tcq.shape.range k g d hg hd⟩


/-- **irredundancy**: in the depth-first listing of the subtree below a state, no two states
    yield isomorphic tables -/
theorem pairwise_dfs (hrot : RotClosed rels R)
    (hwr : ∀ w ∈ rels, ∀ x ∈ w, x ∈ allGensOf n) (hwR : ∀ u ∈ R, ∀ x ∈ u, x ∈ allGensOf n) :
    ∀ (m : Nat) (s : Outcome Table), height maxRows s ≤ m → (∀ t, s = .ok t → SInv2 maxRows n rels t) →
      (BT.dfs (btProblem n R maxRows) (height maxRows) s).Pairwise (NoIso n) := by
  intro m
  induction m with
  | zero =>
    intro s hm hs
    rw [BT.dfs_unfold _ _ (btProblem_decreasing n R maxRows)]
    cases s with
    | ok t => have := height_pos maxRows t; omega
    | err => simp [btProblem, btChildren]
    | panic => simp [btProblem, btChildren]
  | succ m ih =>
    intro s hm hs
    rw [BT.dfs_unfold _ _ (btProblem_decreasing n R maxRows)]
    rw [List.pairwise_cons]
    constructor
    · -- the state itself against its descendants
      intro d hd t1 t2 e1 _
      cases s with
      | ok t =>
        have : (btProblem n R maxRows).children (.ok t) = [] := btChildren_of_extract e1
        rw [this] at hd
        cases hd
      | err => simp [btProblem, btExtract] at e1
      | panic => simp [btProblem, btExtract] at e1
    · rw [List.pairwise_flatMap]
      constructor
      · intro c hc
        have hdec := btProblem_decreasing n R maxRows s c hc
        exact ih c (by omega) (fun t ht => (btChildren_sinv2 hrot hwr hwR hc hs t ht).1)
      · -- two different children
        cases s with
        | ok t =>
          have si := hs t rfl
          show List.Pairwise _ (btChildren R maxRows (.ok t))
          simp only [btChildren]
          cases hp : potentialChildren t R maxRows with
          | ok ts =>
            simp only []
            cases hf : filterCanonical ts with
            | ok cs =>
              simp only []
              rw [List.pairwise_map]
              obtain ⟨k, g, hk1, hk2⟩ := potentialChildren_key hrot hwr hwR si.1 hp
              have hsub : cs.Sublist ts := by
                clear hk1 hk2 hp
                induction ts generalizing cs with
                | nil =>
                  simp only [filterCanonical, Outcome.ok.injEq] at hf
                  subst hf; exact List.Sublist.refl _
                | cons x xs ihx =>
                  simp only [filterCanonical] at hf
                  cases hcx : isCanonical x with
                  | ok b =>
                    cases hr : filterCanonical xs with
                    | ok rest =>
                      simp only [hcx, hr, Outcome.ok.injEq] at hf
                      subst hf
                      by_cases hb : b = true
                      · simp only [hb, if_true]
                        exact (ihx rest hr).cons₂ _
                      · simp only [hb]
                        exact (ihx rest hr).cons _
                    | err => simp [hcx, hr] at hf
                    | panic => simp [hcx, hr] at hf
                  | err => cases hr : filterCanonical xs <;> simp [hcx, hr] at hf
                  | panic => simp [hcx] at hf
              refine (hk2.sublist hsub).imp_of_mem ?_
              intro c1 c2 hc1 hc2 hne x hx y hy t1 t2 e1 e2 hiso
              -- x, y are complete descendants of c1, c2
              have hm1 : (.ok c1 : Outcome Table) ∈ btChildren R maxRows (.ok t) := by
                simp only [btChildren, hp, hf]; exact List.mem_map.mpr ⟨c1, hc1, rfl⟩
              have hm2 : (.ok c2 : Outcome Table) ∈ btChildren R maxRows (.ok t) := by
                simp only [btChildren, hp, hf]; exact List.mem_map.mpr ⟨c2, hc2, rfl⟩
              obtain ⟨sc1, cc1⟩ := btChildren_sinv2 (s := .ok t) hrot hwr hwR hm1
                (fun t0 h0 => by injection h0 with h0; exact h0 ▸ si) c1 rfl
              obtain ⟨sc2, cc2⟩ := btChildren_sinv2 (s := .ok t) hrot hwr hwR hm2
                (fun t0 h0 => by injection h0 with h0; exact h0 ▸ si) c2 rfl
              have hr1 := (BT.mem_dfs_iff _ (height maxRows) (btProblem_decreasing n R maxRows) _ x).mp hx
              have hr2 := (BT.mem_dfs_iff _ (height maxRows) (btProblem_decreasing n R maxRows) _ y).mp hy
              cases x with
              | ok P1 =>
                cases y with
                | ok P2 =>
                  have sp1 := reach_sinv2 hrot hwr hwR hr1 (fun t0 h0 => by injection h0 with h0; exact h0 ▸ sc1) P1 rfl
                  have sp2 := reach_sinv2 hrot hwr hwR hr2 (fun t0 h0 => by injection h0 with h0; exact h0 ▸ sc2) P2 rfl
                  have can1 : isCanonical P1 = .ok true := by
                    rcases reach_canonical hrot hwr hwR hr1 (fun t0 h0 => by injection h0 with h0; exact h0 ▸ sc1) with h | h
                    · injection h with h; rw [h]; exact cc1
                    · exact h P1 rfl
                  have can2 : isCanonical P2 = .ok true := by
                    rcases reach_canonical hrot hwr hwR hr2 (fun t0 h0 => by injection h0 with h0; exact h0 ▸ sc2) with h | h
                    · injection h with h; rw [h]; exact cc2
                    · exact h P2 rfl
                  have ex1 := reach_ext2 hrot hwr hwR hr1 c1 P1 rfl rfl sc1
                  have ex2 := reach_ext2 hrot hwr hwR hr2 c2 P2 rfl rfl sc2
                  obtain ⟨σ, N, hstd, hN, hd2⟩ := isoStd_of_tiso sp1 sp2 e1 e2 hiso
                  obtain ⟨_, hkl, hgg, pos1, hp1⟩ := hk1 c1 (hsub.subset hc1)
                  obtain ⟨_, _, _, pos2, hp2⟩ := hk1 c2 (hsub.subset hc2)
                  have hgc1 : g ∈ c1.allGens := by rw [sc1.1.allGens, ← si.1.allGens]; exact hgg
                  have hgc2 : g ∈ c2.allGens := by rw [sc2.1.allGens, ← si.1.allGens]; exact hgg
                  have hP1 := ex1.2.2 k g pos1 hgc1 hp1
                  have hP2 := ex2.2.2 k g pos2 hgc2 hp2
                  have hkN : k < N := by
                    rw [← hstd.len1]
                    by_contra hge
                    rw [get_ge_len g (by omega)] at hP1
                    cases hP1
                  have hval := iso_canonical_eq hstd sp2.2 hd2 hN can1 can2 k hkN g (by
                    rw [sp1.1.allGens, ← si.1.allGens]; exact hgg)
                  rw [val_eq hP1, val_eq hP2] at hval
                  rw [val_eq hp1, val_eq hp2] at hne
                  exact hne hval
                | err => simp [btProblem, btExtract] at e2
                | panic => simp [btProblem, btExtract] at e2
              | err => simp [btProblem, btExtract] at e1
              | panic => simp [btProblem, btExtract] at e1
            | err => simp
            | panic => simp
          | err => simp
          | panic => simp
        | err => simp [btProblem, btChildren]
        | panic => simp [btProblem, btChildren]


/-- irredundancy, general form (`rels'`: any list of words all of whose rotations are among the
    expanded relators) -/
theorem cosetTables_irredundant_gen (n : Nat) (rels rels' : List (List Int)) (k fuel : Nat)
    (hrot : RotClosed rels' (expandedRelatorSet rels)) (hlet' : ∀ w ∈ rels', ∀ x ∈ w, x ∈ allGensOf n)
    (hlet : ∀ w ∈ rels, ∀ x ∈ w, x ∈ allGensOf n)
    (hf : (BT.dfs (btProblem n (expandedRelatorSet rels) k) (height k) (.ok (Table.new n))).length ≤ fuel) :
    (cosetTables n rels k fuel).Pairwise
      (fun x y => ∀ t1 t2, x = .ok t1 → y = .ok t2 → ¬ TIso n t1 t2) := by
  unfold cosetTables
  rw [BT.run_eq_dfs _ (height k) (btProblem_decreasing n _ k) fuel hf]
  have hwR : ∀ u ∈ expandedRelatorSet rels, ∀ y ∈ u, y ∈ allGensOf n :=
    expandedRelatorSet_letters (S := fun y => y ∈ allGensOf n) (fun y hy => neg_mem_allGensOf hy) hlet
  have hp := pairwise_dfs (maxRows := k) hrot hlet' hwR _ (.ok (Table.new n)) (Nat.le_refl _)
    (fun t ht => by injection ht with ht; exact ht ▸ ⟨sinv_new k n rels', cs_new n⟩)
  refine List.Pairwise.filterMap _ ?_ hp
  intro a a' hno b hb b' hb' t1 t2 e1 e2
  subst e1; subst e2
  exact hno t1 t2 hb hb'

/-- **irredundancy of `coset_tables`**: no two of the yielded tables (at different positions
    of the output sequence) are isomorphic as sets with an action of the generators -/
theorem cosetTables_irredundant (n : Nat) (rels : List (List Int)) (k fuel : Nat)
    (hcr : ∀ ρ ∈ rels, ρ = [] ∨ FWP.CR ρ) (hlet : ∀ w ∈ rels, ∀ x ∈ w, x ∈ allGensOf n)
    (hf : (BT.dfs (btProblem n (expandedRelatorSet rels) k) (height k) (.ok (Table.new n))).length ≤ fuel) :
    (cosetTables n rels k fuel).Pairwise
      (fun x y => ∀ t1 t2, x = .ok t1 → y = .ok t2 → ¬ TIso n t1 t2) :=
  cosetTables_irredundant_gen n rels rels k fuel (rotClosed_expanded hcr) hlet hlet hf

end

end DSymVerif.CanonP
