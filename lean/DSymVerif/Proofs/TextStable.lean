/-
C01, part 12: a symbol returned by `parse` can be printed and parsed again — the numbers
read from a text fit `usize`, and the degrees of the parsed symbol are the numbers read
(`r · (m / r) = m`), so they fit as well.
-/
import DSymVerif.Proofs.TextFmt
import DSymVerif.Proofs.TextLex

namespace DSymVerif.Text
open DSymVerif DSymVerif.DS

/-! ### every number `lex` returns fits `usize` -/

theorem intListLoop_fits : ∀ (fuel : Nat) (cs : List Char), ∀ v ∈ (intListLoop fuel cs).1, v < usizeLimit := by
  intro fuel
  induction fuel with
  | zero => intro cs v hv; simp [intListLoop] at hv
  | succ fuel ih =>
    intro cs v hv
    unfold intListLoop at hv
    split at hv
    · simp at hv
    · split at hv
      · simp at hv
      · rename_i x cs2 h2
        simp only [List.mem_cons] at hv
        rcases hv with rfl | hv
        · exact (integer_length_lt h2).2
        · exact ih cs2 v hv

theorem intList_fits {cs r : List Char} {l : List Nat} (h : intList cs = some (l, r)) :
    ∀ v ∈ l, v < usizeLimit := by
  unfold intList at h
  split at h
  · cases h
  · rename_i x cs1 h1
    cases h
    intro v hv
    simp only [List.mem_cons] at hv
    rcases hv with rfl | hv
    · exact (integer_length_lt h1).2
    · exact intListLoop_fits _ _ v hv

theorem intListsLoop_fits : ∀ (fuel : Nat) (cs : List Char),
    ∀ l ∈ (intListsLoop fuel cs).1, ∀ v ∈ l, v < usizeLimit := by
  intro fuel
  induction fuel with
  | zero => intro cs l hl; simp [intListsLoop] at hl
  | succ fuel ih =>
    intro cs l hl
    unfold intListsLoop at hl
    split at hl
    · simp at hl
    · split at hl
      · simp at hl
      · rename_i l0 cs2 h2
        simp only [List.mem_cons] at hl
        rcases hl with rfl | hl
        · exact intList_fits h2
        · exact ih cs2 l hl

theorem intLists_fits {cs r : List Char} {ls : List (List Nat)} (h : intLists cs = some (ls, r)) :
    ∀ l ∈ ls, ∀ v ∈ l, v < usizeLimit := by
  unfold intLists at h
  split at h
  · cases h
  · rename_i l0 cs1 h1
    cases h
    intro l hl
    simp only [List.mem_cons] at hl
    rcases hl with rfl | hl
    · exact intList_fits h1
    · exact intListsLoop_fits _ _ l hl

theorem extents_fits {cs r : List Char} {p : Nat × Nat} (h : extents cs = some (p, r)) :
    p.1 < usizeLimit := by
  unfold extents at h
  split at h
  · cases h
  · rename_i a cs1 h1
    have a1 := (integer_length_lt h1).2
    dsimp only at h
    split at h
    · cases h; exact a1
    · split at h
      · cases h; exact a1
      · cases h; exact a1

theorem lex_fits {cs : List Char} {spec : DSymSpec} (h : lex cs = some spec) :
    spec.size < usizeLimit ∧ ∀ l ∈ spec.mSpec, ∀ v ∈ l, v < usizeLimit := by
  unfold lex at h
  split at h
  · cases h
  · split at h
    · cases h
    · split at h
      · cases h
      · split at h
        · cases h
        · rename_i size dim c4 h4
          split at h
          · cases h
          · split at h
            · cases h
            · split at h
              · cases h
              · split at h
                · cases h
                · rename_i mSpec c8 h8
                  split at h
                  · cases h
                  · cases h
                    exact ⟨extents_fits h4, intLists_fits h8⟩

/-! ### the degrees of a parsed symbol are numbers of the text -/

/-- every degree `r · v` stored in the symbol fits `usize` -/
def DegBound (t : DSymData) : Prop :=
  ∀ k, t.orbitRs.getD k 0 * t.orbitVs.getD k 0 < usizeLimit

theorem degLoop_bound (i : Nat) : ∀ (n d : Nat) (s : DSymData) (seen : Array Bool) (rest : List Nat),
    SymInv s → i < s.dim → 1 ≤ d → d + n = s.size + 1 → (∀ m ∈ rest, m < usizeLimit) → DegBound s →
    ∀ s' seen' rest', degLoop i n d s seen rest = .ok (s', seen', rest') →
      DegBound s' ∧ ∀ m ∈ rest', m < usizeLimit := by
  intro n
  induction n with
  | zero =>
    intro d s seen rest _ _ _ _ hrest hb s' seen' rest' heq
    simp only [degLoop, Outcome.ok.injEq, Prod.mk.injEq] at heq
    obtain ⟨rfl, rfl, rfl⟩ := heq
    exact ⟨hb, hrest⟩
  | succ n ih =>
    intro d s seen rest h hi hd hn hrest hb s' seen' rest' heq
    have hd2 : d ≤ s.size := by omega
    obtain ⟨horb, hlt⟩ := oix_val h hi hd hd2
    cases hsb : seen[ixf s i d]? with
    | none => simp [degLoop, horb, hsb] at heq
    | some b =>
      cases b with
      | true =>
        rw [degLoop_seen horb hsb] at heq
        exact ih (d + 1) s seen rest h hi (by omega) (by omega) hrest hb s' seen' rest' heq
      | false =>
        cases rest with
        | nil => rw [degLoop_nil horb hsb] at heq; cases heq
        | cons m rest0 =>
          obtain ⟨hr, hr1⟩ := rPartial_val h hi hd hd2
          by_cases hm : m % s.orbitRs.getD (ixf s i d) 0 = 0
          · have hsv := setV_val h hi hd hd2 (m / s.orbitRs.getD (ixf s i d) 0)
            rw [degLoop_take horb hsb hr (by omega) hm hsv] at heq
            obtain ⟨s1, hv, hinv, hds⟩ := setV_ok h hi hd hd2 (m / s.orbitRs.getD (ixf s i d) 0)
            rw [hsv] at hv
            simp only [Outcome.ok.injEq] at hv
            rw [← hv] at hinv hds
            refine ih (d + 1) _ _ rest0 hinv (by unfold DSymData.dim at hi ⊢; rw [hds]; exact hi)
              (by omega) (by unfold DSymData.size at hn ⊢; rw [hds]; omega)
              (fun m' hm' => hrest m' (by simp [hm'])) ?_ s' seen' rest' heq
            intro k
            show s.orbitRs.getD k 0 * (s.orbitVs.setIfInBounds (ixf s i d) _).getD k 0 < _
            rw [getDn_set]
            by_cases hc : ixf s i d = k ∧ ixf s i d < s.orbitVs.size
            · rw [if_pos hc, ← hc.1, Nat.mul_div_cancel' (Nat.dvd_of_mod_eq_zero hm)]
              exact hrest m (by simp)
            · rw [if_neg hc]; exact hb k
          · rw [degLoop_illegal horb hsb hr (by omega) hm] at heq; cases heq

theorem degOuter_bound (spec : DSymSpec) : ∀ (n i : Nat) (s : DSymData) (seen : Array Bool),
    SymInv s → s.size = spec.size → i + n = s.dim → seen.size = s.orbitRs.size →
    (∀ l ∈ spec.mSpec, ∀ m ∈ l, m < usizeLimit) → DegBound s →
    ∀ s', degOuter spec n i s seen = .ok s' → DegBound s' := by
  intro n
  induction n with
  | zero =>
    intro i s seen _ _ _ _ _ hb s' heq
    simp only [degOuter, Outcome.ok.injEq] at heq
    subst heq; exact hb
  | succ n ih =>
    intro i s seen h hsz hn hseen hms hb s' heq
    have hi : i < s.dim := by omega
    cases hmsI : spec.mSpec[i]? with
    | none => simp [degOuter, hmsI] at heq
    | some msI =>
      have hmem : msI ∈ spec.mSpec := List.mem_of_getElem? hmsI
      cases hres : degLoop i spec.size 1 s seen msI with
      | err => rw [degOuter_err hmsI hres] at heq; cases heq
      | panic => simp [degOuter, hmsI, hres] at heq
      | ok pr =>
        obtain ⟨s1, seen1, rest⟩ := pr
        have hl := degLoop_bound i spec.size 1 s seen msI h hi (by omega) (by omega) (hms msI hmem) hb
          s1 seen1 rest hres
        obtain ⟨a, b, c⟩ := (degLoop_spec i spec.size 1 s seen msI h hi (by omega) (by omega) hseen).2
          s1 seen1 rest hres
        by_cases hrest : rest = []
        · subst hrest
          rw [degOuter_next hmsI hres] at heq
          have hsz1 : s1.size = s.size := by unfold DSymData.size; rw [b]
          have hdm1 : s1.dim = s.dim := by unfold DSymData.dim; rw [b]
          have hrs : s1.orbitRs = s.orbitRs := by rw [a.rs_eq, h.rs_eq, b]
          exact ih (i + 1) s1 seen1 a (by omega) (by omega) (by rw [c, hrs]; exact hseen) hms hl.1 s' heq
        · rw [degOuter_unused hmsI hres hrest] at heq; cases heq

/-- a symbol returned by `fromSpec` on numbers that fit `usize` fits `usize` -/
theorem fromSpec_fits (spec : DSymSpec) (s : DSymData) (h : fromSpec spec = .ok s)
    (hsize : spec.size < usizeLimit) (hms : ∀ l ∈ spec.mSpec, ∀ m ∈ l, m < usizeLimit) :
    SymInv s ∧ 1 ≤ s.size ∧ 1 ≤ s.dim ∧ Fits s 1 1 := by
  by_cases ha : Admitted spec
  case neg => rw [fromSpec_not_admitted spec ha] at h; cases h
  by_cases hb : spec.size * (spec.dim + 1) < allocLimit
  case neg => rw [fromSpec_too_big spec ha hb] at h; cases h
  obtain ⟨inv, hs, hd⟩ := (fromSpec_core spec ha hb).2 s h
  have hU : (1 : Nat) < usizeLimit := by unfold usizeLimit; decide
  refine ⟨inv, by rw [hs]; exact ha.size_pos, by rw [hd]; exact ha.dim_pos,
    ⟨hU, hU, by rw [hs]; exact hsize, by rw [hd]; exact ha.dim_fits, by rw [hs, hd]; exact hb, ?_⟩⟩
  -- the degrees: follow `fromSpec` down to the degree loops
  have hbound : DegBound s := by
    rw [fromSpec_admitted spec ha] at h
    obtain ⟨ds0, hnew, _, _, _, _⟩ := newC_ne_panic ha.size_pos ha.dim_pos hb
    rw [hnew] at h
    dsimp only at h
    cases hres : opOuter spec (spec.dim + 1) 0 ds0 with
    | err => rw [hres] at h; cases h
    | panic => rw [hres] at h; cases h
    | ok ds =>
      rw [hres] at h
      dsimp only at h
      cases hof : ofPartialC ds with
      | err => rw [hof] at h; cases h
      | panic => rw [hof] at h; cases h
      | ok sym0 =>
        rw [hof] at h
        dsimp only at h
        -- `ofPartialC ds = ok sym0` means `sym0 = ofSimple ds` with ds complete
        have hsym0 : sym0 = DSymData.ofSimple ds ∧ ds.isCompletePartial = true := by
          unfold ofPartialC at hof
          split at hof
          · cases hof
          · unfold DSymData.ofPartial DSetData.toSimple at hof
            split at hof
            · rename_i heq
              split at heq
              · rename_i hc
                cases heq; cases hof; exact ⟨rfl, hc⟩
              · cases heq
            · cases hof
            · cases hof
        obtain ⟨rfl, _⟩ := hsym0
        -- well-formedness of ds comes from the op loops
        obtain ⟨ds0', hnew', hsz0, hdm0, hv0, hz0⟩ := newC_ne_panic ha.size_pos ha.dim_pos hb
        rw [hnew] at hnew'
        cases hnew'
        have hsome : ∀ j, j ≤ ds0.dim → (spec.opSpec[j]?).isSome := by
          intro j hj
          rw [hdm0] at hj
          rw [List.getElem?_eq_getElem (by rw [ha.op_len]; omega)]
          rfl
        obtain ⟨a, b, c, e⟩ := (opOuter_spec spec (spec.dim + 1) 0 ds0 hv0 hsz0 (by omega) hsome
          (by intro j x hj; omega)).2 ds hres
        have hvs : ValidSet ds := validSet_of_complete c (by
          intro j x hj hx1 hx2; exact e j x (by omega) hx1 (by omega))
        have hinv0 := SymInv.ofSimple hvs
        refine degOuter_bound spec spec.dim 0 (DSymData.ofSimple ds) _ hinv0
          (by show ds.size = _; omega) (by show 0 + spec.dim = ds.dim; omega) (by simp) hms ?_ s h
        intro k
        show _ * (Array.replicate _ 0).getD k 0 < _
        rw [getD_replicate, Nat.mul_zero]
        unfold usizeLimit; decide
  intro i d hi hd1 hd2
  exact hbound (ixf s i d)

/-- printing a parsed symbol gives text that parses to the same symbol again -/
theorem reparse (cs : List Char) (s : DSymData) (h : parse cs = .ok s) :
    ∃ cs' t, fmt (Printable.ofPartialDSym s 1) = .ok cs' ∧ parse cs' = .ok t ∧ SameSym s t := by
  unfold parse at h
  split at h
  · cases h
  · rename_i spec hl
    obtain ⟨hsize, hms⟩ := lex_fits hl
    obtain ⟨inv, h1, h2, hf⟩ := fromSpec_fits spec s h hsize hms
    exact print_parse s 1 1 inv h1 h2 hf

/-! ### the stored orbit lengths are the true ones -/

/-- for every chamber and adjacent index pair: `r(i, i+1, d)` answers the least k ≥ 1 with
    (s_{i+1} s_i)^k d = d, and the degree is that number times the branching number -/
def DegreesAreMultiplesOfOrbitLengths (s : DSymData) : Prop :=
  ∀ i d, i < s.dim → 1 ≤ d → d ≤ s.size →
    ∃ r v, IsPeriod (stepF s.dset i) d r ∧ s.rPartial i (i + 1) d = .ok (some r) ∧
      s.vPartial i (i + 1) d = .ok (some v) ∧ s.mPartial i (i + 1) d = .ok (some (r * v))

theorem SymInv.orbitLengths {s : DSymData} (h : SymInv s) : DegreesAreMultiplesOfOrbitLengths s := by
  have N := collectOrbits_numbering h.set s.view rfl (fun j e hj he1 he2 => view_op_in_range s hj he1 he2)
  intro i d hi h1 h2
  obtain ⟨hr, _⟩ := rPartial_val h hi h1 h2
  have hv := vPartial_val h hi h1 h2
  refine ⟨_, _, ?_, hr, hv, DSymData.mOf_some hr hv⟩
  have := N.per i hi d h1 h2
  rw [← h.rs_eq, ← h.index_eq] at this
  exact this

/-- one round of the walk is `op_i` followed by `op_{i+1}` of the symbol -/
theorem stepF_is_two_ops {s : DSymData} (h : SymInv s) {i x : Nat} (hi : i < s.dim) (h1 : 1 ≤ x)
    (h2 : x ≤ s.size) :
    s.op i x = some (s.dset.opU i x) ∧ s.op (i + 1) (s.dset.opU i x) = some (stepF s.dset i x) := by
  have a := h.set.range i x (by unfold DSymData.dim at hi; omega) h1 h2
  exact ⟨opSimple_in_range s.dset (by unfold DSymData.dim at hi; omega) h1 h2,
    opSimple_in_range s.dset (by unfold DSymData.dim at hi; omega) a.1 a.2⟩

end DSymVerif.Text
