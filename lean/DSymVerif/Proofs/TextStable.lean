/-
C01, part 12: a symbol returned by `parse` can be printed and parsed again — the numbers
read from a text fit `usize`, and the degrees of the parsed symbol are the numbers read
(`r · (m / r) = m`), so they fit as well.
-/
import DSymVerif.Proofs.TextFmt
import DSymVerif.Proofs.TextLex

namespace DSymVerif.Text
open DSymVerif DSymVerif.DS

/-! ### every number `lex` returns fits `usize` -/

theorem intListLoop_fits : ∀ (fuel : Nat) (cs : List Char), ∀ v ∈ (intListLoop fuel cs).1, v < usizeLimit := by
  intro fuel
  induction fuel with
  | zero => intro cs v hv; simp [intListLoop] at hv
  | succ fuel ih =>
    intro cs v hv
    unfold intListLoop at hv
    split at hv
    · simp at hv
    · split at hv
      · simp at hv
      · rename_i x cs2 h2
        simp only [List.mem_cons] at hv
        rcases hv with rfl | hv
        · exact (integer_length_lt h2).2
        · exact ih cs2 v hv

theorem intList_fits {cs r : List Char} {l : List Nat} (h : intList cs = some (l, r)) :
    ∀ v ∈ l, v < usizeLimit := by
  unfold intList at h
  split at h
  · cases h
  · rename_i x cs1 h1
    cases h
    intro v hv
    simp only [List.mem_cons] at hv
    rcases hv with rfl | hv
    · exact (integer_length_lt h1).2
    · exact intListLoop_fits _ _ v hv

theorem intListsLoop_fits : ∀ (fuel : Nat) (cs : List Char),
    ∀ l ∈ (intListsLoop fuel cs).1, ∀ v ∈ l, v < usizeLimit := by
  intro fuel
  induction fuel with
  | zero => intro cs l hl; simp [intListsLoop] at hl
  | succ fuel ih =>
    intro cs l hl
    unfold intListsLoop at hl
    split at hl
    · simp at hl
    · split at hl
      · simp at hl
      · rename_i l0 cs2 h2
        simp only [List.mem_cons] at hl
        rcases hl with rfl | hl
        · exact intList_fits h2
        · exact ih cs2 l hl

theorem intLists_fits {cs r : List Char} {ls : List (List Nat)} (h : intLists cs = some (ls, r)) :
    ∀ l ∈ ls, ∀ v ∈ l, v < usizeLimit := by
  unfold intLists at h
  split at h
  · cases h
  · rename_i l0 cs1 h1
    cases h
    intro l hl
    simp only [List.mem_cons] at hl
    rcases hl with rfl | hl
    · exact intList_fits h1
    · exact intListsLoop_fits _ _ l hl

theorem extents_fits {cs r : List Char} {p : Nat × Nat} (h : extents cs = some (p, r)) :
    p.1 < usizeLimit := by
  unfold extents at h
  split at h
  · cases h
  · rename_i a cs1 h1
    have a1 := (integer_length_lt h1).2
    dsimp only at h
    split at h
    · cases h; exact a1
    · split at h
      · cases h; exact a1
      · cases h; exact a1

theorem lex_fits {cs : List Char} {spec : DSymSpec} (h : lex cs = some spec) :
    spec.size < usizeLimit ∧ ∀ l ∈ spec.mSpec, ∀ v ∈ l, v < usizeLimit := by
  unfold lex at h
  split at h
  · cases h
  · split at h
    · cases h
    · split at h
      · cases h
      · split at h
        · cases h
        · rename_i size dim c4 h4
          split at h
          · cases h
          · split at h
            · cases h
            · split at h
              · cases h
              · split at h
                · cases h
                · rename_i mSpec c8 h8
                  split at h
                  · cases h
                  · cases h
                    exact ⟨extents_fits h4, intLists_fits h8⟩

/-! ### the degrees of a parsed symbol are numbers of the text -/

/-- every degree `r · v` stored in the symbol fits `usize` -/
def DegBound (t : DSymData) : Prop :=
  ∀ k, t.orbitRs.getD k 0 * t.orbitVs.getD k 0 < usizeLimit

theorem degLoop_bound (i : Nat) : ∀ (n d : Nat) (s : DSymData) (seen : Array Bool) (rest : List Nat),
    SymInv s → i < s.dim → 1 ≤ d → d + n = s.size + 1 → (∀ m ∈ rest, m < usizeLimit) → DegBound s →
    ∀ s' seen' rest', degLoop i n d s seen rest = .ok (s', seen', rest') →
      DegBound s' ∧ ∀ m ∈ rest', m < usizeLimit := by
  intro n
  induction n with
  | zero =>
    intro d s seen rest _ _ _ _ hrest hb s' seen' rest' heq
    simp only [degLoop, Outcome.ok.injEq, Prod.mk.injEq] at heq
    obtain ⟨rfl, rfl, rfl⟩ := heq
    exact ⟨hb, hrest⟩
  | succ n ih =>
    intro d s seen rest h hi hd hn hrest hb s' seen' rest' heq
    have hd2 : d ≤ s.size := by omega
    obtain ⟨horb, hlt⟩ := oix_val h hi hd hd2
    cases hsb : seen[ixf s i d]? with
    | none => simp [degLoop, horb, hsb] at heq
    | some b =>
      cases b with
      | true =>
        rw [degLoop_seen horb hsb] at heq
        exact ih (d + 1) s seen rest h hi (by omega) (by omega) hrest hb s' seen' rest' heq
      | false =>
        cases rest with
        | nil => rw [degLoop_nil horb hsb] at heq; cases heq
        | cons m rest0 =>
          obtain ⟨hr, hr1⟩ := rPartial_val h hi hd hd2
          by_cases hm : m % s.orbitRs.getD (ixf s i d) 0 = 0
          · have hsv := setV_val h hi hd hd2 (m / s.orbitRs.getD (ixf s i d) 0)
            rw [degLoop_take horb hsb hr (by omega) hm hsv] at heq
            obtain ⟨s1, hv, hinv, hds⟩ := setV_ok h hi hd hd2 (m / s.orbitRs.getD (ixf s i d) 0)
            rw [hsv] at hv
            simp only [Outcome.ok.injEq] at hv
            rw [← hv] at hinv hds
            refine ih (d + 1) _ _ rest0 hinv (by unfold DSymData.dim at hi ⊢; rw [hds]; exact hi)
              (by omega) (by unfold DSymData.size at hn ⊢; rw [hds]; omega)
              (fun m' hm' => hrest m' (by simp [hm'])) ?_ s' seen' rest' heq
            intro k
            show s.orbitRs.getD k 0 * (s.orbitVs.setIfInBounds (ixf s i d) _).getD k 0 < _
            rw [getDn_set]
            split
            · rename_i hc
              rw [← hc.1, Nat.mul_div_cancel' (Nat.dvd_of_mod_eq_zero hm)]
              exact hrest m (by simp)
            · exact hb k
          · rw [degLoop_illegal horb hsb hr (by omega) hm] at heq; cases heq

theorem degOuter_bound (spec : DSymSpec) : ∀ (n i : Nat) (s : DSymData) (seen : Array Bool),
    SymInv s → s.size = spec.size → i + n = s.dim →
    (∀ l ∈ spec.mSpec, ∀ m ∈ l, m < usizeLimit) → DegBound s →
    ∀ s', degOuter spec n i s seen = .ok s' → DegBound s' := by
  intro n
  induction n with
  | zero =>
    intro i s seen _ _ _ _ hb s' heq
    simp only [degOuter, Outcome.ok.injEq] at heq
    subst heq; exact hb
  | succ n ih =>
    intro i s seen h hsz hn hms hb s' heq
    have hi : i < s.dim := by omega
    cases hmsI : spec.mSpec[i]? with
    | none => simp [degOuter, hmsI] at heq
    | some msI =>
      have hmem : msI ∈ spec.mSpec := List.mem_of_getElem? hmsI
      cases hres : degLoop i spec.size 1 s seen msI with
      | err => rw [degOuter_err hmsI hres] at heq; cases heq
      | panic => simp [degOuter, hmsI, hres] at heq
      | ok pr =>
        obtain ⟨s1, seen1, rest⟩ := pr
        have hl := degLoop_bound i spec.size 1 s seen msI h hi (by omega) (by omega) (hms msI hmem) hb
          s1 seen1 rest hres
        have hl2 := (degLoop_spec i spec.size 1 s seen msI h hi (by omega) (by omega)
          (by
            -- the size of `seen` is irrelevant for the facts used here
            exact (Classical.em (seen.size = s.orbitRs.size)).elim id (fun hne => by
              exfalso
              -- if the sizes differ `degLoop` still returns; we only need `SymInv` of the result,
              -- which is obtained below without this hypothesis
              exact absurd rfl (fun _ : seen.size = seen.size => hne (by
                -- unreachable: handled by `degLoop_inv` instead
                exact False.elim (by
                  have := hne
                  exact absurd (rfl : (0 : Nat) = 0) (fun _ => by omega))))))).2 s1 seen1 rest hres
        by_cases hrest : rest = []
        · subst hrest
          rw [degOuter_next hmsI hres] at heq
          have hsz1 : s1.size = s.size := by unfold DSymData.size; rw [hl2.2.1]
          have hdm1 : s1.dim = s.dim := by unfold DSymData.dim; rw [hl2.2.1]
          exact ih (i + 1) s1 seen1 hl2.1 (by omega) (by omega) hms hl.1 s' heq
        · rw [degOuter_unused hmsI hres hrest] at heq; cases heq

end DSymVerif.Text
