/-
`Sem` instance for the machine-integer back-end (`Entry for i64`, idealised integers) under the
cast `ℤ → ℚ`: the gcd step of `clear_col` is a determinant-1 operation on two rows.
-/
import DSymVerif.Proofs.SemField
import DSymVerif.Proofs.EchelonI64

namespace DSymVerif.LA

open DSymVerif Matrix

/-- value of a machine integer -/
def valI (v : Int) : ℚ := (v : ℚ)

theorem valI_ne_zero {v : Int} : valI v ≠ 0 ↔ v ≠ 0 := by
  unfold valI; exact Int.cast_ne_zero

/-- the two-row loop of `clear_col` at `i64` -/
theorem i64ClearRowPair_sem {nr n : Nat} (lo row1 row2 : Nat) (hlo : lo ≤ n) (det r s t u : Int)
    (a : Mat Int nr n) (h1 : row1 < nr) (h2 : row2 < nr) (hne : row1 ≠ row2) :
    ∃ a', i64ClearRowPair .ok lo row1 row2 det r s t u a = .ok a' ∧
      ∀ (i k : Nat) (hi : i < nr) (hk : k < n), (a'[i])[k] =
        if lo ≤ k then
          (if i = row1 then (a[row2])[k] * t + (a[row1])[k] * u
           else if i = row2 then det * ((a[row2])[k] * r + (a[row1])[k] * s)
           else (a[i])[k])
        else (a[i])[k] := by
  unfold i64ClearRowPair
  obtain ⟨a', h, hI1, hI2⟩ := forRange_idx lo n hlo a
    (fun k a =>
      (a.get row2 k).bind fun x2 => (a.get row1 k).bind fun x1 =>
      (Outcome.ok (x2 * r)).bind fun p1 => (Outcome.ok (x1 * s)).bind fun p2 =>
      (Outcome.ok (p1 + p2)).bind fun sm =>
      (Outcome.ok (det * sm)).bind fun tmp =>
      (a.get row2 k).bind fun y2 => (a.get row1 k).bind fun y1 =>
      (Outcome.ok (y2 * t)).bind fun p3 => (Outcome.ok (y1 * u)).bind fun p4 =>
      (Outcome.ok (p3 + p4)).bind fun n1 =>
      (a.set row1 k n1).bind fun a => a.set row2 k tmp)
    (fun j m =>
      (∀ (i k : Nat) (hi : i < nr) (hk : k < n), ¬ (lo ≤ k ∧ k < j) → (m[i])[k] = (a[i])[k]) ∧
      (∀ (i k : Nat) (hi : i < nr) (hk : k < n), lo ≤ k → k < j → (m[i])[k] =
          (if i = row1 then (a[row2])[k] * t + (a[row1])[k] * u
           else if i = row2 then det * ((a[row2])[k] * r + (a[row1])[k] * s)
           else (a[i])[k])))
    ⟨fun _ _ _ _ _ => rfl, fun i k _ _ h1 h2 => by omega⟩
    (by
      intro k m _ hk ⟨hI1, hI2⟩
      rw [Mat.get_ok m h2 hk, Mat.get_ok m h1 hk]
      simp only [bind_ok]
      rw [Mat.set_ok m h1 hk]
      simp only [bind_ok]
      rw [Mat.set_ok _ h2 hk]
      refine ⟨_, rfl, ?_, ?_⟩
      · intro i k' hi hk' hn
        have hkk : k ≠ k' := by
          intro e; subst e; exact hn ⟨by omega, by omega⟩
        rw [entry_set _ h2 hk _ hi hk', if_neg (fun h => hkk h.2),
          entry_set m h1 hk _ hi hk', if_neg (fun h => hkk h.2)]
        exact hI1 i k' hi hk' (fun h => hn ⟨h.1, by omega⟩)
      · intro i k' hi hk' hlo' hlt
        rw [entry_set _ h2 hk _ hi hk']
        by_cases hkk : k = k'
        · subst hkk
          have e1 := hI1 row1 k h1 hk (by omega)
          have e2 := hI1 row2 k h2 hk (by omega)
          by_cases hi2 : row2 = i
          · subst hi2
            rw [if_pos ⟨rfl, rfl⟩, if_neg (Ne.symm hne), if_pos rfl, e1, e2]
          · rw [if_neg (fun h => hi2 h.1), entry_set m h1 hk _ hi hk]
            by_cases hi1 : row1 = i
            · subst hi1
              rw [if_pos ⟨rfl, rfl⟩, if_pos rfl, e1, e2]
            · rw [if_neg (fun h => hi1 h.1), if_neg (Ne.symm hi1), if_neg (Ne.symm hi2)]
              exact hI1 i k hi hk (by omega)
        · rw [if_neg (fun h => hkk h.2), entry_set m h1 hk _ hi hk', if_neg (fun h => hkk h.2)]
          exact hI2 i k' hi hk' hlo' (by omega))
  refine ⟨a', h, ?_⟩
  intro i k hi hk
  by_cases hlo' : lo ≤ k
  · rw [if_pos hlo']; exact hI2 i k hi hk hlo' hk
  · rw [if_neg hlo']; exact hI1 i k hi hk (fun h => hlo' h.1)

/-- `clear_col` at `i64`: returns, and its result is the unimodular two-row operation -/
theorem i64ClearCol_full {nr nc nx : Nat} (col row1 row2 : Nat) (a : Mat Int nr nc)
    (x : Mat Int nr nx) (hc : col < nc) (h1 : row1 < nr) (h2 : row2 < nr) (hne : row1 ≠ row2) :
    ∃ a' x' g r s t u, i64ClearCol .ok col row1 row2 a x = .ok (a', x') ∧
      g = r * (a[row2])[col] + s * (a[row1])[col] ∧ t * (a[row2])[col] + u * (a[row1])[col] = 0 ∧
      (r * u - s * t = 1 ∨ r * u - s * t = -1) ∧ g.natAbs = Int.gcd ((a[row2])[col]) ((a[row1])[col]) ∧
      (∀ (i k : Nat) (hi : i < nr) (hk : k < nc), (a'[i])[k] =
        if col ≤ k then
          (if i = row1 then (a[row2])[k] * t + (a[row1])[k] * u
           else if i = row2 then (r * u - s * t) * ((a[row2])[k] * r + (a[row1])[k] * s)
           else (a[i])[k])
        else (a[i])[k]) ∧
      (∀ (i k : Nat) (hi : i < nr) (hk : k < nx), (x'[i])[k] =
          (if i = row1 then (x[row2])[k] * t + (x[row1])[k] * u
           else if i = row2 then (r * u - s * t) * ((x[row2])[k] * r + (x[row1])[k] * s)
           else (x[i])[k])) := by
  unfold i64ClearCol
  rw [Mat.get_ok a h2 hc, Mat.get_ok a h1 hc]
  simp only [bind_ok]
  obtain ⟨g, r, s, t, u, hg, e1, e2, e3, e4⟩ := gcdx_ok ((a[row2])[col]) ((a[row1])[col])
  rw [hg]
  simp only [bind_ok]
  obtain ⟨a', ha', hA⟩ :=
    i64ClearRowPair_sem col row1 row2 (by omega) (r * u - s * t) r s t u a h1 h2 hne
  rw [ha']
  simp only [bind_ok]
  obtain ⟨x', hx', hX⟩ :=
    i64ClearRowPair_sem 0 row1 row2 (Nat.zero_le _) (r * u - s * t) r s t u x h1 h2 hne
  rw [hx']
  refine ⟨a', x', g, r, s, t, u, rfl, e1, e2, e3, e4, hA, ?_⟩
  intro i k hi hk
  rw [hX i k hi hk, if_pos (Nat.zero_le _)]

theorem i64PivotRow_sem {nr nc : Nat} (col row0 : Nat) (a : Mat Int nr nc) (hc : col < nc)
    (h0 : row0 < nr) :
    ∃ r, i64PivotRow .ok col row0 a = .ok r ∧
      (∀ pr, r = some pr → row0 ≤ pr ∧ ∃ h : pr < nr, (a[pr])[col] ≠ 0) ∧
      (r = none → ∀ (i : Nat) (hi : i < nr), row0 ≤ i → (a[i])[col] = 0) := by
  unfold i64PivotRow
  obtain ⟨best, hb, hle, hlt, hall⟩ := forRange_idx (row0 + 1) nr (by omega) row0
    (fun row best =>
      (a.get row col).bind fun x => (a.get best col).bind fun y =>
      if x ≠ 0 then
        if y = 0 then Outcome.ok row
        else (iabs .ok x).bind fun ax => (iabs .ok y).bind fun ay =>
          Outcome.ok (if ax < ay then row else best)
      else Outcome.ok best)
    (fun row best => row0 ≤ best ∧ ∃ hb : best < nr,
      ((a[best])[col] = 0 → ∀ (i : Nat) (hi : i < nr), row0 ≤ i → i < row → (a[i])[col] = 0))
    ⟨Nat.le_refl _, h0, by
      intro hz i hi h1 h2
      have : i = row0 := by omega
      subst this; exact hz⟩
    (by
      intro row best hr1 hr2 ⟨hb1, hb2, hall⟩
      rw [Mat.get_ok a hr2 hc, Mat.get_ok a hb2 hc]
      simp only [bind_ok, iabs]
      by_cases hx : (a[row])[col] = 0
      · rw [if_neg (by simpa using hx)]
        refine ⟨best, rfl, hb1, hb2, ?_⟩
        intro hz i hi h1 h2
        by_cases hir : i = row
        · subst hir; exact hx
        · exact hall hz i hi h1 (by omega)
      · rw [if_pos hx]
        by_cases hy : (a[best])[col] = 0
        · rw [if_pos hy]
          exact ⟨row, rfl, by omega, hr2, fun hz => absurd hz hx⟩
        · rw [if_neg hy]
          split
          · exact ⟨row, rfl, by omega, hr2, fun hz => absurd hz hx⟩
          · exact ⟨best, rfl, hb1, hb2, fun hz => absurd hz hy⟩)
  rw [hb]
  simp only [bind_ok]
  rw [Mat.get_ok a hlt hc]
  simp only [bind_ok]
  refine ⟨_, rfl, ?_, ?_⟩
  · intro pr hpr
    split at hpr
    · rename_i hz
      cases hpr
      exact ⟨hle, hlt, hz⟩
    · cases hpr
  · intro hnone i hi hi0
    split at hnone
    · cases hnone
    · rename_i hz
      exact hall (by simpa using hz) i hi hi0 hi

theorem i64_safe' : Safe (i64Backend .ok) TrueP (fun v => valI v ≠ 0) where
  zero := trivial
  one := trivial
  add := i64_safe.add
  sub := i64_safe.sub
  mul := i64_safe.mul
  neg := i64_safe.neg
  canDivide := i64_safe.canDivide
  pivot := by
    intro nr nc col row0 a _ hc h0
    obtain ⟨r, hr, h1, _⟩ := i64PivotRow_sem col row0 a hc h0
    refine ⟨r, hr, fun pr h => ?_⟩
    obtain ⟨hle, hlt, hne⟩ := h1 pr h
    exact ⟨hle, hlt, valI_ne_zero.2 hne⟩
  clear := by
    intro nr nc nx col row1 row2 a x _ _ hc h1 h2 hne hq
    obtain ⟨a', x', g, r, s, t, u, hres, e1, e2, e3, e4, hA, _⟩ :=
      i64ClearCol_full col row1 row2 a x hc h1 h2 hne
    refine ⟨a', x', hres, allE_true _, allE_true _, ?_⟩
    rw [valI_ne_zero] at hq ⊢
    rw [hA row2 col h2 hc, if_pos (Nat.le_refl _), if_neg (Ne.symm hne), if_pos rfl]
    have hg : g ≠ 0 := by
      intro hg0
      rw [hg0] at e4
      have : Int.gcd ((a[row2])[col]) ((a[row1])[col]) = 0 := by simpa using e4.symm
      exact hq (Int.gcd_eq_zero_iff.1 this).1
    have : (a[row2])[col] * r + (a[row1])[col] * s = g := by rw [e1]; ring
    rw [this]
    rcases e3 with d | d <;> rw [d] <;> simpa using hg

theorem i64_scalarSem : ScalarSem (i64Backend .ok) TrueP valI where
  zero := by simp [valI, i64Backend]
  one := by simp [valI, i64Backend]
  isZero := by
    intro a _
    show ((a == 0) = true ↔ valI a = 0)
    unfold valI
    simp
  add := fun a b c _ _ h => by
    have : Outcome.ok (a + b) = Outcome.ok c := h
    cases this; unfold valI; push_cast; rfl
  sub := fun a b c _ _ h => by
    have : Outcome.ok (a - b) = Outcome.ok c := h
    cases this; unfold valI; push_cast; rfl
  mul := fun a b c _ _ h => by
    have : Outcome.ok (a * b) = Outcome.ok c := h
    cases this; unfold valI; push_cast; rfl
  neg := fun a c _ h => by
    have : Outcome.ok (-a) = Outcome.ok c := h
    cases this; unfold valI; push_cast; rfl
  div := by
    intro a b c _ _ hcd h
    have hcd' : i64CanDivide .ok a b = .ok true := hcd
    unfold i64CanDivide at hcd'
    by_cases hb : b = 0
    · simp [hb] at hcd'
    · simp only [hb, if_false, bind_ok] at hcd'
      have hq : (a.tdiv b * b == a) = true := Outcome.ok.inj hcd'
      have hq' : a.tdiv b * b = a := by simpa using hq
      have h' : (if b = 0 then Outcome.panic else Outcome.ok (a.tdiv b)) = Outcome.ok c := h
      simp only [hb, if_false] at h'
      cases h'
      unfold valI
      exact_mod_cast hq'

/-- `echelon_invariant` hypotheses for the machine-integer back-end -/
theorem i64_sem : Sem (i64Backend .ok) TrueP valI where
  safe := i64_safe'
  scalar := i64_scalarSem
  pivot_none := by
    intro nr nc col row0 a _ hc h0 hnone
    obtain ⟨r, hr, _, h2⟩ := i64PivotRow_sem col row0 a hc h0
    have : r = none := by
      have hr' : i64PivotRow .ok col row0 a = Outcome.ok r := hr
      have hn' : i64PivotRow .ok col row0 a = Outcome.ok none := hnone
      rw [hr'] at hn'
      exact Outcome.ok.inj hn'
    intro i hi hi0
    unfold valI
    exact_mod_cast h2 this i hi hi0
  clear := by
    intro nr nc nx col row1 row2 a x _ _ hc h1 h2 hne hq hleft a' x' hres
    obtain ⟨a1, x1, g, r, s, t, u, hres', e1, e2, e3, e4, hA, hX⟩ :=
      i64ClearCol_full col row1 row2 a x hc h1 h2 hne
    have hres'' : i64ClearCol .ok col row1 row2 a x = Outcome.ok (a', x') := hres
    rw [hres'] at hres''
    have hr := Outcome.ok.inj hres''
    have ea : a1 = a' := congrArg Prod.fst hr
    have ex : x1 = x' := congrArg Prod.snd hr
    subst ea
    subst ex
    have hdet : ((r * u - s * t : Int) : ℚ) * ((r * u - s * t : Int) : ℚ) = 1 := by
      rcases e3 with d | d <;> rw [d] <;> norm_num
    refine ⟨(u : ℚ), (t : ℚ), ((r * u - s * t : Int) : ℚ) * s, ((r * u - s * t : Int) : ℚ) * r,
      ?_, ?_, ?_, ?_⟩
    · have : (u : ℚ) * (((r * u - s * t : Int) : ℚ) * r) - (t : ℚ) * (((r * u - s * t : Int) : ℚ) * s)
          = ((r * u - s * t : Int) : ℚ) * ((r * u - s * t : Int) : ℚ) := by push_cast; ring
      rw [this, hdet]
    · apply toMatrix_eq_rowOp2 a a1 h1 h2 hne
      intro i k hi hk
      rw [hA i k hi hk]
      by_cases hck : col ≤ k
      · rw [if_pos hck]
        by_cases hi1 : i = row1
        · subst hi1; rw [if_pos rfl, if_pos rfl]; unfold valI; push_cast; ring
        · rw [if_neg hi1, if_neg hi1]
          by_cases hi2 : i = row2
          · subst hi2; rw [if_pos rfl, if_pos rfl]; unfold valI; push_cast; ring
          · rw [if_neg hi2, if_neg hi2]
      · rw [if_neg hck]
        obtain ⟨z1, z2⟩ := hleft k hk (by omega)
        by_cases hi1 : i = row1
        · subst hi1; rw [if_pos rfl, z1, z2]; ring
        · rw [if_neg hi1]
          by_cases hi2 : i = row2
          · subst hi2; rw [if_pos rfl, z1, z2]; ring
          · rw [if_neg hi2]
    · apply toMatrix_eq_rowOp2 x x1 h1 h2 hne
      intro i k hi hk
      rw [hX i k hi hk]
      by_cases hi1 : i = row1
      · subst hi1; rw [if_pos rfl, if_pos rfl]; unfold valI; push_cast; ring
      · rw [if_neg hi1, if_neg hi1]
        by_cases hi2 : i = row2
        · subst hi2; rw [if_pos rfl, if_pos rfl]; unfold valI; push_cast; ring
        · rw [if_neg hi2, if_neg hi2]
    · unfold valI
      have : (u : ℚ) * (((a[row1])[col] : Int) : ℚ) + (t : ℚ) * (((a[row2])[col] : Int) : ℚ)
          = ((t * (a[row2])[col] + u * (a[row1])[col] : Int) : ℚ) := by push_cast; ring
      rw [this, e2]; simp

end DSymVerif.LA
