/-
Helper lemmas for property C08, part 25: the capped surface of a weakly oriented 2D symbol as an
oriented map.  Darts: the triangle darts (chamber, edge) and one cap dart per mirror end (the
positive boundary dart).  `phiM` walks around the faces (triangles, caps), `alphaP` flips an edge,
`phiM * alphaP` rotates around a vertex.
-/
import DSymVerif.Proofs.Delaney2dPositive

namespace DSymVerif.D2
open DSymVerif.DS

/-- triangle darts `(chamber, edge index)` -/
def TS (y : DSymData) : Finset (Nat × Nat) := (Finset.Icc 1 y.size) ×ˢ (Finset.range 3)

/-- cap darts: the positive valid boundary darts -/
def PS (y : DSymData) : Finset Dart :=
  ((Finset.range 3) ×ˢ ((Finset.range 3) ×ˢ (Finset.Icc 1 y.size))).filter
    fun δ => ValidDart y δ ∧ Positive y δ

abbrev MapDart (y : DSymData) := (TS y) ⊕ (PS y)

theorem mem_TS {y : DSymData} {x : Nat × Nat} : x ∈ TS y ↔ (1 ≤ x.1 ∧ x.1 ≤ y.size) ∧ x.2 ≤ 2 := by
  unfold TS
  rw [Finset.mem_product, Finset.mem_Icc, Finset.mem_range]
  omega

theorem mem_PS {y : DSymData} {δ : Dart} : δ ∈ PS y ↔ ValidDart y δ ∧ Positive y δ := by
  unfold PS
  rw [Finset.mem_filter]
  constructor
  · exact fun hh => hh.2
  · intro hh
    refine ⟨?_, hh⟩
    obtain ⟨h1, h2, _, h4, h5, _⟩ := hh.1
    simp only [Finset.mem_product, Finset.mem_range, Finset.mem_Icc]
    omega

/-- the edge after edge `i` around the triangle `d` -/
def stepI (y : DSymData) (d i : Nat) : Nat := 3 - i - kplus y i d

theorem stepI_facts (y : DSymData) (d : Nat) {i : Nat} (hi : i ≤ 2) :
    stepI y d i ≤ 2 ∧ stepI y d i ≠ i ∧ kplus y (stepI y d i) d = i ∧ stepI y d (kplus y i d) = i ∧
    stepI y d (stepI y d (stepI y d i)) = i := by
  unfold stepI kplus
  have hi3 : i = 0 ∨ i = 1 ∨ i = 2 := by omega
  cases hb : posB y d <;> rcases hi3 with rfl | rfl | rfl <;> simp

theorem card_TS (y : DSymData) : (TS y).card = 3 * y.size := by
  unfold TS
  rw [Finset.card_product, Nat.card_Icc, Finset.card_range]
  omega

theorem card_PS (y : DSymData) : (PS y).card = loopsN y 0 + loopsN y 1 + loopsN y 2 := by
  rw [← mirror_ends_card]
  apply Finset.card_nbij Dart.le
  · intro δ hδ
    obtain ⟨⟨h1, _, _, h4, h5, h6⟩, _⟩ := mem_PS.1 hδ
    simp only [Finset.coe_filter, Finset.mem_product, Finset.mem_range, Finset.mem_Icc, Set.mem_ofPred_eq]
    exact ⟨⟨by show δ.1 < 3; omega, h4, h5⟩, h6⟩
  · intro δ hδ δ' hδ' hle
    obtain ⟨hv, hp⟩ := mem_PS.1 hδ
    obtain ⟨hv', hp'⟩ := mem_PS.1 hδ'
    rcases same_le hv hv' hle.symm with e | e
    · exact e.symm
    · exfalso
      rw [e] at hp'
      exact (rho_positive_iff hv).1 hp' hp
  · intro p hp
    simp only [Finset.coe_filter, Finset.mem_product, Finset.mem_range, Finset.mem_Icc, Set.mem_ofPred_eq] at hp
    obtain ⟨⟨h1, h2, h3⟩, h4⟩ := hp
    have hk := kplus_facts y (show p.1 ≤ 2 by omega) p.2
    refine ⟨(p.1, kplus y p.1 p.2, p.2), ?_, rfl⟩
    exact mem_PS.2 ⟨⟨by omega, hk.1, fun e => hk.2 e.symm, h2, h3, h4⟩, rfl⟩

section
variable {y : DSymData} (h : ValidSym y) (hdim : y.dim = 2) (hw : y.view.isWeaklyOriented = true)

/-- around the triangles -/
def phiT (y : DSymData) : Equiv.Perm (TS y) where
  toFun x := ⟨(x.1.1, stepI y x.1.1 x.1.2), by
    have := mem_TS.1 x.2
    exact mem_TS.2 ⟨this.1, (stepI_facts y x.1.1 this.2).1⟩⟩
  invFun x := ⟨(x.1.1, kplus y x.1.2 x.1.1), by
    have := mem_TS.1 x.2
    exact mem_TS.2 ⟨this.1, (kplus_facts y this.2 x.1.1).1⟩⟩
  left_inv x := by
    have := mem_TS.1 x.2
    apply Subtype.ext
    show (x.1.1, kplus y (stepI y x.1.1 x.1.2) x.1.1) = x.1
    rw [(stepI_facts y x.1.1 this.2).2.2.1]
  right_inv x := by
    have := mem_TS.1 x.2
    apply Subtype.ext
    show (x.1.1, stepI y x.1.1 (kplus y x.1.2 x.1.1)) = x.1
    rw [(stepI_facts y x.1.1 this.2).2.2.2.1]

/-- along the boundary -/
noncomputable def psiP : Equiv.Perm (PS y) :=
  Equiv.ofBijective (fun δ => ⟨phi y δ.1, by
    obtain ⟨hv, hp⟩ := mem_PS.1 δ.2
    exact mem_PS.2 ⟨(phi_valid h.set hdim hv).1, (phi_positive_iff h hdim hw hv).2 hp⟩⟩)
    (Finite.injective_iff_bijective.1 (fun a b hab => by
      apply Subtype.ext
      exact phi_injective h.set hdim (congrArg Subtype.val hab)))

/-- across an edge: to the neighbouring triangle, or to the cap at a mirror -/
def alphaF : MapDart y → MapDart y
  | .inl x =>
    if hl : y.dset.opU x.1.2 x.1.1 = x.1.1 then
      .inr ⟨(x.1.2, kplus y x.1.2 x.1.1, x.1.1), by
        have := mem_TS.1 x.2
        have hk := kplus_facts y this.2 x.1.1
        exact mem_PS.2 ⟨⟨this.2, hk.1, fun e => hk.2 e.symm, this.1.1, this.1.2, hl⟩, rfl⟩⟩
    else
      .inl ⟨(y.dset.opU x.1.2 x.1.1, x.1.2), by
        have := mem_TS.1 x.2
        exact mem_TS.2 ⟨h.set.range x.1.2 x.1.1 (by show x.1.2 ≤ y.dim; omega) this.1.1 this.1.2, this.2⟩⟩
  | .inr δ => .inl ⟨(δ.1.2.2, δ.1.1), by
      obtain ⟨⟨h1, _, _, h4, h5, _⟩, _⟩ := mem_PS.1 δ.2
      exact mem_TS.2 ⟨⟨h4, h5⟩, h1⟩⟩

theorem alphaF_invol : Function.Involutive (alphaF h hdim) := by
  intro x
  cases x with
  | inl x =>
    have hx := mem_TS.1 x.2
    by_cases hl : y.dset.opU x.1.2 x.1.1 = x.1.1
    · simp only [alphaF, dif_pos hl]
    · have hr := h.set.range x.1.2 x.1.1 (by show x.1.2 ≤ y.dim; omega) hx.1.1 hx.1.2
      have hinv := h.set.invol x.1.2 x.1.1 (by show x.1.2 ≤ y.dim; omega) hx.1.1 hx.1.2
      have hl' : ¬ y.dset.opU x.1.2 (y.dset.opU x.1.2 x.1.1) = y.dset.opU x.1.2 x.1.1 := by
        rw [hinv]; exact fun e => hl e.symm
      simp only [alphaF, dif_neg hl, dif_neg hl']
      congr 1
      apply Subtype.ext
      show (y.dset.opU x.1.2 (y.dset.opU x.1.2 x.1.1), x.1.2) = x.1
      rw [hinv]
  | inr δ =>
    obtain ⟨⟨h1, h2, h3, h4, h5, h6⟩, hp⟩ := mem_PS.1 δ.2
    simp only [alphaF, dif_pos h6]
    congr 1
    apply Subtype.ext
    show (δ.1.1, kplus y δ.1.1 δ.1.2.2, δ.1.2.2) = δ.1
    rw [← hp]

theorem alphaF_ne (x : MapDart y) : alphaF h hdim x ≠ x := by
  cases x with
  | inl x =>
    have hx := mem_TS.1 x.2
    by_cases hl : y.dset.opU x.1.2 x.1.1 = x.1.1
    · simp only [alphaF, dif_pos hl]; exact fun e => by cases e
    · simp only [alphaF, dif_neg hl]
      intro e
      have := congrArg (fun z : TS y => z.1.1) (Sum.inl_injective e)
      exact hl this
  | inr δ => simp only [alphaF]; exact fun e => by cases e

noncomputable def alphaP : Equiv.Perm (MapDart y) := (alphaF_invol h hdim).toPerm (alphaF h hdim)

noncomputable def phiM : Equiv.Perm (MapDart y) := Equiv.sumCongr (phiT y) (psiP h hdim hw)

/-! ### counting the cycles of `alphaP` and `phiM` -/

theorem card_mapDart : Fintype.card (MapDart y) = 3 * y.size + (PS y).card := by
  rw [Fintype.card_sum, Fintype.card_coe, Fintype.card_coe, card_TS]

theorem zQ_alpha : PermSign.zQ (alphaP h hdim) = (Fintype.card (MapDart y) : ℚ) / 2 := by
  unfold PermSign.zQ
  have hper : ∀ x : MapDart y, 1 / (Function.minimalPeriod (alphaP h hdim) x : ℚ) = 1 / 2 := by
    intro x
    rw [PermSign.period_two (alphaP h hdim) (alphaF_ne h hdim x) (alphaF_invol h hdim x)]
    norm_num
  rw [Finset.sum_congr rfl (fun x _ => hper x), Finset.sum_const, Finset.card_univ, nsmul_eq_mul]
  ring

theorem zQ_phiT : PermSign.zQ (phiT y) = (y.size : ℚ) := by
  unfold PermSign.zQ
  have hper : ∀ x : TS y, 1 / (Function.minimalPeriod (phiT y) x : ℚ) = 1 / 3 := by
    intro x
    have hx := mem_TS.1 x.2
    have hf := stepI_facts y x.1.1 hx.2
    rw [PermSign.period_three (phiT y)]
    · norm_num
    · intro e
      have := congrArg (fun z : TS y => z.1.2) e
      exact hf.2.1 this
    · apply Subtype.ext
      show (x.1.1, stepI y x.1.1 (stepI y x.1.1 (stepI y x.1.1 x.1.2))) = x.1
      rw [hf.2.2.2.2]
  rw [Finset.sum_congr rfl (fun x _ => hper x), Finset.sum_const, Finset.card_univ, Fintype.card_coe,
    card_TS, nsmul_eq_mul]
  push_cast; ring

/-- the minimal period of a dart of a minimal closed walk -/
theorem IsWalk.period {σ : Dart} {n : Nat} (w : IsWalk y σ n) : Function.minimalPeriod (phi y) σ = n := by
  have hper : Function.IsPeriodicPt (phi y) n σ := w.closed
  have hle := hper.minimalPeriod_le w.pos
  have hpos := hper.minimalPeriod_pos w.pos
  by_contra hne
  have hlt : Function.minimalPeriod (phi y) σ < n := by omega
  have hm : (phi y)^[Function.minimalPeriod (phi y) σ] σ = σ := Function.isPeriodicPt_minimalPeriod _ _
  have h0 : (dlist y σ n)[0]'(by simp [dlist]; omega)
      = (dlist y σ n)[Function.minimalPeriod (phi y) σ]'(by simp [dlist]; omega) := by
    simp only [dlist, List.getElem_map, List.getElem_range]
    exact hm.symm
  have := (List.Nodup.getElem_inj_iff w.nodup).1 h0
  omega

noncomputable def gP (y : DSymData) (δ : Dart) : ℚ := 1 / (Function.minimalPeriod (phi y) δ : ℚ)

include h hdim in
theorem sum_walk {σ : Dart} {n : Nat} (w : IsWalk y σ n) :
    (((dlist y σ n).reverse).map (gP y)).sum = 1 := by
  rw [List.map_reverse, List.sum_reverse]
  have : (dlist y σ n).map (gP y) = List.replicate n (1 / (n : ℚ)) := by
    apply List.eq_replicate_iff.2
    refine ⟨by simp [dlist], ?_⟩
    intro b hb
    obtain ⟨δ, hδ, rfl⟩ := List.mem_map.1 hb
    obtain ⟨m, _, rfl⟩ := mem_dlist.1 hδ
    unfold gP
    rw [(w.shift h hdim m).period]
  rw [this, List.sum_replicate, nsmul_eq_mul]
  have : (n : ℚ) ≠ 0 := by exact_mod_cast (by have := w.pos; omega : n ≠ 0)
  field_simp

include h hdim in
theorem sum_walks (L : List (Dart × Nat)) (hL : ∀ p ∈ L, IsWalk y p.1 p.2) :
    ((L.flatMap fun p => (dlist y p.1 p.2).reverse).map (gP y)).sum = (L.length : ℚ) := by
  induction L with
  | nil => simp
  | cons p L ih =>
    rw [List.flatMap_cons, List.map_append, List.sum_append,
      sum_walk h hdim (hL p List.mem_cons_self), ih (fun q hq => hL q (List.mem_cons_of_mem _ hq))]
    rw [List.length_cons]; push_cast; ring

theorem psiP_iter (n : Nat) (x : PS y) : ((psiP h hdim hw)^[n] x).1 = (phi y)^[n] x.1 := by
  induction n with
  | zero => rfl
  | succ n ih => rw [Function.iterate_succ_apply', Function.iterate_succ_apply', ← ih]; rfl

theorem zQ_psiP {bnds : List (List Nat)} {starts : List (Dart × Nat)} (T : TraceRecord y bnds starts) :
    PermSign.zQ (psiP h hdim hw) = (bnds.length : ℚ) := by
  unfold PermSign.zQ
  have hper : ∀ x : PS y, 1 / (Function.minimalPeriod (psiP h hdim hw) x : ℚ) = gP y x.1 := by
    intro x
    unfold gP
    congr 2
    apply Function.minimalPeriod_eq_minimalPeriod_iff.2
    intro n
    show (psiP h hdim hw)^[n] x = x ↔ (phi y)^[n] x.1 = x.1
    rw [← psiP_iter h hdim hw n x]
    exact Subtype.ext_iff
  rw [Finset.sum_congr rfl (fun x _ => hper x)]
  rw [Finset.sum_coe_sort (PS y) (gP y)]
  have hPS : PS y = (recM y starts).toFinset := by
    ext δ
    rw [List.mem_toFinset, marked_iff_positive h hdim hw T δ, mem_PS]
  rw [hPS, List.sum_toFinset _ T.M_nodup]
  unfold recM
  rw [sum_walks h hdim _ (fun p hp => T.isWalk (List.mem_reverse.1 hp)), List.length_reverse,
    T.bnds_perm.length_eq, List.length_map]

theorem zQ_phiM {bnds : List (List Nat)} {starts : List (Dart × Nat)} (T : TraceRecord y bnds starts) :
    PermSign.zQ (phiM h hdim hw) = (y.size : ℚ) + (bnds.length : ℚ) := by
  unfold phiM
  rw [PermSign.zQ_sumCongr, zQ_phiT, zQ_psiP h hdim hw T]

end

end DSymVerif.D2
