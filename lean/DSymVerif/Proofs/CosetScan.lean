/-
The Todd–Coxeter loops of `coset_table` keep the table invariant (C11): scans end at
canonical rows, `scan_and_connect` is a `join` of two free slots or a `merge`, the main loop
leaves every live row complete, and the closing pass ends only when no relator scan from
any row (and no subgroup-generator scan from row 0) finds anything to merge.
-/
import DSymVerif.Proofs.CosetMerge

namespace DSymVerif.CosetInvP
open DSymVerif DSymVerif.Cosets DSymVerif.LowIndexP DSymVerif.CosetPartP

/-- one step of the enumeration: rows only gain entries, dead rows stay dead -/
def Step (t t' : Table) : Prop := Mono t t' ∧ ∀ c, t'.canon c = c → t.canon c = c

theorem Step.refl (t : Table) : Step t t := ⟨Mono.refl _, fun _ h => h⟩
theorem Step.trans {a b c : Table} (h1 : Step a b) (h2 : Step b c) : Step a c :=
  ⟨h1.1.trans h2.1, fun x hx => h1.2 x (h2.2 x hx)⟩

/-- the letters of a word are letters of the table -/
def WordOK (t : Table) (w : List Int) : Prop := ∀ x ∈ w, x ∈ t.allGens

/-- tracing a word through `get` -/
def mtrace (t : Table) : Nat → List Int → Option Nat
  | c, [] => some c
  | c, g :: w =>
    match t.get c g with
    | .ok (some d) => mtrace t d w
    | _ => none

/-- where a scan ends: a canonical row of the table -/
theorem scanGo_row {t : Table} (s : Shape t) (limit : Nat) : ∀ (xs : List Int) (row idx r i : Nat),
    (∀ x ∈ xs, x ∈ t.allGens) → t.canon row = row → row < t.len →
    scanGo t limit xs row idx = .ok (r, i) → t.canon r = r ∧ r < t.len
  | [], row, idx, r, i, _, hc, hl, h => by
    simp only [scanGo] at h
    split at h
    · simp only [Outcome.ok.injEq, Prod.mk.injEq] at h
      rw [← h.1]; exact ⟨hc, hl⟩
    · cases h
  | x :: xs, row, idx, r, i, hxs, hc, hl, h => by
    simp only [scanGo] at h
    cases hg : t.get row x with
    | ok o =>
      cases o with
      | none =>
        simp only [hg, Outcome.ok.injEq, Prod.mk.injEq] at h
        rw [← h.1]; exact ⟨hc, hl⟩
      | some next =>
        simp only [hg] at h
        exact scanGo_row s limit xs next (idx + 1) r i (fun y hy => hxs y (by simp [hy]))
          (get_canon s hg) (s.range row x next (hxs x (by simp)) hg) h
    | err => simp [hg] at h
    | panic => simp [hg] at h

theorem take_mem {α : Type} {l : List α} {n : Nat} {x : α} (h : x ∈ l.take n) : x ∈ l :=
  List.mem_of_mem_take h

theorem scanBothWays_rows {t : Table} (s : Shape t) {w : List Int} (hw : WordOK t w) {start : Nat}
    (hc : t.canon start = start) (hl : start < t.len) {head tail gap : Nat} {c : Int}
    (h : scanBothWays t w start = .ok (head, tail, gap, c)) :
    t.canon head = head ∧ head < t.len ∧ t.canon tail = tail ∧ tail < t.len ∧
      (gap = 1 → c ∈ t.allGens) := by
  unfold scanBothWays at h
  simp only [] at h
  cases h1 : scan t w start w.length with
  | ok p1 =>
    obtain ⟨hd, i⟩ := p1
    simp only [h1] at h
    cases h2 : scanInverse t w start (w.length - i) with
    | ok p2 =>
      obtain ⟨tl, j⟩ := p2
      simp only [h2, Outcome.ok.injEq, Prod.mk.injEq] at h
      obtain ⟨rfl, rfl, hgap, hcc⟩ := h
      have a1 := scanGo_row s _ _ _ _ _ _ (fun x hx => hw x (take_mem hx)) hc hl h1
      have a2 := scanGo_row s _ _ _ _ _ _ (fun x hx => by
        have := take_mem hx
        simp only [List.mem_map, List.mem_reverse] at this
        obtain ⟨y, hy, rfl⟩ := this
        exact neg_mem_allGensOf (hw y hy)) hc hl h2
      refine ⟨a1.1, a1.2, a2.1, a2.2, ?_⟩
      intro hg1
      have hi : i < w.length := by omega
      rw [if_pos hi] at hcc
      rw [← hcc]
      have : w.getD i 0 = w[i] := by simp [List.getD, hi]
      rw [this]
      exact hw _ (List.getElem_mem hi)
    | err => simp [h2] at h
    | panic => simp [h2] at h
  | err => simp [h1] at h
  | panic => simp [h1] at h

theorem scanAndConnect_spec {t t' : Table} (inv : TCq t []) {w : List Int} (hw : WordOK t w)
    {start : Nat} (hc : t.canon start = start) (hl : start < t.len)
    (h : scanAndConnect t w start = .ok t') : TCq t' [] ∧ Step t t' := by
  unfold scanAndConnect at h
  cases hs : scanBothWays t w start with
  | ok r =>
    obtain ⟨head, tail, gap, c⟩ := r
    simp only [hs] at h
    obtain ⟨b1, b2, b3, b4, b5⟩ := scanBothWays_rows inv.shape hw hc hl hs
    by_cases hg1 : gap = 1
    · subst hg1
      simp only [if_true] at h
      obtain ⟨f1, f2⟩ := scanBothWays_gap_one hs
      obtain ⟨j1, j2, j3⟩ := join_tcq inv h (b5 rfl) b1 b2 b3 (Or.inl b4) f1 f2
      exact ⟨j1, j2, fun x hx => by unfold Table.canon at hx ⊢; rw [j3] at hx; exact hx⟩
    · simp only [hg1, if_false] at h
      by_cases hm : gap = 0 ∧ head ≠ tail
      · simp only [hm, and_self, if_true] at h
        have h' : t.merge head tail = .ok t' := by simpa [hm.2] using h
        obtain ⟨m1, m2, m3, _⟩ := merge_spec inv b2 b4 h'
        exact ⟨m1, m2, m3⟩
      · simp only [hm, if_false, Outcome.ok.injEq] at h
        subst h
        exact ⟨inv, Step.refl _⟩
  | err => simp [hs] at h
  | panic => simp [hs] at h


theorem Step.allGens {a b : Table} (h : Step a b) : b.allGens = a.allGens := h.1.allGens

theorem WordOK.step {a b : Table} (h : Step a b) {w : List Int} (hw : WordOK a w) : WordOK b w :=
  fun x hx => by rw [h.allGens]; exact hw x hx

theorem scanRelators_spec (i : Nat) (g : Int) : ∀ (rels : List (List Int)) (t t' : Table),
    TCq t [] → (∀ w ∈ rels, WordOK t w) → i < t.len → scanRelators i g rels t = .ok t' →
    TCq t' [] ∧ Step t t'
  | [], t, t', inv, _, _, h => by
    simp only [scanRelators, Outcome.ok.injEq] at h
    subst h; exact ⟨inv, Step.refl _⟩
  | w :: ws, t, t', inv, hw, hi, h => by
    have hws : ∀ w' ∈ ws, WordOK t w' := fun w' h' => hw w' (by simp [h'])
    cases w with
    | nil =>
      simp only [scanRelators] at h
      exact scanRelators_spec i g ws t t' inv hws hi h
    | cons x xs =>
      simp only [scanRelators] at h
      by_cases hx : x = g
      · simp only [hx, if_true] at h
        cases hs : scanAndConnect t (g :: xs) (t.canon i) with
        | ok t1 =>
          simp only [hs] at h
          obtain ⟨a1, a2⟩ := scanAndConnect_spec inv (by rw [← hx]; exact hw _ (by simp))
            (canon_idem inv.shape i) (canon_lt inv.shape hi) hs
          obtain ⟨b1, b2⟩ := scanRelators_spec i g ws t1 t' a1
            (fun w' h' => (hws w' h').step a2) (by have := a2.1.2.1; omega) h
          exact ⟨b1, a2.trans b2⟩
        | err => simp [hs] at h
        | panic => simp [hs] at h
      · simp only [hx, if_false] at h
        exact scanRelators_spec i g ws t t' inv hws hi h

theorem scanSubgens_spec : ∀ (subs : List (List Int)) (t t' : Table),
    TCq t [] → (∀ w ∈ subs, WordOK t w) → scanSubgens subs t = .ok t' → TCq t' [] ∧ Step t t'
  | [], t, t', inv, _, h => by
    simp only [scanSubgens, Outcome.ok.injEq] at h
    subst h; exact ⟨inv, Step.refl _⟩
  | w :: ws, t, t', inv, hw, h => by
    simp only [scanSubgens] at h
    cases hs : scanAndConnect t w (t.canon 0) with
    | ok t1 =>
      simp only [hs] at h
      obtain ⟨a1, a2⟩ := scanAndConnect_spec inv (hw w (by simp)) (canon_idem inv.shape 0)
        (canon_lt inv.shape inv.shape.pos) hs
      obtain ⟨b1, b2⟩ := scanSubgens_spec ws t1 t' a1
        (fun w' h' => (hw w' (by simp [h'])).step a2) h
      exact ⟨b1, a2.trans b2⟩
    | err => simp [hs] at h
    | panic => simp [hs] at h

theorem defineAndScan_spec {rels subs : List (List Int)} {t t' : Table} {i : Nat} {g : Int}
    (inv : TCq t []) (hr : ∀ w ∈ rels, WordOK t w) (hsb : ∀ w ∈ subs, WordOK t w)
    (hc : t.canon i = i) (hi : i < t.len) (hg : g ∈ t.allGens) (hfree : t.get i g = .ok none)
    (h : defineAndScan rels subs t i g = .ok t') : TCq t' [] ∧ Step t t' ∧ IsDef t' i g := by
  unfold defineAndScan at h
  simp only [] at h
  by_cases hlim : t.len < rowLimit
  · simp only [hlim, if_true] at h
    cases hj : t.join i t.len g with
    | ok t1 =>
      simp only [hj] at h
      obtain ⟨j1, j2, j3⟩ := join_tcq inv hj hg hc hi (canon_ge inv.shape (Nat.le_refl _))
        (Or.inr ⟨rfl, hi⟩) hfree (get_ge_len _ (Nat.le_refl _))
      have s1 : Step t t1 := ⟨j2, fun x hx => by unfold Table.canon at hx ⊢; rw [j3] at hx; exact hx⟩
      have hd1 : IsDef t1 i g := (join_ok hj).2.2.1
      cases hs : scanRelators i g rels t1 with
      | ok t2 =>
        simp only [hs] at h
        obtain ⟨a1, a2⟩ := scanRelators_spec i g rels t1 t2 j1 (fun w hw => (hr w hw).step s1)
          (by have := j2.2.1; omega) hs
        obtain ⟨b1, b2⟩ := scanSubgens_spec subs t2 t' a1 (fun w hw => (hsb w hw).step (s1.trans a2)) h
        exact ⟨b1, (s1.trans a2).trans b2, b2.1.2.2 _ _ (a2.1.2.2 _ _ hd1)⟩
      | err => simp [hs] at h
      | panic => simp [hs] at h
    | err => simp [hj] at h
    | panic => simp [hj] at h
  · simp [hlim] at h

theorem processRow_spec {rels subs : List (List Int)} (i : Nat) : ∀ (gs : List Int) (t t' : Table),
    TCq t [] → (∀ w ∈ rels, WordOK t w) → (∀ w ∈ subs, WordOK t w) → i < t.len →
    (∀ g ∈ gs, g ∈ t.allGens) → processRow rels subs i gs t = .ok t' →
    TCq t' [] ∧ Step t t' ∧ (t'.canon i = i → ∀ g ∈ gs, IsDef t' i g)
  | [], t, t', inv, _, _, _, _, h => by
    simp only [processRow, Outcome.ok.injEq] at h
    subst h; exact ⟨inv, Step.refl _, fun _ g hg => by cases hg⟩
  | g :: gs, t, t', inv, hr, hsb, hi, hgs, h => by
    simp only [processRow] at h
    by_cases hc : i ≠ t.canon i
    · rw [if_pos hc] at h
      simp only [Outcome.ok.injEq] at h
      subst h
      exact ⟨inv, Step.refl _, fun hci => absurd hci.symm hc⟩
    · rw [if_neg hc] at h
      have hc' : t.canon i = i := by
        by_contra hne; exact hc (fun e => hne e.symm)
      have hg : g ∈ t.allGens := hgs g (by simp)
      have hgs' : ∀ g' ∈ gs, g' ∈ t.allGens := fun g' h' => hgs g' (by simp [h'])
      cases hget : t.get i g with
      | ok o =>
        cases o with
        | some d =>
          simp only [hget] at h
          obtain ⟨a1, a2, a3⟩ := processRow_spec i gs t t' inv hr hsb hi hgs' h
          refine ⟨a1, a2, fun hci g' hg' => ?_⟩
          rcases List.mem_cons.mp hg' with rfl | hg'
          · exact a2.1.2.2 _ _ ((get_some_iff _ _ _).mp ⟨d, hget⟩)
          · exact a3 hci g' hg'
        | none =>
          simp only [hget] at h
          cases hd : defineAndScan rels subs t i g with
          | ok t1 =>
            simp only [hd] at h
            obtain ⟨d1, d2, d3⟩ := defineAndScan_spec inv hr hsb hc' hi hg hget hd
            obtain ⟨a1, a2, a3⟩ := processRow_spec i gs t1 t' d1 (fun w hw => (hr w hw).step d2)
              (fun w hw => (hsb w hw).step d2) (by have := d2.1.2.1; omega)
              (fun g' h' => by rw [d2.allGens]; exact hgs' g' h') h
            refine ⟨a1, d2.trans a2, fun hci g' hg' => ?_⟩
            rcases List.mem_cons.mp hg' with rfl | hg'
            · exact a2.1.2.2 _ _ d3
            · exact a3 hci g' hg'
          | err => simp [hd] at h
          | panic => simp [hd] at h
      | err => simp [hget] at h
      | panic => simp [hget] at h

/-- every slot of the row is defined -/
def RowComplete (t : Table) (c : Nat) : Prop := ∀ g ∈ t.allGens, IsDef t c g

theorem RowComplete.step {a b : Table} (h : Step a b) {c : Nat} (hc : RowComplete a c) : RowComplete b c :=
  fun g hg => h.1.2.2 c g (hc g (by rw [← h.allGens]; exact hg))

theorem mainLoop_spec {rels subs : List (List Int)} : ∀ (fuel i : Nat) (t t' : Table),
    TCq t [] → (∀ w ∈ rels, WordOK t w) → (∀ w ∈ subs, WordOK t w) →
    (∀ c, c < i → t.canon c = c → RowComplete t c) → mainLoop rels subs fuel i t = .ok t' →
    TCq t' [] ∧ Step t t' ∧ (∀ c, c < t'.len → t'.canon c = c → RowComplete t' c) := by
  intro fuel
  induction fuel with
  | zero => intro i t t' _ _ _ _ h; simp [mainLoop] at h
  | succ f ih =>
    intro i t t' inv hr hsb hcomp h
    simp only [mainLoop] at h
    by_cases hi : i ≥ t.len
    · simp only [hi, if_true, Outcome.ok.injEq] at h
      subst h
      exact ⟨inv, Step.refl _, fun c hc => hcomp c (by omega)⟩
    · simp only [hi, if_false] at h
      cases hp : processRow rels subs i t.allGens t with
      | ok t1 =>
        simp only [hp] at h
        obtain ⟨a1, a2, a3⟩ := processRow_spec i t.allGens t t1 inv hr hsb (by omega) (fun g hg => hg) hp
        obtain ⟨b1, b2, b3⟩ := ih (i + 1) t1 t' a1 (fun w hw => (hr w hw).step a2)
          (fun w hw => (hsb w hw).step a2) (by
            intro c hc hlive
            by_cases hci : c = i
            · subst hci
              intro g hg
              exact a3 hlive g (by rw [← a2.allGens]; exact hg)
            · exact (hcomp c (by omega) (a2.2 c hlive)).step a2) h
        exact ⟨b1, a2.trans b2, b3⟩
      | err => simp [hp] at h
      | panic => simp [hp] at h


/-! ### the closing pass -/

def AllComplete (t : Table) : Prop := ∀ c, c < t.len → t.canon c = c → RowComplete t c

theorem AllComplete.step {a b : Table} (h : Step a b) (hl : b.len = a.len) (hc : AllComplete a) :
    AllComplete b := fun c hcl hlive => (hc c (by omega) (h.2 c hlive)).step h

theorem scanAndMerge_spec {t t' : Table} {w : List Int} {start : Nat} {ch : Bool} (inv : TCq t [])
    (hw : WordOK t w) (hs : start < t.len) (h : scanAndMerge t w start = .ok (t', ch)) :
    TCq t' [] ∧ Step t t' ∧ t'.len = t.len ∧ (ch = false → t' = t) := by
  unfold scanAndMerge at h
  cases hsb : scanBothWays t w (t.canon start) with
  | ok r =>
    obtain ⟨head, tail, gap, c⟩ := r
    simp only [hsb] at h
    obtain ⟨b1, b2, b3, b4, _⟩ := scanBothWays_rows inv.shape hw (canon_idem inv.shape start)
      (canon_lt inv.shape hs) hsb
    by_cases hm : gap = 0 ∧ head ≠ tail
    · rw [if_pos hm] at h
      cases hmg : t.merge head tail with
      | ok t1 =>
        simp only [hmg, Outcome.ok.injEq, Prod.mk.injEq] at h
        obtain ⟨rfl, rfl⟩ := h
        obtain ⟨m1, m2, m3, m4⟩ := merge_spec inv b2 b4 hmg
        exact ⟨m1, ⟨m2, m3⟩, m4, fun e => by cases e⟩
      | err => simp [hmg] at h
      | panic => simp [hmg] at h
    · rw [if_neg hm] at h
      simp only [Outcome.ok.injEq, Prod.mk.injEq] at h
      obtain ⟨rfl, rfl⟩ := h
      exact ⟨inv, Step.refl _, rfl, fun _ => rfl⟩
  | err => simp [hsb] at h
  | panic => simp [hsb] at h

theorem closeWords_spec (i : Nat) : ∀ (ws : List (List Int)) (t : Table) (ch : Bool) (t' : Table) (ch' : Bool),
    TCq t [] → (∀ w ∈ ws, WordOK t w) → i < t.len → closeWords i ws (t, ch) = .ok (t', ch') →
    TCq t' [] ∧ Step t t' ∧ t'.len = t.len ∧
      (ch' = false → ch = false ∧ t' = t ∧ ∀ w ∈ ws, scanAndMerge t w i = .ok (t, false))
  | [], t, ch, t', ch', inv, _, _, h => by
    simp only [closeWords, Outcome.ok.injEq, Prod.mk.injEq] at h
    obtain ⟨rfl, rfl⟩ := h
    exact ⟨inv, Step.refl _, rfl, fun e => ⟨e, rfl, fun w hw => by cases hw⟩⟩
  | w :: ws, t, ch, t', ch', inv, hw, hi, h => by
    simp only [closeWords] at h
    cases hs : scanAndMerge t w i with
    | ok r =>
      obtain ⟨t1, c1⟩ := r
      simp only [hs] at h
      obtain ⟨a1, a2, a3, a4⟩ := scanAndMerge_spec inv (hw w (by simp)) hi hs
      obtain ⟨b1, b2, b3, b4⟩ := closeWords_spec i ws t1 (ch || c1) t' ch' a1
        (fun w' h' => (hw w' (by simp [h'])).step a2) (by omega) h
      refine ⟨b1, a2.trans b2, b3.trans a3, ?_⟩
      intro e
      obtain ⟨e1, e2, e3⟩ := b4 e
      have hc1 : c1 = false := by cases ch <;> cases c1 <;> simp_all
      have hch : ch = false := by cases ch <;> cases c1 <;> simp_all
      have ht1 : t1 = t := a4 hc1
      subst ht1; subst hc1
      refine ⟨hch, e2, ?_⟩
      intro w' hw'
      rcases List.mem_cons.mp hw' with rfl | hw'
      · exact hs
      · exact e3 w' hw'
    | err => simp [hs] at h
    | panic => simp [hs] at h

theorem closeRows_spec (rels : List (List Int)) : ∀ (rows : List Nat) (t : Table) (ch : Bool)
    (t' : Table) (ch' : Bool),
    TCq t [] → (∀ w ∈ rels, WordOK t w) → (∀ i ∈ rows, i < t.len) →
    closeRows rels rows (t, ch) = .ok (t', ch') →
    TCq t' [] ∧ Step t t' ∧ t'.len = t.len ∧
      (ch' = false → ch = false ∧ t' = t ∧ ∀ i ∈ rows, ∀ w ∈ rels, scanAndMerge t w i = .ok (t, false))
  | [], t, ch, t', ch', inv, _, _, h => by
    simp only [closeRows, Outcome.ok.injEq, Prod.mk.injEq] at h
    obtain ⟨rfl, rfl⟩ := h
    exact ⟨inv, Step.refl _, rfl, fun e => ⟨e, rfl, fun i hi => by cases hi⟩⟩
  | i :: is, t, ch, t', ch', inv, hw, hrows, h => by
    simp only [closeRows] at h
    cases hs : closeWords i rels (t, ch) with
    | ok r =>
      obtain ⟨t1, c1⟩ := r
      simp only [hs] at h
      obtain ⟨a1, a2, a3, a4⟩ := closeWords_spec i rels t ch t1 c1 inv hw (hrows i (by simp)) hs
      obtain ⟨b1, b2, b3, b4⟩ := closeRows_spec rels is t1 c1 t' ch' a1
        (fun w' h' => (hw w' h').step a2) (fun j hj => by rw [a3]; exact hrows j (by simp [hj])) h
      refine ⟨b1, a2.trans b2, b3.trans a3, ?_⟩
      intro e
      obtain ⟨e1, e2, e3⟩ := b4 e
      obtain ⟨f1, f2, f3⟩ := a4 e1
      subst f2
      refine ⟨f1, e2, ?_⟩
      intro j hj
      rcases List.mem_cons.mp hj with rfl | hj
      · exact f3
      · exact e3 j hj
    | err => simp [hs] at h
    | panic => simp [hs] at h

/-- no scan of a relator from any row, and of a subgroup generator from row 0, finds anything
    to merge -/
def Closed (t : Table) (rels subs : List (List Int)) : Prop :=
  (∀ i, i < t.len → ∀ w ∈ rels, scanAndMerge t w i = .ok (t, false)) ∧
    ∀ w ∈ subs, scanAndMerge t w 0 = .ok (t, false)

theorem closeLoop_spec {rels subs : List (List Int)} : ∀ (fuel : Nat) (t t' : Table),
    TCq t [] → (∀ w ∈ rels, WordOK t w) → (∀ w ∈ subs, WordOK t w) → AllComplete t →
    closeLoop rels subs fuel t = .ok t' →
    TCq t' [] ∧ Step t t' ∧ AllComplete t' ∧ Closed t' rels subs := by
  intro fuel
  induction fuel with
  | zero => intro t t' _ _ _ _ h; simp [closeLoop] at h
  | succ f ih =>
    intro t t' inv hr hsb hcomp h
    simp only [closeLoop] at h
    cases h1 : closeRows rels (List.range t.len) (t, false) with
    | ok r1 =>
      obtain ⟨t1, c1⟩ := r1
      simp only [h1] at h
      obtain ⟨a1, a2, a3, a4⟩ := closeRows_spec rels (List.range t.len) t false t1 c1 inv hr
        (fun i hi => List.mem_range.mp hi) h1
      cases h2 : closeWords 0 subs (t1, c1) with
      | ok r2 =>
        obtain ⟨t2, c2⟩ := r2
        simp only [h2] at h
        obtain ⟨b1, b2, b3, b4⟩ := closeWords_spec 0 subs t1 c1 t2 c2 a1
          (fun w hw => (hsb w hw).step a2) a1.shape.pos h2
        have s12 : Step t t2 := a2.trans b2
        have hl2 : t2.len = t.len := b3.trans a3
        by_cases hc2 : c2 = true
        · simp only [hc2, if_true] at h
          obtain ⟨k1, k2, k3, k4⟩ := ih t2 t' b1 (fun w hw => (hr w hw).step s12)
            (fun w hw => (hsb w hw).step s12) (hcomp.step s12 hl2) h
          exact ⟨k1, s12.trans k2, k3, k4⟩
        · have hc2' : c2 = false := by cases c2 <;> simp_all
          subst hc2'
          simp only [Bool.false_eq_true, if_false, Outcome.ok.injEq] at h
          subst h
          obtain ⟨e1, e2, e3⟩ := b4 rfl
          subst e2
          obtain ⟨f1, f2, f3⟩ := a4 e1
          subst f2
          exact ⟨inv, Step.refl _, hcomp,
            fun i hi w hw => f3 i (List.mem_range.mpr hi) w hw, e3⟩
      | err => simp [h2] at h
      | panic => simp [h2] at h
    | err => simp [h1] at h
    | panic => simp [h1] at h

end DSymVerif.CosetInvP
