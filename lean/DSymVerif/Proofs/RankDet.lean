/-
`rank_eq`, `determinant_eq`, generically for a `Sem` back-end: the model's `rank` is
`Matrix.rank` of the input and the model's `determinant` is `Matrix.det` of the input.
-/
import Mathlib.Tactic.LinearCombination
import DSymVerif.Proofs.SolveSem

namespace DSymVerif.LA

open DSymVerif Matrix

section rankdet
variable {α : Type} {B : Backend α} {E : α → Prop} {R : Type} [Field R] {val : α → R}

/-- strictly increasing pivot columns: `i ≤ cols[i]` -/
theorem IsEchelon.le_cols {nr nc : Nat} {u : Mat α nr nc} {rank : Nat} {cols : Vector Nat nr}
    (h : IsEchelon val u rank cols) : ∀ (i : Nat) (hi : i < nr), i < rank → i ≤ cols[i] := by
  intro i
  induction i with
  | zero => intro _ _; exact Nat.zero_le _
  | succ i ih =>
    intro hi hr
    have h1 := ih (by omega) (by omega)
    have h2 := h.mono i (i + 1) (by omega) hi (by omega) hr
    omega

/-- rank of a matrix in row-echelon form = number of pivots -/
theorem rank_of_isEchelon {nr nc : Nat} {u : Mat α nr nc} {rank : Nat} {cols : Vector Nat nr}
    (h : IsEchelon val u rank cols) : (toMatrix val u).rank = rank := by
  apply le_antisymm
  · -- only the first `rank` rows are non-zero
    have hsub := rank_le_card_of_support_subset (toMatrix val u)
      (Finset.univ.image (Fin.castLE h.rank_le))
      (by
        intro i hi
        rw [Function.mem_support] at hi
        by_contra hn
        apply hi
        have hir : rank ≤ i.1 := by
          by_contra hlt
          apply hn
          rw [Finset.mem_coe, Finset.mem_image]
          exact ⟨⟨i.1, by omega⟩, Finset.mem_univ _, Fin.ext rfl⟩
        funext j
        exact h.zero i.1 j.1 i.2 j.2 hir)
    rw [Finset.card_image_of_injective _ (Fin.castLE_injective _), Finset.card_univ,
      Fintype.card_fin] at hsub
    exact hsub
  · -- the pivot minor is upper triangular with non-zero diagonal
    have hc : ∀ j : Fin rank, cols[j.1]'(by have := h.rank_le; omega) < nc :=
      fun j => h.cols_lt j.1 (by have := h.rank_le; omega) j.2
    let V : Matrix (Fin rank) (Fin rank) R :=
      (toMatrix val u).submatrix (Fin.castLE h.rank_le) (fun j => ⟨cols[j.1]'(by have := h.rank_le; omega), hc j⟩)
    have hle : V.rank ≤ (toMatrix val u).rank := rank_submatrix_le _ _ _
    have htri : V.IsUpperTriangular := by
      intro i j hij
      have hij' : j.1 < i.1 := hij
      show val _ = 0
      exact h.lead i.1 _ (by have := h.rank_le; omega) (hc j) i.2
        (h.mono j.1 i.1 (by have := h.rank_le; omega) (by have := h.rank_le; omega) hij' i.2)
    have hdet : V.det ≠ 0 := by
      rw [det_of_isUpperTriangular htri, Finset.prod_ne_zero_iff]
      intro i _
      show val _ ≠ 0
      exact h.pivot i.1 _ (by have := h.rank_le; omega) (hc i) i.2 rfl
    have hVr : V.rank = rank := by
      have := rank_of_isUnit V ((Matrix.isUnit_iff_isUnit_det V).2 (isUnit_iff_ne_zero.2 hdet))
      rw [Fintype.card_fin] at this
      exact this
    omega

/-- `rank_eq` -/
theorem rank_sem (hs : Sem B E val) {nr nc : Nat} (a : Mat α nr nc) (ha : AllE E a) :
    ∃ r, rank B a = .ok r ∧ r = (toMatrix val a).rank := by
  obtain ⟨re, h1, _, _, hprod, hdet, hech⟩ := echelon_sem hs a ha
  refine ⟨re.rank, by unfold rank; rw [h1]; rfl, ?_⟩
  have hunit : IsUnit (toMatrix val re.multiplier).det := by
    rw [hdet]; exact isUnit_iff_ne_zero.2 (pow_ne_zero _ (by norm_num))
  rw [← rank_mul_eq_right_of_isUnit_det _ (toMatrix val a) hunit, hprod, rank_of_isEchelon hech]

theorem prod_lt_succ {m : Nat} (f : Fin m → R) (l : Nat) (h : l < m) :
    (∏ x : Fin m, if x.1 < l + 1 then f x else 1) =
      (∏ x : Fin m, if x.1 < l then f x else 1) * f ⟨l, h⟩ := by
  have : f ⟨l, h⟩ = ∏ x : Fin m, if x = ⟨l, h⟩ then f x else 1 := by
    rw [Finset.prod_ite_eq' Finset.univ ⟨l, h⟩ f]; simp
  rw [this, ← Finset.prod_mul_distrib]
  apply Finset.prod_congr rfl
  intro x _
  by_cases h1 : x.1 < l
  · have : x ≠ ⟨l, h⟩ := fun e => by rw [e] at h1; simp at h1
    simp [h1, this, Nat.lt_succ_of_lt h1]
  · by_cases h2 : x = ⟨l, h⟩
    · subst h2; simp
    · have : ¬ x.1 < l + 1 := by
        intro h3
        apply h2
        apply Fin.ext
        simp only
        omega
      simp [h1, h2, this]

theorem prod_lt_full {m : Nat} (f : Fin m → R) :
    (∏ x : Fin m, if x.1 < m then f x else 1) = ∏ x : Fin m, f x :=
  Finset.prod_congr rfl (fun x _ => by simp [x.2])

/-- `determinant_eq` -/
theorem determinant_sem (hs : Sem B E val) {n : Nat} (a : Mat α n n) (ha : AllE E a) :
    ∃ d, determinant B a = .ok d ∧ E d ∧ val d = (toMatrix val a).det := by
  unfold determinant
  have hv := hs.scalar
  have hsf := hs.safe
  by_cases h0 : n = 0
  · subst h0
    simp only [if_true]
    exact ⟨_, rfl, hsf.one, by rw [hv.one, det_isEmpty]⟩
  by_cases h1 : n = 1
  · subst h1
    simp only [if_true, Nat.succ_ne_zero, if_false]
    refine ⟨_, Mat.get_ok a (by omega) (by omega), ha 0 0 (by omega) (by omega), ?_⟩
    rw [det_fin_one]; rfl
  by_cases h2 : n = 2
  · subst h2
    simp only [if_true, if_false, OfNat.ofNat_ne_one, OfNat.ofNat_ne_zero]
    rw [Mat.get_ok a (i := 0) (j := 0) (by omega) (by omega),
      Mat.get_ok a (i := 1) (j := 1) (by omega) (by omega),
      Mat.get_ok a (i := 0) (j := 1) (by omega) (by omega),
      Mat.get_ok a (i := 1) (j := 0) (by omega) (by omega)]
    simp only [bind_ok]
    have e : ∀ (i j : Nat) (hi : i < 2) (hj : j < 2), E ((a[i])[j]) := fun i j hi hj => ha i j hi hj
    obtain ⟨ad, had, hadE⟩ := hsf.mul _ _ (e 0 0 (by omega) (by omega)) (e 1 1 (by omega) (by omega))
    rw [had]; simp only [bind_ok]
    obtain ⟨bc, hbc, hbcE⟩ := hsf.mul _ _ (e 0 1 (by omega) (by omega)) (e 1 0 (by omega) (by omega))
    rw [hbc]; simp only [bind_ok]
    obtain ⟨d, hd, hdE⟩ := hsf.sub _ _ hadE hbcE
    refine ⟨d, hd, hdE, ?_⟩
    rw [hv.sub _ _ d hadE hbcE hd, hv.mul _ _ ad (e 0 0 (by omega) (by omega)) (e 1 1 (by omega) (by omega)) had,
      hv.mul _ _ bc (e 0 1 (by omega) (by omega)) (e 1 0 (by omega) (by omega)) hbc, det_fin_two]
    rfl
  by_cases h3 : n = 3
  · subst h3
    simp only [if_true, if_false, OfNat.ofNat_ne_one, OfNat.ofNat_ne_zero,
      show (3 : Nat) ≠ 2 by omega]
    have e : ∀ (i j : Nat) (hi : i < 3) (hj : j < 3), E ((a[i])[j]) := fun i j hi hj => ha i j hi hj
    rw [Mat.get_ok a (i := 0) (j := 0) (by omega) (by omega),
      Mat.get_ok a (i := 0) (j := 1) (by omega) (by omega),
      Mat.get_ok a (i := 0) (j := 2) (by omega) (by omega),
      Mat.get_ok a (i := 1) (j := 0) (by omega) (by omega),
      Mat.get_ok a (i := 1) (j := 1) (by omega) (by omega),
      Mat.get_ok a (i := 1) (j := 2) (by omega) (by omega),
      Mat.get_ok a (i := 2) (j := 0) (by omega) (by omega),
      Mat.get_ok a (i := 2) (j := 1) (by omega) (by omega),
      Mat.get_ok a (i := 2) (j := 2) (by omega) (by omega)]
    simp only [bind_ok]
    obtain ⟨t1, ht1, ht1E⟩ := hsf.mul _ _ (e 1 1 (by omega) (by omega)) (e 2 2 (by omega) (by omega))
    rw [ht1]; simp only [bind_ok]
    obtain ⟨p1, hp1, hp1E⟩ := hsf.mul _ _ (e 0 0 (by omega) (by omega)) ht1E
    rw [hp1]; simp only [bind_ok]
    obtain ⟨t2, ht2, ht2E⟩ := hsf.mul _ _ (e 1 2 (by omega) (by omega)) (e 2 0 (by omega) (by omega))
    rw [ht2]; simp only [bind_ok]
    obtain ⟨p2, hp2, hp2E⟩ := hsf.mul _ _ (e 0 1 (by omega) (by omega)) ht2E
    rw [hp2]; simp only [bind_ok]
    obtain ⟨s1, hs1, hs1E⟩ := hsf.add _ _ hp1E hp2E
    rw [hs1]; simp only [bind_ok]
    obtain ⟨t3, ht3, ht3E⟩ := hsf.mul _ _ (e 1 0 (by omega) (by omega)) (e 2 1 (by omega) (by omega))
    rw [ht3]; simp only [bind_ok]
    obtain ⟨p3, hp3, hp3E⟩ := hsf.mul _ _ (e 0 2 (by omega) (by omega)) ht3E
    rw [hp3]; simp only [bind_ok]
    obtain ⟨s2, hs2, hs2E⟩ := hsf.add _ _ hs1E hp3E
    rw [hs2]; simp only [bind_ok]
    obtain ⟨t4, ht4, ht4E⟩ := hsf.mul _ _ (e 1 1 (by omega) (by omega)) (e 2 0 (by omega) (by omega))
    rw [ht4]; simp only [bind_ok]
    obtain ⟨p4, hp4, hp4E⟩ := hsf.mul _ _ (e 0 2 (by omega) (by omega)) ht4E
    rw [hp4]; simp only [bind_ok]
    obtain ⟨s3, hs3, hs3E⟩ := hsf.sub _ _ hs2E hp4E
    rw [hs3]; simp only [bind_ok]
    obtain ⟨t5, ht5, ht5E⟩ := hsf.mul _ _ (e 1 2 (by omega) (by omega)) (e 2 1 (by omega) (by omega))
    rw [ht5]; simp only [bind_ok]
    obtain ⟨p5, hp5, hp5E⟩ := hsf.mul _ _ (e 0 0 (by omega) (by omega)) ht5E
    rw [hp5]; simp only [bind_ok]
    obtain ⟨s4, hs4, hs4E⟩ := hsf.sub _ _ hs3E hp5E
    rw [hs4]; simp only [bind_ok]
    obtain ⟨t6, ht6, ht6E⟩ := hsf.mul _ _ (e 1 0 (by omega) (by omega)) (e 2 2 (by omega) (by omega))
    rw [ht6]; simp only [bind_ok]
    obtain ⟨p6, hp6, hp6E⟩ := hsf.mul _ _ (e 0 1 (by omega) (by omega)) ht6E
    rw [hp6]; simp only [bind_ok]
    obtain ⟨d, hd, hdE⟩ := hsf.sub _ _ hs4E hp6E
    refine ⟨d, hd, hdE, ?_⟩
    rw [hv.sub _ _ d hs4E hp6E hd, hv.mul _ _ p6 (e 0 1 (by omega) (by omega)) ht6E hp6,
      hv.mul _ _ t6 (e 1 0 (by omega) (by omega)) (e 2 2 (by omega) (by omega)) ht6,
      hv.sub _ _ s4 hs3E hp5E hs4, hv.mul _ _ p5 (e 0 0 (by omega) (by omega)) ht5E hp5,
      hv.mul _ _ t5 (e 1 2 (by omega) (by omega)) (e 2 1 (by omega) (by omega)) ht5,
      hv.sub _ _ s3 hs2E hp4E hs3, hv.mul _ _ p4 (e 0 2 (by omega) (by omega)) ht4E hp4,
      hv.mul _ _ t4 (e 1 1 (by omega) (by omega)) (e 2 0 (by omega) (by omega)) ht4,
      hv.add _ _ s2 hs1E hp3E hs2, hv.mul _ _ p3 (e 0 2 (by omega) (by omega)) ht3E hp3,
      hv.mul _ _ t3 (e 1 0 (by omega) (by omega)) (e 2 1 (by omega) (by omega)) ht3,
      hv.add _ _ s1 hp1E hp2E hs1, hv.mul _ _ p2 (e 0 1 (by omega) (by omega)) ht2E hp2,
      hv.mul _ _ t2 (e 1 2 (by omega) (by omega)) (e 2 0 (by omega) (by omega)) ht2,
      hv.mul _ _ p1 (e 0 0 (by omega) (by omega)) ht1E hp1,
      hv.mul _ _ t1 (e 1 1 (by omega) (by omega)) (e 2 2 (by omega) (by omega)) ht1, det_fin_three]
    simp only [toMatrix_apply]
    show _ = val ((a[0])[0]) * val ((a[1])[1]) * val ((a[2])[2]) - val ((a[0])[0]) * val ((a[1])[2]) * val ((a[2])[1])
      - val ((a[0])[1]) * val ((a[1])[0]) * val ((a[2])[2]) + val ((a[0])[1]) * val ((a[1])[2]) * val ((a[2])[0])
      + val ((a[0])[2]) * val ((a[1])[0]) * val ((a[2])[1]) - val ((a[0])[2]) * val ((a[1])[1]) * val ((a[2])[0])
    ring
  · simp only [h0, h1, h2, h3, if_false]
    obtain ⟨re, hre, _, hres, hprod, hdet, hech⟩ := echelon_sem hs a ha
    rw [hre]; simp only [bind_ok]
    obtain ⟨res, hr, hrE, hrv⟩ := forRange_idx 0 n (Nat.zero_le _) B.one
      (fun i acc => (re.result.get i i).bind fun d => B.mul acc d)
      (fun i acc => E acc ∧ val acc = ∏ x : Fin n,
        if x.1 < i then toMatrix val re.result x x else 1)
      ⟨hsf.one, by simp [hv.one]⟩
      (by
        intro i acc _ hi ⟨haccE, haccv⟩
        rw [Mat.get_ok re.result hi hi]
        simp only [bind_ok]
        obtain ⟨m, hm, hmE⟩ := hsf.mul _ _ haccE (hres i i hi hi)
        refine ⟨m, hm, hmE, ?_⟩
        rw [hv.mul _ _ m haccE (hres i i hi hi) hm, haccv, prod_lt_succ _ i hi]
        rfl)
    rw [hr]; simp only [bind_ok]
    rw [prod_lt_full] at hrv
    -- the echelon form of a square matrix is upper triangular
    have htri : (toMatrix val re.result).IsUpperTriangular := by
      intro i j hij
      have hij' : j.1 < i.1 := hij
      show val _ = 0
      by_cases hir : i.1 < re.rank
      · exact hech.lead i.1 j.1 i.2 j.2 hir (by have := hech.le_cols i.1 i.2 hir; omega)
      · exact hech.zero i.1 j.1 i.2 j.2 (by omega)
    have hdetU : (toMatrix val re.result).det = val res := by
      rw [det_of_isUpperTriangular htri, hrv]
    have hdetA : (toMatrix val re.multiplier).det * (toMatrix val a).det = val res := by
      rw [← Matrix.det_mul, hprod, hdetU]
    have hsq : ((-1 : R) ^ re.nrSwaps) * ((-1 : R) ^ re.nrSwaps) = 1 := by
      rw [← pow_add, ← two_mul, pow_mul]; norm_num
    rw [hdet] at hdetA
    by_cases hpar : (re.nrSwaps % 2 == 0) = true
    · rw [if_pos hpar]
      refine ⟨res, rfl, hrE, ?_⟩
      have hp : re.nrSwaps % 2 = 0 := by simpa using hpar
      have : (-1 : R) ^ re.nrSwaps = 1 := by
        rw [← Nat.div_add_mod re.nrSwaps 2, hp, add_zero, pow_mul]; norm_num
      rw [this, one_mul] at hdetA
      exact hdetA.symm
    · rw [if_neg hpar]
      obtain ⟨m, hm, hmE⟩ := hsf.neg _ hrE
      refine ⟨m, hm, hmE, ?_⟩
      rw [hv.neg _ m hrE hm]
      have hp : re.nrSwaps % 2 = 1 := by
        have : ¬ (re.nrSwaps % 2 = 0) := by simpa using hpar
        omega
      have : (-1 : R) ^ re.nrSwaps = -1 := by
        rw [← Nat.div_add_mod re.nrSwaps 2, hp, pow_add, pow_mul]; norm_num
      rw [this] at hdetA
      linear_combination hdetA

end rankdet

end DSymVerif.LA
