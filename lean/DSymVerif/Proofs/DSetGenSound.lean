/-
Lemmas about the model of the D-set generator, part 6: every state of the search tree
has all its 3-paths closed, hence every emitted (complete) set has commuting far
operations.  Core Lean only.
-/
import DSymVerif.Proofs.DSetGenImpl

namespace DSymVerif.DSG
open DSymVerif.DS

/-- `grow(1)` adds a chamber without entries: no new 3-path -/
theorem grow_closed {ds : DSetData} (hv : ValidPartialSet ds) (hc : ClosedExcept ds []) :
    ClosedExcept (ds.grow 1) [] := by
  intro a b x0 hp hnc
  exfalso
  apply hnc
  have hdim : (ds.grow 1).dim = ds.dim := rfl
  have ha : a ≤ ds.dim := hp.ha
  have hb : b ≤ ds.dim := hp.hb
  -- a defined entry of the grown set is an entry of the old one
  have old : ∀ k x, k ≤ ds.dim → 1 ≤ x → (ds.grow 1).opU k x ≠ 0 →
      x ≤ ds.size ∧ (ds.grow 1).opU k x = ds.opU k x ∧ 1 ≤ ds.opU k x ∧ ds.opU k x ≤ ds.size := by
    intro k x hk hx hne
    rw [grow_opU hv hk hx] at hne ⊢
    split at hne
    · rename_i hle
      rw [if_pos hle]
      exact ⟨hle, rfl, Nat.pos_of_ne_zero hne, hv.range k x hk hx hle⟩
    · exact absurd rfl hne
  obtain ⟨o1, e1, l1, u1⟩ := old a x0 ha hp.lo hp.e1
  have hp2 := hp.e2
  rw [e1] at hp2
  obtain ⟨_, e2, l2, u2⟩ := old b _ hb l1 hp2
  have hp3 := hp.e3
  rw [e1, e2] at hp3
  obtain ⟨_, e3, l3, u3⟩ := old a _ ha l2 hp3
  have hpath : Path3 ds a b x0 :=
    ⟨ha, hb, hp.far, hp.lo, o1, by rw [← e1]; exact hp.e1, by rw [← e2]; exact hp2,
      by rw [← e3]; exact hp3⟩
  have hcl : ClosedAt ds a b x0 := by
    apply Classical.byContradiction
    intro hn
    obtain ⟨p, hp', _⟩ := hc a b x0 hpath hn
    cases hp'
  unfold ClosedAt at hcl ⊢
  rw [e1, e2, e3, grow_opU hv hb l3, if_pos u3]
  exact hcl

/-- one step of the search keeps all 3-paths closed -/
theorem childFor_closed {dim maxSize : Nat} {s c : GenState} {i d e : Nat}
    (hs : GInv dim maxSize s) (hcl : ClosedExcept s.dset [])
    (h : childFor maxSize s i d e = .ok (some c)) : ClosedExcept c.dset [] := by
  obtain ⟨ds0, irs0, ds1, hg, hset, himpl, _, _⟩ := childFor_ok h
  have h0 : ValidPartialSet ds0 ∧ ClosedExcept ds0 [] := by
    rcases hg with ⟨_, _, rfl, _⟩ | ⟨_, rfl, _⟩
    · exact ⟨grow_valid hs.valid, grow_closed hs.valid hcl⟩
    · exact ⟨hs.valid, hcl⟩
  obtain ⟨hi0, hd01, hd02, _, _, _, _, _, _, _⟩ := setC_ok hset
  have hv1 := setC_valid h0.1 hset
  have hx1 := setC_ext hset
  exact checkImpl_sound hv1 (by rw [hx1.dim_eq]; exact hi0) hd01 (by rw [hx1.size_eq]; exact hd02)
    (setC_closedExcept h0.2 hset) himpl

theorem children_closed {dim maxSize : Nat} {s : GenState} (hs : GInv dim maxSize s)
    (hcl : ClosedExcept s.dset []) {c : GenState} (hc : Node.st c ∈ children maxSize (.st s)) :
    ClosedExcept c.dset [] := by
  unfold children at hc
  simp only at hc
  split at hc
  · cases hc
  · rename_i i d hnext
    split at hc
    · simp at hc
    · split at hc
      · rename_i cs hcs
        obtain ⟨c', hc', hcc⟩ := List.mem_map.1 hc
        injection hcc with hcc
        subst hcc
        obtain ⟨e, _, _, hfor⟩ := childLoop_mem _ _ hcs c' hc'
        exact childFor_closed hs hcl hfor
      · simp at hc

theorem rootState_closed (dim maxSize : Nat) : ClosedExcept (rootState dim maxSize).dset [] := by
  intro a b x0 hp _
  exfalso
  exact hp.e1 (getD_replicate_zero _ _)

/-- invariant and closedness together, along the tree -/
theorem reach_closed {dim maxSize : Nat} {n m : Node} (hr : BT.Reach (problem dim maxSize) n m) :
    (∀ s, n = .st s → GInv dim maxSize s ∧ ClosedExcept s.dset []) →
    (∀ t, m = .st t → GInv dim maxSize t ∧ ClosedExcept t.dset []) := by
  induction hr with
  | refl => exact id
  | @step s c t hc _ ih =>
    intro hn
    apply ih
    intro c' hcc
    subst hcc
    cases s with
    | panicked =>
      have : Node.st c' ∈ children maxSize .panicked := hc
      simp [children] at this
    | st s' =>
      obtain ⟨hs', hcl'⟩ := hn s' rfl
      have hc' : Node.st c' ∈ children maxSize (.st s') := hc
      rcases children_inv hs' hc' with h | ⟨c'', h, hinv⟩
      · cases h
      · injection h with h
        subst h
        exact ⟨hinv, children_closed hs' hcl' hc'⟩

theorem reachable_closed {dim maxSize : Nat} {t : GenState}
    (hr : BT.Reach (problem dim maxSize) (root dim maxSize) (.st t)) :
    ClosedExcept t.dset [] := by
  refine (reach_closed hr ?_ t rfl).2
  intro s hs
  rw [root_eq] at hs
  split at hs
  · cases hs
  · injection hs with hs
    subst hs
    exact ⟨rootState_inv dim maxSize, rootState_closed dim maxSize⟩

/-- closed 3-paths on a complete involutive set are commuting far operations -/
theorem farCommute_of_closed {ds : DSetData} (hv : ValidSet ds) (hc : ClosedExcept ds []) :
    FarCommute ds := by
  intro i j d hij hj h1 h2
  have hi : i ≤ ds.dim := by omega
  obtain ⟨a1, a2⟩ := hv.range i d hi h1 h2
  obtain ⟨b1, b2⟩ := hv.range j _ hj a1 a2
  obtain ⟨c1, c2⟩ := hv.range i _ hi b1 b2
  obtain ⟨g1, g2⟩ := hv.range j d hj h1 h2
  have hpath : Path3 ds i j d :=
    ⟨hi, hj, by unfold absDiff; split <;> omega, h1, h2, by omega, by omega, by omega⟩
  have hcl : ClosedAt ds i j d := by
    apply Classical.byContradiction
    intro hn
    obtain ⟨p, hp', _⟩ := hc i j d hpath hn
    cases hp'
  unfold ClosedAt at hcl
  -- w := s_i s_j s_i d,  s_j w = d  ⇒  w = s_j d
  have e1 : ds.opU i (ds.opU j (ds.opU i d)) = ds.opU j d := by
    have := hv.invol j _ hj c1 c2
    rw [hcl] at this
    exact this.symm
  -- s_i (s_j s_i d) = s_j d  ⇒  s_j s_i d = s_i s_j d
  have e2 := hv.invol i _ hi b1 b2
  rw [e1] at e2
  exact e2.symm

/-! ### connectedness -/

/-- `Joined ds a b`: chamber b is reached from a by applying operations -/
inductive Joined (ds : DSetData) : Nat → Nat → Prop
  | refl (a : Nat) : Joined ds a a
  | step {a b : Nat} (i : Nat) : i ≤ ds.dim → Joined ds a b → Joined ds a (ds.opU i b)

/-- every chamber is reached from chamber 1 -/
def Connected (ds : DSetData) : Prop := ∀ e, 1 ≤ e → e ≤ ds.size → Joined ds 1 e

theorem connected_of_linked {ds : DSetData} (hv : ValidPartialSet ds) (hl : Linked ds) :
    Connected ds := by
  intro e
  induction e using Nat.strongRecOn with
  | _ e ih =>
    intro h1 h2
    by_cases he : e = 1
    · subst he; exact Joined.refl 1
    · obtain ⟨i, hi, l1, l2⟩ := hl e (by omega) h2
      have hj := ih (ds.opU i e) l2 l1 (by omega)
      have := Joined.step i hi hj
      rw [hv.invol i e hi h1 h2 (by omega)] at this
      exact this

/-! ### numbering -/

theorem numbered_spec : ∀ (l : List (Outcome DSetData)) (c : Nat) (r : List (DSetData × Nat)),
    numbered l c = some r →
    l = r.map (fun x => Outcome.ok x.1) ∧ r.map (·.2) = List.range' (c + 1) r.length := by
  intro l
  induction l with
  | nil => intro c r h; simp only [numbered] at h; cases h; simp
  | cons a l ih =>
    intro c r h
    cases a with
    | ok ds =>
      simp only [numbered] at h
      cases hr : numbered l (c + 1) with
      | none => rw [hr] at h; cases h
      | some r' =>
        rw [hr] at h
        simp only [Option.map_some] at h
        cases h
        obtain ⟨h1, h2⟩ := ih (c + 1) r' hr
        refine ⟨by simp [h1], ?_⟩
        simp only [List.map_cons, List.length_cons, List.range'_succ]
        rw [h2]
    | err => simp only [numbered] at h; cases h
    | panic => simp only [numbered] at h; cases h

/-! ### a decidable test for `ValidPartialSet` (for concrete witnesses) -/

def validB (s : DSetData) : Bool :=
  s.op.size == s.size * (s.dim + 1) &&
  (List.range (s.dim + 1)).all fun i => (List.range s.size).all fun d0 =>
    s.opU i (d0 + 1) ≤ s.size && (s.opU i (d0 + 1) == 0 || s.opU i (s.opU i (d0 + 1)) == d0 + 1)

theorem validB_sound {s : DSetData} (h : validB s = true) : ValidPartialSet s := by
  unfold validB at h
  simp only [Bool.and_eq_true, beq_iff_eq, List.all_eq_true, List.mem_range, decide_eq_true_eq,
    Bool.or_eq_true] at h
  obtain ⟨h1, h2⟩ := h
  refine ⟨h1, ?_, ?_⟩
  · intro i d hi hd1 hd2
    have := (h2 i (by omega) (d - 1) (by omega)).1
    rw [show d - 1 + 1 = d by omega] at this
    exact this
  · intro i d hi hd1 hd2 hne
    have := (h2 i (by omega) (d - 1) (by omega)).2
    rw [show d - 1 + 1 = d by omega] at this
    rcases this with h | h
    · exact absurd h hne
    · exact h

end DSymVerif.DSG
