/-
Helper lemmas for property C08, part 15: the corners returned by `trace_boundary` are the corner
census — every 2-orbit with a mirror is read exactly once.
-/
import DSymVerif.Proofs.Delaney2dBoundary

namespace DSymVerif.D2
open DSymVerif.DS

/-- the 2-orbits with a mirror of one index pair, as keys `(a, b, representative)` -/
def chainsOf (y : DSymData) (a b : Nat) : List (Nat × Nat × Nat) :=
  ((y.view.orbitReps2d a b).filter fun d => !looplessB y a b d).map fun d => (a, b, d)

def allChains (y : DSymData) : List (Nat × Nat × Nat) :=
  chainsOf y 0 1 ++ (chainsOf y 0 2 ++ chainsOf y 1 2)

def keyV (y : DSymData) (c : Nat × Nat × Nat) : Nat := vN y c.1 c.2.1 c.2.2

theorem corners_pair (reps : List Nat) (v : Nat → Nat) (l : Nat → Bool) :
    cornersOf (reps.map fun d => (v d, l d)) = (((reps.filter fun d => !l d).map v).filter (· > 1)) := by
  unfold cornersOf
  induction reps with
  | nil => rfl
  | cons d reps ih =>
    simp only [List.map_cons, List.filter_cons]
    cases hl : l d <;> by_cases hv : v d > 1 <;> simp [hv, ih]

theorem cornersOf_append (a b : List (Nat × Bool)) : cornersOf (a ++ b) = cornersOf a ++ cornersOf b := by
  unfold cornersOf; rw [List.filter_append, List.map_append]

theorem cornersOf_types (y : DSymData) :
    cornersOf (typesOf y) = ((allChains y).map (keyV y)).filter (· > 1) := by
  unfold typesOf allChains chainsOf
  rw [cornersOf_append, cornersOf_append, corners_pair, corners_pair, corners_pair]
  simp only [List.map_append, List.filter_append, List.map_map]
  rfl

theorem allChains_length (y : DSymData) : (allChains y).length = chainCount (typesOf y) := by
  unfold allChains chainsOf typesOf chainCount
  simp only [List.length_append, List.length_map, List.filter_append, List.filter_map]
  rfl

section
variable {y : DSymData} (h : ValidSym y) (hdim : y.dim = 2)
include h hdim

theorem allChains_nodup : (allChains y).Nodup := by
  have nd : ∀ a b, a ≤ 2 → b ≤ 2 → (chainsOf y a b).Nodup := by
    intro a b ha hb
    unfold chainsOf
    have ok := orbitReps2d_ok h.set (i := a) (j := b) (by omega) (by omega)
    have hnodup : (y.view.orbitReps2d a b).Nodup :=
      ok.distinct.imp (fun {x z} hab he => hab (by subst he; exact Orb2.refl _))
    exact (hnodup.filter _).map (fun x z hxz => by simpa using hxz)
  unfold allChains
  rw [List.nodup_append, List.nodup_append]
  refine ⟨nd 0 1 (by omega) (by omega), ⟨nd 0 2 (by omega) (by omega), nd 1 2 (by omega) (by omega), ?_⟩, ?_⟩
  · intro c hc c' hc' heq
    unfold chainsOf at hc hc'
    obtain ⟨_, _, rfl⟩ := List.mem_map.1 hc
    obtain ⟨_, _, rfl⟩ := List.mem_map.1 hc'
    simp at heq
  · intro c hc c' hc' heq
    unfold chainsOf at hc hc'
    obtain ⟨_, _, rfl⟩ := List.mem_map.1 hc
    rcases List.mem_append.1 hc' with hc' | hc'
    · obtain ⟨_, _, rfl⟩ := List.mem_map.1 hc'
      simp at heq
    · obtain ⟨_, _, rfl⟩ := List.mem_map.1 hc'
      simp at heq

/-- the key of the chain a dart points into -/
def keyOf (y : DSymData) (δ : Dart) : Nat × Nat × Nat :=
  let a := min δ.1 δ.2.1
  let b := max δ.1 δ.2.1
  (a, b, ((y.view.orbitReps2d a b).find? fun d => (y.view.orbit [a, b] d).contains δ.2.2).getD 0)

omit hdim in
/-- the representative found for a chamber of the orbit of the representative `d` is `d` -/
theorem find_rep {a b d x : Nat} (ha : a ≤ y.dim) (hb : b ≤ y.dim) (hd : d ∈ y.view.orbitReps2d a b)
    (hx : Orb2 y.dset a b d x) :
    ((y.view.orbitReps2d a b).find? fun d' => (y.view.orbit [a, b] d').contains x).getD 0 = d := by
  have ok := orbitReps2d_ok h.set ha hb
  have hdr := ok.range d hd
  have hpd : (y.view.orbit [a, b] d).contains x = true := by
    simp only [List.contains_iff_mem]
    exact (mem_orbit_iff h.set ha hb hdr).2 hx
  cases hf : (y.view.orbitReps2d a b).find? fun d' => (y.view.orbit [a, b] d').contains x with
  | none =>
    have := List.find?_eq_none.1 hf d hd
    rw [hpd] at this; simp at this
  | some d' =>
    have hd' := List.mem_of_find?_eq_some hf
    have hp' := List.find?_some hf
    simp only [List.contains_iff_mem] at hp'
    have hd'r := ok.range d' hd'
    have ho' := (mem_orbit_iff h.set ha hb hd'r).1 hp'
    simp only [Option.getD_some]
    by_contra hne
    have hdist : ∀ u ∈ y.view.orbitReps2d a b, ∀ w ∈ y.view.orbitReps2d a b, u ≠ w → ¬ Orb2 y.dset a b u w := by
      have hp : (y.view.orbitReps2d a b).Pairwise (fun u w => ¬ Orb2 y.dset a b u w ∧ ¬ Orb2 y.dset a b w u) :=
        ok.distinct.imp_of_mem (fun {u w} hu hw huw =>
          ⟨huw, fun hwu => huw (Orb2.symm h.set ha hb (ok.range w hw) hwu)⟩)
      have : Std.Symm (fun u w => ¬ Orb2 y.dset a b u w ∧ ¬ Orb2 y.dset a b w u) := ⟨fun _ _ hh => ⟨hh.2, hh.1⟩⟩
      intro u hu w hw hne
      exact (hp.forall hu hw hne).1
    exact hdist d' hd' d hd hne (ho'.trans (Orb2.symm h.set ha hb hdr hx))

/-- a valid dart reads the branching number of the chain it points into -/
theorem key_of_dart {δ : Dart} (hδ : ValidDart y δ) :
    ∃ d, d ∈ y.view.orbitReps2d (min δ.1 δ.2.1) (max δ.1 δ.2.1) ∧
      Orb2 y.dset (min δ.1 δ.2.1) (max δ.1 δ.2.1) d δ.2.2 ∧
      keyOf y δ = (min δ.1 δ.2.1, max δ.1 δ.2.1, d) ∧ vOf y δ = keyV y (keyOf y δ) := by
  obtain ⟨j, k, e⟩ := δ
  obtain ⟨h1, h2, h3, h4, h5, h6⟩ := hδ
  simp only at h1 h2 h3 h4 h5 h6 ⊢
  have ha : min j k ≤ y.dim := by omega
  have hb : max j k ≤ y.dim := by omega
  have ok := orbitReps2d_ok h.set ha hb
  obtain ⟨d, hd, hod⟩ := ok.cover e h4 h5
  have hkey : keyOf y (j, k, e) = (min j k, max j k, d) := by
    unfold keyOf
    simp only
    rw [find_rep h ha hb hd hod]
  refine ⟨d, hd, hod, hkey, ?_⟩
  rw [hkey]
  unfold vOf keyV
  simp only
  have hconst := (rv_const_orb h ha hb (ok.range d hd) hod).2
  have e1 : vN y (min j k) (max j k) e = vN y (min j k) (max j k) d := by unfold vN; rw [hconst]
  rw [← e1]
  by_cases hjk : j ≤ k
  · rw [Nat.min_eq_left hjk, Nat.max_eq_right hjk]
  · rw [Nat.min_eq_right (by omega), Nat.max_eq_left (by omega)]
    unfold vN; rw [DSymData.vPartial_symm]

omit hdim in
/-- a 2-orbit that is not loopless contains a mirror end -/
theorem exists_mirror {a b d : Nat} (ha : a ≤ y.dim) (hb : b ≤ y.dim) (hd : 1 ≤ d ∧ d ≤ y.size)
    (hl : looplessB y a b d = false) :
    ∃ z, Orb2 y.dset a b d z ∧ (y.dset.opU a z = z ∨ y.dset.opU b z = z) := by
  unfold looplessB at hl
  have hl' : ¬ ((y.view.orbit [a, b] d).all fun e => y.op a e != some e && y.op b e != some e) = true := by
    rw [hl]; simp
  rw [List.all_eq_true] at hl'
  push Not at hl'
  obtain ⟨z, hz, hzl⟩ := hl'
  have hzo := (mem_orbit_iff h.set ha hb hd).1 hz
  have hzr := Orb2.range h.set ha hb hd hzo
  refine ⟨z, hzo, ?_⟩
  have e1 : y.op a z = some (y.dset.opU a z) := opSimple_eq_some.2 ⟨ha, hzr.1, hzr.2, rfl⟩
  have e2 : y.op b z = some (y.dset.opU b z) := opSimple_eq_some.2 ⟨hb, hzr.1, hzr.2, rfl⟩
  rw [e1, e2] at hzl
  by_contra hcon
  push Not at hcon
  apply hzl
  simp [hcon.1, hcon.2]

/-- **every chain is read**: for every 2-orbit with a mirror some marked dart points into it -/
theorem chain_covered {M : List Dart} (hM : Marked y M)
    (hall : ∀ i d, i ≤ 2 → 1 ≤ d → d ≤ y.size → y.dset.opU i d = d → (i, d) ∈ M.map Dart.le)
    {c : Nat × Nat × Nat} (hc : c ∈ allChains y) : c ∈ M.map (keyOf y) := by
  -- the shape of c
  have hshape : ∃ a b d, c = (a, b, d) ∧ a < b ∧ b ≤ 2 ∧ d ∈ y.view.orbitReps2d a b ∧
      looplessB y a b d = false := by
    unfold allChains chainsOf at hc
    simp only [List.mem_append, List.mem_map, List.mem_filter, Bool.not_eq_eq_eq_not, Bool.not_true] at hc
    rcases hc with ⟨d, ⟨hd, hl⟩, rfl⟩ | ⟨d, ⟨hd, hl⟩, rfl⟩ | ⟨d, ⟨hd, hl⟩, rfl⟩
    · exact ⟨0, 1, d, rfl, by omega, by omega, hd, hl⟩
    · exact ⟨0, 2, d, rfl, by omega, by omega, hd, hl⟩
    · exact ⟨1, 2, d, rfl, by omega, by omega, hd, hl⟩
  obtain ⟨a, b, d, rfl, hab, hb2, hd, hl⟩ := hshape
  have ha : a ≤ y.dim := by omega
  have hb : b ≤ y.dim := by omega
  have ok := orbitReps2d_ok h.set ha hb
  have hdr := ok.range d hd
  obtain ⟨z, hzo, hzl⟩ := exists_mirror h ha hb hdr hl
  have hzr := Orb2.range h.set ha hb hdr hzo
  -- the inward dart at the mirror end
  have hdart : ∃ δ : Dart, ValidDart y δ ∧ min δ.1 δ.2.1 = a ∧ max δ.1 δ.2.1 = b ∧ δ.2.2 = z := by
    rcases hzl with hz | hz
    · refine ⟨(a, b, z), ⟨?_, hb2, ?_, hzr.1, hzr.2, hz⟩, ?_, ?_, rfl⟩
      · show a ≤ 2; omega
      · show a ≠ b; omega
      · show min a b = a; omega
      · show max a b = b; omega
    · refine ⟨(b, a, z), ⟨hb2, ?_, ?_, hzr.1, hzr.2, hz⟩, ?_, ?_, rfl⟩
      · show a ≤ 2; omega
      · show b ≠ a; omega
      · show min b a = a; omega
      · show max b a = b; omega
  obtain ⟨δ, hδ, hmin, hmax, hδz⟩ := hdart
  have hle := hall δ.1 δ.2.2 hδ.1 hδ.2.2.2.1 hδ.2.2.2.2.1 hδ.2.2.2.2.2
  obtain ⟨δ', hδ', hle'⟩ := List.mem_map.1 hle
  have hkeyδ : ∀ η : Dart, ValidDart y η → min η.1 η.2.1 = a → max η.1 η.2.1 = b →
      Orb2 y.dset a b d η.2.2 → keyOf y η = (a, b, d) := by
    intro η hη hmn hmx ho
    unfold keyOf
    simp only
    rw [hmn, hmx, find_rep h ha hb hd ho]
  rcases same_le hδ (hM.valid δ' hδ') hle' with heq | heq
  · -- the marked dart is the inward one
    apply List.mem_map.2
    refine ⟨δ, by rw [← heq]; exact hδ', ?_⟩
    exact hkeyδ δ hδ hmin hmax (by rw [hδz]; exact hzo)
  · -- the marked dart points away: the one at the other end of the chain is marked, too
    have hτ : tau y δ ∈ M := by
      have := hM.bwd δ' hδ'
      rw [heq, (rho_valid hδ).2.1] at this
      exact this
    obtain ⟨hτv, _, _, _, hsum, hk', horb⟩ := tau_spec h.set hdim hδ .partialSym
    apply List.mem_map.2
    refine ⟨tau y δ, hτ, ?_⟩
    have hmm : min (tau y δ).1 (tau y δ).2.1 = a ∧ max (tau y δ).1 (tau y δ).2.1 = b := by
      have : δ.1 + δ.2.1 = a + b := by omega
      have hne := hτv.2.2.1
      rcases hk' with hk' | hk' <;> constructor <;> omega
    apply hkeyδ (tau y δ) hτv hmm.1 hmm.2
    -- Orb2 a b d (tau δ).2.2
    have horb' : Orb2 y.dset a b δ.2.2 (tau y δ).2.2 := by
      by_cases hjk : δ.1 ≤ δ.2.1
      · have e1 : δ.1 = a := by rw [← hmin]; exact (Nat.min_eq_left hjk).symm
        have e2 : δ.2.1 = b := by rw [← hmax]; exact (Nat.max_eq_right hjk).symm
        rw [e1, e2] at horb
        exact horb.swap
      · have e1 : δ.2.1 = a := by rw [← hmin]; exact (Nat.min_eq_right (by omega)).symm
        have e2 : δ.1 = b := by rw [← hmax]; exact (Nat.max_eq_left (by omega)).symm
        rw [e1, e2] at horb
        exact horb
    rw [hδz] at horb'
    exact hzo.trans horb'

omit h hdim in
/-- the number of mirror ends -/
theorem mirror_ends_card :
    (((Finset.range 3) ×ˢ (Finset.Icc 1 y.size)).filter fun p => y.dset.opU p.1 p.2 = p.2).card =
      loopsN y 0 + loopsN y 1 + loopsN y 2 := by
  rw [Finset.card_filter, Finset.sum_product]
  simp only [Finset.sum_range_succ, Finset.sum_range_zero, zero_add]
  unfold loopsN
  rw [Finset.card_filter, Finset.card_filter, Finset.card_filter]

omit h hdim in
/-- the marked darts are as many as the mirror ends -/
theorem marked_length {M : List Dart} (hM : Marked y M)
    (hall : ∀ i d, i ≤ 2 → 1 ≤ d → d ≤ y.size → y.dset.opU i d = d → (i, d) ∈ M.map Dart.le) :
    M.length = loopsN y 0 + loopsN y 1 + loopsN y 2 := by
  rw [← mirror_ends_card, ← List.length_map (f := Dart.le), ← List.toFinset_card_of_nodup hM.nodup]
  congr 1
  ext p
  simp only [List.mem_toFinset, Finset.mem_filter, Finset.mem_product, Finset.mem_range, Finset.mem_Icc]
  constructor
  · intro hp
    obtain ⟨δ, hδ, rfl⟩ := List.mem_map.1 hp
    obtain ⟨a, _, _, b, c, e⟩ := hM.valid δ hδ
    exact ⟨⟨by show δ.1 < 3; omega, b, c⟩, e⟩
  · rintro ⟨⟨h1, h2, h3⟩, h4⟩
    exact hall p.1 p.2 (by omega) h2 h3 h4

/-- **M1: `trace_boundary` collects every mirror corner exactly once** — on a valid 2D symbol it
    returns, and the corners of all returned boundary components together are, as a multiset, the
    branching numbers > 1 of the 2-orbits with a mirror -/
theorem traceBoundary_corners (rep : Rep) :
    ∃ bnds, traceBoundary ⟨y, rep⟩ = .ok bnds ∧ bnds.flatten.Perm (cornersOf (typesOf y)) := by
  obtain ⟨bnds, M, hb, hM, hperm, hall, _⟩ := traceBoundary_marked h hdim rep
  refine ⟨bnds, hb, hperm.trans ?_⟩
  rw [cornersOf_types]
  apply List.Perm.filter
  -- the chains read by the marked darts are all chains, each once
  have hsub : allChains y ⊆ M.map (keyOf y) := fun c hc => chain_covered h hdim hM hall hc
  have hlen : (M.map (keyOf y)).length ≤ (allChains y).length := by
    rw [List.length_map, marked_length hM hall, allChains_length, loops_eq_chains h hdim]
  have hp : (allChains y).Perm (M.map (keyOf y)) :=
    (List.subperm_of_subset (allChains_nodup h hdim) hsub).perm_of_length_le hlen
  have hv : M.map (vOf y) = (M.map (keyOf y)).map (keyV y) := by
    rw [List.map_map]
    apply List.map_congr_left
    intro δ hδ
    obtain ⟨_, _, _, _, hk⟩ := key_of_dart h hdim (hM.valid δ hδ)
    exact hk
  rw [hv]
  exact (hp.map _).symm

end

end DSymVerif.D2

namespace DSymVerif.D2
open DSymVerif.DS

/-- what `orbifold_symbol` computes on a good 2D symbol -/
theorem orbifoldSymbol_unfold' {s : Sym} (g : Good2d s) {bnds : List (List Nat)}
    (hb : traceBoundary s = .ok bnds) :
    orbifoldSymbol s =
      if 2 - (eulerCharacteristic s + (bnds.length : Int)) < 0 then .panic
      else .ok { cones := sortDescNat (conesOf (typesOf s.data)), bnds := bnds,
                 orientable := s.view.isWeaklyOriented,
                 count := if s.view.isWeaklyOriented
                   then (2 - (eulerCharacteristic s + (bnds.length : Int))).toNat / 2
                   else (2 - (eulerCharacteristic s + (bnds.length : Int))).toNat } := by
  unfold orbifoldSymbol
  have hc : s.isComplete = true := by
    cases hr : s.rep <;> simp [Sym.isComplete, hr, g.complete]
  rw [if_neg (by simp [g.dim]), if_neg (by simp [hc]), hb, coneDegrees_good g]

/-- with M1 a theorem, the symbol is exact as soon as the genus part of the monitor holds -/
theorem symbolExact_of_genus {s : Sym} (g : Good2d s) (hmon : genusMonitor s = true) :
    ∃ o, SymbolExact s o := by
  obtain ⟨y, rep⟩ := s
  have hval : ValidSym y := g.valid
  have hdim : y.dim = 2 := g.dim
  obtain ⟨bnds, htb, hperm⟩ := traceBoundary_corners hval hdim rep
  unfold genusMonitor at hmon
  rw [htb] at hmon
  split at hmon
  · rename_i bnds' o htb' hos
    cases htb'
    simp only [Bool.and_eq_true, beq_iff_eq, Bool.or_eq_true, Bool.not_eq_eq_eq_not, Bool.not_true] at hmon
    obtain ⟨hpar, hori⟩ := hmon
    have hos' := hos
    unfold orbifoldSymbol at hos'
    rw [if_neg (by simp [g.dim]), if_neg (by
      have : (⟨y, rep⟩ : Sym).isComplete = true := by
        cases rep
        · exact g.complete
        · rfl
      simp [this]), htb, coneDegrees_good g] at hos'
    simp only at hos'
    split at hos'
    · cases hos'
    · rename_i hx
      have ho := (Outcome.ok.inj hos').symm
      refine ⟨o, ⟨hos, ?_, ?_, ?_⟩, ?_⟩
      · rw [ho]; exact sortDescNat_perm _
      · rw [ho]; exact hperm
      · rw [ho]
        simp only
        by_cases hw : (⟨y, rep⟩ : Sym).view.isWeaklyOriented = true
        · simp only [hw, if_true]
          have hp : (2 - (eulerCharacteristic ⟨y, rep⟩ + (bnds.length : Int))) % 2 = 0 := by
            rcases hpar with hp | hp
            · rw [ho] at hp; simp only at hp; rw [hw] at hp; cases hp
            · exact hp
          omega
        · simp only [hw]
          simp only [Bool.false_eq_true, if_false]
          omega
      · rw [ho]
        simp only
        rw [← hori, ho]
        simp only
        cases (⟨y, rep⟩ : Sym).view.isWeaklyOriented <;> simp
  · cases hmon

/-- the census part needs the parity monitor only -/
theorem symbolCensus_of_parity {s : Sym} (g : Good2d s) (hmon : parityMonitor s = true) :
    ∃ o, SymbolCensus s o := by
  obtain ⟨y, rep⟩ := s
  have hval : ValidSym y := g.valid
  have hdim : y.dim = 2 := g.dim
  obtain ⟨bnds, htb, hperm⟩ := traceBoundary_corners hval hdim rep
  unfold parityMonitor at hmon
  rw [htb] at hmon
  split at hmon
  · rename_i bnds' o htb' hos
    cases htb'
    simp only [Bool.or_eq_true, Bool.not_eq_eq_eq_not, Bool.not_true, beq_iff_eq] at hmon
    have hos' := hos
    rw [orbifoldSymbol_unfold' g htb] at hos'
    split at hos'
    · cases hos'
    · rename_i hx
      have ho := (Outcome.ok.inj hos').symm
      refine ⟨o, hos, ?_, ?_, ?_⟩
      · rw [ho]; exact sortDescNat_perm _
      · rw [ho]; exact hperm
      · rw [ho]
        simp only
        by_cases hw : (⟨y, rep⟩ : Sym).view.isWeaklyOriented = true
        · simp only [hw, if_true]
          have hp : (2 - (eulerCharacteristic ⟨y, rep⟩ + (bnds.length : Int))) % 2 = 0 := by
            rcases hmon with hp | hp
            · rw [ho] at hp; simp only at hp; rw [hw] at hp; cases hp
            · exact hp
          omega
        · simp only [hw]
          simp only [Bool.false_eq_true, if_false]
          omega
  · cases hmon

/-- non-orientable symbols: the parity monitor holds whenever the symbol is defined -/
theorem parity_of_nonorientable {s : Sym} (g : Good2d s) {o : OrbSym} (hos : orbifoldSymbol s = .ok o)
    (hno : o.orientable = false) : parityMonitor s = true := by
  obtain ⟨bnds, htb, _⟩ := traceBoundary_corners g.valid g.dim s.rep
  have htb' : traceBoundary s = .ok bnds := htb
  unfold parityMonitor
  rw [htb', hos]
  simp [hno]

/-- the genus monitor implies the parity monitor -/
theorem parity_of_genus {s : Sym} (h : genusMonitor s = true) : parityMonitor s = true := by
  unfold genusMonitor at h
  unfold parityMonitor
  split at h
  · rename_i bnds o htb hos
    simp only [Bool.and_eq_true] at h
    exact h.1
  · cases h

/-- the full monitor implies its genus part -/
theorem genus_of_symbolExact {s : Sym} (hex : symbolExact s = true) : genusMonitor s = true := by
  unfold symbolExact at hex
  unfold genusMonitor
  split at hex
  · rename_i bnds corners o htb hcd hos
    rw [htb, hos]
    simp only [Bool.and_eq_true] at hex ⊢
    exact ⟨hex.1.2, hex.2⟩
  · cases hex

end DSymVerif.D2
