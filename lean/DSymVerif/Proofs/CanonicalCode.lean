/-
Helper lemmas for property C03, part 5: what `TraversalCode` writes, as an explicit function
of the list of traversal items.

`targetsOf L`   the chambers in the order in which `advance()` numbers them (targets of the
                items, first occurrences);
`numOf T y`     position of `y` in `T`, counted from 1 (0 if absent) — the final `element_map`;
`encode m v dim L T`  the buffer: per item a header `[i, m src, m tgt]` / `[-1, m src]`, followed
                by the `dim` branching numbers of the target when the target is new.
`codeFold_spec` `codeFold` over a well-formed item list does not panic, ends with
                `element_map = numOf (targetsOf L)` and `buffer = encode …`.
-/
import DSymVerif.Proofs.CanonicalMin

namespace DSymVerif.DS
namespace CanonP

open View

/-! ### numbering by first occurrence -/

def numOf (T : List Nat) (y : Nat) : Nat := if y ∈ T then T.idxOf y + 1 else 0

def addT (T : List Nat) (t : Nat) : List Nat := if t ∈ T then T else T ++ [t]

def targetsOf : List TravItem → List Nat → List Nat
  | [], T => T
  | it :: rest, T => targetsOf rest (addT T it.2.2)

theorem numOf_of_mem {T : List Nat} {y : Nat} (h : y ∈ T) : numOf T y = T.idxOf y + 1 := by
  unfold numOf; rw [if_pos h]

theorem numOf_of_not_mem {T : List Nat} {y : Nat} (h : y ∉ T) : numOf T y = 0 := by
  unfold numOf; rw [if_neg h]

theorem numOf_eq_zero_iff {T : List Nat} {y : Nat} : numOf T y = 0 ↔ y ∉ T := by
  unfold numOf; split <;> simp_all

theorem numOf_le {T : List Nat} {y : Nat} : numOf T y ≤ T.length := by
  unfold numOf
  split
  · rename_i h; have := List.idxOf_lt_length_of_mem h; omega
  · omega

theorem numOf_append_of_mem {T X : List Nat} {y : Nat} (h : y ∈ T) : numOf (T ++ X) y = numOf T y := by
  rw [numOf_of_mem (List.mem_append_left _ h), numOf_of_mem h, List.idxOf_append, if_pos h]

theorem numOf_append_single {T : List Nat} {t y : Nat} (ht : t ∉ T) :
    numOf (T ++ [t]) y = if y = t then T.length + 1 else numOf T y := by
  by_cases hy : y ∈ T
  · rw [numOf_append_of_mem hy, if_neg (fun h : y = t => ht (h ▸ hy))]
  · by_cases hyt : y = t
    · subst hyt
      rw [if_pos rfl, numOf_of_mem (by simp), List.idxOf_append, if_neg hy]
      simp
    · rw [if_neg hyt, numOf_of_not_mem hy, numOf_of_not_mem (by simp [hy, hyt])]

theorem numOf_inj {T : List Nat} {x y : Nat} (hx : x ∈ T) (hy : y ∈ T) (h : numOf T x = numOf T y) : x = y := by
  rw [numOf_of_mem hx, numOf_of_mem hy] at h
  exact (List.idxOf_inj hx).1 (by omega)

theorem addT_ext (T : List Nat) (t : Nat) : ∃ X, addT T t = T ++ X := by
  unfold addT; split
  · exact ⟨[], by simp⟩
  · exact ⟨[t], rfl⟩

theorem mem_addT {T : List Nat} {t y : Nat} : y ∈ addT T t ↔ y ∈ T ∨ y = t := by
  unfold addT; split
  · rename_i h
    constructor
    · exact Or.inl
    · rintro (h' | rfl)
      · exact h'
      · exact h
  · simp

theorem addT_nodup {T : List Nat} {t : Nat} (h : T.Nodup) : (addT T t).Nodup := by
  unfold addT; split
  · exact h
  · rename_i ht
    rw [List.nodup_append]
    refine ⟨h, by simp, ?_⟩
    intro a ha b hb
    simp only [List.mem_singleton] at hb
    subst hb
    intro hab; subst hab; exact ht ha

theorem targetsOf_ext : ∀ (L : List TravItem) (T : List Nat), ∃ X, targetsOf L T = T ++ X
  | [], T => ⟨[], by simp [targetsOf]⟩
  | it :: rest, T => by
    obtain ⟨X1, h1⟩ := addT_ext T it.2.2
    obtain ⟨X2, h2⟩ := targetsOf_ext rest (addT T it.2.2)
    exact ⟨X1 ++ X2, by rw [targetsOf, h2, h1, List.append_assoc]⟩

theorem mem_targetsOf : ∀ (L : List TravItem) (T : List Nat) (y : Nat),
    y ∈ targetsOf L T ↔ y ∈ T ∨ ∃ it ∈ L, it.2.2 = y
  | [], T, y => by simp [targetsOf]
  | it :: rest, T, y => by
    rw [targetsOf, mem_targetsOf rest, mem_addT]
    simp only [List.mem_cons, exists_eq_or_imp]
    constructor
    · rintro ((h | h) | h)
      · exact Or.inl h
      · exact Or.inr (Or.inl h.symm)
      · exact Or.inr (Or.inr h)
    · rintro (h | h | h)
      · exact Or.inl (Or.inl h)
      · exact Or.inl (Or.inr h.symm)
      · exact Or.inr h

theorem targetsOf_nodup : ∀ (L : List TravItem) (T : List Nat), T.Nodup → (targetsOf L T).Nodup
  | [], _, h => h
  | it :: rest, T, h => targetsOf_nodup rest _ (addT_nodup h)

/-- numbers of already numbered chambers never change -/
theorem numOf_targetsOf_of_mem (L : List TravItem) {T : List Nat} {y : Nat} (h : y ∈ T) :
    numOf (targetsOf L T) y = numOf T y := by
  obtain ⟨X, hX⟩ := targetsOf_ext L T
  rw [hX, numOf_append_of_mem h]

/-! ### the written buffer -/

def vrow (v : Nat → Nat → Option Nat) (dim t : Nat) : List Int :=
  (List.range dim).map (fun i => (((v i t).getD 0 : Nat) : Int))

def hdr (m : Nat → Nat) (it : TravItem) : List Int :=
  match it.1 with
  | some i => [(i : Int), (m it.2.1 : Int), (m it.2.2 : Int)]
  | none => [-1, (m it.2.1 : Int)]

def encode (m : Nat → Nat) (v : Nat → Nat → Option Nat) (dim : Nat) : List TravItem → List Nat → List Int
  | [], _ => []
  | it :: rest, T =>
    hdr m it ++ (if it.2.2 ∈ T then [] else vrow v dim it.2.2) ++ encode m v dim rest (addT T it.2.2)

theorem pushVs_ok {v : Nat → Nat → Option Nat} {t : Nat} :
    ∀ (is : List Nat) (buf : Array Int), (∀ i ∈ is, ∃ x, v i t = some x) →
      ∃ buf', pushVs v t is buf = .ok buf' ∧
        buf'.toList = buf.toList ++ is.map (fun i => (((v i t).getD 0 : Nat) : Int))
  | [], buf, _ => ⟨buf, rfl, by simp⟩
  | i :: is, buf, h => by
    obtain ⟨x, hx⟩ := h i (List.mem_cons_self ..)
    obtain ⟨buf', h1, h2⟩ := pushVs_ok is (buf.push (x : Int)) (fun j hj => h j (List.mem_cons_of_mem _ hj))
    refine ⟨buf', ?_, ?_⟩
    · rw [pushVs, hx]; exact h1
    · rw [h2, List.map_cons, hx]
      simp

/-- state of the `TraversalCode` after the chambers `T` have been numbered (n = size) -/
structure SI (n : Nat) (T : List Nat) (st : CodeState) : Prop where
  size : st.emap.size = n + 1
  next : st.next = T.length + 1
  emap : ∀ y, y ≤ n → st.emap.getD y 0 = numOf T y
  nodup : T.Nodup
  le : ∀ y ∈ T, y ≤ n

theorem SI.init (n : Nat) : SI n [] (CodeState.init n) := by
  refine ⟨by simp [CodeState.init], rfl, ?_, List.nodup_nil, fun y hy => by cases hy⟩
  intro y _
  show (Array.replicate (n + 1) 0).getD y 0 = _
  rw [getD_replicate, numOf_of_not_mem (by simp)]

/-- one `advance()` on a well-formed item -/
theorem codeAdvance_spec {n dim : Nat} {v : Nat → Nat → Option Nat} {T : List Nat} {st : CodeState}
    (inv : SI n T st) (it : TravItem) (hs : it.2.1 ≤ n) (ht : it.2.2 ≤ n)
    (hsrc : it.2.1 ∈ addT T it.2.2) (hv : ∀ i, i < dim → ∃ x, v i it.2.2 = some x) :
    ∃ st', codeAdvance dim v st it = .ok st' ∧ SI n (addT T it.2.2) st' ∧
      st'.buf.toList = st.buf.toList ++ hdr (numOf (addT T it.2.2)) it ++
        (if it.2.2 ∈ T then [] else vrow v dim it.2.2) := by
  obtain ⟨mi, src, tgt⟩ := it
  simp only at hs ht hsrc hv
  have htl : tgt < st.emap.size := by rw [inv.size]; omega
  have hsl : src < st.emap.size := by rw [inv.size]; omega
  have e0 : st.emap[tgt]? = some (numOf T tgt) := by
    rw [getElem?_eq_some_getD st.emap tgt 0 htl, inv.emap tgt ht]
  unfold codeAdvance
  simp only [e0]
  by_cases hmem : tgt ∈ T
  · -- already numbered
    have hne : numOf T tgt ≠ 0 := fun h => (numOf_eq_zero_iff.1 h) hmem
    have hadd : addT T tgt = T := by unfold addT; rw [if_pos hmem]
    rw [if_neg hne, if_neg hne]
    have e1 : st.emap[src]? = some (numOf T src) := by
      rw [getElem?_eq_some_getD st.emap src 0 hsl, inv.emap src hs]
    simp only [e1]
    have hlt : numOf T tgt ≠ st.next := by
      have := numOf_le (T := T) (y := tgt); rw [inv.next]; omega
    rw [if_neg hlt]
    refine ⟨_, rfl, by rw [hadd]; exact ⟨inv.size, inv.next, inv.emap, inv.nodup, inv.le⟩, ?_⟩
    rw [hadd, if_pos hmem, List.append_nil]
    cases mi with
    | none => simp [hdr]
    | some i => simp [hdr]
  · -- new chamber
    have hz : numOf T tgt = 0 := numOf_of_not_mem hmem
    have hadd : addT T tgt = T ++ [tgt] := by unfold addT; rw [if_neg hmem]
    rw [if_pos hz, if_pos hz]
    have hnew : ∀ y, y ≤ n → (st.emap.setIfInBounds tgt st.next).getD y 0 = numOf (T ++ [tgt]) y := by
      intro y hy
      rw [getD_setIfInBounds, numOf_append_single hmem, inv.next]
      by_cases hyt : y = tgt
      · subst hyt; rw [if_pos ⟨rfl, htl⟩, if_pos rfl]
      · rw [if_neg (fun h => hyt h.1.symm), if_neg hyt, inv.emap y hy]
    have e1 : (st.emap.setIfInBounds tgt st.next)[src]? = some (numOf (T ++ [tgt]) src) := by
      rw [getElem?_eq_some_getD _ src 0 (by simpa using hsl), hnew src hs]
    simp only [e1]
    rw [if_pos trivial]
    have hnt : numOf (T ++ [tgt]) tgt = st.next := by
      rw [numOf_append_single hmem, if_pos rfl, inv.next]
    have hsi : ∀ buf', SI n (addT T tgt)
        { next := st.next + 1, emap := st.emap.setIfInBounds tgt st.next, buf := buf' } := by
      intro buf'
      rw [hadd]
      refine ⟨by simp [inv.size], by simp [inv.next], hnew, ?_, ?_⟩
      · have := addT_nodup (t := tgt) inv.nodup; rw [hadd] at this; exact this
      · intro y hy
        rcases List.mem_append.1 hy with h | h
        · exact inv.le y h
        · simp only [List.mem_singleton] at h; subst h; exact ht
    cases mi with
    | none =>
      simp only
      obtain ⟨buf', hb1, hb2⟩ := pushVs_ok (v := v) (t := tgt) (List.range dim)
        ((st.buf.push (-1)).push ((numOf (T ++ [tgt]) src : Nat) : Int))
        (fun i hi => hv i (List.mem_range.1 hi))
      rw [hb1]
      refine ⟨_, rfl, hsi buf', ?_⟩
      rw [hadd, if_neg hmem]
      show buf'.toList = _
      rw [hb2]
      simp [hdr, vrow]
    | some i =>
      simp only
      obtain ⟨buf', hb1, hb2⟩ := pushVs_ok (v := v) (t := tgt) (List.range dim)
        (((st.buf.push (i : Int)).push ((numOf (T ++ [tgt]) src : Nat) : Int)).push ((st.next : Nat) : Int))
        (fun i hi => hv i (List.mem_range.1 hi))
      rw [hb1]
      refine ⟨_, rfl, hsi buf', ?_⟩
      rw [hadd, if_neg hmem]
      show buf'.toList = _
      rw [hb2]
      simp [hdr, vrow, hnt]

/-- an item list is well formed relative to the already numbered chambers `T`: every source
    and target is at most `n`, has its branching numbers defined, and every source is already
    numbered, or is the target of an earlier item, or is its own target -/
def ItemsOK (n dim : Nat) (v : Nat → Nat → Option Nat) : List TravItem → List Nat → Prop
  | [], _ => True
  | it :: rest, T =>
    it.2.1 ≤ n ∧ it.2.2 ≤ n ∧ it.2.1 ∈ addT T it.2.2 ∧ (∀ i, i < dim → ∃ x, v i it.2.2 = some x) ∧
      ItemsOK n dim v rest (addT T it.2.2)

theorem hdr_congr {m m' : Nat → Nat} {it : TravItem} (h1 : m it.2.1 = m' it.2.1) (h2 : m it.2.2 = m' it.2.2) :
    hdr m it = hdr m' it := by
  unfold hdr; rw [h1, h2]

/-- **what `TraversalCode` writes**: over a well-formed item list the fold does not panic, the
    final element map is the numbering by first occurrence of the targets, and the buffer is
    `encode` with that numbering -/
theorem codeFold_spec {n dim : Nat} {v : Nat → Nat → Option Nat} :
    ∀ (L : List TravItem) (T : List Nat) (st : CodeState), SI n T st → ItemsOK n dim v L T →
      ∃ fin, codeFold dim v L st = .ok fin ∧ SI n (targetsOf L T) fin ∧
        fin.buf.toList = st.buf.toList ++ encode (numOf (targetsOf L T)) v dim L T
  | [], T, st, inv, _ => ⟨st, rfl, inv, by simp [encode]⟩
  | it :: rest, T, st, inv, hok => by
    obtain ⟨hs, ht, hsrc, hv, hrest⟩ := hok
    obtain ⟨st', h1, inv', hbuf⟩ := codeAdvance_spec inv it hs ht hsrc hv
    obtain ⟨fin, h2, invf, hbuf2⟩ := codeFold_spec rest (addT T it.2.2) st' inv' hrest
    refine ⟨fin, by rw [codeFold, h1]; exact h2, invf, ?_⟩
    rw [hbuf2, hbuf, targetsOf, encode]
    have e1 : numOf (targetsOf rest (addT T it.2.2)) it.2.1 = numOf (addT T it.2.2) it.2.1 :=
      numOf_targetsOf_of_mem rest hsrc
    have e2 : numOf (targetsOf rest (addT T it.2.2)) it.2.2 = numOf (addT T it.2.2) it.2.2 :=
      numOf_targetsOf_of_mem rest (mem_addT.2 (Or.inr rfl))
    rw [hdr_congr e1 e2]
    simp only [List.append_assoc]

end CanonP
end DSymVerif.DS
