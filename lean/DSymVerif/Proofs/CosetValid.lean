/-
C11 `coset_table_valid_partial`: whenever the modelled `coset_table` returns a table, its
public view satisfies the mathematical content of the Spec (`CosetP.Valid`): completeness
from the main loop's exit condition, relator and subgroup-generator closure from the closing
pass's exit condition, inverse consistency from the coincidence invariant, transitivity from
the creation edges, base coset = row 0 from the numbering of `compact()`.
-/
import DSymVerif.Proofs.CosetCompact
import DSymVerif.Proofs.CosetReps
import DSymVerif.Proofs.Rebase
import DSymVerif.Proofs.CosetExpand

namespace DSymVerif.CosetInvP
open DSymVerif DSymVerif.Cosets DSymVerif.LowIndexP DSymVerif.CosetPartP DSymVerif.SpecC11

/-! ### the public view of a complete table -/

/-- the view as a Spec table -/
def viewTab (v : List (List Int)) : Tab := (v.map List.toArray).toArray

theorem viewRow_ok (t : Table) (j : Nat) (E : Int → Nat) : ∀ (gs : List Int),
    (∀ g ∈ gs, t.get j g = .ok (some (E g))) → t.viewRow j gs = .ok (gs.map fun g => ((E g : Nat) : Int))
  | [], _ => rfl
  | g :: gs, h => by
    simp only [Table.viewRow, h g (by simp), viewRow_ok t j E gs (fun g' h' => h g' (by simp [h'])),
      List.map_cons]

theorem viewRows_ok (t : Table) (E : Nat → Int → Nat) : ∀ (js : List Nat),
    (∀ j ∈ js, ∀ g ∈ t.allGens, t.get j g = .ok (some (E j g))) →
    t.viewRows js = .ok (js.map fun j => t.allGens.map fun g => ((E j g : Nat) : Int))
  | [], _ => rfl
  | j :: js, h => by
    simp only [Table.viewRows, viewRow_ok t j (E j) t.allGens (h j (by simp)),
      viewRows_ok t E js (fun j' h' => h j' (by simp [h'])), List.map_cons]

/-- entries of the Spec table built from the view of a complete table -/
theorem entry_viewTab {n m : Nat} (E : Nat → Int → Nat) (hE : ∀ j, j < m → ∀ g ∈ allGensOf n, E j g < m)
    {j : Nat} (hj : j < m) {g : Int} (hg : g ∈ allGensOf n) :
    entry (viewTab ((List.range m).map fun j => (allGensOf n).map fun g => ((E j g : Nat) : Int))) n j g
      = some (E j g) := by
  have hgl : g ∈ letters n := by rw [← CosetP.allGensOf_eq_letters]; exact hg
  obtain ⟨idx, hidx⟩ := Option.isSome_iff_exists.mp (CosetP.col_isSome.mpr hgl)
  have hsize : (viewTab ((List.range m).map fun j => (allGensOf n).map fun g => ((E j g : Nat) : Int))).size = m := by
    simp [viewTab]
  have hrow : (viewTab ((List.range m).map fun j => (allGensOf n).map fun g => ((E j g : Nat) : Int)))[j]? =
      some ((allGensOf n).map fun g => ((E j g : Nat) : Int)).toArray := by
    simp [viewTab, hj]
  have hv : (((allGensOf n).map fun g => ((E j g : Nat) : Int)).toArray)[idx]? = some ((E j g : Nat) : Int) := by
    rw [CosetP.allGensOf_eq_letters]
    simp only [List.getElem?_toArray, List.getElem?_map, RebaseP.letters_col hidx, Option.map_some]
  rw [RebaseP.entry_of_row hidx hrow hv, hsize]
  have h1 := hE j hj g hg
  have h0 : (0 : Int) ≤ ((E j g : Nat) : Int) := Int.natCast_nonneg _
  have h2 : ((E j g : Nat) : Int) < (m : Int) := by exact_mod_cast h1
  rw [if_pos ⟨h0, h2⟩]
  simp


/-! ### the enumeration before `compact()` -/

theorem new_get (n c : Nat) {g : Int} (hg : g ∈ allGensOf n) : (Table.new n).get c g = .ok none := by
  by_cases hc : c = 0
  · subst hc
    exact get_blank (t := Table.new n) hg (by simp [Table.new])
  · exact get_ge_len g (by simp [Table.len, Table.new]; omega)

theorem tcq_new (n : Nat) : TCq (Table.new n) [] := by
  refine ⟨⟨wfp_new, by simp [Part.new, Table.new], by simp [Table.len, Table.new], ?_, ?_⟩, ?_, ?_,
    fun p hp => by cases hp⟩
  · intro c row hx
    simp only [Table.new] at hx
    by_cases h0 : c = 0
    · subst h0
      simp at hx
      rw [← hx]; simp [blankRow, Table.new]
    · have : (#[blankRow n] : Array (Array Int))[c]? = none := by
        apply Array.getElem?_eq_none; simp; omega
      rw [this] at hx; cases hx
  · intro c g d hg h
    rw [new_get n c hg] at h; cases h
  · intro x g d hg h
    rw [new_get n x hg] at h; cases h
  · intro m h0 hm
    simp [Table.len, Table.new] at hm
    omega

/-- what the two loops of `coset_table` establish before `compact()` -/
theorem cosetTableRaw_final {n : Nat} {rels subs : List (List Int)} {T : Table}
    (hr : ∀ w ∈ rels, ∀ x ∈ w, x ∈ allGensOf n) (hs : ∀ w ∈ subs, ∀ x ∈ w, x ∈ allGensOf n)
    (h : cosetTableRaw n rels subs = .ok T) :
    TCq T [] ∧ AllComplete T ∧ Closed T rels subs ∧ T.nrGens = n := by
  unfold cosetTableRaw at h
  cases hm : mainLoop (expandedRelatorSet rels) subs (rowLimit + 1) 0 (Table.new n) with
  | ok T0 =>
    simp only [hm] at h
    have hexp : ∀ w ∈ expandedRelatorSet rels, WordOK (Table.new n) w :=
      expandedRelatorSet_letters (S := fun x => x ∈ allGensOf n) (fun x hx => neg_mem_allGensOf hx) hr
    obtain ⟨a1, a2, a3⟩ := mainLoop_spec (rowLimit + 1) 0 (Table.new n) T0 (tcq_new n) hexp
      (fun w hw => hs w hw) (fun c hc => by omega) hm
    obtain ⟨b1, b2, b3, b4⟩ := closeLoop_spec (T0.len + 1) T0 T a1
      (fun w hw => WordOK.step a2 (a := Table.new n) (fun x hx => hr w hw x hx))
      (fun w hw => WordOK.step a2 (a := Table.new n) (fun x hx => hs w hw x hx)) a3 h
    exact ⟨b1, b3, b4, by rw [b2.1.1, a2.1.1]; rfl⟩
  | err => simp [hm] at h
  | panic => simp [hm] at h

theorem scanAndMerge_canon {t : Table} (s : Shape t) (w : List Int) (i : Nat) :
    scanAndMerge t w (t.canon i) = scanAndMerge t w i := by
  unfold scanAndMerge
  rw [canon_idem s]


/-! ### the compacted table passes the Spec -/

theorem traceWord_of_entries {tab : Tab} {n : Nat} {T : Table} {φ : Nat → Nat}
    (hent : ∀ k g c, g ∈ T.allGens → T.canon k = k → k < T.len → T.get k g = .ok (some c) →
      entry tab n (φ k) g = some (φ c))
    (s : Shape T) : ∀ (w : List Int) (k k' : Nat), WordOK T w → T.canon k = k → k < T.len →
      mtrace T k w = some k' → traceWord tab n (φ k) w = some (φ k')
  | [], k, k', _, _, _, h => by
    simp only [mtrace, Option.some.injEq] at h
    subst h; rfl
  | g :: w, k, k', hw, hk, hkl, h => by
    simp only [mtrace] at h
    cases hg : T.get k g with
    | ok o =>
      cases o with
      | none => simp [hg] at h
      | some c =>
        simp only [hg] at h
        have hgm := hw g (by simp)
        simp only [traceWord, hent k g c hgm hk hkl hg]
        exact traceWord_of_entries hent s w c k' (fun x hx => hw x (by simp [hx]))
          (get_canon s hg) (s.range k g c hgm hg) h
    | err => simp [hg] at h
    | panic => simp [hg] at h

/-- `compact()` of a complete table without pending coincidences in which the relators close
    at every canonical row and the subgroup generators at the base row: its public view
    satisfies the mathematical content of the Spec, and it has at most as many rows -/
theorem compact_view_valid {n : Nat} {rels subs : List (List Int)} {T t : Table} (inv : TCq T [])
    (hcomp : AllComplete T) (hn : T.nrGens = n)
    (hr : ∀ w ∈ rels, ∀ x ∈ w, x ∈ allGensOf n) (hs : ∀ w ∈ subs, ∀ x ∈ w, x ∈ allGensOf n)
    (hrel : ∀ w ∈ rels, ∀ k, T.canon k = k → k < T.len → mtrace T k w = some k)
    (hsub : ∀ w ∈ subs, mtrace T (T.canon 0) w = some (T.canon 0))
    (h : T.compact = .ok t) :
    ∃ (v : List (List Int)) (φ : Nat → Nat), t.view = .ok v ∧ CosetP.Valid (viewTab v) n rels subs ∧ (viewTab v).size ≤ T.len ∧
      φ (T.canon 0) = 0 ∧
      (∀ k g c, g ∈ T.allGens → T.canon k = k → k < T.len → T.get k g = .ok (some c) →
        entry (viewTab v) n (φ k) g = some (φ c)) ∧
      (∀ k k', T.canon k = k → k < T.len → T.canon k' = k' → k' < T.len → φ k = φ k' → k = k') := by
  obtain ⟨o2n, m, num, h0, c1, c2, c3, c4, c5⟩ := compact_spec inv hcomp h
  have hgens : T.allGens = allGensOf n := by unfold Table.allGens; rw [hn]
  have hgens' : t.allGens = allGensOf n := by unfold Table.allGens; rw [c1, hn]
  have hm1 : 1 ≤ m := by have := (num.sound _ _ h0).2; omega
  -- the numbering as functions
  let φ : Nat → Nat := fun k => match o2n[k]? with
    | some (some j) => j
    | _ => 0
  have hφ : ∀ k j, o2n[k]? = some (some j) → φ k = j := fun k j hk => by simp only [φ, hk]
  have hlive : ∀ k, T.canon k = k → k < T.len → o2n[k]? = some (some (φ k)) ∧ φ k < m := by
    intro k hk hkl
    obtain ⟨j, hj⟩ := num.total k hkl
    rw [hk] at hj
    rw [hφ k j hj]
    exact ⟨hj, (num.sound k j hj).2⟩
  have hsurj : ∀ j, j < m → ∃ k, T.canon k = k ∧ k < T.len ∧ φ k = j := by
    intro j hj
    obtain ⟨k, hk⟩ := num.surj j hj
    have hkl : k < T.len := by
      by_contra hx
      rw [Array.getElem?_eq_none (by rw [num.size]; omega)] at hk; cases hk
    exact ⟨k, (num.sound k j hk).1, hkl, hφ k j hk⟩
  have hinj : ∀ k k', T.canon k = k → k < T.len → T.canon k' = k' → k' < T.len → φ k = φ k' → k = k' := by
    intro k k' a1 a2 b1 b2 e
    have h1 := (hlive k a1 a2).1
    have h2 := (hlive k' b1 b2).1
    rw [e] at h1
    exact num.inj k k' _ h1 h2
  have hφ0 : φ (T.canon 0) = 0 := hφ _ _ h0
  -- entries of the compacted table
  have hentT : ∀ k g c, g ∈ T.allGens → T.canon k = k → k < T.len → T.get k g = .ok (some c) →
      t.get (φ k) g = .ok (some (φ c)) ∧ φ c < m := by
    intro k g c hg hk hkl hget
    have hc := get_canon inv.shape hget
    have hcl := inv.shape.range k g c hg hget
    exact ⟨c5 k g c _ _ hg hk hkl hget (hlive k hk hkl).1 (hlive c hc hcl).1, (hlive c hc hcl).2⟩
  -- the entry function of the compacted table
  have hE : ∀ j, j < m → ∀ g ∈ allGensOf n, ∃ e, t.get j g = .ok (some e) ∧ e < m := by
    intro j hj g hg
    obtain ⟨k, hk, hkl, rfl⟩ := hsurj j hj
    obtain ⟨c, hc⟩ := (get_some_iff T k g).mpr (hcomp k hkl hk g (by rw [hgens]; exact hg))
    obtain ⟨e1, e2⟩ := hentT k g c (by rw [hgens]; exact hg) hk hkl hc
    exact ⟨φ c, e1, e2⟩
  let E : Nat → Int → Nat := fun j g => match t.get j g with
    | .ok (some e) => e
    | _ => 0
  have hEget : ∀ j, j < m → ∀ g ∈ allGensOf n, t.get j g = .ok (some (E j g)) ∧ E j g < m := by
    intro j hj g hg
    obtain ⟨e, he, hem⟩ := hE j hj g hg
    have : E j g = e := by simp only [E, he]
    rw [this]; exact ⟨he, hem⟩
  have hview : t.view = .ok ((List.range m).map fun j => (allGensOf n).map fun g => ((E j g : Nat) : Int)) := by
    unfold Table.view
    rw [c4, viewRows_ok t E (List.range m) (fun j hj g hg => by
      rw [hgens'] at hg
      exact (hEget j (List.mem_range.mp hj) g hg).1), hgens']
  have hmle : m ≤ T.len := by
    by_contra hgt
    -- more numbers than rows is impossible: the numbering is injective on rows
    have hinjN : ∀ j, j < m → ∃ k, k < T.len ∧ φ k = j := fun j hj => by
      obtain ⟨k, _, hkl, hk⟩ := hsurj j hj; exact ⟨k, hkl, hk⟩
    let f : Fin m → Fin T.len := fun j => ⟨(hinjN j.val j.isLt).choose, (hinjN j.val j.isLt).choose_spec.1⟩
    have hf : Function.Injective f := by
      intro a b hab
      have e1 := (hinjN a.val a.isLt).choose_spec.2
      have e2 := (hinjN b.val b.isLt).choose_spec.2
      have : (hinjN a.val a.isLt).choose = (hinjN b.val b.isLt).choose := congrArg Fin.val hab
      apply Fin.ext
      rw [← e1, ← e2, this]
    have := Fintype.card_le_of_injective f hf
    simp at this
    omega
  have hsz0 : (viewTab ((List.range m).map fun j => (allGensOf n).map fun g => ((E j g : Nat) : Int))).size = m := by
    simp [viewTab]
  set tab := viewTab ((List.range m).map fun j => (allGensOf n).map fun g => ((E j g : Nat) : Int)) with htab
  have hsize : tab.size = m := by simp [htab, viewTab]
  have hentry : ∀ j, j < m → ∀ g ∈ allGensOf n, entry tab n j g = some (E j g) := fun j hj g hg =>
    entry_viewTab E (fun j' hj' g' hg' => (hEget j' hj' g' hg').2) hj hg
  have hent : ∀ k g c, g ∈ T.allGens → T.canon k = k → k < T.len → T.get k g = .ok (some c) →
      entry tab n (φ k) g = some (φ c) := by
    intro k g c hg hk hkl hget
    obtain ⟨e1, _⟩ := hentT k g c hg hk hkl hget
    have hj := (hlive k hk hkl).2
    rw [hentry _ hj g (by rw [← hgens]; exact hg)]
    have := (hEget _ hj g (by rw [← hgens]; exact hg)).1
    rw [e1] at this
    injection this with this; injection this with this
    rw [this]
  refine ⟨_, φ, hview, ?_, by rw [hsz0]; exact hmle, hφ0, hent, hinj⟩
  have hlet : ∀ g, g ∈ letters n ↔ g ∈ allGensOf n := fun g => by rw [CosetP.allGensOf_eq_letters]
  have hwr : ∀ w ∈ rels, WordOK T w := fun w hw x hx => by rw [hgens]; exact hr w hw x hx
  have hws : ∀ w ∈ subs, WordOK T w := fun w hw x hx => by rw [hgens]; exact hs w hw x hx
  refine ⟨by rw [hsize]; omega, ?_, ?_, ?_, ?_, ?_⟩
  · intro c hc g hg
    rw [hsize] at hc
    exact ⟨_, hentry c hc g ((hlet g).mp hg)⟩
  · intro c g d he
    obtain ⟨_, hc, hg⟩ := CosetP.entry_some he
    rw [hsize] at hc
    obtain ⟨k, hk, hkl, rfl⟩ := hsurj c hc
    have hgT : g ∈ T.allGens := by rw [hgens]; exact (hlet g).mp hg
    obtain ⟨c', hc'⟩ := (get_some_iff T k g).mpr (hcomp k hkl hk g hgT)
    rw [hent k g c' hgT hk hkl hc'] at he
    injection he with he
    subst he
    have hback := invCan_of_tcq inv hgT hk hc'
    exact hent c' (-g) k (neg_mem_allGensOf hgT) (get_canon inv.shape hc')
      (inv.shape.range k g c' hgT hc') hback
  · intro r hrm c hc
    rw [hsize] at hc
    obtain ⟨k, hk, hkl, rfl⟩ := hsurj c hc
    exact traceWord_of_entries hent inv.shape r k k (hwr r hrm) hk hkl (hrel r hrm k hk hkl)
  · intro s hsm
    have := hsub s hsm
    have h2 := traceWord_of_entries hent inv.shape s _ _ (hws s hsm) (canon_idem inv.shape 0)
      (canon_lt inv.shape inv.shape.pos) this
    rw [hφ0] at h2
    exact h2
  · intro c hc
    rw [hsize] at hc
    obtain ⟨k, hk, hkl, rfl⟩ := hsurj c hc
    obtain ⟨w, hw, hp⟩ := reach_of_tcq inv hk hkl
    have h2 := traceWord_of_entries hent inv.shape w _ _ hw (canon_idem inv.shape 0)
      (canon_lt inv.shape inv.shape.pos) hp
    rw [hφ0] at h2
    exact ⟨w, h2⟩

/-- **`coset_table_valid_partial`**: whenever the modelled `coset_table` returns a table (no
    panic, no fuel exhaustion) for words over the letters `±1..±n`, its public view satisfies
    the mathematical content of the Spec: every entry defined and in range, the inverse
    letter acts as the inverse map, every relator closes at every row, every subgroup
    generator fixes row 0, and every row is reached from row 0. -/
theorem cosetTable_valid {n : Nat} {rels subs : List (List Int)} {t : Table}
    (hr : ∀ w ∈ rels, ∀ x ∈ w, x ∈ allGensOf n) (hs : ∀ w ∈ subs, ∀ x ∈ w, x ∈ allGensOf n)
    (h : cosetTable n rels subs = .ok t) :
    ∃ v, t.view = .ok v ∧ CosetP.Valid (viewTab v) n rels subs := by
  unfold cosetTable at h
  cases hraw : cosetTableRaw n rels subs with
  | ok T =>
    simp only [hraw] at h
    obtain ⟨inv, hcomp, hclosed, hn⟩ := cosetTableRaw_final hr hs hraw
    have hgens : T.allGens = allGensOf n := by unfold Table.allGens; rw [hn]
    have hwr : ∀ w ∈ rels, WordOK T w := fun w hw x hx => by rw [hgens]; exact hr w hw x hx
    have hws : ∀ w ∈ subs, WordOK T w := fun w hw x hx => by rw [hgens]; exact hs w hw x hx
    obtain ⟨v, _, h1, h2, _⟩ := compact_view_valid inv hcomp hn hr hs
      (fun w hw k hk hkl => closed_word inv hcomp (hwr w hw) hk hkl (hclosed.1 k hkl w hw))
      (fun w hw => by
        have hcl : scanAndMerge T w (T.canon 0) = .ok (T, false) := by
          rw [scanAndMerge_canon inv.shape]; exact hclosed.2 w hw
        exact closed_word inv hcomp (hws w hw) (canon_idem inv.shape 0)
          (canon_lt inv.shape inv.shape.pos) hcl) h
    exact ⟨v, h1, h2⟩
  | err => simp [hraw] at h
  | panic => simp [hraw] at h

end DSymVerif.CosetInvP
