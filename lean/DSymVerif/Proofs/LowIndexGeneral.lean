/-
C12 for arbitrary relators: stand-in relators (cyclically reduced cores) make the validity,
irredundancy and completeness theorems unconditional in the relators.
-/
import DSymVerif.Proofs.LowIndexCore
import DSymVerif.Proofs.LowIndexMain

namespace DSymVerif.CanonP
open DSymVerif DSymVerif.Cosets DSymVerif.SpecC11 DSymVerif.SpecC12 DSymVerif.CosetP DSymVerif.RebaseP
open DSymVerif.LowIndexP DSymVerif.CosetInvP DSymVerif.CosetPartP

theorem nz_of_allGens {n : Nat} {w : List Int} (h : ∀ x ∈ w, x ∈ allGensOf n) : FWP.NZ w := by
  intro x hx
  have := mem_allGensOf.mp (h x hx)
  omega

/-- in a complete inverse-consistent table, a word closes at every row as soon as one of its
    cores does -/
theorem closes_of_core {u : Tab} {n : Nat} {rels0 : List (List Int)} (hv : Valid u n rels0 [])
    {ρ c : List Int} (hc : FWP.CoreOf ρ c) (hρ : ∀ x ∈ ρ, x ∈ letters n)
    (hcl : ∀ r, r < u.size → traceWord u n r c = some r) :
    ∀ r, r < u.size → traceWord u n r ρ = some r := by
  obtain ⟨pw, h1, h2, h3, _, _⟩ := hc
  intro r hr
  obtain ⟨d, hd⟩ := traceWord_total hv ρ r hr hρ
  have hn := trace_normalized hv.inv ρ r d hd
  rw [FWP.normalized_congr_den h3] at hn
  -- the conjugate closes
  have hpw : ∀ g ∈ pw, g ∈ letters n := fun g hg => hρ g (h1 g hg)
  obtain ⟨s, hs⟩ := traceWord_total hv pw r hr hpw
  have hsl : s < u.size := traceWord_lt hr hs
  have hback := trace_inverse' hv.inv pw r s hs
  have hW : traceWord u n r (pw ++ c ++ FWP.invW pw) = some r := by
    rw [traceWord_append, traceWord_append, hs]
    simp only [Option.bind_some]
    rw [hcl s hsl]
    exact hback
  have hn' := trace_normalized hv.inv _ r r hW
  rw [hn'] at hn
  rw [hd, ← hn]

/-- **stand-in relators**: for arbitrary relators over the letters `±1..±n` there is a list of
    words (cores) over the same letters all of whose rotations are among the expanded relators
    and whose closing in a table forces the closing of the relators themselves -/
theorem cores_exist (n : Nat) (rels : List (List Int)) (hlet : ∀ w ∈ rels, ∀ x ∈ w, x ∈ allGensOf n) :
    ∃ rels', (∀ w ∈ rels', ∀ x ∈ w, x ∈ allGensOf n) ∧ RotClosed rels' (expandedRelatorSet rels) ∧
      ∀ u : Tab, Valid u n rels' [] → Valid u n rels [] := by
  have key : ∀ l : List (List Int), (∀ ρ ∈ l, ρ ∈ rels) →
      ∃ l', (∀ w ∈ l', ∀ x ∈ w, x ∈ allGensOf n) ∧ RotClosed l' (expandedRelatorSet rels) ∧
        ∀ u : Tab, Valid u n l' [] → ∀ ρ ∈ l, ∀ r, r < u.size → traceWord u n r ρ = some r := by
    intro l
    induction l with
    | nil =>
      intro _
      exact ⟨[], (fun _ h => by cases h), (fun _ h => by cases h), fun _ _ _ h => by cases h⟩
    | cons ρ l ih =>
      intro hl
      obtain ⟨l', a1, a2, a3⟩ := ih (fun ρ' h => hl ρ' (by simp [h]))
      have hρ : ρ ∈ rels := hl ρ (by simp)
      obtain ⟨c, hc⟩ := FWP.core_exists ρ.length ρ (Nat.le_refl _) (nz_of_allGens (hlet ρ hρ))
      have hcl : ∀ x ∈ c, x ∈ allGensOf n := by
        obtain ⟨_, _, h2, _⟩ := hc
        exact fun x hx => hlet ρ hρ x (h2 x hx)
      refine ⟨c :: l', ?_, ?_, ?_⟩
      · intro w hw
        rcases List.mem_cons.mp hw with rfl | hw
        · exact hcl
        · exact a1 w hw
      · intro w hw a b hab
        rcases List.mem_cons.mp hw with rfl | hw
        · unfold expandedRelatorSet
          exact expanded_mem_of rels [] _ (Or.inr ⟨ρ, hρ, hc.rot_mem hab⟩)
        · exact a2 w hw a b hab
      · intro u hv ρ' hρ' r hr
        have hv' : Valid u n l' [] := ⟨hv.pos, hv.total, hv.inv, fun w hw => hv.rel w (by simp [hw]),
          hv.sub, hv.conn⟩
        rcases List.mem_cons.mp hρ' with rfl | hρ'
        · exact closes_of_core hv hc (fun x hx => by rw [← allGensOf_eq_letters]; exact hlet _ hρ x hx)
            (fun r hr => hv.rel c (by simp) r hr) r hr
        · exact a3 u hv' ρ' hρ' r hr
  obtain ⟨l', a1, a2, a3⟩ := key rels (fun _ h => h)
  exact ⟨l', a1, a2, fun u hv => ⟨hv.pos, hv.total, hv.inv, fun ρ hρ r hr => a3 u hv ρ hρ r hr, hv.sub, hv.conn⟩⟩

/-- **C12 for the model, arbitrary relators**: for every presentation over the letters `±1..±n`
    and every bound `k`, the views of the tables yielded by the model of
    `coset_tables(n, rels, k)` are a system of representatives of the isomorphism classes of
    valid tables with at most `k` rows -/
theorem cosetTables_complete_irredundant_all (n : Nat) (rels : List (List Int)) (k fuel : Nat)
    (hlet : ∀ w ∈ rels, ∀ x ∈ w, x ∈ allGensOf n)
    (hf : (BT.dfs (btProblem n (expandedRelatorSet rels) k) (height k) (.ok (Table.new n))).length ≤ fuel) :
    (∀ x ∈ cosetTables n rels k fuel, ∃ t' v, x = .ok t' ∧ t'.view = .ok v ∧
      validTable (viewTab v) n rels [] = true ∧ (viewTab v).size ≤ max k 1) ∧
    (cosetTables n rels k fuel).Pairwise (fun x y => ∀ t1 t2 v1 v2, x = .ok t1 → y = .ok t2 →
      t1.view = .ok v1 → t2.view = .ok v2 → ¬ ∃ σ, TabIso (viewTab v1) (viewTab v2) n σ) ∧
    (∀ A : Tab, validTable A n rels [] = true → A.size ≤ k →
      ∃ t' v σ, (Outcome.ok t') ∈ cosetTables n rels k fuel ∧ t'.view = .ok v ∧ TabIso A (viewTab v) n σ) := by
  obtain ⟨rels', hlet', hrot, hval⟩ := cores_exist n rels hlet
  refine ⟨?_, ?_, fun A hA hk => cosetTables_complete_gen n rels rels' k fuel hrot hlet' hlet hf A hA hk⟩
  · intro x hx
    obtain ⟨t', v, rfl, hv, _, _⟩ := cosetTables_ok_gen n rels rels' k fuel hrot hlet' hlet hf x hx
    obtain ⟨v', hv', h1, h2⟩ := cosetTables_valid_gen n rels rels' k fuel hrot hlet' hlet hf _ hx t' rfl
    rw [hv] at hv'
    injection hv' with hv'
    subst hv'
    exact ⟨t', v, rfl, hv, validTable_of_valid (hval _ h1), h2⟩
  · have hp := cosetTables_irredundant_gen n rels rels' k fuel hrot hlet' hlet hf
    have hall := cosetTables_ok_gen n rels rels' k fuel hrot hlet' hlet hf
    have hp' : (cosetTables n rels k fuel).Pairwise (fun x y => x ∈ cosetTables n rels k fuel ∧
        y ∈ cosetTables n rels k fuel ∧ ∀ t1 t2, x = .ok t1 → y = .ok t2 → ¬ TIso n t1 t2) := by
      have := List.Pairwise.and_mem.mp hp
      exact this.imp (fun ⟨h1, h2, h3⟩ => ⟨h1, h2, h3⟩)
    refine hp'.imp ?_
    rintro x y ⟨hx, hy, hno⟩ t1 t2 v1 v2 rfl rfl hv1 hv2 ⟨σ, iso⟩
    obtain ⟨t1', w1, e1, hw1, hs1, hent1⟩ := hall _ hx
    obtain ⟨t2', w2, e2, hw2, hs2, hent2⟩ := hall _ hy
    injection e1 with e1; subst e1
    injection e2 with e2; subst e2
    rw [hv1] at hw1; injection hw1 with hw1; subst hw1
    rw [hv2] at hw2; injection hw2 with hw2; subst hw2
    apply hno t1 t2 rfl rfl
    have hN : t2.len = t1.len := by rw [← hs1, ← hs2]; exact iso.size
    refine ⟨σ, t1.len, rfl, hN, fun c hc => by have := iso.lt c (by rw [hs1]; exact hc); rw [hs1] at this; exact this,
      fun a b ha hb => iso.inj a b (by rw [hs1]; exact ha) (by rw [hs1]; exact hb), ?_⟩
    intro c g d hc hg hget
    obtain ⟨d1, hd1, he1⟩ := hent1 c hc g hg
    rw [hget] at hd1
    simp only [Outcome.ok.injEq, Option.some.injEq] at hd1
    subst hd1
    have hcomm := iso.comm c g (by rw [hs1]; exact hc)
    rw [he1] at hcomm
    simp only [Option.map_some] at hcomm
    have hσc : σ c < t2.len := by
      have := iso.lt c (by rw [hs1]; exact hc); rw [hs1] at this; omega
    obtain ⟨d2, hd2, he2⟩ := hent2 (σ c) hσc g hg
    rw [hcomm] at he2
    simp only [Option.some.injEq] at he2
    rw [he2]; exact hd2

section
variable (n : Nat) (rels : List (List Int)) (k fuel : Nat)
  (hlet : ∀ w ∈ rels, ∀ x ∈ w, x ∈ allGensOf n)
  (hf : (BT.dfs (btProblem n (expandedRelatorSet rels) k) (height k) (.ok (Table.new n))).length ≤ fuel)
include hlet hf

theorem cosetTables_valid_all :
    ∀ x ∈ cosetTables n rels k fuel, ∀ t', x = .ok t' →
      ∃ v, t'.view = .ok v ∧ validTable (viewTab v) n rels [] = true ∧ (viewTab v).size ≤ max k 1 := by
  intro x hx t' hxt
  obtain ⟨t1, v, e, hv, h1, h2⟩ := (cosetTables_complete_irredundant_all n rels k fuel hlet hf).1 x hx
  rw [hxt] at e
  injection e with e
  subst e
  exact ⟨v, hv, h1, h2⟩

theorem cosetTables_ok_all :
    ∀ x ∈ cosetTables n rels k fuel, ∃ t' v, x = .ok t' ∧ t'.view = .ok v ∧
      (viewTab v).size = t'.len ∧
      ∀ j, j < t'.len → ∀ g ∈ allGensOf n, ∃ d, t'.get j g = .ok (some d) ∧ entry (viewTab v) n j g = some d := by
  obtain ⟨rels', hlet', hrot, _⟩ := cores_exist n rels hlet
  exact cosetTables_ok_gen n rels rels' k fuel hrot hlet' hlet hf

theorem cosetTables_irredundant_all :
    (cosetTables n rels k fuel).Pairwise
      (fun x y => ∀ t1 t2, x = .ok t1 → y = .ok t2 → ¬ TIso n t1 t2) := by
  obtain ⟨rels', hlet', hrot, _⟩ := cores_exist n rels hlet
  exact cosetTables_irredundant_gen n rels rels' k fuel hrot hlet' hlet hf

theorem cosetTables_complete_all (A : Tab) (hA : validTable A n rels [] = true) (hk : A.size ≤ k) :
    ∃ t' v σ, (Outcome.ok t') ∈ cosetTables n rels k fuel ∧ t'.view = .ok v ∧ TabIso A (viewTab v) n σ :=
  (cosetTables_complete_irredundant_all n rels k fuel hlet hf).2.2 A hA hk

end

end DSymVerif.CanonP
