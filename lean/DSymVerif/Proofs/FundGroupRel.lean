/-
Helper lemmas for property C09, part 3: what `fundamental_group` puts into `relators` and
`cones` — exactly the contributions of the 2-orbits `(i, j, d)`, `i ≤ j`, `d` a representative
reported by `orbit_reps_2d(i, j)`.
-/
import DSymVerif.Proofs.FundGroupGens

namespace DSymVerif.FGP
open DSymVerif DSymVerif.DS DSymVerif.FG DSymVerif.FWP DSymVerif.SpecC10

/-- `word` is what `trace_word` reads around the `(i,j)`-orbit of `d` (starting at `s_i d` with
    facet `j`, as the code does) and `degree` is `v_ij(d)` -/
def Traced (ds : DSymData) (e2w : E2W) (i j d : Nat) (word : List Int) (degree : Nat) : Prop :=
  ∃ di, ds.op i d = some di ∧ traceWord ds e2w di (some j) (some i) = .ok word ∧
    ds.vPartial i j d = .ok (some degree)

theorem traced_unique {ds : DSymData} {e2w : E2W} {i j d : Nat} {w w' : List Int} {g g' : Nat}
    (h : Traced ds e2w i j d w g) (h' : Traced ds e2w i j d w' g') : w = w' ∧ g = g' := by
  obtain ⟨di, h1, h2, h3⟩ := h
  obtain ⟨di', h1', h2', h3'⟩ := h'
  rw [h1] at h1'
  cases h1'
  rw [h2] at h2'
  rw [h3] at h3'
  cases h2'; cases h3'
  exact ⟨rfl, rfl⟩

/-- the relator contributed by a traced word -/
def relOf (word : List Int) (degree : Nat) : List Int := FW.raisedTo word (degree : Int)

theorem relStep_spec (ds : DSymData) (e2w : E2W) (i j d : Nat) (st st' : RelState)
    (h : relStep ds e2w i j st d = .ok st') :
    ∃ word degree, Traced ds e2w i j d word degree ∧
      st'.relators = (if (relOf word degree).length > 0 then
        FW.insertSorted (FW.relatorRepresentative (relOf word degree)) st.relators else st.relators) ∧
      st'.cones = (if degree > 1 then coneInsert (FW.relatorRepresentative word, degree) st.cones
        else st.cones) := by
  unfold relStep at h
  split at h
  · cases h
  · rename_i di hop
    split at h
    · rename_i word hw
      split at h
      · rename_i degree hv
        injection h with h
        refine ⟨word, degree, ⟨di, hop, hw, hv⟩, ?_, ?_⟩ <;> rw [← h] <;> rfl
      · cases h
      · cases h
      · cases h
    · cases h
    · cases h

theorem coneCmp_eq {a b : List Int × Nat} (h : coneCmp a b = .eq) : a = b := by
  unfold coneCmp at h
  split at h
  · cases h
  · cases h
  · rename_i hc
    have h1 : a.1 = b.1 := (cmp_eq_iff a.1 b.1).1 hc
    have h2 : a.2 = b.2 := Nat.compare_eq_eq.1 h
    exact Prod.ext h1 h2

theorem mem_coneInsert_iff (c : List Int × Nat) : ∀ (l : List (List Int × Nat)) (x : List Int × Nat),
    x ∈ coneInsert c l ↔ x = c ∨ x ∈ l
  | [], x => by simp [coneInsert]
  | v :: vs, x => by
    unfold coneInsert
    split
    · simp
    · rename_i hc
      have := coneCmp_eq hc
      subst this
      simp
    · simp only [List.mem_cons, mem_coneInsert_iff c vs x]
      tauto

/-- membership in the two sets after one step -/
theorem relStep_mem (ds : DSymData) (e2w : E2W) (i j d : Nat) (st st' : RelState)
    (h : relStep ds e2w i j st d = .ok st') :
    ∃ word degree, Traced ds e2w i j d word degree ∧
      (∀ w, w ∈ st'.relators ↔
        (relOf word degree ≠ [] ∧ w = FW.relatorRepresentative (relOf word degree)) ∨ w ∈ st.relators) ∧
      (∀ c, c ∈ st'.cones ↔
        (degree > 1 ∧ c = (FW.relatorRepresentative word, degree)) ∨ c ∈ st.cones) := by
  obtain ⟨word, degree, ht, hr, hc⟩ := relStep_spec ds e2w i j d st st' h
  refine ⟨word, degree, ht, ?_, ?_⟩
  · intro w
    rw [hr]
    split
    · rename_i hl
      have hne : relOf word degree ≠ [] := by
        intro he; rw [he] at hl; simp at hl
      rw [mem_insertSorted]
      constructor
      · rintro (h | h)
        · exact Or.inl ⟨hne, h⟩
        · exact Or.inr h
      · rintro (⟨_, h⟩ | h)
        · exact Or.inl h
        · exact Or.inr h
    · rename_i hl
      have he : relOf word degree = [] := by
        cases hq : relOf word degree with
        | nil => rfl
        | cons a b => rw [hq] at hl; simp at hl
      constructor
      · exact fun h => Or.inr h
      · rintro (⟨hne, _⟩ | h)
        · exact absurd he hne
        · exact h
  · intro c
    rw [hc]
    split
    · rename_i hd
      rw [mem_coneInsert_iff]
      constructor
      · rintro (h | h)
        · exact Or.inl ⟨hd, h⟩
        · exact Or.inr h
      · rintro (⟨_, h⟩ | h)
        · exact Or.inl h
        · exact Or.inr h
    · rename_i hd
      constructor
      · exact fun h => Or.inr h
      · rintro (⟨hd', _⟩ | h)
        · exact absurd hd' hd
        · exact h

/-- contributions of a list of 2-orbits `(i, j, d)` -/
def RelFrom (ds : DSymData) (e2w : E2W) (orbs : List (Nat × Nat × Nat)) (w : List Int) : Prop :=
  ∃ o ∈ orbs, ∃ word degree, Traced ds e2w o.1 o.2.1 o.2.2 word degree ∧
    relOf word degree ≠ [] ∧ w = FW.relatorRepresentative (relOf word degree)

def ConeFrom (ds : DSymData) (e2w : E2W) (orbs : List (Nat × Nat × Nat)) (c : List Int × Nat) : Prop :=
  ∃ o ∈ orbs, ∃ word degree, Traced ds e2w o.1 o.2.1 o.2.2 word degree ∧
    degree > 1 ∧ c = (FW.relatorRepresentative word, degree)

/-- the state holds exactly the contributions of `orbs` -/
def Holds (ds : DSymData) (e2w : E2W) (orbs : List (Nat × Nat × Nat)) (st : RelState) : Prop :=
  (∀ w, w ∈ st.relators ↔ RelFrom ds e2w orbs w) ∧ (∀ c, c ∈ st.cones ↔ ConeFrom ds e2w orbs c)

theorem holds_step {ds : DSymData} {e2w : E2W} {orbs : List (Nat × Nat × Nat)} {st st' : RelState}
    {i j d : Nat} (hs : Holds ds e2w orbs st) (h : relStep ds e2w i j st d = .ok st') :
    Holds ds e2w (orbs ++ [(i, j, d)]) st' := by
  obtain ⟨word, degree, ht, hr, hc⟩ := relStep_mem ds e2w i j d st st' h
  refine ⟨?_, ?_⟩
  · intro w
    rw [hr w, hs.1 w]
    constructor
    · rintro (⟨hne, hw⟩ | ⟨o, ho, rest⟩)
      · exact ⟨(i, j, d), by simp, word, degree, ht, hne, hw⟩
      · exact ⟨o, List.mem_append_left _ ho, rest⟩
    · rintro ⟨o, ho, word', degree', ht', hne, hw⟩
      rcases List.mem_append.1 ho with ho | ho
      · exact Or.inr ⟨o, ho, word', degree', ht', hne, hw⟩
      · simp only [List.mem_singleton] at ho
        subst ho
        obtain ⟨rfl, rfl⟩ := traced_unique ht ht'
        exact Or.inl ⟨hne, hw⟩
  · intro c
    rw [hc c, hs.2 c]
    constructor
    · rintro (⟨hd, hw⟩ | ⟨o, ho, rest⟩)
      · exact ⟨(i, j, d), by simp, word, degree, ht, hd, hw⟩
      · exact ⟨o, List.mem_append_left _ ho, rest⟩
    · rintro ⟨o, ho, word', degree', ht', hd, hw⟩
      rcases List.mem_append.1 ho with ho | ho
      · exact Or.inr ⟨o, ho, word', degree', ht', hd, hw⟩
      · simp only [List.mem_singleton] at ho
        subst ho
        obtain ⟨rfl, rfl⟩ := traced_unique ht ht'
        exact Or.inl ⟨hd, hw⟩

theorem relLoop_holds (ds : DSymData) (e2w : E2W) (i j : Nat) : ∀ (reps : List Nat)
    (orbs : List (Nat × Nat × Nat)) (st st' : RelState), Holds ds e2w orbs st →
      relLoop ds e2w i j st reps = .ok st' →
      Holds ds e2w (orbs ++ reps.map fun d => (i, j, d)) st'
  | [], orbs, st, st', hs, h => by
    simp [relLoop] at h; rw [← h]; simpa using hs
  | d :: rest, orbs, st, st', hs, h => by
    unfold relLoop at h
    split at h
    · rename_i st1 h1
      have := relLoop_holds ds e2w i j rest _ st1 st' (holds_step hs h1) h
      simpa [List.append_assoc] using this
    · cases h
    · cases h

/-- all 2-orbits visited by `fundamental_group`, in loop order -/
def orbitList (ds : DSymData) (ps : List (Nat × Nat)) : List (Nat × Nat × Nat) :=
  ps.flatMap fun p => (ds.view.orbitReps2d p.1 p.2).map fun d => (p.1, p.2, d)

theorem pairLoop_holds (ds : DSymData) (e2w : E2W) : ∀ (ps : List (Nat × Nat))
    (orbs : List (Nat × Nat × Nat)) (st st' : RelState), Holds ds e2w orbs st →
      pairLoop ds e2w st ps = .ok st' → Holds ds e2w (orbs ++ orbitList ds ps) st'
  | [], orbs, st, st', hs, h => by
    simp [pairLoop] at h; rw [← h]; simpa [orbitList] using hs
  | (i, j) :: rest, orbs, st, st', hs, h => by
    unfold pairLoop at h
    split at h
    · rename_i st1 h1
      have := pairLoop_holds ds e2w rest _ st1 st' (relLoop_holds ds e2w i j _ orbs st st1 hs h1) h
      simpa [orbitList, List.append_assoc] using this
    · cases h
    · cases h

theorem fundamentalGroup_holds (ds : DSymData) (f : FundGroup)
    (h : fundamentalGroup ds = .ok f) :
    Holds ds f.edgeToWord (orbitList ds (indexPairs ds))
      { relators := f.relators, cones := f.cones } := by
  unfold fundamentalGroup at h
  split at h
  · rename_i e2w g2e hg
    split at h
    · rename_i st hp
      injection h with h
      have h0 : Holds ds e2w [] { relators := [], cones := [] } := by
        refine ⟨fun w => ?_, fun c => ?_⟩
        · simp [RelFrom]
        · simp [ConeFrom]
      have := pairLoop_holds ds e2w _ [] _ st h0 hp
      rw [← h]
      simpa using this
    · cases h
    · cases h
  · cases h
  · cases h

theorem mem_orbitList {ds : DSymData} {ps : List (Nat × Nat)} {o : Nat × Nat × Nat} :
    o ∈ orbitList ds ps ↔ (o.1, o.2.1) ∈ ps ∧ o.2.2 ∈ ds.view.orbitReps2d o.1 o.2.1 := by
  unfold orbitList
  simp only [List.mem_flatMap, List.mem_map]
  constructor
  · rintro ⟨p, hp, d, hd, rfl⟩
    exact ⟨hp, hd⟩
  · rintro ⟨hp, hd⟩
    exact ⟨(o.1, o.2.1), hp, o.2.2, hd, rfl⟩

theorem mem_indexPairs {ds : DSymData} {i j : Nat} :
    (i, j) ∈ indexPairs ds ↔ i ≤ j ∧ j ≤ ds.dim := by
  unfold indexPairs
  simp only [List.mem_flatMap, List.mem_map, List.mem_filter, List.mem_range, decide_eq_true_eq,
    Prod.mk.injEq]
  constructor
  · rintro ⟨a, _, b, ⟨hb, hab⟩, rfl, rfl⟩
    exact ⟨hab, by omega⟩
  · rintro ⟨hij, hj⟩
    exact ⟨i, by omega, j, ⟨by omega, hij⟩, rfl, rfl⟩

end DSymVerif.FGP
