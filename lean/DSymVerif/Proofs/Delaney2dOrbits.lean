/-
Helper lemmas for property C08, part 4 (towards `curvature_chamber_sum`): the size of the
(i,j)-orbit listed by `View.orbit [i, j] d` on a valid D-set — `2r` if it is loopless, `r`
otherwise — by the abstract dihedral lemma of `Proofs/Dihedral.lean`.
-/
import DSymVerif.Proofs.Dihedral
import DSymVerif.Props.C02

namespace DSymVerif.D2
open DSymVerif.DS

/-- `op i` extended by the identity outside `1..size`: a total involution -/
def opT (ds : DSetData) (i : Nat) (x : Nat) : Nat := if 1 ≤ x ∧ x ≤ ds.size then ds.opU i x else x

theorem opT_in {ds : DSetData} {i x : Nat} (h1 : 1 ≤ x) (h2 : x ≤ ds.size) : opT ds i x = ds.opU i x := by
  unfold opT; rw [if_pos ⟨h1, h2⟩]

theorem opT_invol {ds : DSetData} (h : ValidSet ds) {i : Nat} (hi : i ≤ ds.dim) :
    Function.Involutive (opT ds i) := by
  intro x
  by_cases hx : 1 ≤ x ∧ x ≤ ds.size
  · have hr := h.range i x hi hx.1 hx.2
    rw [opT_in hx.1 hx.2, opT_in hr.1 hr.2, h.invol i x hi hx.1 hx.2]
  · unfold opT; rw [if_neg hx, if_neg hx]

section
variable {ds : DSetData} (h : ValidSet ds) {i j : Nat} (hi : i ≤ ds.dim) (hj : j ≤ ds.dim)
include h hi hj

theorem orbit_of_orb2 {d x : Nat} (hd : 1 ≤ d ∧ d ≤ ds.size) (ho : Orb2 ds i j d x) :
    Dihedral.Orbit (opT ds i) (opT ds j) d x := by
  induction ho with
  | refl => exact Dihedral.Orbit.refl
  | @stepI e ho' ih =>
    have he := Orb2.range h hi hj hd ho'
    rw [← opT_in he.1 he.2]; exact ih.stepA
  | @stepJ e ho' ih =>
    have he := Orb2.range h hi hj hd ho'
    rw [← opT_in he.1 he.2]; exact ih.stepB

theorem orb2_of_orbit {d x : Nat} (hd : 1 ≤ d ∧ d ≤ ds.size)
    (ho : Dihedral.Orbit (opT ds i) (opT ds j) d x) : Orb2 ds i j d x := by
  induction ho with
  | refl => exact Orb2.refl d
  | @stepA e _ ih =>
    have he := Orb2.range h hi hj hd ih
    rw [opT_in he.1 he.2]; exact Orb2.stepI ih
  | @stepB e _ ih =>
    have he := Orb2.range h hi hj hd ih
    rw [opT_in he.1 he.2]; exact Orb2.stepJ ih

theorem cc_iter_eq {d : Nat} (hd : 1 ≤ d ∧ d ≤ ds.size) (k : Nat) :
    (Dihedral.cc (opT ds i) (opT ds j))^[k] d = (ds.comp i j)^[k] d := by
  induction k with
  | zero => rfl
  | succ k ih =>
    rw [Function.iterate_succ_apply', Function.iterate_succ_apply', ih]
    have a := h.comp_range hi hj hd.1 hd.2 k
    have b := h.range i _ hi a.1 a.2
    show opT ds j (opT ds i _) = ds.opU j (ds.opU i _)
    rw [opT_in a.1 a.2, opT_in b.1 b.2]

end

/-- reachability with the two indices is the inductive orbit relation -/
theorem reach_iff_orb2 {y : DSymData} (h : ValidSet y.dset) {i j : Nat} (hi : i ≤ y.dim) (hj : j ≤ y.dim)
    {d x : Nat} (hd : 1 ≤ d ∧ d ≤ y.size) : y.view.Reach [i, j] d x ↔ Orb2 y.dset i j d x := by
  constructor
  · intro hr
    induction hr with
    | refl => exact Orb2.refl d
    | @step e c k _ hk hop ih =>
      have hop' : y.dset.opSimple k e = some c := hop
      obtain ⟨_, _, _, rfl⟩ := opSimple_eq_some.1 hop'
      simp only [List.mem_cons, List.not_mem_nil, or_false] at hk
      rcases hk with rfl | rfl
      · exact Orb2.stepI ih
      · exact Orb2.stepJ ih
  · intro ho
    induction ho with
    | refl => exact View.Reach.refl d
    | @stepI e ho' ih =>
      have he := Orb2.range h hi hj hd ho'
      exact View.Reach.step ih (by simp) (show y.dset.opSimple i e = some _ from
        opSimple_eq_some.2 ⟨hi, he.1, he.2, rfl⟩)
    | @stepJ e ho' ih =>
      have he := Orb2.range h hi hj hd ho'
      exact View.Reach.step ih (by simp) (show y.dset.opSimple j e = some _ from
        opSimple_eq_some.2 ⟨hj, he.1, he.2, rfl⟩)

/-- members of `orbit([i, j], d)` -/
theorem mem_orbit_iff {y : DSymData} (h : ValidSet y.dset) {i j : Nat} (hi : i ≤ y.dim) (hj : j ≤ y.dim)
    {d x : Nat} (hd : 1 ≤ d ∧ d ≤ y.size) : x ∈ y.view.orbit [i, j] d ↔ Orb2 y.dset i j d x := by
  rw [(C02.orbit_eq_reachable y.view h.pinvol [i, j] d).1 x]
  exact reach_iff_orb2 h hi hj hd

theorem orbit_nodup {y : DSymData} (h : ValidSet y.dset) (i j d : Nat) : (y.view.orbit [i, j] d).Nodup := by
  have := (C02.orbit_eq_reachable y.view h.pinvol [i, j] d).2
  exact this.imp (fun hab => Nat.ne_of_lt hab)

/-- **size of a 2-orbit**: `2r` when no chamber of the orbit is fixed by `op i` or `op j`, else `r`
    (`r` the least period of `d` under `op j ∘ op i`) -/
theorem orbit_length {y : DSymData} (h : ValidSet y.dset) {i j : Nat} (hi : i ≤ y.dim) (hj : j ≤ y.dim)
    {d r : Nat} (hd : 1 ≤ d ∧ d ≤ y.size) (hr : IsLeastPeriod y.dset i j d r) :
    (y.view.orbit [i, j] d).length =
      if ((y.view.orbit [i, j] d).all fun e => y.op i e != some e && y.op j e != some e) = true
      then 2 * r else r := by
  have hA := opT_invol h hi
  have hB := opT_invol h hj
  have hper : (Dihedral.cc (opT y.dset i) (opT y.dset j))^[r] d = d := by
    rw [cc_iter_eq h hi hj hd]; exact hr.2.1
  have hmin : ∀ t, 1 ≤ t → t < r → (Dihedral.cc (opT y.dset i) (opT y.dset j))^[t] d ≠ d := by
    intro t ht1 ht2
    rw [cc_iter_eq h hi hj hd]; exact hr.2.2 t ht1 ht2
  have hS : ∀ x, x ∈ (y.view.orbit [i, j] d).toFinset ↔ Dihedral.Orbit (opT y.dset i) (opT y.dset j) d x := by
    intro x
    rw [List.mem_toFinset, mem_orbit_iff h hi hj hd]
    exact ⟨orbit_of_orb2 h hi hj hd, orb2_of_orbit h hi hj hd⟩
  have hcard := Dihedral.orbit_card hA hB hr.1 hper hmin _ hS
  rw [List.toFinset_card_of_nodup (orbit_nodup h i j d)] at hcard
  rw [hcard]
  have hcond : (∀ z ∈ (y.view.orbit [i, j] d).toFinset, opT y.dset i z ≠ z ∧ opT y.dset j z ≠ z) ↔
      ((y.view.orbit [i, j] d).all fun e => y.op i e != some e && y.op j e != some e) = true := by
    simp only [List.mem_toFinset, List.all_eq_true, Bool.and_eq_true, bne_iff_ne, ne_eq]
    constructor
    · intro hz e he
      have her := Orb2.range h hi hj hd ((mem_orbit_iff h hi hj hd).1 he)
      have := hz e he
      rw [opT_in her.1 her.2, opT_in her.1 her.2] at this
      have e1 : y.op i e = some (y.dset.opU i e) := opSimple_eq_some.2 ⟨hi, her.1, her.2, rfl⟩
      have e2 : y.op j e = some (y.dset.opU j e) := opSimple_eq_some.2 ⟨hj, her.1, her.2, rfl⟩
      rw [e1, e2]
      simp only [Option.some.injEq]
      exact this
    · intro hz e he
      have her := Orb2.range h hi hj hd ((mem_orbit_iff h hi hj hd).1 he)
      have := hz e he
      have e1 : y.op i e = some (y.dset.opU i e) := opSimple_eq_some.2 ⟨hi, her.1, her.2, rfl⟩
      have e2 : y.op j e = some (y.dset.opU j e) := opSimple_eq_some.2 ⟨hj, her.1, her.2, rfl⟩
      rw [e1, e2] at this
      simp only [Option.some.injEq] at this
      rw [opT_in her.1 her.2, opT_in her.1 her.2]
      exact this
  by_cases hc : ((y.view.orbit [i, j] d).all fun e => y.op i e != some e && y.op j e != some e) = true
  · rw [if_pos hc, if_pos (hcond.2 hc)]
  · rw [if_neg hc, if_neg (fun hh => hc (hcond.1 hh))]

end DSymVerif.D2
