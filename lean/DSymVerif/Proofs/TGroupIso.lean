/-
The textbook orbifold group does not depend on the numbering of the chambers.

`TGroup ds` (C09) kills the generators of the facets of `spanning_tree(ds)`, a tree that depends on
the numbering.  A morphism of symbols `f : a → b` (a map of the chambers commuting with every
operation and preserving all degrees `m_ij`) induces a homomorphism `TGroup a →* TGroup b` in a
gauge `q` along the spanning tree of `a` (the construction of C05's `phiC`, with `f` in place of the
covering projection).  For a pair of mutually inverse morphisms of CONNECTED symbols the two
composites are inner automorphisms, so the induced homomorphisms are isomorphisms.
-/
import DSymVerif.Proofs.CoversPi1Phi
import DSymVerif.Proofs.CoversConn
import DSymVerif.Proofs.CoversGauge
import DSymVerif.Proofs.CoversIso

namespace DSymVerif.CoversP
open DSymVerif DSymVerif.DS DSymVerif.FG DSymVerif.FGP

/-- a morphism of symbols -/
structure SymMor (a b : DSymData) (f : Nat → Nat) : Prop where
  ha : ValidSym a
  hb : ValidSym b
  dim : a.dim = b.dim
  maps : ∀ x, 1 ≤ x → x ≤ a.size → 1 ≤ f x ∧ f x ≤ b.size
  comm : ∀ i x, i ≤ a.dim → 1 ≤ x → x ≤ a.size → f (a.dset.opU i x) = b.dset.opU i (f x)
  deg : ∀ i j x, i ≤ a.dim → j ≤ a.dim → 1 ≤ x → x ≤ a.size → a.mPartial i j x = b.mPartial i j (f x)

section mor
variable {a b : DSymData} {f : Nat → Nat} (M : SymMor a b f)
include M

theorem SymMor.comm' {i x : Nat} (hi : i ≤ a.dim) (h1 : 1 ≤ x) (h2 : x ≤ a.size) :
    f (a.dset.opU i x) = opT b i (f x) := by
  have hp := M.maps x h1 h2
  rw [opT_eq (by rw [← M.dim]; exact hi) hp.1 hp.2]
  exact M.comm i x hi h1 h2

theorem SymMor.wk_map {i j : Nat} (hi : i ≤ a.dim) (hj : j ≤ a.dim) : ∀ (t x : Nat), 1 ≤ x → x ≤ a.size →
    f (wk (opT a) i j t x) = wk (opT b) i j t (f x) := by
  intro t
  induction t with
  | zero => intro x _ _; rfl
  | succ t ih =>
    intro x h1 h2
    rw [wk_succ_last, wk_succ_last, ← ih x h1 h2]
    have hr := wk_range M.ha.set h1 h2 t i j
    rw [opT_eq (ix_le hi hj t) hr.1 hr.2]
    exact M.comm' (ix_le hi hj t) hr.1 hr.2

theorem SymMor.Wf_map {G : Type} [Group G] (val : Nat → Nat → G) {i j : Nat} (hi : i ≤ a.dim)
    (hj : j ≤ a.dim) : ∀ (t x : Nat), 1 ≤ x → x ≤ a.size →
    Wf (opT a) (fun x i => val (f x) i) i j t x = Wf (opT b) val i j t (f x) ∧
    Wf (opT a) (fun x i => val (f x) i) j i t x = Wf (opT b) val j i t (f x) := by
  intro t
  induction t with
  | zero => intro x _ _; exact ⟨rfl, rfl⟩
  | succ t ih =>
    intro x h1 h2
    have ra := M.ha.set.range i x hi h1 h2
    have rb := M.ha.set.range j x hj h1 h2
    have h3 := ih (a.dset.opU i x) ra.1 ra.2
    have h4 := ih (a.dset.opU j x) rb.1 rb.2
    constructor
    · show val (f x) i * Wf (opT a) _ j i t (opT a i x) =
        val (f x) i * Wf (opT b) val j i t (opT b i (f x))
      rw [opT_eq hi h1 h2, h3.2, M.comm' hi h1 h2]
    · show val (f x) j * Wf (opT a) _ i j t (opT a j x) =
        val (f x) j * Wf (opT b) val i j t (opT b j (f x))
      rw [opT_eq hj h1 h2, h4.1, M.comm' hj h1 h2]

/-- orbit lengths and branching numbers of a chamber and of its image: `r_a = r_b · m`, `m · v_a = v_b` -/
theorem SymMor.orbit_numbers {i j x : Nat} (hi : i ≤ a.dim) (hj : j ≤ a.dim) (h1 : 1 ≤ x) (h2 : x ≤ a.size) :
    ∃ m, orbR a i j x = orbR b i j (f x) * m ∧ m * orbV a i j x = orbV b i j (f x) := by
  have hib : i ≤ b.dim := by rw [← M.dim]; exact hi
  have hjb : j ≤ b.dim := by rw [← M.dim]; exact hj
  have hp := M.maps x h1 h2
  obtain ⟨hmc, hlc⟩ := mPartial_orb M.ha hi hj h1 h2
  obtain ⟨hms, hls⟩ := mPartial_orb M.hb hib hjb hp.1 hp.2
  have hdeg := M.deg i j x hi hj h1 h2
  rw [hmc, hms] at hdeg
  have heq : orbR a i j x * orbV a i j x = orbR b i j (f x) * orbV b i j (f x) :=
    Option.some.inj (Outcome.ok.inj hdeg)
  have hper := (orbR_period M.ha hi hj h1 h2).2
  have hproj := M.wk_map hi hj (2 * orbR a i j x) x h1 h2
  rw [hper, wk_opT_even M.hb.set hib hjb hp.1 hp.2] at hproj
  have hdvd : orbR b i j (f x) ∣ orbR a i j x := IsLeastPeriod.dvd hls hproj.symm
  obtain ⟨m, hm⟩ := hdvd
  refine ⟨m, hm, ?_⟩
  rw [hm, Nat.mul_assoc] at heq
  exact Nat.eq_of_mul_eq_mul_left (show 0 < orbR b i j (f x) by have := hls.1; omega) heq

end mor

/-! ### the induced homomorphism -/

section hom
variable {a b : DSymData} {f : Nat → Nat} (M : SymMor a b f)

/-- the generator of the image facet -/
noncomputable def pf (b : DSymData) (f : Nat → Nat) (x i : Nat) : TGroup b := xT b (f x) i

/-- facet values in the gauge `q` -/
noncomputable def valF (a b : DSymData) (f : Nat → Nat) (q : Nat → TGroup b) (x i : Nat) : TGroup b :=
  q x * pf b f x i * (q (opT a i x))⁻¹

include M in
theorem valF_pair (q : Nat → TGroup b) {x i : Nat} (h : FacetR a x i) :
    valF a b f q x i * valF a b f q (a.dset.opU i x) i = 1 := by
  have hx' := M.ha.set.range i x h.2.2 h.1 h.2.1
  unfold valF pf
  rw [opT_eq h.2.2 h.1 h.2.1, opT_eq h.2.2 hx'.1 hx'.2, M.ha.set.invol i x h.2.2 h.1 h.2.1,
    M.comm' h.2.2 h.1 h.2.1, xT_pair]
  group

theorem valF_tree {q : Nat → TGroup b}
    (hq : ∀ x i, (x, i, none) ∈ spanningTree a → q (a.dset.opU i x) = q x * pf b f x i)
    {x i : Nat} (hmem : (x, i, none) ∈ spanningTree a) (h : FacetR a x i) : valF a b f q x i = 1 := by
  unfold valF
  rw [opT_eq h.2.2 h.1 h.2.1, hq x i hmem]
  group

include M in
theorem valF_orbit (q : Nat → TGroup b) {i j x : Nat} (hij : i < j) (hj : j ≤ a.dim)
    (h1 : 1 ≤ x) (h2 : x ≤ a.size) :
    OW a (valF a b f q) i j x ^ orbV a i j x = 1 := by
  have hi : i ≤ a.dim := by omega
  have hib : i ≤ b.dim := by rw [← M.dim]; exact hi
  have hjb : j ≤ b.dim := by rw [← M.dim]; exact hj
  have hp := M.maps x h1 h2
  obtain ⟨m, hm, hmv⟩ := M.orbit_numbers hi hj h1 h2
  have hperc := (orbR_period M.ha hi hj h1 h2).2
  have hpers := (orbR_period M.hb hib hjb hp.1 hp.2).2
  unfold OW
  have hg := Wf_gauge (opT a) (pf b f) q (2 * orbR a i j x) i j x
  rw [hperc] at hg
  have hproj := (M.Wf_map (xT b) hi hj (2 * orbR a i j x) x h1 h2).1
  have hval : Wf (opT a) (valF a b f q) i j (2 * orbR a i j x) x =
      q x * Wf (opT a) (pf b f) i j (2 * orbR a i j x) x * (q x)⁻¹ := hg
  have hpx : Wf (opT a) (pf b f) i j (2 * orbR a i j x) x =
      Wf (opT b) (xT b) i j (2 * orbR a i j x) (f x) := hproj
  rw [hval, hpx, hm, Wf_rounds (opT b) (xT b) hpers m, conj_pow, ← pow_mul, hmv]
  have := xT_orbit M.hb (show i ≠ j by omega) hib hjb hp.1 hp.2
  unfold OW at this
  rw [this]
  group

/-- **the homomorphism induced by a morphism of symbols**, in the gauge `q` -/
noncomputable def homF {q : Nat → TGroup b}
    (hq : ∀ x i, (x, i, none) ∈ spanningTree a → q (a.dset.opU i x) = q x * pf b f x i) :
    TGroup a →* TGroup b :=
  tgroupLift M.ha (valF a b f q)
    (fun x i h => valF_pair M q h)
    (fun x i hmem => by
      obtain ⟨hn, _⟩ := spanningTree_itemOk M.ha.set (x, i, none) hmem
      exact valF_tree hq hmem (spanningTree_ok M.ha.set (x, i, none) hmem hn))
    (fun i j x hij hj h1 h2 => valF_orbit M q hij hj h1 h2)

theorem homF_xT {q : Nat → TGroup b}
    (hq : ∀ x i, (x, i, none) ∈ spanningTree a → q (a.dset.opU i x) = q x * pf b f x i)
    {x i : Nat} (h : FacetR a x i) :
    homF M hq (xT a x i) = q x * xT b (f x) i * (q (a.dset.opU i x))⁻¹ := by
  unfold homF
  rw [tgroupLift_xT M.ha _ _ _ _ h]
  unfold valF pf
  rw [opT_eq h.2.2 h.1 h.2.1]

end hom

/-! ### mutually inverse morphisms of connected symbols -/

/-- two homomorphisms from the textbook group that agree on the facet generators are equal -/
theorem tgroup_hom_ext {a : DSymData} {H : Type} [Group H] (u w : TGroup a →* H)
    (h : ∀ x i, FacetR a x i → u (xT a x i) = w (xT a x i)) : u = w := by
  apply PresentedGroup.ext
  intro j
  by_cases hc : isCode a j
  · have e : (PresentedGroup.of j : TGroup a) = xT a (decD a j) (decI a j) := of_eq_xT hc
    rw [e]
    exact h _ _ hc.1
  · have e : (PresentedGroup.of j : TGroup a) = 1 := of_not_code hc
    rw [e, map_one, map_one]

section iso
variable {a b : DSymData} {f g : Nat → Nat} (F : SymMor a b f) (G : SymMor b a g)
  (hgf : ∀ x, 1 ≤ x → x ≤ a.size → g (f x) = x)

include hgf in
/-- the composite `TGroup a → TGroup b → TGroup a` is an inner automorphism -/
theorem comp_is_conj (hsz : 1 ≤ a.size) (hconn : a.view.isConnected = true)
    {q : Nat → TGroup b}
    (hq : ∀ x i, (x, i, none) ∈ spanningTree a → q (a.dset.opU i x) = q x * pf b f x i)
    {q' : Nat → TGroup a}
    (hq' : ∀ y i, (y, i, none) ∈ spanningTree b → q' (b.dset.opU i y) = q' y * pf a g y i) :
    ∃ A0 : TGroup a, ∀ y : TGroup a, homF G hq' (homF F hq y) = A0 * y * A0⁻¹ := by
  let A : Nat → TGroup a := fun x => homF G hq' (q x) * q' (f x)
  -- the composite on a generator
  have hgen : ∀ x i, FacetR a x i →
      homF G hq' (homF F hq (xT a x i)) = A x * xT a x i * (A (a.dset.opU i x))⁻¹ := by
    intro x i h
    have hp := F.maps x h.1 h.2.1
    have hib : i ≤ b.dim := by rw [← F.dim]; exact h.2.2
    have hfb : FacetR b (f x) i := ⟨hp.1, hp.2, hib⟩
    rw [homF_xT F hq h, map_mul, map_mul, map_inv, homF_xT G hq' hfb, hgf x h.1 h.2.1,
      ← F.comm i x h.2.2 h.1 h.2.1]
    show _ = (homF G hq' (q x) * q' (f x)) * xT a x i *
      (homF G hq' (q (a.dset.opU i x)) * q' (f (a.dset.opU i x)))⁻¹
    group
  -- `A` is constant along the tree
  have htree : ∀ x i, (x, i, none) ∈ spanningTree a → FacetR a x i → A (a.dset.opU i x) = A x := by
    intro x i hmem h
    have hp := F.maps x h.1 h.2.1
    have hib : i ≤ b.dim := by rw [← F.dim]; exact h.2.2
    have hfb : FacetR b (f x) i := ⟨hp.1, hp.2, hib⟩
    show homF G hq' (q (a.dset.opU i x)) * q' (f (a.dset.opU i x)) = homF G hq' (q x) * q' (f x)
    rw [hq x i hmem, map_mul]
    unfold pf
    rw [homF_xT G hq' hfb, hgf x h.1 h.2.1, xT_tree hmem, ← F.comm i x h.2.2 h.1 h.2.1]
    group
  obtain ⟨hitems0, _, root, hr1, hr2, hreach⟩ := C09_spanning F.ha.set hsz hconn
  have hconst : ∀ x, TreeReach a (spanningTree a) root x → (1 ≤ x ∧ x ≤ a.size) ∧ A x = A root := by
    intro x ht
    induction ht with
    | root => exact ⟨⟨hr1, hr2⟩, rfl⟩
    | @step d i _ hmem ih =>
      obtain ⟨hd, he⟩ := ih
      have hit := (hitems0 _ hmem).2
      have hfac : FacetR a d i := ⟨hd.1, hd.2, hit.2.2⟩
      exact ⟨F.ha.set.range i d hfac.2.2 hfac.1 hfac.2.1, by rw [htree d i hmem hfac]; exact he⟩
  refine ⟨A root, ?_⟩
  have hext : (homF G hq').comp (homF F hq) = (MulAut.conj (A root)).toMonoidHom := by
    apply tgroup_hom_ext
    intro x i h
    have hx' := F.ha.set.range i x h.2.2 h.1 h.2.1
    show homF G hq' (homF F hq (xT a x i)) = MulAut.conj (A root) (xT a x i)
    rw [hgen x i h, (hconst x (hreach x h.1 h.2.1)).2, (hconst _ (hreach _ hx'.1 hx'.2)).2,
      MulAut.conj_apply]
  intro y
  have := congrArg (fun u => u y) hext
  simpa [MulAut.conj_apply] using this

end iso

/-- **isomorphic connected symbols have isomorphic textbook groups** -/
theorem tgroup_iso_of_symIso {a b : DSymData} {f g : Nat → Nat} (F : SymMor a b f) (G : SymMor b a g)
    (hgf : ∀ x, 1 ≤ x → x ≤ a.size → g (f x) = x) (hfg : ∀ y, 1 ≤ y → y ≤ b.size → f (g y) = y)
    (hsza : 1 ≤ a.size) (hszb : 1 ≤ b.size)
    (hca : a.view.isConnected = true) (hcb : b.view.isConnected = true) :
    Nonempty (TGroup a ≃* TGroup b) := by
  obtain ⟨q, hq⟩ := exists_gauge F.ha.set (pf b f)
  obtain ⟨q', hq'⟩ := exists_gauge G.ha.set (pf a g)
  obtain ⟨A0, hA⟩ := comp_is_conj F G hgf hsza hca hq hq'
  obtain ⟨B0, hB⟩ := comp_is_conj G F hfg hszb hcb hq' hq
  have hinj : Function.Injective (homF F hq) := by
    intro x y hxy
    have h1 := hA x
    have h2 := hA y
    rw [hxy, h2] at h1
    have : A0 * y * A0⁻¹ = A0 * x * A0⁻¹ := h1
    have h3 := mul_right_cancel this
    exact (mul_left_cancel h3).symm
  have hsurj : Function.Surjective (homF F hq) := by
    intro y
    refine ⟨homF G hq' (B0⁻¹ * y * B0), ?_⟩
    rw [hB]
    group
  exact ⟨MulEquiv.ofBijective (homF F hq) ⟨hinj, hsurj⟩⟩

end DSymVerif.CoversP

namespace DSymVerif.CoversP
open DSymVerif DSymVerif.DS DSymVerif.FG DSymVerif.FGP

/-- an injective self-map of `1..N` is onto -/
theorem surj_of_inj_Icc {N : Nat} {φ : Nat → Nat}
    (hmaps : ∀ d, 1 ≤ d → d ≤ N → 1 ≤ φ d ∧ φ d ≤ N)
    (hinj : ∀ a b, 1 ≤ a → a ≤ N → 1 ≤ b → b ≤ N → φ a = φ b → a = b) :
    ∀ y, 1 ≤ y → y ≤ N → ∃ x, 1 ≤ x ∧ x ≤ N ∧ φ x = y := by
  let φ' : Finset.Icc 1 N → Finset.Icc 1 N := fun x =>
    ⟨φ x.1, by
      have hx := Finset.mem_Icc.mp x.2
      exact Finset.mem_Icc.mpr (hmaps x.1 hx.1 hx.2)⟩
  have hi : Function.Injective φ' := by
    intro x y hxy
    have hx := Finset.mem_Icc.mp x.2
    have hy := Finset.mem_Icc.mp y.2
    have : φ x.1 = φ y.1 := congrArg Subtype.val hxy
    exact Subtype.ext (hinj x.1 y.1 hx.1 hx.2 hy.1 hy.2 this)
  have hs := Finite.surjective_of_injective hi
  intro y h1 h2
  obtain ⟨x, hx⟩ := hs ⟨y, Finset.mem_Icc.mpr ⟨h1, h2⟩⟩
  have hxm := Finset.mem_Icc.mp x.2
  exact ⟨x.1, hxm.1, hxm.2, congrArg Subtype.val hx⟩

/-- **coverings isomorphic over the base have isomorphic textbook groups** (connected) -/
theorem tgroup_iso_of_coverIso {s c1 c2 : DSymData} {k1 k2 : Nat} {φ : Nat → Nat}
    (h1 : IsCoverOf s c1 k1) (h2 : IsCoverOf s c2 k2) (hsize : c2.size = c1.size)
    (hiso : CoverIso s c1 c2 c1.size φ) (hsz : 1 ≤ s.size)
    (hc1 : c1.view.isConnected = true) (hc2 : c2.view.isConnected = true) :
    Nonempty (TGroup c1 ≃* TGroup c2) := by
  have hsurj := surj_of_inj_Icc hiso.maps hiso.inj
  classical
  let g : Nat → Nat := fun y =>
    if h : ∃ x, 1 ≤ x ∧ x ≤ c1.size ∧ φ x = y then Classical.choose h else y
  have hg : ∀ y, 1 ≤ y → y ≤ c1.size → (1 ≤ g y ∧ g y ≤ c1.size) ∧ φ (g y) = y := by
    intro y hy1 hy2
    have hex := hsurj y hy1 hy2
    have hgy : g y = Classical.choose hex := dif_pos hex
    have hsp := Classical.choose_spec hex
    rw [hgy]
    exact ⟨⟨hsp.1, hsp.2.1⟩, hsp.2.2⟩
  have hgφ : ∀ x, 1 ≤ x → x ≤ c1.size → g (φ x) = x := by
    intro x hx1 hx2
    have hm := hiso.maps x hx1 hx2
    have hgy := hg (φ x) hm.1 hm.2
    exact hiso.inj _ _ hgy.1.1 hgy.1.2 hx1 hx2 hgy.2
  have hsz1 : c1.size = k1 * s.size := h1.size
  have hsz2 : c2.size = k2 * s.size := h2.size
  have F : SymMor c1 c2 φ := by
    refine ⟨h1.valid, h2.valid, by rw [h1.dim, h2.dim], ?_, ?_, ?_⟩
    · intro x hx1 hx2
      have := hiso.maps x hx1 hx2
      exact ⟨this.1, by rw [hsize]; exact this.2⟩
    · intro i x hi hx1 hx2
      exact hiso.comm i x (by rw [← h1.dim]; exact hi) hx1 hx2
    · intro i j x hi hj hx1 hx2
      have hm := hiso.maps x hx1 hx2
      rw [h1.deg i j x (by rw [← h1.dim]; exact hi) (by rw [← h1.dim]; exact hj) hx1 (by rw [← hsz1]; exact hx2),
        h2.deg i j (φ x) (by rw [← h1.dim]; exact hi) (by rw [← h1.dim]; exact hj) hm.1
          (by rw [← hsz2, hsize]; exact hm.2),
        hiso.proj x hx1 hx2]
  have G : SymMor c2 c1 g := by
    refine ⟨h2.valid, h1.valid, by rw [h1.dim, h2.dim], ?_, ?_, ?_⟩
    · intro y hy1 hy2
      exact (hg y hy1 (by rw [← hsize]; exact hy2)).1
    · intro i y hi hy1 hy2
      have hy2' : y ≤ c1.size := by rw [← hsize]; exact hy2
      obtain ⟨hr, he⟩ := hg y hy1 hy2'
      have hi1 : i ≤ c1.dim := by rw [h1.dim, ← h2.dim]; exact hi
      have hcomm := hiso.comm i (g y) (by rw [← h1.dim]; exact hi1) hr.1 hr.2
      rw [he] at hcomm
      rw [← hcomm]
      have hrr := h1.valid.set.range i (g y) hi1 hr.1 hr.2
      exact hgφ _ hrr.1 hrr.2
    · intro i j y hi hj hy1 hy2
      have hy2' : y ≤ c1.size := by rw [← hsize]; exact hy2
      obtain ⟨hr, he⟩ := hg y hy1 hy2'
      have his : i ≤ s.dim := by rw [← h2.dim]; exact hi
      have hjs : j ≤ s.dim := by rw [← h2.dim]; exact hj
      have hp := hiso.proj (g y) hr.1 hr.2
      rw [he] at hp
      rw [h2.deg i j y his hjs hy1 (by rw [← hsz2]; exact hy2),
        h1.deg i j (g y) his hjs hr.1 (by rw [← hsz1]; exact hr.2), hp]
  have hpos1 : 1 ≤ c1.size := by rw [hsz1]; exact Nat.mul_pos h1.sheets hsz
  exact tgroup_iso_of_symIso F G hgφ
    (fun y hy1 hy2 => (hg y hy1 (by rw [← hsize]; exact hy2)).2)
    hpos1 (by rw [hsize]; exact hpos1) hc1 hc2

/-- composition of two embeddings: injective, and the index of the range is the product -/
theorem embed_comp {A B C : Type} [Group A] [Group B] [Group C] (φ : A →* B) (ψ : B →* C)
    (hφ : Function.Injective φ) (hψ : Function.Injective ψ) :
    Function.Injective (ψ.comp φ) ∧ (ψ.comp φ).range.index = φ.range.index * ψ.range.index := by
  refine ⟨hψ.comp hφ, ?_⟩
  rw [MonoidHom.range_comp, Subgroup.index_map_of_injective _ hψ]

end DSymVerif.CoversP
