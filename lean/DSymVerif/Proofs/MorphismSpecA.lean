/-
Helper lemmas for property C04, part 15: the Spec's partition-refinement oracle
(Spec/C04.lean: `relabel`, `countClasses`, `refineStep`, `refineAux`, `coarsest`, `classes`).
Part A: `relabel` labels every chamber with the least chamber of the same signature, and a
refinement with the same number of classes is the same partition.
-/
import Mathlib.Data.Finset.Card
import DSymVerif.Spec.C04

namespace DSymVerif.SpecC04P
open DSymVerif.SpecC04

/-- `find?` on `range d` returns the least index satisfying `p` -/
theorem find_range (p : Nat → Bool) : ∀ d,
    match (List.range d).find? p with
    | some d0 => d0 < d ∧ p d0 = true ∧ ∀ e, e < d0 → p e = false
    | none => ∀ e, e < d → p e = false
  | 0 => by simp
  | d + 1 => by
    have ih := find_range p d
    rw [List.range_succ, List.find?_append]
    cases h : (List.range d).find? p with
    | some d0 =>
      rw [h] at ih
      simp only [Option.some_or]
      exact ⟨by omega, ih.2.1, ih.2.2⟩
    | none =>
      rw [h] at ih
      simp only [Option.none_or, List.find?_cons, List.find?_nil]
      cases hp : p d with
      | true =>
        exact ⟨by omega, hp, ih⟩
      | false =>
        intro e he
        by_cases hed : e = d
        · subst hed; exact hp
        · exact ih e (by omega)

/-- entry d of `relabel n sig` -/
theorem relabel_getD (n : Nat) (sig : Nat → List Nat) (d : Nat) (hd1 : 1 ≤ d) (hd2 : d ≤ n) :
    (relabel n sig).getD d 0 =
      match (List.range d).find? (fun d0 => sig (d0 + 1) == sig d) with
      | some d0 => d0 + 1
      | none => d := by
  unfold relabel
  have hd : d < n + 1 := by omega
  simp [Array.getD_eq_getD_getElem?, hd]
  rw [if_neg (by omega)]
  generalize List.find? (fun d0 => sig (d0 + 1) == sig d) (List.range d) = o
  cases o <;> rfl

/-- `relabel` labels d with the least chamber of the same signature -/
theorem relabel_spec (n : Nat) (sig : Nat → List Nat) (d : Nat) (hd1 : 1 ≤ d) (hd2 : d ≤ n) :
    1 ≤ (relabel n sig).getD d 0 ∧ (relabel n sig).getD d 0 ≤ d ∧
    sig ((relabel n sig).getD d 0) = sig d ∧
    ∀ e, 1 ≤ e → e < (relabel n sig).getD d 0 → sig e ≠ sig d := by
  rw [relabel_getD n sig d hd1 hd2]
  have := find_range (fun d0 => sig (d0 + 1) == sig d) d
  cases h : (List.range d).find? (fun d0 => sig (d0 + 1) == sig d) with
  | some d0 =>
    rw [h] at this
    have t1 : d0 < d := this.1
    have t2 : sig (d0 + 1) = sig d := by simpa using this.2.1
    have t3 : ∀ e, e < d0 → (sig (e + 1) == sig d) = false := this.2.2
    show 1 ≤ d0 + 1 ∧ d0 + 1 ≤ d ∧ sig (d0 + 1) = sig d ∧ ∀ e, 1 ≤ e → e < d0 + 1 → sig e ≠ sig d
    refine ⟨by omega, by omega, t2, fun e he1 he2 => ?_⟩
    have := t3 (e - 1) (by omega)
    have e1 : e - 1 + 1 = e := by omega
    rw [e1] at this
    simpa using this
  | none =>
    rw [h] at this
    have t3 : ∀ e, e < d → (sig (e + 1) == sig d) = false := this
    show 1 ≤ d ∧ d ≤ d ∧ sig d = sig d ∧ ∀ e, 1 ≤ e → e < d → sig e ≠ sig d
    refine ⟨hd1, Nat.le_refl _, rfl, fun e he1 he2 => ?_⟩
    have := t3 (e - 1) (by omega)
    have e1 : e - 1 + 1 = e := by omega
    rw [e1] at this
    simpa using this

theorem relabel_eq_iff (n : Nat) (sig : Nat → List Nat) (d d' : Nat) (hd1 : 1 ≤ d) (hd2 : d ≤ n)
    (hd1' : 1 ≤ d') (hd2' : d' ≤ n) :
    (relabel n sig).getD d 0 = (relabel n sig).getD d' 0 ↔ sig d = sig d' := by
  have a := relabel_spec n sig d hd1 hd2
  have b := relabel_spec n sig d' hd1' hd2'
  constructor
  · intro h
    rw [← a.2.2.1, ← b.2.2.1, h]
  · intro h
    by_contra hne
    rcases Nat.lt_or_gt_of_ne hne with hlt | hgt
    · exact b.2.2.2 _ a.1 hlt (by rw [a.2.2.1, h])
    · exact a.2.2.2 _ b.1 hgt (by rw [b.2.2.1, h])

/-- a labelling of 1..n by class minima -/
structure Canon (n : Nat) (L : Nat → Nat) : Prop where
  range : ∀ d, 1 ≤ d → d ≤ n → 1 ≤ L d ∧ L d ≤ d
  idem : ∀ d, 1 ≤ d → d ≤ n → L (L d) = L d

theorem relabel_canon (n : Nat) (sig : Nat → List Nat) : Canon n (fun d => (relabel n sig).getD d 0) := by
  refine ⟨fun d h1 h2 => ?_, fun d h1 h2 => ?_⟩
  · have a := relabel_spec n sig d h1 h2
    exact ⟨a.1, a.2.1⟩
  · have a := relabel_spec n sig d h1 h2
    exact (relabel_eq_iff n sig _ d a.1 (by omega) h1 h2).2 a.2.2.1

/-- the class minima -/
def reps (n : Nat) (L : Nat → Nat) : Finset Nat := (Finset.range n).filter (fun d0 => L (d0 + 1) = d0 + 1)

theorem countClasses_eq (n : Nat) (l : Array Nat) :
    countClasses n l = (reps n (fun d => l.getD d 0)).card := by
  unfold countClasses reps
  rw [Finset.card_def, Finset.filter_val, Finset.range_val, Multiset.range, Multiset.filter_coe,
    Multiset.coe_card]
  congr 1

/-- a refinement with the same number of classes is the same partition -/
theorem same_partition {n : Nat} {L L' : Nat → Nat} (hL : Canon n L) (hL' : Canon n L')
    (href : ∀ d d', 1 ≤ d → d ≤ n → 1 ≤ d' → d' ≤ n → L' d = L' d' → L d = L d')
    (hcard : (reps n L').card ≤ (reps n L).card) :
    ∀ d d', 1 ≤ d → d ≤ n → 1 ≤ d' → d' ≤ n → L d = L d' → L' d = L' d' := by
  -- r ↦ L r maps the class minima of L' onto those of L
  have mem : ∀ {M : Nat → Nat} {x : Nat}, x ∈ reps n M ↔ x < n ∧ M (x + 1) = x + 1 := by
    intro M x; simp [reps]
  have hmaps : Set.MapsTo (fun d0 => L (d0 + 1) - 1) (reps n L' : Set Nat) (reps n L : Set Nat) := by
    intro d0 hd0
    have h := mem.1 (by simpa using hd0)
    have r := hL.range (d0 + 1) (by omega) (by omega)
    have : L (d0 + 1) - 1 + 1 = L (d0 + 1) := by omega
    simp only [Finset.mem_coe]
    exact mem.2 ⟨by omega, by rw [this]; exact hL.idem (d0 + 1) (by omega) (by omega)⟩
  have hsurj : Set.SurjOn (fun d0 => L (d0 + 1) - 1) (reps n L' : Set Nat) (reps n L : Set Nat) := by
    intro r0 hr0
    have h := mem.1 (by simpa using hr0)
    have r := hL'.range (r0 + 1) (by omega) (by omega)
    refine ⟨L' (r0 + 1) - 1, ?_, ?_⟩
    · have e : L' (r0 + 1) - 1 + 1 = L' (r0 + 1) := by omega
      simp only [Finset.mem_coe]
      exact mem.2 ⟨by omega, by rw [e]; exact hL'.idem (r0 + 1) (by omega) (by omega)⟩
    · have e : L' (r0 + 1) - 1 + 1 = L' (r0 + 1) := by omega
      show L (L' (r0 + 1) - 1 + 1) - 1 = r0
      rw [e]
      have := href (L' (r0 + 1)) (r0 + 1) r.1 (by omega) (by omega) (by omega)
        (hL'.idem (r0 + 1) (by omega) (by omega))
      rw [this, h.2]; rfl
  have hinj := Finset.injOn_of_surjOn_of_card_le _ hmaps hsurj hcard
  intro d d' hd1 hd2 hd1' hd2' hdd
  have ra := hL'.range d hd1 hd2
  have rb := hL'.range d' hd1' hd2'
  have ha : L' d - 1 ∈ (reps n L' : Set Nat) := by
    have e : L' d - 1 + 1 = L' d := by omega
    simp only [Finset.mem_coe]
    exact mem.2 ⟨by omega, by rw [e]; exact hL'.idem d hd1 hd2⟩
  have hb : L' d' - 1 ∈ (reps n L' : Set Nat) := by
    have e : L' d' - 1 + 1 = L' d' := by omega
    simp only [Finset.mem_coe]
    exact mem.2 ⟨by omega, by rw [e]; exact hL'.idem d' hd1' hd2'⟩
  have hab : (fun d0 => L (d0 + 1) - 1) (L' d - 1) = (fun d0 => L (d0 + 1) - 1) (L' d' - 1) := by
    have e1 : L' d - 1 + 1 = L' d := by omega
    have e2 : L' d' - 1 + 1 = L' d' := by omega
    show L (L' d - 1 + 1) - 1 = L (L' d' - 1 + 1) - 1
    rw [e1, e2]
    have h1 := href (L' d) d ra.1 (by omega) hd1 hd2 (hL'.idem d hd1 hd2)
    have h2 := href (L' d') d' rb.1 (by omega) hd1' hd2' (hL'.idem d' hd1' hd2')
    rw [h1, h2, hdd]
  have := hinj ha hb hab
  omega

/-- the number of classes does not decrease under refinement -/
theorem card_le_of_refines {n : Nat} {L L' : Nat → Nat} (hL : Canon n L) (hL' : Canon n L')
    (href : ∀ d d', 1 ≤ d → d ≤ n → 1 ≤ d' → d' ≤ n → L' d = L' d' → L d = L d') :
    (reps n L).card ≤ (reps n L').card := by
  have mem : ∀ {M : Nat → Nat} {x : Nat}, x ∈ reps n M ↔ x < n ∧ M (x + 1) = x + 1 := by
    intro M x; simp [reps]
  apply Finset.card_le_card_of_surjOn (fun d0 => L (d0 + 1) - 1)
  intro r0 hr0
  have h := mem.1 (by simpa using hr0)
  have r := hL'.range (r0 + 1) (by omega) (by omega)
  refine ⟨L' (r0 + 1) - 1, ?_, ?_⟩
  · have e : L' (r0 + 1) - 1 + 1 = L' (r0 + 1) := by omega
    simp only [Finset.mem_coe]
    exact mem.2 ⟨by omega, by rw [e]; exact hL'.idem (r0 + 1) (by omega) (by omega)⟩
  · have e : L' (r0 + 1) - 1 + 1 = L' (r0 + 1) := by omega
    show L (L' (r0 + 1) - 1 + 1) - 1 = r0
    rw [e]
    have := href (L' (r0 + 1)) (r0 + 1) r.1 (by omega) (by omega) (by omega)
      (hL'.idem (r0 + 1) (by omega) (by omega))
    rw [this, h.2]; rfl

theorem card_reps_le (n : Nat) (L : Nat → Nat) : (reps n L).card ≤ n := by
  unfold reps
  exact (Finset.card_filter_le _ _).trans (by simp)

end DSymVerif.SpecC04P
