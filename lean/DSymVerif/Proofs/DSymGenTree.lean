/-
Lemmas about the model of the D-symbol generator, part 5: which branching vectors the search
tree reaches.  The bookkeeping value `scaled` is antitone in every branching number (exact
divisions, part 4), so

* `children` keeps every value `v` whose prefix state has curvature ≥ 0 inside the window, and
  stopping at the first negative value loses nothing: a vector that raises a later orbit, or
  this orbit further, above a negative prefix is not minimally hyperbolic;
* the leaves (`next ≥ count`) of the tree of a context with `base_curvature ≥ 0` are exactly
  the admissible vectors (one entry per orbit, between the orbit's minimum and 7) whose
  curvature is ≥ `min_curvature` and either non-negative or minimally hyperbolic.
-/
import DSymVerif.Proofs.DSymGenCurv

namespace DSymVerif.SymGen
open DSymVerif.DS

/-! ### monotonicity of the bookkeeping value -/

theorem scaled_congr (c : Ctx) (vs ws : List Nat)
    (h : ∀ i, i < c.count → vs.getD i 0 = ws.getD i 0) : scaled c vs = scaled c ws := by
  unfold scaled
  congr 1
  apply sum_map_range_congr
  intro i hi
  rw [h i hi]

theorem kAt_nonneg (c : Ctx) (i : Nat) : 0 ≤ kAt c i := by
  unfold kAt
  rcases kOf_cases (c.isChain.getD i false) with h | h <;> rw [h] <;> decide

theorem termZ_mono (c : Ctx) (i w v : Nat) (h1 : 1 ≤ w) (h2 : w ≤ v) (h3 : v ≤ Tables.genVMax) :
    termZ c i v ≤ termZ c i w := by
  have hw := (termZ_exact c i w h1 (by omega)).1
  have hv := (termZ_exact c i v (by omega) h3).1
  have hk : 0 ≤ kAt c i * curvFac := Int.mul_nonneg (kAt_nonneg c i) (Int.le_of_lt curvFac_pos)
  have hv0 : (0 : Int) < (v : Int) := by omega
  have hw0 : (0 : Int) < (w : Int) := by omega
  have hwv : (w : Int) ≤ (v : Int) := by omega
  have hb : 0 ≤ termZ c i v := by
    by_contra hneg
    have : termZ c i v * (v : Int) < 0 := Int.mul_neg_of_neg_of_pos (by omega) hv0
    omega
  have h : termZ c i w * (w : Int) = termZ c i v * (v : Int) := by rw [hw, hv]
  nlinarith

theorem sum_map_range_le (f g : Nat → Int) (N : Nat) (h : ∀ i, i < N → f i ≤ g i) :
    ((List.range N).map f).sum ≤ ((List.range N).map g).sum := by
  induction N with
  | zero => simp
  | succ N ih =>
    rw [List.range_succ, List.map_append, List.map_append, List.sum_append, List.sum_append]
    simp only [List.map_cons, List.map_nil, List.sum_cons, List.sum_nil, Int.add_zero]
    have := ih (fun i hi => h i (by omega))
    have := h N (by omega)
    omega

/-- raising branching numbers (within 1..7) does not raise the curvature -/
theorem scaled_mono (c : Ctx) (vs ws : List Nat)
    (h : ∀ i, i < c.count → 1 ≤ ws.getD i 0 ∧ ws.getD i 0 ≤ vs.getD i 0 ∧ vs.getD i 0 ≤ Tables.genVMax) :
    scaled c vs ≤ scaled c ws := by
  unfold scaled
  have := sum_map_range_le (fun i => termZ c i (vs.getD i 0)) (fun i => termZ c i (ws.getD i 0)) c.count
    (fun i hi => termZ_mono c i _ _ (h i hi).1 (h i hi).2.1 (h i hi).2.2)
  omega

/-! ### admissible vectors, minimal hyperbolicity -/

/-- one entry per orbit, between the orbit's minimum and 7 -/
def Adm (c : Ctx) (vs : List Nat) : Prop :=
  vs.length = c.count ∧
  ∀ i, i < c.count → c.vmins.getD i 0 ≤ vs.getD i 0 ∧ vs.getD i 0 ≤ Tables.genVMax

/-- negative, and non-negative after lowering any single entry that is above its minimum -/
def MinHyp (c : Ctx) (vs : List Nat) : Prop :=
  scaled c vs < 0 ∧
  ∀ i, i < c.count → vs.getD i 0 > c.vmins.getD i 0 → 0 ≤ scaled c (vs.set i (vs.getD i 0 - 1))

theorem loweredCurv_eq (c : Ctx) (vs : List Nat) (hl : vs.length = c.count) (i : Nat) (hi : i < c.count)
    (hgt : vs.getD i 0 > c.vmins.getD i 0) :
    loweredCurv c vs (scaled c vs) i = scaled c (vs.set i (vs.getD i 0 - 1)) := by
  rw [scaled_set c vs i _ hi hl]
  unfold loweredCurv termZ
  have : ((vs.getD i 0 - 1 : Nat) : Int) = (vs.getD i 0 : Int) - 1 := by omega
  rw [this]

theorem minHypPure_iff (c : Ctx) (vs : List Nat) (hl : vs.length = c.count) :
    minHypPure c vs (scaled c vs) = true ↔ MinHyp c vs := by
  simp only [minHypPure, minHypAt, Bool.and_eq_true, decide_eq_true_eq, List.all_eq_true,
    List.mem_range, MinHyp]
  constructor
  · rintro ⟨h1, h2⟩
    refine ⟨h1, fun i hi hgt => ?_⟩
    rw [← loweredCurv_eq c vs hl i hi hgt]
    exact h2 i hi hgt
  · rintro ⟨h1, h2⟩
    refine ⟨h1, fun i hi hgt => ?_⟩
    rw [loweredCurv_eq c vs hl i hi hgt]
    exact h2 i hi hgt

/-! ### exact description of the `for v` loop -/

/-- the curvature `children` computes for the value `w` of orbit `n` -/
def cvOf (c : Ctx) (s : State) (n vmin w : Nat) : Int := s.curv - termZ c n vmin + termZ c n w

/-- the loop passes `w` without `break` -/
def Passes (c : Ctx) (s : State) (n vmin w : Nat) : Prop :=
  ¬ (c.minCurv ≤ cvOf c s n vmin w ∧ cvOf c s n vmin w < 0)

/-- `x` is what the loop body pushes for the value `v` -/
def Pushed (c : Ctx) (s : State) (n vmin v : Nat) (x : State) : Prop :=
  c.minCurv ≤ cvOf c s n vmin v ∧
  ((0 ≤ cvOf c s n vmin v ∧ x = { vs := s.vs.set n v, curv := cvOf c s n vmin v, next := s.next + 1 }) ∨
   (cvOf c s n vmin v < 0 ∧ minHypPure c (s.vs.set n v) (cvOf c s n vmin v) = true ∧
    x = { vs := s.vs.set n v, curv := cvOf c s n vmin v, next := c.count }))

theorem childPure_mem (c : Ctx) (s : State) (n vmin : Nat) (x : State) :
    ∀ (k a : Nat), x ∈ childPure c s n vmin (List.range' a k) ↔
      ∃ v, a ≤ v ∧ v < a + k ∧ (∀ w, a ≤ w → w < v → Passes c s n vmin w) ∧ Pushed c s n vmin v x := by
  intro k
  induction k with
  | zero =>
    intro a
    simp only [List.range'_zero, childPure, List.not_mem_nil, false_iff]
    rintro ⟨v, h1, h2, _⟩
    omega
  | succ k ih =>
    intro a
    rw [List.range'_succ]
    simp only [childPure]
    have hcv : s.curv - termZ c n vmin + termZ c n a = cvOf c s n vmin a := rfl
    rw [hcv]
    -- the tail, shifted
    have tail_iff : x ∈ childPure c s n vmin (List.range' (a + 1) k) ↔
        ∃ v, a + 1 ≤ v ∧ v < a + 1 + k ∧ (∀ w, a + 1 ≤ w → w < v → Passes c s n vmin w) ∧
          Pushed c s n vmin v x := ih (a + 1)
    by_cases h1 : cvOf c s n vmin a ≥ c.minCurv
    · rw [if_pos h1]
      by_cases h2 : cvOf c s n vmin a < 0
      · rw [if_pos h2]
        -- break: only `a` itself can be pushed
        constructor
        · intro hx
          by_cases h3 : minHypPure c (s.vs.set n a) (cvOf c s n vmin a) = true
          · rw [if_pos h3] at hx
            simp only [List.mem_singleton] at hx
            exact ⟨a, Nat.le_refl _, by omega, fun w hw1 hw2 => by omega, h1, Or.inr ⟨h2, h3, hx⟩⟩
          · rw [if_neg h3] at hx
            cases hx
        · rintro ⟨v, hv1, hv2, hpass, hp⟩
          have hva : v = a := by
            by_contra hne
            exact hpass a (Nat.le_refl _) (by omega) ⟨h1, h2⟩
          subst hva
          rcases hp.2 with ⟨h0, _⟩ | ⟨_, h3, hx⟩
          · omega
          · rw [if_pos h3, hx]; simp
      · rw [if_neg h2, List.mem_cons, tail_iff]
        constructor
        · rintro (hx | ⟨v, hv1, hv2, hpass, hp⟩)
          · exact ⟨a, Nat.le_refl _, by omega, fun w hw1 hw2 => by omega, h1, Or.inl ⟨by omega, hx⟩⟩
          · refine ⟨v, by omega, by omega, fun w hw1 hw2 => ?_, hp⟩
            by_cases hwa : w = a
            · subst hwa; exact fun h => h2 h.2
            · exact hpass w (by omega) hw2
        · rintro ⟨v, hv1, hv2, hpass, hp⟩
          by_cases hva : v = a
          · subst hva
            rcases hp.2 with ⟨_, hx⟩ | ⟨h0, _⟩
            · exact Or.inl hx
            · exact absurd h0 h2
          · exact Or.inr ⟨v, by omega, by omega, fun w hw1 hw2 => hpass w (by omega) hw2, hp⟩
    · rw [if_neg h1, tail_iff]
      constructor
      · rintro ⟨v, hv1, hv2, hpass, hp⟩
        refine ⟨v, by omega, by omega, fun w hw1 hw2 => ?_, hp⟩
        by_cases hwa : w = a
        · subst hwa; exact fun h => h1 h.1
        · exact hpass w (by omega) hw2
      · rintro ⟨v, hv1, hv2, hpass, hp⟩
        by_cases hva : v = a
        · subst hva; exact absurd hp.1 h1
        · exact ⟨v, by omega, by omega, fun w hw1 hw2 => hpass w (by omega) hw2, hp⟩

/-- **`children_exhaustive`** (exact form): the children of a state satisfying the invariant are
    precisely the states pushed for those values `v` in `vs[n]..=7` that the loop reaches
    without `break` — no panic, nothing else dropped. -/
theorem children_iff {c : Ctx} (hw : WF c) {s : State} (hi : Inv c s) (hn : s.next < c.count)
    (hnb : ¬ c.baseCurv < 0) (x : Node) :
    x ∈ children c (.st s) ↔
      ∃ s' v, x = .st s' ∧ s.vs.getD s.next 0 ≤ v ∧ v ≤ Tables.genVMax ∧
        (∀ w, s.vs.getD s.next 0 ≤ w → w < v → Passes c s s.next (s.vs.getD s.next 0) w) ∧
        Pushed c s s.next (s.vs.getD s.next 0) v s' := by
  have hget : s.vs[s.next]? = some (s.vs.getD s.next 0) := getElem?_of_lt _ _ 0 (by rw [hi.len]; exact hn)
  have hvm : s.vs.getD s.next 0 ≠ 0 := by
    have := hw.vminPos s.next hn
    have := hi.lo s.next hn
    omega
  have hle : s.vs.getD s.next 0 ≤ Tables.genVMax := hi.hi s.next hn
  have hloop := childLoop_eq_pure hw hi.len hn hvm
    (List.range' (s.vs.getD s.next 0) (Tables.genVMax + 1 - s.vs.getD s.next 0))
    (fun v hv => by have := (List.mem_range'_1.mp hv).1; omega)
  simp only [children]
  rw [if_neg (by simp only [Bool.or_eq_true, decide_eq_true_eq, not_or]; exact ⟨by omega, hnb⟩)]
  simp only [hget, hloop, List.mem_map]
  constructor
  · rintro ⟨s', hs', rfl⟩
    obtain ⟨v, h1, h2, h3, h4⟩ := (childPure_mem c s s.next _ s' _ _).mp hs'
    exact ⟨s', v, rfl, h1, by omega, h3, h4⟩
  · rintro ⟨s', v, rfl, h1, h2, h3, h4⟩
    exact ⟨s', (childPure_mem c s s.next _ s' _ _).mpr ⟨v, h1, by omega, h3, h4⟩, rfl⟩

/-! ### soundness: what a reachable state looks like -/

/-- reachable states of a context with `base_curvature ≥ 0` have non-negative curvature or are
    minimally hyperbolic (only the latter are produced through `break`) -/
theorem reach_shape {c : Ctx} (hw : WF c) (hnb : ¬ c.baseCurv < 0) :
    ∀ x y, BT.Reach (problem c) x y →
      (∃ s, x = .st s ∧ Inv c s ∧ (0 ≤ s.curv ∨ minHypPure c s.vs s.curv = true)) →
      ∃ s, y = .st s ∧ Inv c s ∧ (0 ≤ s.curv ∨ minHypPure c s.vs s.curv = true) := by
  intro x y h
  induction h with
  | refl _ => exact id
  | step hc _ ih =>
    rintro ⟨s, rfl, hi, _⟩
    apply ih
    have hn : s.next < c.count := (children_st hc).1
    obtain ⟨s', v, rfl, _, _, _, hp⟩ := (children_iff hw hi hn hnb _).mp hc
    obtain ⟨s'', hs'', hi'⟩ := children_inv hw hi hc
    cases hs''
    refine ⟨s', rfl, hi', ?_⟩
    rcases hp.2 with ⟨h0, hx⟩ | ⟨_, h3, hx⟩
    · left; rw [hx]; exact h0
    · right; rw [hx]; exact h3

/-! ### completeness: every target vector is a leaf -/

/-- `ws` agrees with `vs` before `t` and is minimal from `t` on -/
def IsPrefix (c : Ctx) (vs : List Nat) (t : Nat) (ws : List Nat) : Prop :=
  ws.length = c.count ∧
  ∀ i, i < c.count → ws.getD i 0 = if i < t then vs.getD i 0 else c.vmins.getD i 0

theorem isPrefix_bounds {c : Ctx} (hw : WF c) {vs ws : List Nat} (ha : Adm c vs) {t : Nat}
    (hp : IsPrefix c vs t ws) (i : Nat) (hi : i < c.count) :
    1 ≤ ws.getD i 0 ∧ ws.getD i 0 ≤ vs.getD i 0 ∧ vs.getD i 0 ≤ Tables.genVMax := by
  have h1 := hw.vminPos i hi
  have h2 := ha.2 i hi
  rw [hp.2 i hi]
  split <;> omega

/-- the prefix states with non-negative curvature inside the window are all reachable -/
theorem reach_prefix {c : Ctx} (hw : WF c) (hnb : ¬ c.baseCurv < 0) {vs : List Nat} (ha : Adm c vs) :
    ∀ (t : Nat), t ≤ c.count → ∀ ws, IsPrefix c vs t ws → 0 ≤ scaled c ws → c.minCurv ≤ scaled c ws →
      ∃ s, BT.Reach (problem c) (root c) (.st s) ∧ s.next = t ∧ IsPrefix c vs t s.vs ∧ Inv c s := by
  intro t
  induction t with
  | zero =>
    intro _ ws _ _ _
    refine ⟨_, BT.Reach.refl _, ?_, ⟨rfl, fun i _ => by simp⟩, ?_⟩
    · show (if c.baseCurv < 0 then c.count else 0) = 0
      rw [if_neg hnb]
    · exact inv_root hw
  | succ t ih =>
    intro ht ws hp h0 hmin
    -- the prefix of length t: lower entry t to its minimum
    have htc : t < c.count := by omega
    let us := ws.set t (c.vmins.getD t 0)
    have hus : IsPrefix c vs t us := by
      refine ⟨by simp [us, hp.1], fun i hi => ?_⟩
      simp only [us]
      rw [getD_set ws t _ i (by rw [hp.1]; exact htc)]
      by_cases hit : i = t
      · subst hit; simp
      · rw [if_neg hit, hp.2 i hi]
        by_cases h1 : i < t
        · rw [if_pos h1, if_pos (by omega)]
        · rw [if_neg h1, if_neg (by omega)]
    have hmono : scaled c ws ≤ scaled c us := by
      apply scaled_mono
      intro i hi
      have hb := isPrefix_bounds hw ha hp i hi
      have hbu := isPrefix_bounds hw ha hus i hi
      refine ⟨hbu.1, ?_, by omega⟩
      rw [hus.2 i hi, hp.2 i hi]
      by_cases h1 : i < t
      · rw [if_pos h1, if_pos (by omega)]
      · rw [if_neg h1]
        by_cases h2 : i < t + 1
        · rw [if_pos h2]; exact (ha.2 i hi).1
        · rw [if_neg h2]
    obtain ⟨s, hr, hnext, hps, hinv⟩ := ih (by omega) us hus (by omega) (by omega)
    -- the child of `s` for the value vs[t]
    have hsn : s.next < c.count := by omega
    have hvt : s.vs.getD s.next 0 = c.vmins.getD t 0 := by
      rw [hnext, hps.2 t htc, if_neg (by omega)]
    let v := vs.getD t 0
    have hv := ha.2 t htc
    -- the vector of the child
    have hchild : IsPrefix c vs (t + 1) (s.vs.set s.next v) := by
      refine ⟨by simp [hinv.len], fun i hi => ?_⟩
      rw [getD_set s.vs s.next v i (by rw [hinv.len]; exact hsn), hnext]
      by_cases hit : i = t
      · subst hit; simp [v]
      · rw [if_neg hit, hps.2 i hi]
        by_cases h1 : i < t
        · rw [if_pos h1, if_pos (by omega)]
        · rw [if_neg h1, if_neg (by omega)]
    have hcongr : ∀ zs, IsPrefix c vs (t + 1) zs → scaled c zs = scaled c ws := by
      intro zs hz
      apply scaled_congr
      intro i hi
      rw [hz.2 i hi, hp.2 i hi]
    -- curvature computed by the loop for a value w of orbit t
    have hcv : ∀ w, cvOf c s s.next (s.vs.getD s.next 0) w = scaled c (s.vs.set s.next w) := by
      intro w
      unfold cvOf
      rw [scaled_set c s.vs s.next w hsn hinv.len, hinv.curv]
    have hcvv : cvOf c s s.next (s.vs.getD s.next 0) v = scaled c ws := by
      rw [hcv v]; exact hcongr _ hchild
    -- values below v keep the curvature ≥ that of the child
    have hbelow : ∀ w, s.vs.getD s.next 0 ≤ w → w < v → 0 ≤ cvOf c s s.next (s.vs.getD s.next 0) w := by
      intro w hw1 hw2
      rw [hcv w]
      have : scaled c (s.vs.set s.next v) ≤ scaled c (s.vs.set s.next w) := by
        apply scaled_mono
        intro i hi
        rw [getD_set s.vs s.next w i (by rw [hinv.len]; exact hsn),
            getD_set s.vs s.next v i (by rw [hinv.len]; exact hsn)]
        by_cases hit : i = s.next
        · rw [if_pos hit, if_pos hit]
          have := hw.vminPos t htc
          exact ⟨by omega, by omega, hv.2⟩
        · rw [if_neg hit, if_neg hit]
          have := hw.vminPos i hi
          have := hinv.lo i hi
          exact ⟨by omega, Nat.le_refl _, hinv.hi i hi⟩
      rw [hcongr _ hchild] at this
      omega
    let s' : State := { vs := s.vs.set s.next v, curv := cvOf c s s.next (s.vs.getD s.next 0) v, next := s.next + 1 }
    have hmem : Node.st s' ∈ children c (.st s) := by
      rw [children_iff hw hinv hsn hnb]
      refine ⟨s', v, rfl, by omega, hv.2, fun w hw1 hw2 h => ?_, ?_, Or.inl ⟨?_, rfl⟩⟩
      · have := hbelow w hw1 hw2; omega
      · rw [hcvv]; exact hmin
      · rw [hcvv]; exact h0
    obtain ⟨s'', hs'', hinv'⟩ := children_inv hw hinv hmem
    cases hs''
    refine ⟨s', ?_, by simp [s', hnext], hchild, hinv'⟩
    exact reach_trans hr (BT.Reach.step hmem (BT.Reach.refl _))
where
  reach_trans {c : Ctx} {a b d : Node} (h1 : BT.Reach (problem c) a b) (h2 : BT.Reach (problem c) b d) :
      BT.Reach (problem c) a d := by
    induction h1 with
    | refl _ => exact h2
    | step hc _ ih => exact BT.Reach.step hc (ih h2)

theorem reach_trans' {c : Ctx} {a b d : Node} (h1 : BT.Reach (problem c) a b)
    (h2 : BT.Reach (problem c) b d) : BT.Reach (problem c) a d := by
  induction h1 with
  | refl _ => exact h2
  | step hc _ ih => exact BT.Reach.step hc (ih h2)

theorem list_ext_getD (a b : List Nat) (hl : a.length = b.length)
    (h : ∀ i, i < a.length → a.getD i 0 = b.getD i 0) : a = b := by
  apply List.ext_getElem hl
  intro i h1 h2
  have := h i h1
  simpa [List.getD, List.getElem?_eq_getElem h1, List.getElem?_eq_getElem h2] using this

theorem isPrefix_full {c : Ctx} {vs ws : List Nat} (ha : Adm c vs) (hp : IsPrefix c vs c.count ws) :
    ws = vs := by
  apply list_ext_getD _ _ (by rw [hp.1, ha.1])
  intro i hi
  rw [hp.1] at hi
  rw [hp.2 i hi, if_pos hi]

/-- every admissible vector with non-negative curvature ≥ `min_curvature` is a leaf -/
theorem reach_leaf_nonneg {c : Ctx} (hw : WF c) (hnb : ¬ c.baseCurv < 0) {vs : List Nat}
    (ha : Adm c vs) (h0 : 0 ≤ scaled c vs) (hmin : c.minCurv ≤ scaled c vs) :
    ∃ s, BT.Reach (problem c) (root c) (.st s) ∧ s.next = c.count ∧ s.vs = vs ∧ s.curv = scaled c vs := by
  have hp : IsPrefix c vs c.count vs := ⟨ha.1, fun i hi => by rw [if_pos hi]⟩
  obtain ⟨s, hr, hn, hps, hinv⟩ := reach_prefix hw hnb ha c.count (Nat.le_refl _) vs hp h0 hmin
  have := isPrefix_full ha hps
  exact ⟨s, hr, hn, this, by rw [hinv.curv, this]⟩

/-- the last orbit whose branching number is above its minimum -/
theorem last_raised {c : Ctx} {vs : List Nat} (ha : Adm c vs) :
    ∀ N, N ≤ c.count → (∃ j, j < N ∧ vs.getD j 0 > c.vmins.getD j 0) →
      ∃ j, j < N ∧ vs.getD j 0 > c.vmins.getD j 0 ∧
        ∀ i, j < i → i < N → vs.getD i 0 = c.vmins.getD i 0 := by
  intro N
  induction N with
  | zero => rintro _ ⟨j, hj, _⟩; omega
  | succ N ih =>
    rintro hN ⟨j, hj, hgt⟩
    by_cases hlast : vs.getD N 0 > c.vmins.getD N 0
    · exact ⟨N, by omega, hlast, fun i h1 h2 => by omega⟩
    · have hjN : j < N := by
        rcases Nat.lt_or_ge j N with h | h
        · exact h
        · have : j = N := by omega
          subst this; exact absurd hgt hlast
      obtain ⟨j', hj', hgt', hrest⟩ := ih (by omega) ⟨j, hjN, hgt⟩
      refine ⟨j', by omega, hgt', fun i h1 h2 => ?_⟩
      by_cases hiN : i = N
      · subst hiN
        have := (ha.2 i (by omega)).1
        omega
      · exact hrest i h1 (by omega)

/-- every admissible minimally hyperbolic vector with curvature ≥ `min_curvature` is a leaf -/
theorem reach_leaf_hyp {c : Ctx} (hw : WF c) (hnb : ¬ c.baseCurv < 0) {vs : List Nat}
    (ha : Adm c vs) (hm : MinHyp c vs) (hmin : c.minCurv ≤ scaled c vs) :
    ∃ s, BT.Reach (problem c) (root c) (.st s) ∧ s.next = c.count ∧ s.vs = vs ∧ s.curv = scaled c vs := by
  -- some entry is above its minimum, otherwise the curvature is `base_curvature ≥ 0`
  have hex : ∃ j, j < c.count ∧ vs.getD j 0 > c.vmins.getD j 0 := by
    by_contra hne
    have heq : scaled c vs = scaled c c.vmins := by
      apply scaled_congr
      intro i hi
      have := (ha.2 i hi).1
      by_contra hne'
      exact hne ⟨i, hi, by omega⟩
    have := hm.1
    rw [heq, ← hw.base] at this
    exact hnb this
  obtain ⟨j, hj, hgt, hrest⟩ := last_raised ha c.count (Nat.le_refl _) hex
  have hvj := ha.2 j hj
  have hvmj := hw.vminPos j hj
  -- the vector with entry j lowered by one, and the prefix vector of length j
  let u := vs.set j (vs.getD j 0 - 1)
  have hu0 : 0 ≤ scaled c u := hm.2 j hj hgt
  let ws := vs.set j (c.vmins.getD j 0)
  have hws : IsPrefix c vs j ws := by
    refine ⟨by simp [ws, ha.1], fun i hi => ?_⟩
    simp only [ws]
    rw [getD_set vs j _ i (by rw [ha.1]; exact hj)]
    by_cases hij : i = j
    · subst hij; simp
    · rw [if_neg hij]
      by_cases h1 : i < j
      · rw [if_pos h1]
      · rw [if_neg h1]; exact hrest i (by omega) hi
  have hws_u : scaled c u ≤ scaled c ws := by
    apply scaled_mono
    intro i hi
    simp only [ws, u]
    rw [getD_set vs j _ i (by rw [ha.1]; exact hj), getD_set vs j _ i (by rw [ha.1]; exact hj)]
    by_cases hij : i = j
    · subst hij; rw [if_pos rfl, if_pos rfl]; omega
    · rw [if_neg hij, if_neg hij]
      have := hw.vminPos i hi
      have := ha.2 i hi
      omega
  have hws_vs : scaled c vs ≤ scaled c ws := by
    apply scaled_mono
    intro i hi
    have := isPrefix_bounds hw ha hws i hi
    exact this
  obtain ⟨s, hr, hnext, hps, hinv⟩ := reach_prefix hw hnb ha j (by omega) ws hws (by omega) (by omega)
  have hsn : s.next < c.count := by omega
  have hvt : s.vs.getD s.next 0 = c.vmins.getD j 0 := by
    rw [hnext, hps.2 j hj, if_neg (by omega)]
  let v := vs.getD j 0
  -- the child vector is `vs` itself
  have hvec : s.vs.set s.next v = vs := by
    apply list_ext_getD _ _ (by simp [hinv.len, ha.1])
    intro i hi
    have hi' : i < c.count := by simpa [hinv.len] using hi
    rw [getD_set s.vs s.next v i (by rw [hinv.len]; exact hsn), hnext]
    by_cases hij : i = j
    · subst hij; simp [v]
    · rw [if_neg hij, hps.2 i hi']
      by_cases h1 : i < j
      · rw [if_pos h1]
      · rw [if_neg h1]; exact (hrest i (by omega) hi').symm
  have hcv : ∀ w, cvOf c s s.next (s.vs.getD s.next 0) w = scaled c (s.vs.set s.next w) := by
    intro w
    unfold cvOf
    rw [scaled_set c s.vs s.next w hsn hinv.len, hinv.curv]
  have hcvv : cvOf c s s.next (s.vs.getD s.next 0) v = scaled c vs := by rw [hcv v, hvec]
  have hbelow : ∀ w, s.vs.getD s.next 0 ≤ w → w < v → 0 ≤ cvOf c s s.next (s.vs.getD s.next 0) w := by
    intro w hw1 hw2
    rw [hcv w]
    have : scaled c u ≤ scaled c (s.vs.set s.next w) := by
      apply scaled_mono
      intro i hi
      simp only [u]
      rw [getD_set s.vs s.next w i (by rw [hinv.len]; exact hsn),
          getD_set vs j _ i (by rw [ha.1]; exact hj), hnext]
      by_cases hij : i = j
      · rw [if_pos hij, if_pos hij]
        exact ⟨by omega, by omega, by omega⟩
      · rw [if_neg hij, if_neg hij]
        have hb := isPrefix_bounds hw ha hps i hi
        exact hb
    omega
  let s' : State := { vs := s.vs.set s.next v, curv := cvOf c s s.next (s.vs.getD s.next 0) v, next := c.count }
  have hmem : Node.st s' ∈ children c (.st s) := by
    rw [children_iff hw hinv hsn hnb]
    refine ⟨s', v, rfl, by omega, hvj.2, fun w hw1 hw2 h => ?_, ?_, Or.inr ⟨?_, ?_, rfl⟩⟩
    · have := hbelow w hw1 hw2; omega
    · rw [hcvv]; exact hmin
    · rw [hcvv]; exact hm.1
    · rw [hcvv, hvec]; exact (minHypPure_iff c vs ha.1).mpr hm
  exact ⟨s', reach_trans' hr (BT.Reach.step hmem (BT.Reach.refl _)), rfl, hvec, hcvv⟩

/-! ### the emitted vectors -/

/-- **`dsyms_output`** (`base_curvature ≥ 0`): the emitted vectors are exactly the admissible
    vectors inside the curvature window that are non-negatively curved or minimally hyperbolic,
    pass `is_good` and are canonical with respect to the orbit maps. -/
theorem dsyms_mem_iff {c : Ctx} (hw : WF c) (hnb : ¬ c.baseCurv < 0) (vs : List Nat) :
    Outcome.ok vs ∈ dsyms c ↔
      Adm c vs ∧ c.minCurv ≤ scaled c vs ∧ scaled c vs ≤ c.maxCurv ∧
      (0 ≤ scaled c vs ∨ MinHyp c vs) ∧
      isGood c vs (scaled c vs) = .ok true ∧ isCanonical c vs = .ok true := by
  rw [dsyms_eq_dfs, List.mem_filterMap]
  constructor
  · rintro ⟨x, hx, hex⟩
    have hreach := (BT.mem_dfs_iff (problem c) (height c) (children_decreasing c) (root c) x).mp hx
    obtain ⟨s, rfl, hinv, hshape⟩ := reach_shape hw hnb _ _ hreach
      ⟨_, rfl, inv_root hw, Or.inl (by
        show 0 ≤ c.baseCurv
        omega)⟩
    simp only [extract] at hex
    split at hex
    · rename_i hwin
      split at hex
      · split at hex
        · rename_i hgood
          split at hex
          · rename_i hcanon
            cases hex
            simp only [Bool.and_eq_true, decide_eq_true_eq] at hwin
            have hlo : ∀ i, i < c.count → c.vmins.getD i 0 ≤ s.vs.getD i 0 ∧ s.vs.getD i 0 ≤ Tables.genVMax :=
              fun i hi => ⟨hinv.lo i hi, hinv.hi i hi⟩
            rw [← hinv.curv]
            refine ⟨⟨hinv.len, hlo⟩, hwin.1, hwin.2, ?_, hgood, hcanon⟩
            rcases hshape with h | h
            · exact Or.inl h
            · right
              rw [hinv.curv] at h
              exact (minHypPure_iff c s.vs hinv.len).mp h
          · cases hex
          · cases hex
          · cases hex
        · cases hex
        · cases hex
        · cases hex
      · cases hex
    · cases hex
  · rintro ⟨ha, hmin, hmax, hshape, hgood, hcanon⟩
    have : ∃ s, BT.Reach (problem c) (root c) (.st s) ∧ s.next = c.count ∧ s.vs = vs ∧
        s.curv = scaled c vs := by
      rcases hshape with h | h
      · exact reach_leaf_nonneg hw hnb ha h hmin
      · exact reach_leaf_hyp hw hnb ha h hmin
    obtain ⟨s, hr, hn, hvs, hcurv⟩ := this
    refine ⟨.st s, (BT.mem_dfs_iff (problem c) (height c) (children_decreasing c) (root c) _).mpr hr, ?_⟩
    simp only [extract]
    rw [if_pos (by simp only [Bool.and_eq_true, decide_eq_true_eq]; rw [hcurv]; exact ⟨hmin, hmax⟩),
        if_neg hnb, if_pos (by omega), hvs, hcurv, hgood]
    simp only [hcanon]

/-- `base_curvature < 0`: the only candidate is the all-minimal vector -/
theorem dsyms_base_neg {c : Ctx} (hb : c.baseCurv < 0) :
    dsyms c = if c.baseCurv ≥ c.minCurv ∧ c.baseCurv ≤ c.maxCurv then [.ok c.vmins] else [] := by
  rw [dsyms_eq_dfs, BT.dfs_unfold _ _ (children_decreasing c)]
  have hch : (problem c).children (root c) = [] := by
    simp only [problem, root, children]
    rw [if_pos (by simp [hb])]
  rw [hch]
  simp only [List.flatMap_nil, List.filterMap_cons, List.filterMap_nil, root, extract]
  by_cases hwin : c.baseCurv ≥ c.minCurv ∧ c.baseCurv ≤ c.maxCurv
  · rw [if_pos hwin, if_pos (by simp only [Bool.and_eq_true, decide_eq_true_eq]; exact hwin), if_pos hb]
  · rw [if_neg hwin, if_neg (by simp only [Bool.and_eq_true, decide_eq_true_eq]; exact hwin)]

end DSymVerif.SymGen
