/-
Helper lemmas for property C02, part 5: the table-based `r/v/m` of `PartialDSym` /
`SimpleDSym` on valid symbols: no panic, agreement with the generic `r`, constancy on
(i,j)-orbits.
-/
import DSymVerif.Proofs.DSetCollect

namespace DSymVerif.DS

theorem getElem?_eq_some_getD {α} (a : Array α) (i : Nat) (dflt : α) (h : i < a.size) :
    a[i]? = some (a.getD i dflt) := by
  rw [Array.getD_eq_getD_getElem?, Array.getElem?_eq_getElem h]; rfl

namespace DSymData

/-- `orbit_index[i][d]` read totally -/
def ixAt (s : DSymData) (i d : Nat) : Nat := (s.orbitIndex.getD i #[]).getD d 0

end DSymData

theorem DSymData.rPartial_diag (s : DSymData) {i d : Nat} (hi : i ≤ s.dim) (h1 : 1 ≤ d) (h2 : d ≤ s.size) :
    s.rPartial i i d = .ok (some 1) := by
  unfold DSymData.rPartial
  have ho : ¬ s.outOfRange i i d = true := by rw [outOfRange_iff]; omega
  rw [if_neg ho, if_pos rfl]

theorem DSymData.vPartial_diag (s : DSymData) {i d : Nat} (hi : i ≤ s.dim) (h1 : 1 ≤ d) (h2 : d ≤ s.size) :
    s.vPartial i i d = .ok (some 1) := by
  unfold DSymData.vPartial
  have ho : ¬ s.outOfRange i i d = true := by rw [outOfRange_iff]; omega
  rw [if_neg ho, if_pos rfl]

theorem DSymData.rPartial_far' (s : DSymData) {i j d : Nat}
    (hij : i + 1 < j ∨ j + 1 < i) (hi : i ≤ s.dim) (hj : j ≤ s.dim) (h1 : 1 ≤ d) (h2 : d ≤ s.size) :
    s.rPartial i j d = if s.op i d = s.op j d then .ok (some 1) else .ok (some 2) := by
  unfold DSymData.rPartial
  have ho : ¬ s.outOfRange i j d = true := by rw [outOfRange_iff]; omega
  rw [if_neg ho, if_neg (by omega), if_neg (by omega), if_neg (by omega)]

theorem DSymData.vPartial_far' (s : DSymData) {i j d : Nat}
    (hij : i + 1 < j ∨ j + 1 < i) (hi : i ≤ s.dim) (hj : j ≤ s.dim) (h1 : 1 ≤ d) (h2 : d ≤ s.size) :
    s.vPartial i j d = if s.op i d = s.op j d then .ok (some 2) else .ok (some 1) := by
  unfold DSymData.vPartial
  have ho : ¬ s.outOfRange i j d = true := by rw [outOfRange_iff]; omega
  rw [if_neg ho, if_neg (by omega), if_neg (by omega), if_neg (by omega)]

namespace ValidTables
variable {s : DSymData} (h : ValidTables s)
include h

theorem row (i : Nat) (hi : i < s.dim) : RowOK s.dset s.orbitRs (s.orbitIndex.getD i #[]) i := by
  rw [h.index_eq, h.rs_eq]; exact (collectOrbits_rows h.set).2 i hi

theorem index_size : s.orbitIndex.size = s.dim := by
  rw [h.index_eq]; exact (collectOrbits_rows h.set).1

theorem oix_eq {i d : Nat} (hi : i < s.dim) (hd : d ≤ s.size) : s.oix i d = .ok (s.ixAt i d) := by
  unfold DSymData.oix
  rw [getElem?_eq_some_getD s.orbitIndex i #[] (by rw [h.index_size]; exact hi)]
  simp only
  rw [getElem?_eq_some_getD _ d 0 (by rw [(h.row i hi).size]; exact Nat.lt_succ_of_le hd)]
  rfl

theorem ixAt_lt {i d : Nat} (hi : i < s.dim) (h1 : 1 ≤ d) (h2 : d ≤ s.size) : s.ixAt i d < s.orbitRs.size :=
  (h.row i hi).lt d h1 h2

theorem orbAt_rs {i d : Nat} (hi : i < s.dim) (h1 : 1 ≤ d) (h2 : d ≤ s.size) :
    DSymData.orbAt s.orbitRs (s.ixAt i d) = .ok (s.orbitRs.getD (s.ixAt i d) 0) := by
  unfold DSymData.orbAt
  rw [getElem?_eq_some_getD _ _ 0 (h.ixAt_lt hi h1 h2)]

theorem orbAt_vs {i d : Nat} (hi : i < s.dim) (h1 : 1 ≤ d) (h2 : d ≤ s.size) :
    DSymData.orbAt s.orbitVs (s.ixAt i d) = .ok (s.orbitVs.getD (s.ixAt i d) 0) := by
  unfold DSymData.orbAt
  rw [getElem?_eq_some_getD _ _ 0 (by rw [h.vs_size]; exact h.ixAt_lt hi h1 h2)]

/-- adjacent pair (i, i+1): the answers are the table entries of the orbit of `d` -/
theorem rPartial_adj {i d : Nat} (hi : i < s.dim) (h1 : 1 ≤ d) (h2 : d ≤ s.size) :
    s.rPartial i (i + 1) d = .ok (some (s.orbitRs.getD (s.ixAt i d) 0)) := by
  unfold DSymData.rPartial
  have ho : ¬ s.outOfRange i (i + 1) d = true := by rw [outOfRange_iff]; omega
  rw [if_neg ho, if_neg (by omega), if_pos rfl, h.oix_eq hi h2]
  show (do let x ← DSymData.orbAt s.orbitRs (s.ixAt i d); pure (some x)) = _
  rw [h.orbAt_rs hi h1 h2]; rfl

theorem vPartial_adj {i d : Nat} (hi : i < s.dim) (h1 : 1 ≤ d) (h2 : d ≤ s.size) :
    s.vPartial i (i + 1) d = .ok (some (s.orbitVs.getD (s.ixAt i d) 0)) := by
  unfold DSymData.vPartial
  have ho : ¬ s.outOfRange i (i + 1) d = true := by rw [outOfRange_iff]; omega
  rw [if_neg ho, if_neg (by omega), if_pos rfl, h.oix_eq hi h2]
  show (do let x ← DSymData.orbAt s.orbitVs (s.ixAt i d); pure (some x)) = _
  rw [h.orbAt_vs hi h1 h2]; rfl

theorem rs_least {i d : Nat} (hi : i < s.dim) (h1 : 1 ≤ d) (h2 : d ≤ s.size) :
    IsLeastPeriod s.dset i (i + 1) d (s.orbitRs.getD (s.ixAt i d) 0) :=
  (h.row i hi).per d h1 h2

theorem ixAt_eq_iff {i x y : Nat} (hi : i < s.dim) (hx1 : 1 ≤ x) (hx2 : x ≤ s.size) (hy1 : 1 ≤ y) (hy2 : y ≤ s.size) :
    s.ixAt i x = s.ixAt i y ↔ Orb2 s.dset i (i + 1) x y :=
  (h.row i hi).iff x y hx1 hx2 hy1 hy2

/-- the orbit-length table agrees with the generic `r` for the adjacent pair (i, i+1) -/
theorem rPartial_adj_eq_generic {i d : Nat} (hi : i < s.dim) (h1 : 1 ≤ d) (h2 : d ≤ s.size) :
    s.rPartial i (i + 1) d = s.view.r i (i + 1) d := by
  have hi0 : i ≤ s.dset.dim := Nat.le_of_lt hi
  obtain ⟨k, _, hk, hr⟩ := r_generic_least h.set hi0 (show i + 1 ≤ s.dset.dim from hi) ⟨h1, h2⟩
  rw [s.view_eq, hr, h.rPartial_adj hi h1 h2, (h.rs_least hi h1 h2).unique hk]

/-- `r` and `v` at `d` and at a chamber `e` of the same (i,i+1)-orbit, adjacent case -/
theorem adj_const {i d e : Nat} (hi : i < s.dim) (h1 : 1 ≤ d) (h2 : d ≤ s.size)
    (ho : Orb2 s.dset i (i + 1) d e) :
    s.rPartial i (i + 1) e = s.rPartial i (i + 1) d ∧ s.vPartial i (i + 1) e = s.vPartial i (i + 1) d := by
  have he := Orb2.range h.set (Nat.le_of_lt hi) (show i + 1 ≤ s.dset.dim from hi) ⟨h1, h2⟩ ho
  have hix : s.ixAt i d = s.ixAt i e := (h.ixAt_eq_iff hi h1 h2 he.1 he.2).2 ho
  rw [h.rPartial_adj hi he.1 he.2, h.rPartial_adj hi h1 h2, h.vPartial_adj hi he.1 he.2,
    h.vPartial_adj hi h1 h2, hix]
  exact ⟨rfl, rfl⟩

end ValidTables

namespace ValidSym
variable {s : DSymData} (h : ValidSym s)
include h

/-- **all representations agree on `r`**: table-based = generic, for every in-range argument -/
theorem rPartial_eq_generic {i j d : Nat} (hi : i ≤ s.dim) (hj : j ≤ s.dim) (h1 : 1 ≤ d) (h2 : d ≤ s.size) :
    s.rPartial i j d = s.view.r i j d := by
  by_cases hji : j = i
  · subst hji
    obtain ⟨k, _, hk, hr⟩ := r_generic_least h.set hj hj ⟨h1, h2⟩
    have h1p : IsLeastPeriod s.dset j j d 1 := by
      refine ⟨Nat.le_refl _, ?_, fun t a b => by omega⟩
      show s.dset.opU j (s.dset.opU j d) = d
      exact h.set.invol j d hj h1 h2
    rw [s.view_eq, hr, ← h1p.unique hk]
    unfold DSymData.rPartial
    have ho : ¬ s.outOfRange j j d = true := by rw [outOfRange_iff]; omega
    rw [if_neg ho, if_pos rfl]
  · by_cases h2' : j = i + 1
    · subst h2'; exact h.rPartial_adj_eq_generic hj h1 h2
    · by_cases h3 : i = j + 1
      · subst h3
        rw [s.rPartial_symm]
        have hj0 : j ≤ s.dset.dim := hj
        obtain ⟨k, _, hk, hr⟩ := r_generic_least h.set (show j + 1 ≤ s.dset.dim from hi) hj0 ⟨h1, h2⟩
        rw [s.view_eq, hr, h.rPartial_adj hi h1 h2]
        have := (h.rs_least hi h1 h2).inv h.set hj0 (show j + 1 ≤ s.dset.dim from hi) ⟨h1, h2⟩
        rw [this.unique hk]
      · have hij : i + 1 < j ∨ j + 1 < i := by omega
        rw [s.view_eq, h.set.r_far h.far hij hi hj h1 h2]
        exact s.rPartial_far hij hi hj h1 h2

/-- on a valid symbol no in-range query panics or returns `None` -/
theorem rPartial_some {i j d : Nat} (hi : i ≤ s.dim) (hj : j ≤ s.dim) (h1 : 1 ≤ d) (h2 : d ≤ s.size) :
    ∃ k, 1 ≤ k ∧ k ≤ s.size ∧ s.rPartial i j d = .ok (some k) := by
  rw [h.rPartial_eq_generic hi hj h1 h2, s.view_eq]
  obtain ⟨k, a, b, c, _⟩ := h.set.r_generic hi hj h1 h2
  exact ⟨k, a, b, c⟩

theorem vPartial_some {i j d : Nat} (hi : i ≤ s.dim) (hj : j ≤ s.dim) (h1 : 1 ≤ d) (h2 : d ≤ s.size) :
    ∃ k, s.vPartial i j d = .ok (some k) := by
  by_cases hji : j = i
  · refine ⟨1, ?_⟩
    unfold DSymData.vPartial
    have ho : ¬ s.outOfRange i j d = true := by rw [outOfRange_iff]; omega
    rw [if_neg ho, if_pos hji]
  · by_cases h2' : j = i + 1
    · subst h2'; exact ⟨_, h.vPartial_adj hj h1 h2⟩
    · by_cases h3 : i = j + 1
      · subst h3; rw [s.vPartial_symm]; exact ⟨_, h.vPartial_adj hi h1 h2⟩
      · unfold DSymData.vPartial
        have ho : ¬ s.outOfRange i j d = true := by rw [outOfRange_iff]; omega
        rw [if_neg ho, if_neg hji, if_neg h2', if_neg h3]
        by_cases he : s.op i d = s.op j d
        · exact ⟨2, by rw [if_pos he]⟩
        · exact ⟨1, by rw [if_neg he]⟩

theorem mPartial_some {i j d : Nat} (hi : i ≤ s.dim) (hj : j ≤ s.dim) (h1 : 1 ≤ d) (h2 : d ≤ s.size) :
    ∃ a b, s.rPartial i j d = .ok (some a) ∧ s.vPartial i j d = .ok (some b) ∧
      s.mPartial i j d = .ok (some (a * b)) := by
  obtain ⟨a, _, _, ha⟩ := h.rPartial_some hi hj h1 h2
  obtain ⟨b, hb⟩ := h.vPartial_some hi hj h1 h2
  exact ⟨a, b, ha, hb, DSymData.mOf_some ha hb⟩

/-! ### constancy on (i,j)-orbits -/

theorem far_test {i j d : Nat} (hij : i + 1 < j ∨ j + 1 < i) (hi : i ≤ s.dim) (hj : j ≤ s.dim)
    (h1 : 1 ≤ d) (h2 : d ≤ s.size) :
    ((s.op i (s.dset.opU i d) = s.op j (s.dset.opU i d)) ↔ (s.op i d = s.op j d)) ∧
    ((s.op i (s.dset.opU j d) = s.op j (s.dset.opU j d)) ↔ (s.op i d = s.op j d)) := by
  have hid := h.set.range i d hi h1 h2
  have hjd := h.set.range j d hj h1 h2
  have e1 : ∀ a x, a ≤ s.dim → 1 ≤ x → x ≤ s.size → s.op a x = some (s.dset.opU a x) :=
    fun a x ha hx1 hx2 => opSimple_eq_some.2 ⟨ha, hx1, hx2, rfl⟩
  rw [e1 i _ hi hid.1 hid.2, e1 j _ hj hid.1 hid.2, e1 i _ hi hjd.1 hjd.2, e1 j _ hj hjd.1 hjd.2,
    e1 i d hi h1 h2, e1 j d hj h1 h2]
  simp only [Option.some.injEq]
  have hii := h.set.invol i d hi h1 h2
  have hjj := h.set.invol j d hj h1 h2
  have hc := h.far.symm hij hi hj h1 h2
  have key : s.dset.opU j (s.dset.opU i d) = d ↔ s.dset.opU i d = s.dset.opU j d := by
    constructor
    · intro hx
      have := h.set.invol j _ hj hid.1 hid.2
      rw [hx] at this; exact this.symm
    · intro hx; rw [hx]; exact hjj
  constructor
  · rw [hii]; exact ⟨fun hx => key.1 hx.symm, fun hx => (key.2 hx).symm⟩
  · rw [hjj, ← hc]; exact key

/-- `r`, `v`, `m` are constant along `op i` and `op j` — hence on (i,j)-orbits -/
theorem const_on_orbit {i j d : Nat} (hi : i ≤ s.dim) (hj : j ≤ s.dim) (h1 : 1 ≤ d) (h2 : d ≤ s.size) :
    (s.rPartial i j (s.dset.opU i d) = s.rPartial i j d ∧ s.rPartial i j (s.dset.opU j d) = s.rPartial i j d) ∧
    (s.vPartial i j (s.dset.opU i d) = s.vPartial i j d ∧ s.vPartial i j (s.dset.opU j d) = s.vPartial i j d) ∧
    (s.mPartial i j (s.dset.opU i d) = s.mPartial i j d ∧ s.mPartial i j (s.dset.opU j d) = s.mPartial i j d) := by
  have hid := h.set.range i d hi h1 h2
  have hjd := h.set.range j d hj h1 h2
  suffices hrv : (s.rPartial i j (s.dset.opU i d) = s.rPartial i j d ∧ s.rPartial i j (s.dset.opU j d) = s.rPartial i j d) ∧
      (s.vPartial i j (s.dset.opU i d) = s.vPartial i j d ∧ s.vPartial i j (s.dset.opU j d) = s.vPartial i j d) by
    refine ⟨hrv.1, hrv.2, ?_, ?_⟩
    · unfold DSymData.mPartial; rw [hrv.1.1, hrv.2.1]
    · unfold DSymData.mPartial; rw [hrv.1.2, hrv.2.2]
  by_cases hji : j = i
  · subst hji
    rw [s.rPartial_diag hj hid.1 hid.2, s.rPartial_diag hj h1 h2, s.vPartial_diag hj hid.1 hid.2,
      s.vPartial_diag hj h1 h2]
    exact ⟨⟨rfl, rfl⟩, rfl, rfl⟩
  · by_cases h2' : j = i + 1
    · subst h2'
      have a := h.adj_const hj h1 h2 (Orb2.stepI (Orb2.refl d))
      have b := h.adj_const hj h1 h2 (Orb2.stepJ (Orb2.refl d))
      exact ⟨⟨a.1, b.1⟩, a.2, b.2⟩
    · by_cases h3 : i = j + 1
      · subst h3
        have a := h.adj_const hi h1 h2 (Orb2.stepJ (Orb2.refl d))
        have b := h.adj_const hi h1 h2 (Orb2.stepI (Orb2.refl d))
        rw [s.rPartial_symm (j + 1) j, s.rPartial_symm (j + 1) j, s.rPartial_symm (j + 1) j,
          s.vPartial_symm (j + 1) j, s.vPartial_symm (j + 1) j, s.vPartial_symm (j + 1) j]
        exact ⟨⟨a.1, b.1⟩, a.2, b.2⟩
      · have hij : i + 1 < j ∨ j + 1 < i := by omega
        have ft := h.far_test hij hi hj h1 h2
        rw [s.rPartial_far' hij hi hj hid.1 hid.2, s.rPartial_far' hij hi hj hjd.1 hjd.2,
          s.rPartial_far' hij hi hj h1 h2, s.vPartial_far' hij hi hj hid.1 hid.2,
          s.vPartial_far' hij hi hj hjd.1 hjd.2, s.vPartial_far' hij hi hj h1 h2]
        by_cases he : s.op i d = s.op j d
        · rw [if_pos he, if_pos (ft.1.2 he), if_pos (ft.2.2 he), if_pos he, if_pos (ft.1.2 he), if_pos (ft.2.2 he)]
          exact ⟨⟨rfl, rfl⟩, rfl, rfl⟩
        · rw [if_neg he, if_neg (fun hx => he (ft.1.1 hx)), if_neg (fun hx => he (ft.2.1 hx)),
            if_neg he, if_neg (fun hx => he (ft.1.1 hx)), if_neg (fun hx => he (ft.2.1 hx))]
          exact ⟨⟨rfl, rfl⟩, rfl, rfl⟩

end ValidSym

end DSymVerif.DS
