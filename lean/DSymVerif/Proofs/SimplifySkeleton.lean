/-
`make_skeleton` and `network_edges` of simplify.rs: `make_skeleton` returns the 1-skeleton graph
of the tiles (vertices = (1,2)-orbits, edges = (0,2)-orbits), and the cut `network_cut` asks of
`min_vertex_cut_undirected` is a minimum vertex cut of that skeleton between the face of d and the
face of s3 d (C19's correctness theorem instantiated).
-/
import DSymVerif.Proofs.SimplifySteps
import DSymVerif.Props.C19

namespace DSymVerif.Simp
open DSymVerif DSymVerif.DS

/-! ### make_skeleton -/

theorem setAll_getD (es : List Nat) (i : Nat) (a : Array Nat) (x : Nat) :
    (es.foldl (fun (a : Array Nat) e => a.setIfInBounds e i) a).getD x 0 =
      if x ∈ es ∧ x < a.size then i else a.getD x 0 := by
  induction es generalizing a with
  | nil => simp
  | cons e es ih =>
    rw [List.foldl_cons, ih, BS.getD_setIfInBounds, Array.size_setIfInBounds]
    by_cases hx : x < a.size
    · by_cases hm : x ∈ es
      · simp [hm, hx]
      · by_cases he : e = x
        · subst he; simp [hx]
        · simp [hm, hx, he, Ne.symm he]
    · simp only [hx, and_false, if_false, List.mem_cons]
      rw [if_neg (by intro h; omega)]

theorem setAll_size (es : List Nat) (i : Nat) (a : Array Nat) :
    (es.foldl (fun (a : Array Nat) e => a.setIfInBounds e i) a).size = a.size := by
  induction es generalizing a with
  | nil => rfl
  | cons e es ih => rw [List.foldl_cons, ih]; simp

/-- the `elm_to_index` loop: after processing a list of (rep, index) pairs with pairwise disjoint
    orbits, every chamber of the orbit of a listed rep carries that rep's index -/
theorem e2i_fold (orb : Nat → List Nat) : ∀ (l : List (Nat × Nat)) (a : Array Nat) (x : Nat),
    (l.Pairwise (fun p q => ∀ y, y ∈ orb p.1 → y ∉ orb q.1)) → x < a.size →
    ((l.foldl (fun (a : Array Nat) (di : Nat × Nat) => (orb di.1).foldl (fun (a : Array Nat) e => a.setIfInBounds e di.2) a) a).size = a.size) ∧
    (∀ p ∈ l, x ∈ orb p.1 →
      (l.foldl (fun (a : Array Nat) (di : Nat × Nat) => (orb di.1).foldl (fun (a : Array Nat) e => a.setIfInBounds e di.2) a) a).getD x 0 = p.2) ∧
    ((∀ p ∈ l, x ∉ orb p.1) →
      (l.foldl (fun (a : Array Nat) (di : Nat × Nat) => (orb di.1).foldl (fun (a : Array Nat) e => a.setIfInBounds e di.2) a) a).getD x 0 = a.getD x 0)
  | [], a, x, _, _ => ⟨rfl, fun p hp => (by cases hp), fun _ => rfl⟩
  | q :: l, a, x, hpw, hx => by
    rw [List.pairwise_cons] at hpw
    simp only [List.foldl_cons]
    have hsz := setAll_size (orb q.1) q.2 a
    obtain ⟨ih1, ih2, ih3⟩ := e2i_fold orb l ((orb q.1).foldl (fun (a : Array Nat) e => a.setIfInBounds e q.2) a) x
      hpw.2 (by rw [hsz]; exact hx)
    refine ⟨by rw [ih1, hsz], ?_, ?_⟩
    · intro p hp hxp
      rcases List.mem_cons.1 hp with rfl | hp
      · rw [ih3 (fun p' hp' hxp' => hpw.1 p' hp' x hxp hxp'), setAll_getD, if_pos ⟨hxp, hx⟩]
      · exact ih2 p hp hxp
    · intro hnone
      rw [ih3 (fun p hp => hnone p (List.mem_cons_of_mem _ hp)), setAll_getD,
        if_neg (by intro h; exact hnone q (List.mem_cons_self ..) h.1)]

theorem mem_pairInsert {p q : Nat × Nat} : ∀ {qs : List (Nat × Nat)}, q ∈ pairInsert p qs ↔ q = p ∨ q ∈ qs
  | [] => by simp [pairInsert]
  | r :: rs => by
    unfold pairInsert
    by_cases h1 : p = r
    · rw [if_pos h1]; subst h1
      simp only [List.mem_cons]
      constructor
      · intro h; exact Or.inr h
      · rintro (h | h)
        · exact Or.inl h
        · exact h
    · rw [if_neg h1]
      by_cases h2 : pairLt p r = true
      · rw [if_pos h2]; simp only [List.mem_cons]
      · rw [if_neg h2]
        simp only [List.mem_cons, mem_pairInsert (qs := rs)]
        constructor
        · rintro (h | h | h)
          · exact Or.inr (Or.inl h)
          · exact Or.inl h
          · exact Or.inr (Or.inr h)
        · rintro (h | h | h)
          · exact Or.inr (Or.inl h)
          · exact Or.inl h
          · exact Or.inr (Or.inr h)


/-- body of the edge loop of `make_skeleton` -/
def skelStep (ds : DSetData) (e2i : Array Nat) (acc : Outcome (List (Nat × Nat))) (d : Nat) :
    Outcome (List (Nat × Nat)) :=
  match acc with
  | .ok es =>
    (match opx ds 0 d with
     | .ok d0 =>
       (match idxO e2i d, idxO e2i d0 with
        | .ok a, .ok b => .ok (pairInsert (min a b, max a b) es)
        | _, _ => .panic)
     | .err => .err
     | .panic => .panic)
  | o => o

/-- the edge loop of `make_skeleton` -/
theorem skel_edges_fold {ds : DSetData} (hv : ValidSet ds) (hdim : 1 ≤ ds.dim) {e2i : Array Nat} (hsz : e2i.size = ds.size + 1) :
    ∀ (l : List Nat) (es0 : List (Nat × Nat)), (∀ d ∈ l, 1 ≤ d ∧ d ≤ ds.size) →
    ∃ es, l.foldl (skelStep ds e2i) (.ok es0) = .ok es ∧
      ∀ p, p ∈ es ↔ p ∈ es0 ∨ ∃ d ∈ l, p = (min (e2i.getD d 0) (e2i.getD (ds.opU 0 d) 0),
        max (e2i.getD d 0) (e2i.getD (ds.opU 0 d) 0))
  | [], es0, _ => ⟨es0, rfl, fun p => by simp⟩
  | d :: l, es0, hr => by
    have rd := hr d (List.mem_cons_self ..)
    have r0 := hv.range 0 d (by omega) rd.1 rd.2
    have hidx : ∀ x, x ≤ ds.size → idxO e2i x = .ok (e2i.getD x 0) := by
      intro x hx
      unfold idxO
      have hb : x < e2i.size := by omega
      rw [Array.getElem?_eq_getElem hb]; simp [Array.getD, hb]
    rw [List.foldl_cons]
    have hstep : skelStep ds e2i (.ok es0) d = .ok (pairInsert (min (e2i.getD d 0) (e2i.getD (ds.opU 0 d) 0),
        max (e2i.getD d 0) (e2i.getD (ds.opU 0 d) 0)) es0) := by
      unfold skelStep
      simp only [opx_valid hv (Nat.zero_le _) rd.1 rd.2, hidx d rd.2, hidx _ r0.2]
    rw [hstep]
    obtain ⟨es, h1, h2⟩ := skel_edges_fold hv hdim hsz l _ (fun d' hd' => hr d' (List.mem_cons_of_mem _ hd'))
    refine ⟨es, h1, ?_⟩
    intro p
    rw [h2 p, mem_pairInsert]
    simp only [List.mem_cons]
    constructor
    · rintro ((h | h) | ⟨d', hd', h⟩)
      · exact Or.inr ⟨d, Or.inl rfl, h⟩
      · exact Or.inl h
      · exact Or.inr ⟨d', Or.inr hd', h⟩
    · rintro (h | ⟨d', rfl | hd', h⟩)
      · exact Or.inl (Or.inr h)
      · exact Or.inl (Or.inl h)
      · exact Or.inr ⟨d', hd', h⟩

/-- **`make_skeleton` is the 1-skeleton of the tiles.**  On a complete D-set on which s0 and s2
    commute, `make_skeleton` returns `(elm_to_index, reps, edges)` where `reps` lists one chamber
    per (1,2)-orbit (vertex of a tile), `elm_to_index` sends every chamber to the position of the
    rep of its vertex — two chambers get the same index iff they lie in the same (1,2)-orbit —
    and `edges` is the set of pairs (min, max) of the vertex indices at the two ends s0 of the
    (0,2)-orbits (edges of a tile): `(a, b) ∈ edges` iff some chamber d has its vertex at a and
    the vertex of `s0 d` at b, or vice versa, with a ≤ b. -/
theorem makeSkeleton_spec {ds : DSetData} (hv : ValidSet ds) (hdim : 2 ≤ ds.dim)
    (hc02 : ∀ x, 1 ≤ x → x ≤ ds.size → ds.opU 2 (ds.opU 0 x) = ds.opU 0 (ds.opU 2 x)) :
    ∃ e2i edges, makeSkeleton ds = .ok (e2i, ds.viewPartial.orbitReps [1, 2] (seedsIncl ds), edges) ∧
      e2i.size = ds.size + 1 ∧
      (∀ x, 1 ≤ x → x ≤ ds.size →
        ∃ r, (ds.viewPartial.orbitReps [1, 2] (seedsIncl ds))[e2i.getD x 0]? = some r ∧
          ds.viewPartial.Reach [1, 2] r x) ∧
      (∀ x y, 1 ≤ x → x ≤ ds.size → 1 ≤ y → y ≤ ds.size →
        (e2i.getD x 0 = e2i.getD y 0 ↔ ds.viewPartial.Reach [1, 2] x y)) ∧
      (∀ p, p ∈ edges ↔ ∃ d, 1 ≤ d ∧ d ≤ ds.size ∧
        p = (min (e2i.getD d 0) (e2i.getD (ds.opU 0 d) 0), max (e2i.getD d 0) (e2i.getD (ds.opU 0 d) 0))) := by
  have pinv := hv.toPartial.pinvol
  obtain ⟨hr1, hr2, hr3⟩ := DSymVerif.C02.orbitReps_one_per_component ds.viewPartial pinv [1, 2] (seedsIncl ds)
  obtain ⟨hq1, hq2, _⟩ := DSymVerif.C02.orbitReps_one_per_component ds.viewPartial pinv [0, 2] (seedsIncl ds)
  generalize hreps : ds.viewPartial.orbitReps [1, 2] (seedsIncl ds) = reps at hr1 hr2 hr3
  have memIncl : ∀ x, 1 ≤ x → x ≤ ds.size → x ∈ seedsIncl ds := by
    intro x h1 h2
    unfold seedsIncl
    simp only [List.mem_map, List.mem_range]
    exact ⟨x - 1, by omega, by omega⟩
  -- the index array
  have hpw : (reps.zipIdx).Pairwise (fun p q => ∀ y, y ∈ ds.viewPartial.orbit [1, 2] p.1 →
      y ∉ ds.viewPartial.orbit [1, 2] q.1) := by
    have : (reps.zipIdx.map Prod.fst).Pairwise (fun a b => ¬ ds.viewPartial.Reach [1, 2] a b) := by
      rw [List.zipIdx_map_fst]; exact hr3
    rw [List.pairwise_map] at this
    refine this.imp ?_
    intro p q hpq y hyp hyq
    exact hpq (((mem_orbit hv).1 hyp).trans (View.Reach.symm pinv ((mem_orbit hv).1 hyq)))
  have hfold := fun x hx => e2i_fold (fun d => ds.viewPartial.orbit [1, 2] d) reps.zipIdx
    (Array.replicate (ds.size + 1) 0) x hpw hx
  generalize he2i : (reps.zipIdx.foldl (fun (a : Array Nat) (di : Nat × Nat) =>
    (ds.viewPartial.orbit [1, 2] di.1).foldl (fun (a : Array Nat) e => a.setIfInBounds e di.2) a)
    (Array.replicate (ds.size + 1) 0)) = e2i at hfold
  have hsz : e2i.size = ds.size + 1 := by
    have := (hfold 0 (by simp)).1
    simpa using this
  have hV2 : ∀ x, 1 ≤ x → x ≤ ds.size → ∃ r, reps[e2i.getD x 0]? = some r ∧ ds.viewPartial.Reach [1, 2] r x := by
    intro x h1 h2
    obtain ⟨r, hr, hrx⟩ := hr2 x (memIncl x h1 h2)
    obtain ⟨i, hi⟩ := List.mem_iff_getElem?.1 hr
    have hmem : (r, i) ∈ reps.zipIdx := List.mem_zipIdx_iff_getElem?.2 hi
    have := (hfold x (by simp; omega)).2.1 (r, i) hmem ((mem_orbit hv).2 hrx)
    simp only at this
    rw [this]
    exact ⟨r, hi, hrx⟩
  have hV3 : ∀ x y, 1 ≤ x → x ≤ ds.size → 1 ≤ y → y ≤ ds.size →
      (e2i.getD x 0 = e2i.getD y 0 ↔ ds.viewPartial.Reach [1, 2] x y) := by
    intro x y hx1 hx2 hy1 hy2
    obtain ⟨rx, hrx, hx⟩ := hV2 x hx1 hx2
    obtain ⟨ry, hry, hy⟩ := hV2 y hy1 hy2
    constructor
    · intro he
      rw [he, hry] at hrx
      cases hrx
      exact (View.Reach.symm pinv hy).trans hy |> fun _ => (View.Reach.symm pinv hx).trans hy
    · intro hxy
      have hrr : ds.viewPartial.Reach [1, 2] rx ry := (hx.trans hxy).trans (View.Reach.symm pinv hy)
      rw [List.pairwise_iff_getElem] at hr3
      obtain ⟨hix, hgx⟩ := List.getElem?_eq_some_iff.1 hrx
      obtain ⟨hiy, hgy⟩ := List.getElem?_eq_some_iff.1 hry
      rcases Nat.lt_trichotomy (e2i.getD x 0) (e2i.getD y 0) with h | h | h
      · exact absurd (by rw [hgx, hgy]; exact hrr) (hr3 _ _ hix hiy h)
      · exact h
      · exact absurd (by rw [hgx, hgy]; exact View.Reach.symm pinv hrr) (hr3 _ _ hiy hix h)
  -- the edges
  obtain ⟨es, hes, hmem⟩ := skel_edges_fold hv (by omega) hsz (ds.viewPartial.orbitReps [0, 2] (seedsIncl ds)) []
    (fun d hd => mem_seedsIncl (hq1 d hd))
  refine ⟨e2i, es, ?_, hsz, hV2, hV3, ?_⟩
  · unfold makeSkeleton
    simp only [hreps]
    rw [he2i]
    show (match List.foldl (skelStep ds e2i) (Outcome.ok []) (ds.viewPartial.orbitReps [0, 2] (seedsIncl ds)) with
      | Outcome.ok es => Outcome.ok (e2i, reps, es)
      | Outcome.err => Outcome.err
      | Outcome.panic => Outcome.panic) = _
    rw [hes]
  · intro p
    rw [hmem p]
    simp only [List.not_mem_nil, false_or]
    constructor
    · rintro ⟨d, hd, rfl⟩
      have := mem_seedsIncl (hq1 d hd)
      exact ⟨d, this.1, this.2, rfl⟩
    · rintro ⟨d, hd1, hd2, rfl⟩
      obtain ⟨r, hr, hrd⟩ := hq2 d (memIncl d hd1 hd2)
      refine ⟨r, hr, ?_⟩
      have rr := mem_seedsIncl (hq1 r hr)
      -- the pair is constant along the (0,2)-orbit
      have inv : ∀ z, ds.viewPartial.Reach [0, 2] r z →
          (min (e2i.getD z 0) (e2i.getD (ds.opU 0 z) 0), max (e2i.getD z 0) (e2i.getD (ds.opU 0 z) 0)) =
          (min (e2i.getD r 0) (e2i.getD (ds.opU 0 r) 0), max (e2i.getD r 0) (e2i.getD (ds.opU 0 r) 0)) := by
        intro z hz
        induction hz with
        | refl => rfl
        | step hre hi hop ih =>
          rename_i e c i
          have re := reach_range hv rr.1 rr.2 hre
          simp only [List.mem_cons, List.not_mem_nil, or_false] at hi
          rcases hi with rfl | rfl
          · rw [viewPartial_op hv (by omega) re.1 re.2] at hop
            cases hop
            rw [hv.invol 0 e (by omega) re.1 re.2, ← ih, Nat.min_comm, Nat.max_comm]
          · rw [viewPartial_op hv (by omega) re.1 re.2] at hop
            cases hop
            have r2 := hv.range 2 e (by omega) re.1 re.2
            have r0 := hv.range 0 e (by omega) re.1 re.2
            have r02 := hv.range 2 _ (by omega) r0.1 r0.2
            have a : e2i.getD (ds.opU 2 e) 0 = e2i.getD e 0 :=
              (hV3 _ _ r2.1 r2.2 re.1 re.2).2 (View.Reach.step (i := 2) (View.Reach.refl _) (by simp)
                (by rw [viewPartial_op hv (by omega) r2.1 r2.2, hv.invol 2 e (by omega) re.1 re.2]))
            have b : e2i.getD (ds.opU 0 (ds.opU 2 e)) 0 = e2i.getD (ds.opU 0 e) 0 := by
              rw [← hc02 e re.1 re.2]
              exact (hV3 _ _ r02.1 r02.2 r0.1 r0.2).2 (View.Reach.step (i := 2) (View.Reach.refl _) (by simp)
                (by rw [viewPartial_op hv (by omega) r02.1 r02.2, hv.invol 2 _ (by omega) r0.1 r0.2]))
            rw [a, b]; exact ih
      exact inv d hrd


theorem foldl_max_ge (l : List Nat) : ∀ (init : Nat), init ≤ l.foldl max init ∧ ∀ y ∈ l, y ≤ l.foldl max init := by
  induction l with
  | nil => intro init; exact ⟨Nat.le_refl _, fun y hy => by cases hy⟩
  | cons x l ih =>
    intro init
    rw [List.foldl_cons]
    obtain ⟨a, b⟩ := ih (max init x)
    refine ⟨by omega, ?_⟩
    intro y hy
    rcases List.mem_cons.1 hy with rfl | hy
    · omega
    · exact b y hy

theorem getD_lt_skelSource (a : Array Nat) (x : Nat) : a.getD x 0 < skelSource a := by
  unfold skelSource
  rw [← Array.foldl_toList]
  by_cases hx : x < a.size
  · have : a.getD x 0 ∈ a.toList := by
      simp only [Array.getD, hx, dite_true]
      exact Array.getElem_mem_toList hx
    have := (foldl_max_ge a.toList 0).2 _ this
    omega
  · have : a.getD x 0 = 0 := by simp [Array.getD, hx]
    omega

theorem mapIdx_ok {a : Array Nat} : ∀ {l : List Nat}, (∀ e ∈ l, e < a.size) →
    mapIdx a l = .ok (l.map (fun e => a.getD e 0))
  | [], _ => rfl
  | e :: rest, h => by
    unfold mapIdx
    have hb := h e (List.mem_cons_self ..)
    have : idxO a e = .ok (a.getD e 0) := by
      unfold idxO
      rw [Array.getElem?_eq_getElem hb]; simp [Array.getD, hb]
    rw [this, mapIdx_ok (fun e' he' => h e' (List.mem_cons_of_mem _ he'))]
    rfl


/-- members of the network `network_cut` hands to `min_vertex_cut_undirected` -/
theorem networkEdges_spec {ds : DSetData} (hv : ValidSet ds) (hdim : ds.dim = 3) {d : Nat} (hd1 : 1 ≤ d) (hd2 : d ≤ ds.size)
    (mode : Bool) {e2i : Array Nat} (hsz : e2i.size = ds.size + 1) (edges : List (Nat × Nat)) (source sink : Nat) :
    ∃ net, networkEdges ds d mode e2i edges source sink = .ok net ∧
      ∀ p, p ∈ net ↔ (p ∈ edges ∨
        (p.1 = source ∧ ∃ x, (ds.viewPartial.Reach [0, 1] d x ∨ (mode = true ∧ ds.viewPartial.Reach [0, 1] (ds.opU 2 d) x)) ∧
          p.2 = e2i.getD x 0) ∨
        (p.2 = sink ∧ ∃ x, ds.viewPartial.Reach [0, 1] (ds.opU 3 d) x ∧ p.1 = e2i.getD x 0)) := by
  have r2 := hv.range 2 d (by omega) hd1 hd2
  have r3 := hv.range 3 d (by omega) hd1 hd2
  have inb : ∀ seed, 1 ≤ seed → seed ≤ ds.size → ∀ e ∈ ds.viewPartial.orbit [0, 1] seed, e < e2i.size := by
    intro seed h1 h2 e he
    have := (orbit_closed hv (idx := [0, 1]) h1 h2).1 e he
    omega
  unfold networkEdges
  cases mode with
  | false =>
    simp only [Bool.false_eq_true, if_false]
    simp only [bind, Outcome.bind, pure, mapIdx_ok (inb d hd1 hd2), opx_valid hv (by omega : 3 ≤ ds.dim) hd1 hd2,
      mapIdx_ok (inb _ r3.1 r3.2)]
    refine ⟨_, rfl, ?_⟩
    intro p
    simp only [List.mem_append, List.mem_map, DS.mem_sortDedup, mem_orbit hv, false_and, or_false]
    constructor
    · rintro ((h | ⟨v, ⟨x, hx, rfl⟩, rfl⟩) | ⟨v, ⟨x, hx, rfl⟩, rfl⟩)
      · exact Or.inl h
      · exact Or.inr (Or.inl ⟨rfl, x, hx, rfl⟩)
      · exact Or.inr (Or.inr ⟨rfl, x, hx, rfl⟩)
    · rintro (h | ⟨h1, x, hx, h2⟩ | ⟨h1, x, hx, h2⟩)
      · exact Or.inl (Or.inl h)
      · exact Or.inl (Or.inr ⟨_, ⟨x, hx, rfl⟩, by rw [← h1, ← h2]⟩)
      · exact Or.inr ⟨_, ⟨x, hx, rfl⟩, by rw [← h1, ← h2]⟩
  | true =>
    simp only [if_true]
    have inb2 : ∀ e ∈ ds.viewPartial.orbit [0, 1] d ++ ds.viewPartial.orbit [0, 1] (ds.opU 2 d), e < e2i.size := by
      intro e he
      rcases List.mem_append.1 he with h | h
      · exact inb d hd1 hd2 e h
      · exact inb _ r2.1 r2.2 e h
    simp only [bind, Outcome.bind, pure, opx_valid hv (by omega : 2 ≤ ds.dim) hd1 hd2, mapIdx_ok inb2,
      opx_valid hv (by omega : 3 ≤ ds.dim) hd1 hd2, mapIdx_ok (inb _ r3.1 r3.2)]
    refine ⟨_, rfl, ?_⟩
    intro p
    simp only [List.mem_append, List.mem_map, DS.mem_sortDedup, mem_orbit hv, true_and]
    constructor
    · rintro ((h | ⟨v, ⟨x, hx, rfl⟩, rfl⟩) | ⟨v, ⟨x, hx, rfl⟩, rfl⟩)
      · exact Or.inl h
      · exact Or.inr (Or.inl ⟨rfl, x, hx, rfl⟩)
      · exact Or.inr (Or.inr ⟨rfl, x, hx, rfl⟩)
    · rintro (h | ⟨h1, x, hx, h2⟩ | ⟨h1, x, hx, h2⟩)
      · exact Or.inl (Or.inl h)
      · exact Or.inl (Or.inr ⟨_, ⟨x, hx, rfl⟩, by rw [← h1, ← h2]⟩)
      · exact Or.inr ⟨_, ⟨x, hx, rfl⟩, by rw [← h1, ← h2]⟩


open DSymVerif.Cut DSymVerif.SpecC19 DSymVerif.CutP in
/-- **The cut `network_cut` computes is a minimum vertex cut of the tile skeleton.**  For a
    complete 3-dimensional D-set on which s0 and s2 commute, let `(elm_to_index, reps, edges)` be
    what `make_skeleton` returns (the 1-skeleton of the tiles, `makeSkeleton_spec`) and `net` any
    list with the members of `network_edges(..)` (skeleton edges, source → vertices of the face of
    d — in edge mode also of s2 d —, vertices of the face of s3 d → sink; the Rust code lists them
    in `HashSet` order).  Then `min_vertex_cut_undirected(net, source, sink)` returns, its cut
    meets every walk from the source to the sink in an inner vertex, no vertex set avoiding source
    and sink that meets all such walks is smaller, and `inside` is what stays reachable from the
    source (C19's `min_vertex_cut_undirected_correct` instantiated). -/
theorem network_cut_minimum {ds : DSetData} (hv : ValidSet ds) (hdim : ds.dim = 3)
    (hc02 : ∀ x, 1 ≤ x → x ≤ ds.size → ds.opU 2 (ds.opU 0 x) = ds.opU 0 (ds.opU 2 x))
    {d : Nat} (hd1 : 1 ≤ d) (hd2 : d ≤ ds.size) (mode : Bool)
    {e2i : Array Nat} {reps : List Nat} {edges net0 net : List (Nat × Nat)}
    (hsk : makeSkeleton ds = .ok (e2i, reps, edges))
    (hnet0 : networkEdges ds d mode e2i edges (skelSource e2i) (skelSource e2i + 1) = .ok net0)
    (hperm : ∀ p, p ∈ net ↔ p ∈ net0) :
    ∃ r, minVertexCutUndirected net (skelSource e2i) (skelSource e2i + 1) = .ok r ∧
      (∀ p, IsWalk (sym net) (skelSource e2i) (skelSource e2i + 1) p → ∃ x ∈ internal p, x ∈ r.cut) ∧
      (∀ C : List Nat, skelSource e2i ∉ C → skelSource e2i + 1 ∉ C →
        (∀ p, IsWalk (sym net) (skelSource e2i) (skelSource e2i + 1) p → ∃ x ∈ p, x ∈ C) →
        r.cut.length ≤ C.length) ∧
      r.cut.Nodup ∧ skelSource e2i ∉ r.cut ∧ skelSource e2i + 1 ∉ r.cut ∧
      (∀ v, (v = skelSource e2i ∨ v ∈ r.inside) ↔
        ∃ p, IsWalk (removeVertices (sym net) r.cut) (skelSource e2i) v p) := by
  obtain ⟨e2i', edges', hsk', hsz, _, _, hedges⟩ := makeSkeleton_spec hv (by omega) hc02
  rw [hsk] at hsk'
  simp only [Outcome.ok.injEq, Prod.mk.injEq] at hsk'
  obtain ⟨rfl, _, rfl⟩ := hsk'
  obtain ⟨net0', hn', hmem⟩ := networkEdges_spec hv hdim hd1 hd2 mode hsz edges (skelSource e2i) (skelSource e2i + 1)
  rw [hnet0] at hn'
  cases hn'
  have hlt := getD_lt_skelSource e2i
  have r3 := hv.range 3 d (by omega) hd1 hd2
  apply DSymVerif.C19.min_vertex_cut_undirected_correct net _ _ (by omega)
  · exact ⟨(skelSource e2i, e2i.getD d 0), (hperm _).2 ((hmem _).2 (Or.inr (Or.inl
      ⟨rfl, d, Or.inl (View.Reach.refl d), rfl⟩))), Or.inl rfl⟩
  · exact ⟨(e2i.getD (ds.opU 3 d) 0, skelSource e2i + 1), (hperm _).2 ((hmem _).2 (Or.inr (Or.inr
      ⟨rfl, ds.opU 3 d, View.Reach.refl _, rfl⟩))), Or.inr rfl⟩
  · intro h
    rcases (hmem _).1 ((hperm _).1 h) with h | ⟨_, x, _, h2⟩ | ⟨_, x, _, h2⟩
    · obtain ⟨d', _, _, hp⟩ := (hedges _).1 h
      simp only [Prod.mk.injEq] at hp
      have a := hlt d'
      have b := hlt (ds.opU 0 d')
      omega
    · simp only at h2; have := hlt x; omega
    · simp only at h2; have := hlt x; omega
  · intro h
    rcases (hmem _).1 ((hperm _).1 h) with h | ⟨h1, _⟩ | ⟨h1, _⟩
    · obtain ⟨d', _, _, hp⟩ := (hedges _).1 h
      simp only [Prod.mk.injEq] at hp
      have a := hlt d'
      have b := hlt (ds.opU 0 d')
      omega
    · simp only at h1; omega
    · simp only at h1; omega

end DSymVerif.Simp
