/-
Property C05, part 6: the result of `oriented_cover` is oriented (`is_oriented()` =
loopless ∧ weakly oriented).  Uses the traversal-completeness results of Proofs/DSetOrient.lean:
`partial_orientation` signs every chamber, and `is_weakly_oriented` ⇔ a proper 2-colouring exists.
The 2-colouring of the double cover is  colour(sheet k, chamber b) = (ori[b] = 1) xor (k = 1).
-/
import DSymVerif.Proofs.Covers
import DSymVerif.Proofs.DSetOrient

namespace DSymVerif.DS
open View

/-- `partial_orientation` assigns PLUS or MINUS to every chamber -/
theorem partialOrientation_total {s : View} (h : s.PInvol) :
    ∀ x, 1 ≤ x → x ≤ s.size → s.partialOrientation.getD x 0 = 1 ∨ s.partialOrientation.getD x 0 = 2 := by
  obtain ⟨acc, st', hacc, inv, hex⟩ := traversal_run h.range s.indices s.elements
  have hfin := inv.final hex
  have hori := oriInv h inv.allOK
  have hpo : s.partialOrientation = oriOf s acc := partialOrientation_eq s acc hacc
  intro x h1 h2
  rw [hpo]
  have h3 := (hori.assigned x h1 h2).2 (hfin.2 x ((mem_elements s x).2 ⟨h1, h2⟩))
  have h4 := hori.vals x
  omega

theorem xor_one_ne {k : Nat} (hk : k < 2) : k ^^^ 1 ≠ k ∧ (decide (k ^^^ 1 = 1) = !decide (k = 1)) := by
  have : k = 0 ∨ k = 1 := by omega
  rcases this with rfl | rfl <;> decide

/-- a double cover whose sheet map switches sheets exactly across the edges with equal signs
    (signs total, values 1 or 2) is loopless and properly 2-coloured -/
theorem double_cover_oriented {s : DSymData} (hs : ValidSet s.dset) (hsz : 1 ≤ s.size)
    {ori : Array Nat} (hori : ∀ x, 1 ≤ x → x ≤ s.size → ori.getD x 0 = 1 ∨ ori.getD x 0 = 2)
    {c : DSymData} (hc : ValidSet c.dset) (hsize : c.size = 2 * s.size) (hdim : c.dim = s.dim)
    (hop : ∀ i d, i ≤ s.dim → 1 ≤ d → d ≤ 2 * s.size →
      c.dset.opU i d = coverF s.dset (oriSheetMap s ori) i d) :
    c.view.isOriented = true := by
  have hview : c.view = c.dset.viewSimple := c.view_eq
  have hcop : ∀ i d, i ≤ c.dim → 1 ≤ d → d ≤ c.size → c.view.op i d = some (c.dset.opU i d) :=
    fun i d hi h1 h2 => opSimple_eq_some.2 ⟨hi, h1, h2, rfl⟩
  have hsop : ∀ i b, i ≤ s.dim → 1 ≤ b → b ≤ s.size → s.op i b = some (s.dset.opU i b) :=
    fun i b hi h1 h2 => opSimple_eq_some.2 ⟨hi, h1, h2, rfl⟩
  -- the image of chamber d = (k, b) under op i
  have himg : ∀ i d, i ≤ s.dim → 1 ≤ d → d ≤ 2 * s.size →
      cproj s.size (c.dset.opU i d) = s.dset.opU i (cproj s.size d) ∧
      csheet s.size (c.dset.opU i d) =
        (if ori.getD (cproj s.size d) 0 = ori.getD (s.dset.opU i (cproj s.size d)) 0
          then csheet s.size d ^^^ 1 else csheet s.size d) := by
    intro i d hi h1 h2
    have hp := cproj_range (d := d) hsz
    have hb := hs.range i _ hi hp.1 hp.2
    rw [hop i d hi h1 h2]
    refine ⟨cproj_coverF hs hsz hi, ?_⟩
    have e : csheet s.size (coverF s.dset (oriSheetMap s ori) i d) =
        oriSheetMap s ori (csheet s.size d) i (cproj s.size d) :=
      csheet_mk (sz := s.size) hb.1 hb.2
    rw [e]
    unfold oriSheetMap
    rw [hsop i _ hi hp.1 hp.2]
  unfold View.isOriented
  rw [Bool.and_eq_true]
  constructor
  · -- loopless
    unfold View.isLoopless
    simp only [List.all_eq_true, bne_iff_ne, ne_eq]
    intro i hi d hd
    have hi' : i ≤ c.dim := (mem_indices c.view i).1 hi
    have hd' := (mem_elements c.view d).1 hd
    have hd1 : 1 ≤ d := hd'.1
    have hd2 : d ≤ c.size := hd'.2
    rw [hcop i d hi' hd1 hd2]
    intro heq
    have heq' : c.dset.opU i d = d := Option.some.inj heq
    have his : i ≤ s.dim := by rw [← hdim]; exact hi'
    have hd2' : d ≤ 2 * s.size := by rw [← hsize]; exact hd2
    obtain ⟨h1, h2⟩ := himg i d his hd1 hd2'
    rw [heq'] at h1 h2
    rw [← h1, if_pos rfl] at h2
    have hk := csheet_lt hsz hd1 hd2'
    exact (xor_one_ne hk).1 h2.symm
  · -- weakly oriented: exhibit a proper colouring
    have hpin : c.view.PInvol := by rw [hview]; exact hc.pinvol
    rw [isWeaklyOriented_iff hpin]
    refine ⟨fun d => xor (decide (ori.getD (cproj s.size d) 0 = 1)) (decide (csheet s.size d = 1)), ?_⟩
    intro i d e hi h1 h2 hope hne
    have hi' : i ≤ c.dim := hi
    have hd2 : d ≤ c.size := h2
    rw [hcop i d hi' h1 hd2] at hope
    have he : c.dset.opU i d = e := Option.some.inj hope
    have his : i ≤ s.dim := by rw [← hdim]; exact hi'
    have hd2' : d ≤ 2 * s.size := by rw [← hsize]; exact hd2
    obtain ⟨hp, hk⟩ := himg i d his h1 hd2'
    rw [he] at hp hk
    have hpr := cproj_range (d := d) hsz
    have hb := hs.range i _ his hpr.1 hpr.2
    have ho1 := hori _ hpr.1 hpr.2
    have ho2 := hori _ hb.1 hb.2
    have hkl := csheet_lt hsz h1 hd2'
    simp only [ne_eq]
    rw [hp, hk]
    by_cases heq : ori.getD (cproj s.size d) 0 = ori.getD (s.dset.opU i (cproj s.size d)) 0
    · rw [if_pos heq, (xor_one_ne hkl).2, ← heq]
      cases decide (ori.getD (cproj s.size d) 0 = 1) <;> cases decide (csheet s.size d = 1) <;> decide
    · rw [if_neg heq]
      have : decide (ori.getD (s.dset.opU i (cproj s.size d)) 0 = 1) =
          !decide (ori.getD (cproj s.size d) 0 = 1) := by
        rcases ho1 with a | a <;> rcases ho2 with b | b
        · exact absurd (a.trans b.symm) heq
        · rw [a, b]; decide
        · rw [a, b]; decide
        · exact absurd (a.trans b.symm) heq
      rw [this]
      cases decide (ori.getD (cproj s.size d) 0 = 1) <;> cases decide (csheet s.size d = 1) <;> decide

/-- **the oriented cover is oriented**, and it has one sheet iff the base is oriented, else two -/
theorem orientedCover_oriented (s : DSymData) (hs : ValidTables s) (hsz : 1 ≤ s.size) (hdim : 1 ≤ s.dim) :
    ∃ c, orientedCover s = .ok c ∧ c.view.isOriented = true ∧ c.dim = s.dim ∧
      c.size = (if s.view.isOriented then 1 else 2) * s.size := by
  by_cases ho : s.view.isOriented = true
  · refine ⟨s, ?_, ho, rfl, ?_⟩
    · rw [orientedCover_eq, if_pos ho]; exact asPartialDSym_self s hs hsz hdim
    · rw [if_pos ho, Nat.one_mul]
  · have hσ := oriSheetMap_compat s hs.set s.view.partialOrientation
    obtain ⟨c, hc, hsize, hdim', hct, hop, _⟩ := cover_ok s hs hsz hdim (n := 2) (by decide) hσ
    have hpin : s.view.PInvol := by rw [s.view_eq]; exact hs.set.pinvol
    refine ⟨c, ?_, ?_, hdim', ?_⟩
    · rw [orientedCover_eq, if_neg ho]; exact hc
    · exact double_cover_oriented hs.set hsz (partialOrientation_total hpin) hct.set hsize hdim' hop
    · rw [if_neg ho]; exact hsize

end DSymVerif.DS
