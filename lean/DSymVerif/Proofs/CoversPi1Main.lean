/-
Property C05, π1 of a cover, part 6: `phiC` is injective with range the stabiliser of a sheet —
the fundamental group of a connected monodromy cover is the point stabiliser of its monodromy
representation.
-/
import DSymVerif.Proofs.CoversPi1Iso

namespace DSymVerif.CoversP
open DSymVerif DSymVerif.DS DSymVerif.FG DSymVerif.FGP

section
variable {ds c : DSymData} {n : Nat} {ρ : TGroup ds →* Equiv.Perm (Fin n)} {σ : Nat → Nat → Nat → Nat}
  (M : MCover ds c n ρ σ)
  {q : Nat → TGroup ds}
  (hq : ∀ x i, (x, i, none) ∈ spanningTree c → q (c.dset.opU i x) = q x * px ds x i)
  {ℓ : Fin n → Nat → TGroup c} (hℓ : SheetGauge ds c n ℓ)

/-- `T(q x)(k0, 1)` -/
noncomputable def dEl (k0 : Fin n) (x : Nat) : Fin n × TGroup c := (thetaC M ℓ hℓ (q x))⁻¹ (k0, 1)

/-- the invariant along the spanning tree of the cover -/
def DInv (k0 : Fin n) (C : TGroup c) (x : Nat) : Prop :=
  ∃ (k : Fin n) (b : Nat), x = ds.size * k.val + b ∧ 1 ≤ b ∧ b ≤ ds.size ∧
    dEl M hℓ (q := q) k0 x = (k, C * (ℓ k b)⁻¹)

include hq in
theorem dInv_step {k0 : Fin n} {C : TGroup c} {x i : Nat} (hmem : (x, i, none) ∈ spanningTree c)
    (hi : i ≤ c.dim) (h : DInv M hℓ (q := q) k0 C x) : DInv M hℓ (q := q) k0 C (c.dset.opU i x) := by
  obtain ⟨k, b, rfl, hb1, hb2, hD⟩ := h
  have his : i ≤ ds.dim := by rw [← M.cov.dim]; exact hi
  have hfac : FacetR ds b i := ⟨hb1, hb2, his⟩
  have hb' := M.hs.set.range i b his hb1 hb2
  refine ⟨tau ρ b i k, ds.dset.opU i b, M.op_mk his hb1 hb2 k, hb'.1, hb'.2, ?_⟩
  unfold dEl at hD ⊢
  rw [hq _ i hmem]
  unfold px
  rw [cproj_mk hb1 hb2, map_mul, mul_inv_rev, Equiv.Perm.mul_apply, hD, thetaC_xT M ℓ hℓ hfac, inv_inv,
    permX_apply M ℓ hfac]
  unfold stepX lam
  simp only
  have hy : yc ds c k b i = 1 := by unfold yc; exact xT_tree hmem
  rw [hy, opT_eq his hb1 hb2]
  apply Prod.ext
  · rfl
  · simp only
    group

include hq in
theorem dInv_reach {k0 : Fin n} {C : TGroup c}
    (hitems : ∀ it ∈ spanningTree c, 1 ≤ it.1 ∧ it.1 ≤ c.size ∧ it.2.1 ≤ c.dim)
    {r0 x : Nat} (h0 : DInv M hℓ (q := q) k0 C r0)
    (ht : TreeReach c (spanningTree c) r0 x) : DInv M hℓ (q := q) k0 C x := by
  induction ht with
  | root => exact h0
  | @step d i _ hmem ih => exact dInv_step M hq hℓ hmem (hitems _ hmem).2.2 ih

/-- `T(q x)(k0, p) = (sheet x, p · C · ℓ⁻¹)` -/
theorem dEl_equivariant {k0 : Fin n} {C : TGroup c} {k : Fin n} {b : Nat}
    (hD : dEl M hℓ (q := q) k0 (ds.size * k.val + b) = (k, C * (ℓ k b)⁻¹)) (p : TGroup c) :
    (thetaC M ℓ hℓ (q (ds.size * k.val + b)))⁻¹ (k0, p) = (k, p * C * (ℓ k b)⁻¹) := by
  have h := ((tinv_twisted M hℓ (q (ds.size * k.val + b))) k0 1 p).2
  rw [mul_one] at h
  unfold dEl at hD
  rw [h, hD]
  simp only
  rw [mul_assoc]

end

/-- **the fundamental group of a connected monodromy cover is a point stabiliser**: there are a
    homomorphism `φ : TGroup c →* TGroup ds` (induced by the projection: the generator of facet
    `(x,i)` of `c` goes to a conjugate of the generator of the projected facet) and a sheet `k0` such
    that `φ` is injective and its range is the stabiliser of `k0` under the monodromy `ρ` -/
theorem cover_group_embeds {ds c : DSymData} {n : Nat} {ρ : TGroup ds →* Equiv.Perm (Fin n)}
    {σ : Nat → Nat → Nat → Nat} (M : MCover ds c n ρ σ) (hconn : ds.view.isConnected = true) :
    ∃ (φ : TGroup c →* TGroup ds) (k0 : Fin n) (q : Nat → TGroup ds),
      (∀ x i, FacetR c x i → φ (xT c x i) = q x * xT ds (cproj ds.size x) i * (q (c.dset.opU i x))⁻¹) ∧
      Function.Injective φ ∧
      ∀ g, g ∈ φ.range ↔ ρ g k0 = k0 := by
  -- gauges
  obtain ⟨q, hq⟩ := exists_gauge M.hc.set (px ds)
  obtain ⟨ℓ, hℓ⟩ := exists_sheetGauge M
  obtain ⟨root, hr1, hr2, hroot⟩ := aEl_const M hconn hq hℓ
  -- the spanning tree of the cover
  have hcc : c.view.isConnected = true := M.cov.connected hconn
  have hn : 0 < n := M.cov.sheets
  have hszc : 1 ≤ c.size := by rw [M.cov.size]; exact Nat.mul_le_mul hn M.hsz
  obtain ⟨hitems0, _, r0, hr01, hr02, htreec⟩ := C09_spanning M.hc.set hszc hcc
  have hitems : ∀ it ∈ spanningTree c, 1 ≤ it.1 ∧ it.1 ≤ c.size ∧ it.2.1 ≤ c.dim :=
    fun it hit => (hitems0 it hit).2
  have hr02' : r0 ≤ n * ds.size := by rw [← M.cov.size]; exact hr02
  -- base sheet and constant
  let s0 : Fin n := ⟨csheet ds.size r0, csheet_lt M.hsz hr01 hr02'⟩
  let k0 : Fin n := ρ (q r0) s0
  let b0 := cproj ds.size r0
  have hb0 := cproj_range (d := r0) M.hsz
  have hr0eq : r0 = ds.size * s0.val + b0 := (cdecomp M.hsz hr01).symm
  let C : TGroup c := ((thetaC M ℓ hℓ (q r0))⁻¹ (k0, 1)).2 * ℓ s0 b0
  have hD0 : DInv M hℓ (q := q) k0 C r0 := by
    refine ⟨s0, b0, hr0eq, hb0.1, hb0.2, ?_⟩
    unfold dEl
    apply Prod.ext
    · rw [((tinv_twisted M hℓ (q r0)) k0 1 1).1]
      show (ρ (q r0))⁻¹ (ρ (q r0) s0) = s0
      simp
    · show _ = ((thetaC M ℓ hℓ (q r0))⁻¹ (k0, 1)).2 * ℓ s0 b0 * (ℓ s0 b0)⁻¹
      group
  have hDall : ∀ x, 1 ≤ x → x ≤ c.size → DInv M hℓ (q := q) k0 C x :=
    fun x h1 h2 => dInv_reach M hq hℓ hitems hD0 (htreec x h1 h2)
  -- in the form needed below
  have hDmk : ∀ (k : Fin n) b, 1 ≤ b → b ≤ ds.size →
      dEl M hℓ (q := q) k0 (ds.size * k.val + b) = (k, C * (ℓ k b)⁻¹) := by
    intro k b hb1 hb2
    have hd := cmk_range (sz := ds.size) (n := n) k.isLt hb1 hb2
    obtain ⟨k', b', heq, hb1', hb2', hD⟩ := hDall _ hd.1 (by rw [M.cov.size]; exact hd.2)
    have e1 : b = b' := by
      have := congrArg (cproj ds.size) heq
      rw [cproj_mk hb1 hb2, cproj_mk hb1' hb2'] at this
      exact this
    have e2 : k = k' := by
      have := congrArg (csheet ds.size) heq
      rw [csheet_mk hb1 hb2, csheet_mk hb1' hb2'] at this
      exact Fin.ext this
    subst e1 e2
    exact hD
  let φ := phiC M hq
  -- every element of TGroup c acts on (k0, p) by right multiplication with its C-conjugate
  have hact : ∀ y : TGroup c, ∀ p, (thetaC M ℓ hℓ (φ y))⁻¹ (k0, p) = (k0, p * (C * y * C⁻¹)) := by
    let S : Subgroup (TGroup c) :=
      { carrier := {y | ∀ p, (thetaC M ℓ hℓ (φ y))⁻¹ (k0, p) = (k0, p * (C * y * C⁻¹))}
        one_mem' := by intro p; simp
        mul_mem' := by
          intro a b ha hb p
          have hΘ : (thetaC M ℓ hℓ (φ (a * b)))⁻¹ (k0, p) =
              (thetaC M ℓ hℓ (φ b))⁻¹ ((thetaC M ℓ hℓ (φ a))⁻¹ (k0, p)) := by
            rw [map_mul, map_mul, mul_inv_rev, Equiv.Perm.mul_apply]
          rw [hΘ, ha p, hb]
          congr 1
          group
        inv_mem' := by
          intro a ha p
          have hΘ : (thetaC M ℓ hℓ (φ a⁻¹))⁻¹ (k0, p) = thetaC M ℓ hℓ (φ a) (k0, p) := by
            rw [map_inv, map_inv, inv_inv]
          rw [hΘ]
          have := ha (p * (C * a⁻¹ * C⁻¹))
          have e : p * (C * a⁻¹ * C⁻¹) * (C * a * C⁻¹) = p := by group
          rw [e] at this
          rw [← this]
          simp }
    have hgen : ∀ j : ℕ, (PresentedGroup.of j : TGroup c) ∈ S := by
      intro j
      by_cases hj : isCode c j
      · rw [of_eq_xT hj]
        intro p
        have hfc := hj.1
        have hx2 : decD c j ≤ n * ds.size := by rw [← M.cov.size]; exact hfc.2.1
        have hic : decI c j ≤ ds.dim := by rw [← M.cov.dim]; exact hfc.2.2
        -- x = (k, b)
        let k : Fin n := ⟨csheet ds.size (decD c j), csheet_lt M.hsz hfc.1 hx2⟩
        have hb := cproj_range (d := decD c j) M.hsz
        have hxeq : decD c j = ds.size * k.val + cproj ds.size (decD c j) := (cdecomp M.hsz hfc.1).symm
        have hfs : FacetR ds (cproj ds.size (decD c j)) (decI c j) := ⟨hb.1, hb.2, hic⟩
        have hb' := M.hs.set.range _ _ hic hb.1 hb.2
        have hφ : φ (xT c (decD c j) (decI c j)) =
            q (decD c j) * xT ds (cproj ds.size (decD c j)) (decI c j) *
              (q (c.dset.opU (decI c j) (decD c j)))⁻¹ := phiC_xT M hq hfc
        rw [hφ]
        have hΘ : (thetaC M ℓ hℓ (q (decD c j) * xT ds (cproj ds.size (decD c j)) (decI c j) *
            (q (c.dset.opU (decI c j) (decD c j)))⁻¹))⁻¹ (k0, p) =
            thetaC M ℓ hℓ (q (c.dset.opU (decI c j) (decD c j)))
              ((thetaC M ℓ hℓ (xT ds (cproj ds.size (decD c j)) (decI c j)))⁻¹
                ((thetaC M ℓ hℓ (q (decD c j)))⁻¹ (k0, p))) := by
          rw [map_mul, map_mul, map_inv, mul_inv_rev, mul_inv_rev, inv_inv, Equiv.Perm.mul_apply,
            Equiv.Perm.mul_apply]
        rw [hΘ, thetaC_xT M ℓ hℓ hfs, inv_inv]
        -- first step
        have hstep1 : (thetaC M ℓ hℓ (q (decD c j)))⁻¹ (k0, p) =
            (k, p * C * (ℓ k (cproj ds.size (decD c j)))⁻¹) := by
          have := dEl_equivariant M hℓ (hDmk k _ hb.1 hb.2) p
          rw [← hxeq] at this
          exact this
        rw [hstep1, permX_apply M ℓ hfs]
        -- the image chamber
        have hopx : c.dset.opU (decI c j) (decD c j) =
            ds.size * (tau ρ (cproj ds.size (decD c j)) (decI c j) k).val +
              ds.dset.opU (decI c j) (cproj ds.size (decD c j)) := by
          have := M.op_mk hic hb.1 hb.2 k
          rw [← hxeq] at this
          exact this
        have hstep3 := dEl_equivariant M hℓ
          (hDmk (tau ρ (cproj ds.size (decD c j)) (decI c j) k) _ hb'.1 hb'.2)
          (p * (C * xT c (decD c j) (decI c j) * C⁻¹))
        rw [← hopx] at hstep3
        have hgoal : stepX ρ ℓ (cproj ds.size (decD c j)) (decI c j)
            (k, p * C * (ℓ k (cproj ds.size (decD c j)))⁻¹) =
            (tau ρ (cproj ds.size (decD c j)) (decI c j) k,
              p * (C * xT c (decD c j) (decI c j) * C⁻¹) * C *
                (ℓ (tau ρ (cproj ds.size (decD c j)) (decI c j) k)
                  (ds.dset.opU (decI c j) (cproj ds.size (decD c j))))⁻¹) := by
          unfold stepX lam yc
          simp only
          rw [← hxeq, opT_eq hic hb.1 hb.2]
          apply Prod.ext
          · rfl
          · simp only
            group
        rw [hgoal, ← hstep3]
        simp
      · rw [of_not_code hj]; exact S.one_mem
    intro y
    exact PresentedGroup.generated_by _ S hgen y
  -- injectivity
  have hinj : Function.Injective φ := by
    rw [injective_iff_map_eq_one]
    intro y hy
    have := hact y 1
    rw [hy, map_one, inv_one, Equiv.Perm.one_apply, one_mul] at this
    have h2 := congrArg Prod.snd this
    simp only at h2
    have : C * y * C⁻¹ = 1 := h2.symm
    have : y = C⁻¹ * (C * y * C⁻¹) * C := by group
    rw [this, ‹C * y * C⁻¹ = 1›]
    group
  -- the range fixes k0
  have hfix : ∀ y, ρ (φ y) k0 = k0 := by
    intro y
    have h1 := ((tinv_twisted M hℓ (φ y)) k0 1 1).1
    rw [hact y 1] at h1
    have : (ρ (φ y))⁻¹ k0 = k0 := h1.symm
    rw [Equiv.Perm.inv_eq_iff_eq] at this
    exact this.symm
  -- A := aEl k0 root fixes k0
  have hAfix : ρ (aEl M hq (ℓ := ℓ) k0 root) k0 = k0 := by
    unfold aEl
    rw [map_mul, Equiv.Perm.mul_apply]
    have h1 := ((tinv_twisted M hℓ (q (ds.size * k0.val + root))) k0 1 1).1
    have hD := hDmk k0 root hr1 hr2
    unfold dEl at hD
    rw [hD] at h1
    have : (ρ (q (ds.size * k0.val + root)))⁻¹ k0 = k0 := h1.symm
    rw [Equiv.Perm.inv_eq_iff_eq] at this
    rw [← this]
    exact hfix _
  refine ⟨φ, k0, q, fun x i h => phiC_xT M hq h, hinj, ?_⟩
  intro g
  constructor
  · rintro ⟨y, rfl⟩; exact hfix y
  · intro hg
    -- g' := A⁻¹ g A fixes k0, and R(g') at (k0, 1) gives A g' A⁻¹ = g in the range
    let A := aEl M hq (ℓ := ℓ) k0 root
    have hAinv : (ρ A)⁻¹ k0 = k0 := by rw [Equiv.Perm.inv_eq_iff_eq]; exact hAfix.symm
    have hg' : (ρ (A⁻¹ * g * A))⁻¹ k0 = k0 := by
      rw [Equiv.Perm.inv_eq_iff_eq, map_mul, map_mul, map_inv, Equiv.Perm.mul_apply, Equiv.Perm.mul_apply,
        hAfix, hg, hAinv]
    have hR := relR_all M hq hℓ hroot (A⁻¹ * g * A) k0 1
    rw [hg'] at hR
    refine ⟨(1 : TGroup c)⁻¹ * ((thetaC M ℓ hℓ (A⁻¹ * g * A))⁻¹ (k0, 1)).2, ?_⟩
    show phiC M hq _ = g
    rw [hR]
    show A * (A⁻¹ * g * A) * A⁻¹ = g
    group

end DSymVerif.CoversP
