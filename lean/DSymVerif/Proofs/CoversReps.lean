/-
Property C05, part 2: `orbit_reps_2d` on a complete valid D-set — every listed representative
is a chamber, and every chamber lies in the ⟨op i, op j⟩-orbit of a listed representative
(soundness of the marking loop is all that is needed: a chamber is skipped only if an earlier
representative's loop marked it, and the loop marks only chambers it reaches).
-/
import DSymVerif.Proofs.DSetCollect

namespace DSymVerif.DS

section
variable {s : DSetData} (h : ValidSet s) {i j : Nat} (hi : i ≤ s.dim) (hj : j ≤ s.dim)
include h hi hj

omit h hi hj in
theorem viewSimple_op_getD {a e : Nat} (ha : a ≤ s.dim) (he : 1 ≤ e ∧ e ≤ s.size) :
    (s.viewSimple.op a e).getD e = s.opU a e := by
  show (s.opSimple a e).getD e = _
  rw [opSimple_eq_some.2 ⟨ha, he.1, he.2, rfl⟩]; rfl

/-- the marking loop only sets entries, and only at chambers of the orbit of `d` -/
theorem reps2dLoop_sound (d : Nat) :
    ∀ fuel e seen, (1 ≤ e ∧ e ≤ s.size) → Orb2 s i j d e →
      (∀ x, seen.getD x false = true → (s.viewSimple.reps2dLoop i j d fuel e seen).getD x false = true) ∧
      (∀ x, (s.viewSimple.reps2dLoop i j d fuel e seen).getD x false = true →
        seen.getD x false = true ∨ Orb2 s i j d x) ∧
      (s.viewSimple.reps2dLoop i j d fuel e seen).size = seen.size
  | 0, e, seen, _, _ => by
    unfold View.reps2dLoop
    exact ⟨fun x hx => hx, fun x hx => Or.inl hx, rfl⟩
  | fuel + 1, e, seen, he, ho => by
    unfold View.reps2dLoop
    simp only
    have hei := h.range i e hi he.1 he.2
    have he' := h.range j _ hj hei.1 hei.2
    rw [viewSimple_op_getD hi he, viewSimple_op_getD hj hei]
    have ho1 : Orb2 s i j d (s.opU i e) := Orb2.stepI ho
    have ho2 : Orb2 s i j d (s.opU j (s.opU i e)) := Orb2.stepJ ho1
    have hset : ∀ x, ((seen.setIfInBounds (s.opU i e) true).setIfInBounds (s.opU j (s.opU i e)) true).getD x false = true →
        seen.getD x false = true ∨ Orb2 s i j d x := by
      intro x hx
      rw [getD_setIfInBounds, getD_setIfInBounds] at hx
      by_cases c1 : s.opU j (s.opU i e) = x
      · right; rw [← c1]; exact ho2
      · rw [if_neg (fun hc => c1 hc.1)] at hx
        by_cases c2 : s.opU i e = x
        · right; rw [← c2]; exact ho1
        · rw [if_neg (fun hc => c2 hc.1)] at hx; exact Or.inl hx
    have hmono : ∀ x, seen.getD x false = true →
        ((seen.setIfInBounds (s.opU i e) true).setIfInBounds (s.opU j (s.opU i e)) true).getD x false = true := by
      intro x hx
      rw [getD_setIfInBounds, getD_setIfInBounds]
      split
      · rfl
      · split
        · rfl
        · exact hx
    by_cases hc : s.opU j (s.opU i e) = d
    · rw [if_pos hc]
      exact ⟨hmono, hset, by simp⟩
    · rw [if_neg hc]
      obtain ⟨a, b, c⟩ := reps2dLoop_sound d fuel (s.opU j (s.opU i e))
        ((seen.setIfInBounds (s.opU i e) true).setIfInBounds (s.opU j (s.opU i e)) true) he' ho2
      refine ⟨fun x hx => a x (hmono x hx), ?_, by rw [c]; simp⟩
      intro x hx
      rcases b x hx with hb | hb
      · exact hset x hb
      · exact Or.inr hb

/-- body of the `for d in 1..=size` loop of `orbit_reps_2d` -/
def repsStep (s : DSetData) (i j : Nat) (acc : List Nat × Array Bool) (d : Nat) : List Nat × Array Bool :=
  if acc.2.getD d false then acc
  else (d :: acc.1, s.viewSimple.reps2dLoop i j d (s.size + 1) d (acc.2.setIfInBounds d true))

/-- loop invariant: the marks are explained by the representatives found so far -/
structure RepsInv (s : DSetData) (i j : Nat) (acc : List Nat × Array Bool) : Prop where
  size : acc.2.size = s.size + 1
  range : ∀ e ∈ acc.1, 1 ≤ e ∧ e ≤ s.size
  marks : ∀ x, acc.2.getD x false = true → ∃ e ∈ acc.1, Orb2 s i j e x

theorem RepsInv.step {acc : List Nat × Array Bool} (inv : RepsInv s i j acc) {d : Nat} (hd : 1 ≤ d ∧ d ≤ s.size) :
    RepsInv s i j (repsStep s i j acc d) ∧
    (∀ x, acc.2.getD x false = true → (repsStep s i j acc d).2.getD x false = true) ∧
    (repsStep s i j acc d).2.getD d false = true := by
  unfold repsStep
  by_cases hs : acc.2.getD d false = true
  · rw [if_pos hs]
    exact ⟨inv, fun x hx => hx, hs⟩
  · rw [if_neg hs]
    obtain ⟨a, b, c⟩ := reps2dLoop_sound h hi hj d (s.size + 1) d (acc.2.setIfInBounds d true) hd (Orb2.refl d)
    have hdset : (acc.2.setIfInBounds d true).getD d false = true := by
      rw [getD_setIfInBounds, if_pos ⟨rfl, by rw [inv.size]; omega⟩]
    refine ⟨⟨by simp only; rw [c]; simp [inv.size], ?_, ?_⟩, ?_, a d hdset⟩
    · intro e he
      rcases List.mem_cons.1 he with rfl | he
      · exact hd
      · exact inv.range e he
    · intro x hx
      rcases b x hx with hb | hb
      · rw [getD_setIfInBounds] at hb
        by_cases c1 : d = x
        · subst c1; exact ⟨d, List.mem_cons_self .., Orb2.refl d⟩
        · rw [if_neg (fun hc => c1 hc.1)] at hb
          obtain ⟨e, he, hoe⟩ := inv.marks x hb
          exact ⟨e, List.mem_cons_of_mem _ he, hoe⟩
      · exact ⟨d, List.mem_cons_self .., hb⟩
    · intro x hx
      apply a
      rw [getD_setIfInBounds]
      split
      · rfl
      · exact hx

theorem RepsInv.fold : ∀ (l : List Nat) (acc : List Nat × Array Bool),
    (∀ d ∈ l, 1 ≤ d ∧ d ≤ s.size) → RepsInv s i j acc →
    RepsInv s i j (l.foldl (repsStep s i j) acc) ∧
    (∀ x, acc.2.getD x false = true → (l.foldl (repsStep s i j) acc).2.getD x false = true) ∧
    (∀ d ∈ l, (l.foldl (repsStep s i j) acc).2.getD d false = true)
  | [], acc, _, inv => ⟨inv, fun x hx => hx, fun d hd => by cases hd⟩
  | d :: l, acc, hl, inv => by
    rw [List.foldl_cons]
    obtain ⟨inv1, mono1, hd1⟩ := inv.step h hi hj (hl d (List.mem_cons_self ..))
    obtain ⟨inv2, mono2, hl2⟩ := RepsInv.fold l _ (fun d' hd' => hl d' (List.mem_cons_of_mem _ hd')) inv1
    refine ⟨inv2, fun x hx => mono2 x (mono1 x hx), ?_⟩
    intro d' hd'
    rcases List.mem_cons.1 hd' with rfl | hd'
    · exact mono2 _ hd1
    · exact hl2 d' hd'

omit h hi hj in
theorem orbitReps2d_eq (s : DSetData) (i j : Nat) :
    s.viewSimple.orbitReps2d i j =
      (s.viewSimple.elements.foldl (repsStep s i j) ([], Array.replicate (s.size + 1) false)).1.reverse := rfl

/-- **`orbit_reps_2d`**: the listed representatives are chambers, and every chamber is in the
    orbit of one of them -/
theorem orbitReps2d_spec :
    (∀ e ∈ s.viewSimple.orbitReps2d i j, 1 ≤ e ∧ e ≤ s.size) ∧
    (∀ x, 1 ≤ x → x ≤ s.size → ∃ e ∈ s.viewSimple.orbitReps2d i j, Orb2 s i j e x) := by
  have hel : ∀ d ∈ s.viewSimple.elements, 1 ≤ d ∧ d ≤ s.size := by
    intro d hd
    unfold View.elements at hd
    simp only [List.mem_map, List.mem_range] at hd
    obtain ⟨a, ha, rfl⟩ := hd
    show 1 ≤ a + 1 ∧ a + 1 ≤ s.size
    have : a < s.size := ha
    omega
  have inv0 : RepsInv s i j ([], Array.replicate (s.size + 1) false) := by
    refine ⟨by simp, fun e he => (by cases he), ?_⟩
    intro x hx
    rw [getD_replicate] at hx; cases hx
  obtain ⟨inv, _, hall⟩ := RepsInv.fold h hi hj s.viewSimple.elements _ hel inv0
  rw [orbitReps2d_eq]
  refine ⟨fun e he => inv.range e (List.mem_reverse.1 he), ?_⟩
  intro x hx1 hx2
  have hx : x ∈ s.viewSimple.elements := by
    unfold View.elements
    simp only [List.mem_map, List.mem_range]
    exact ⟨x - 1, by show x - 1 < s.size; omega, by omega⟩
  obtain ⟨e, he, hoe⟩ := inv.marks x (hall x hx)
  exact ⟨e, List.mem_reverse.2 he, hoe⟩

end

end DSymVerif.DS
