/-
Helper lemmas for property C03, part 6: every seed of a connected valid symbol is good.

From the soundness and completeness of the `Traversal` iterator (C02: `traversal_sound`,
`traversal_complete`) the list of items reported from one seed of a connected symbol
* starts with the seed item, followed by edge items `(i, d, op_i d)` only,
* mentions every chamber as a target and every (chamber, index) pair in exactly one edge item,
so that `TraversalCode` (via `codeFold_spec`) numbers all chambers bijectively and writes
`3·(#items) − 1 + dim·size` integers, where `#items` does not depend on the seed.
-/
import DSymVerif.Proofs.CanonicalCode
import DSymVerif.Props.C02

namespace DSymVerif.DS
namespace CanonP

open View

/-- every chamber is reachable from chamber 1 (by the operations 0..dim) -/
def Conn (a : DSymData) : Prop := ∀ d, 1 ≤ d → d ≤ a.size → a.view.Reach a.view.indices 1 d

/-- what the traversal from one seed of a connected valid symbol looks like -/
structure TravFacts (a : DSymData) (seed : Nat) (L : List TravItem) : Prop where
  shape : ∃ E, L = (none, seed, seed) :: E ∧ ∀ e ∈ E, ∃ k, e.1 = some k
  range : ∀ t ∈ L, (1 ≤ t.2.1 ∧ t.2.1 ≤ a.size) ∧ (1 ≤ t.2.2 ∧ t.2.2 ≤ a.size)
  edge : ∀ t ∈ L, ∀ k, t.1 = some k → k ≤ a.dim ∧ t.2.2 = a.dset.opU k t.2.1
  srcok : ∀ pre t post, L = pre ++ t :: post → (∃ u ∈ pre, u.2.2 = t.2.1) ∨ t.2.1 = t.2.2
  all : ∀ y, 1 ≤ y → y ≤ a.size → ∃ t ∈ L, t.2.2 = y
  cover : ∀ y, 1 ≤ y → y ≤ a.size → ∀ k, k ≤ a.dim →
    ∃ w ∈ L, w.1 = some k ∧ (w.2.1 = y ∨ w.2.2 = y)
  pair : L.Pairwise (fun t t' => ∀ i, t.1 = some i → t'.1 = some i →
    t.2.1 ≠ t'.2.1 ∧ t.2.1 ≠ t'.2.2 ∧ t.2.2 ≠ t'.2.1 ∧ t.2.2 ≠ t'.2.2)

theorem reach_range {s : View} (h : s.PInvol) {idx : List Nat} {d e : Nat} (hd : 1 ≤ d ∧ d ≤ s.size)
    (hr : s.Reach idx d e) : 1 ≤ e ∧ e ≤ s.size := by
  induction hr with
  | refl => exact hd
  | step _ _ hop _ => exact h.range _ _ _ hop

theorem travFacts {a : DSymData} (ha : ValidSym a) (hc : Conn a) {seed : Nat}
    (h1 : 1 ≤ seed) (h2 : seed ≤ a.size) :
    TravFacts a seed (a.view.traversal a.view.indices [seed]) := by
  have hP : a.view.PInvol := by rw [a.view_eq]; exact ha.set.pinvol
  obtain ⟨c1, c2, c3, _, _, _⟩ := DSymVerif.C02.traversal_complete a.view hP a.view.indices [seed]
  simp only at c1 c2 c3
  have hsound := DSymVerif.C02.traversal_sound a.view a.view.indices [seed]
  generalize hL : a.view.traversal a.view.indices [seed] = L at c1 c2 c3 hsound
  have hseedR : 1 ≤ seed ∧ seed ≤ a.view.size := ⟨h1, h2⟩
  -- targets are exactly the chambers
  have htgt : ∀ e, (∃ t ∈ L, t.2.2 = e) ↔ (1 ≤ e ∧ e ≤ a.size) := by
    intro e
    rw [c1 e]
    constructor
    · rintro ⟨d, hd, hr⟩
      simp only [List.mem_singleton] at hd
      subst hd
      exact reach_range hP hseedR hr
    · rintro ⟨e1, e2⟩
      exact ⟨seed, by simp, ((hc seed h1 h2).symm hP).trans (hc e e1 e2)⟩
  have hrange : ∀ t ∈ L, (1 ≤ t.2.1 ∧ t.2.1 ≤ a.size) ∧ (1 ≤ t.2.2 ∧ t.2.2 ≤ a.size) := by
    intro t ht
    have ht2 := (htgt t.2.2).1 ⟨t, ht, rfl⟩
    refine ⟨?_, ht2⟩
    obtain ⟨pre, post, hsplit⟩ := List.append_of_mem ht
    obtain ⟨s1, s2, _⟩ := hsound pre post t hsplit
    cases hmi : t.1 with
    | none =>
      have := (s2 hmi).2.1
      simp only [List.mem_singleton] at this
      rw [this]; exact ⟨h1, h2⟩
    | some i =>
      obtain ⟨_, _, u, hu, hue⟩ := s1 i hmi
      rw [← hue]
      exact (htgt u.2.2).1 ⟨u, by rw [hsplit]; exact List.mem_append_left _ hu, rfl⟩
  have hedge : ∀ t ∈ L, ∀ k, t.1 = some k → k ≤ a.dim ∧ t.2.2 = a.dset.opU k t.2.1 := by
    intro t ht k hk
    obtain ⟨pre, post, hsplit⟩ := List.append_of_mem ht
    obtain ⟨s1, _, _⟩ := hsound pre post t hsplit
    obtain ⟨hki, hop, _⟩ := s1 k hk
    have hk' : k ≤ a.dim := (mem_indices a.view k).1 hki
    refine ⟨hk', ?_⟩
    rw [hop]
    have r := (hrange t ht).1
    show (a.dset.opSimple k t.2.1).getD _ = _
    rw [opSimple_inR hk' r.1 r.2]; rfl
  refine ⟨?_, hrange, hedge, ?_, ?_, ?_, c3⟩
  · -- shape
    obtain ⟨t0, ht0, _⟩ := (htgt seed).2 ⟨h1, h2⟩
    cases hLL : L with
    | nil => rw [hLL] at ht0; cases ht0
    | cons t E =>
      have hs0 := hsound [] E t (by rw [hLL]; rfl)
      have ht1 : t.1 = none := by
        cases hmi : t.1 with
        | none => rfl
        | some i =>
          obtain ⟨_, _, u, hu, _⟩ := hs0.1 i hmi
          cases hu
      have hts := hs0.2.1 ht1
      have htsrc : t.2.1 = seed := by
        have := hts.2.1
        simpa using this
      have ht : t = (none, seed, seed) := by
        obtain ⟨mi, x, y⟩ := t
        simp only at ht1 hts htsrc
        rw [ht1, hts.1, htsrc]
      refine ⟨E, by rw [ht], ?_⟩
      intro e he
      cases hmi : e.1 with
      | some k => exact ⟨k, rfl⟩
      | none =>
        exfalso
        obtain ⟨pre', post', hsplit'⟩ := List.append_of_mem he
        have hs1 := hsound (t :: pre') post' e (by rw [hLL, hsplit']; rfl)
        have hfresh := (hs1.2.1 hmi)
        have hesrc : e.2.1 = seed := by
          have := hfresh.2.1
          simpa using this
        exact hfresh.2.2.1 t (List.mem_cons_self ..) (by rw [ht, hesrc])
  · -- srcok
    intro pre t post hsplit
    obtain ⟨s1, s2, _⟩ := hsound pre post t hsplit
    cases hmi : t.1 with
    | none => exact Or.inr (s2 hmi).1.symm
    | some i =>
      obtain ⟨_, _, u, hu, hue⟩ := s1 i hmi
      exact Or.inl ⟨u, hu, hue⟩
  · intro y hy1 hy2
    exact (htgt y).2 ⟨hy1, hy2⟩
  · intro y hy1 hy2 k hk
    exact c2 y ((htgt y).2 ⟨hy1, hy2⟩) k ((mem_indices a.view k).2 hk)

end CanonP
end DSymVerif.DS
