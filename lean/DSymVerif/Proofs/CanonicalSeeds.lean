/-
Helper lemmas for property C03, part 6: every seed of a connected valid symbol is good.

From the soundness and completeness of the `Traversal` iterator (C02: `traversal_sound`,
`traversal_complete`) the list of items reported from one seed of a connected symbol
* starts with the seed item, followed by edge items `(i, d, op_i d)` only,
* mentions every chamber as a target and every (chamber, index) pair in exactly one edge item,
so that `TraversalCode` (via `codeFold_spec`) numbers all chambers bijectively and writes
`3·(#items) − 1 + dim·size` integers, where `#items` does not depend on the seed.
-/
import DSymVerif.Proofs.CanonicalCode
import DSymVerif.Props.C02

namespace DSymVerif.DS
namespace CanonP

open View

/-- every chamber is reachable from chamber 1 (by the operations 0..dim) -/
def Conn (a : DSymData) : Prop := ∀ d, 1 ≤ d → d ≤ a.size → a.view.Reach a.view.indices 1 d

/-- what the traversal from one seed of a connected valid symbol looks like -/
structure TravFacts (a : DSymData) (seed : Nat) (L : List TravItem) : Prop where
  shape : ∃ E, L = (none, seed, seed) :: E ∧ ∀ e ∈ E, ∃ k, e.1 = some k
  range : ∀ t ∈ L, (1 ≤ t.2.1 ∧ t.2.1 ≤ a.size) ∧ (1 ≤ t.2.2 ∧ t.2.2 ≤ a.size)
  edge : ∀ t ∈ L, ∀ k, t.1 = some k → k ≤ a.dim ∧ t.2.2 = a.dset.opU k t.2.1
  srcok : ∀ pre t post, L = pre ++ t :: post → (∃ u ∈ pre, u.2.2 = t.2.1) ∨ t.2.1 = t.2.2
  all : ∀ y, 1 ≤ y → y ≤ a.size → ∃ t ∈ L, t.2.2 = y
  cover : ∀ y, 1 ≤ y → y ≤ a.size → ∀ k, k ≤ a.dim →
    ∃ w ∈ L, w.1 = some k ∧ (w.2.1 = y ∨ w.2.2 = y)
  pair : L.Pairwise (fun t t' => ∀ i, t.1 = some i → t'.1 = some i →
    t.2.1 ≠ t'.2.1 ∧ t.2.1 ≠ t'.2.2 ∧ t.2.2 ≠ t'.2.1 ∧ t.2.2 ≠ t'.2.2)

theorem reach_range {s : View} (h : s.PInvol) {idx : List Nat} {d e : Nat} (hd : 1 ≤ d ∧ d ≤ s.size)
    (hr : s.Reach idx d e) : 1 ≤ e ∧ e ≤ s.size := by
  induction hr with
  | refl => exact hd
  | step _ _ hop _ => exact h.range _ _ _ hop

theorem travFacts {a : DSymData} (ha : ValidSym a) (hc : Conn a) {seed : Nat}
    (h1 : 1 ≤ seed) (h2 : seed ≤ a.size) :
    TravFacts a seed (a.view.traversal a.view.indices [seed]) := by
  have hP : a.view.PInvol := by rw [a.view_eq]; exact ha.set.pinvol
  obtain ⟨c1, c2, c3, _, _, _⟩ := DSymVerif.C02.traversal_complete a.view hP a.view.indices [seed]

  have hsound := DSymVerif.C02.traversal_sound a.view a.view.indices [seed]
  generalize hL : a.view.traversal a.view.indices [seed] = L at c1 c2 c3 hsound
  have hseedR : 1 ≤ seed ∧ seed ≤ a.view.size := ⟨h1, h2⟩
  -- targets are exactly the chambers
  have htgt : ∀ e, (∃ t ∈ L, t.2.2 = e) ↔ (1 ≤ e ∧ e ≤ a.size) := by
    intro e
    rw [c1 e]
    constructor
    · rintro ⟨d, hd, hr⟩
      simp only [List.mem_singleton] at hd
      subst hd
      exact reach_range hP hseedR hr
    · rintro ⟨e1, e2⟩
      exact ⟨seed, by simp, ((hc seed h1 h2).symm hP).trans (hc e e1 e2)⟩
  have hrange : ∀ t ∈ L, (1 ≤ t.2.1 ∧ t.2.1 ≤ a.size) ∧ (1 ≤ t.2.2 ∧ t.2.2 ≤ a.size) := by
    intro t ht
    have ht2 := (htgt t.2.2).1 ⟨t, ht, rfl⟩
    refine ⟨?_, ht2⟩
    obtain ⟨pre, post, hsplit⟩ := List.append_of_mem ht
    obtain ⟨s1, s2, _⟩ := hsound pre post t hsplit
    cases hmi : t.1 with
    | none =>
      have := (s2 hmi).2.1
      simp only [List.mem_singleton] at this
      rw [this]; exact ⟨h1, h2⟩
    | some i =>
      obtain ⟨_, _, u, hu, hue⟩ := s1 i hmi
      rw [← hue]
      exact (htgt u.2.2).1 ⟨u, by rw [hsplit]; exact List.mem_append_left _ hu, rfl⟩
  have hedge : ∀ t ∈ L, ∀ k, t.1 = some k → k ≤ a.dim ∧ t.2.2 = a.dset.opU k t.2.1 := by
    intro t ht k hk
    obtain ⟨pre, post, hsplit⟩ := List.append_of_mem ht
    obtain ⟨s1, _, _⟩ := hsound pre post t hsplit
    obtain ⟨hki, hop, _⟩ := s1 k hk
    have hk' : k ≤ a.dim := (mem_indices a.view k).1 hki
    refine ⟨hk', ?_⟩
    rw [hop]
    have r := (hrange t ht).1
    show (a.dset.opSimple k t.2.1).getD _ = _
    rw [opSimple_inR hk' r.1 r.2]; rfl
  refine ⟨?_, hrange, hedge, ?_, ?_, ?_, c3⟩
  · -- shape
    obtain ⟨t0, ht0, _⟩ := (htgt seed).2 ⟨h1, h2⟩
    cases hLL : L with
    | nil => rw [hLL] at ht0; cases ht0
    | cons t E =>
      have hs0 := hsound [] E t (by rw [hLL]; rfl)
      have ht1 : t.1 = none := by
        cases hmi : t.1 with
        | none => rfl
        | some i =>
          obtain ⟨_, _, u, hu, _⟩ := hs0.1 i hmi
          cases hu
      have hts := hs0.2.1 ht1
      have htsrc : t.2.1 = seed := by
        have := hts.2.1
        simpa using this
      have ht : t = (none, seed, seed) := by
        obtain ⟨mi, x, y⟩ := t
        simp only at ht1 hts htsrc
        rw [ht1, hts.1, htsrc]
      refine ⟨E, by rw [ht], ?_⟩
      intro e he
      cases hmi : e.1 with
      | some k => exact ⟨k, rfl⟩
      | none =>
        exfalso
        obtain ⟨pre', post', hsplit'⟩ := List.append_of_mem he
        have hs1 := hsound (t :: pre') post' e (by rw [hLL, hsplit']; rfl)
        have hfresh := (hs1.2.1 hmi)
        have hesrc : e.2.1 = seed := by
          have := hfresh.2.1
          simpa using this
        exact hfresh.2.2.1 t (List.mem_cons_self ..) (by rw [ht, hesrc])
  · -- srcok
    intro pre t post hsplit
    obtain ⟨s1, s2, _⟩ := hsound pre post t hsplit
    cases hmi : t.1 with
    | none => exact Or.inr (s2 hmi).1.symm
    | some i =>
      obtain ⟨_, _, u, hu, hue⟩ := s1 i hmi
      exact Or.inl ⟨u, hu, hue⟩
  · intro y hy1 hy2
    exact (htgt y).2 ⟨hy1, hy2⟩
  · intro y hy1 hy2 k hk
    exact c2 y ((htgt y).2 ⟨hy1, hy2⟩) k ((mem_indices a.view k).2 hk)

/-! ### the fold over the traversal of a good seed -/

theorem itemsOK_of {n dim : Nat} {v : Nat → Nat → Option Nat} : ∀ (L : List TravItem) (T : List Nat),
    (∀ t ∈ L, t.2.1 ≤ n ∧ t.2.2 ≤ n ∧ ∀ i, i < dim → ∃ x, v i t.2.2 = some x) →
    (∀ pre t post, L = pre ++ t :: post →
      t.2.1 ∈ T ∨ (∃ u ∈ pre, u.2.2 = t.2.1) ∨ t.2.1 = t.2.2) →
    ItemsOK n dim v L T
  | [], _, _, _ => trivial
  | it :: rest, T, h1, h2 => by
    have hm := h1 it (List.mem_cons_self ..)
    refine ⟨hm.1, hm.2.1, ?_, hm.2.2,
      itemsOK_of rest _ (fun t ht => h1 t (List.mem_cons_of_mem _ ht)) ?_⟩
    · rcases h2 [] it rest rfl with h | ⟨u, hu, _⟩ | h
      · exact mem_addT.2 (Or.inl h)
      · cases hu
      · exact mem_addT.2 (Or.inr h)
    · intro pre t post hsplit
      rcases h2 (it :: pre) t post (by rw [hsplit]; rfl) with h | ⟨u, hu, hue⟩ | h
      · exact Or.inl (mem_addT.2 (Or.inl h))
      · rcases List.mem_cons.1 hu with rfl | hu
        · exact Or.inl (mem_addT.2 (Or.inr hue.symm))
        · exact Or.inr (Or.inl ⟨u, hu, hue⟩)
      · exact Or.inr (Or.inr h)

theorem vAdj_some {a : DSymData} (ha : ValidSym a) {i y : Nat} (hi : i < a.dim) (h1 : 1 ≤ y) (h2 : y ≤ a.size) :
    ∃ x, a.vAdj i y = some x := by
  unfold DSymData.vAdj
  rw [ha.vPartial_adj hi h1 h2]
  exact ⟨_, rfl⟩

/-- the exhausted `TraversalCode` of a seed with facts `F`, explicitly -/
theorem seed_code {a : DSymData} (ha : ValidSym a) {seed : Nat} {L : List TravItem}
    (hL : a.view.traversal a.view.indices [seed] = L) (F : TravFacts a seed L) :
    ∃ c, traversalCode a seed = .ok c ∧
      c.code = encode (numOf (targetsOf L [])) a.vAdj a.dim L [] ∧
      c.map.size = a.size + 1 ∧
      ∀ y, y ≤ a.size → c.map.getD y 0 = numOf (targetsOf L []) y := by
  have hok : ItemsOK a.size a.dim a.vAdj L [] := by
    apply itemsOK_of
    · intro t ht
      have r := F.range t ht
      exact ⟨r.1.2, r.2.2, fun i hi => vAdj_some ha hi r.2.1 r.2.2⟩
    · intro pre t post hsplit
      exact Or.inr (F.srcok pre t post hsplit)
  obtain ⟨fin, hfin, inv, hbuf⟩ := codeFold_spec (v := a.vAdj) (dim := a.dim) L [] (CodeState.init a.size)
    (SI.init a.size) hok
  refine ⟨⟨fin.buf.toList, fin.emap⟩, ?_, ?_, inv.size, inv.emap⟩
  · unfold traversalCode traversalCodeOf
    rw [hL]
    show (match codeFold a.dim a.vAdj L (CodeState.init a.size) with
      | .ok st => Outcome.ok ({ code := st.buf.toList, map := st.emap } : Code)
      | .err => .err
      | .panic => .panic) = _
    rw [hfin]
  · show fin.buf.toList = _
    rw [hbuf]
    simp [CodeState.init]

/-- the numbered chambers of a good seed are exactly the chambers -/
theorem targets_length {a : DSymData} {seed : Nat} {L : List TravItem} (F : TravFacts a seed L) :
    (targetsOf L []).length = a.size ∧ ∀ y, y ∈ targetsOf L [] ↔ (1 ≤ y ∧ y ≤ a.size) := by
  have hmem : ∀ y, y ∈ targetsOf L [] ↔ (1 ≤ y ∧ y ≤ a.size) := by
    intro y
    rw [mem_targetsOf]
    constructor
    · rintro (h | ⟨t, ht, rfl⟩)
      · cases h
      · exact (F.range t ht).2
    · rintro ⟨h1, h2⟩
      exact Or.inr (F.all y h1 h2)
  refine ⟨?_, hmem⟩
  have hnd : (targetsOf L []).Nodup := targetsOf_nodup L [] List.nodup_nil
  have hfs : (targetsOf L []).toFinset = Finset.Icc 1 a.size := by
    ext y
    rw [List.mem_toFinset, Finset.mem_Icc, hmem]
  have := List.toFinset_card_of_nodup hnd
  rw [hfs, Nat.card_Icc] at this
  omega

/-- the element map of a good seed is a bijection of the chambers -/
theorem seed_perm {a : DSymData} {seed : Nat} {L : List TravItem} (F : TravFacts a seed L)
    {m : Array Nat} (hsz : m.size = a.size + 1)
    (hm : ∀ y, y ≤ a.size → m.getD y 0 = numOf (targetsOf L []) y) : PermOn a.size m := by
  obtain ⟨hlen, hmem⟩ := targets_length F
  refine ⟨hsz, ?_, ?_⟩
  · intro d h1 h2
    rw [hm d h2, numOf_of_mem ((hmem d).2 ⟨h1, h2⟩)]
    have := List.idxOf_lt_length_of_mem ((hmem d).2 ⟨h1, h2⟩)
    omega
  · intro d e hd1 hd2 he1 he2 hde
    rw [hm d hd2, hm e he2] at hde
    exact numOf_inj ((hmem d).2 ⟨hd1, hd2⟩) ((hmem e).2 ⟨he1, he2⟩) hde

/-! ### the length of the code -/

def hdrLen (it : TravItem) : Nat :=
  match it.1 with
  | some _ => 3
  | none => 2

theorem hdr_length (m : Nat → Nat) (it : TravItem) : (hdr m it).length = hdrLen it := by
  obtain ⟨mi, x, y⟩ := it
  cases mi <;> rfl

theorem encode_length {m : Nat → Nat} {v : Nat → Nat → Option Nat} {dim : Nat} :
    ∀ (L : List TravItem) (T : List Nat),
      (encode m v dim L T).length + dim * T.length =
        (L.map hdrLen).sum + dim * (targetsOf L T).length
  | [], T => by simp [encode, targetsOf]
  | it :: rest, T => by
    have ih := encode_length (m := m) (v := v) (dim := dim) rest (addT T it.2.2)
    rw [encode, targetsOf, List.map_cons, List.sum_cons, List.length_append, List.length_append,
      hdr_length]
    by_cases hmem : it.2.2 ∈ T
    · have hadd : addT T it.2.2 = T := by unfold addT; rw [if_pos hmem]
      rw [hadd] at ih ⊢
      rw [if_pos hmem]
      simp only [List.length_nil]
      omega
    · have hadd : (addT T it.2.2).length = T.length + 1 := by
        unfold addT; rw [if_neg hmem]; simp
      rw [if_neg hmem]
      have hv : (vrow v dim it.2.2).length = dim := by simp [vrow]
      rw [hv]
      rw [hadd, Nat.mul_add, Nat.mul_one] at ih
      omega

theorem hdrLen_sum_edges : ∀ (E : List TravItem), (∀ e ∈ E, ∃ k, e.1 = some k) →
    (E.map hdrLen).sum = 3 * E.length
  | [], _ => rfl
  | e :: E, h => by
    obtain ⟨k, hk⟩ := h e (List.mem_cons_self ..)
    have := hdrLen_sum_edges E (fun x hx => h x (List.mem_cons_of_mem _ hx))
    rw [List.map_cons, List.sum_cons, this, List.length_cons]
    have : hdrLen e = 3 := by unfold hdrLen; rw [hk]
    omega

/-- length of the code of a good seed -/
theorem seed_code_length {a : DSymData} {seed : Nat} {L : List TravItem} (F : TravFacts a seed L)
    (m : Nat → Nat) :
    (encode m a.vAdj a.dim L []).length + 1 = 3 * L.length + a.dim * a.size := by
  obtain ⟨E, hE, hedges⟩ := F.shape
  have h := encode_length (m := m) (v := a.vAdj) (dim := a.dim) L []
  rw [(targets_length F).1] at h
  have hs : (L.map hdrLen).sum = 2 + 3 * E.length := by
    rw [hE, List.map_cons, List.sum_cons, hdrLen_sum_edges E hedges]
    rfl
  have hl : L.length = E.length + 1 := by rw [hE]; rfl
  simp only [List.length_nil, Nat.mul_zero, Nat.add_zero] at h
  omega

/-! ### the number of items does not depend on the seed -/

def ekey (it : TravItem) : Nat × Nat := (it.1.getD 0, min it.2.1 it.2.2)

theorem edges_of {a : DSymData} {seed : Nat} {L : List TravItem} (F : TravFacts a seed L) :
    ∃ E, L = (none, seed, seed) :: E ∧ (E.map ekey).Nodup ∧
      (∀ e ∈ E, ∃ k, e.1 = some k ∧ k ≤ a.dim ∧ (1 ≤ e.2.1 ∧ e.2.1 ≤ a.size) ∧ e.2.2 = a.dset.opU k e.2.1) := by
  obtain ⟨E, hE, hedges⟩ := F.shape
  have hmemE : ∀ e ∈ E, e ∈ L := fun e he => by rw [hE]; exact List.mem_cons_of_mem _ he
  refine ⟨E, hE, ?_, ?_⟩
  · have hp : E.Pairwise (fun t t' => ∀ i, t.1 = some i → t'.1 = some i →
        t.2.1 ≠ t'.2.1 ∧ t.2.1 ≠ t'.2.2 ∧ t.2.2 ≠ t'.2.1 ∧ t.2.2 ≠ t'.2.2) := by
      have := F.pair
      rw [hE] at this
      exact (List.pairwise_cons.1 this).2
    rw [List.Nodup, List.pairwise_map]
    refine List.Pairwise.imp_of_mem ?_ hp
    intro t t' ht ht' hR hk
    obtain ⟨k, hk1⟩ := hedges t ht
    obtain ⟨k', hk2⟩ := hedges t' ht'
    unfold ekey at hk
    rw [hk1, hk2] at hk
    simp only [Option.getD_some, Prod.mk.injEq] at hk
    obtain ⟨hkk, hmin⟩ := hk
    subst hkk
    obtain ⟨r1, r2, r3, r4⟩ := hR k hk1 hk2
    omega
  · intro e he
    obtain ⟨k, hk⟩ := hedges e he
    obtain ⟨hk1, hk2⟩ := F.edge e (hmemE e he) k hk
    exact ⟨k, hk, hk1, (F.range e (hmemE e he)).1, hk2⟩

/-- the traversals from two seeds of one connected symbol report equally many items -/
theorem items_length_le {a : DSymData} (ha : ValidSym a) {seed seed' : Nat} {L L' : List TravItem}
    (F : TravFacts a seed L) (F' : TravFacts a seed' L') : L.length ≤ L'.length := by
  obtain ⟨E, hE, hnd, hedge⟩ := edges_of F
  obtain ⟨E', hE', _, hedge'⟩ := edges_of F'
  have hsub : E.map ekey ⊆ E'.map ekey := by
    intro key hkey
    obtain ⟨e, he, rfl⟩ := List.mem_map.1 hkey
    obtain ⟨k, hk, hkd, hr, htgt⟩ := hedge e he
    -- the edge of (e.src, k) in the other traversal
    obtain ⟨w, hw, hwk, hwy⟩ := F'.cover e.2.1 hr.1 hr.2 k hkd
    have hwE : w ∈ E' := by
      rw [hE'] at hw
      rcases List.mem_cons.1 hw with rfl | h
      · cases hwk
      · exact h
    obtain ⟨k', hk', _, hr', htgt'⟩ := hedge' w hwE
    rw [hwk] at hk'
    cases hk'
    refine List.mem_map.2 ⟨w, hwE, ?_⟩
    unfold ekey
    rw [hwk, hk]
    simp only [Option.getD_some, Prod.mk.injEq, true_and]
    rcases hwy with h | h
    · rw [htgt', h, htgt]
    · -- w.tgt = e.src, so w.src = op k (e.src) = e.tgt
      have : a.dset.opU k w.2.2 = w.2.1 := by
        rw [htgt']; exact ha.set.invol k _ hkd hr'.1 hr'.2
      rw [h] at this
      rw [htgt, this, h]
      exact Nat.min_comm _ _
  have hle : (E.map ekey).length ≤ (E'.map ekey).length :=
    (List.subperm_of_subset hnd hsub).length_le
  rw [List.length_map, List.length_map] at hle
  rw [hE, hE']
  simp only [List.length_cons]
  omega

/-- **every seed of a connected valid symbol is good** -/
theorem allSeedsGood {a : DSymData} (ha : ValidSym a) (hsize : 1 ≤ a.size) (hc : Conn a) :
    AllSeedsGood a := by
  have F1 := travFacts ha hc (Nat.le_refl 1) hsize
  refine ⟨3 * (a.view.traversal a.view.indices [1]).length + a.dim * a.size - 1, ?_⟩
  intro d h1 h2
  have F := travFacts ha hc h1 h2
  obtain ⟨c, hc1, hc2, hc3, hc4⟩ := seed_code ha rfl F
  refine ⟨c, hc1, ?_, seed_perm F hc3 hc4⟩
  have hlen := seed_code_length F (numOf (targetsOf (a.view.traversal a.view.indices [d]) []))
  have e1 := items_length_le ha F F1
  have e2 := items_length_le ha F1 F
  rw [hc2]
  omega

end CanonP
end DSymVerif.DS
