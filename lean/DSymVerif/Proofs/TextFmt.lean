/-
C01, part 11: the text `DSet::fmt` writes is the canonical rendering of the specification
`display` returns (the blank rule `if d > 1` coincides with "not the first entry" because
chamber 1 always heads every list), and the grammar reads it back; hence the round trip on
texts.
-/
import DSymVerif.Proofs.TextRound
import DSymVerif.Proofs.TextRender

namespace DSymVerif.Text
open DSymVerif DSymVerif.DS

/-- the first printed entry belongs to chamber ≤ 1 (no blank), all others to chambers > 1 -/
def WellSpaced : List (Nat × Nat) → Prop
  | [] => True
  | p :: rest => p.1 ≤ 1 ∧ ∀ q ∈ rest, 1 < q.1

theorem fmtRow_wellSpaced (row : List (Nat × Nat)) (h : WellSpaced row) :
    fmtRow row = renderList (row.map (·.2)) := by
  cases row with
  | nil => rfl
  | cons p rest =>
    obtain ⟨h1, h2⟩ := h
    have htail : ∀ (l : List (Nat × Nat)), (∀ q ∈ l, 1 < q.1) →
        (l.flatMap fun (q : Nat × Nat) => sp q.1 ++ natDigits q.2) =
        (l.map (·.2)).flatMap fun y => ' ' :: natDigits y := by
      intro l
      induction l with
      | nil => intro _; rfl
      | cons q l ih =>
        intro hq
        have hq1 : 1 < q.1 := hq q (by simp)
        simp only [List.flatMap_cons, List.map_cons]
        rw [ih (fun r hr => hq r (by simp [hr]))]
        simp [sp, hq1]
    show (sp p.1 ++ natDigits p.2) ++ (rest.flatMap fun (q : Nat × Nat) => sp q.1 ++ natDigits q.2) = _
    rw [htail rest h2]
    have : sp p.1 = [] := by unfold sp; rw [if_neg (by omega)]
    rw [this]
    rfl

theorem fmtRows_tail (n : Nat) (hn : 1 ≤ n) : ∀ (rows : List (List (Nat × Nat))) (k : Nat), n ≤ k →
    ((rows.zipIdx k).flatMap fun (p : List (Nat × Nat) × Nat) => comma p.2 ++ fmtRow p.1) =
      rows.flatMap fun r => ',' :: fmtRow r := by
  intro rows
  induction rows with
  | nil => intro k _; rfl
  | cons r rows ih =>
    intro k hk
    simp only [List.zipIdx_cons, List.flatMap_cons]
    rw [ih (k + 1) (by omega)]
    have : comma k = [','] := by unfold comma; rw [if_pos (by omega)]
    rw [this]
    rfl

theorem fmtRows_wellSpaced (rows : List (List (Nat × Nat))) (h : ∀ r ∈ rows, WellSpaced r) :
    fmtRows rows = renderLists (rows.map fun r => r.map (·.2)) := by
  cases rows with
  | nil => rfl
  | cons r rows =>
    unfold fmtRows
    simp only [List.zipIdx_cons, List.flatMap_cons, List.map_cons]
    rw [fmtRows_tail 1 (Nat.le_refl _) rows (0 + 1) (by omega)]
    have hc : comma 0 = [] := rfl
    rw [hc, List.nil_append, fmtRow_wellSpaced r (h r (by simp))]
    show _ = renderList _ ++ List.flatMap _ _
    congr 1
    induction rows with
    | nil => rfl
    | cons q rows ih =>
      simp only [List.flatMap_cons, List.map_cons]
      rw [fmtRow_wellSpaced q (h q (by simp)), ih (fun r' hr' => by
        rcases List.mem_cons.mp hr' with rfl | hr'
        · exact h _ (by simp)
        · exact h _ (by simp [hr']))]

/-- the image lists `fmt` prints are well spaced, whatever the printable -/
theorem opRow_wellSpaced (p : Printable) (i : Nat) : WellSpaced (opRow p i) := by
  unfold opRow
  cases hsz : p.size with
  | zero => exact True.intro
  | succ n =>
    rw [List.range_succ_eq_map, List.filterMap_cons]
    have hhead : ((p.op i (0 + 1)).getD 0 = 0 || decide ((p.op i (0 + 1)).getD 0 ≥ 0 + 1)) = true := by
      by_cases h0 : (p.op i (0 + 1)).getD 0 = 0
      · simp [h0]
      · have : (p.op i (0 + 1)).getD 0 ≥ 0 + 1 := by omega
        simp [this]
    simp only [hhead, if_true]
    refine ⟨Nat.le_refl _, ?_⟩
    intro q hq
    simp only [List.mem_filterMap, List.mem_map] at hq
    obtain ⟨d0, ⟨k, _, rfl⟩, hq⟩ := hq
    split at hq
    · cases hq; show 1 < k + 1 + 1; omega
    · cases hq

theorem degRow_wellSpaced (row : Array Nat) (n : Nat) (f : Nat → Nat) :
    WellSpaced (((List.range' 1 n).filter fun x => firstB row x).map fun d => (d, f d)) := by
  cases n with
  | zero => exact True.intro
  | succ n =>
    have h1 : firstB row 1 = true := by rw [firstB_iff]; intro x' h1 h2; omega
    rw [List.range'_succ, List.filter_cons_of_pos h1, List.map_cons]
    refine ⟨Nat.le_refl _, ?_⟩
    intro q hq
    simp only [List.mem_map, List.mem_filter, List.mem_range'_1] at hq
    obtain ⟨d, ⟨⟨hd, _⟩, _⟩, rfl⟩ := hq
    show 1 < d
    omega

/-- `fmt` of a symbol is the canonical rendering of its `display` -/
theorem fmt_eq_render (s : DSymData) (c c' : Nat) (h : SymInv s)
    (N : Numbering s.dset s.view (collectOrbits s.dset)) :
    fmt (Printable.ofSimpleDSym s c c') = .ok (render (displaySpec s c c')) := by
  have hdisp := display_eq s c c' h N
  unfold display at hdisp
  unfold fmt
  cases hrows : degRows (Printable.ofSimpleDSym s c c') with
  | err => rw [hrows] at hdisp; cases hdisp
  | panic => rw [hrows] at hdisp; cases hdisp
  | ok rows =>
    rw [hrows] at hdisp
    simp only [Outcome.ok.injEq] at hdisp
    -- the rows are the explicit ones
    have hrows' := mapO_ok (degRow (Printable.ofSimpleDSym s c c'))
      (fun i => ((List.range' 1 s.size).filter fun x => firstB (s.orbitIndex.getD i #[]) x).map
        fun d => (d, degOf s i d)) (List.range s.dim)
      (by intro i hi; exact degRow_eq s c c' h N (by simpa using hi))
    have hdim : (Printable.ofSimpleDSym s c c').dim = s.dim := rfl
    unfold degRows at hrows
    rw [hdim, hrows'] at hrows
    simp only [Outcome.ok.injEq] at hrows
    dsimp only
    congr 1
    unfold render
    rw [← hdisp]
    dsimp only
    rw [fmtRows_wellSpaced _ (by
        intro r hr
        simp only [List.mem_map] at hr
        obtain ⟨i, _, rfl⟩ := hr
        exact opRow_wellSpaced _ i),
      fmtRows_wellSpaced rows (by
        intro r hr
        rw [← hrows] at hr
        simp only [List.mem_map] at hr
        obtain ⟨i, _, rfl⟩ := hr
        exact degRow_wellSpaced _ _ _)]
    rw [List.map_map]
    rfl

/-! ### what must fit `usize` for the text to be readable -/

/-- the numbers of a symbol fit the machine word — true of every value of the Rust types -/
structure Fits (s : DSymData) (c c' : Nat) : Prop where
  setCount : c < usizeLimit
  symCount : c' < usizeLimit
  size : s.size < usizeLimit
  dim : s.dim + 1 < usizeLimit
  table : s.size * (s.dim + 1) < allocLimit
  degrees : ∀ i d, i < s.dim → 1 ≤ d → d ≤ s.size → degOf s i d < usizeLimit

theorem displaySpec_printed (s : DSymData) (c c' : Nat) (h : SymInv s) (h1 : 1 ≤ s.size) (h2 : 1 ≤ s.dim)
    (hf : Fits s c c') : Printed (displaySpec s c c') := by
  have hadm := displaySpec_admitted s c c' h h1 h2 hf.dim
  refine ⟨hf.setCount, hf.symCount, hf.size, by have := hf.dim; show s.dim < _; omega, ?_, ?_, ?_, ?_⟩
  · intro hnil
    have := hadm.op_len
    rw [hnil] at this
    simp at this
  · intro hnil
    have := hadm.m_len
    rw [hnil] at this
    simp only [List.length_nil] at this
    have : s.dim = 0 := this.symm
    omega
  · intro ys hys
    constructor
    · intro hnil
      have := hadm.op_enough ys hys
      rw [hnil] at this
      simp only [List.length_nil, Nat.le_zero_eq] at this
      have h1' : 1 ≤ (displaySpec s c c').size := h1
      unfold divCeil2 at this
      split at this <;> omega
    · intro y hy
      simp only [displaySpec, List.mem_map, List.mem_range] at hys
      obtain ⟨i, hi, rfl⟩ := hys
      unfold restFrom at hy
      simp only [List.mem_filterMap, List.mem_range'_1] at hy
      obtain ⟨x, ⟨hx1, hx2⟩, hxy⟩ := hy
      split at hxy
      · cases hxy
        have := (h.set.range i x (by unfold DSymData.dim at hi; omega) hx1 (by unfold DSymData.size at hx2; omega)).2
        have := hf.size
        unfold DSymData.size at this
        omega
      · cases hxy
  · intro ys hys
    simp only [displaySpec, List.mem_map, List.mem_range] at hys
    obtain ⟨i, hi, rfl⟩ := hys
    constructor
    · intro hnil
      obtain ⟨n, hn⟩ : ∃ n, s.size = n + 1 := ⟨s.size - 1, by omega⟩
      rw [hn, degRest_succ] at hnil
      have h1' : firstB (s.orbitIndex.getD i #[]) 1 = true := by rw [firstB_iff]; intro x' h1 h2; omega
      rw [if_pos h1'] at hnil
      cases hnil
    · intro y hy
      unfold degRest at hy
      simp only [List.mem_filterMap, List.mem_range'_1] at hy
      obtain ⟨x, ⟨hx1, hx2⟩, hxy⟩ := hy
      split at hxy
      · cases hxy; exact hf.degrees i x hi hx1 (by omega)
      · cases hxy

/-- printing a symbol and parsing the text back yields the same symbol -/
theorem print_parse (s : DSymData) (c c' : Nat) (h : SymInv s) (h1 : 1 ≤ s.size) (h2 : 1 ≤ s.dim)
    (hf : Fits s c c') :
    ∃ cs t, fmt (Printable.ofSimpleDSym s c c') = .ok cs ∧ parse cs = .ok t ∧ SameSym s t := by
  have N := collectOrbits_numbering h.set s.view rfl (fun j e hj he1 he2 => view_op_in_range s hj he1 he2)
  obtain ⟨t, ht, hsame⟩ := fromSpec_displaySpec s c c' h h1 h2 hf.dim hf.table
  refine ⟨render (displaySpec s c c'), t, fmt_eq_render s c c' h N, ?_, hsame⟩
  unfold parse
  have := lex_render_aux (displaySpec s c c') (displaySpec_printed s c c' h h1 h2 hf) []
  rw [List.append_nil] at this
  rw [this]
  exact ht

end DSymVerif.Text
