/-
`Sem` instance for `prcBackend p` under the cast `ℤ → ZMod p` (canonical values, `p` a prime
accepted by `valid()`).
-/
import Mathlib.Algebra.Field.ZMod
import DSymVerif.Proofs.SemField

namespace DSymVerif.LA

open DSymVerif Matrix

section prc
variable {p : ℕ} [hpf : Fact p.Prime]

/-- value of a residue class -/
def valP (p : ℕ) (v : Int) : ZMod p := (v : ZMod p)

theorem valP_eq_zero {a : Int} (ha : Canon p a) : valP p a = 0 ↔ a = 0 := by
  unfold valP
  rw [ZMod.intCast_zmod_eq_zero_iff_dvd]
  constructor
  · intro h
    have h1 : a % (p : ℤ) = 0 := Int.emod_eq_zero_of_dvd h
    rw [Int.emod_eq_of_lt ha.1 ha.2] at h1
    exact h1
  · intro h; subst h; exact dvd_zero _

theorem valP_chk {x v : Int} (h : (PRC.chk x).bind (fun s => Outcome.ok (PRC.fromI64 p s)) = .ok v) :
    valP p v = (x : ZMod p) := by
  unfold valP
  rw [PRC.chk_bind_eq h, ZMod.intCast_mod]

theorem valP_div (hpm : (p : ℤ) ≤ PRC.maxP) {a b c : Int} (ha : Canon p a) (hb : Canon p b)
    (hb0 : valP p b ≠ 0) (h : PRC.div p a b = .ok c) : valP p c * valP p b = valP p a := by
  have hbne : b ≠ 0 := fun e => hb0 ((valP_eq_zero hb).2 e)
  obtain ⟨v, hv, hv0, hv1, hmul⟩ :=
    PRC.inverse_spec hpf.out hpm (a := b) (by have := hb.1; omega) hb.2
  unfold PRC.div at h
  rw [hv] at h
  simp only [PRC.bind_ok] at h
  have hc : valP p c = ((a * v : Int) : ZMod p) := valP_chk h
  have h1 : ((v * b : Int) : ZMod p) = 1 := by
    rw [← ZMod.intCast_mod, hmul]; simp
  rw [hc]
  unfold valP
  push_cast at h1 ⊢
  rw [mul_assoc, h1, mul_one]

theorem prc_fieldOpsSem (hpm : (p : ℤ) ≤ PRC.maxP) :
    FieldOpsSem (Canon p) (valP p) (PRC.zero p) (PRC.sub p) (PRC.mul p) (PRC.div p) where
  ops :=
    { zero := (prc_fieldOps hpf.out hpm).zero
      sub := (prc_fieldOps hpf.out hpm).sub
      mul := (prc_fieldOps hpf.out hpm).mul
      div := fun a b ha hb hq =>
        (prc_fieldOps hpf.out hpm).div a b ha hb (fun e => hq ((valP_eq_zero hb).2 e)) }
  zero := by unfold valP PRC.zero; rw [PRC.fromI64_eq, ZMod.intCast_mod]; simp
  sub := fun a b c _ _ h => by rw [valP_chk h]; unfold valP; push_cast; rfl
  mul := fun a b c _ _ h => by rw [valP_chk h]; unfold valP; push_cast; rfl
  div := fun a b c ha hb hq h => valP_div hpm ha hb hq h

theorem prcPivotLoop_sem {nr nc : Nat} (col : Nat) (a : Mat Int nr nc) (ha : AllE (Canon p) a)
    (hc : col < nc) :
    ∀ (n row : Nat), row + n = nr →
      ∃ r, prcPivotLoop col a n row = .ok r ∧
        (∀ pr, r = some pr → row ≤ pr ∧ ∃ h : pr < nr, valP p ((a[pr])[col]) ≠ 0) ∧
        (r = none → ∀ (i : Nat) (hi : i < nr), row ≤ i → valP p ((a[i])[col]) = 0) := by
  intro n
  induction n with
  | zero =>
    intro row hrow
    refine ⟨none, rfl, ?_, ?_⟩
    · intro pr h; cases h
    · intro _ i hi hri; omega
  | succ n ih =>
    intro row hrow
    have hr : row < nr := by omega
    unfold prcPivotLoop
    rw [Mat.get_ok a hr hc]
    simp only
    split
    · rename_i hz
      obtain ⟨r, h1, h2, h3⟩ := ih (row + 1) (by omega)
      refine ⟨r, h1, fun pr h => ⟨by have := (h2 pr h).1; omega, (h2 pr h).2⟩, ?_⟩
      intro hn i hi hri
      by_cases hir : i = row
      · subst hir
        rw [valP_eq_zero (ha i col hi hc)]
        simpa [PRC.isZero] using hz
      · exact h3 hn i hi (by omega)
    · rename_i hz
      refine ⟨some row, rfl, ?_, fun h => by cases h⟩
      intro pr h
      cases h
      refine ⟨Nat.le_refl _, hr, ?_⟩
      intro hv
      apply hz
      have := (valP_eq_zero (ha row col hr hc)).1 hv
      simp [PRC.isZero, this]

theorem prc_safe' (hpm : (p : ℤ) ≤ PRC.maxP) :
    Safe (prcBackend p) (Canon p) (fun v => valP p v ≠ 0) where
  zero := (prc_safe hpf.out hpm).zero
  one := (prc_safe hpf.out hpm).one
  add := (prc_safe hpf.out hpm).add
  sub := (prc_safe hpf.out hpm).sub
  mul := (prc_safe hpf.out hpm).mul
  neg := (prc_safe hpf.out hpm).neg
  canDivide := (prc_safe hpf.out hpm).canDivide
  pivot := by
    intro nr nc col row0 a ha hc h0
    obtain ⟨r, hr, h1, _⟩ := prcPivotLoop_sem col a ha hc (nr - row0) row0 (by omega)
    exact ⟨r, hr, h1⟩
  clear := by
    intro nr nc nx col row1 row2 a x ha hx hc h1 h2 hne hq
    exact fieldClearCol_ok (prc_fieldOpsSem hpm).ops col row1 row2 a x ha hx hc h1 h2 hne hq

theorem prc_scalarSem (hpm : (p : ℤ) ≤ PRC.maxP) : ScalarSem (prcBackend p) (Canon p) (valP p) where
  zero := by show valP p (PRC.fromI64 p 0) = 0; unfold valP; rw [PRC.fromI64_eq, ZMod.intCast_mod]; simp
  one := by
    show valP p (PRC.fromI64 p 1) = 1
    unfold valP
    rw [PRC.fromI64_eq, ZMod.intCast_mod]; simp
  isZero := by
    intro a ha
    rw [valP_eq_zero ha]
    show (PRC.isZero a = true ↔ a = 0)
    simp [PRC.isZero]
  add := fun a b c _ _ h => by
    have h' : PRC.add p a b = .ok c := h
    rw [valP_chk h']; unfold valP; push_cast; rfl
  sub := fun a b c _ _ h => by
    have h' : PRC.sub p a b = .ok c := h
    rw [valP_chk h']; unfold valP; push_cast; rfl
  mul := fun a b c _ _ h => by
    have h' : PRC.mul p a b = .ok c := h
    rw [valP_chk h']; unfold valP; push_cast; rfl
  neg := fun a c _ h => by
    have h' : PRC.neg p a = .ok c := h
    rw [valP_chk h']; unfold valP; push_cast; rfl
  div := by
    intro a b c ha hb hcd h
    have hcd' : (!PRC.isZero b) = true := Outcome.ok.inj hcd
    have hb0 : b ≠ 0 := by simpa [PRC.isZero] using hcd'
    exact valP_div hpm ha hb (fun e => hb0 ((valP_eq_zero hb).1 e)) h

/-- `echelon_invariant` hypotheses for `PrimeResidueClass<p>` -/
theorem prc_sem (hpm : (p : ℤ) ≤ PRC.maxP) : Sem (prcBackend p) (Canon p) (valP p) where
  safe := prc_safe' hpm
  scalar := prc_scalarSem hpm
  pivot_none := by
    intro nr nc col row0 a ha hc h0 hnone
    obtain ⟨r, hr, _, h2⟩ := prcPivotLoop_sem col a ha hc (nr - row0) row0 (by omega)
    have : r = none := by
      have hr' : prcPivotRow col row0 a = Outcome.ok r := hr
      have hn' : prcPivotRow col row0 a = Outcome.ok none := hnone
      rw [hr'] at hn'
      exact Outcome.ok.inj hn'
    exact h2 this
  clear := by
    intro nr nc nx col row1 row2 a x ha hx hc h1 h2 hne hq hleft a' x' hres
    exact fieldClearCol_sem (prc_fieldOpsSem hpm) col row1 row2 a x ha hx hc h1 h2 hne hq hleft
      a' x' hres

end prc

end DSymVerif.LA
