/-
Helper lemmas for property C08, part 17: morphisms of 2D symbols (a bijection of the chambers and
a bijection of the indices {0,1,2} that commute with the operations and preserve the branching
numbers — isomorphisms and dualisation) carry boundary darts to boundary darts, commute with the
boundary walk and preserve the corner words.
-/
import DSymVerif.Proofs.Delaney2dComponents

namespace DSymVerif.D2
open DSymVerif.DS

structure Mor (g f : Nat → Nat) (a b : DSymData) : Prop where
  va : ValidSym a
  vb : ValidSym b
  dima : a.dim = 2
  dimb : b.dim = 2
  size : b.size = a.size
  g_range : ∀ i, i ≤ 2 → g i ≤ 2
  g_inj : ∀ i j, i ≤ 2 → j ≤ 2 → g i = g j → i = j
  f_range : ∀ d, 1 ≤ d → d ≤ a.size → 1 ≤ f d ∧ f d ≤ a.size
  f_inj : ∀ d e, 1 ≤ d → d ≤ a.size → 1 ≤ e → e ≤ a.size → f d = f e → d = e
  op : ∀ i d, i ≤ 2 → 1 ≤ d → d ≤ a.size → b.dset.opU (g i) (f d) = f (a.dset.opU i d)
  v : ∀ j k d, j ≤ 2 → k ≤ 2 → j ≠ k → 1 ≤ d → d ≤ a.size → vN b (g j) (g k) (f d) = vN a j k d

/-- the dart map -/
def dmap (g f : Nat → Nat) (δ : Dart) : Dart := (g δ.1, g δ.2.1, f δ.2.2)

theorem g_sum (g : Nat → Nat) {j k : Nat} (hj : j ≤ 2) (hk : k ≤ 2) (hjk : j ≠ k) {t : Nat} (ht : t = j ∨ t = k) :
    g (j + k - t) = g j + g k - g t := by
  rcases ht with rfl | rfl
  · have : t + k - t = k := by omega
    rw [this]; omega
  · have : j + t - t = j := by omega
    rw [this]; omega


/-- the other end of a chain, computed from any path to a mirror -/
theorem tau_of_path {y : DSymData} (hv : ValidSet y.dset) (hdim : y.dim = 2) {δ : Dart} (hδ : ValidDart y δ)
    {n k' e' : Nat} (p : Path y.dset (δ.2.1 + δ.1) n δ.2.1 δ.2.2 k' e') (hl : y.dset.opU k' e' = e')
    (hn : n + 1 ≤ 2 * y.size + 2) : tau y δ = (k', δ.1 + δ.2.1 - k', e') := by
  obtain ⟨h1, h2, h3, h4, h5, h6⟩ := hδ
  have hδ' : ValidDart y δ := ⟨h1, h2, h3, h4, h5, h6⟩
  have hop := oppositeLoop_of_path hv .partialSym (a := δ.2.1) (b := δ.1) (by omega) (by omega) p
    (Or.inl rfl) ⟨h4, h5⟩ hl (2 * y.size + 2) hn
  unfold tau; rw [if_pos hδ']; unfold tauF
  have : opposite ⟨y, .partialSym⟩ δ.2.1 δ.1 δ.2.2 = .ok (k', e') := hop
  rw [this]


namespace Mor
variable {g f : Nat → Nat} {a b : DSymData} (m : Mor g f a b)
include m

theorem g_third {j k : Nat} (hj : j ≤ 2) (hk : k ≤ 2) (hjk : j ≠ k) : g (3 - j - k) = 3 - g j - g k := by
  have ht : 3 - j - k ≤ 2 := by omega
  have h1 := m.g_range j hj
  have h2 := m.g_range k hk
  have h3 := m.g_range _ ht
  have n1 : g j ≠ g k := fun e => hjk (m.g_inj j k hj hk e)
  have n2 : g (3 - j - k) ≠ g j := fun e => by have := m.g_inj _ j ht hj e; omega
  have n3 : g (3 - j - k) ≠ g k := fun e => by have := m.g_inj _ k ht hk e; omega
  omega

theorem valid {δ : Dart} (h : ValidDart a δ) : ValidDart b (dmap g f δ) := by
  obtain ⟨h1, h2, h3, h4, h5, h6⟩ := h
  have hf := m.f_range δ.2.2 h4 h5
  refine ⟨m.g_range _ h1, m.g_range _ h2, fun e => h3 (m.g_inj _ _ h1 h2 e), hf.1, by rw [m.size]; exact hf.2, ?_⟩
  show b.dset.opU (g δ.1) (f δ.2.2) = f δ.2.2
  rw [m.op δ.1 δ.2.2 h1 h4 h5, h6]

theorem map_rho {δ : Dart} (h : ValidDart a δ) : rho (dmap g f δ) = dmap g f (rho δ) := by
  obtain ⟨h1, h2, h3, _, _, _⟩ := h
  show (g δ.1, 3 - g δ.1 - g δ.2.1, f δ.2.2) = (g δ.1, g (3 - δ.1 - δ.2.1), f δ.2.2)
  rw [m.g_third h1 h2 h3]

theorem map_path {σ n k x k' x' : Nat} {j0 k0 : Nat} (hj0 : j0 ≤ 2) (hk0 : k0 ≤ 2) (hne : j0 ≠ k0)
    (hσ : σ = j0 + k0) (p : Path a.dset σ n k x k' x') (hk : k = j0 ∨ k = k0) (hx : 1 ≤ x ∧ x ≤ a.size) :
    Path b.dset (g j0 + g k0) n (g k) (f x) (g k') (f x') := by
  subst hσ
  induction p with
  | nil k x => exact Path.nil _ _
  | @cons n k x k' x' hstep p ih =>
    have hk2 : k ≤ 2 := by rcases hk with rfl | rfl <;> assumption
    have hkd : k ≤ a.dset.dim := by have := m.dima; show k ≤ a.dim; omega
    have hx' := m.va.set.range k x hkd hx.1 hx.2
    have hnext : j0 + k0 - k = j0 ∨ j0 + k0 - k = k0 := by
      rcases hk with rfl | rfl
      · right; omega
      · left; omega
    have ih' := ih hnext hx'
    rw [g_sum g hj0 hk0 hne hk, ← m.op k x hk2 hx.1 hx.2] at ih'
    refine Path.cons ?_ ih'
    rw [m.op k x hk2 hx.1 hx.2]
    intro e
    exact hstep (m.f_inj _ _ hx'.1 hx'.2 hx.1 hx.2 e)

theorem map_tau {δ : Dart} (h : ValidDart a δ) : tau b (dmap g f δ) = dmap g f (tau a δ) := by
  obtain ⟨h1, h2, h3, h4, h5, h6⟩ := h
  have hδ : ValidDart a δ := ⟨h1, h2, h3, h4, h5, h6⟩
  obtain ⟨n, k', e', hn, p, hk', he', hend, _⟩ :=
    chain_path m.va.set (a := δ.2.1) (b := δ.1) (by have := m.dima; omega) (by have := m.dima; omega)
      (fun e => h3 e.symm) ⟨h4, h5⟩ h6
  have hk2 : k' ≤ 2 := by rcases hk' with rfl | rfl <;> assumption
  have ta := tau_of_path m.va.set m.dima hδ p hend (by omega)
  have pb := m.map_path h2 h1 (fun e => h3 e.symm) rfl p (Or.inl rfl) ⟨h4, h5⟩
  have hendb : b.dset.opU (g k') (f e') = f e' := by rw [m.op k' e' hk2 he'.1 he'.2, hend]
  have tb := tau_of_path m.vb.set m.dimb (m.valid hδ) (δ := dmap g f δ) pb hendb (by rw [m.size]; omega)
  rw [ta, tb]
  show (g k', g δ.1 + g δ.2.1 - g k', f e') = (g k', g (δ.1 + δ.2.1 - k'), f e')
  have : g (δ.1 + δ.2.1 - k') = g δ.1 + g δ.2.1 - g k' :=
    g_sum g h1 h2 h3 (by rcases hk' with h | h <;> [right; left] <;> exact h)
  rw [this]

theorem map_phi {δ : Dart} (h : ValidDart a δ) : phi b (dmap g f δ) = dmap g f (phi a δ) := by
  have hτ := (tau_spec m.va.set m.dima h .partialSym).1
  rw [phi_eq m.vb.set m.dimb (m.valid h), phi_eq m.va.set m.dima h, m.map_tau h, m.map_rho hτ]

theorem map_iter {δ : Dart} (h : ValidDart a δ) (n : Nat) :
    (phi b)^[n] (dmap g f δ) = dmap g f ((phi a)^[n] δ) := by
  induction n with
  | zero => rfl
  | succ n ih =>
    rw [Function.iterate_succ_apply', Function.iterate_succ_apply', ih,
      m.map_phi (phi_iter_valid m.va.set m.dima h n)]

theorem map_vOf {δ : Dart} (h : ValidDart a δ) : vOf b (dmap g f δ) = vOf a δ := by
  obtain ⟨h1, h2, h3, h4, h5, _⟩ := h
  exact m.v δ.1 δ.2.1 δ.2.2 h1 h2 h3 h4 h5

theorem map_inj {δ δ' : Dart} (h : ValidDart a δ) (h' : ValidDart a δ') (e : dmap g f δ = dmap g f δ') :
    δ = δ' := by
  obtain ⟨j, k, x⟩ := δ
  obtain ⟨j', k', x'⟩ := δ'
  obtain ⟨h1, h2, _, h4, h5, _⟩ := h
  obtain ⟨h1', h2', _, h4', h5', _⟩ := h'
  simp only [dmap, Prod.mk.injEq] at e h1 h2 h4 h5 h1' h2' h4' h5'
  obtain ⟨e1, e2, e3⟩ := e
  rw [m.g_inj j j' h1 h1' e1, m.g_inj k k' h2 h2' e2, m.f_inj x x' h4 h5 h4' h5' e3]

theorem map_seqOf {σ : Dart} (h : ValidDart a σ) (n : Nat) : seqOf b (dmap g f σ) n = seqOf a σ n := by
  unfold seqOf
  congr 1
  unfold dlist
  rw [List.map_map, List.map_map]
  apply List.map_congr_left
  intro i _
  simp only [Function.comp]
  rw [m.map_iter h i, m.map_vOf (phi_iter_valid m.va.set m.dima h i)]

end Mor

end DSymVerif.D2
