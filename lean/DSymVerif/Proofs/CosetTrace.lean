/-
Tracing words through a coset table respects free reduction (C11 `trace_reduce_invariant`)
and, in a valid table, depends only on the free-group element of the word.
-/
import DSymVerif.Model.FreeWord
import DSymVerif.Proofs.CosetAction

namespace DSymVerif.CosetP
open DSymVerif.SpecC11 DSymVerif

/-- `t[t[c][g]][−g] = c` wherever defined -/
def InvConsistent (t : Tab) (n : Nat) : Prop :=
  ∀ c g d, entry t n c g = some d → entry t n d (-g) = some c

theorem traceWord_snoc {t : Tab} {n : Nat} {a : List Int} {x : Int} {c d : Nat}
    (h : traceWord t n c (a ++ [x]) = some d) :
    ∃ c', traceWord t n c a = some c' ∧ entry t n c' x = some d := by
  rw [traceWord_append] at h
  cases h1 : traceWord t n c a with
  | none => simp [h1] at h
  | some c' =>
    refine ⟨c', rfl, ?_⟩
    simp only [h1, Option.bind_some, traceWord] at h
    cases he : entry t n c' x with
    | none => simp [he] at h
    | some e => simpa [he] using h

theorem traceWord_snoc_intro {t : Tab} {n : Nat} {a : List Int} {x : Int} {c c' d : Nat}
    (h1 : traceWord t n c a = some c') (h2 : entry t n c' x = some d) :
    traceWord t n c (a ++ [x]) = some d := by
  rw [traceWord_append, h1]
  simp [traceWord, h2]

/-- loop invariant of `normalized`: the (reversed) buffer traces like the prefix read so far -/
theorem trace_foldl_step {t : Tab} {n : Nat} (hinv : InvConsistent t n) :
    ∀ (w acc : List Int) (c0 c1 d : Nat),
      traceWord t n c0 acc.reverse = some c1 → traceWord t n c1 w = some d →
      traceWord t n c0 ((w.foldl FW.step acc).reverse) = some d
  | [], acc, c0, c1, d, h1, h2 => by
    simp only [traceWord, Option.some.injEq] at h2
    subst h2
    simpa using h1
  | x :: w, acc, c0, c1, d, h1, h2 => by
    simp only [traceWord] at h2
    cases he : entry t n c1 x with
    | none => simp [he] at h2
    | some e =>
      simp only [he] at h2
      have hx : x ≠ 0 := by
        rintro rfl
        rw [entry_zero] at he
        cases he
      rw [List.foldl_cons]
      refine trace_foldl_step hinv w (FW.step acc x) c0 e d ?_ h2
      cases acc with
      | nil =>
        simp only [List.reverse_nil, traceWord, Option.some.injEq] at h1
        subst h1
        simp [FW.step, hx, traceWord, he]
      | cons y ys =>
        rw [List.reverse_cons] at h1
        obtain ⟨c', h3, h4⟩ := traceWord_snoc h1
        by_cases hxy : x = -y
        · subst hxy
          have := hinv _ _ _ h4
          rw [this] at he
          injection he with he
          subst he
          simpa [FW.step] using h3
        · simp only [FW.step, hxy, if_false, hx, ne_eq, not_false_eq_true, if_true]
          rw [List.reverse_cons, List.reverse_cons]
          apply traceWord_snoc_intro _ he
          rw [← List.reverse_cons]
          rw [List.reverse_cons]
          exact traceWord_snoc_intro h3 h4

/-- tracing respects free reduction: in an inverse-consistent table (complete or not) a
    word that can be traced from `c` to `d` has a normal form that also traces from `c` to `d` -/
theorem trace_normalized {t : Tab} {n : Nat} (hinv : InvConsistent t n) (w : List Int) (c d : Nat)
    (h : traceWord t n c w = some d) : traceWord t n c (FW.normalized w) = some d := by
  unfold FW.normalized
  exact trace_foldl_step hinv w [] c c d (by simp [traceWord]) h

/-- in a complete table every word over the letters can be traced from every row -/
theorem traceWord_total {t : Tab} {n : Nat} {rels subs : List (List Int)} (hv : Valid t n rels subs) :
    ∀ (w : List Int) (c : Nat), c < t.size → (∀ g ∈ w, g ∈ letters n) → ∃ d, traceWord t n c w = some d
  | [], c, _, _ => ⟨c, rfl⟩
  | g :: w, c, hc, hw => by
    obtain ⟨e, he⟩ := hv.total c hc g (hw g (by simp))
    obtain ⟨d, hd⟩ := traceWord_total hv w e (entry_some he).1 (fun x hx => hw x (by simp [hx]))
    exact ⟨d, by simp [traceWord, he, hd]⟩

/-- in a valid table the end row of a word depends only on its free-group element -/
theorem trace_congr {t : Tab} {n : Nat} {rels subs : List (List Int)} (hv : Valid t n rels subs)
    (w w' : List Int) (hw : ∀ g ∈ w, g ∈ letters n) (hw' : ∀ g ∈ w', g ∈ letters n)
    (h : wordElt n w = wordElt n w') (c : Nat) (hc : c < t.size) :
    traceWord t n c w = traceWord t n c w' := by
  obtain ⟨d, hd⟩ := traceWord_total hv w c hc hw
  obtain ⟨d', hd'⟩ := traceWord_total hv w' c hc hw'
  have h1 := lift_trace hv w ⟨c, hc⟩ d hd
  have h2 := lift_trace hv w' ⟨c, hc⟩ d' hd'
  rw [h] at h1
  rw [hd, hd', ← h1, ← h2]

end DSymVerif.CosetP
