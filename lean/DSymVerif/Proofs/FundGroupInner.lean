/-
Helper lemmas for property C09, part 28 (for C16 `InnerWallsAreFaces`): completeness of
`glue_recursively`.  While only non-mirror facets are glued,

* the pairing entry of a ridge is determined by which crossings of its walk are still in the
  boundary (`walk_end`),
* the chambers of a walk through glued facets are pairwise different (`walk_distinct`),
* when `glue` removes the last-but-one facet pair of a 2-orbit it pushes a ridge of the last
  pair (`glue_push`).
-/
import DSymVerif.Proofs.FundGroupCert

namespace DSymVerif.FGP
open DSymVerif DSymVerif.DS DSymVerif.FG

/-- every ridge that has left the boundary belongs to a non-mirror facet -/
def GNM (ds : DSymData) (m : OppMap) : Prop :=
  ∀ k, Rng ds k → oppGet m k = none → opT ds k.2.1 k.1 ≠ k.1

/-- the pairing entry is determined by which crossings of the walk are still present -/
theorem walk_end {ds : DSymData} (hv : ValidSet ds.dset) {m : OppMap} (hm : BInv ds m)
    (hw : WInv ds m) (hg : GNM ds m) {d i j : Nat} (hr : Rng ds (d, i, j)) {opp : Ridge} {n : Nat}
    (g : oppGet m (d, i, j) = some (opp, n)) {T : Nat}
    (hgl : ∀ t, t < T → oppGet m (crossR ds d i j t) = none)
    (hT : oppGet m (crossR ds d i j T) ≠ none) : n = T + 1 ∧ opp = crossR ds d i j T := by
  have W := hw d i j opp n hr g
  have hn1 := (hm.vals _ _ _ g).1
  have h1 : ¬ (T + 1 < n) := fun h => hT (W.1 T h).1
  have hend : opp = crossR ds d i j (n - 1) := by
    rcases W.2 with e | ⟨_, e2, e3⟩
    · exact e
    · exact absurd e3 (hg _ (crossR_rng hv hr (n - 1)) e2)
  have h2 : ¬ (n - 1 < T) := by
    intro h
    have hnone := hgl (n - 1) h
    have hR : Rng ds opp := by rw [hend]; exact crossR_rng hv hr (n - 1)
    have := hm.symm _ _ _ hr g hR
    rw [hend, hnone] at this
    cases this
  have hn : n = T + 1 := by omega
  subst hn
  exact ⟨rfl, hend⟩

theorem glueGood_true {ds : DSymData} (hs : ValidSym ds) {m : OppMap} {e i j : Nat}
    (hr : Rng ds (e, i, j)) {opp : Ridge} {n : Nat} (g : oppGet m (e, i, j) = some (opp, n))
    (hn : n = orbR ds i j e * orbV ds i j e * (if opT ds i e = e then 1 else 2)) :
    glueGood ds m e i (some j) = .ok true := by
  unfold glueGood
  simp only
  obtain ⟨a, b, hra, hvb, hm⟩ := hs.mPartial_some hr.2.2.1 hr.2.2.2.1 hr.1 hr.2.1
  rw [hm]
  simp only
  have hor : orbR ds i j e = a := by unfold orbR; rw [hra]
  have hov : orbV ds i j e = b := by unfold orbV; rw [hvb]
  have ht : (if ds.op i e = some e then 1 else 2) = (if opT ds i e = e then 1 else 2) := by
    rw [op_eq hr.2.2.1 hr.1 hr.2.1, opT_eq hr.2.2.1 hr.1 hr.2.1]
    by_cases h : ds.dset.opU i e = e
    · simp [h]
    · simp [h]
  rw [g, ht, hn, hor, hov]
  simp

theorem wk_inj {op : Nat → Nat → Nat} (hinv : ∀ a c, op a (op a c) = c) :
    ∀ (n a b c c' : Nat), wk op a b n c = wk op a b n c' → c = c'
  | 0, _, _, _, _, h => h
  | n + 1, a, b, c, c', h => by
    have h' : wk op b a n (op a c) = wk op b a n (op a c') := h
    have := wk_inj hinv n b a _ _ h'
    have h2 := congrArg (op a) this
    rwa [hinv, hinv] at h2

theorem ix_even (a b k : Nat) : ix a b (2 * k) = a := by
  unfold ix
  have : (2 * k) % 2 = 0 := by omega
  rw [this]; rfl

/-- the chambers of a walk whose crossings are non-mirror facets are pairwise different, up to
    the length of the 2-orbit -/
theorem walk_distinct {ds : DSymData} (hs : ValidSym ds) {e a b : Nat} (hr : Rng ds (e, a, b))
    {T : Nat}
    (hnm : ∀ t, t < T → opT ds (ix b a t) (wk (opT ds) b a t e) ≠ wk (opT ds) b a t e)
    {s t : Nat} (hst : s < t) (ht : t ≤ T) (ht2 : t < 2 * orbR ds a b e)
    (heq : wk (opT ds) b a s e = wk (opT ds) b a t e) : False := by
  have hv := hs.set
  obtain ⟨N, rfl⟩ : ∃ N, t = s + N := ⟨t - s, by omega⟩
  rcases Nat.mod_two_eq_zero_or_one N with hpar | hpar
  · -- even: a period shorter than the least one
    obtain ⟨k, rfl⟩ : ∃ k, N = 2 * k := ⟨N / 2, by omega⟩
    have h1 : wk (opT ds) b a (2 * k + s) e = wk (opT ds) b a s (wk (opT ds) b a (2 * k) e) := by
      rw [wk_add, ix_even, ix_even]
    rw [Nat.add_comm s (2 * k), h1] at heq
    have h2 := wk_inj (opT_invol hv) s b a _ _ heq
    rw [wk_opT_even hv hr.2.2.2.1 hr.2.2.1 hr.1 hr.2.1] at h2
    have hl : IsLeastPeriod ds.dset b a e (orbR ds b a e) :=
      (orbR_spec hs hr.2.2.2.1 hr.2.2.1 hr.1 hr.2.1).2
    rw [orbR_swap] at hl
    exact hl.2.2 k (by omega) (by omega) h2.symm
  · -- odd: a palindrome, its middle crossing is a mirror
    have hret : wk (opT ds) (ix b a s) (ix a b s) N (wk (opT ds) b a s e) = wk (opT ds) b a s e := by
      rw [← wk_add]; exact heq.symm
    have hp := wk_palindrome (opT ds) (opT_invol hv) hpar hret (N / 2) (by omega)
    have hN : N - N / 2 = N / 2 + 1 := by omega
    rw [hN, wk_succ_last, ← wk_add, ← ix_add] at hp
    exact hnm (s + N / 2) (by omega) hp

/-! ### what a non-mirror `glue` pushes -/

theorem glueStep_push {ds : DSymData} {d i di j : Nat} {m m' : OppMap} {res res' : List Ridge}
    {X : Ridge} {c : Nat} (g : oppGet m (d, i, j) = some (X, c)) (hne : d ≠ di)
    (hX : ds.op X.2.1 X.1 ≠ some X.1)
    (h : glueStep ds d i di (.ok (m, res)) j = .ok (m', res')) : X ∈ res' := by
  unfold glueStep at h
  simp only [g, if_neg hne] at h
  split at h
  · cases h
  · injection h with h
    have h2 : _ = res' := congrArg Prod.snd h
    rw [← h2, if_pos hX]
    simp

/-- a non-mirror step keeps `GNM` -/
theorem stepOut_gnm {ds : DSymData} (hv : ValidSet ds.dset) {d i j : Nat} {m m' : OppMap}
    {res res' : List Ridge} (hA : Rng ds (d, i, j)) (hnm : opT ds i d ≠ d)
    (so : StepOut ds d i j m res m' res') (hg : GNM ds m) : GNM ds m' := by
  intro k hk hn
  by_cases kA : k = (d, i, j)
  · rw [kA]; exact hnm
  · by_cases kB : k = partner ds (d, i, j)
    · rw [kB]
      show opT ds i (ds.dset.opU i d) ≠ ds.dset.opU i d
      rw [← opT_eq hA.2.2.1 hA.1 hA.2.1, opT_invol hv]
      exact fun e => hnm e.symm
    · exact hg k hk ((so.frame k hk kA kB).1 hn)

/-- presence of the ridges of the 2-orbits `{i, j'}` agrees in the two maps -/
def SameP (ds : DSymData) (i j' : Nat) (m0 m : OppMap) : Prop :=
  ∀ k, Rng ds k → (k.2.2 = i ∨ k.2.2 = j') → (oppGet m k = none ↔ oppGet m0 k = none)

theorem glueFold_push {ds : DSymData} (hv : ValidSet ds.dset) {d i : Nat} (hd : FacetR ds d i)
    (hnm : opT ds i d ≠ d) {j' : Nat} {X : Ridge} (hXm : ds.op X.2.1 X.1 ≠ some X.1) (m0 : OppMap)
    (hX : ∀ m1, BInv ds m1 → WInv ds m1 → GNM ds m1 → SameP ds i j' m0 m1 →
      ∃ n, oppGet m1 (d, i, j') = some (X, n)) :
    ∀ (js : List Nat), (∀ j ∈ js, j ≤ ds.dim ∧ j ≠ i) → j' ∈ js → ∀ (m : OppMap) (res : List Ridge),
    BInv ds m → WInv ds m → GNM ds m → SameP ds i j' m0 m →
    ∀ m' res', js.foldl (glueStep ds d i (ds.dset.opU i d)) (.ok (m, res)) = .ok (m', res') →
      X ∈ res'
  | [], _, hj', _, _, _, _, _, _, _, _, _ => by cases hj'
  | j :: js, hjs, hj', m, res, hm, hw, hg, hsame, m', res', h => by
    have hj := hjs j List.mem_cons_self
    have hA : Rng ds (d, i, j) := ⟨hd.1, hd.2.1, hd.2.2, hj.1, fun e => hj.2 e.symm⟩
    obtain ⟨m1, res1, e1, so⟩ := glueStep_ok hv hm hA res
    rw [List.foldl_cons, e1] at h
    by_cases hjj : j = j'
    · subst hjj
      obtain ⟨n, g⟩ := hX m hm hw hg hsame
      have hne : d ≠ ds.dset.opU i d := by
        rw [← opT_eq hd.2.2 hd.1 hd.2.1]; exact fun e => hnm e.symm
      have hin := glueStep_push g hne hXm e1
      obtain ⟨m2, res2, e2, _, _, _, _, _, l2, hl2⟩ :=
        glueFold_ok hv hd js (fun j' hj' => hjs j' (List.mem_cons_of_mem _ hj')) m1 res1 so.inv
      rw [e2] at h
      injection h with h
      have : res2 = res' := congrArg Prod.snd h
      rw [← this, hl2]
      exact List.mem_append_left _ hin
    · have hj'' : j' ∈ js := by
        rcases List.mem_cons.1 hj' with h' | h'
        · exact absurd h'.symm hjj
        · exact h'
      have hj'r := hjs j' hj'
      refine glueFold_push hv hd hnm hXm m0 hX js
        (fun j' hj' => hjs j' (List.mem_cons_of_mem _ hj')) hj'' m1 res1 so.inv (so.winv hw)
        (stepOut_gnm hv hA hnm so hg) ?_ m' res' h
      intro k hk hk2
      have kA : k ≠ (d, i, j) := by
        intro e
        have : k.2.2 = j := by rw [e]
        rcases hk2 with h' | h'
        · exact hj.2 (by rw [← this, h'])
        · exact hjj (by rw [← this, h'])
      have kB : k ≠ partner ds (d, i, j) := by
        intro e
        have : k.2.2 = j := by rw [e]; rfl
        rcases hk2 with h' | h'
        · exact hj.2 (by rw [← this, h'])
        · exact hjj (by rw [← this, h'])
      rw [so.frame k hk kA kB]
      exact hsame k hk hk2

theorem glue_push {ds : DSymData} (hv : ValidSet ds.dset) {m : OppMap} (hm : BInv ds m)
    (hw : WInv ds m) (hg : GNM ds m) {d i : Nat} (hd : FacetR ds d i) (hnm : opT ds i d ≠ d)
    {j' : Nat} (hj' : j' ≤ ds.dim) (hji : j' ≠ i) {X : Ridge} (hXm : ds.op X.2.1 X.1 ≠ some X.1)
    (hX : ∀ m1, BInv ds m1 → WInv ds m1 → GNM ds m1 → SameP ds i j' m m1 →
      ∃ n, oppGet m1 (d, i, j') = some (X, n))
    {m' : OppMap} {rs : List Ridge} (h : glue ds m d i = .ok (m', rs)) : X ∈ rs := by
  unfold glue at h
  rw [op_eq hd.2.2 hd.1 hd.2.1] at h
  simp only at h
  have hjs : ∀ j ∈ (List.range (ds.dim + 1)).filter (· ≠ i), j ≤ ds.dim ∧ j ≠ i := by
    intro j hj
    rw [List.mem_filter, List.mem_range] at hj
    exact ⟨by omega, by simpa using hj.2⟩
  refine glueFold_push hv hd hnm hXm m hX _ hjs ?_ m [] hm hw hg (fun _ _ _ => Iff.rfl) m' rs h
  rw [List.mem_filter, List.mem_range]
  exact ⟨by omega, by simpa using hji⟩

/-- a non-mirror `glue` keeps `GNM` -/
theorem glue_gnm {ds : DSymData} (hv : ValidSet ds.dset) {d i : Nat} (hd : FacetR ds d i)
    (hnm : opT ds i d ≠ d) {m m' : OppMap} {rs : List Ridge} (go : GlueOut ds d i m m' rs)
    (hg : GNM ds m) : GNM ds m' := by
  intro k hk hn
  by_cases h1 : ∃ j, k = (d, i, j)
  · obtain ⟨j, rfl⟩ := h1; exact hnm
  · by_cases h2 : ∃ j, k = partner ds (d, i, j)
    · obtain ⟨j, rfl⟩ := h2
      show opT ds i (ds.dset.opU i d) ≠ ds.dset.opU i d
      rw [← opT_eq hd.2.2 hd.1 hd.2.1, opT_invol hv]
      exact fun e => hnm e.symm
    · exact hg k hk ((go.frame k hk (fun j => ⟨fun e => h1 ⟨j, e⟩, fun e => h2 ⟨j, e⟩⟩)).1 hn)

end DSymVerif.FGP
