/-
Helper lemmas for property C20, part 1: the abstract side.

`Conn us` is Mathlib's equivalence closure `Relation.EqvGen` of the list of performed
unions.  The two facts everything else rests on:

* `conn_cons`  : adding one union (a,b) merges exactly the classes of a and b;
* `merge_rep`  : a representative function that is redirected on exactly the two classes of
                 a and b to one of their two old representatives tracks `Conn ((a,b) :: us)`.

`labels_sound` proves that the Spec's naive quadratic relabelling oracle decides `Conn`.
-/
import Mathlib.Logic.Relation
import DSymVerif.Spec.C20

namespace DSymVerif.PartP
open DSymVerif.SpecC20

/-- connected by the unions in `us` -/
def Conn (us : List (Nat × Nat)) : Nat → Nat → Prop :=
  Relation.EqvGen (fun x y => (x, y) ∈ us)

theorem Conn.refl {us} (a : Nat) : Conn us a a := Relation.EqvGen.refl a
theorem Conn.symm {us a b} (h : Conn us a b) : Conn us b a := Relation.EqvGen.symm _ _ h
theorem Conn.trans {us a b c} (h : Conn us a b) (h' : Conn us b c) : Conn us a c :=
  Relation.EqvGen.trans _ _ _ h h'
theorem Conn.of_mem {us a b} (h : (a, b) ∈ us) : Conn us a b := Relation.EqvGen.rel _ _ h

theorem Conn.mono {us us' : List (Nat × Nat)} (hs : ∀ p, p ∈ us → p ∈ us') {a b}
    (h : Conn us a b) : Conn us' a b := by
  induction h with
  | rel x y h => exact Conn.of_mem (hs _ h)
  | refl x => exact Conn.refl x
  | symm x y _ ih => exact ih.symm
  | trans x y z _ _ ih1 ih2 => exact ih1.trans ih2

theorem Conn.nil {a b} (h : Conn [] a b) : a = b := by
  induction h with
  | rel x y h => cases h
  | refl x => rfl
  | symm x y _ ih => exact ih.symm
  | trans x y z _ _ ih1 ih2 => exact ih1.trans ih2

theorem conn_nil_iff {a b} : Conn [] a b ↔ a = b :=
  ⟨Conn.nil, fun h => h ▸ Conn.refl a⟩

/-- adding the union (a,b) merges exactly the classes of a and b -/
theorem conn_cons {us : List (Nat × Nat)} {a b u v : Nat} :
    Conn ((a, b) :: us) u v ↔
      Conn us u v ∨ ((Conn us u a ∨ Conn us u b) ∧ (Conn us v a ∨ Conn us v b)) := by
  constructor
  · intro h
    induction h with
    | rel x y h =>
      rcases List.mem_cons.1 h with h | h
      · cases h
        exact Or.inr ⟨Or.inl (Conn.refl _), Or.inr (Conn.refl _)⟩
      · exact Or.inl (Conn.of_mem h)
    | refl x => exact Or.inl (Conn.refl x)
    | symm x y _ ih =>
      rcases ih with ih | ⟨h1, h2⟩
      · exact Or.inl ih.symm
      · exact Or.inr ⟨h2, h1⟩
    | trans x y z _ _ ih1 ih2 =>
      rcases ih1 with h1 | ⟨hx, hy⟩
      · rcases ih2 with h2 | ⟨hy', hz⟩
        · exact Or.inl (h1.trans h2)
        · refine Or.inr ⟨?_, hz⟩
          rcases hy' with h | h
          · exact Or.inl (h1.trans h)
          · exact Or.inr (h1.trans h)
      · rcases ih2 with h2 | ⟨_, hz⟩
        · refine Or.inr ⟨hx, ?_⟩
          rcases hy with h | h
          · exact Or.inl (h2.symm.trans h)
          · exact Or.inr (h2.symm.trans h)
        · exact Or.inr ⟨hx, hz⟩
  · have mono : ∀ {x y}, Conn us x y → Conn ((a, b) :: us) x y :=
      fun h => Conn.mono (fun p hp => List.mem_cons_of_mem _ hp) h
    have hab : Conn ((a, b) :: us) a b := Conn.of_mem (List.mem_cons_self ..)
    have key : ∀ {x}, (Conn us x a ∨ Conn us x b) → Conn ((a, b) :: us) x a := by
      intro x h
      rcases h with h | h
      · exact mono h
      · exact (mono h).trans hab.symm
    rintro (h | ⟨h1, h2⟩)
    · exact mono h
    · exact (key h1).trans (key h2).symm

/-- a union of two already connected elements changes nothing -/
theorem conn_cons_of_conn {us : List (Nat × Nat)} {a b : Nat} (hab : Conn us a b) {u v : Nat} :
    Conn ((a, b) :: us) u v ↔ Conn us u v := by
  rw [conn_cons]
  constructor
  · rintro (h | ⟨h1, h2⟩)
    · exact h
    · have h1' : Conn us u a := h1.elim id (fun h => h.trans hab.symm)
      have h2' : Conn us v a := h2.elim id (fun h => h.trans hab.symm)
      exact h1'.trans h2'.symm
  · exact Or.inl

/-- The merge step, for any representative function: if `rep` tracks `Conn us` and `rep'`
    redirects exactly the classes of `a` and `b` to `w ∈ {rep a, rep b}`, then `rep'` tracks
    `Conn ((a,b) :: us)`. -/
theorem merge_rep {rep rep' : Nat → Nat} {us : List (Nat × Nat)} {a b w : Nat}
    (h : ∀ u v, rep u = rep v ↔ Conn us u v)
    (hw : w = rep a ∨ w = rep b)
    (h' : ∀ z, rep' z = if rep z = rep a ∨ rep z = rep b then w else rep z) :
    ∀ u v, rep' u = rep' v ↔ Conn ((a, b) :: us) u v := by
  intro u v
  rw [conn_cons, ← h, ← h, ← h, ← h, ← h, h' u, h' v]
  by_cases hu : rep u = rep a ∨ rep u = rep b <;> by_cases hv : rep v = rep a ∨ rep v = rep b
  · simp [hu, hv]
  · rw [if_pos hu, if_neg hv]
    have hne : w ≠ rep v := by
      intro e
      rcases hw with hw | hw
      · exact hv (Or.inl (by rw [← e, hw]))
      · exact hv (Or.inr (by rw [← e, hw]))
    constructor
    · intro e; exact absurd e hne
    · rintro (e | ⟨_, h2⟩)
      · exact absurd (e ▸ hu) hv
      · exact absurd h2 hv
  · rw [if_neg hu, if_pos hv]
    have hne : rep u ≠ w := by
      intro e
      rcases hw with hw | hw
      · exact hu (Or.inl (by rw [e, hw]))
      · exact hu (Or.inr (by rw [e, hw]))
    constructor
    · intro e; exact absurd e hne
    · rintro (e | ⟨h1, _⟩)
      · exact absurd (e ▸ hv) hu
      · exact absurd h1 hu
  · rw [if_neg hu, if_neg hv]
    constructor
    · exact Or.inl
    · rintro (e | ⟨h1, _⟩)
      · exact e
      · exact absurd h1 hu

/-- connected elements are equal or both occur in some union -/
theorem Conn.bounded {us : List (Nat × Nat)} {n : Nat} (hus : ∀ p ∈ us, p.1 < n ∧ p.2 < n)
    {a b : Nat} (h : Conn us a b) : a = b ∨ (a < n ∧ b < n) := by
  induction h with
  | rel x y h => exact Or.inr (hus _ h)
  | refl x => exact Or.inl rfl
  | symm x y _ ih => rcases ih with ih | ih; exact Or.inl ih.symm; exact Or.inr ⟨ih.2, ih.1⟩
  | trans x y z _ _ ih1 ih2 =>
    rcases ih1 with rfl | ih1
    · exact ih2
    · rcases ih2 with rfl | ih2
      · exact Or.inr ih1
      · exact Or.inr ⟨ih1.1, ih2.2⟩

/-! ### the Spec's relabelling oracle decides `Conn` -/

theorem get_lt {l : List Nat} {z : Nat} (h : z < l.length) : get l z = l[z] := by
  simp [SpecC20.get, List.getD_eq_getElem?_getD, h]

theorem get_ge {l : List Nat} {z : Nat} (h : l.length ≤ z) : get l z = z := by
  simp [SpecC20.get, List.getD_eq_getElem?_getD, h]

theorem get_map {l : List Nat} {f : Nat → Nat} {z : Nat} (h : z < l.length) :
    get (l.map f) z = f (get l z) := by
  rw [get_lt (by simpa using h), get_lt h]; simp

theorem relabel_length (l : List Nat) (a b : Nat) : (relabel l a b).length = l.length := by
  simp [relabel]

theorem get_relabel (l : List Nat) (a b z : Nat) :
    get (relabel l a b) z =
      if z < l.length then (if get l z = get l b then get l a else get l z) else z := by
  by_cases h : z < l.length
  · rw [if_pos h]; unfold relabel; rw [get_map h]
  · rw [if_neg h]; exact get_ge (by rw [relabel_length]; omega)

/-- The labelling oracle of the Spec: table of length `n`, labels inside the universe, and
    equal labels ⇔ connected. -/
theorem labels_sound (n : Nat) (us : List (Nat × Nat)) (hus : ∀ p ∈ us, p.1 < n ∧ p.2 < n) :
    (labels n us).length = n ∧ (∀ z, z < n → get (labels n us) z < n) ∧
      ∀ u v, get (labels n us) u = get (labels n us) v ↔ Conn us u v := by
  induction us with
  | nil =>
    have hg : ∀ z, get (List.range n) z = z := by
      intro z
      by_cases h : z < n
      · rw [get_lt (by simpa using h)]; simp
      · exact get_ge (by simp; omega)
    refine ⟨by simp [labels], fun z hz => by simpa [labels, hg] using hz, fun u v => ?_⟩
    simp only [labels, hg]; exact conn_nil_iff.symm
  | cons p us ih =>
    obtain ⟨a, b⟩ := p
    have hus' : ∀ p ∈ us, p.1 < n ∧ p.2 < n := fun p hp => hus p (List.mem_cons_of_mem _ hp)
    obtain ⟨hlen, hlt, hconn⟩ := ih hus'
    have hab := hus (a, b) (List.mem_cons_self ..)
    have hrep : ∀ z, get (labels n ((a, b) :: us)) z =
        if get (labels n us) z = get (labels n us) a ∨ get (labels n us) z = get (labels n us) b
        then get (labels n us) a else get (labels n us) z := by
      intro z
      show get (relabel (labels n us) a b) z = _
      rw [get_relabel, hlen]
      by_cases hz : z < n
      · rw [if_pos hz]
        by_cases h1 : get (labels n us) z = get (labels n us) b
        · rw [if_pos h1, if_pos (Or.inr h1)]
        · rw [if_neg h1]
          by_cases h2 : get (labels n us) z = get (labels n us) a
          · rw [if_pos (Or.inl h2), h2]
          · rw [if_neg (not_or.2 ⟨h2, h1⟩)]
      · rw [if_neg hz]
        have hzz : get (labels n us) z = z := get_ge (by omega)
        have ha := hlt a hab.1
        have hb := hlt b hab.2
        rw [if_neg (by rw [hzz]; omega), hzz]
    refine ⟨by show (relabel _ a b).length = n; rw [relabel_length, hlen], ?_, ?_⟩
    · intro z hz
      rw [hrep]
      split
      · exact hlt a hab.1
      · exact hlt z hz
    · exact merge_rep hconn (Or.inl rfl) hrep

end DSymVerif.PartP
