/-
The machine-integer back-end (`Entry for i64`, idealised integers: `c = Outcome.ok`)
is safe for the generic elimination loop: `pivot_row` and `clear_col` only touch
in-range entries.
-/
import DSymVerif.Proofs.Echelon

namespace DSymVerif.LA

open DSymVerif

def TrueP : Int → Prop := fun _ => True

theorem allE_true {nr nc : Nat} (m : Mat Int nr nc) : AllE TrueP m := fun _ _ _ _ => trivial

theorem i64PivotRow_ok {nr nc : Nat} (col row0 : Nat) (a : Mat Int nr nc) (hc : col < nc)
    (h0 : row0 < nr) :
    ∃ r, i64PivotRow .ok col row0 a = .ok r ∧ ∀ pr, r = some pr → row0 ≤ pr ∧ pr < nr := by
  unfold i64PivotRow
  obtain ⟨best, hb, hle, hlt⟩ := forRange_ok (row0 + 1) nr row0
    (fun row best =>
      (a.get row col).bind fun x => (a.get best col).bind fun y =>
      if x ≠ 0 then
        if y = 0 then Outcome.ok row
        else (iabs .ok x).bind fun ax => (iabs .ok y).bind fun ay =>
          Outcome.ok (if ax < ay then row else best)
      else Outcome.ok best)
    (fun best => row0 ≤ best ∧ best < nr) ⟨Nat.le_refl _, h0⟩
    (by
      intro row best hr1 hr2 ⟨hb1, hb2⟩
      rw [Mat.get_ok a hr2 hc, Mat.get_ok a hb2 hc]
      simp only [bind_ok, iabs]
      split
      · split
        · exact ⟨row, rfl, by omega, hr2⟩
        · split
          · exact ⟨row, rfl, by omega, hr2⟩
          · exact ⟨best, rfl, hb1, hb2⟩
      · exact ⟨best, rfl, hb1, hb2⟩)
  rw [hb]
  simp only [bind_ok]
  rw [Mat.get_ok a hlt hc]
  simp only [bind_ok]
  refine ⟨_, rfl, ?_⟩
  intro pr hpr
  split at hpr
  · cases hpr; exact ⟨hle, hlt⟩
  · cases hpr

theorem i64ClearRowPair_ok {nr n : Nat} (lo row1 row2 : Nat) (det r s t u : Int)
    (a : Mat Int nr n) (h1 : row1 < nr) (h2 : row2 < nr) :
    ∃ a', i64ClearRowPair .ok lo row1 row2 det r s t u a = .ok a' := by
  unfold i64ClearRowPair
  obtain ⟨a', ha', _⟩ := forRange_ok lo n a
    (fun k a =>
      (a.get row2 k).bind fun x2 => (a.get row1 k).bind fun x1 =>
      (Outcome.ok (x2 * r)).bind fun p1 => (Outcome.ok (x1 * s)).bind fun p2 =>
      (Outcome.ok (p1 + p2)).bind fun sm =>
      (Outcome.ok (det * sm)).bind fun tmp =>
      (a.get row2 k).bind fun y2 => (a.get row1 k).bind fun y1 =>
      (Outcome.ok (y2 * t)).bind fun p3 => (Outcome.ok (y1 * u)).bind fun p4 =>
      (Outcome.ok (p3 + p4)).bind fun n1 =>
      (a.set row1 k n1).bind fun a => a.set row2 k tmp)
    (fun _ => True) trivial
    (by
      intro k a _ hk _
      rw [Mat.get_ok a h2 hk, Mat.get_ok a h1 hk]
      simp only [bind_ok]
      rw [Mat.set_ok a h1 hk]
      simp only [bind_ok]
      rw [Mat.set_ok _ h2 hk]
      exact ⟨_, rfl, trivial⟩)
  exact ⟨a', ha'⟩

theorem i64ClearCol_ok {nr nc nx : Nat} (col row1 row2 : Nat) (a : Mat Int nr nc)
    (x : Mat Int nr nx) (hc : col < nc) (h1 : row1 < nr) (h2 : row2 < nr) :
    ∃ r, i64ClearCol .ok col row1 row2 a x = .ok r := by
  unfold i64ClearCol
  rw [Mat.get_ok a h2 hc, Mat.get_ok a h1 hc]
  simp only [bind_ok]
  obtain ⟨g, r, s, t, u, hg, _⟩ := gcdx_ok ((a[row2])[col]) ((a[row1])[col])
  rw [hg]
  simp only [bind_ok]
  obtain ⟨a', ha'⟩ := i64ClearRowPair_ok col row1 row2 (r * u - s * t) r s t u a h1 h2
  rw [ha']
  simp only [bind_ok]
  obtain ⟨x', hx'⟩ := i64ClearRowPair_ok 0 row1 row2 (r * u - s * t) r s t u x h1 h2
  rw [hx']
  exact ⟨_, rfl⟩

theorem i64_safe : Safe (i64Backend .ok) TrueP TrueP where
  zero := trivial
  one := trivial
  add := fun _ _ _ _ => ⟨_, rfl, trivial⟩
  sub := fun _ _ _ _ => ⟨_, rfl, trivial⟩
  mul := fun _ _ _ _ => ⟨_, rfl, trivial⟩
  neg := fun _ _ => ⟨_, rfl, trivial⟩
  canDivide := by
    intro a b _ _
    show ∃ r, i64CanDivide .ok a b = .ok r ∧ _
    unfold i64CanDivide
    by_cases hb : b = 0
    · simp only [hb, if_true]
      exact ⟨false, rfl, fun h => by cases h⟩
    · simp only [hb, if_false, bind_ok]
      refine ⟨_, rfl, fun _ => ⟨a.tdiv b, ?_, trivial⟩⟩
      show (if b = 0 then Outcome.panic else Outcome.ok (a.tdiv b)) = _
      simp only [hb, if_false]
  pivot := by
    intro nr nc col row0 a _ hc h0
    obtain ⟨r, hr, hpr⟩ := i64PivotRow_ok col row0 a hc h0
    exact ⟨r, hr, fun pr h => ⟨(hpr pr h).1, (hpr pr h).2, trivial⟩⟩
  clear := by
    intro nr nc nx col row1 row2 a x _ _ hc h1 h2 _ _
    obtain ⟨⟨a', x'⟩, hr⟩ := i64ClearCol_ok col row1 row2 a x hc h1 h2
    exact ⟨a', x', hr, allE_true _, allE_true _, trivial⟩

end DSymVerif.LA
