/-
Helper lemmas for property C08, part 29: the lifted map of `Delaney2dLift.lean` has `2F`
triangles and at least `2b` caps, `(6F + #valid darts)/2 ≤ 3F + C` edges, and is connected when
the symbol is connected and not weakly oriented; Ree's inequality then gives
`χ_top + #boundary components ≤ 1`: `orbifold_symbol` answers every connected symbol, with a
cross-cap when the symbol is not weakly oriented.
-/
import DSymVerif.Proofs.Delaney2dLift

namespace DSymVerif.D2
open DSymVerif.DS

section
variable {y : DSymData} (h : ValidSym y) (hdim : y.dim = 2)

/-! ### faces and edges of the lifted map -/

theorem card_LDart : Fintype.card (LDart y) = 6 * y.size + (VS y).card := by
  rw [Fintype.card_sum, Fintype.card_coe, Fintype.card_coe, card_TSL]

theorem card_VS_le : (VS y).card ≤ 2 * (loopsN y 0 + loopsN y 1 + loopsN y 2) := by
  rw [← mirror_ends_card]
  have : (2 : Nat) = (Finset.univ : Finset Bool).card := by simp
  rw [Nat.mul_comm, this, ← Finset.card_product]
  apply Finset.card_le_card_of_injOn (fun δ : Dart => (δ.le, sgnD δ))
  · intro δ hδ
    obtain ⟨h1, _, _, h4, h5, h6⟩ := mem_VS.1 hδ
    simp only [Finset.coe_product, Finset.coe_filter, Finset.mem_product, Finset.mem_range, Finset.mem_Icc,
      Finset.coe_univ, Set.mem_prod, Set.mem_ofPred_eq, Set.mem_univ, and_true]
    exact ⟨⟨by show δ.1 < 3; omega, h4, h5⟩, h6⟩
  · intro δ hδ δ' hδ' e
    have hv := mem_VS.1 hδ
    have hv' := mem_VS.1 hδ'
    have e1 : δ.le = δ'.le := congrArg Prod.fst e
    have e2 : sgnD δ = sgnD δ' := congrArg Prod.snd e
    rcases same_le hv hv' e1.symm with e3 | e3
    · exact e3.symm
    · exfalso
      obtain ⟨h1, h2, h3, _⟩ := hv
      have := (sgnD_spec h1 h2 h3 δ.2.2).2
      have e4 : sgnD δ' = sgnD (δ.1, 3 - δ.1 - δ.2.1, δ.2.2) := by rw [e3]; rfl
      rw [← e4, ← e2] at this
      have e5 : sgnD (δ.1, δ.2.1, δ.2.2) = sgnD δ := rfl
      rw [e5] at this
      cases hs : sgnD δ <;> simp [hs] at this

theorem zQ_alphaL : PermSign.zQ (alphaL h hdim) = (Fintype.card (LDart y) : ℚ) / 2 := by
  unfold PermSign.zQ
  have hper : ∀ x : LDart y, 1 / (Function.minimalPeriod (alphaL h hdim) x : ℚ) = 1 / 2 := by
    intro x
    rw [PermSign.period_two (alphaL h hdim) (alphaLF_ne h hdim x) (alphaLF_invol h hdim x)]
    norm_num
  rw [Finset.sum_congr rfl (fun x _ => hper x), Finset.sum_const, Finset.card_univ, nsmul_eq_mul]
  ring

theorem zQ_phiTL : PermSign.zQ (phiTL y) = 2 * (y.size : ℚ) := by
  unfold PermSign.zQ
  have hper : ∀ x : TSL y, 1 / (Function.minimalPeriod (phiTL y) x : ℚ) = 1 / 3 := by
    intro x
    have hx := mem_TSL.1 x.2
    have hf := kE_facts x.1.2.1 hx.2
    rw [PermSign.period_three (phiTL y)]
    · norm_num
    · intro e
      have := congrArg (fun z : TSL y => z.1.2.2) e
      exact hf.2.2.2.1 this
    · apply Subtype.ext
      show (x.1.1, x.1.2.1, sE x.1.2.1 (sE x.1.2.1 (sE x.1.2.1 x.1.2.2))) = x.1
      rw [hf.2.2.2.2.2.2.1]
  rw [Finset.sum_congr rfl (fun x _ => hper x), Finset.sum_const, Finset.card_univ, Fintype.card_coe,
    card_TSL, nsmul_eq_mul]
  push_cast; ring

theorem psiV_iter (n : Nat) (x : VS y) : ((psiV h hdim)^[n] x).1 = (phi y)^[n] x.1 := by
  induction n with
  | zero => rfl
  | succ n ih => rw [Function.iterate_succ_apply', Function.iterate_succ_apply', ← ih]; rfl

/-- every boundary walk and its reverse are cycles of the boundary permutation -/
theorem zQ_psiV_ge {bnds : List (List Nat)} {starts : List (Dart × Nat)} (T : TraceRecord y bnds starts) :
    2 * (bnds.length : ℚ) ≤ PermSign.zQ (psiV h hdim) := by
  unfold PermSign.zQ
  have hper : ∀ x : VS y, 1 / (Function.minimalPeriod (psiV h hdim) x : ℚ) = gP y x.1 := by
    intro x
    unfold gP
    congr 2
    apply Function.minimalPeriod_eq_minimalPeriod_iff.2
    intro n
    show (psiV h hdim)^[n] x = x ↔ (phi y)^[n] x.1 = x.1
    rw [← psiV_iter h hdim n x]
    exact Subtype.ext_iff
  rw [Finset.sum_congr rfl (fun x _ => hper x), Finset.sum_coe_sort (VS y) (gP y)]
  -- the marked darts and their reverses
  have hvalid : ∀ δ ∈ recM y starts, ValidDart y δ := T.marked.valid
  have hnd := T.M_nodup
  have hndle : ((recM y starts).map Dart.le).Nodup := T.marked.nodup
  have hrinj : ∀ a ∈ recM y starts, ∀ b ∈ recM y starts, rho a = rho b → a = b := by
    intro a ha b hb e
    have := congrArg rho e
    rwa [(rho_valid (hvalid a ha)).2.1, (rho_valid (hvalid b hb)).2.1] at this
  have hnd2 : ((recM y starts).map rho).Nodup := hnd.map_on hrinj
  have hdisj : Disjoint (recM y starts).toFinset ((recM y starts).map rho).toFinset := by
    rw [Finset.disjoint_left]
    intro δ h1 h2
    rw [List.mem_toFinset] at h1 h2
    obtain ⟨δ', hδ', e⟩ := List.mem_map.1 h2
    have hle : δ.le = δ'.le := by rw [← e]; exact (rho_valid (hvalid δ' hδ')).2.2.2
    have := List.inj_on_of_nodup_map hndle h1 hδ' hle
    rw [this] at e
    exact (rho_valid (hvalid δ' hδ')).2.2.1 e
  have hsub : (recM y starts).toFinset ∪ ((recM y starts).map rho).toFinset ⊆ VS y := by
    intro δ hδ
    rw [Finset.mem_union, List.mem_toFinset, List.mem_toFinset] at hδ
    rcases hδ with hδ | hδ
    · exact mem_VS.2 (hvalid δ hδ)
    · obtain ⟨δ', hδ', rfl⟩ := List.mem_map.1 hδ
      exact mem_VS.2 (rho_valid (hvalid δ' hδ')).1
  have hle : ∑ δ ∈ (recM y starts).toFinset ∪ ((recM y starts).map rho).toFinset, gP y δ ≤
      ∑ δ ∈ VS y, gP y δ := by
    apply Finset.sum_le_sum_of_subset_of_nonneg hsub
    intro δ _ _
    unfold gP; positivity
  rw [Finset.sum_union hdisj, List.sum_toFinset _ hnd, List.sum_toFinset _ hnd2] at hle
  -- both sums are the number of walks
  have hs1 : ((recM y starts).map (gP y)).sum = (bnds.length : ℚ) := by
    unfold recM
    rw [sum_walks h hdim _ (fun p hp => T.isWalk (List.mem_reverse.1 hp)), List.length_reverse,
      T.bnds_perm.length_eq, List.length_map]
  have hs2 : (((recM y starts).map rho).map (gP y)).sum = ((recM y starts).map (gP y)).sum := by
    rw [List.map_map]
    congr 1
    apply List.map_congr_left
    intro δ hδ
    obtain ⟨p, hp, hmem⟩ := (TraceRecord.mem_M δ).1 hδ
    obtain ⟨m, _, rfl⟩ := mem_dlist.1 hmem
    have w := (T.isWalk hp).shift h hdim m
    show gP y (rho ((phi y)^[m] p.1)) = gP y ((phi y)^[m] p.1)
    unfold gP
    rw [(w.rho h hdim).period, w.period]
  rw [hs2, hs1] at hle
  linarith

/-! ### connectivity -/

omit h hdim in
theorem sE_cover (ε : Bool) {i j : Nat} (hi : i ≤ 2) (hj : j ≤ 2) :
    j = i ∨ j = sE ε i ∨ j = sE ε (sE ε i) := by
  unfold sE kE
  have hi3 : i = 0 ∨ i = 1 ∨ i = 2 := by omega
  have hj3 : j = 0 ∨ j = 1 ∨ j = 2 := by omega
  cases ε <;> rcases hi3 with rfl | rfl | rfl <;> rcases hj3 with rfl | rfl | rfl <;> simp

/-- the lifted triangle dart `(d, ε, i)` -/
def tL (y : DSymData) (d : Nat) (ε : Bool) (i : Nat) (hd : 1 ≤ d ∧ d ≤ y.size) (hi : i ≤ 2) : LDart y :=
  .inl ⟨(d, ε, i), mem_TSL.2 ⟨hd, hi⟩⟩

omit h hdim in
theorem tL_congr {d d' : Nat} (ε : Bool) (i : Nat) (hd : 1 ≤ d ∧ d ≤ y.size) (hd' : 1 ≤ d' ∧ d' ≤ y.size)
    (hi : i ≤ 2) (e : d' = d) : tL y d' ε i hd' hi = tL y d ε i hd hi := by subst e; rfl

open Classical in
/-- **the lifted map of a connected symbol that is not weakly oriented is connected** -/
theorem lift_connected (hc : y.view.isConnected = true) (hnw : y.view.isWeaklyOriented = false)
    (t : Setoid (LDart y)) (hφ : ∀ x, t x (phiL h hdim x)) (hα : ∀ x, t x (alphaL h hdim x))
    (x x' : LDart y) : t x x' := by
  have S := @t.iseqv.symm
  have T := @t.iseqv.trans
  have hpin : y.view.PInvol := by rw [y.view_eq]; exact h.set.pinvol
  -- the darts of one lifted triangle
  have htri : ∀ d ε (hd : 1 ≤ d ∧ d ≤ y.size) i j (hi : i ≤ 2) (hj : j ≤ 2),
      t (tL y d ε i hd hi) (tL y d ε j hd hj) := by
    intro d ε hd i j hi hj
    have hf := kE_facts ε hi
    have hf2 := kE_facts ε hf.2.2.1
    have s1 : t (tL y d ε i hd hi) (tL y d ε (sE ε i) hd hf.2.2.1) := hφ (tL y d ε i hd hi)
    have s2 : t (tL y d ε (sE ε i) hd hf.2.2.1) (tL y d ε (sE ε (sE ε i)) hd hf2.2.2.1) :=
      hφ (tL y d ε (sE ε i) hd hf.2.2.1)
    rcases sE_cover ε hi hj with e | e | e
    · subst e; exact t.iseqv.refl _
    · subst e; exact s1
    · subst e; exact T s1 s2
  -- neighbouring triangles lie on different sheets
  have hnb : ∀ d ε (hd : 1 ≤ d ∧ d ≤ y.size) i (hi : i ≤ 2), y.dset.opU i d ≠ d →
      t (tL y d ε 0 hd (by omega)) (tL y (y.dset.opU i d) (!ε) 0
        (h.set.range i d (by show i ≤ y.dim; omega) hd.1 hd.2) (by omega)) := by
    intro d ε hd i hi hl
    have hr := h.set.range i d (by show i ≤ y.dim; omega) hd.1 hd.2
    have a1 := htri d ε hd 0 i (by omega) hi
    have a2 : t (tL y d ε i hd hi) (tL y (y.dset.opU i d) (!ε) i hr hi) := by
      have := hα (tL y d ε i hd hi)
      have e : alphaL h hdim (tL y d ε i hd hi) = tL y (y.dset.opU i d) (!ε) i hr hi := by
        show alphaLF h hdim (tL y d ε i hd hi) = _
        unfold tL
        simp only [alphaLF, dif_neg hl]
      rwa [e] at this
    exact T a1 (T a2 (htri _ _ hr i 0 hi (by omega)))
  -- every chamber is reached on some sheet, and on the other sheet from the other lift of 1
  have hreach : ∀ d, y.view.Reach y.view.indices 1 d → ∀ (h1 : 1 ≤ 1 ∧ 1 ≤ y.size) (hd : 1 ≤ d ∧ d ≤ y.size),
      ∃ ε, t (tL y 1 true 0 h1 (by omega)) (tL y d ε 0 hd (by omega)) ∧
        t (tL y 1 false 0 h1 (by omega)) (tL y d (!ε) 0 hd (by omega)) := by
    intro d hr
    induction hr with
    | refl => intro h1 hd; exact ⟨true, t.iseqv.refl _, t.iseqv.refl _⟩
    | @step e c i _ hi hop ih =>
      intro h1 hc'
      obtain ⟨hi', he1, he2, hce⟩ := opSimple_eq_some.1 hop
      have hi2 : i ≤ 2 := by have : i ≤ y.dim := hi'; omega
      obtain ⟨ε, r1, r2⟩ := ih h1 ⟨he1, he2⟩
      have hcc : c = y.dset.opU i e := hce.symm
      subst hcc
      by_cases hl : y.dset.opU i e = e
      · refine ⟨ε, ?_, ?_⟩
        · rw [tL_congr ε 0 ⟨he1, he2⟩ hc' (by omega) hl]; exact r1
        · rw [tL_congr (!ε) 0 ⟨he1, he2⟩ hc' (by omega) hl]; exact r2
      · refine ⟨!ε, T r1 (hnb e ε ⟨he1, he2⟩ i hi2 hl), ?_⟩
        have := hnb e (!ε) ⟨he1, he2⟩ i hi2 hl
        exact T r2 this
  have hall : ∀ d (hd : 1 ≤ d ∧ d ≤ y.size) (h1 : 1 ≤ 1 ∧ 1 ≤ y.size),
      ∃ ε, t (tL y 1 true 0 h1 (by omega)) (tL y d ε 0 hd (by omega)) ∧
        t (tL y 1 false 0 h1 (by omega)) (tL y d (!ε) 0 hd (by omega)) := fun d hd h1 =>
    hreach d ((isConnected_iff hpin).1 hc d hd.1 hd.2) h1 hd
  -- the two lifts of chamber 1 are related, else the symbol would be weakly oriented
  have hone : ∀ (h1 : 1 ≤ 1 ∧ 1 ≤ y.size), t (tL y 1 true 0 h1 (by omega)) (tL y 1 false 0 h1 (by omega)) := by
    intro h1
    by_contra hcon
    have hK : ∀ d (hd : 1 ≤ d ∧ d ≤ y.size), ¬ (t (tL y 1 true 0 h1 (by omega)) (tL y d true 0 hd (by omega)) ∧
        t (tL y 1 true 0 h1 (by omega)) (tL y d false 0 hd (by omega))) := by
      intro d hd ⟨k1, k2⟩
      obtain ⟨ε, _, r2⟩ := hall d hd h1
      cases ε with
      | true => exact hcon (T k2 (S r2))
      | false => exact hcon (T k1 (S r2))
    have hE : ∀ d (hd : 1 ≤ d ∧ d ≤ y.size), t (tL y 1 true 0 h1 (by omega)) (tL y d true 0 hd (by omega)) ∨
        t (tL y 1 true 0 h1 (by omega)) (tL y d false 0 hd (by omega)) := by
      intro d hd
      obtain ⟨ε, r1, _⟩ := hall d hd h1
      cases ε with
      | true => exact Or.inl r1
      | false => exact Or.inr r1
    let c : Nat → Bool := fun d =>
      if hd : 1 ≤ d ∧ d ≤ y.size then decide (t (tL y 1 true 0 h1 (by omega)) (tL y d true 0 hd (by omega)))
      else false
    have hw : y.view.isWeaklyOriented = true := by
      apply ((C02.isWeaklyOriented_iff_bipartite y.view hpin).1).2
      refine ⟨c, ?_⟩
      intro i d e hi hd1 hd2 hop hne
      obtain ⟨_, _, _, hce⟩ := opSimple_eq_some.1 hop
      have hi2 : i ≤ 2 := by have : i ≤ y.dim := hi; omega
      have hd : 1 ≤ d ∧ d ≤ y.size := ⟨hd1, hd2⟩
      have hee : e = y.dset.opU i d := hce.symm
      subst hee
      have hr : 1 ≤ y.dset.opU i d ∧ y.dset.opU i d ≤ y.size :=
        h.set.range i d (by show i ≤ y.dim; omega) hd.1 hd.2
      have nb1 := hnb d true hd i hi2 hne
      have nb2 := hnb d false hd i hi2 hne
      simp only [Bool.not_true, Bool.not_false] at nb1 nb2
      show c (y.dset.opU i d) ≠ c d
      have cd : c d = decide (t (tL y 1 true 0 h1 (by omega)) (tL y d true 0 hd (by omega))) := by
        show (if hd : 1 ≤ d ∧ d ≤ y.size then _ else false) = _
        rw [dif_pos hd]
      have ce : c (y.dset.opU i d) = decide (t (tL y 1 true 0 h1 (by omega))
          (tL y (y.dset.opU i d) true 0 hr (by omega))) := by
        show (if hd : 1 ≤ y.dset.opU i d ∧ y.dset.opU i d ≤ y.size then _ else false) = _
        rw [dif_pos hr]
      rw [cd, ce]
      by_cases hR : t (tL y 1 true 0 h1 (by omega)) (tL y d true 0 hd (by omega))
      · have : ¬ t (tL y 1 true 0 h1 (by omega)) (tL y (y.dset.opU i d) true 0 hr (by omega)) :=
          fun k => hK _ hr ⟨k, T hR nb1⟩
        simp [hR, this]
      · have hf : t (tL y 1 true 0 h1 (by omega)) (tL y d false 0 hd (by omega)) := by
          rcases hE d hd with k | k
          · exact absurd k hR
          · exact k
        have : t (tL y 1 true 0 h1 (by omega)) (tL y (y.dset.opU i d) true 0 hr (by omega)) := T hf nb2
        simp [hR, this]
    rw [hnw] at hw
    cases hw
  -- every dart is related to the first lifted triangle
  have hany : ∀ x : LDart y, ∃ (h1 : 1 ≤ 1 ∧ 1 ≤ y.size), t (tL y 1 true 0 h1 (by omega)) x := by
    intro x
    have key : ∀ d (hd : 1 ≤ d ∧ d ≤ y.size) ε i (hi : i ≤ 2) (h1 : 1 ≤ 1 ∧ 1 ≤ y.size),
        t (tL y 1 true 0 h1 (by omega)) (tL y d ε i hd hi) := by
      intro d hd ε i hi h1
      obtain ⟨ε', r1, r2⟩ := hall d hd h1
      have r2' := T (hone h1) r2
      have : t (tL y 1 true 0 h1 (by omega)) (tL y d ε 0 hd (by omega)) := by
        cases ε <;> cases ε' <;> first | exact r1 | exact r2'
      exact T this (htri d ε hd 0 i (by omega) hi)
    cases x with
    | inl x =>
      obtain ⟨hd, hi⟩ := mem_TSL.1 x.2
      have h1 : 1 ≤ 1 ∧ 1 ≤ y.size := ⟨Nat.le_refl 1, by omega⟩
      exact ⟨h1, key x.1.1 hd x.1.2.1 x.1.2.2 hi h1⟩
    | inr δ =>
      obtain ⟨hj, _, _, h4, h5, _⟩ := mem_VS.1 δ.2
      have h1 : 1 ≤ 1 ∧ 1 ≤ y.size := ⟨Nat.le_refl 1, by omega⟩
      have a := hα (.inr δ)
      have e : alphaL h hdim (.inr δ) = tL y δ.1.2.2 (sgnD δ.1) δ.1.1 ⟨h4, h5⟩ hj := rfl
      rw [e] at a
      exact ⟨h1, T (key _ ⟨h4, h5⟩ _ _ hj h1) (S a)⟩
  obtain ⟨h1, a⟩ := hany x
  obtain ⟨_, b⟩ := hany x'
  exact T (S a) b

include h hdim in
/-- **a connected symbol that is not weakly oriented has `χ_top + #boundary components ≤ 1`**
    (a cross-cap): the orientation double cover of its capped surface is a connected oriented map
    with `2F` triangles, at least `2b` caps, `(6F + #valid darts)/2` edges and at least two
    vertices per 2-orbit, so Ree's inequality gives `2(χ_top + b) ≤ 2` -/
theorem chi_plus_boundaries_le_one (hc : y.view.isConnected = true)
    (hnw : y.view.isWeaklyOriented = false) (rep : Rep) {bnds : List (List Nat)}
    (hb : traceBoundary ⟨y, rep⟩ = .ok bnds) :
    eulerCharacteristic ⟨y, rep⟩ + (bnds.length : Int) ≤ 1 := by
  obtain ⟨bnds', starts, hb', T⟩ := traceRecord_exists h hdim rep
  rw [hb] at hb'
  cases hb'
  have hree := PermRee.ree (phiL h hdim) (alphaL h hdim) (lift_connected h hdim hc hnw)
  have hreeQ : (PermRee.z (phiL h hdim) : ℚ) + (PermRee.z (alphaL h hdim) : ℚ) +
      (PermRee.z (phiL h hdim * alphaL h hdim) : ℚ) ≤ (Fintype.card (LDart y) : ℚ) + 2 := by
    exact_mod_cast hree
  rw [← PermRee.zQ_eq_z, ← PermRee.zQ_eq_z, ← PermRee.zQ_eq_z] at hreeQ
  have hφ : PermSign.zQ (phiL h hdim) = 2 * (y.size : ℚ) + PermSign.zQ (psiV h hdim) := by
    unfold phiL
    rw [PermSign.zQ_sumCongr, zQ_phiTL]
  have hψ := zQ_psiV_ge h hdim T
  have hα := zQ_alphaL h hdim
  have hσ : 2 * ((typesOf y).length : ℚ) ≤ PermSign.zQ (phiL h hdim * alphaL h hdim) := zQ_sigmaL_ge h hdim
  have hN : (Fintype.card (LDart y) : ℚ) ≤ 6 * (y.size : ℚ) + 2 * (chainCount (typesOf y) : ℚ) := by
    have := card_VS_le (y := y)
    rw [loops_eq_chains h hdim] at this
    rw [card_LDart]
    have : ((VS y).card : ℚ) ≤ 2 * (chainCount (typesOf y) : ℚ) := by exact_mod_cast this
    push_cast; linarith
  have hlen : looplessCount (typesOf y) + chainCount (typesOf y) = (typesOf y).length := by
    generalize typesOf y = ts
    induction ts with
    | nil => rfl
    | cons t ts ih =>
      unfold looplessCount chainCount at ih ⊢
      cases ht : t.2 <;> simp [ht] <;> omega
  have hlenQ : ((typesOf y).length : ℚ) = (looplessCount (typesOf y) : ℚ) + (chainCount (typesOf y) : ℚ) := by
    rw [← hlen]; push_cast; ring
  have hχ := euler_value rep h hdim
  have hχQ : 2 * ((eulerCharacteristic ⟨y, rep⟩ : Int) : ℚ) =
      2 * ((looplessCount (typesOf y) : ℚ) + (chainCount (typesOf y) : ℚ)) - (y.size : ℚ)
        - (chainCount (typesOf y) : ℚ) := by exact_mod_cast hχ
  have hfin : ((eulerCharacteristic ⟨y, rep⟩ : Int) : ℚ) + (bnds.length : ℚ) ≤ 1 := by linarith
  have : ((eulerCharacteristic ⟨y, rep⟩ + (bnds.length : Int) : Int) : ℚ) ≤ ((1 : Int) : ℚ) := by
    push_cast; exact hfin
  exact_mod_cast this

end

/-- **`orbifold_symbol` answers every connected good 2D symbol** — the branch
    `2 − χ_top − #boundaries < 0` is never taken -/
theorem orbifoldSymbol_total {s : Sym} (g : Good2d s) (hc : s.view.isConnected = true) :
    ∃ o, orbifoldSymbol s = .ok o := by
  obtain ⟨y, rep⟩ := s
  have hval : ValidSym y := g.valid
  have hdim : y.dim = 2 := g.dim
  have hc' : y.view.isConnected = true := hc
  obtain ⟨bnds, htb, _⟩ := traceBoundary_corners hval hdim rep
  rw [orbifoldSymbol_unfold' g htb]
  have hge : ¬ 2 - (eulerCharacteristic ⟨y, rep⟩ + (bnds.length : Int)) < 0 := by
    cases hw : y.view.isWeaklyOriented with
    | true =>
      have := chi_plus_boundaries_le_two hval hdim hw hc' rep htb
      omega
    | false =>
      have := chi_plus_boundaries_le_one hval hdim hc' hw rep htb
      omega
  rw [if_neg hge]
  exact ⟨_, rfl⟩

/-- **a connected symbol that is not weakly oriented gets a cross-cap**: the answer of
    `orbifold_symbol` is non-orientable with `count ≥ 1` -/
theorem crosscap_of_not_weaklyOriented {s : Sym} (g : Good2d s) (hc : s.view.isConnected = true)
    (hnw : s.view.isWeaklyOriented = false) {o : OrbSym} (hos : orbifoldSymbol s = .ok o) :
    o.orientable = false ∧ 1 ≤ o.count := by
  obtain ⟨y, rep⟩ := s
  have hval : ValidSym y := g.valid
  have hdim : y.dim = 2 := g.dim
  have hc' : y.view.isConnected = true := hc
  have hnw' : y.view.isWeaklyOriented = false := hnw
  obtain ⟨bnds, htb, _⟩ := traceBoundary_corners hval hdim rep
  have hos' := hos
  rw [orbifoldSymbol_unfold' g htb] at hos'
  split at hos'
  · cases hos'
  · have ho := (Outcome.ok.inj hos').symm
    have hle := chi_plus_boundaries_le_one hval hdim hc' hnw' rep htb
    have hview : (⟨y, rep⟩ : Sym).view = y.view := rfl
    rw [ho]
    simp only [hview, hnw', Bool.false_eq_true, if_false, true_and]
    omega

end DSymVerif.D2
