/-
Lemmas for property C07, phase 3: **no euclidean and no minimally hyperbolic symbol uses a
branching number above 7** — for every D-set of the domain and every branching vector whatsoever
(no upper bound assumed).  The arithmetic core: an orbifold symbol with χ ≥ 0 that contains a
cone of order u ≥ 7 has χ ≥ 1/u, and one that contains a corner of order u ≥ 7 has χ ≥ 1/(2u)
(the point can be pushed to a cusp without making χ negative).  With C08's unconditional
Gauss–Bonnet K = 2χ this gives K(vs) ≥ k_i / vs_i for every entry vs_i ≥ 7 of a vector with K ≥ 0.
-/
import DSymVerif.Proofs.DSymGenAgree

set_option linter.unusedSectionVars false

namespace DSymVerif.SymGen
open DSymVerif.DS DSymVerif.D2 DSymVerif.SpecC08

/-! ### the arithmetic core -/

theorem dq_lt_one (v : Nat) (hv : 1 ≤ v) : dq v < 1 := by
  unfold dq
  have h0 : (0 : ℚ) < (v : ℚ) := by exact_mod_cast hv
  have : (0 : ℚ) < 1 / (v : ℚ) := div_pos one_pos h0
  linarith

theorem dq_ge_two_thirds (v : Nat) (h : 3 ≤ v) : (2 : ℚ) / 3 ≤ dq v := by
  unfold dq
  have hv : (3 : ℚ) ≤ (v : ℚ) := by exact_mod_cast h
  have : (1 : ℚ) / (v : ℚ) ≤ 1 / 3 := one_div_le_one_div_of_le (by norm_num) hv
  linarith

theorem inv_le_seventh (u : Nat) (hu : 7 ≤ u) : (1 : ℚ) / (u : ℚ) ≤ 1 / 7 ∧ (0 : ℚ) < 1 / (u : ℚ) := by
  have hv : (7 : ℚ) ≤ (u : ℚ) := by exact_mod_cast hu
  exact ⟨one_div_le_one_div_of_le (by norm_num) hv, div_pos one_pos (by linarith)⟩

/-- a list of orders ≥ 2 whose defects sum to at most 8/7 has defect sum ≤ 1 -/
theorem defect_gap (l : List Nat) (hl : ∀ v ∈ l, 2 ≤ v) (h : (l.map dq).sum ≤ 8 / 7) :
    (l.map dq).sum ≤ 1 := by
  have hlen := sum_ge_half_len l hl
  have hl3 : l.length < 3 := by
    have : (l.length : ℚ) < 3 := by linarith
    exact_mod_cast this
  match l, hl, h, hl3 with
  | [], _, _, _ => simp
  | [a], hl, _, _ =>
    have := dq_lt_one a (by have := hl a (by simp); omega)
    simp only [List.map_cons, List.map_nil, List.sum_cons, List.sum_nil, add_zero]
    linarith
  | [a, b], hl, h, _ =>
    simp only [List.map_cons, List.map_nil, List.sum_cons, List.sum_nil, add_zero] at h ⊢
    have ha := hl a (by simp)
    have hb := hl b (by simp)
    by_cases ha2 : a = 2
    · by_cases hb2 : b = 2
      · subst ha2 hb2; norm_num [dq]
      · have := dq_ge_two_thirds b (by omega)
        have := dq_ge_half a ha
        linarith
    · have := dq_ge_two_thirds a (by omega)
      have := dq_ge_half b hb
      linarith

/-- the total defect of an orbifold symbol, flattened: cones `Cs`, corners `Fs` (all orders ≥ 2),
    `N` = #boundaries + 2·handles + cross-caps; corners need a boundary -/
def chiFlat (Cs Fs : List Nat) (N : Nat) : ℚ := 2 - (Cs.map dq).sum - (N : ℚ) - (Fs.map dq).sum / 2

theorem chiFlat_cone (u : Nat) (hu : 7 ≤ u) (rest Fs : List Nat) (N : Nat)
    (hr : ∀ v ∈ rest, 2 ≤ v) (hf : ∀ v ∈ Fs, 2 ≤ v) (hN : Fs ≠ [] → 1 ≤ N)
    (h : 0 ≤ chiFlat (u :: rest) Fs N) : 1 / (u : ℚ) ≤ chiFlat (u :: rest) Fs N := by
  obtain ⟨hu7, hupos⟩ := inv_le_seventh u hu
  unfold chiFlat at h ⊢
  simp only [List.map_cons, List.sum_cons] at h ⊢
  have hdu : dq u = 1 - 1 / (u : ℚ) := rfl
  rw [hdu] at h ⊢
  have hR := sum_ge_half_len rest hr
  have hF := sum_ge_half_len Fs hf
  have hR0 : 0 ≤ (rest.map dq).sum := by linarith [show (0:ℚ) ≤ (rest.length : ℚ) / 2 by positivity]
  have hF0 : 0 ≤ (Fs.map dq).sum := by linarith [show (0:ℚ) ≤ (Fs.length : ℚ) / 2 by positivity]
  -- it suffices: R + N + F/2 ≤ 1
  suffices hs : (rest.map dq).sum + (N : ℚ) + (Fs.map dq).sum / 2 ≤ 1 by linarith
  by_cases hN0 : N = 0
  · have hFs : Fs = [] := by
      by_contra hne; have := hN hne; omega
    subst hFs hN0
    simp only [List.map_nil, List.sum_nil, Nat.cast_zero, zero_div, add_zero] at h ⊢
    exact defect_gap rest hr (by linarith)
  · have hN1 : (1 : ℚ) ≤ (N : ℚ) := by exact_mod_cast (show 1 ≤ N by omega)
    -- everything else must vanish
    have hrest : rest = [] := by
      by_contra hne
      have : 1 ≤ rest.length := List.length_pos_iff.mpr hne
      have : (1 : ℚ) ≤ (rest.length : ℚ) := by exact_mod_cast this
      linarith
    have hFs : Fs = [] := by
      by_contra hne
      have : 1 ≤ Fs.length := List.length_pos_iff.mpr hne
      have : (1 : ℚ) ≤ (Fs.length : ℚ) := by exact_mod_cast this
      linarith
    subst hrest hFs
    simp only [List.map_nil, List.sum_nil, zero_div, add_zero, zero_add] at h ⊢
    have : (N : ℚ) < 2 := by linarith
    have : N < 2 := by exact_mod_cast this
    have : N = 1 := by omega
    subst this
    norm_num

theorem chiFlat_corner (u : Nat) (hu : 7 ≤ u) (Cs rest : List Nat) (N : Nat)
    (hc : ∀ v ∈ Cs, 2 ≤ v) (hr : ∀ v ∈ rest, 2 ≤ v) (hN : 1 ≤ N)
    (h : 0 ≤ chiFlat Cs (u :: rest) N) : 1 / (2 * (u : ℚ)) ≤ chiFlat Cs (u :: rest) N := by
  obtain ⟨hu7, hupos⟩ := inv_le_seventh u hu
  unfold chiFlat at h ⊢
  simp only [List.map_cons, List.sum_cons] at h ⊢
  have hdu : dq u = 1 - 1 / (u : ℚ) := rfl
  rw [hdu] at h ⊢
  have hC := sum_ge_half_len Cs hc
  have hR := sum_ge_half_len rest hr
  have hC0 : 0 ≤ (Cs.map dq).sum := by linarith [show (0:ℚ) ≤ (Cs.length : ℚ) / 2 by positivity]
  have hR0 : 0 ≤ (rest.map dq).sum := by linarith [show (0:ℚ) ≤ (rest.length : ℚ) / 2 by positivity]
  have hN1 : (1 : ℚ) ≤ (N : ℚ) := by exact_mod_cast hN
  have e : (1 : ℚ) / (2 * (u : ℚ)) = (1 / (u : ℚ)) / 2 := by ring
  rw [e]
  -- it suffices: C + (N − 1) + R/2 ≤ 1/2
  suffices hs : (Cs.map dq).sum + ((N : ℚ) - 1) + (rest.map dq).sum / 2 ≤ 1 / 2 by linarith
  have hNlt : (N : ℚ) < 2 := by linarith
  have : N < 2 := by exact_mod_cast hNlt
  have hN' : N = 1 := by omega
  subst hN'
  simp only [Nat.cast_one, sub_self, add_zero] at h ⊢
  have hCl : Cs.length < 2 := by
    have : (Cs.length : ℚ) < 2 := by linarith
    exact_mod_cast this
  match Cs, hc, hCl with
  | [], _, _ =>
    simp only [List.map_nil, List.sum_nil, zero_add] at h ⊢
    have := defect_gap rest hr (by linarith)
    linarith
  | [a], hc, _ =>
    simp only [List.map_cons, List.map_nil, List.sum_cons, List.sum_nil, add_zero] at h ⊢
    have ha := hc a (by simp)
    by_cases ha2 : a = 2
    · subst ha2
      have hrest : rest = [] := by
        by_contra hne
        have : 1 ≤ rest.length := List.length_pos_iff.mpr hne
        have : (1 : ℚ) ≤ (rest.length : ℚ) := by exact_mod_cast this
        have h2 : dq 2 = 1 / 2 := by norm_num [dq]
        rw [h2] at h
        linarith
      subst hrest
      norm_num [dq]
    · have := dq_ge_two_thirds a (by omega)
      linarith

end DSymVerif.SymGen

namespace DSymVerif.SymGen
open DSymVerif.DS DSymVerif.D2 DSymVerif.SpecC08

/-! ### the generator's vectors -/

/-- one positive entry per orbit (no upper bound) -/
def Pos (c : Ctx) (vs : List Nat) : Prop := vs.length = c.count ∧ ∀ i, i < c.count → 1 ≤ vs.getD i 0

theorem chiQ_flat (o : Orb) :
    chiQ o = chiFlat o.cones o.bnds.flatten (o.bnds.length + 2 * o.handles + o.caps) := by
  unfold chiQ chiFlat
  rw [bndSum_split, D2.sum_flatten_dq]
  push_cast
  ring

theorem chiFlat_perm {Cs Cs' Fs Fs' : List Nat} (N : Nat) (h1 : Cs.Perm Cs') (h2 : Fs.Perm Fs') :
    chiFlat Cs Fs N = chiFlat Cs' Fs' N := by
  unfold chiFlat
  rw [(h1.map dq).sum_eq, (h2.map dq).sum_eq]

theorem sum_map_range_update_q (f g : Nat → ℚ) (N n : Nat) (hn : n < N)
    (h : ∀ i, i ≠ n → f i = g i) :
    ((List.range N).map f).sum = ((List.range N).map g).sum - g n + f n := by
  induction N with
  | zero => omega
  | succ N ih =>
    rw [List.range_succ, List.map_append, List.map_append, List.sum_append, List.sum_append]
    simp only [List.map_cons, List.map_nil, List.sum_cons, List.sum_nil, add_zero]
    by_cases hN : n = N
    · subst hN
      have : ((List.range n).map f) = ((List.range n).map g) := by
        apply List.map_congr_left
        intro i hi
        exact h i (by have := List.mem_range.mp hi; omega)
      rw [this]; ring
    · rw [ih (by omega), h N (fun e => hN e.symm)]
      ring

theorem curvQ_set (c : Ctx) (vs : List Nat) (n x : Nat) (hn : n < c.count) (hl : vs.length = c.count) :
    curvQ c (vs.set n x) = curvQ c vs - (kAt c n : ℚ) / (vs.getD n 0 : ℚ) + (kAt c n : ℚ) / (x : ℚ) := by
  unfold curvQ
  rw [sum_map_range_update_q (fun i => (kAt c i : ℚ) / ((vs.set n x).getD i 0 : ℚ))
        (fun i => (kAt c i : ℚ) / (vs.getD i 0 : ℚ)) c.count n hn]
  · simp only [getD_set vs n x n (by omega), if_true]
    ring
  · intro i hi
    simp only [getD_set vs n x i (by omega), if_neg hi]

theorem kAt_pos_q (c : Ctx) (i : Nat) : (0 : ℚ) < (kAt c i : ℚ) := by
  unfold kAt
  rcases kOf_cases (c.isChain.getD i false) with e | e <;> rw [e] <;> norm_num

section bound
variable {ds : DSetData} {g : Geom} {c : Ctx} (h : mkCtx ds g = .ok c) (hds : ValidSet ds)
  (hdim : ds.dim = 2) (hfar : FarCommute ds) (hconn : ds.viewSimple.isConnected = true)
  (h1 : 1 ≤ ds.size)
include h hds hdim hfar hconn h1

theorem good2d_pos {vs : List Nat} (hp : Pos c vs) (rep : Rep) : Good2d ⟨emittedSym c vs, rep⟩ := by
  obtain ⟨hdd, _⟩ := mkCtx_fields h
  refine ⟨emitted_valid h hds hdim hfar hp.1, emitted_dim h hds hdim hfar hp.1, ?_⟩
  unfold DSymData.isCompletePartial
  rw [Bool.and_eq_true]
  constructor
  · show c.dset.isCompletePartial = true
    rw [hdd]
    unfold DSetData.isCompletePartial
    simp only [List.all_eq_true, List.mem_range, bne_iff_ne, ne_eq]
    intro i hi d hdlt
    have := (hds.range i (d + 1) (by omega) (by omega) (by omega)).1
    omega
  · show vs.toArray.all (· > 0) = true
    rw [Array.all_eq_true]
    intro i hi
    have hi' : i < vs.length := by simpa using hi
    have := hp.2 i (by have := hp.1; omega)
    simp only [List.getD, List.getElem?_eq_getElem hi', Option.getD_some] at this
    have : 0 < vs[i] := this
    simpa using this

/-- **a large branching number costs little**: if K(vs) ≥ 0 and `vs[i] ≥ 7` then
    K(vs) ≥ k_i / vs[i] — the orbit can be pushed to a cusp without making K negative -/
theorem entry_bound {vs : List Nat} (hp : Pos c vs) (hK : 0 ≤ curvQ c vs) (i : Nat) (hi : i < c.count)
    (h7 : 7 ≤ vs.getD i 0) : (kAt c i : ℚ) / (vs.getD i 0 : ℚ) ≤ curvQ c vs := by
  obtain ⟨hdd, _⟩ := mkCtx_fields h
  have hgood := good2d_pos h hds hdim hfar hconn h1 hp .simpleSym
  have hcn : (⟨emittedSym c vs, .simpleSym⟩ : Sym).view.isConnected = true := by
    show c.dset.viewSimple.isConnected = true; rw [hdd]; exact hconn
  obtain ⟨hcurv, _⟩ := curvature_emitted h hds hdim hfar vs hp.1 hp.2 .simpleSym
  obtain ⟨o', ho'⟩ := orbifoldSymbol_total hgood hcn
  obtain ⟨o, hx⟩ := symbolCensus_of_parity hgood (parityMonitor_holds hgood ho')
  obtain ⟨K, hKe, hKv⟩ := gauss_bonnet_census hgood hx
  rw [hcurv] at hKe
  have hKq : curvQ c vs = 2 * chiQ (orbOf o) := by
    rw [← hKv, ← Outcome.ok.inj hKe, Frac.toRat_ofRat]
  obtain ⟨pc, pk⟩ := private_census h hds hdim hfar hp.1
  have hcones2 : ∀ v ∈ o.cones, 2 ≤ v := fun v hv => mem_conesOf_gt (hx.cones.mem_iff.1 hv)
  have hcorn2 : ∀ v ∈ o.bnds.flatten, 2 ≤ v := fun v hv => mem_cornersOf_gt (hx.corners.mem_iff.1 hv)
  have hchi0 : 0 ≤ chiQ (orbOf o) := by linarith
  rw [chiQ_flat] at hchi0
  have hu : (0 : ℚ) < (vs.getD i 0 : ℚ) := by exact_mod_cast (show 0 < vs.getD i 0 by omega)
  cases hch : c.isChain.getD i false
  · -- a cone
    have hk : kAt c i = 2 := by unfold kAt; rw [hch]; rfl
    have hmem : vs.getD i 0 ∈ o.cones := by
      apply hx.cones.mem_iff.mpr
      apply pc.mem_iff.mp
      apply List.mem_append_right
      exact List.mem_filterMap.mpr ⟨i, List.mem_range.mpr hi, by
        unfold coneAt; rw [if_pos ⟨by omega, hch⟩]⟩
    have hperm := List.perm_cons_erase hmem
    have hrest : ∀ v ∈ o.cones.erase (vs.getD i 0), 2 ≤ v :=
      fun v hv => hcones2 v (List.mem_of_mem_erase hv)
    have hflat : chiFlat (orbOf o).cones (orbOf o).bnds.flatten
        ((orbOf o).bnds.length + 2 * (orbOf o).handles + (orbOf o).caps) =
        chiFlat (vs.getD i 0 :: o.cones.erase (vs.getD i 0)) o.bnds.flatten
          ((orbOf o).bnds.length + 2 * (orbOf o).handles + (orbOf o).caps) :=
      chiFlat_perm _ hperm (List.Perm.refl _)
    rw [hflat] at hchi0
    have hN : o.bnds.flatten ≠ [] → 1 ≤ (orbOf o).bnds.length + 2 * (orbOf o).handles + (orbOf o).caps := by
      intro hne
      have : o.bnds ≠ [] := by intro e; rw [e] at hne; exact hne rfl
      have : 1 ≤ o.bnds.length := List.length_pos_iff.mpr this
      show 1 ≤ o.bnds.length + _ + _
      omega
    have := chiFlat_cone _ h7 _ _ _ hrest hcorn2 hN hchi0
    rw [← hflat, ← chiQ_flat] at this
    rw [hKq, hk]
    have e : ((2 : Int) : ℚ) / (vs.getD i 0 : ℚ) = 2 * (1 / (vs.getD i 0 : ℚ)) := by push_cast; ring
    rw [e]
    linarith
  · -- a corner
    have hk : kAt c i = 1 := by unfold kAt; rw [hch]; rfl
    have hmem : vs.getD i 0 ∈ o.bnds.flatten := by
      apply hx.corners.mem_iff.mpr
      apply pk.mem_iff.mp
      apply List.mem_append_right
      exact List.mem_filterMap.mpr ⟨i, List.mem_range.mpr hi, by
        unfold cornerAt; rw [if_pos ⟨by omega, hch⟩]⟩
    have hperm := List.perm_cons_erase hmem
    have hrest : ∀ v ∈ o.bnds.flatten.erase (vs.getD i 0), 2 ≤ v :=
      fun v hv => hcorn2 v (List.mem_of_mem_erase hv)
    have hflat : chiFlat (orbOf o).cones (orbOf o).bnds.flatten
        ((orbOf o).bnds.length + 2 * (orbOf o).handles + (orbOf o).caps) =
        chiFlat o.cones (vs.getD i 0 :: o.bnds.flatten.erase (vs.getD i 0))
          ((orbOf o).bnds.length + 2 * (orbOf o).handles + (orbOf o).caps) :=
      chiFlat_perm _ (List.Perm.refl _) hperm
    rw [hflat] at hchi0
    have hN : 1 ≤ (orbOf o).bnds.length + 2 * (orbOf o).handles + (orbOf o).caps := by
      have : o.bnds ≠ [] := by intro e; rw [e] at hmem; simp at hmem
      have : 1 ≤ o.bnds.length := List.length_pos_iff.mpr this
      show 1 ≤ o.bnds.length + _ + _
      omega
    have := chiFlat_corner _ h7 _ _ _ hcones2 hrest hN hchi0
    rw [← hflat, ← chiQ_flat] at this
    rw [hKq, hk]
    have e : ((1 : Int) : ℚ) / (vs.getD i 0 : ℚ) = 2 * (1 / (2 * (vs.getD i 0 : ℚ))) := by
      push_cast; field_simp
    rw [e]
    linarith

/-- **every euclidean assignment is admissible**: K = 0 forces all branching numbers ≤ 6 -/
theorem euclidean_le_six {vs : List Nat} (hp : Pos c vs) (hK : curvQ c vs = 0) (i : Nat) (hi : i < c.count) :
    vs.getD i 0 ≤ 6 := by
  by_contra hgt
  have h7 : 7 ≤ vs.getD i 0 := by omega
  have := entry_bound h hds hdim hfar hconn h1 hp (by rw [hK]) i hi h7
  have hu : (0 : ℚ) < (vs.getD i 0 : ℚ) := by exact_mod_cast (show 0 < vs.getD i 0 by omega)
  have : 0 < (kAt c i : ℚ) / (vs.getD i 0 : ℚ) := div_pos (kAt_pos_q c i) hu
  linarith

/-- **every minimally hyperbolic assignment is admissible**: all branching numbers ≤ 7 -/
theorem minHyp_le_seven (hw : WF c) {vs : List Nat} (hp : Pos c vs) (hm : MinHypQ c vs)
    (i : Nat) (hi : i < c.count) : vs.getD i 0 ≤ 7 := by
  by_contra hgt
  have h8 : 8 ≤ vs.getD i 0 := by omega
  have hvm := hw.vminLe i hi
  have h7' : Tables.genVMax = 7 := rfl
  have hraised : vs.getD i 0 > c.vmins.getD i 0 := by omega
  have hlow := hm.2 i hi hraised
  -- the lowered vector
  have hp' : Pos c (vs.set i (vs.getD i 0 - 1)) := by
    refine ⟨by simp [hp.1], fun j hj => ?_⟩
    rw [getD_set vs i _ j (by rw [hp.1]; exact hi)]
    split
    · omega
    · exact hp.2 j hj
  have hent : (vs.set i (vs.getD i 0 - 1)).getD i 0 = vs.getD i 0 - 1 := by
    rw [getD_set vs i _ i (by rw [hp.1]; exact hi), if_pos rfl]
  have hb := entry_bound h hds hdim hfar hconn h1 hp' hlow i hi (by rw [hent]; omega)
  rw [hent] at hb
  have hset := curvQ_set c vs i (vs.getD i 0 - 1) hi hp.1
  have hk := kAt_pos_q c i
  have hu : (0 : ℚ) < (vs.getD i 0 : ℚ) := by exact_mod_cast (show 0 < vs.getD i 0 by omega)
  have hpos : 0 < (kAt c i : ℚ) / (vs.getD i 0 : ℚ) := div_pos hk hu
  have := hm.1
  linarith

end bound

end DSymVerif.SymGen

namespace DSymVerif.SymGen
open DSymVerif.DS

/-! ### `base_curvature < 0`, and the degrees -/

theorem sum_map_range_le_q (f g : Nat → ℚ) (N : Nat) (h : ∀ i, i < N → f i ≤ g i) :
    ((List.range N).map f).sum ≤ ((List.range N).map g).sum := by
  induction N with
  | zero => simp
  | succ N ih =>
    rw [List.range_succ, List.map_append, List.map_append, List.sum_append, List.sum_append]
    simp only [List.map_cons, List.map_nil, List.sum_cons, List.sum_nil, add_zero]
    have := ih (fun i hi => h i (by omega))
    have := h N (by omega)
    linarith

/-- raising branching numbers never raises the exact curvature (no upper bound) -/
theorem curvQ_anti (c : Ctx) (vs ws : List Nat)
    (h : ∀ i, i < c.count → 1 ≤ ws.getD i 0 ∧ ws.getD i 0 ≤ vs.getD i 0) : curvQ c vs ≤ curvQ c ws := by
  unfold curvQ
  have := sum_map_range_le_q (fun i => (kAt c i : ℚ) / (vs.getD i 0 : ℚ))
    (fun i => (kAt c i : ℚ) / (ws.getD i 0 : ℚ)) c.count (fun i hi => by
      have hw1 : (0 : ℚ) < (ws.getD i 0 : ℚ) := by exact_mod_cast (h i hi).1
      have hle : (ws.getD i 0 : ℚ) ≤ (vs.getD i 0 : ℚ) := by exact_mod_cast (h i hi).2
      exact div_le_div_of_nonneg_left (le_of_lt (kAt_pos_q c i)) hw1 hle)
  linarith

/-- `base_curvature < 0`: every vector above the minima is hyperbolic, and the only minimally
    hyperbolic one is the all-minimal vector (which the generator emits for Hyperbolic / All) -/
theorem base_negative_all {c : Ctx} (hw : WF c) (hb : c.baseCurv < 0) (vs : List Nat)
    (hl : vs.length = c.count) (hlo : ∀ i, i < c.count → c.vmins.getD i 0 ≤ vs.getD i 0) :
    curvQ c vs < 0 ∧ MinHypQ c c.vmins ∧ (MinHypQ c vs → vs = c.vmins) := by
  have hvb : ∀ i, i < c.count → 1 ≤ c.vmins.getD i 0 ∧ c.vmins.getD i 0 ≤ Tables.genVMax :=
    fun i hi => ⟨hw.vminPos i hi, hw.vminLe i hi⟩
  have hbase : curvQ c c.vmins < 0 := by
    have := (scaled_sign c c.vmins hvb).1
    rw [← hw.base] at this
    exact this.mp hb
  have hanti : ∀ ws : List Nat, (∀ i, i < c.count → c.vmins.getD i 0 ≤ ws.getD i 0) →
      curvQ c ws ≤ curvQ c c.vmins :=
    fun ws h => curvQ_anti c ws c.vmins (fun i hi => ⟨hw.vminPos i hi, h i hi⟩)
  refine ⟨lt_of_le_of_lt (hanti vs hlo) hbase, ⟨hbase, fun i _ hgt => absurd hgt (lt_irrefl _)⟩, fun hm => ?_⟩
  apply list_ext_getD _ _ (by rw [hl]; rfl)
  intro i hi
  rw [hl] at hi
  by_contra hne
  have hgt : vs.getD i 0 > c.vmins.getD i 0 := by have := hlo i hi; omega
  have h0 := hm.2 i hi hgt
  have hle := hanti (vs.set i (vs.getD i 0 - 1)) (fun j hj => by
    rw [getD_set vs i _ j (by rw [hl]; exact hi)]
    split
    · rename_i e; subst e; omega
    · exact hlo j hj)
  linarith

/-- every degree of an admissible vector is at least 3: `r · v ≥ 3` on every orbit -/
theorem degrees_ge_three {ds : DSetData} {g : Geom} {c : Ctx} (h : mkCtx ds g = .ok c)
    (hds : ValidSet ds) {vs : List Nat} (ha : Adm c vs) (k : Nat) (hk : k < c.count) :
    3 ≤ c.rs.getD k 0 * vs.getD k 0 := by
  obtain ⟨_, hrs, _, hvm, _, _⟩ := mkCtx_fields h
  have hcount : c.count = (collectOrbits ds).rs.size := by
    unfold Ctx.count; rw [hvm]; simp [computeVmins]
  have hlen : c.rs.length = c.count := by rw [hrs, hcount]; simp
  -- the orbit length is a least period, hence ≥ 1
  have hr1 : 1 ≤ c.rs.getD k 0 := by
    obtain ⟨i, d, hi, hd1, hd2, hx⟩ := collectOrbits_surj hds (by rw [← hcount]; exact hk)
    have hper := ((collectOrbits_rows hds).2 i hi).per d hd1 hd2
    rw [hx] at hper
    have : c.rs.getD k 0 = (collectOrbits ds).rs.getD k 0 := by
      rw [hrs]; simp [List.getD, Array.getD_eq_getD_getElem?]
    rw [this]; exact hper.1
  have hv : c.vmins.getD k 0 = vminOf (c.rs.getD k 0) := by
    have hk' : k < c.rs.length := by omega
    rw [hvm, ← hrs]
    simp [computeVmins, List.getD, List.getElem?_map, List.getElem?_eq_getElem hk']
  have hmin : vminOf (c.rs.getD k 0) * c.rs.getD k 0 ≥ 3 := by
    -- least v with r·v ≥ 3, from the generated rules
    have hspec : ∀ r, 1 ≤ r → vminOf r * r ≥ 3 := by
      intro r hr
      have hf : vminOf r = if r = 1 then 3 else if r = 2 then 2 else 1 := by
        unfold vminOf
        simp only [Tables.vminRules, Tables.vminDefault, List.find?]
        by_cases h1 : r = 1
        · subst h1; simp
        · by_cases h2 : r = 2
          · subst h2; simp
          · have e1 : (1 == r) = false := by simp; omega
            have e2 : (2 == r) = false := by simp; omega
            simp [e1, e2, h1, h2]
      rw [hf]; split
      · omega
      · split <;> omega
    exact hspec _ hr1
  have hlo := (ha.2 k hk).1
  rw [hv] at hlo
  calc 3 ≤ vminOf (c.rs.getD k 0) * c.rs.getD k 0 := hmin
    _ ≤ vs.getD k 0 * c.rs.getD k 0 := Nat.mul_le_mul_right _ hlo
    _ = c.rs.getD k 0 * vs.getD k 0 := Nat.mul_comm _ _

end DSymVerif.SymGen

namespace DSymVerif.SymGen
open DSymVerif.DS DSymVerif.D2 DSymVerif.SpecC08

/-- **K ≤ 4** on every D-set of the domain, for every vector with positive entries; hence the upper
    end `4 * CURV_FAC` of the spherical window excludes nothing -/
theorem curvQ_le_four {ds : DSetData} {g : Geom} {c : Ctx} (h : mkCtx ds g = .ok c) (hds : ValidSet ds)
    (hdim : ds.dim = 2) (hfar : FarCommute ds) (hconn : ds.viewSimple.isConnected = true)
    (h1 : 1 ≤ ds.size) {vs : List Nat} (hp : Pos c vs) : curvQ c vs ≤ 4 := by
  obtain ⟨hdd, _⟩ := mkCtx_fields h
  have hgood := good2d_pos h hds hdim hfar hconn h1 hp .simpleSym
  have hcn : (⟨emittedSym c vs, .simpleSym⟩ : Sym).view.isConnected = true := by
    show c.dset.viewSimple.isConnected = true; rw [hdd]; exact hconn
  obtain ⟨hcurv, _⟩ := curvature_emitted h hds hdim hfar vs hp.1 hp.2 .simpleSym
  obtain ⟨o', ho'⟩ := orbifoldSymbol_total hgood hcn
  obtain ⟨o, hx⟩ := symbolCensus_of_parity hgood (parityMonitor_holds hgood ho')
  obtain ⟨K, hKe, hKv⟩ := gauss_bonnet_census hgood hx
  rw [hcurv] at hKe
  have hKq : curvQ c vs = 2 * chiQ (orbOf o) := by
    rw [← hKv, ← Outcome.ok.inj hKe, Frac.toRat_ofRat]
  have hC := sum_ge_half_len o.cones (fun v hv => mem_conesOf_gt (hx.cones.mem_iff.1 hv))
  have hF := sum_ge_half_len o.bnds.flatten (fun v hv => mem_cornersOf_gt (hx.corners.mem_iff.1 hv))
  rw [hKq, chiQ_flat]
  unfold chiFlat
  have h0 : (0 : ℚ) ≤ ((orbOf o).bnds.length + 2 * (orbOf o).handles + (orbOf o).caps : Nat) := by positivity
  have hC0 : (0:ℚ) ≤ (o.cones.length : ℚ) / 2 := by positivity
  have hF0 : (0:ℚ) ≤ (o.bnds.flatten.length : ℚ) / 2 := by positivity
  show 2 * (2 - (o.cones.map dq).sum - _ - (o.bnds.flatten.map dq).sum / 2) ≤ 4
  linarith

end DSymVerif.SymGen
