/-
Kernel evaluation, in index chunks, of `Tab.reachable` over the GENERATED table
`Tables.euclideanInvariants`: the invariant fields of every entry form a list that
`abelian_invariants` can return (zeros first, then a divisibility chain of factors ≥ 2).
An entry that fails this can never be matched by `orbifold_invariant` (its space group is
rejected by `is_euclidean`).
-/
import DSymVerif.Proofs.EuclidicityTableFacts

namespace DSymVerif.Euc.Tab
open DSymVerif

def reachAt (i : Nat) : Bool := reachable (Tables.euclideanInvariants.getD i "")

theorem reach0 : ((List.range' 0 40).all reachAt) = true := by decide +kernel
theorem reach1 : ((List.range' 40 40).all reachAt) = true := by decide +kernel
theorem reach2 : ((List.range' 80 30).all reachAt) = true := by decide +kernel
theorem reach3 : ((List.range' 110 25).all reachAt) = true := by decide +kernel
theorem reach4 : ((List.range' 135 20).all reachAt) = true := by decide +kernel
theorem reach5 : ((List.range' 155 20).all reachAt) = true := by decide +kernel
theorem reach6 : ((List.range' 175 15).all reachAt) = true := by decide +kernel
theorem reach7 : ((List.range' 190 15).all reachAt) = true := by decide +kernel
theorem reach8 : ((List.range' 205 15).all reachAt) = true := by decide +kernel
theorem reach9 : ((List.range' 220 15).all reachAt) = true := by decide +kernel

theorem reachAt_all (i : Nat) (hi : i < 235) : reachAt i = true := by
  by_cases h0 : i < 40
  · exact okAt_of_chunk' reach0 (by omega) (by omega)
  by_cases h1 : i < 80
  · exact okAt_of_chunk' reach1 (by omega) (by omega)
  by_cases h2 : i < 110
  · exact okAt_of_chunk' reach2 (by omega) (by omega)
  by_cases h3 : i < 135
  · exact okAt_of_chunk' reach3 (by omega) (by omega)
  by_cases h4 : i < 155
  · exact okAt_of_chunk' reach4 (by omega) (by omega)
  by_cases h5 : i < 175
  · exact okAt_of_chunk' reach5 (by omega) (by omega)
  by_cases h6 : i < 190
  · exact okAt_of_chunk' reach6 (by omega) (by omega)
  by_cases h7 : i < 205
  · exact okAt_of_chunk' reach7 (by omega) (by omega)
  by_cases h8 : i < 220
  · exact okAt_of_chunk' reach8 (by omega) (by omega)
  · exact okAt_of_chunk' reach9 (by omega) (by omega)

/-- every token of the table has reachable invariant fields -/
theorem token_reachable (s : String) (hs : s ∈ Tables.euclideanInvariants) : reachable s = true := by
  obtain ⟨i, hi, rfl⟩ := List.getElem_of_mem hs
  have h := reachAt_all i (by rw [← table_length]; exact hi)
  unfold reachAt at h
  have hg : Tables.euclideanInvariants.getD i "" = Tables.euclideanInvariants[i] := by
    simp [List.getD_eq_getElem?_getD, List.getElem?_eq_getElem hi]
  rw [hg] at h
  exact h

end DSymVerif.Euc.Tab
