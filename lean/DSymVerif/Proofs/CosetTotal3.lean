/-
C11 totality, part 3: the closing pass of `coset_table` never fails (its fuel `len + 1` suffices:
every round but the last removes a live row).
-/
import DSymVerif.Proofs.CosetTotal2

namespace DSymVerif.CosetInvP
open DSymVerif DSymVerif.Cosets DSymVerif.LowIndexP DSymVerif.CosetPartP DSymVerif.CanonP

theorem scanAndMerge_total {t : Table} {w : List Int} {start : Nat} (inv : TCq t [])
    (hw : WordOK t w) (hs : start < t.len) :
    ∃ t' ch, scanAndMerge t w start = .ok (t', ch) ∧ live t' ≤ live t ∧ (ch = true → live t' < live t) := by
  unfold scanAndMerge
  have hc := canon_idem inv.shape start
  have hl := canon_lt inv.shape hs
  obtain ⟨⟨head, tail, gap, c⟩, hsb⟩ := scanBothWays_total inv.shape hw hl
  rw [hsb]
  simp only []
  obtain ⟨b1, b2, b3, b4, _⟩ := scanBothWays_rows inv.shape hw hc hl hsb
  by_cases hm : gap = 0 ∧ head ≠ tail
  · simp only [hm, and_self, if_true]
    obtain ⟨t1, hmg, hle, hlt⟩ := merge_total inv b2 b4
    have : (if True ∧ head ≠ tail then
        match t.merge head tail with
        | .ok t' => (Outcome.ok (t', true) : Outcome (Table × Bool))
        | .err => .err
        | .panic => .panic
      else .ok (t, false)) = .ok (t1, true) := by
      simp [hm.2, hmg]
    refine ⟨t1, true, ?_, hle, fun _ => hlt (by rw [b1, b3]; exact hm.2)⟩
    simpa [hm.2, hmg]
  · simp only [hm, if_false]
    exact ⟨t, false, rfl, Nat.le_refl _, fun h => by cases h⟩

theorem closeWords_total (i : Nat) : ∀ (ws : List (List Int)) (t : Table) (ch : Bool),
    TCq t [] → (∀ w ∈ ws, WordOK t w) → i < t.len →
    ∃ t' ch', closeWords i ws (t, ch) = .ok (t', ch') ∧ live t' ≤ live t ∧
      (ch' = true → ch = true ∨ live t' < live t)
  | [], t, ch, _, _, _ => ⟨t, ch, rfl, Nat.le_refl _, fun h => Or.inl h⟩
  | w :: ws, t, ch, inv, hw, hi => by
    simp only [closeWords]
    obtain ⟨t1, c1, h1, hle1, hlt1⟩ := scanAndMerge_total inv (hw w (by simp)) hi
    rw [h1]
    simp only []
    obtain ⟨a1, a2, a3, _⟩ := scanAndMerge_spec inv (hw w (by simp)) hi h1
    obtain ⟨t', ch', h', hle', hlt'⟩ := closeWords_total i ws t1 (ch || c1) a1
      (fun w' h' => (hw w' (by simp [h'])).step a2) (by omega)
    refine ⟨t', ch', h', by omega, fun hc => ?_⟩
    rcases hlt' hc with h | h
    · cases ch with
      | true => exact Or.inl rfl
      | false =>
        simp only [Bool.false_or] at h
        have := hlt1 h
        exact Or.inr (by omega)
    · exact Or.inr (by omega)

theorem closeRows_total (rels : List (List Int)) : ∀ (rows : List Nat) (t : Table) (ch : Bool),
    TCq t [] → (∀ w ∈ rels, WordOK t w) → (∀ i ∈ rows, i < t.len) →
    ∃ t' ch', closeRows rels rows (t, ch) = .ok (t', ch') ∧ live t' ≤ live t ∧
      (ch' = true → ch = true ∨ live t' < live t)
  | [], t, ch, _, _, _ => ⟨t, ch, rfl, Nat.le_refl _, fun h => Or.inl h⟩
  | i :: is, t, ch, inv, hw, hrows => by
    simp only [closeRows]
    obtain ⟨t1, c1, h1, hle1, hlt1⟩ := closeWords_total i rels t ch inv hw (hrows i (by simp))
    rw [h1]
    simp only []
    obtain ⟨a1, a2, a3, _⟩ := closeWords_spec i rels t ch t1 c1 inv hw (hrows i (by simp)) h1
    obtain ⟨t', ch', h', hle', hlt'⟩ := closeRows_total rels is t1 c1 a1
      (fun w' h' => (hw w' h').step a2) (fun j hj => by have := hrows j (by simp [hj]); omega)
    refine ⟨t', ch', h', by omega, fun hc => ?_⟩
    rcases hlt' hc with h | h
    · rcases hlt1 h with h2 | h2
      · exact Or.inl h2
      · exact Or.inr (by omega)
    · exact Or.inr (by omega)

/-- the closing loop stops within `len + 1` rounds: every round but the last removes a live row -/
theorem closeLoop_total {rels subs : List (List Int)} : ∀ (fuel : Nat) (t : Table),
    TCq t [] → (∀ w ∈ rels, WordOK t w) → (∀ w ∈ subs, WordOK t w) → live t + 1 ≤ fuel →
    ∃ t', closeLoop rels subs fuel t = .ok t' := by
  intro fuel
  induction fuel with
  | zero => intro t _ _ _ h; omega
  | succ f ih =>
    intro t inv hr hsb hf
    simp only [closeLoop]
    obtain ⟨t1, c1, h1, hle1, hlt1⟩ := closeRows_total rels (List.range t.len) t false inv hr
      (fun i hi => List.mem_range.mp hi)
    rw [h1]
    simp only []
    obtain ⟨a1, a2, a3, _⟩ := closeRows_spec rels (List.range t.len) t false t1 c1 inv hr
      (fun i hi => List.mem_range.mp hi) h1
    obtain ⟨t2, c2, h2, hle2, hlt2⟩ := closeWords_total 0 subs t1 c1 a1
      (fun w hw => (hsb w hw).step a2) a1.shape.pos
    rw [h2]
    simp only []
    obtain ⟨b1, b2, b3, _⟩ := closeWords_spec 0 subs t1 c1 t2 c2 a1
      (fun w hw => (hsb w hw).step a2) a1.shape.pos h2
    by_cases hc : c2 = true
    · simp only [hc, if_true]
      have hlt : live t2 < live t := by
        rcases hlt2 hc with h | h
        · rcases hlt1 h with h' | h'
          · cases h'
          · omega
        · omega
      exact ih t2 b1 (fun w hw => (hr w hw).step (a2.trans b2))
        (fun w hw => (hsb w hw).step (a2.trans b2)) (by omega)
    · simp only [hc]
      exact ⟨t2, rfl⟩

end DSymVerif.CosetInvP
