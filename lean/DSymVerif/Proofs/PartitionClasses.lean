/-
Helper lemmas for property C20, part 3: the `classes` loop at list level.

`ClsInv ρ cfr cls` relates the `class_for_rep` map (`cfr`, association list) and the growing
`classes` vector (`cls`) of the Rust loop for a fixed representative function `ρ`: no class is
empty, and `cfr` maps `r` to `i` exactly when class `i` is the class whose head has
representative `r`.  One iteration of the Rust loop then is one step `insertFO` of the Spec's
naive first-occurrence grouping, and `classes[*cl]` never indexes out of range.
-/
import DSymVerif.Model.Partition
import DSymVerif.Spec.C20

namespace DSymVerif.PartP
open DSymVerif DSymVerif.Part DSymVerif.SpecC20

/-- the Boolean relation "same representative" -/
def relOf (ρ : Nat → Nat) (a b : Nat) : Bool := decide (ρ a = ρ b)

/-- representatives of the heads of the classes -/
def headReps (ρ : Nat → Nat) (cls : List (List Nat)) : List Nat := cls.map (fun c => ρ (c.headD 0))

structure ClsInv (ρ : Nat → Nat) (cfr : List (Nat × Nat)) (cls : List (List Nat)) : Prop where
  nonempty : ∀ c ∈ cls, c ≠ []
  map : ∀ r i, lookup cfr r = some i ↔ (headReps ρ cls)[i]? = some r

theorem clsInv_nil (ρ : Nat → Nat) : ClsInv ρ [] [] :=
  ⟨fun c h => (by cases h), fun r i => (by simp [lookup, headReps])⟩

theorem insertFO_none (ρ : Nat → Nat) (e : Nat) :
    ∀ cls : List (List Nat), (∀ c ∈ cls, c ≠ []) → (∀ c ∈ cls, ρ (c.headD 0) ≠ ρ e) →
      insertFO (relOf ρ) e cls = cls ++ [[e]] := by
  intro cls
  induction cls with
  | nil => intro _ _; rfl
  | cons c cs ih =>
    intro hne hno
    cases c with
    | nil => exact absurd rfl (hne [] (List.mem_cons_self ..))
    | cons h t =>
      have h1 : ρ h ≠ ρ e := hno (h :: t) (List.mem_cons_self ..)
      have h2 : relOf ρ h e = false := by simp [relOf, h1]
      simp only [insertFO, h2, List.cons_append]
      rw [ih (fun c hc => hne c (List.mem_cons_of_mem _ hc))
        (fun c hc => hno c (List.mem_cons_of_mem _ hc))]
      simp

theorem insertFO_some (ρ : Nat → Nat) (e : Nat) :
    ∀ (cls : List (List Nat)) (cl : Nat), (∀ c ∈ cls, c ≠ []) →
      (headReps ρ cls)[cl]? = some (ρ e) →
      (∀ j, j < cl → (headReps ρ cls)[j]? ≠ some (ρ e)) →
      pushAt cls cl e = some (insertFO (relOf ρ) e cls) := by
  intro cls
  induction cls with
  | nil => intro cl _ h _; simp [headReps] at h
  | cons c cs ih =>
    intro cl hne hcl hfirst
    cases c with
    | nil => exact absurd rfl (hne [] (List.mem_cons_self ..))
    | cons h t =>
      cases cl with
      | zero =>
        have h1 : ρ h = ρ e := by simpa [headReps] using hcl
        have h2 : relOf ρ h e = true := by simp [relOf, h1]
        simp [pushAt, insertFO, h2]
      | succ i =>
        have h1 : ρ h ≠ ρ e := by
          have := hfirst 0 (Nat.succ_pos _)
          simpa [headReps] using this
        have h2 : relOf ρ h e = false := by simp [relOf, h1]
        have hcl' : (headReps ρ cs)[i]? = some (ρ e) := by simpa [headReps] using hcl
        have hfirst' : ∀ j, j < i → (headReps ρ cs)[j]? ≠ some (ρ e) := by
          intro j hj
          have := hfirst (j + 1) (by omega)
          simpa [headReps] using this
        simp only [pushAt, insertFO, h2]
        rw [ih i (fun c hc => hne c (List.mem_cons_of_mem _ hc)) hcl' hfirst']
        simp

theorem pushAt_keeps (ρ : Nat → Nat) (e : Nat) :
    ∀ (cls : List (List Nat)) (cl : Nat) (cls' : List (List Nat)), pushAt cls cl e = some cls' →
      (∀ c ∈ cls, c ≠ []) → (∀ c ∈ cls', c ≠ []) ∧ headReps ρ cls' = headReps ρ cls := by
  intro cls
  induction cls with
  | nil => intro cl cls' h; simp [pushAt] at h
  | cons c cs ih =>
    intro cl cls' h hne
    have hc : c ≠ [] := hne c (List.mem_cons_self ..)
    cases cl with
    | zero =>
      simp only [pushAt, Option.some.injEq] at h
      subst h
      refine ⟨?_, ?_⟩
      · intro d hd
        rcases List.mem_cons.1 hd with rfl | hd
        · simp
        · exact hne d (List.mem_cons_of_mem _ hd)
      · cases c with
        | nil => exact absurd rfl hc
        | cons x t => simp [headReps]
    | succ i =>
      simp only [pushAt, Option.map_eq_some_iff] at h
      obtain ⟨cs', h1, rfl⟩ := h
      obtain ⟨a, b⟩ := ih i cs' h1 (fun c hc => hne c (List.mem_cons_of_mem _ hc))
      refine ⟨?_, ?_⟩
      · intro d hd
        rcases List.mem_cons.1 hd with rfl | hd
        · exact hc
        · exact a d hd
      · simp only [headReps, List.map_cons] at b ⊢
        rw [b]

/-- one iteration of the loop, `class_for_rep` knows the representative -/
theorem cls_step_some {ρ : Nat → Nat} {cfr : List (Nat × Nat)} {cls : List (List Nat)} {e cl : Nat}
    (inv : ClsInv ρ cfr cls) (h : lookup cfr (ρ e) = some cl) :
    pushAt cls cl e = some (insertFO (relOf ρ) e cls) ∧ ClsInv ρ cfr (insertFO (relOf ρ) e cls) := by
  have hcl := (inv.map _ _).1 h
  have hfirst : ∀ j, j < cl → (headReps ρ cls)[j]? ≠ some (ρ e) := by
    intro j hj hh
    have := (inv.map _ _).2 hh
    rw [h] at this
    simp at this; omega
  have hp := insertFO_some ρ e cls cl inv.nonempty hcl hfirst
  obtain ⟨a, b⟩ := pushAt_keeps ρ e cls cl _ hp inv.nonempty
  exact ⟨hp, ⟨a, fun r i => by rw [b]; exact inv.map r i⟩⟩

/-- one iteration of the loop, new representative -/
theorem cls_step_none {ρ : Nat → Nat} {cfr : List (Nat × Nat)} {cls : List (List Nat)} {e : Nat}
    (inv : ClsInv ρ cfr cls) (h : lookup cfr (ρ e) = none) :
    insertFO (relOf ρ) e cls = cls ++ [[e]] ∧ ClsInv ρ ((ρ e, cls.length) :: cfr) (cls ++ [[e]]) := by
  have hno : ∀ j : Nat, (headReps ρ cls)[j]? ≠ some (ρ e) := by
    intro j hh
    have := (inv.map _ _).2 hh
    rw [h] at this; cases this
  have hno' : ∀ c ∈ cls, ρ (c.headD 0) ≠ ρ e := by
    intro c hc
    obtain ⟨j, hj⟩ := List.mem_iff_getElem?.1 hc
    intro hh
    apply hno j
    rw [← hh]
    simp only [headReps, List.getElem?_map, hj, Option.map_some]
  refine ⟨insertFO_none ρ e cls inv.nonempty hno', ⟨?_, ?_⟩⟩
  · intro c hc
    rcases List.mem_append.1 hc with hc | hc
    · exact inv.nonempty c hc
    · simp at hc; subst hc; simp
  · intro r i
    have hlen : (headReps ρ cls).length = cls.length := by simp [headReps]
    have hh : headReps ρ (cls ++ [[e]]) = headReps ρ cls ++ [ρ e] := by simp [headReps]
    rw [hh]
    simp only [lookup]
    by_cases hr : ρ e = r
    · rw [if_pos hr]
      subst hr
      constructor
      · intro h1
        simp only [Option.some.injEq] at h1
        subst h1
        rw [List.getElem?_append_right (by omega)]
        simp [hlen]
      · intro h1
        by_cases hi : i < (headReps ρ cls).length
        · rw [List.getElem?_append_left hi] at h1
          exact absurd h1 (hno i)
        · rw [List.getElem?_append_right (by omega)] at h1
          have : i - (headReps ρ cls).length = 0 := by
            by_cases hne : i - (headReps ρ cls).length = 0
            · exact hne
            · have : ([ρ e] : List Nat)[i - (headReps ρ cls).length]? = none := by
                apply List.getElem?_eq_none; simp; omega
              rw [this] at h1; cases h1
          simp only [Option.some.injEq]; omega
    · rw [if_neg hr]
      rw [inv.map r i]
      by_cases hi : i < (headReps ρ cls).length
      · rw [List.getElem?_append_left hi]
      · have h1 : (headReps ρ cls)[i]? = none := List.getElem?_eq_none (by omega)
        rw [h1, List.getElem?_append_right (by omega)]
        constructor
        · intro h2; cases h2
        · intro h2
          by_cases h0 : i - (headReps ρ cls).length = 0
          · rw [h0] at h2; simp at h2; exact absurd h2 hr
          · have : ([ρ e] : List Nat)[i - (headReps ρ cls).length]? = none := by
              apply List.getElem?_eq_none; simp; omega
            rw [this] at h2; cases h2

end DSymVerif.PartP
