/-
C01, part 14: the number `collect_orbits` records for an orbit is the orbit length — the
least k ≥ 1 with (s_{i+1} s_i)^k d = d — of every chamber the walk marks (the chambers
e_k = (s_{i+1}s_i)^k d and their s_i-images, whose cycle runs backwards with the same length).
-/
import DSymVerif.Proofs.TextWalk

namespace DSymVerif.Text
open DSymVerif DSymVerif.DS

/-- K is the least positive number of rounds after which the walk from e is at d -/
def FirstHit (f : Nat → Nat) (e d K : Nat) : Prop :=
  1 ≤ K ∧ iter f K e = d ∧ ∀ k, 1 ≤ k → k < K → iter f k e ≠ d

/-- K is the orbit length of x under f -/
def IsPeriod (f : Nat → Nat) (x K : Nat) : Prop := FirstHit f x x K

theorem exists_firstHit {f : Nat → Nat} {e d k : Nat} (h1 : 1 ≤ k) (hk : iter f k e = d) :
    ∃ K, K ≤ k ∧ FirstHit f e d K := by
  induction k using Nat.strong_induction_on with
  | _ k ih =>
    by_cases hmin : ∀ k', 1 ≤ k' → k' < k → iter f k' e ≠ d
    · exact ⟨k, Nat.le_refl _, h1, hk, hmin⟩
    · simp only [not_forall, not_not] at hmin
      obtain ⟨k', h1', hlt, hk'⟩ := hmin
      obtain ⟨K, hK, hF⟩ := ih k' hlt h1' hk'
      exact ⟨K, by omega, hF⟩

/-- the walking loop of `collect_orbits` counts the rounds up to the first return -/
theorem collectLoop_steps (ds : DSetData) (i d nr : Nat) : ∀ (fuel e steps : Nat) (ch : Bool)
    (ix : Array Nat) (seen : Array Bool) (K : Nat), K ≤ fuel → FirstHit (stepF ds i) e d K →
    (collectLoop ds i d nr fuel e steps ch ix seen).1 = steps + K := by
  intro fuel
  induction fuel with
  | zero => intro e steps ch ix seen K hK hF; have := hF.1; omega
  | succ fuel ih =>
    intro e steps ch ix seen K hK hF
    rw [collectLoop_succ]
    by_cases hret : stepF ds i e = d
    · rw [if_pos hret]
      have : K = 1 := by
        by_contra hne
        exact hF.2.2 1 (Nat.le_refl _) (by have := hF.1; omega) hret
      subst this; rfl
    · rw [if_neg hret]
      obtain ⟨K', rfl⟩ : ∃ K', K = K' + 1 := ⟨K - 1, by have := hF.1; omega⟩
      have hK1 : 1 ≤ K' := by
        rcases Nat.eq_zero_or_pos K' with h0 | h0
        · subst h0; exact absurd hF.2.1 hret
        · exact h0
      have hF' : FirstHit (stepF ds i) (stepF ds i e) d K' := by
        refine ⟨hK1, hF.2.1, ?_⟩
        intro k hk1 hk2
        exact hF.2.2 (k + 1) (by omega) (by omega)
      rw [ih _ _ _ _ _ K' (by omega) hF']
      omega

/-! ### the orbit length is the same for every chamber of the walk -/

/-- the inverse round: `e ↦ op_i(op_{i+1}(e))` -/
def stepB (ds : DSetData) (i : Nat) (e : Nat) : Nat := ds.opU i (ds.opU (i + 1) e)

section
variable {ds : DSetData} (h : ValidSet ds) {i : Nat} (hi : i < ds.dim)
include h hi

theorem stepB_range (x : Nat) (h1 : 1 ≤ x) (h2 : x ≤ ds.size) :
    1 ≤ stepB ds i x ∧ stepB ds i x ≤ ds.size := by
  have a := h.range (i + 1) x (by omega) h1 h2
  exact h.range i _ (by omega) a.1 a.2

theorem stepB_stepF (x : Nat) (h1 : 1 ≤ x) (h2 : x ≤ ds.size) : stepB ds i (stepF ds i x) = x := by
  have a := h.range i x (by omega) h1 h2
  unfold stepB stepF
  rw [h.invol (i + 1) _ (by omega) a.1 a.2, h.invol i x (by omega) h1 h2]

theorem stepF_stepB (x : Nat) (h1 : 1 ≤ x) (h2 : x ≤ ds.size) : stepF ds i (stepB ds i x) = x := by
  have a := h.range (i + 1) x (by omega) h1 h2
  unfold stepB stepF
  rw [h.invol i _ (by omega) a.1 a.2, h.invol (i + 1) x (by omega) h1 h2]

theorem iterF_range (k x : Nat) (h1 : 1 ≤ x) (h2 : x ≤ ds.size) :
    1 ≤ iter (stepF ds i) k x ∧ iter (stepF ds i) k x ≤ ds.size := by
  induction k generalizing x with
  | zero => exact ⟨h1, h2⟩
  | succ k ih =>
    rw [iter]
    have a := stepF_range h hi x h1 h2
    exact ih _ a.1 a.2

theorem iterB_range (k x : Nat) (h1 : 1 ≤ x) (h2 : x ≤ ds.size) :
    1 ≤ iter (stepB ds i) k x ∧ iter (stepB ds i) k x ≤ ds.size := by
  induction k generalizing x with
  | zero => exact ⟨h1, h2⟩
  | succ k ih =>
    rw [iter]
    have a := stepB_range h hi x h1 h2
    exact ih _ a.1 a.2

theorem iterB_iterF (k x : Nat) (h1 : 1 ≤ x) (h2 : x ≤ ds.size) :
    iter (stepB ds i) k (iter (stepF ds i) k x) = x := by
  induction k generalizing x with
  | zero => rfl
  | succ k ih =>
    rw [iter_succ' (stepF ds i), iter]
    have a := iterF_range h hi k x h1 h2
    rw [stepB_stepF h hi _ a.1 a.2]
    exact ih x h1 h2

theorem iterF_iterB (k x : Nat) (h1 : 1 ≤ x) (h2 : x ≤ ds.size) :
    iter (stepF ds i) k (iter (stepB ds i) k x) = x := by
  induction k generalizing x with
  | zero => rfl
  | succ k ih =>
    rw [iter_succ' (stepB ds i), iter]
    have a := iterB_range h hi k x h1 h2
    rw [stepF_stepB h hi _ a.1 a.2]
    exact ih x h1 h2

/-- `f^k x = x ↔ f^{-k} x = x` -/
theorem iterB_fix_iff (k x : Nat) (h1 : 1 ≤ x) (h2 : x ≤ ds.size) :
    iter (stepB ds i) k x = x ↔ iter (stepF ds i) k x = x := by
  constructor
  · intro hb
    have := iterF_iterB h hi k x h1 h2
    rw [hb] at this; exact this
  · intro hf
    have := iterB_iterF h hi k x h1 h2
    rw [hf] at this; exact this

/-- conjugation by `op_i` reverses the walk: `f^k (op_i x) = op_i (f^{-k} x)` -/
theorem iterF_opU (k x : Nat) (h1 : 1 ≤ x) (h2 : x ≤ ds.size) :
    iter (stepF ds i) k (ds.opU i x) = ds.opU i (iter (stepB ds i) k x) := by
  induction k generalizing x with
  | zero => rfl
  | succ k ih =>
    rw [iter, iter]
    have hb := stepB_range h hi x h1 h2
    have hstep : stepF ds i (ds.opU i x) = ds.opU i (stepB ds i x) := by
      have a := h.range (i + 1) x (by omega) h1 h2
      unfold stepF stepB
      rw [h.invol i x (by omega) h1 h2, h.invol i _ (by omega) a.1 a.2]
    rw [hstep]
    exact ih _ hb.1 hb.2

theorem isPeriod_stepF {x K : Nat} (h1 : 1 ≤ x) (h2 : x ≤ ds.size) (hp : IsPeriod (stepF ds i) x K) :
    IsPeriod (stepF ds i) (stepF ds i x) K := by
  obtain ⟨hK, hfix, hmin⟩ := hp
  refine ⟨hK, ?_, ?_⟩
  · rw [← iter, iter_succ', hfix]
  · intro k hk1 hk2 hfx
    rw [← iter, iter_succ'] at hfx
    have a := iterF_range h hi k x h1 h2
    exact hmin k hk1 hk2 (stepF_inj h hi _ _ a.1 a.2 h1 h2 hfx)

theorem isPeriod_opU {x K : Nat} (h1 : 1 ≤ x) (h2 : x ≤ ds.size) (hp : IsPeriod (stepF ds i) x K) :
    IsPeriod (stepF ds i) (ds.opU i x) K := by
  obtain ⟨hK, hfix, hmin⟩ := hp
  refine ⟨hK, ?_, ?_⟩
  · rw [iterF_opU h hi K x h1 h2, (iterB_fix_iff h hi K x h1 h2).mpr hfix]
  · intro k hk1 hk2 hfx
    rw [iterF_opU h hi k x h1 h2] at hfx
    have a := iterB_range h hi k x h1 h2
    have := opU_inj h (by omega : i ≤ ds.dim) a.1 a.2 h1 h2 hfx
    exact hmin k hk1 hk2 ((iterB_fix_iff h hi k x h1 h2).mp this)

/-- every chamber marked by a walk that starts at a chamber of orbit length K has orbit length K -/
theorem walkList_period (d K : Nat) : ∀ (fuel e : Nat), 1 ≤ e → e ≤ ds.size →
    IsPeriod (stepF ds i) e K → ∀ x ∈ walkList ds i d fuel e, IsPeriod (stepF ds i) x K := by
  intro fuel
  induction fuel with
  | zero => intro e _ _ _ x hx; simp [walkList] at hx
  | succ fuel ih =>
    intro e he1 he2 hp x hx
    have ha := isPeriod_opU h hi he1 he2 hp
    have hs := isPeriod_stepF h hi he1 he2 hp
    have hsr := stepF_range h hi e he1 he2
    rw [walkList_succ] at hx
    split at hx
    · simp only [List.mem_cons, List.not_mem_nil, or_false] at hx
      rcases hx with rfl | rfl
      · exact ha
      · exact hs
    · simp only [List.mem_cons] at hx
      rcases hx with rfl | rfl | hx
      · exact ha
      · exact hs
      · exact ih _ hsr.1 hsr.2 hs x hx

end

end DSymVerif.Text
