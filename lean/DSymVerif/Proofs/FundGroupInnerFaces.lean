/-
Helper lemmas for property C09, part 33: `InnerWallsAreFaces` in the vocabulary of C16
(Proofs/SimplifySteps.lean): on every complete 3-dimensional D-set with commuting far operations
the 3-edges that `inner_edges(as_dsym(ds))` declares inner come in whole faces — the junk list of
`merge_tiles` is closed under `s0` and `s1`.
-/
import DSymVerif.Proofs.FundGroupInner4
import DSymVerif.Proofs.SimplifySteps
import DSymVerif.Proofs.CanonicalBuild

namespace DSymVerif.FGP
open DSymVerif DSymVerif.DS DSymVerif.FG DSymVerif.Simp

/-- what `as_dsym` returns on a valid D-set with commuting far operations -/
theorem asDSym_spec {ds : DSetData} (hv : ValidSet ds) (hf : FarCommute ds) {sym : DSymData}
    (h : asDSym ds = .ok sym) :
    ValidSym sym ∧ sym.size = ds.size ∧ sym.dim = ds.dim ∧
    (∀ i d, i ≤ ds.dim → 1 ≤ d → d ≤ ds.size → sym.dset.opU i d = ds.opU i d) ∧
    (∀ i d, i < ds.dim → 1 ≤ d → d ≤ ds.size → orbV sym i (i + 1) d = 1) := by
  unfold asDSym at h
  cases hA : asDSet ds with
  | err => rw [hA] at h; cases h
  | panic => rw [hA] at h; cases h
  | ok s =>
    rw [hA] at h
    simp only at h
    obtain ⟨vS, sS, dS, opS, fS⟩ := asDSet_ok hv hA
    obtain ⟨sym', hb, hsv, hds, hvadj⟩ := CanonP.buildSymUsingVs_spec (ds := s) vS (fS hf)
      (v := fun _ _ => some 1) (V := fun _ _ => 1) (fun _ _ _ _ _ => rfl)
      (fun _ _ _ _ _ _ _ => rfl)
    rw [hb] at h
    injection h with h
    subst h
    have e1 : sym'.size = ds.size := by show sym'.dset.size = _; rw [hds, sS]
    have e2 : sym'.dim = ds.dim := by show sym'.dset.dim = _; rw [hds, dS]
    refine ⟨hsv, e1, e2, ?_, ?_⟩
    · intro i d hi h1 h2
      rw [hds]; exact opS i d hi h1 h2
    · intro i d hi h1 h2
      have := hvadj i d (by rw [dS]; exact hi) h1 (by rw [sS]; exact h2)
      unfold DSymData.vAdj at this
      unfold orbV
      cases hp : sym'.vPartial i (i + 1) d with
      | err => rw [hp] at this; cases this
      | panic => rw [hp] at this; cases this
      | ok o =>
        rw [hp] at this
        simp only at this
        rw [this]

/-- the 3-orbit of a chamber of a valid D-set is the chamber and its 3-neighbour -/
theorem mem_orbit3 {ds : DSetData} (hv : ValidSet ds) (hdim : 3 ≤ ds.dim) {d : Nat} (h1 : 1 ≤ d)
    (h2 : d ≤ ds.size) (x : Nat) : x ∈ ds.viewPartial.orbit [3] d ↔ (x = d ∨ x = ds.opU 3 d) := by
  rw [(C02.orbit_eq_reachable ds.viewPartial hv.toPartial.pinvol [3] d).1 x]
  have hop : ∀ y, 1 ≤ y → y ≤ ds.size → ds.viewPartial.op 3 y = some (ds.opU 3 y) :=
    fun y hy1 hy2 => opPartial_valid hv hdim hy1 hy2
  constructor
  · intro hr
    induction hr with
    | refl => exact Or.inl rfl
    | @step e c i _ hi hopc ih =>
      simp only [List.mem_singleton] at hi
      subst hi
      rcases ih with rfl | rfl
      · rw [hop e h1 h2] at hopc
        exact Or.inr (Option.some.inj hopc).symm
      · have r := hv.range 3 d hdim h1 h2
        rw [hop _ r.1 r.2, hv.invol 3 d hdim h1 h2] at hopc
        exact Or.inl (Option.some.inj hopc).symm
  · rintro (rfl | rfl)
    · exact View.Reach.refl _
    · exact View.Reach.step (View.Reach.refl _) (by simp) (hop d h1 h2)

/-- **`InnerWallsAreFaces`** (the hypothesis of the C16 theorems about `merge_tiles`) -/
theorem innerWallsAreFaces : InnerWallsAreFaces := by
  rintro ds ⟨hv, hdim, hf⟩ sym inner hsym hinner
  obtain ⟨hs, eS, eD, eop, ev⟩ := asDSym_spec hv hf hsym
  have hd3 : 3 ≤ sym.dim := by rw [eD, hdim]
  have hv01 : ∀ x, 1 ≤ x → x ≤ sym.size → orbV sym 0 1 x = 1 := by
    intro x hx1 hx2
    exact ev 0 x (by omega) hx1 (by rw [← eS]; exact hx2)
  obtain ⟨hrange, hwalls⟩ := innerEdges_walls hs hd3 hv01 hinner
  have hE : ∀ e ∈ inner, 1 ≤ e.1 ∧ e.1 ≤ ds.size := by
    intro e he
    have := hrange e he
    exact ⟨this.1, by rw [← eS]; exact this.2.1⟩
  -- membership in the junk list
  have hmem : ∀ x, x ∈ tilesJunk ds inner ↔ OnInnerWall sym inner x := by
    intro x
    unfold tilesJunk OnInnerWall
    rw [List.mem_flatMap]
    constructor
    · rintro ⟨e, he, hx⟩
      rw [List.mem_filter] at he
      have he3 : e.2 = 3 := by simpa using he.2
      obtain ⟨r1, r2⟩ := hE e he.1
      rw [mem_orbit3 hv (by omega) r1 r2] at hx
      refine ⟨e, he.1, he3, ?_⟩
      rw [eop 3 e.1 (by omega) r1 r2]
      exact hx
    · rintro ⟨e, he, he3, hx⟩
      obtain ⟨r1, r2⟩ := hE e he
      refine ⟨e, List.mem_filter.2 ⟨he, by simp [he3]⟩, ?_⟩
      rw [mem_orbit3 hv (by omega) r1 r2]
      rw [eop 3 e.1 (by omega) r1 r2] at hx
      exact hx
  refine ⟨hE, ?_⟩
  intro x hx
  have hw := (hmem x).1 hx
  -- `x` is a chamber
  have hxr : 1 ≤ x ∧ x ≤ ds.size := by
    obtain ⟨e, he, _, hx'⟩ := hw
    obtain ⟨r1, r2⟩ := hE e he
    rcases hx' with rfl | rfl
    · exact ⟨r1, r2⟩
    · rw [eop 3 e.1 (by omega) r1 r2]; exact hv.range 3 e.1 (by omega) r1 r2
  have h0 := hwalls x hw 0 (by omega)
  have h1 := hwalls x hw 1 (by omega)
  rw [eop 0 x (by omega) hxr.1 hxr.2] at h0
  rw [eop 1 x (by omega) hxr.1 hxr.2] at h1
  exact ⟨(hmem _).2 h0, (hmem _).2 h1⟩

end DSymVerif.FGP
