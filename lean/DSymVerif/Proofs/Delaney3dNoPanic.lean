/-
Property C15: totality of the pipeline of `pseudo_toroidal_cover`, stage by stage, assembled.
Every loop of `construct_candidates`, the selection loops and `cover_for_table` return (`.ok`)
on the presentation of a valid symbol: the tables are valid (C11/C12/C13), `degree` terminates on
them, `core_type` is defined on cores, the names pushed are keys of the candidate map,
`stabilizer` and `abelian_invariants` are total (C13, C14).
-/
import DSymVerif.Proofs.Delaney3dTotal
import DSymVerif.Proofs.Delaney3dPipeline
import DSymVerif.Proofs.Delaney3dMono
import DSymVerif.Props.C13
import DSymVerif.Props.C14

namespace DSymVerif.D3
open DSymVerif DSymVerif.DS DSymVerif.Cosets DSymVerif.SpecC11 DSymVerif.CosetP DSymVerif.StabP
  DSymVerif.FG DSymVerif.FGP DSymVerif.CoversP

/-- the keys of the candidate map are the point-group names -/
def NamesOK (c : Candidates) : Prop := c.map (·.1) = pointGroups

theorem candPush_ok {c : Candidates} {name : String} (t : Tab) (hc : NamesOK c)
    (hn : name ∈ pointGroups) : ∃ c', candPush c name t = .ok c' ∧ NamesOK c' := by
  have hany : c.any (fun e => e.1 == name) = true := by
    rw [List.any_eq_true]
    rw [← hc] at hn
    obtain ⟨e, he, hen⟩ := List.mem_map.mp hn
    exact ⟨e, he, by simp [hen]⟩
  have hex : ∃ c', candPush c name t = .ok c' := by
    unfold candPush
    rw [if_pos hany]
    exact ⟨_, rfl⟩
  obtain ⟨c', hc'⟩ := hex
  exact ⟨c', hc', by unfold NamesOK; rw [candPush_names hc']; exact hc⟩

/-! ### core tables -/

theorem coreTables_total {n : Nat} {rels : List (List Int)}
    (hlet : ∀ w ∈ rels, ∀ x ∈ w, x ∈ allGensOf n) :
    ∀ (l : List (Outcome Table)),
      (∀ x ∈ l, ∃ t' tab, x = .ok t' ∧ tabOf t' = .ok tab ∧ validTable tab n rels [] = true) →
      ∃ cts, coreTables n l = .ok cts
  | [], _ => ⟨[], rfl⟩
  | x :: rest, h => by
    obtain ⟨t', tab, hx, htab, hv⟩ := h x (List.mem_cons_self ..)
    obtain ⟨c, hc, _⟩ := coreTab_valid hlet hv
    obtain ⟨cs, hcs⟩ := coreTables_total hlet rest (fun y hy => h y (List.mem_cons_of_mem _ hy))
    subst hx
    exact ⟨c :: cs, by simp only [coreTables, htab, hc, hcs]⟩

section
variable {n : Nat} {rels : List (List Int)} (hlet : ∀ w ∈ rels, ∀ x ∈ w, x ∈ allGensOf n)
  (hnames : ∀ (c : Tab) (name : String), coreType n c = .ok name → name ∈ pointGroups)
  (hdom : Tables.coreTypeBySize.map (·.1) = [1, 2, 3, 6, 8, 12, 24]) (hsp : Tables.coreTypeSpecialSize = 4)
  (hz6 : "z6" ∈ pointGroups) (hd6 : "d6" ∈ pointGroups)

include hlet hnames hdom hsp in
theorem firstLoop_total {cones : List (List Int × Nat)} (hcl : ∀ x ∈ cones, ∀ g ∈ x.1, g ∈ letters n) :
    ∀ (ts : List Tab) (c : Candidates), (∀ t ∈ ts, IsCoreOf n rels 4 t) → NamesOK c →
      ∃ c', firstLoop n cones ts c = .ok c' ∧ NamesOK c'
  | [], c, _, hc => ⟨c, rfl, hc⟩
  | t :: rest, c, hts, hc => by
    have hrest : ∀ t' ∈ rest, IsCoreOf n rels 4 t' := fun t' ht' => hts t' (List.mem_cons_of_mem _ ht')
    have hcore := hts t (List.mem_cons_self ..)
    have hv := valid_of_validTable (isCoreOf_valid hlet hcore)
    obtain ⟨b, hb⟩ := flattensAll_ok hv cones hcl
    unfold firstLoop
    rw [hb]
    cases b with
    | false => exact firstLoop_total hcl rest c hrest hc
    | true =>
      obtain ⟨_, name, hname⟩ := coreType_of_core hlet hcore hdom hsp
      obtain ⟨c', hc', hn'⟩ := candPush_ok t hc (hnames t name hname)
      simp only [hname, hc']
      exact firstLoop_total hcl rest c' hrest hn'

include hlet hz6 hd6 in
theorem pairStep_total {cones cones2 : List (List Int × Nat)}
    (hcl : ∀ x ∈ cones, ∀ g ∈ x.1, g ∈ letters n) (hcl2 : ∀ x ∈ cones2, ∀ g ∈ x.1, g ∈ letters n)
    {ta tb : Tab} (hta : validTable ta n rels [] = true) (htb : validTable tb n rels [] = true)
    {c : Candidates} (hc : NamesOK c) :
    ∃ c', pairStep n cones cones2 ta tb c = .ok c' ∧ NamesOK c' := by
  obtain ⟨tx, htx, hvx, _⟩ := interTab_valid hlet hta htb
  obtain ⟨b, hb⟩ := flattensAll_ok (valid_of_validTable hvx) cones hcl
  obtain ⟨b2, hb2⟩ := flattensAll_ok (valid_of_validTable htb) cones2 hcl2
  unfold pairStep
  rw [htx]
  simp only [hb]
  cases b with
  | false => exact ⟨c, rfl, hc⟩
  | true =>
    simp only
    by_cases h1 : ta.size = 3 ∧ tx.size = 6
    · rw [if_pos h1, hb2]
      cases b2 with
      | false => exact ⟨c, rfl, hc⟩
      | true => exact candPush_ok tx hc hz6
    · rw [if_neg h1]
      by_cases h2 : ta.size = 6 ∧ tx.size = 12
      · rw [if_pos h2, hb2]
        cases b2 with
        | false => exact candPush_ok tx hc hd6
        | true => exact ⟨c, rfl, hc⟩
      · rw [if_neg h2]
        exact ⟨c, rfl, hc⟩

include hlet hz6 hd6 in
theorem innerLoop_total {cones cones2 : List (List Int × Nat)}
    (hcl : ∀ x ∈ cones, ∀ g ∈ x.1, g ∈ letters n) (hcl2 : ∀ x ∈ cones2, ∀ g ∈ x.1, g ∈ letters n)
    {ta : Tab} (hta : validTable ta n rels [] = true) :
    ∀ (tbs : List Tab) (c : Candidates), (∀ t ∈ tbs, validTable t n rels [] = true) → NamesOK c →
      ∃ c', innerLoop n cones cones2 ta tbs c = .ok c' ∧ NamesOK c'
  | [], c, _, hc => ⟨c, rfl, hc⟩
  | tb :: rest, c, hts, hc => by
    have hrest : ∀ t' ∈ rest, validTable t' n rels [] = true := fun t' ht' => hts t' (List.mem_cons_of_mem _ ht')
    unfold innerLoop
    by_cases h2 : tb.size = 2
    · rw [if_pos h2]
      obtain ⟨c', hc', hn'⟩ := pairStep_total hlet hz6 hd6 hcl hcl2 hta (hts tb (List.mem_cons_self ..)) hc
      simp only [hc']
      exact innerLoop_total hcl hcl2 hta rest c' hrest hn'
    · rw [if_neg h2]
      exact innerLoop_total hcl hcl2 hta rest c hrest hc

include hlet hz6 hd6 in
theorem secondLoop_total {cones cones2 cones3 : List (List Int × Nat)} {all : List Tab}
    (hcl : ∀ x ∈ cones, ∀ g ∈ x.1, g ∈ letters n) (hcl2 : ∀ x ∈ cones2, ∀ g ∈ x.1, g ∈ letters n)
    (hcl3 : ∀ x ∈ cones3, ∀ g ∈ x.1, g ∈ letters n)
    (hall : ∀ t ∈ all, validTable t n rels [] = true) :
    ∀ (tas : List Tab) (c : Candidates), (∀ t ∈ tas, validTable t n rels [] = true) → NamesOK c →
      ∃ c', secondLoop n cones cones2 cones3 all tas c = .ok c' ∧ NamesOK c'
  | [], c, _, hc => ⟨c, rfl, hc⟩
  | ta :: rest, c, hts, hc => by
    have hrest : ∀ t' ∈ rest, validTable t' n rels [] = true := fun t' ht' => hts t' (List.mem_cons_of_mem _ ht')
    have hta := hts ta (List.mem_cons_self ..)
    obtain ⟨b, hb⟩ := flattensAll_ok (valid_of_validTable hta) cones3 hcl3
    unfold secondLoop
    rw [hb]
    cases b with
    | false => exact secondLoop_total hcl hcl2 hcl3 hall rest c hrest hc
    | true =>
      obtain ⟨c', hc', hn'⟩ := innerLoop_total hlet hz6 hd6 hcl hcl2 hta all c hall hc
      simp only [hc']
      exact secondLoop_total hcl hcl2 hcl3 hall rest c' hrest hn'

end

/-- **`construct_candidates` returns** on every presentation over its own letters -/
theorem constructCandidates_total (fg : FG.FundGroup) (hg : GroupOK fg)
    (hnames : ∀ (c : Tab) (name : String), coreType fg.genToEdge.length c = .ok name → name ∈ pointGroups)
    (hdom : Tables.coreTypeBySize.map (·.1) = [1, 2, 3, 6, 8, 12, 24]) (hsp : Tables.coreTypeSpecialSize = 4)
    (hbound : Tables.candidateIndexBound = 4)
    (hz6 : "z6" ∈ pointGroups) (hd6 : "d6" ∈ pointGroups) :
    ∃ cands, constructCandidates fg = .ok cands ∧ NamesOK cands := by
  have hvalid := lowIndex_valid fg.genToEdge.length fg.relators Tables.candidateIndexBound
    (nodeFuel fg.genToEdge.length Tables.candidateIndexBound) hg.letters hg.fuel
  have hok := CanonP.cosetTables_ok_all fg.genToEdge.length fg.relators Tables.candidateIndexBound
    (nodeFuel fg.genToEdge.length Tables.candidateIndexBound) hg.letters hg.fuel
  obtain ⟨cts, hcts⟩ := coreTables_total hg.letters
    (cosetTables fg.genToEdge.length fg.relators Tables.candidateIndexBound
      (nodeFuel fg.genToEdge.length Tables.candidateIndexBound))
    (by
      intro x hx
      obtain ⟨t', _, hxt, _⟩ := hok x hx
      obtain ⟨tab, h1, h2, _⟩ := hvalid x hx t' hxt
      exact ⟨t', tab, hxt, h1, h2⟩)
  have hcores := constructCandidates_cores fg hg cts hcts
  rw [hbound] at hcores
  have hcv : ∀ t ∈ cts, validTable t fg.genToEdge.length fg.relators [] = true :=
    fun t ht => isCoreOf_valid hg.letters (hcores t ht)
  have hcl : ∀ x ∈ fg.cones, ∀ g ∈ x.1, g ∈ letters fg.genToEdge.length := by
    intro x hx g hg'
    rw [← allGensOf_eq_letters]
    exact hg.cones x hx g hg'
  have hinit : NamesOK (pointGroups.map fun p => (p, ([] : List Tab))) := by
    unfold NamesOK
    rw [List.map_map]
    exact List.map_id _
  obtain ⟨c1, hc1, hn1⟩ := firstLoop_total hg.letters hnames hdom hsp hcl cts _ hcores hinit
  obtain ⟨c2, hc2, hn2⟩ := secondLoop_total hg.letters hz6 hd6
    (cones := fg.cones) (cones2 := fg.cones.filter (fun c => c.2 == 2))
    (cones3 := fg.cones.filter (fun c => c.2 == 3)) hcl
    (fun x hx => hcl x (List.mem_filter.mp hx).1) (fun x hx => hcl x (List.mem_filter.mp hx).1)
    hcv cts c1 hcv hn1
  refine ⟨c2, ?_, hn2⟩
  unfold constructCandidates
  simp only [hcts, hc1]
  exact hc2

/-! ### the selection loops -/

theorem stabilizerInvariants_total {n : Nat} {rels : List (List Int)} {t : Tab}
    (hv : validTable t n rels [] = true) : ∃ inv, stabilizerInvariants n rels t = .ok inv := by
  have hV := valid_of_validTable hv
  obtain ⟨gens, srels, hst⟩ := C13.stabilizer_total t n rels hv 0 hV.pos
  have hin : ∀ w ∈ srels, ∀ g ∈ w, Inv.InRange gens.length g :=
    fun w hw g hg => C13.stabilizer_relators_letters t n rels hv 0 hV.pos gens srels hst w hw g hg
  have hinv := C14.abelian_invariants_correct gens.length srels hin
  refine ⟨SpecC14.expected gens.length srels, ?_⟩
  unfold stabilizerInvariants
  have : Stab.stabilizer 0 rels (tbl n t) = .ok (gens, srels) := hst
  rw [this]
  exact hinv

theorem firstTorusTable_total {n : Nat} {rels : List (List Int)} :
    ∀ ts : List Tab, (∀ t ∈ ts, validTable t n rels [] = true) →
      ∃ r, firstTorusTable n rels ts = .ok r
  | [], _ => ⟨none, rfl⟩
  | t :: rest, h => by
    obtain ⟨inv, hinv⟩ := stabilizerInvariants_total (h t (List.mem_cons_self ..))
    unfold firstTorusTable
    rw [hinv]
    simp only
    by_cases he : inv = [0, 0, 0]
    · rw [if_pos he]; exact ⟨_, rfl⟩
    · rw [if_neg he]
      exact firstTorusTable_total rest (fun t' ht' => h t' (List.mem_cons_of_mem _ ht'))

theorem candGet_ok {c : Candidates} {name : String} (hc : NamesOK c) (hn : name ∈ pointGroups) :
    ∃ ts, candGet c name = .ok ts ∧ ∃ e ∈ c, e.2 = ts := by
  rw [← hc] at hn
  obtain ⟨e, he, hen⟩ := List.mem_map.mp hn
  cases hf : c.find? (fun e => e.1 == name) with
  | some e' =>
    refine ⟨e'.2, ?_, e', List.mem_of_find?_eq_some hf, rfl⟩
    unfold candGet
    rw [hf]
  | none =>
    exfalso
    rw [List.find?_eq_none] at hf
    exact hf e he (by simp [hen])

theorem groupLoop_total {n : Nat} {rels : List (List Int)} {cands : Candidates}
    (hn : NamesOK cands) (hv : AllCands (fun t => validTable t n rels [] = true) cands) :
    ∀ names : List String, (∀ x ∈ names, x ∈ pointGroups) → ∃ r, groupLoop n rels cands names = .ok r
  | [], _ => ⟨none, rfl⟩
  | tp :: rest, h => by
    obtain ⟨ts, hts, e, he, hets⟩ := candGet_ok hn (h tp (List.mem_cons_self ..))
    obtain ⟨r, hr⟩ := firstTorusTable_total (n := n) (rels := rels) ts
      (fun t ht => hv e he t (by rw [hets]; exact ht))
    unfold groupLoop
    rw [hts]
    simp only [hr]
    cases r with
    | some t => exact ⟨_, rfl⟩
    | none => exact groupLoop_total hn hv rest (fun x hx => h x (List.mem_cons_of_mem _ hx))

/-! ### `cover_for_table` -/

theorem coverForTable_total {oc : DSymData} (hs : ValidSym oc) (hsz : 1 ≤ oc.size) (hdim : 1 ≤ oc.dim)
    {fg : FundGroup} (hfg : fundamentalGroup oc = .ok fg) {t : Tab}
    (hv : Valid t fg.nrGenerators fg.relators []) :
    ∃ c, Covers.coverForTable oc (tableData (tbl fg.nrGenerators t)) fg.edgeToWord = .ok c := by
  have hσ := sheetMap_agrees hs hdim hfg hv
  obtain ⟨c, hc, _⟩ := mono_cover_ok hs hsz hdim hv.pos hσ
  have hlet := (fundamentalGroup_letters oc fg hfg).2.2.1
  have hdef : Covers.allTracesDefined oc (tableData (tbl fg.nrGenerators t)) fg.edgeToWord = true := by
    unfold Covers.allTracesDefined
    rw [List.all_eq_true]
    intro k hk
    rw [List.all_eq_true]
    intro i _
    rw [List.all_eq_true]
    intro d0 _
    have hk' : k < t.size := by
      have := List.mem_range.mp hk
      rwa [tableData_len] at this
    have hw : ∀ x ∈ e2wGet fg.edgeToWord (d0 + 1, i), x ∈ letters fg.nrGenerators := by
      intro x hx
      rw [← allGensOf_eq_letters]
      exact hlet (d0 + 1, i) x hx
    obtain ⟨r, hr⟩ := traceWord_total hv (e2wGet fg.edgeToWord (d0 + 1, i)) k hk' hw
    have htr := traceWord_tableData hv _ k r hk' hr
    have : Covers.sheetTrace (tableData (tbl fg.nrGenerators t)) fg.edgeToWord k i (d0 + 1) = .ok r := by
      unfold Covers.sheetTrace
      rw [wordOf_eq_e2wGet, htr]
    rw [this]
    simp [Outcome.isOk]
  refine ⟨c, ?_⟩
  rw [Covers.coverForTable_eq_cover hdef, tableData_len]
  exact hc

end DSymVerif.D3
