/-
Lemmas for property C07, phase 2, part 1: the `is_chain` flags of `collect_orbits`.
On a complete involutive D-set, `orbit_is_chain[k]` is `true` exactly when the (i,i+1)-orbit
numbered `k` contains a chamber fixed by `op i` or by `op (i+1)`.  (A second fold invariant, run
alongside the one of `Proofs/DSetCollect.lean`.)
-/
import DSymVerif.Proofs.DSetCollect

namespace DSymVerif.DS

/-- the (i,i+1)-orbit of `x` contains a chamber fixed by one of the two operations -/
def ChainFix (s : DSetData) (i x : Nat) : Prop :=
  ∃ z, Orb2 s i (i + 1) x z ∧ (s.opU i z = z ∨ s.opU (i + 1) z = z)

/-- what iteration `t` of the inner loop ORs into the flag -/
def FixAt (s : DSetData) (i d t : Nat) : Prop :=
  s.opU i ((s.comp i (i + 1))^[t] d) = (s.comp i (i + 1))^[t] d ∨
  s.opU (i + 1) (s.opU i ((s.comp i (i + 1))^[t] d)) = s.opU i ((s.comp i (i + 1))^[t] d)

theorem collectLoop_chain {s : DSetData} {i : Nat} {d : Nat} {k : Nat}
    (hk : IsLeastPeriod s i (i + 1) d k) (nr : Nat) :
    ∀ fuel steps ch ix seen, steps < k → k - steps ≤ fuel →
      ((collectLoop s i d nr fuel ((s.comp i (i + 1))^[steps] d) steps ch ix seen).2.1 = true ↔
        ch = true ∨ ∃ t, steps ≤ t ∧ t < k ∧ FixAt s i d t)
  | 0, steps, ch, ix, seen, h1, h2 => by omega
  | fuel + 1, steps, ch, ix, seen, h1, h2 => by
    generalize hE : (s.comp i (i + 1))^[steps] d = e
    have hiter : (s.comp i (i + 1))^[steps + 1] d = s.opU (i + 1) (s.opU i e) := by
      rw [Function.iterate_succ_apply', hE]; rfl
    have hfix : FixAt s i d steps ↔ (s.opU i e = e ∨ s.opU (i + 1) (s.opU i e) = s.opU i e) := by
      unfold FixAt; rw [hE]
    unfold collectLoop
    simp only
    by_cases hc : s.opU (i + 1) (s.opU i e) = d
    · rw [if_pos hc]
      have hk' : steps + 1 = k := by
        by_cases hlt : steps + 1 < k
        · exact absurd (show IsPeriod s i (i + 1) (steps + 1) d from hiter.trans hc) (hk.2.2 _ (by omega) hlt)
        · omega
      simp only [Bool.or_eq_true, beq_iff_eq]
      constructor
      · rintro ((h | h) | h)
        · exact Or.inl h
        · exact Or.inr ⟨steps, Nat.le_refl _, h1, hfix.mpr (Or.inl h)⟩
        · exact Or.inr ⟨steps, Nat.le_refl _, h1, hfix.mpr (Or.inr h)⟩
      · rintro (h | ⟨t, ht1, ht2, hf⟩)
        · exact Or.inl (Or.inl h)
        · have : t = steps := by omega
          subst this
          rcases hfix.mp hf with h | h
          · exact Or.inl (Or.inr h)
          · exact Or.inr h
    · rw [if_neg hc]
      have hk' : steps + 1 < k := by
        by_cases heq : steps + 1 = k
        · exfalso; apply hc; rw [← hiter, heq]; exact hk.2.1
        · omega
      have ih := collectLoop_chain hk nr fuel (steps + 1)
        (ch || s.opU i e == e || s.opU (i + 1) (s.opU i e) == s.opU i e)
        ((ix.setIfInBounds (s.opU i e) nr).setIfInBounds (s.opU (i + 1) (s.opU i e)) nr)
        ((seen.setIfInBounds (s.opU i e) true).setIfInBounds (s.opU (i + 1) (s.opU i e)) true)
        hk' (by omega)
      rw [hiter] at ih
      rw [ih]
      simp only [Bool.or_eq_true, beq_iff_eq]
      constructor
      · rintro (((h | h) | h) | ⟨t, ht1, ht2, hf⟩)
        · exact Or.inl h
        · exact Or.inr ⟨steps, Nat.le_refl _, h1, hfix.mpr (Or.inl h)⟩
        · exact Or.inr ⟨steps, Nat.le_refl _, h1, hfix.mpr (Or.inr h)⟩
        · exact Or.inr ⟨t, by omega, ht2, hf⟩
      · rintro (h | ⟨t, ht1, ht2, hf⟩)
        · exact Or.inl (Or.inl (Or.inl h))
        · by_cases hts : t = steps
          · subst hts
            rcases hfix.mp hf with h | h
            · exact Or.inl (Or.inl (Or.inr h))
            · exact Or.inl (Or.inr h)
          · exact Or.inr ⟨t, by omega, ht2, hf⟩

/-- some iteration of a full run sets the flag iff the orbit has a fixed chamber -/
theorem fixAt_iff_chainFix {s : DSetData} (h : ValidSet s) {i : Nat} (hi : i + 1 ≤ s.dim) {d : Nat}
    (hd : 1 ≤ d ∧ d ≤ s.size) {k : Nat} (hk : IsLeastPeriod s i (i + 1) d k) :
    (∃ t, 0 ≤ t ∧ t < k ∧ FixAt s i d t) ↔ ChainFix s i d := by
  have hi0 : i ≤ s.dim := by omega
  constructor
  · rintro ⟨t, _, _, hf | hf⟩
    · exact ⟨_, Orb2.iter d t, Or.inl hf⟩
    · exact ⟨_, Orb2.stepI (Orb2.iter d t), Or.inr hf⟩
  · rintro ⟨z, hz, hfz⟩
    obtain ⟨t, _, ht, hx | hx⟩ := (marked_iff_orb h hi hd hk z).mpr hz
    · -- z = op i e_t
      have hr := h.comp_range hi0 hi hd.1 hd.2 t
      rcases hfz with hf | hf
      · refine ⟨t, Nat.zero_le _, ht, Or.inl ?_⟩
        rw [hx, h.invol i _ hi0 hr.1 hr.2] at hf
        exact hf.symm
      · exact ⟨t, Nat.zero_le _, ht, Or.inr (by rw [hx] at hf; exact hf)⟩
    · -- z = e_{t+1} = op (i+1) (op i e_t)
      have hr := h.comp_range hi0 hi hd.1 hd.2 t
      have hri := h.range i _ hi0 hr.1 hr.2
      have hz' : z = s.opU (i + 1) (s.opU i ((s.comp i (i + 1))^[t] d)) := by
        rw [hx, Function.iterate_succ_apply']; rfl
      rcases hfz with hf | hf
      · by_cases hlt : t + 1 < k
        · exact ⟨t + 1, Nat.zero_le _, hlt, Or.inl (by rw [← hx]; exact hf)⟩
        · have hk1 : t + 1 = k := by omega
          have hzd : z = d := by rw [hx, hk1]; exact hk.2.1
          refine ⟨0, Nat.le_refl _, hk.1, Or.inl ?_⟩
          simp only [Function.iterate_zero, id_eq]
          rw [hzd] at hf; exact hf
      · refine ⟨t, Nat.zero_le _, ht, Or.inr ?_⟩
        rw [hz', h.invol (i + 1) _ hi hri.1 hri.2] at hf
        exact hf.symm

theorem chainFix_orb {s : DSetData} (h : ValidSet s) {i : Nat} (hi : i + 1 ≤ s.dim) {d x : Nat}
    (hd : 1 ≤ d ∧ d ≤ s.size) (ho : Orb2 s i (i + 1) d x) : ChainFix s i d ↔ ChainFix s i x := by
  have hi0 : i ≤ s.dim := by omega
  constructor
  · rintro ⟨z, hz, hf⟩
    exact ⟨z, (Orb2.symm h hi0 hi hd ho).trans hz, hf⟩
  · rintro ⟨z, hz, hf⟩
    exact ⟨z, ho.trans hz, hf⟩

/-! ### the flag invariant of the two `for` loops -/

/-- flags recorded so far are right: for the chambers of the current row already seen, and for
    all chambers of the finished rows -/
structure ChainInv (s : DSetData) (i : Nat) (st : CollectState) : Prop where
  sz : st.chain.size = st.rs.size
  cur : ∀ x, 1 ≤ x → x ≤ s.size → st.seen.getD x false = true →
    (st.chain.getD ((st.index.getD i #[]).getD x 0) false = true ↔ ChainFix s i x)
  prev : ∀ i', i' < i → ∀ x, 1 ≤ x → x ≤ s.size →
    (st.chain.getD ((st.index.getD i' #[]).getD x 0) false = true ↔ ChainFix s i' x)

theorem ChainInv.step {s : DSetData} (h : ValidSet s) {i : Nat} (hi : i + 1 ≤ s.dim) {lo n : Nat}
    (hn : n < s.size) {st : CollectState} (inv : InnerInv s i lo n st) (ci : ChainInv s i st) :
    ChainInv s i (collectStep s i st n) := by
  have hi0 : i ≤ s.dim := by omega
  unfold collectStep
  simp only
  by_cases hseen : st.seen.getD (n + 1) false = true
  · rw [if_pos hseen]; exact ci
  · rw [if_neg hseen]
    have hd : 1 ≤ n + 1 ∧ n + 1 ≤ s.size := ⟨by omega, by omega⟩
    obtain ⟨k, hks, hk, _⟩ := r_generic_least h hi0 hi hd
    obtain ⟨ch', ix', seen', heq, hs1, hs2, hm, hnm⟩ :=
      collectLoop_spec h hi hd hk st.rs.size (s.size + 1) 0 false (st.index.getD i #[]) st.seen
        hk.1 (by omega) (inv.rowSize i (by omega)) inv.seenSize
    have hch := collectLoop_chain hk st.rs.size (s.size + 1) 0 false (st.index.getD i #[]) st.seen
      hk.1 (by omega)
    have heq' : collectLoop s i (n + 1) st.rs.size (s.size + 1) (n + 1) 0 false (st.index.getD i #[]) st.seen
        = (k, ch', ix', seen') := heq
    have hch' : ch' = true ↔ ChainFix s i (n + 1) := by
      have : (collectLoop s i (n + 1) st.rs.size (s.size + 1) ((s.comp i (i + 1))^[0] (n + 1)) 0 false
          (st.index.getD i #[]) st.seen).2.1 = ch' := by
        show (collectLoop s i (n + 1) st.rs.size (s.size + 1) (n + 1) 0 false
          (st.index.getD i #[]) st.seen).2.1 = ch'
        rw [heq']
      rw [← this, hch, ← fixAt_iff_chainFix h hi hd hk]
      simp
    rw [heq']
    simp only
    have hrow : (st.index.setIfInBounds i ix').getD i #[] = ix' :=
      getD_setIfInBounds_self st.index i ix' #[] (by rw [inv.indexSize]; omega)
    refine ⟨by simp [Array.size_push, ci.sz], ?_, ?_⟩
    · intro x hx1 hx2 hsx
      rw [hrow]
      by_cases hM : Marked s i (n + 1) 0 k x
      · rw [(hm x hM).1, ← ci.sz, getD_push_eq, hch']
        exact chainFix_orb h hi hd ((marked_iff_orb h hi hd hk x).mp hM)
      · have hold := hnm x hM
        rw [hold.2] at hsx
        rw [hold.1, getD_push_lt _ _ _ _ (by rw [ci.sz]; exact inv.lt x hx1 hx2 hsx)]
        exact ci.cur x hx1 hx2 hsx
    · intro i' hi' x hx1 hx2
      have hne : (st.index.setIfInBounds i ix').getD i' #[] = st.index.getD i' #[] :=
        getD_setIfInBounds_ne st.index i i' ix' #[] (by omega)
      rw [hne, getD_push_lt _ _ _ _ (by
        rw [ci.sz]; exact Nat.lt_of_lt_of_le (inv.prevLt i' hi' x hx1 hx2) inv.loLe)]
      exact ci.prev i' hi' x hx1 hx2

theorem ChainInv.fold {s : DSetData} (h : ValidSet s) {i : Nat} (hi : i + 1 ≤ s.dim) {lo : Nat}
    {st : CollectState} (inv : InnerInv s i lo 0 st) (ci : ChainInv s i st) :
    ∀ n, n ≤ s.size → ChainInv s i ((List.range n).foldl (collectStep s i) st)
  | 0, _ => ci
  | n + 1, hn => by
    rw [List.range_succ, List.foldl_append]
    exact ChainInv.step h hi (by omega) (InnerInv.fold h hi inv n (by omega))
      (ChainInv.fold h hi inv ci n (by omega))

/-- flags of all finished rows -/
def ChainOuter (s : DSetData) (i : Nat) (st : CollectState) : Prop :=
  st.chain.size = st.rs.size ∧
  ∀ i', i' < i → ∀ x, 1 ≤ x → x ≤ s.size →
    (st.chain.getD ((st.index.getD i' #[]).getD x 0) false = true ↔ ChainFix s i' x)

theorem OuterInv.inner0 {s : DSetData} {i : Nat} {st : CollectState} (inv : OuterInv s i st) :
    InnerInv s i st.rs.size 0 { st with seen := Array.replicate (s.size + 1) false } := by
  have hf : ∀ x, (Array.replicate (s.size + 1) false).getD x false = true → False := by
    intro x hx; rw [getD_replicate] at hx; cases hx
  refine ⟨by simp, inv.indexSize, inv.rowSize, ?_, ?_, ?_, ?_, ?_, inv.prev, Nat.le_refl _, ?_, ?_, inv.sep,
    fun k hk => Or.inl (inv.surj k hk)⟩
  · intro x h1 h2; omega
  · intro x y _ _ hx; exact (hf x hx).elim
  · intro x _ _ hx; exact (hf x hx).elim
  · intro x _ _ hx; exact (hf x hx).elim
  · intro x y _ _ _ _ hx; exact (hf x hx).elim
  · intro x _ _ hx; exact (hf x hx).elim
  · intro i' hi' x h1 h2; exact (inv.prev i' hi').lt x h1 h2

theorem ChainOuter.step {s : DSetData} (h : ValidSet s) {i : Nat} (hi : i + 1 ≤ s.dim)
    {st : CollectState} (inv : OuterInv s i st) (co : ChainOuter s i st) :
    ChainOuter s (i + 1) (collectRow s st i) := by
  have h0 := inv.inner0
  have hf : ∀ x, (Array.replicate (s.size + 1) false).getD x false = true → False := by
    intro x hx; rw [getD_replicate] at hx; cases hx
  have c0 : ChainInv s i { st with seen := Array.replicate (s.size + 1) false } :=
    ⟨co.1, fun x _ _ hx => (hf x hx).elim, co.2⟩
  have hfin := InnerInv.fold h hi h0 s.size (Nat.le_refl _)
  have cfin := ChainInv.fold h hi h0 c0 s.size (Nat.le_refl _)
  refine ⟨cfin.sz, fun i' hi' x hx1 hx2 => ?_⟩
  by_cases he : i' = i
  · subst he
    exact cfin.cur x hx1 hx2 (hfin.done x hx1 hx2 hx2)
  · exact cfin.prev i' (by omega) x hx1 hx2

theorem ChainOuter.fold {s : DSetData} (h : ValidSet s) :
    ∀ n, n ≤ s.dim → ChainOuter s n ((List.range n).foldl (collectRow s) (collectInit s))
  | 0, _ => ⟨rfl, fun i' hi' => by omega⟩
  | n + 1, hn => by
    rw [List.range_succ, List.foldl_append]
    exact ChainOuter.step h hn (OuterInv.fold h n (by omega)) (ChainOuter.fold h n (by omega))

/-- **`orbit_is_chain` is right**: the flag of the orbit of `x` under ⟨op i, op (i+1)⟩ says whether
    that orbit contains a chamber fixed by `op i` or `op (i+1)` -/
theorem collectOrbits_isChain {s : DSetData} (h : ValidSet s) {i : Nat} (hi : i < s.dim) {x : Nat}
    (hx1 : 1 ≤ x) (hx2 : x ≤ s.size) :
    (collectOrbits s).isChain.getD (((collectOrbits s).index.getD i #[]).getD x 0) false = true ↔
      ChainFix s i x := by
  have := ChainOuter.fold h s.dim (Nat.le_refl _)
  rw [collectOrbits_eq]
  exact this.2 i hi x hx1 hx2

end DSymVerif.DS
