/-
Helper lemmas for property C19, part 6: the vertex cut through the split graph.

With the flow invariant of the split graph at termination:
* every cut edge of the split graph is a vertex edge `(c, c+off)` or an edge `(s+off, w)`
  out of the split source (`cut_edge_form`) — so the `v.min(w)` read-back has no repeats and
  contains neither the source nor (for non-adjacent source, sink) the sink;
* walks of the split graph project to walks of the graph (`split_project`), so a separating
  vertex set `C` gives the separating edge set `{(c, c+off)}` of the split graph and the
  model's vertex cut is a minimum vertex cut;
* totality / fuel adequacy for the vertex entry points.
-/
import DSymVerif.Proofs.CutsetsFlowCut

namespace DSymVerif.CutP
open DSymVerif.Cut DSymVerif.SpecC19

/-! ### counting helpers -/

theorem countP_le_one_of_unique {α} [DecidableEq α] {l : List α} (hnd : l.Nodup) (p : α → Bool)
    (a : α) (h : ∀ e ∈ l, p e = true → e = a) : l.countP p ≤ 1 := by
  rw [List.countP_eq_length_filter]
  have : (l.filter p).length ≤ [a].length := by
    refine ((hnd.filter p).subperm ?_).length_le
    intro e he
    rw [List.mem_filter] at he
    simp [h e he.1 he.2]
  simpa using this

theorem two_le_countP {α} [DecidableEq α] {l : List α} (p : α → Bool) {a b : α}
    (ha : a ∈ l) (hb : b ∈ l) (hab : a ≠ b) (hpa : p a = true) (hpb : p b = true) :
    2 ≤ l.countP p := by
  rw [List.countP_eq_length_filter]
  have hnd : [a, b].Nodup := by simp [hab]
  have : [a, b].length ≤ (l.filter p).length := by
    refine (hnd.subperm ?_).length_le
    intro e he
    simp only [List.mem_cons, List.not_mem_nil, or_false] at he
    rcases he with he | he <;> rw [he] <;> simp [List.mem_filter, *]
  simpa using this

/-! ### the split graph -/

/-- the facts about `vertices`, `offset` and the split edge set used below -/
structure SplitOK (E : List (Nat × Nat)) (V : List Nat) (off : Nat) (E' : List (Nat × Nat)) : Prop where
  memV : ∀ e ∈ E, e.1 ∈ V ∧ e.2 ∈ V
  ltV : ∀ x ∈ V, x < off
  memE' : ∀ e, e ∈ E' ↔ ((∃ f ∈ E, e = (f.1 + off, f.2)) ∨ (∃ v ∈ V, e = (v, v + off)))

theorem splitOK (input : List (Nat × Nat)) :
    SplitOK (edgeSet input) (natSet ((edgeSet input).flatMap fun e => [e.1, e.2]))
      (offsetOf (natSet ((edgeSet input).flatMap fun e => [e.1, e.2])))
      (edgeSet (splitEdges (edgeSet input) (natSet ((edgeSet input).flatMap fun e => [e.1, e.2]))
        (offsetOf (natSet ((edgeSet input).flatMap fun e => [e.1, e.2]))))) := by
  refine ⟨?_, fun x hx => lt_offsetOf _ x hx, ?_⟩
  · intro e he
    constructor
    · exact (mem_natSet _ _).2 (List.mem_flatMap.2 ⟨e, he, by simp⟩)
    · exact (mem_natSet _ _).2 (List.mem_flatMap.2 ⟨e, he, by simp⟩)
  · intro e
    rw [mem_edgeSet, splitEdges, List.mem_append, List.mem_map, List.mem_map]
    constructor
    · rintro (⟨f, hf, rfl⟩ | ⟨v, hv, rfl⟩)
      · exact Or.inl ⟨f, hf, rfl⟩
      · exact Or.inr ⟨v, hv, rfl⟩
    · rintro (⟨f, hf, rfl⟩ | ⟨v, hv, rfl⟩)
      · exact Or.inl ⟨f, hf, rfl⟩
      · exact Or.inr ⟨v, hv, rfl⟩

section
variable {E : List (Nat × Nat)} {V : List Nat} {off : Nat} {E' : List (Nat × Nat)}

/-- an edge of the split graph that starts at an out-copy is the copy of an edge -/
theorem SplitOK.from_out (h : SplitOK E V off E') {a b : Nat} (hab : (a + off, b) ∈ E') :
    (a, b) ∈ E := by
  rcases (h.memE' _).1 hab with ⟨f, hf, he⟩ | ⟨v, hv, he⟩
  · simp only [Prod.mk.injEq] at he
    have : f = (a, b) := by
      obtain ⟨f1, f2⟩ := f
      simp only at he
      rw [Prod.mk.injEq]; omega
    rw [← this]; exact hf
  · simp only [Prod.mk.injEq] at he
    have := h.ltV v hv; omega

/-- an edge of the split graph that starts at an in-copy is the vertex edge -/
theorem SplitOK.from_in (h : SplitOK E V off E') {b c : Nat} (hb : b < off) (hbc : (b, c) ∈ E') :
    c = b + off ∧ b ∈ V := by
  rcases (h.memE' _).1 hbc with ⟨f, _, he⟩ | ⟨v, hv, he⟩
  · simp only [Prod.mk.injEq] at he; omega
  · simp only [Prod.mk.injEq] at he
    rw [he.1, he.2]; exact ⟨rfl, hv⟩

/-- an edge of the split graph that ends at an out-copy is the vertex edge -/
theorem SplitOK.into_out (h : SplitOK E V off E') {u a : Nat} (hu : (u, a + off) ∈ E') :
    u = a ∧ a ∈ V := by
  rcases (h.memE' _).1 hu with ⟨f, hf, he⟩ | ⟨v, hv, he⟩
  · simp only [Prod.mk.injEq] at he
    have := h.ltV f.2 (h.memV f hf).2; omega
  · simp only [Prod.mk.injEq] at he
    have : v = a := by omega
    rw [he.1, this]; exact ⟨rfl, this ▸ hv⟩

/-- **Walks of the split graph project to walks of the graph**; every vertex of the projection
    after the first and different from the sink had its vertex edge used. -/
theorem SplitOK.project (h : SplitOK E V off E') (t : Nat) (ht : t < off) :
    ∀ (rest : List Nat) (a : Nat), ((a + off) :: rest).getLast? = some t →
      (∀ e ∈ walkEdges ((a + off) :: rest), e ∈ E') →
      ∃ q, IsWalk E a t q ∧
        ∀ x ∈ q.tail, x ≠ t → (x, x + off) ∈ walkEdges ((a + off) :: rest)
  | [], a, hl, _ => by simp at hl; omega
  | [b], a, hl, hw => by
    have hab : (a, b) ∈ E := h.from_out (hw (a + off, b) (by simp [walkEdges]))
    simp at hl; subst hl
    refine ⟨[a, b], ⟨rfl, rfl, ?_⟩, ?_⟩
    · intro e he; simp [walkEdges] at he; rw [he]; exact hab
    · intro x hx hne; simp at hx; exact absurd hx hne
  | b :: c :: rest, a, hl, hw => by
    have hab : (a, b) ∈ E := h.from_out (hw (a + off, b) (by simp [walkEdges]))
    have hb : b < off := h.ltV b (h.memV _ hab).2
    have hbc := h.from_in hb (hw (b, c) (by simp [walkEdges]))
    obtain ⟨hc, _⟩ := hbc
    subst hc
    have hl' : ((b + off) :: rest).getLast? = some t := by
      rw [List.getLast?_cons_cons, List.getLast?_cons_cons] at hl; exact hl
    have hw' : ∀ e ∈ walkEdges ((b + off) :: rest), e ∈ E' := by
      intro e he
      exact hw e (by
        rw [walkEdges_cons_cons, walkEdges_cons_cons]
        exact List.mem_cons_of_mem _ (List.mem_cons_of_mem _ he))
    obtain ⟨q, ⟨hq1, hq2, hq3⟩, hq4⟩ := h.project t ht rest b hl' hw'
    cases q with
    | nil => simp at hq1
    | cons b' q' =>
      simp only [List.head?_cons, Option.some.injEq] at hq1
      subst hq1
      refine ⟨a :: b' :: q', ⟨rfl, ?_, ?_⟩, ?_⟩
      · rw [List.getLast?_cons_cons]; exact hq2
      · intro e he
        rw [walkEdges_cons_cons, List.mem_cons] at he
        rcases he with he | he
        · rw [he]; exact hab
        · exact hq3 e he
      · intro x hx hne
        simp only [List.tail_cons, List.mem_cons] at hx
        rw [walkEdges_cons_cons, walkEdges_cons_cons]
        rcases hx with hx | hx
        · rw [hx]; exact List.mem_cons_of_mem _ List.mem_cons_self
        · exact List.mem_cons_of_mem _ (List.mem_cons_of_mem _ (hq4 x (by simpa using hx) hne))

end

/-! ### the cut edges of the split graph -/

section
variable {E : List (Nat × Nat)} {V : List Nat} {off : Nat} {E' F : List (Nat × Nat)}
  {s t k : Nat} {S : List Nat}

/-- **Form of the cut edges.**  An edge of the split graph leaving the last `seen` set is a
    vertex edge or an edge out of the split source. -/
theorem cut_edge_form (h : SplitOK E V off E') (ht : t < off)
    (hF : FlowInv E' F (s + off) t k) (hfin : Final E' F (s + off) t S)
    (e : Nat × Nat) (he : e ∈ E') (h1 : e.1 ∈ S) (h2 : e.2 ∉ S) :
    (∃ c ∈ V, e = (c, c + off)) ∨ (∃ w, e = (s + off, w) ∧ (s, w) ∈ E) := by
  rcases (h.memE' e).1 he with ⟨f, hf, hef⟩ | ⟨v, hv, hev⟩
  · by_cases hvs : f.1 = s
    · right; exact ⟨f.2, by rw [hef, hvs], by rw [← hvs]; exact hf⟩
    · exfalso
      have heF : e ∈ F := hfin.sat e.1 e.2 he h1 h2
      have hx1 : f.1 + off ≠ s + off := by omega
      have hx2 : f.1 + off ≠ t := by omega
      have hcons := hF.cons (f.1 + off) hx1 hx2
      have he1 : e.1 = f.1 + off := by rw [hef]
      have he2 : e.2 = f.2 := by rw [hef]
      -- something flows in, and it can only be the vertex edge
      have hout : 0 < outdeg F (f.1 + off) := by
        simp only [outdeg]
        exact List.countP_pos_iff.2 ⟨e, heF, by simp [he1]⟩
      have hin : 0 < indeg F (f.1 + off) := by omega
      have hinform : ∀ g ∈ F, (g.2 == f.1 + off) = true → g = (f.1, f.1 + off) := by
        intro g hg hg2
        simp only [beq_iff_eq] at hg2
        have hgE' : (g.1, f.1 + off) ∈ E' := by rw [← hg2]; exact hF.sub g hg
        have := (h.into_out hgE').1
        obtain ⟨g1, g2⟩ := g
        simp only at this hg2
        rw [this, hg2]
      obtain ⟨g, hg, hg2⟩ := List.countP_pos_iff.1 hin
      have hgF : (f.1, f.1 + off) ∈ F := by rw [← hinform g hg hg2]; exact hg
      have hin1 : indeg F (f.1 + off) ≤ 1 :=
        countP_le_one_of_unique hF.sorted.nodup _ _ hinform
      -- so `e` is the only flow edge out of `f.1 + off`
      have hunique : ∀ g ∈ F, g.1 = f.1 + off → g = e := by
        intro g hg hg1
        by_cases hge : g = e
        · exact hge
        · have := two_le_countP (l := F) (fun e => e.1 == f.1 + off) hg heF hge
            (by simp [hg1]) (by simp [he1])
          simp only [outdeg] at hcons
          omega
      -- the tree parent of `f.1 + off`
      have hpar : f.1 + off = s + off ∨ ∃ u ∈ S, resB E' F u (f.1 + off) = true := by
        refine hfin.induct (fun y => y = s + off ∨ ∃ u ∈ S, resB E' F u y = true) (Or.inl rfl) ?_
          (f.1 + off) (he1 ▸ h1)
        intro u w hu _ _ hr
        exact Or.inr ⟨u, hu, hr⟩
      rcases hpar with hp | ⟨u, hu, hr⟩
      · exact hx1 hp
      · obtain ⟨hnF, hor⟩ := (resB_iff E' F u (f.1 + off)).1 hr
        rcases hor with hor | hor
        · have := (h.into_out hor).1
          rw [this] at hnF
          exact hnF hgF
        · have := hunique _ hor rfl
          have hu2 : u = e.2 := by rw [← this]
          exact h2 (hu2 ▸ hu)
  · left; exact ⟨v, hv, hev⟩

/-- nothing flows into the in-copy of the source -/
theorem no_flow_into_source_copy (h : SplitOK E V off E') (hst : s ≠ t) (hoff : 0 < off)
    (hs : s < off) (hF : FlowInv E' F (s + off) t k) : ∀ g ∈ F, g.2 ≠ s := by
  intro g hg hg2
  have hcons := hF.cons s (by omega) hst
  have hin : 0 < indeg F s := by
    simp only [indeg]; exact List.countP_pos_iff.2 ⟨g, hg, by simp [hg2]⟩
  have hout : 0 < outdeg F s := by omega
  obtain ⟨g', hg', hg1⟩ := List.countP_pos_iff.1 hout
  simp only [beq_iff_eq] at hg1
  have hE' : (s, g'.2) ∈ E' := by rw [← hg1]; exact hF.sub g' hg'
  have := (h.from_in hs hE').1
  exact hF.noin g' hg' this

end

/-! ### the model of `min_vertex_cut` -/

/-- unfolding of an `ok` answer -/
theorem minVertexCut_unfold (input : List (Nat × Nat)) (s t : Nat) (r : VertexCut)
    (h : minVertexCut input s t = .ok r) :
    ∃ ec : EdgeCut,
      minEdgeCut (splitEdges (edgeSet input) (natSet ((edgeSet input).flatMap fun e => [e.1, e.2]))
        (offsetOf (natSet ((edgeSet input).flatMap fun e => [e.1, e.2]))))
        (s + offsetOf (natSet ((edgeSet input).flatMap fun e => [e.1, e.2]))) t = .ok ec ∧
      r.cut = ec.cut.map (fun e => min e.1 e.2) ∧
      r.inside = ec.inside.filter (fun v =>
        decide (v < offsetOf (natSet ((edgeSet input).flatMap fun e => [e.1, e.2]))) &&
          !(ec.cut.map (fun e => min e.1 e.2)).contains v) := by
  unfold minVertexCut at h
  simp only at h
  split at h
  · rename_i ec hec
    cases h
    exact ⟨ec, hec, rfl, rfl⟩
  · cases h
  · cases h

theorem endpoint_lt_offset (input : List (Nat × Nat)) (x : Nat)
    (hx : ∃ e ∈ input, e.1 = x ∨ e.2 = x) :
    x < offsetOf (natSet ((edgeSet input).flatMap fun e => [e.1, e.2])) := by
  obtain ⟨e, he, hex⟩ := hx
  have := (splitOK input).memV e ((mem_edgeSet e input).2 he)
  rcases hex with hex | hex
  · rw [← hex]; exact (splitOK input).ltV _ this.1
  · rw [← hex]; exact (splitOK input).ltV _ this.2

/-- **Vertex-cut hygiene**: no repeats, neither source nor sink — for every graph in which the
    sink is an endpoint of an edge and there is no edge source → sink. -/
theorem minVertexCut_hygiene (input : List (Nat × Nat)) (s t : Nat) (r : VertexCut)
    (h : minVertexCut input s t = .ok r) (hst : s ≠ t)
    (htE : ∃ e ∈ input, e.1 = t ∨ e.2 = t) (hadj : (s, t) ∉ input) :
    r.cut.Nodup ∧ s ∉ r.cut ∧ t ∉ r.cut := by
  obtain ⟨ec, hec, hcutV, _⟩ := minVertexCut_unfold input s t r h
  have hsp := splitOK input
  have htlt := endpoint_lt_offset input t htE
  generalize hoffdef : offsetOf (natSet ((edgeSet input).flatMap fun e => [e.1, e.2])) = off
    at hec hsp htlt
  generalize hVdef : natSet ((edgeSet input).flatMap fun e => [e.1, e.2]) = V at hec hsp
  have hne : s + off ≠ t := by omega
  obtain ⟨k, hF, hfin, hcut⟩ := minEdgeCut_final _ _ _ ec hec hne
  have hform : ∀ e ∈ ec.cut, (∃ c ∈ V, e = (c, c + off)) ∨ (∃ w, e = (s + off, w) ∧ (s, w) ∈ edgeSet input) := by
    intro e he
    rw [hcut, mem_leaving] at he
    exact cut_edge_form hsp htlt hF hfin e he.1 he.2.1 he.2.2
  have hmin1 : ∀ c, min c (c + off) = c := fun c => by omega
  have hwlt : ∀ w, (s, w) ∈ edgeSet input → w < off := fun w hw => hsp.ltV w (hsp.memV _ hw).2
  have hmin2 : ∀ w, (s, w) ∈ edgeSet input → min (s + off) w = w := fun w hw => by
    have := hwlt w hw; omega
  have hcutmem : ∀ e ∈ ec.cut, e.1 ∈ ec.inside ∧ e.2 ∉ ec.inside := by
    intro e he; rw [hcut, mem_leaving] at he; exact he.2
  rw [hcutV]
  refine ⟨?_, ?_, ?_⟩
  · refine List.Nodup.map_on ?_ (minEdgeCut_nodup _ _ _ ec hec).1
    intro e he e' he' hmin
    rcases hform e he with ⟨c, _, rfl⟩ | ⟨w, rfl, hw⟩ <;>
      rcases hform e' he' with ⟨c', _, rfl⟩ | ⟨w', rfl, hw'⟩
    · simp only [hmin1] at hmin; rw [hmin]
    · exfalso
      simp only [hmin1, hmin2 w' hw'] at hmin
      have a := (hcutmem _ he).1
      have b := (hcutmem _ he').2
      simp only at a b
      rw [hmin] at a; exact b a
    · exfalso
      simp only [hmin1, hmin2 w hw] at hmin
      have a := (hcutmem _ he).2
      have b := (hcutmem _ he').1
      simp only at a b
      rw [hmin] at a; exact a b
    · simp only [hmin2 w hw, hmin2 w' hw'] at hmin; rw [hmin]
  · intro hs
    obtain ⟨e, he, hmin⟩ := List.mem_map.1 hs
    rcases hform e he with ⟨c, _, rfl⟩ | ⟨w, rfl, hw⟩
    · simp only [hmin1] at hmin
      have := (hcutmem _ he).2
      simp only at this
      rw [hmin] at this
      exact this hfin.s_in
    · simp only [hmin2 w hw] at hmin
      subst hmin
      have hslt := hwlt w hw
      have heF : (w + off, w) ∈ ec.flow := by
        have := hcutmem _ he
        rw [hcut, mem_leaving] at he
        exact hfin.sat _ _ he.1 this.1 this.2
      exact no_flow_into_source_copy hsp hst (by omega) hslt hF _ heF rfl
  · intro ht
    obtain ⟨e, he, hmin⟩ := List.mem_map.1 ht
    rcases hform e he with ⟨c, _, rfl⟩ | ⟨w, rfl, hw⟩
    · simp only [hmin1] at hmin
      have := (hcutmem _ he).1
      simp only at this
      rw [hmin] at this
      exact hfin.t_out this
    · simp only [hmin2 w hw] at hmin
      subst hmin
      exact hadj ((mem_edgeSet _ input).1 hw)

/-- **The model's vertex cut is a minimum vertex cut, for every graph**: every vertex set that
    avoids source and sink and meets all walks from the source to the sink is at least as
    large. -/
theorem minVertexCut_minimum (input : List (Nat × Nat)) (s t : Nat) (r : VertexCut)
    (h : minVertexCut input s t = .ok r) (hst : s ≠ t)
    (htE : ∃ e ∈ input, e.1 = t ∨ e.2 = t)
    (C : List Nat) (hsC : s ∉ C) (htC : t ∉ C)
    (hsep : ∀ p, IsWalk input s t p → ∃ x ∈ p, x ∈ C) :
    r.cut.length ≤ C.length := by
  obtain ⟨ec, hec, hcutV, _⟩ := minVertexCut_unfold input s t r h
  have hsp := splitOK input
  have htlt := endpoint_lt_offset input t htE
  generalize hoffdef : offsetOf (natSet ((edgeSet input).flatMap fun e => [e.1, e.2])) = off
    at hec hsp htlt
  generalize hVdef : natSet ((edgeSet input).flatMap fun e => [e.1, e.2]) = V at hec hsp
  have hne : s + off ≠ t := by omega
  have hmin := (minEdgeCut_minimum _ _ _ ec hec hne (C.map (fun c => (c, c + off))) (by
    intro p' hp'
    have hp'' : IsWalk (edgeSet (splitEdges (edgeSet input) V off)) (s + off) t p' :=
      hp'.mono (fun e _ he => (mem_edgeSet e _).2 he)
    obtain ⟨h1, h2, h3⟩ := hp''
    cases p' with
    | nil => simp at h1
    | cons a' rest =>
      simp only [List.head?_cons, Option.some.injEq] at h1
      subst h1
      obtain ⟨q, hq, hq4⟩ := hsp.project t htlt rest s h2 h3
      obtain ⟨x, hx, hxC⟩ := hsep q (hq.mono (fun e _ he => (mem_edgeSet e input).1 he))
      have hxs : x ≠ s := fun hh => hsC (hh ▸ hxC)
      have hxt : x ≠ t := fun hh => htC (hh ▸ hxC)
      have hxtail : x ∈ q.tail := by
        cases q with
        | nil => simp at hx
        | cons a q' =>
          have : a = s := by simpa using hq.1
          subst this
          rcases List.mem_cons.1 hx with hx | hx
          · exact absurd hx hxs
          · simpa using hx
      exact ⟨(x, x + off), hq4 x hxtail hxt, List.mem_map.2 ⟨x, hxC, rfl⟩⟩)).1
  rw [hcutV]
  simpa using hmin

/-! ### totality / fuel adequacy of the vertex entry point -/

theorem minVertexCut_total (input : List (Nat × Nat)) (s t : Nat)
    (hsE : ∃ e ∈ input, e.1 = s ∨ e.2 = s) :
    ∃ r, minVertexCut input s t = .ok r := by
  have hsp := splitOK input
  have hsV : s ∈ natSet ((edgeSet input).flatMap fun e => [e.1, e.2]) := by
    obtain ⟨e, he, hes⟩ := hsE
    have := hsp.memV e ((mem_edgeSet e input).2 he)
    rcases hes with hes | hes
    · rw [← hes]; exact this.1
    · rw [← hes]; exact this.2
  obtain ⟨ec, hec⟩ := (minEdgeCut_total
    (splitEdges (edgeSet input) (natSet ((edgeSet input).flatMap fun e => [e.1, e.2]))
      (offsetOf (natSet ((edgeSet input).flatMap fun e => [e.1, e.2]))))
    (s + offsetOf (natSet ((edgeSet input).flatMap fun e => [e.1, e.2]))) t).2
    ⟨(s, s + offsetOf (natSet ((edgeSet input).flatMap fun e => [e.1, e.2]))),
      List.mem_append.2 (Or.inr (List.mem_map.2 ⟨s, hsV, rfl⟩)), Or.inr rfl⟩
  unfold minVertexCut
  simp only
  rw [hec]
  exact ⟨_, rfl⟩

end DSymVerif.CutP

