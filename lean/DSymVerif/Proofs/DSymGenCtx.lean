/-
Lemmas about the model of the D-symbol generator, part 3: every context built by
`DSymBackTracking::new` (`mkCtx`) is well formed — `orbit_is_chain` and `orbit_vmins` have the
same length (both are as long as `orbit_rs`), every minimal branching number taken from the
`compute_vmins` rules lies in 1..7, and `base_curvature` is the closed form `scaled` of the
all-minimal vector.  Together with part 2 this shows that the generator never panics in
`children` and that its curvature bookkeeping is the closed form in every reachable state.
-/
import DSymVerif.Proofs.DSymGenInv
import DSymVerif.Proofs.DSetCollect

namespace DSymVerif.SymGen
open DSymVerif.DS

/-! ### `compute_vmins` -/

/-- every value the rules can produce lies in 1..genVMax (checked on the generated tables) -/
theorem vminTable_range :
    (Tables.vminRules.all fun p => decide (1 ≤ p.2 ∧ p.2 ≤ Tables.genVMax)) = true ∧
    1 ≤ Tables.vminDefault ∧ Tables.vminDefault ≤ Tables.genVMax := by decide

theorem vminOf_range (r : Nat) : 1 ≤ vminOf r ∧ vminOf r ≤ Tables.genVMax := by
  unfold vminOf
  split
  · rename_i p hp
    have hm := List.mem_of_find?_eq_some hp
    have := List.all_eq_true.mp vminTable_range.1 p hm
    simpa using this
  · exact vminTable_range.2

theorem computeVmins_getD (rs : List Nat) (i : Nat) (hi : i < (computeVmins rs).length) :
    1 ≤ (computeVmins rs).getD i 0 ∧ (computeVmins rs).getD i 0 ≤ Tables.genVMax := by
  unfold computeVmins at hi ⊢
  have hi' : i < rs.length := by simpa using hi
  have : (rs.map vminOf).getD i 0 = vminOf (rs.getD i 0) := by
    simp [List.getD, List.getElem?_map, List.getElem?_eq_getElem hi']
  rw [this]
  exact vminOf_range _

/-! ### `collect_orbits` returns tables of equal length -/

theorem foldl_inv {α β : Type} (P : β → Prop) (f : β → α → β) (hf : ∀ b a, P b → P (f b a)) :
    ∀ (l : List α) (b : β), P b → P (l.foldl f b) := by
  intro l
  induction l with
  | nil => intro b hb; exact hb
  | cons a t ih => intro b hb; exact ih _ (hf b a hb)

theorem collectStep_sizes (ds : DSetData) (i : Nat) (st : CollectState) (d0 : Nat)
    (h : st.rs.size = st.chain.size) :
    (collectStep ds i st d0).rs.size = (collectStep ds i st d0).chain.size := by
  unfold collectStep
  simp only
  split
  · exact h
  · simp [Array.size_push, h]

theorem collectOrbits_sizes (ds : DSetData) :
    (collectOrbits ds).rs.size = (collectOrbits ds).isChain.size := by
  rw [collectOrbits_eq]
  show (collectFinal ds).rs.size = (collectFinal ds).chain.size
  unfold collectFinal
  apply foldl_inv (fun st : CollectState => st.rs.size = st.chain.size)
  · intro st i h
    unfold collectRow
    apply foldl_inv (fun st : CollectState => st.rs.size = st.chain.size)
    · intro st' d0 h'
      exact collectStep_sizes ds i st' d0 h'
    · exact h
  · rfl

/-! ### `base_curvature` -/

theorem baseLoop_eq (vmins : List Nat) (isChain : List Bool) (hlen : isChain.length = vmins.length)
    (hpos : ∀ i, i < vmins.length → vmins.getD i 0 ≠ 0) :
    ∀ (l : List Nat), (∀ i, i ∈ l → i < vmins.length) → ∀ b : Int,
      baseLoop vmins isChain l b =
        .ok (b + (l.map fun i => Int.tdiv (kOf (isChain.getD i false) * curvFac) (vmins.getD i 0 : Int)).sum) := by
  intro l
  induction l with
  | nil => intro _ b; simp [baseLoop]
  | cons i is ih =>
    intro hmem b
    have hi : i < vmins.length := hmem i (by simp)
    have h1 : isChain[i]? = some (isChain.getD i false) := getElem?_of_lt _ _ _ (by omega)
    have h2 : vmins[i]? = some (vmins.getD i 0) := getElem?_of_lt _ _ _ hi
    have h0 : ((vmins.getD i 0 : Nat) : Int) ≠ 0 := by have := hpos i hi; omega
    simp only [baseLoop, h1, h2, idiv_of_ne h0]
    rw [ih (fun j hj => hmem j (by simp [hj]))]
    simp only [List.map_cons, List.sum_cons]
    rw [Int.mul_comm curvFac]
    congr 1
    omega

/-! ### `mkCtx` -/

theorem mkCtx_fields {ds : DSetData} {g : Geom} {c : Ctx} (h : mkCtx ds g = .ok c) :
    c.dset = ds ∧ c.rs = (collectOrbits ds).rs.toList ∧ c.isChain = (collectOrbits ds).isChain.toList ∧
    c.vmins = computeVmins (collectOrbits ds).rs.toList ∧ c.orbitIndex = (collectOrbits ds).index ∧
    baseCurvature ds.size c.vmins c.isChain = .ok c.baseCurv ∧
    c.minCurv = max g.minCurvature (if c.baseCurv < 0 then c.baseCurv else Tables.minHypCutoff) ∧
    c.maxCurv = g.maxCurvature ∧
    (c.baseCurv < 0 → c.maps = none) ∧
    (¬ c.baseCurv < 0 → ∃ ms, c.maps = some ms ∧
      orbitMaps ds c.vmins.length (collectOrbits ds).index = .ok ms) := by
  unfold mkCtx at h
  simp only at h
  split at h
  · rename_i base hb
    split at h
    · rename_i hge
      split at h
      · rename_i ms hms
        cases h
        refine ⟨rfl, rfl, rfl, rfl, rfl, hb, rfl, rfl, ?_, ?_⟩
        · intro hlt; simp only at hlt; omega
        · intro _; exact ⟨ms, rfl, hms⟩
      · cases h
      · cases h
    · rename_i hlt
      cases h
      refine ⟨rfl, rfl, rfl, rfl, rfl, hb, rfl, rfl, fun _ => rfl, ?_⟩
      intro hn; simp only at hn; omega
  · cases h
  · cases h

/-- **every context built by `new` is well formed** -/
theorem mkCtx_wf {ds : DSetData} {g : Geom} {c : Ctx} (h : mkCtx ds g = .ok c) : WF c := by
  obtain ⟨hds, _, hch, hvm, _, hbase, _⟩ := mkCtx_fields h
  have hcount : c.count = (collectOrbits ds).rs.size := by
    unfold Ctx.count
    rw [hvm]
    simp [computeVmins]
  have hchain : c.isChain.length = c.count := by
    rw [hcount, hch, collectOrbits_sizes]
    simp
  have hrange : ∀ i, i < c.count → 1 ≤ c.vmins.getD i 0 ∧ c.vmins.getD i 0 ≤ Tables.genVMax := by
    intro i hi
    unfold Ctx.count at hi
    rw [hvm] at hi ⊢
    exact computeVmins_getD _ i hi
  refine ⟨hchain, fun i hi => (hrange i hi).1, fun i hi => (hrange i hi).2, ?_⟩
  unfold baseCurvature at hbase
  rw [baseLoop_eq c.vmins c.isChain hchain (fun i hi => by have := (hrange i hi).1; omega) _
    (fun i hi => List.mem_range.mp hi)] at hbase
  have hb := Outcome.ok.inj hbase
  rw [← hb]
  unfold scaled termZ kAt Ctx.count
  rw [hds]

end DSymVerif.SymGen
