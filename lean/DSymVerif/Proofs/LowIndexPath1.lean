/-
C12 completeness, part 2: the deduction loop of `derived_table` inside a target table.
-/
import DSymVerif.Proofs.LowIndexPath0

namespace DSymVerif.CanonP
open DSymVerif DSymVerif.Cosets DSymVerif.LowIndexP DSymVerif.CosetInvP DSymVerif.CosetPartP

/-- a join of an entry of the target keeps the table inside the target -/
theorem join_sub {maxRows n : Nat} {R : List (List Int)} {P P' T : Table} (tg : Target maxRows n R T)
    (hs : Sub P T) (hcl : Clean P) {c d : Nat} {g : Int} (hg : g ∈ P.allGens)
    (hj : P.join c d g = .ok P') (hT : T.get c g = .ok (some d)) (hc : c < T.len) (hd : d < T.len) :
    Sub P' T := by
  have hcanT : ∀ x, T.canon x = x := canon_clean tg.clean
  have hcan : ∀ x, P.canon x = x := canon_clean hcl
  obtain ⟨a, _, _⟩ := join_ok hj
  refine ⟨by rw [hs.1, a], ?_, ?_⟩
  · rw [join_len hj]; have := hs.2.1; omega
  · intro x y z hy hget
    have hy' : y ∈ P.allGens := by
      unfold Table.allGens at hy ⊢; rw [← a]; exact hy
    rcases join_get_cases hj hg (hcan c) (hcan d) x y z hy' hget with ⟨rfl, rfl, rfl⟩ | ⟨rfl, rfl, rfl⟩ | h
    · exact hT
    · exact invCan_of_tcq tg.tcq (by rw [hs.allGens]; exact hg) (hcanT _) hT
    · exact hs.2.2 x y z hy' h

theorem derivedRels_in {maxRows n : Nat} {R : List (List Int)} {T : Table} (tg : Target maxRows n R T)
    (h : Nat) : ∀ (us : List (List Int)) (t : Table) (q : List Nat),
    (∀ u ∈ us, u ∈ R) → TCq t [] → Clean t → h < t.len → (∀ u ∈ us, WordOK t u) → Sub t T →
    derivedRels h us t q ≠ .ok none ∧
      ∀ t' q', derivedRels h us t q = .ok (some (t', q')) → Sub t' T
  | [], t, q, _, _, _, _, _, hs => by
    simp only [derivedRels]
    refine ⟨by simp, ?_⟩
    intro t' q' e
    simp only [Outcome.ok.injEq, Option.some.injEq, Prod.mk.injEq] at e
    rw [← e.1]; exact hs
  | u :: us, t, q, hR, inv, hcl, hl, hwu, hs => by
    simp only [derivedRels]
    have hcan : ∀ x, t.canon x = x := canon_clean hcl
    have hu : WordOK t u := hwu u (by simp)
    obtain ⟨⟨head, tail, gap, c⟩, hsc⟩ := scanBothWays_total inv.shape hu hl
    rw [hsc]
    simp only []
    obtain ⟨i1, i0⟩ := scan_in_target tg hs (hR u (by simp)) hu hl hsc
    obtain ⟨b1, b2, b3, b4, b5⟩ := scanBothWays_rows inv.shape hu (hcan h) hl hsc
    by_cases hg1 : gap = 1
    · subst hg1
      simp only [if_true]
      obtain ⟨f1, f2⟩ := scanBothWays_gap_one hsc
      obtain ⟨t1, hj⟩ := join_succeeds inv.shape.width head tail (b5 rfl)
      rw [hj]
      simp only []
      obtain ⟨j1, j2, _⟩ := join_tcq inv hj (b5 rfl) b1 b2 b3 (Or.inl b4) f1 f2
      have e1 : Ext2 t t1 := join_ext2 hj f1 f2
      have hlen1 : t1.len = t.len := by rw [join_len hj]; omega
      have hsl := hs.2.1
      have hs1 : Sub t1 T := join_sub tg hs hcl (b5 rfl) hj (i1 rfl) (by omega) (by omega)
      exact derivedRels_in tg h us t1 (q ++ [head]) (fun u' hu' => hR u' (by simp [hu'])) j1
        (e1.clean hcl) (by omega)
        (fun u' hu' x hx => by rw [e1.allGens]; exact hwu u' (by simp [hu']) x hx) hs1
    · simp only [hg1, if_false]
      by_cases hm : gap = 0 ∧ head ≠ tail
      · exact absurd (i0 hm.1) hm.2
      · simp only [hm, if_false]
        exact derivedRels_in tg h us t q (fun u' hu' => hR u' (by simp [hu'])) inv hcl hl
          (fun u' hu' => hwu u' (by simp [hu'])) hs

theorem derivedLoop_in {maxRows n : Nat} {R : List (List Int)} {T : Table} (tg : Target maxRows n R T) :
    ∀ (fuel : Nat) (t : Table) (q : List Nat),
    TCq t [] → Clean t → (∀ u ∈ R, WordOK t u) → (∀ x ∈ q, x < t.len) → Sub t T →
    derivedLoop R fuel t q ≠ .ok none ∧ ∀ t', derivedLoop R fuel t q = .ok (some t') → Sub t' T := by
  intro fuel
  induction fuel with
  | zero =>
    intro t q _ _ _ _ hs
    cases q with
    | nil =>
      simp only [derivedLoop]
      refine ⟨by simp, ?_⟩
      intro t' e
      simp only [Outcome.ok.injEq, Option.some.injEq] at e
      rw [← e]; exact hs
    | cons x q => simp [derivedLoop]
  | succ f ih =>
    intro t q inv hcl hwR hq hs
    cases q with
    | nil =>
      simp only [derivedLoop]
      refine ⟨by simp, ?_⟩
      intro t' e
      simp only [Outcome.ok.injEq, Option.some.injEq] at e
      rw [← e]; exact hs
    | cons h q =>
      simp only [derivedLoop]
      have hl : h < t.len := hq h (by simp)
      obtain ⟨hne, hin⟩ := derivedRels_in tg h R t q (fun u hu => hu) inv hcl hl hwR hs
      rcases derivedRels_total h R t q inv hcl hl hwR with hn | ⟨t1, q1, hr, _⟩
      · exact absurd hn hne
      · rw [hr]
        simp only []
        obtain ⟨a1, a2, a3, a4, a5⟩ := derivedRels_tcq h R t q t1 q1 inv hcl hl hwR
          (fun x hx => hq x (by simp [hx])) hr
        exact ih t1 q1 a1 a2 (fun u hu x hx => by rw [a3.allGens]; exact hwR u hu x hx) a5 (hin t1 q1 hr)

/-- the child that defines the first free slot the way the target does exists and stays
    inside the target -/
theorem derivedTable_in {maxRows n : Nat} {rels R : List (List Int)} {T : Table}
    (tg : Target maxRows n R T) (hwR : ∀ u ∈ R, ∀ x ∈ u, x ∈ allGensOf n)
    {t : Table} (s : SInv maxRows n rels t) (hs : Sub t T) {frm dst : Nat}
    {g : Int} (hg : g ∈ t.allGens) (hf : frm < t.len) (hd : dst < t.len ∨ (dst = t.len ∧ frm < dst))
    (hfree : t.get frm g = .ok none) (hT : T.get frm g = .ok (some dst)) (hdT : dst < T.len) :
    ∃ t', derivedTable t R frm dst g = .ok (some t') ∧ Sub t' T := by
  have hcan : ∀ x, t.canon x = x := canon_clean s.clean
  have hcanT : ∀ x, T.canon x = x := canon_clean tg.clean
  have hgT : g ∈ T.allGens := by rw [hs.allGens]; exact hg
  obtain ⟨r, hr⟩ := derivedTable_total hwR s hg hf hd (R := R)
  have key : derivedTable t R frm dst g ≠ .ok none ∧
      ∀ t', derivedTable t R frm dst g = .ok (some t') → Sub t' T := by
    unfold derivedTable
    rw [hfree]
    simp only []
    have h2t : t.get dst (-g) = .ok none := by
      rcases get_total' s.tcq.shape dst (neg_mem_allGensOf hg) with h2 | ⟨x, h2⟩
      · exact h2
      · exfalso
        have hx := hs.2.2 dst (-g) x (neg_mem_allGensOf hg) h2
        rw [invCan_of_tcq tg.tcq hgT (hcanT frm) hT] at hx
        simp only [Outcome.ok.injEq, Option.some.injEq] at hx
        subst hx
        have := invCan_of_tcq s.tcq (neg_mem_allGensOf hg) (hcan dst) h2
        rw [Int.neg_neg, hfree] at this
        cases this
    rw [h2t]
    simp only []
    obtain ⟨t1, hj⟩ := join_succeeds s.tcq.shape.width frm dst hg
    rw [hj]
    simp only []
    obtain ⟨j1, j2, _⟩ := join_tcq s.tcq hj hg (hcan frm) hf (hcan dst) hd hfree h2t
    have e1 : Ext2 t t1 := join_ext2 hj hfree h2t
    have hg1 : t1.allGens = allGensOf n := by rw [e1.allGens, s.allGens]
    have hsl := hs.2.1
    have hs1 : Sub t1 T := join_sub tg hs s.clean hg hj hT (by omega) hdT
    exact derivedLoop_in tg _ t1 [frm] j1 (e1.clean s.clean)
      (fun u hu x hx => by rw [hg1]; exact hwR u hu x hx)
      (fun x hx => by simp at hx; subst hx; have := j2.2.1; omega) hs1
  cases r with
  | none => exact absurd hr key.1
  | some t' => exact ⟨t', hr, key.2 t' hr⟩

end DSymVerif.CanonP
