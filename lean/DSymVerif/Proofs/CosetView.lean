/-
C11: the view of the table returned by the modelled `coset_table` is the Spec table of its
entries (`get` ↔ `entry`), for users of the table (C05 covers, C13).
-/
import DSymVerif.Proofs.CosetValid

namespace DSymVerif.CosetInvP
open DSymVerif DSymVerif.Cosets DSymVerif.LowIndexP DSymVerif.CosetPartP DSymVerif.SpecC11

/-- the view of a table all of whose entries are defined and in range: the Spec table of its
    entries -/
theorem view_of_complete {t : Table} {n : Nat} (hn : t.nrGens = n)
    (hdef : ∀ j, j < t.len → ∀ g ∈ allGensOf n, ∃ e, t.get j g = .ok (some e) ∧ e < t.len) :
    ∃ v, t.view = .ok v ∧ (viewTab v).size = t.len ∧
      ∀ j, j < t.len → ∀ g ∈ allGensOf n, ∃ d, t.get j g = .ok (some d) ∧ entry (viewTab v) n j g = some d := by
  have hag : t.allGens = allGensOf n := by unfold Table.allGens; rw [hn]
  let E : Nat → Int → Nat := fun j g => match t.get j g with
    | .ok (some e) => e
    | _ => 0
  have hE : ∀ j, j < t.len → ∀ g ∈ allGensOf n, t.get j g = .ok (some (E j g)) ∧ E j g < t.len := by
    intro j hj g hg
    obtain ⟨e, he, hem⟩ := hdef j hj g hg
    have : E j g = e := by simp only [E, he]
    rw [this]; exact ⟨he, hem⟩
  have hview : t.view = .ok ((List.range t.len).map fun j => (allGensOf n).map fun g => ((E j g : Nat) : Int)) := by
    unfold Table.view
    rw [← hag]
    apply viewRows_ok t E
    intro j hj g hg
    rw [hag] at hg
    exact (hE j (List.mem_range.mp hj) g hg).1
  refine ⟨_, hview, by simp [viewTab], ?_⟩
  intro j hj g hg
  exact ⟨E j g, (hE j hj g hg).1, entry_viewTab E (fun j hj g hg => (hE j hj g hg).2) hj hg⟩

/-- `compact()` of a complete table without pending coincidences is complete, with entries in
    range -/
theorem compact_complete {T t : Table} (inv : TCq T []) (hcomp : AllComplete T) (h : T.compact = .ok t) :
    t.nrGens = T.nrGens ∧
      ∀ j, j < t.len → ∀ g ∈ T.allGens, ∃ e, t.get j g = .ok (some e) ∧ e < t.len := by
  obtain ⟨o2n, m, num, h0, c1, c2, c3, c4, c5⟩ := compact_spec inv hcomp h
  refine ⟨c1, ?_⟩
  intro j hj g hg
  rw [c4] at hj ⊢
  obtain ⟨k, hk⟩ := num.surj j hj
  have hkl : k < T.len := by
    by_contra hx
    rw [Array.getElem?_eq_none (by rw [num.size]; omega)] at hk; cases hk
  have hkc : T.canon k = k := (num.sound k j hk).1
  obtain ⟨c, hc⟩ := (get_some_iff T k g).mpr (hcomp k hkl hkc g hg)
  have hcc := get_canon inv.shape hc
  have hcl := inv.shape.range k g c hg hc
  obtain ⟨jc, hjc⟩ := num.total c hcl
  rw [hcc] at hjc
  exact ⟨jc, c5 k g c j jc hg hkc hkl hc hk hjc, (num.sound c jc hjc).2⟩

/-- the table returned by the modelled `coset_table`: valid view, and the view is the Spec
    table of its entries -/
theorem cosetTable_view {n : Nat} {rels subs : List (List Int)} {t : Table}
    (hr : ∀ w ∈ rels, ∀ x ∈ w, x ∈ allGensOf n) (hs : ∀ w ∈ subs, ∀ x ∈ w, x ∈ allGensOf n)
    (h : cosetTable n rels subs = .ok t) :
    ∃ v, t.view = .ok v ∧ CosetP.Valid (viewTab v) n rels subs ∧ (viewTab v).size = t.len ∧
      t.nrGens = n ∧
      ∀ j, j < t.len → ∀ g ∈ allGensOf n, ∃ d, t.get j g = .ok (some d) ∧ entry (viewTab v) n j g = some d := by
  obtain ⟨v, hv, hval⟩ := cosetTable_valid hr hs h
  unfold cosetTable at h
  cases hraw : cosetTableRaw n rels subs with
  | ok T =>
    simp only [hraw] at h
    obtain ⟨inv, hcomp, _, hn⟩ := cosetTableRaw_final hr hs hraw
    have hgens : T.allGens = allGensOf n := by unfold Table.allGens; rw [hn]
    obtain ⟨c1, hdef⟩ := compact_complete inv hcomp h
    have hnt : t.nrGens = n := by rw [c1, hn]
    obtain ⟨v', hv', hsz, hent⟩ := view_of_complete hnt (fun j hj g hg => hdef j hj g (by rw [hgens]; exact hg))
    rw [hv] at hv'
    injection hv' with hv'
    subst hv'
    exact ⟨v, hv, hval, hsz, hnt, hent⟩
  | err => simp [hraw] at h
  | panic => simp [hraw] at h

end DSymVerif.CosetInvP
