/-
C12: an explicit fuel that exhausts the search tree of `coset_tables` (`searchFuel`): branching
≤ max k 1, height ≤ k·2n + 1; hence every C12 theorem holds without a fuel hypothesis.
-/
import DSymVerif.Proofs.LowIndexClasses

namespace DSymVerif.CanonP
open DSymVerif DSymVerif.Cosets DSymVerif.SpecC11 DSymVerif.SpecC12 DSymVerif.CosetP DSymVerif.RebaseP
open DSymVerif.CosetSoundP DSymVerif.CosetInvP DSymVerif.LowIndexP

theorem length_flatMap_le' {β γ : Type} (l : List β) (f : β → List γ) (m : Nat)
    (h : ∀ x, x ∈ l → (f x).length ≤ m) : (l.flatMap f).length ≤ l.length * m := by
  induction l with
  | nil => simp
  | cons a t ih =>
    simp only [List.flatMap_cons, List.length_append, List.length_cons]
    have h1 := h a (by simp)
    have h2 := ih (fun x hx => h x (by simp [hx]))
    rw [Nat.succ_mul]
    omega

/-- a tree with at most `b` children per node and height function `h` has at most
    `(b+1)^n` nodes below a node of height `≤ n` -/
theorem bt_dfs_length_le {σ α : Type} (p : BT.Problem σ α) (h : σ → Nat) (hd : BT.Decreasing p h) (b : Nat)
    (hb : ∀ s, (p.children s).length ≤ b) :
    ∀ (n : Nat) (s : σ), h s ≤ n → (BT.dfs p h s).length ≤ (b + 1) ^ n := by
  intro n
  induction n with
  | zero =>
    intro s hs
    rw [BT.dfs_unfold p h hd s]
    have : p.children s = [] := by
      cases hc : p.children s with
      | nil => rfl
      | cons c t =>
        have := hd s c (by rw [hc]; simp)
        omega
    simp [this]
  | succ n ih =>
    intro s hs
    rw [BT.dfs_unfold p h hd s]
    simp only [List.length_cons]
    have h1 := length_flatMap_le' (p.children s) (BT.dfs p h) ((b + 1) ^ n) (fun c hc => by
      have := hd s c hc
      exact ih c (by omega))
    have h2 : (p.children s).length * (b + 1) ^ n ≤ b * (b + 1) ^ n :=
      Nat.mul_le_mul_right _ (hb s)
    have h3 : 0 < (b + 1) ^ n := Nat.pow_pos (by omega)
    have h4 : (b + 1) ^ (n + 1) = b * (b + 1) ^ n + (b + 1) ^ n := by
      rw [Nat.pow_succ, Nat.mul_comm, Nat.add_mul, Nat.one_mul]
    omega

theorem childrenFrom_length (t : Table) (rels : List (List Int)) (k : Nat) (g : Int) :
    ∀ (ps : List Nat) (l : List Table), childrenFrom t rels k g ps = .ok l → l.length ≤ ps.length
  | [], l, h => by
    simp only [childrenFrom, Outcome.ok.injEq] at h
    subst h; simp
  | p :: ps, l, h => by
    simp only [childrenFrom] at h
    cases hd : derivedTable t rels k p g with
    | ok r =>
      simp only [hd] at h
      cases hc : childrenFrom t rels k g ps with
      | ok rest =>
        simp only [hc, Outcome.ok.injEq] at h
        subst h
        have := childrenFrom_length t rels k g ps rest hc
        cases r <;> simp <;> omega
      | err => simp [hc] at h
      | panic => simp [hc] at h
    | err => simp [hd] at h
    | panic => simp [hd] at h

theorem potentialChildren_length {t : Table} {rels : List (List Int)} {maxRows : Nat} {l : List Table}
    (h : potentialChildren t rels maxRows = .ok l) : l.length ≤ maxRows := by
  unfold potentialChildren at h
  cases hf : firstFreeInTable t with
  | ok o =>
    cases o with
    | none =>
      simp only [hf, Outcome.ok.injEq] at h
      subst h; simp
    | some p =>
      obtain ⟨k, g⟩ := p
      simp only [hf] at h
      have := childrenFrom_length t rels k g _ l h
      simp only [List.length_range'] at this
      omega
  | err => simp [hf] at h
  | panic => simp [hf] at h

theorem filterCanonical_length : ∀ (ts l : List Table), filterCanonical ts = .ok l → l.length ≤ ts.length
  | [], l, h => by
    simp only [filterCanonical, Outcome.ok.injEq] at h
    subst h; simp
  | t :: ts, l, h => by
    simp only [filterCanonical] at h
    cases hc : isCanonical t with
    | ok b =>
      cases hr : filterCanonical ts with
      | ok rest =>
        simp only [hc, hr, Outcome.ok.injEq] at h
        subst h
        have := filterCanonical_length ts rest hr
        by_cases hb : b = true <;> simp [hb] <;> omega
      | err => simp [hc, hr] at h
      | panic => simp [hc, hr] at h
    | err => cases hr : filterCanonical ts <;> simp [hc, hr] at h
    | panic => simp [hc] at h

/-- every node of the search tree has at most `max maxRows 1` children -/
theorem btChildren_length (rels : List (List Int)) (maxRows : Nat) (s : Outcome Table) :
    (btChildren rels maxRows s).length ≤ max maxRows 1 := by
  cases s with
  | ok t =>
    simp only [btChildren]
    cases hp : potentialChildren t rels maxRows with
    | ok ts =>
      simp only []
      cases hf : filterCanonical ts with
      | ok cs =>
        simp only [List.length_map]
        have h1 := filterCanonical_length ts cs hf
        have h2 := potentialChildren_length hp
        omega
      | err => simp
      | panic => simp
    | err => simp
    | panic => simp
  | err => simp [btChildren]
  | panic => simp [btChildren]

theorem height_root_le (n maxRows : Nat) :
    height maxRows (.ok (Table.new n)) ≤ maxRows * (2 * n) + 1 := by
  simp only [height]
  have : (slots maxRows (Table.new n).nrGens).length = maxRows * (2 * n) := slots_length maxRows n
  omega

/-- **fuel adequacy**: `searchFuel n k` exhausts the search tree of `coset_tables(n, R, k)`,
    whatever the list `R` of expanded relators -/
theorem cosetTables_fuel_adequate' (n : Nat) (R : List (List Int)) (k : Nat) :
    (BT.dfs (btProblem n R k) (height k) (.ok (Table.new n))).length ≤ searchFuel n k :=
  bt_dfs_length_le (btProblem n R k) (height k) (btProblem_decreasing n R k) (max k 1)
    (fun s => btChildren_length R k s) _ _ (height_root_le n k)

theorem cosetTables_fuel_adequate (n : Nat) (rels : List (List Int)) (k : Nat) :
    (BT.dfs (btProblem n (expandedRelatorSet rels) k) (height k) (.ok (Table.new n))).length ≤ searchFuel n k :=
  cosetTables_fuel_adequate' n _ k

/-- the fuel hypothesis of the C12 theorems holds for every fuel `≥ searchFuel n k` -/
theorem fuelOK_of_ge_searchFuel (n : Nat) (rels : List (List Int)) (k fuel : Nat)
    (h : searchFuel n k ≤ fuel) :
    (BT.dfs (btProblem n (expandedRelatorSet rels) k) (height k) (.ok (Table.new n))).length ≤ fuel :=
  Nat.le_trans (cosetTables_fuel_adequate n rels k) h

/-- more fuel than `searchFuel` changes nothing -/
theorem cosetTables_more_fuel_same (n : Nat) (rels : List (List Int)) (k fuel : Nat)
    (h : searchFuel n k ≤ fuel) :
    cosetTables n rels k fuel = cosetTables n rels k (searchFuel n k) :=
  BT.run_fuel_irrelevant _ (height k) (btProblem_decreasing n _ k) _ _
    (fuelOK_of_ge_searchFuel n rels k fuel h) (cosetTables_fuel_adequate n rels k)

end DSymVerif.CanonP
