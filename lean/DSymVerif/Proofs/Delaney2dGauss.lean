/-
Helper lemmas for property C08, part 10 (Gauss–Bonnet, K side): every 2-orbit with a mirror has
exactly two mirror ends, hence #(orbits with a mirror) = #(fixed chambers of the three
operations), the edge count of `euler_characteristic` is exact, and
K = 2·χ_top − 2 Σ_cones (1 − 1/v) − Σ_corners (1 − 1/v).
-/
import DSymVerif.Proofs.Delaney2dCover
import DSymVerif.Proofs.DihedralLoops
import Mathlib.Data.ZMod.Basic
import DSymVerif.Proofs.Delaney2dClassify

namespace DSymVerif.D2
open DSymVerif.DS

section
variable {y : DSymData} (h : ValidSym y) {i j : Nat} (hi : i ≤ y.dim) (hj : j ≤ y.dim)
include h hi hj

/-- sums over all chambers, orbit by orbit -/
theorem sum_orbits (w : Nat → ℚ) :
    ∑ x ∈ Finset.Icc 1 y.size, w x =
      ((y.view.orbitReps2d i j).map fun d => ∑ x ∈ (y.view.orbit [i, j] d).toFinset, w x).sum := by
  have ok := orbitReps2d_ok h.set hi hj
  have hnodup : (y.view.orbitReps2d i j).Nodup :=
    ok.distinct.imp (fun {a b} hab he => hab (by subst he; exact Orb2.refl _))
  have hdist : ∀ a ∈ y.view.orbitReps2d i j, ∀ b ∈ y.view.orbitReps2d i j, a ≠ b →
      ¬ Orb2 y.dset i j a b := by
    have hp : (y.view.orbitReps2d i j).Pairwise (fun a b => ¬ Orb2 y.dset i j a b ∧ ¬ Orb2 y.dset i j b a) :=
      ok.distinct.imp_of_mem (fun {a b} ha hb hab =>
        ⟨hab, fun hba => hab (Orb2.symm h.set hi hj (ok.range b hb) hba)⟩)
    have : Std.Symm (fun a b => ¬ Orb2 y.dset i j a b ∧ ¬ Orb2 y.dset i j b a) := ⟨fun _ _ hh => ⟨hh.2, hh.1⟩⟩
    intro a ha b hb hne
    exact (hp.forall ha hb hne).1
  have hunion : Finset.Icc 1 y.size =
      (y.view.orbitReps2d i j).toFinset.biUnion fun d => (y.view.orbit [i, j] d).toFinset := by
    ext x
    simp only [Finset.mem_Icc, Finset.mem_biUnion, List.mem_toFinset]
    constructor
    · rintro ⟨h1, h2⟩
      obtain ⟨d, hd, ho⟩ := ok.cover x h1 h2
      exact ⟨d, hd, (mem_orbit_iff h.set hi hj (ok.range d hd)).2 ho⟩
    · rintro ⟨d, hd, hx⟩
      exact Orb2.range h.set hi hj (ok.range d hd) ((mem_orbit_iff h.set hi hj (ok.range d hd)).1 hx)
  have hdisj : ((y.view.orbitReps2d i j).toFinset : Set Nat).PairwiseDisjoint
      fun d => (y.view.orbit [i, j] d).toFinset := by
    intro a ha b hb hne
    simp only [Finset.mem_coe, List.mem_toFinset] at ha hb
    rw [Function.onFun, Finset.disjoint_left]
    intro x hxa hxb
    rw [List.mem_toFinset, mem_orbit_iff h.set hi hj (ok.range a ha)] at hxa
    rw [List.mem_toFinset, mem_orbit_iff h.set hi hj (ok.range b hb)] at hxb
    exact hdist a ha b hb hne (hxa.trans (Orb2.symm h.set hi hj (ok.range b hb) hxb))
  rw [hunion, Finset.sum_biUnion hdisj, ← List.sum_toFinset _ hnodup]

/-- the number of mirror ends `(i, x)`, `(j, x)` in the (i,j)-orbit of `d`: 0 or 2 -/
theorem orbit_loops {d : Nat} (hd : 1 ≤ d ∧ d ≤ y.size) :
    ∑ x ∈ (y.view.orbit [i, j] d).toFinset,
      ((if y.dset.opU i x = x then (1 : ℚ) else 0) + (if y.dset.opU j x = x then 1 else 0)) =
      if looplessB y i j d = true then 0 else 2 := by
  have hmem : ∀ x, x ∈ (y.view.orbit [i, j] d).toFinset ↔ Orb2 y.dset i j d x := by
    intro x; rw [List.mem_toFinset, mem_orbit_iff h.set hi hj hd]
  have hop : ∀ k x, k ≤ y.dim → 1 ≤ x ∧ x ≤ y.size → (y.op k x != some x) = !decide (y.dset.opU k x = x) := by
    intro k x hk hx
    have e1 : y.op k x = some (y.dset.opU k x) := opSimple_eq_some.2 ⟨hk, hx.1, hx.2, rfl⟩
    rw [e1]
    by_cases he : y.dset.opU k x = x <;> simp [he]
  by_cases hl : looplessB y i j d = true
  · rw [if_pos hl]
    apply Finset.sum_eq_zero
    intro x hx
    have hxr := Orb2.range h.set hi hj hd ((hmem x).1 hx)
    unfold looplessB at hl
    rw [List.all_eq_true] at hl
    have := hl x (List.mem_toFinset.1 hx)
    rw [hop i x hi hxr, hop j x hj hxr] at this
    simp only [Bool.and_eq_true, Bool.not_eq_eq_eq_not, Bool.not_true, decide_eq_false_iff_not] at this
    rw [if_neg this.1, if_neg this.2]; simp
  · rw [if_neg hl]
    -- a mirror end z in the orbit
    have hex : ∃ z, Orb2 y.dset i j d z ∧ (y.dset.opU i z = z ∨ y.dset.opU j z = z) := by
      unfold looplessB at hl
      rw [List.all_eq_true] at hl
      push Not at hl
      obtain ⟨z, hz, hzl⟩ := hl
      have hzo := (mem_orbit_iff h.set hi hj hd).1 hz
      have hzr := Orb2.range h.set hi hj hd hzo
      refine ⟨z, hzo, ?_⟩
      rw [hop i z hi hzr, hop j z hj hzr] at hzl
      by_contra hcon
      push Not at hcon
      apply hzl
      simp [hcon.1, hcon.2]
    obtain ⟨z, hzo, hzl⟩ := hex
    have hzr := Orb2.range h.set hi hj hd hzo
    have hA := opT_invol h.set hi
    have hB := opT_invol h.set hj
    have hlp := IsLeastPeriod.orb h.set hi hj hd hzo (rN_least h hi hj hd)
    have hper : (Dihedral.cc (opT y.dset i) (opT y.dset j))^[rN y i j d] z = z := by
      rw [cc_iter_eq h.set hi hj hzr]; exact hlp.2.1
    have hmin : ∀ t, 1 ≤ t → t < rN y i j d → (Dihedral.cc (opT y.dset i) (opT y.dset j))^[t] z ≠ z := by
      intro t ht1 ht2
      rw [cc_iter_eq h.set hi hj hzr]; exact hlp.2.2 t ht1 ht2
    have hS : ∀ x, x ∈ (y.view.orbit [i, j] d).toFinset ↔ Dihedral.Orbit (opT y.dset i) (opT y.dset j) z x := by
      intro x
      rw [hmem]
      constructor
      · intro hx
        exact orbit_of_orb2 h.set hi hj hzr ((Orb2.symm h.set hi hj hd hzo).trans hx)
      · intro hx
        exact hzo.trans (orb2_of_orbit h.set hi hj hzr hx)
    have hcount : ((y.view.orbit [i, j] d).toFinset.filter fun x => opT y.dset i x = x).card +
        ((y.view.orbit [i, j] d).toFinset.filter fun x => opT y.dset j x = x).card = 2 := by
      rcases hzl with hz | hz
      · exact Dihedral.loop_count_A hA hB hlp.1 hper hmin (by rw [opT_in hzr.1 hzr.2]; exact hz) _ hS
      · exact Dihedral.loop_count_B hA hB hlp.1 hper hmin (by rw [opT_in hzr.1 hzr.2]; exact hz) _ hS
    rw [Finset.sum_add_distrib, Finset.sum_boole, Finset.sum_boole]
    have fA : (y.view.orbit [i, j] d).toFinset.filter (fun x => y.dset.opU i x = x) =
        (y.view.orbit [i, j] d).toFinset.filter (fun x => opT y.dset i x = x) := by
      apply Finset.filter_congr
      intro x hx
      have hxr := Orb2.range h.set hi hj hd ((hmem x).1 hx)
      rw [opT_in hxr.1 hxr.2]
    have fB : (y.view.orbit [i, j] d).toFinset.filter (fun x => y.dset.opU j x = x) =
        (y.view.orbit [i, j] d).toFinset.filter (fun x => opT y.dset j x = x) := by
      apply Finset.filter_congr
      intro x hx
      have hxr := Orb2.range h.set hi hj hd ((hmem x).1 hx)
      rw [opT_in hxr.1 hxr.2]
    rw [fA, fB]
    exact_mod_cast hcount

/-- the number of fixed chambers of `op k` -/
def loopsN (y : DSymData) (k : Nat) : Nat := ((Finset.Icc 1 y.size).filter fun x => y.dset.opU k x = x).card

/-- **mirror ends**: `loops_i + loops_j = 2 · #((i,j)-orbits with a mirror)` -/
theorem pair_loops :
    (loopsN y i : ℚ) + (loopsN y j : ℚ) =
      2 * (((y.view.orbitReps2d i j).filter fun d => !looplessB y i j d).length : ℚ) := by
  have hs := sum_orbits h hi hj
    (fun x => (if y.dset.opU i x = x then (1 : ℚ) else 0) + (if y.dset.opU j x = x then 1 else 0))
  have ok := orbitReps2d_ok h.set hi hj
  have e : ((y.view.orbitReps2d i j).map fun d => ∑ x ∈ (y.view.orbit [i, j] d).toFinset,
      ((if y.dset.opU i x = x then (1 : ℚ) else 0) + (if y.dset.opU j x = x then 1 else 0))) =
      (y.view.orbitReps2d i j).map fun d => if looplessB y i j d = true then (0 : ℚ) else 2 := by
    apply List.map_congr_left
    intro d hd
    exact orbit_loops h hi hj (ok.range d hd)
  rw [e] at hs
  rw [Finset.sum_add_distrib, Finset.sum_boole, Finset.sum_boole] at hs
  unfold loopsN
  rw [hs]
  generalize y.view.orbitReps2d i j = reps
  induction reps with
  | nil => simp
  | cons d reps ih =>
    simp only [List.map_cons, List.sum_cons, List.filter_cons, ih]
    cases looplessB y i j d
    · simp; ring
    · simp

end

/-! ### parity and the edge count -/

theorem nonfixed_even {ds : DSetData} (h : ValidSet ds) {k : Nat} (hk : k ≤ ds.dim) :
    Even ((Finset.Icc 1 ds.size).filter fun x => ds.opU k x ≠ x).card := by
  have hsum : ∑ _x ∈ (Finset.Icc 1 ds.size).filter (fun x => ds.opU k x ≠ x), (1 : ZMod 2) = 0 := by
    apply Finset.sum_involution (fun a _ => ds.opU k a)
    · intro a _; decide
    · intro a ha _
      exact (Finset.mem_filter.1 ha).2
    · intro a ha
      obtain ⟨hr, hne⟩ := Finset.mem_filter.1 ha
      rw [Finset.mem_Icc] at hr
      have hr' := h.range k a hk hr.1 hr.2
      refine Finset.mem_filter.2 ⟨Finset.mem_Icc.2 hr', ?_⟩
      rw [h.invol k a hk hr.1 hr.2]
      exact fun e => hne e.symm
    · intro a ha
      obtain ⟨hr, hne⟩ := Finset.mem_filter.1 ha
      rw [Finset.mem_Icc] at hr
      exact h.invol k a hk hr.1 hr.2
  rw [Finset.sum_const, nsmul_eq_mul, mul_one] at hsum
  exact (ZMod.natCast_eq_zero_iff_even).1 hsum

theorem size_add_loops_even {y : DSymData} (h : ValidSet y.dset) {k : Nat} (hk : k ≤ y.dim) :
    Even (y.size + loopsN y k) := by
  have hsplit : ((Finset.Icc 1 y.dset.size).filter fun x => y.dset.opU k x = x).card +
      ((Finset.Icc 1 y.dset.size).filter fun x => y.dset.opU k x ≠ x).card = y.dset.size := by
    have := Finset.card_filter_add_card_filter_not (s := Finset.Icc 1 y.dset.size) (fun x => y.dset.opU k x = x)
    rw [Nat.card_Icc] at this
    simpa using this
  obtain ⟨m, hm⟩ := nonfixed_even h hk
  have hl : loopsN y k = ((Finset.Icc 1 y.dset.size).filter fun x => y.dset.opU k x = x).card := rfl
  have hsz : y.size = y.dset.size := rfl
  refine ⟨loopsN y k + m, ?_⟩
  rw [hsz, hl]
  omega

theorem nrLoops_eq {y : DSymData} (rep : Rep) {k : Nat} (hk : k ≤ y.dim) :
    nrLoops ⟨y, rep⟩ k = loopsN y k := by
  unfold nrLoops loopsN
  have hnd : (⟨y, rep⟩ : Sym).view.elements.Nodup := by
    unfold View.elements
    exact (List.nodup_range).map (fun a b hab => by simpa using hab)
  rw [← List.toFinset_card_of_nodup (hnd.filter _)]
  congr 1
  ext x
  simp only [List.mem_toFinset, List.mem_filter, View.elements, List.mem_map, List.mem_range,
    Finset.mem_filter, Finset.mem_Icc, beq_iff_eq]
  have hsz : (⟨y, rep⟩ : Sym).view.size = y.size := rfl
  rw [hsz]
  constructor
  · rintro ⟨⟨a, ha, rfl⟩, hop⟩
    have hop' : y.dset.opSimple k (a + 1) = some (a + 1) := hop
    exact ⟨⟨by omega, by omega⟩, (opSimple_eq_some.1 hop').2.2.2⟩
  · rintro ⟨⟨h1, h2⟩, hop⟩
    refine ⟨⟨x - 1, by omega, by omega⟩, ?_⟩
    show y.dset.opSimple k x = some x
    exact opSimple_eq_some.2 ⟨hk, h1, h2, hop⟩

/-- number of 2-orbits with a mirror -/
def chainCount (ts : List (Nat × Bool)) : Nat := (ts.filter fun t => !t.2).length
/-- number of loopless 2-orbits -/
def looplessCount (ts : List (Nat × Bool)) : Nat := (ts.filter fun t => t.2).length

theorem chainCount_map (reps : List Nat) (v : Nat → Nat) (l : Nat → Bool) :
    chainCount (reps.map fun d => (v d, l d)) = (reps.filter fun d => !l d).length := by
  unfold chainCount
  rw [List.filter_map, List.length_map]
  rfl

/-- **#(mirrors) = #(orbits with a mirror)** -/
theorem loops_eq_chains {y : DSymData} (h : ValidSym y) (hdim : y.dim = 2) :
    loopsN y 0 + loopsN y 1 + loopsN y 2 = chainCount (typesOf y) := by
  have p01 := pair_loops h (i := 0) (j := 1) (by omega) (by omega)
  have p02 := pair_loops h (i := 0) (j := 2) (by omega) (by omega)
  have p12 := pair_loops h (i := 1) (j := 2) (by omega) (by omega)
  have e : chainCount (typesOf y) =
      ((y.view.orbitReps2d 0 1).filter fun d => !looplessB y 0 1 d).length +
      (((y.view.orbitReps2d 0 2).filter fun d => !looplessB y 0 2 d).length +
       ((y.view.orbitReps2d 1 2).filter fun d => !looplessB y 1 2 d).length) := by
    unfold typesOf
    unfold chainCount
    simp only [List.filter_append, List.length_append]
    have := chainCount_map (y.view.orbitReps2d 0 1) (vN y 0 1) (looplessB y 0 1)
    have := chainCount_map (y.view.orbitReps2d 0 2) (vN y 0 2) (looplessB y 0 2)
    have := chainCount_map (y.view.orbitReps2d 1 2) (vN y 1 2) (looplessB y 1 2)
    unfold chainCount at *
    omega
  have key : ((loopsN y 0 + loopsN y 1 + loopsN y 2 : Nat) : ℚ) = (chainCount (typesOf y) : ℚ) := by
    rw [e]
    push_cast
    linarith
  exact_mod_cast key

/-- **the edge count of `euler_characteristic` is exact**: 2E = 3F + #(orbits with a mirror) -/
theorem edge_count {y : DSymData} (h : ValidSym y) (hdim : y.dim = 2) :
    2 * ((3 * y.size + loopsN y 0 + loopsN y 1 + loopsN y 2) / 2) = 3 * y.size + chainCount (typesOf y) := by
  have e0 := size_add_loops_even h.set (k := 0) (by omega)
  have e1 := size_add_loops_even h.set (k := 1) (by omega)
  have e2 := size_add_loops_even h.set (k := 2) (by omega)
  have hl := loops_eq_chains h hdim
  obtain ⟨a, ha⟩ := e0
  obtain ⟨b, hb⟩ := e1
  obtain ⟨c, hc⟩ := e2
  omega

theorem euler_value {y : DSymData} (rep : Rep) (h : ValidSym y) (hdim : y.dim = 2) :
    2 * eulerCharacteristic ⟨y, rep⟩ =
      2 * ((looplessCount (typesOf y) : Int) + (chainCount (typesOf y) : Int)) - (y.size : Int)
        - (chainCount (typesOf y) : Int) := by
  have hV : (y.view.orbitReps2d 0 1).length + (y.view.orbitReps2d 0 2).length + (y.view.orbitReps2d 1 2).length
      = looplessCount (typesOf y) + chainCount (typesOf y) := by
    have : ∀ ts : List (Nat × Bool), looplessCount ts + chainCount ts = ts.length := by
      intro ts
      induction ts with
      | nil => rfl
      | cons t ts ih =>
        unfold looplessCount chainCount at ih ⊢
        cases ht : t.2 <;> simp [ht] <;> omega
    rw [this]
    simp [typesOf]
    omega
  have hE := edge_count h hdim
  unfold eulerCharacteristic
  simp only
  rw [nrLoops_eq rep (k := 0) (by omega), nrLoops_eq rep (k := 1) (by omega), nrLoops_eq rep (k := 2) (by omega)]
  have hview : (⟨y, rep⟩ : Sym).view = y.view := rfl
  have hsize : (⟨y, rep⟩ : Sym).size = y.size := rfl
  rw [hview, hsize]
  omega

/-! ### K in terms of the Euler characteristic and the census -/

open DSymVerif.SpecC08 (dq)

theorem typeVal_sum (ts : List (Nat × Bool)) (hnz : ∀ t ∈ ts, t.1 ≠ 0) :
    (ts.map typeVal).sum =
      2 * (looplessCount ts : ℚ) + (chainCount ts : ℚ)
        - 2 * ((conesOf ts).map dq).sum - ((cornersOf ts).map dq).sum := by
  induction ts with
  | nil => simp [looplessCount, chainCount, conesOf, cornersOf]
  | cons t ts ih =>
    have ht := hnz t (by simp)
    have ih' := ih (fun u hu => hnz u (by simp [hu]))
    obtain ⟨v, l⟩ := t
    simp only at ht
    have hv : (v : ℚ) ≠ 0 := by exact_mod_cast ht
    simp only [List.map_cons, List.sum_cons, ih']
    unfold looplessCount chainCount conesOf cornersOf typeVal dq
    cases l <;> by_cases h1 : v > 1
    · simp [h1]; field_simp; ring
    · have : v = 1 := by omega
      subst this; simp; ring
    · simp [h1]; field_simp; ring
    · have : v = 1 := by omega
      subst this; simp; ring

/-- **K side of Gauss–Bonnet** (unconditional): on a good 2D symbol
    K = 2·χ_top − 2 Σ_cones (1 − 1/v) − Σ_corners (1 − 1/v), with χ_top the value of the model's
    `euler_characteristic` -/
theorem curvature_euler {s : Sym} (g : Good2d s) :
    ∃ K, curvature s = .ok K ∧
      K.toRat = 2 * ((eulerCharacteristic s : Int) : ℚ)
        - 2 * ((conesOf (typesOf s.data)).map dq).sum - ((cornersOf (typesOf s.data)).map dq).sum := by
  obtain ⟨K, hK, _⟩ := curvature_chamber_sum' s g.valid g.dim g.complete
  obtain ⟨_, _, ts, hts, hnz, hk⟩ := curvature_ok hK
  rw [orbitTypes2d_good g] at hts
  cases hts
  refine ⟨K, hK, ?_⟩
  rw [hk, Frac.toRat_ofRat]
  unfold curvQ
  rw [typeVal_sum _ hnz]
  obtain ⟨y, rep⟩ := s
  have he := euler_value rep (show ValidSym y from g.valid) (show y.dim = 2 from g.dim)
  have he' : (2 : ℚ) * ((eulerCharacteristic ⟨y, rep⟩ : Int) : ℚ) =
      2 * ((looplessCount (typesOf y) : ℚ) + (chainCount (typesOf y) : ℚ)) - (y.size : ℚ)
        - (chainCount (typesOf y) : ℚ) := by
    exact_mod_cast he
  show _ = 2 * ((eulerCharacteristic ⟨y, rep⟩ : Int) : ℚ) - _ - _
  rw [he']
  have e1 : (⟨y, rep⟩ : Sym).data = y := rfl
  have e2 : ((⟨y, rep⟩ : Sym).size : ℚ) = (y.size : ℚ) := rfl
  rw [e1, e2]
  ring

/-! ### χ side, under the monitor -/

theorem insertDescNat_perm (x : Nat) (l : List Nat) : (insertDescNat x l).Perm (x :: l) := by
  induction l with
  | nil => exact List.Perm.refl _
  | cons y ys ih =>
    unfold insertDescNat
    split
    · exact (List.Perm.cons y ih).trans (List.Perm.swap x y ys)
    · exact List.Perm.refl _

theorem sortDescNat_perm (l : List Nat) : (sortDescNat l).Perm l := by
  induction l with
  | nil => exact List.Perm.refl _
  | cons x xs ih =>
    show (insertDescNat x (sortDescNat xs)).Perm (x :: xs)
    exact (insertDescNat_perm x _).trans (List.Perm.cons x ih)

/-- the symbol in the vocabulary of the Spec -/
def orbOf (o : OrbSym) : SpecC08.Orb :=
  { cones := o.cones, bnds := o.bnds,
    handles := if o.orientable then o.count else 0, caps := if o.orientable then 0 else o.count }

/-- the census part of the exactness of the model's orbifold symbol -/
structure SymbolCensus (s : Sym) (o : OrbSym) : Prop where
  sym : orbifoldSymbol s = .ok o
  cones : o.cones.Perm (conesOf (typesOf s.data))
  corners : o.bnds.flatten.Perm (cornersOf (typesOf s.data))
  genus : (2 * (if o.orientable then o.count else 0) + (if o.orientable then 0 else o.count) : Int) =
    2 - (eulerCharacteristic s + (o.bnds.length : Int))

/-- what the monitor `symbolExact` establishes -/
structure SymbolExact (s : Sym) (o : OrbSym) : Prop extends SymbolCensus s o where
  oriented : (o.bnds.isEmpty && (if o.orientable then 0 else o.count) == 0) = s.view.isOriented

theorem symbolExact_spec {s : Sym} (g : Good2d s) (hex : symbolExact s = true) :
    ∃ o, SymbolExact s o := by
  unfold symbolExact at hex
  split at hex
  · rename_i bnds corners o htb hcd hos
    simp only [Bool.and_eq_true, beq_iff_eq, Bool.or_eq_true, Bool.not_eq_eq_eq_not, Bool.not_true] at hex
    obtain ⟨⟨hsort, hpar⟩, hori⟩ := hex
    have hcorners : corners = cornersOf (typesOf s.data) := by
      unfold cornerDegrees at hcd
      rw [orbitTypes2d_good g] at hcd
      exact (Outcome.ok.inj hcd).symm
    -- unfold the symbol
    have hos' := hos
    unfold orbifoldSymbol at hos'
    rw [if_neg (by simp [g.dim]), if_neg (by
      have : s.isComplete = true := by
        cases hr : s.rep <;> simp [Sym.isComplete, hr, g.complete]
      simp [this]), htb, coneDegrees_good g] at hos'
    simp only at hos'
    split at hos'
    · cases hos'
    · rename_i hx
      have ho := (Outcome.ok.inj hos').symm
      have hx' : 0 ≤ 2 - (eulerCharacteristic s + (bnds.length : Int)) := by omega
      refine ⟨o, ⟨hos, ?_, ?_, ?_⟩, ?_⟩
      · rw [ho]; exact sortDescNat_perm _
      · rw [ho]
        simp only
        rw [← hcorners]
        exact ((sortDescNat_perm _).symm.trans (hsort ▸ List.Perm.refl _)).trans (sortDescNat_perm _)
      · rw [ho]
        simp only
        by_cases hw : s.view.isWeaklyOriented = true
        · simp only [hw, if_true]
          have hp : (2 - (eulerCharacteristic s + (bnds.length : Int))) % 2 = 0 := by
            rcases hpar with hp | hp
            · rw [ho] at hp; simp only at hp; rw [hw] at hp; cases hp
            · exact hp
          omega
        · simp only [hw]
          simp only [Bool.false_eq_true, if_false]
          omega
      · rw [ho]
        simp only
        rw [← hori, ho]
        simp only
        cases s.view.isWeaklyOriented <;> simp
  · cases hex

theorem sum_flatten_dq (bs : List (List Nat)) :
    (bs.map fun c => (c.map dq).sum).sum = (bs.flatten.map dq).sum := by
  induction bs with
  | nil => rfl
  | cons c bs ih => simp only [List.map_cons, List.sum_cons, List.flatten_cons, List.map_append, List.sum_append, ih]

theorem mem_conesOf_gt {ts : List (Nat × Bool)} {v : Nat} (h : v ∈ conesOf ts) : 2 ≤ v := by
  unfold conesOf at h
  obtain ⟨t, ht, rfl⟩ := List.mem_map.1 h
  have := (List.mem_filter.1 ht).2
  simp only [Bool.and_eq_true, decide_eq_true_eq] at this
  omega

theorem mem_cornersOf_gt {ts : List (Nat × Bool)} {v : Nat} (h : v ∈ cornersOf ts) : 2 ≤ v := by
  unfold cornersOf at h
  obtain ⟨t, ht, rfl⟩ := List.mem_map.1 h
  have := (List.mem_filter.1 ht).2
  simp only [Bool.and_eq_true, decide_eq_true_eq] at this
  omega

theorem orbOf_wf_census {s : Sym} {o : OrbSym} (hx : SymbolCensus s o) : (orbOf o).WF := by
  constructor
  · intro v hv
    have := mem_conesOf_gt (hx.cones.mem_iff.1 hv)
    omega
  · intro c hc v hv
    have hv' : v ∈ o.bnds.flatten := List.mem_flatten.2 ⟨c, hc, hv⟩
    have := mem_cornersOf_gt (hx.corners.mem_iff.1 hv')
    omega

/-- **Gauss–Bonnet under the monitor**: K = 2·χ(orbifold symbol) -/
theorem gauss_bonnet_census {s : Sym} (g : Good2d s) {o : OrbSym} (hx : SymbolCensus s o) :
    ∃ K, curvature s = .ok K ∧ K.toRat = 2 * SpecC08.chiQ (orbOf o) := by
  obtain ⟨K, hK, hv⟩ := curvature_euler g
  refine ⟨K, hK, ?_⟩
  rw [hv]
  unfold SpecC08.chiQ
  rw [SpecC08.bndSum_split, sum_flatten_dq]
  have hc := (hx.cones.map dq).sum_eq
  have hb := (hx.corners.map dq).sum_eq
  have hg : (2 * ((orbOf o).handles : ℚ) + ((orbOf o).caps : ℚ)) =
      2 - (((eulerCharacteristic s : Int) : ℚ) + (o.bnds.length : ℚ)) := by
    have := hx.genus
    unfold orbOf
    simp only
    exact_mod_cast this
  show _ = 2 * (2 - (o.cones.map dq).sum - ((o.bnds.length : ℚ) + (o.bnds.flatten.map dq).sum / 2)
    - 2 * ((orbOf o).handles : ℚ) - ((orbOf o).caps : ℚ))
  rw [hc, hb]
  linarith

/-- (the same statements under the names of the first version of this file; a `SymbolExact`
    hypothesis `hx` is passed as `hx.toSymbolCensus`) -/
theorem orbOf_wf {s : Sym} {o : OrbSym} (hx : SymbolCensus s o) : (orbOf o).WF :=
  orbOf_wf_census hx

theorem gauss_bonnet_exact {s : Sym} (g : Good2d s) {o : OrbSym} (hx : SymbolCensus s o) :
    ∃ K, curvature s = .ok K ∧ K.toRat = 2 * SpecC08.chiQ (orbOf o) :=
  gauss_bonnet_census g hx

/-- under the monitor the census `badCensus` is the Spec's `bad` of the model's orbifold symbol -/
theorem isSpherical_spec {s : Sym} (g : Good2d s) (hsz : 1 ≤ s.size) {o : OrbSym} (hx : SymbolExact s o) :
    ∃ K, curvature s = .ok K ∧ K.toRat = 2 * SpecC08.chiQ (orbOf o) ∧
      isSpherical s = .ok (decide (0 < K.toRat) && !SpecC08.bad (orbOf o)) := by
  obtain ⟨K, hK, hgb⟩ := gauss_bonnet_census g hx.toSymbolCensus
  obtain ⟨K', hK', hsph⟩ := isSpherical_iff_good g hsz
  rw [hK] at hK'
  cases hK'
  refine ⟨K, hK, hgb, ?_⟩
  rw [hsph]
  by_cases hpos : 0 < K.toRat
  · have hchi : 0 < SpecC08.chiQ (orbOf o) := by rw [hgb] at hpos; linarith
    have hp1 : SpecC08.proper (orbOf o).cones = o.cones :=
      SpecC08.proper_of_ge _ (fun v hv => mem_conesOf_gt (hx.cones.mem_iff.1 hv))
    have hp2 : SpecC08.proper (orbOf o).bnds.flatten = o.bnds.flatten :=
      SpecC08.proper_of_ge _ (fun v hv => mem_cornersOf_gt (hx.corners.mem_iff.1 hv))
    have := bad_eq_badCensus s.data (orbOf o) (orbOf_wf_census hx.toSymbolCensus) hchi
      (by rw [hp1]; exact hx.cones) (by rw [hp2]; exact hx.corners) hx.oriented
    rw [this]
  · simp [hpos]

end DSymVerif.D2
