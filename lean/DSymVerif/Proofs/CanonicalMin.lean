/-
Helper lemmas for property C03, part 4: `compare_codes` on codes of equal length is the
lexicographic order, `minimal_traversal_code` returns a least code, the least code is
invariant under isomorphism; isomorphisms compose and invert.
-/
import DSymVerif.Proofs.CanonicalIso
import Mathlib.Data.List.Lex

namespace DSymVerif.DS
namespace CanonP

/-! ### `compare_codes` -/

/-- on codes of equal length `compare_codes` never panics, and its sign is the lexicographic
    comparison -/
theorem compareCodes_eqlen : ∀ (x y : List Int), x.length = y.length →
    ∃ c, compareCodes x y = .ok c ∧ (c < 0 ↔ x < y) ∧ (c = 0 ↔ x = y)
  | [], [], _ => ⟨0, rfl, by simp, by simp⟩
  | [], _ :: _, h => by simp at h
  | _ :: _, [], h => by simp at h
  | x :: xs, y :: ys, h => by
    have hl : xs.length = ys.length := by simpa using h
    rw [compareCodes]
    by_cases hxy : x - y ≠ 0
    · rw [if_pos hxy]
      refine ⟨x - y, rfl, ?_, ?_⟩
      · rw [List.cons_lt_cons_iff]
        constructor
        · intro hc; exact Or.inl (by omega)
        · rintro (hc | ⟨hc, _⟩)
          · omega
          · omega
      · constructor
        · intro hc; exact absurd hc hxy
        · intro hc
          have : x = y := (List.cons.inj hc).1
          omega
    · rw [if_neg hxy]
      have hxy' : x = y := by omega
      subst hxy'
      obtain ⟨c, hc, h1, h2⟩ := compareCodes_eqlen xs ys hl
      refine ⟨c, hc, ?_, ?_⟩
      · rw [h1, List.cons_lt_cons_iff]
        constructor
        · intro hlt; exact Or.inr ⟨rfl, hlt⟩
        · rintro (hlt | ⟨_, hlt⟩)
          · exact absurd hlt (lt_irrefl x)
          · exact hlt
      · rw [h2]
        constructor
        · intro he; rw [he]
        · intro he; exact (List.cons.inj he).2

/-! ### `minimal_traversal_code` -/

/-- the loop of `minimal_traversal_code` over seeds whose codes `C d` all have length `L`:
    it returns (no panic) one of the candidates, and that one has a least code -/
theorem minimalLoop_spec {s : DSymData} {C : Nat → Code} {L : Nat} :
    ∀ (l : List Nat) (best : Code),
      (∀ d ∈ l, traversalCode s d = .ok (C d) ∧ (C d).code.length = L) → best.code.length = L →
      ∃ r, minimalLoop s l best = .ok r ∧ (r = best ∨ ∃ d ∈ l, r = C d) ∧
        r.code ≤ best.code ∧ ∀ d ∈ l, r.code ≤ (C d).code
  | [], best, _, _ => ⟨best, rfl, Or.inl rfl, le_refl _, fun _ hd => by cases hd⟩
  | d :: l, best, hl, hb => by
    obtain ⟨hd, hdl⟩ := hl d (List.mem_cons_self ..)
    obtain ⟨c, hc, hlt, _⟩ := compareCodes_eqlen (C d).code best.code (by rw [hdl, hb])
    rw [minimalLoop, hd]
    simp only
    rw [hc]
    simp only
    have hb' : (if c < 0 then C d else best).code.length = L := by split <;> assumption
    obtain ⟨r, hr, hmem, hle, hall⟩ := minimalLoop_spec l (if c < 0 then C d else best)
      (fun x hx => hl x (List.mem_cons_of_mem _ hx)) hb'
    have hbest' : (if c < 0 then C d else best).code ≤ best.code ∧
        (if c < 0 then C d else best).code ≤ (C d).code := by
      by_cases hc0 : c < 0
      · rw [if_pos hc0]; exact ⟨le_of_lt (hlt.1 hc0), le_refl _⟩
      · rw [if_neg hc0]; exact ⟨le_refl _, not_lt.1 (fun h => hc0 (hlt.2 h))⟩
    refine ⟨r, hr, ?_, le_trans hle hbest'.1, ?_⟩
    · rcases hmem with hmem | ⟨x, hx, hxr⟩
      · by_cases hc0 : c < 0
        · rw [if_pos hc0] at hmem; exact Or.inr ⟨d, List.mem_cons_self .., hmem⟩
        · rw [if_neg hc0] at hmem; exact Or.inl hmem
      · exact Or.inr ⟨x, List.mem_cons_of_mem _ hx, hxr⟩
    · intro x hx
      rcases List.mem_cons.1 hx with rfl | hx
      · exact le_trans hle hbest'.2
      · exact hall x hx

/-- `minimal_traversal_code` on a symbol all of whose seeds have codes of one length: the
    result is the exhausted `TraversalCode` of some seed, and no seed has a smaller code -/
theorem minimalTraversalCode_spec {s : DSymData} (hsize : 1 ≤ s.size) {C : Nat → Code} {L : Nat}
    (hC : ∀ d, 1 ≤ d → d ≤ s.size → traversalCode s d = .ok (C d) ∧ (C d).code.length = L) :
    ∃ r, minimalTraversalCode s = .ok r ∧ (∃ d, 1 ≤ d ∧ d ≤ s.size ∧ r = C d) ∧
      ∀ d, 1 ≤ d → d ≤ s.size → r.code ≤ (C d).code := by
  unfold minimalTraversalCode
  rw [(hC 1 (Nat.le_refl _) hsize).1]
  simp only
  have hmem : ∀ d ∈ (List.range (s.size - 1)).map (· + 2), 2 ≤ d ∧ d ≤ s.size := by
    intro d hd
    obtain ⟨k, hk, rfl⟩ := List.mem_map.1 hd
    have := List.mem_range.1 hk
    omega
  obtain ⟨r, hr, hm, hle, hall⟩ := minimalLoop_spec (s := s) (C := C) (L := L)
    ((List.range (s.size - 1)).map (· + 2)) (C 1)
    (fun d hd => hC d (by have := hmem d hd; omega) (hmem d hd).2)
    (hC 1 (Nat.le_refl _) hsize).2
  refine ⟨r, hr, ?_, ?_⟩
  · rcases hm with hm | ⟨d, hd, hm⟩
    · exact ⟨1, Nat.le_refl _, hsize, hm⟩
    · exact ⟨d, by have := hmem d hd; omega, (hmem d hd).2, hm⟩
  · intro d h1 h2
    by_cases hd : d = 1
    · subst hd; exact hle
    · apply hall
      exact List.mem_map.2 ⟨d - 2, List.mem_range.2 (by omega), by omega⟩

/-! ### isomorphisms compose and invert -/

theorem IsIso.trans {f g : Nat → Nat} {a b c : DSymData} (h1 : IsIso f a b) (h2 : IsIso g b c) :
    IsIso (fun d => g (f d)) a c := by
  refine ⟨by rw [h2.size, h1.size], by rw [h2.dim, h1.dim], ?_, ?_, ?_, ?_⟩
  · intro d hd1 hd2
    have r := h1.range d hd1 hd2
    have := h2.range _ r.1 (by rw [h1.size]; exact r.2)
    rw [h1.size] at this; exact this
  · intro d e hd1 hd2 he1 he2 hde
    have rd := h1.range d hd1 hd2
    have re := h1.range e he1 he2
    exact h1.inj d e hd1 hd2 he1 he2
      (h2.inj _ _ rd.1 (by rw [h1.size]; exact rd.2) re.1 (by rw [h1.size]; exact re.2) hde)
  · intro i d hi hd1 hd2
    have rd := h1.range d hd1 hd2
    rw [h2.op i _ (by rw [h1.dim]; exact hi) rd.1 (by rw [h1.size]; exact rd.2), h1.op i d hi hd1 hd2]
    cases a.op i d <;> rfl
  · intro i d hi hd1 hd2
    have rd := h1.range d hd1 hd2
    rw [h2.v i _ (by rw [h1.dim]; exact hi) rd.1 (by rw [h1.size]; exact rd.2), h1.v i d hi hd1 hd2]

/-- the inverse of an isomorphism is an isomorphism -/
theorem IsIso.symm {f : Nat → Nat} {a b : DSymData} (ha : ValidSet a.dset) (h : IsIso f a b) :
    ∃ g, IsIso g b a := by
  have hsurj := surj_of_inj h.range h.inj
  -- a right inverse on 1..size, by choice
  have hex : ∀ e, ∃ d, (1 ≤ e ∧ e ≤ a.size) → (1 ≤ d ∧ d ≤ a.size ∧ f d = e) := by
    intro e
    by_cases he : 1 ≤ e ∧ e ≤ a.size
    · obtain ⟨d, hd⟩ := hsurj e he.1 he.2
      exact ⟨d, fun _ => hd⟩
    · exact ⟨0, fun hc => absurd hc he⟩
  choose g hg using hex
  have hgf : ∀ d, 1 ≤ d → d ≤ a.size → g (f d) = d := by
    intro d h1 h2
    have r := h.range d h1 h2
    obtain ⟨g1, g2, g3⟩ := hg (f d) r
    exact h.inj _ _ g1 g2 h1 h2 g3
  refine ⟨g, ⟨h.size.symm, h.dim.symm, ?_, ?_, ?_, ?_⟩⟩
  · intro e h1 h2
    rw [h.size] at h2 ⊢
    obtain ⟨g1, g2, _⟩ := hg e ⟨h1, h2⟩
    exact ⟨g1, g2⟩
  · intro d e hd1 hd2 he1 he2 hde
    rw [h.size] at hd2 he2
    rw [← (hg d ⟨hd1, hd2⟩).2.2, ← (hg e ⟨he1, he2⟩).2.2, hde]
  · intro i e hi h1 h2
    rw [h.size] at h2
    rw [h.dim] at hi
    obtain ⟨g1, g2, g3⟩ := hg e ⟨h1, h2⟩
    have hop := h.op i (g e) hi g1 g2
    rw [g3] at hop
    rw [hop]
    have : a.op i (g e) = some (a.dset.opU i (g e)) := opSimple_inR hi g1 g2
    rw [this]
    have r : 1 ≤ a.dset.opU i (g e) ∧ a.dset.opU i (g e) ≤ a.size := ha.range i _ hi g1 g2
    show some _ = some (g (f _))
    rw [hgf _ r.1 r.2]
  · intro i e hi h1 h2
    rw [h.size] at h2
    rw [h.dim] at hi
    obtain ⟨g1, g2, g3⟩ := hg e ⟨h1, h2⟩
    have := h.v i (g e) hi g1 g2
    rw [g3] at this
    exact this.symm

/-- the chamber map of `b` that corresponds to a bijective chamber map of `a` is bijective -/
theorem PermOn.transfer {f : Nat → Nat} {a b : DSymData} (iso : IsIso f a b) {m m' : Array Nat}
    (hm : PermOn a.size m) (hsz : m'.size = m.size)
    (hmm : ∀ d, 1 ≤ d → d ≤ a.size → m'.getD (f d) 0 = m.getD d 0) : PermOn b.size m' := by
  have hsurj := surj_of_inj iso.range iso.inj
  rw [iso.size]
  refine ⟨by rw [hsz, hm.size], ?_, ?_⟩
  · intro e h1 h2
    obtain ⟨d, hd1, hd2, rfl⟩ := hsurj e h1 h2
    rw [hmm d hd1 hd2]; exact hm.range d hd1 hd2
  · intro e e' h1 h2 h1' h2' hee
    obtain ⟨d, hd1, hd2, rfl⟩ := hsurj e h1 h2
    obtain ⟨d', hd1', hd2', rfl⟩ := hsurj e' h1' h2'
    rw [hmm d hd1 hd2, hmm d' hd1' hd2'] at hee
    rw [hm.inj d d' hd1 hd2 hd1' hd2' hee]

/-! ### the reduction of the invariance theorem -/

/-- every seed's `TraversalCode` returns, numbers all chambers bijectively, and all the codes
    have one length (what the completeness of the traversal gives on a connected symbol) -/
def AllSeedsGood (a : DSymData) : Prop :=
  ∃ L, ∀ d, 1 ≤ d → d ≤ a.size →
    ∃ c, traversalCode a d = .ok c ∧ c.code.length = L ∧ PermOn a.size c.map

/-- seeds with equal codes rebuild the same symbol (the code is a complete description of the
    renumbered symbol) -/
def CodeDeterminesSymbol (a : DSymData) : Prop :=
  ∀ d d' c c', 1 ≤ d → d ≤ a.size → 1 ≤ d' → d' ≤ a.size →
    traversalCode a d = .ok c → traversalCode a d' = .ok c' → c.code = c'.code →
    rebuild a c.map = rebuild a c'.map

theorem AllSeedsGood.min {a : DSymData} (hsize : 1 ≤ a.size) (good : AllSeedsGood a) :
    ∃ best d, minimalTraversalCode a = .ok best ∧ 1 ≤ d ∧ d ≤ a.size ∧ traversalCode a d = .ok best ∧
      PermOn a.size best.map ∧
      ∀ e c, 1 ≤ e → e ≤ a.size → traversalCode a e = .ok c → best.code ≤ c.code := by
  obtain ⟨L, hL⟩ := good
  have hex : ∀ d, ∃ c, (1 ≤ d ∧ d ≤ a.size) →
      traversalCode a d = .ok c ∧ c.code.length = L ∧ PermOn a.size c.map := by
    intro d
    by_cases hd : 1 ≤ d ∧ d ≤ a.size
    · obtain ⟨c, hc⟩ := hL d hd.1 hd.2; exact ⟨c, fun _ => hc⟩
    · exact ⟨default, fun h => absurd h hd⟩
  choose C hC using hex
  obtain ⟨r, hr, ⟨d, hd1, hd2, hrd⟩, hmin⟩ := minimalTraversalCode_spec (C := C) (L := L) hsize
    (fun d h1 h2 => ⟨(hC d ⟨h1, h2⟩).1, (hC d ⟨h1, h2⟩).2.1⟩)
  refine ⟨r, d, hr, hd1, hd2, by rw [hrd]; exact (hC d ⟨hd1, hd2⟩).1,
    by rw [hrd]; exact (hC d ⟨hd1, hd2⟩).2.2, ?_⟩
  intro e c he1 he2 hec
  have := (hC e ⟨he1, he2⟩).1
  rw [hec] at this
  cases this
  exact hmin e he1 he2

/-- goodness is transported along an isomorphism, with corresponding codes and maps -/
theorem AllSeedsGood.transfer {f : Nat → Nat} {a b : DSymData} (ha : ValidSet a.dset)
    (iso : IsIso f a b) (good : AllSeedsGood a) :
    AllSeedsGood b ∧
    ∀ d c, 1 ≤ d → d ≤ a.size → traversalCode a d = .ok c →
      ∃ c', traversalCode b (f d) = .ok c' ∧ c'.code = c.code ∧ PermOn b.size c'.map ∧
        ∀ x, 1 ≤ x → x ≤ a.size → c'.map.getD (f x) 0 = c.map.getD x 0 := by
  obtain ⟨L, hL⟩ := good
  have key : ∀ d c, 1 ≤ d → d ≤ a.size → traversalCode a d = .ok c →
      ∃ c', traversalCode b (f d) = .ok c' ∧ c'.code = c.code ∧ PermOn b.size c'.map ∧
        ∀ x, 1 ≤ x → x ≤ a.size → c'.map.getD (f x) 0 = c.map.getD x 0 := by
    intro d c h1 h2 hc
    have h := traversalCode_equiv ha iso h1 h2
    rw [hc] at h
    cases hb : traversalCode b (f d) with
    | ok c' =>
      rw [hb] at h
      obtain ⟨c0, hc0, _, hp⟩ := hL d h1 h2
      rw [hc] at hc0; cases hc0
      exact ⟨c', rfl, h.1, PermOn.transfer iso hp h.2.1 h.2.2, h.2.2⟩
    | err => rw [hb] at h; exact h.elim
    | panic => rw [hb] at h; exact h.elim
  refine ⟨⟨L, ?_⟩, key⟩
  intro e he1 he2
  rw [iso.size] at he2
  obtain ⟨d, hd1, hd2, rfl⟩ := surj_of_inj iso.range iso.inj e he1 he2
  obtain ⟨c, hc, hl, _⟩ := hL d hd1 hd2
  obtain ⟨c', hc', hcode, hperm, _⟩ := key d c hd1 hd2 hc
  exact ⟨c', hc', by rw [hcode]; exact hl, hperm⟩

/-- **Reduction of the invariance theorem.**  If every seed of `a` is good and equal codes
    rebuild equal symbols, then every symbol isomorphic to `a` (every renumbering of `a`) has
    literally the same canonical form. -/
theorem canonical_eq_of_iso {f : Nat → Nat} {a b : DSymData} (ha : ValidSym a) (hsize : 1 ≤ a.size)
    (iso : IsIso f a b) (good : AllSeedsGood a) (det : CodeDeterminesSymbol a) :
    canonical b = canonical a := by
  obtain ⟨goodb, key⟩ := good.transfer ha.set iso
  obtain ⟨ra, da, hra, hda1, hda2, hcda, hpa, hmina⟩ := good.min hsize
  obtain ⟨rb, eb, hrb, heb1, heb2, hceb, hpb, hminb⟩ := goodb.min (by rw [iso.size]; exact hsize)
  rw [iso.size] at heb2
  obtain ⟨db, hdb1, hdb2, rfl⟩ := surj_of_inj iso.range iso.inj eb heb1 heb2
  -- the code of `db` in `a`
  obtain ⟨L, hL⟩ := good
  obtain ⟨cdb, hcdb, _, hpdb⟩ := hL db hdb1 hdb2
  obtain ⟨c', hc', hcode', _, hmap'⟩ := key db cdb hdb1 hdb2 hcdb
  rw [hceb] at hc'; cases hc'
  -- the code of `f da` in `b`
  obtain ⟨c'', hc'', hcode'', _, _⟩ := key da ra hda1 hda2 hcda
  have r1 := iso.range da hda1 hda2
  have le1 : rb.code ≤ ra.code := by
    have := hminb (f da) c'' r1.1 (by rw [iso.size]; exact r1.2) hc''
    rw [hcode''] at this; exact this
  have le2 : ra.code ≤ rb.code := by
    have := hmina db cdb hdb1 hdb2 hcdb
    rw [← hcode'] at this; exact this
  have heq : cdb.code = ra.code := by rw [← hcode']; exact le_antisymm le1 le2
  unfold canonical
  rw [hra, hrb]
  simp only
  rw [rebuild_iso_eq ha iso hpdb hpb hmap']
  exact det db da cdb ra hdb1 hdb2 hda1 hda2 hcdb hcda heq

/-- **Fixed point** (same reduction): the canonical form is its own canonical form -/
theorem canonical_idem_of {a c : DSymData} (ha : ValidSym a) (hsize : 1 ≤ a.size) (hdim : 1 ≤ a.dim)
    (good : AllSeedsGood a) (det : CodeDeterminesSymbol a) (hc : canonical a = .ok c) :
    canonical c = .ok c := by
  obtain ⟨ra, da, hra, _, _, _, hpa, _⟩ := good.min hsize
  obtain ⟨c', hc', _, iso⟩ := rebuild_isIso ha hsize hdim hpa
  have hcc : canonical a = .ok c' := by unfold canonical; rw [hra]; exact hc'
  rw [hc] at hcc; cases hcc
  rw [canonical_eq_of_iso ha hsize iso good det, hc]

/-- on a good symbol `canonical` returns, and the result is isomorphic to the input -/
theorem canonical_ok_iso {a : DSymData} (ha : ValidSym a) (hsize : 1 ≤ a.size) (hdim : 1 ≤ a.dim)
    (good : AllSeedsGood a) : ∃ c m, canonical a = .ok c ∧ ValidSym c ∧ IsIso m a c := by
  obtain ⟨ra, da, hra, _, _, _, hpa, _⟩ := good.min hsize
  obtain ⟨c, hc, hv, iso⟩ := rebuild_isIso ha hsize hdim hpa
  exact ⟨c, _, by unfold canonical; rw [hra]; exact hc, hv, iso⟩

/-- **Complete invariant** (same reduction): equal canonical forms iff isomorphic -/
theorem canonical_eq_iff_iso {a b : DSymData} (ha : ValidSym a) (hb : ValidSym b)
    (hsa : 1 ≤ a.size) (hda : 1 ≤ a.dim) (hsb : 1 ≤ b.size) (hdb : 1 ≤ b.dim)
    (gooda : AllSeedsGood a) (deta : CodeDeterminesSymbol a) (goodb : AllSeedsGood b) :
    canonical a = canonical b ↔ ∃ f, IsIso f a b := by
  constructor
  · intro heq
    obtain ⟨ca, ma, hca, _, ia⟩ := canonical_ok_iso ha hsa hda gooda
    obtain ⟨cb, mb, hcb, _, ib⟩ := canonical_ok_iso hb hsb hdb goodb
    rw [hca, hcb] at heq
    cases heq
    obtain ⟨g, ig⟩ := ib.symm hb.set
    exact ⟨_, ia.trans ig⟩
  · rintro ⟨f, iso⟩
    exact (canonical_eq_of_iso ha hsa iso gooda deta).symm

end CanonP
end DSymVerif.DS
