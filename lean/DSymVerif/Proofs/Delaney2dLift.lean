/-
Helper lemmas for property C08, part 28: the orientation double cover of the capped surface of an
arbitrary valid 2D symbol as an oriented map.  Darts: lifted triangle darts (chamber, rotation
sense, edge) and all valid boundary darts; `phiL` walks around the lifted triangles and along the
boundary walks, `alphaL` crosses an edge (changing the sense), `sigmaL = phiL * alphaL` rotates
around a vertex.  With the deck transformation ι, `α ι` and `φ ι` are fixed-point-free involutions
whose product is σ, so no σ-cycle is invariant under `α ι` (`Dihedral.loop_of_reflection`): every
2-orbit of the symbol carries at least two vertices of the lifted surface.
-/
import DSymVerif.Proofs.Delaney2dGenus

namespace DSymVerif.PermSign
open Equiv Equiv.Perm

variable {β : Type} [Fintype β] [DecidableEq β]

/-- the terms of one cycle add up to one -/
theorem cycle_sum_one (π : Perm β) (x : β) :
    ∑ y ∈ Finset.univ.filter (fun y => π.SameCycle x y), 1 / (Function.minimalPeriod π y : ℚ) = 1 := by
  apply single_cycle_sum π _ x
  · intro k
    rw [Finset.mem_filter]
    refine ⟨Finset.mem_univ _, ?_⟩
    rw [Equiv.Perm.iterate_eq_pow]
    exact ⟨(k : ℤ), by simp⟩
  · intro y hy
    obtain ⟨n, hn⟩ := (Finset.mem_filter.1 hy).2.exists_nat_pow_eq
    exact ⟨n, by rw [Equiv.Perm.iterate_eq_pow]; exact hn⟩

/-- an invariant set with two points on different cycles contains two cycles -/
theorem two_cycles_sum (π : Perm β) (S : Finset β) (hinv : ∀ x ∈ S, π x ∈ S) {x y : β} (hx : x ∈ S)
    (hy : y ∈ S) (hxy : ¬ π.SameCycle x y) :
    (2 : ℚ) ≤ ∑ u ∈ S, 1 / (Function.minimalPeriod π u : ℚ) := by
  have hpow : ∀ (n : Nat) (u : β), u ∈ S → (π ^ n) u ∈ S := by
    intro n
    induction n with
    | zero => intro u hu; exact hu
    | succ n ih => intro u hu; rw [pow_succ', Equiv.Perm.mul_apply]; exact hinv _ (ih u hu)
  have hsub : ∀ u, u ∈ S → Finset.univ.filter (fun w => π.SameCycle u w) ⊆ S := by
    intro u hu w hw
    obtain ⟨n, rfl⟩ := (Finset.mem_filter.1 hw).2.exists_nat_pow_eq
    exact hpow n u hu
  have hdisj : Disjoint (Finset.univ.filter (fun w => π.SameCycle x w))
      (Finset.univ.filter (fun w => π.SameCycle y w)) := by
    rw [Finset.disjoint_left]
    intro w h1 h2
    exact hxy ((Finset.mem_filter.1 h1).2.trans (Finset.mem_filter.1 h2).2.symm)
  have hle : ∑ u ∈ (Finset.univ.filter (fun w => π.SameCycle x w)) ∪
      (Finset.univ.filter (fun w => π.SameCycle y w)), 1 / (Function.minimalPeriod π u : ℚ) ≤
      ∑ u ∈ S, 1 / (Function.minimalPeriod π u : ℚ) := by
    apply Finset.sum_le_sum_of_subset_of_nonneg (Finset.union_subset (hsub x hx) (hsub y hy))
    intro u _ _
    positivity
  rw [Finset.sum_union hdisj, cycle_sum_one, cycle_sum_one] at hle
  linarith

/-- a lower bound for the number of cycles from an invariant key whose fibres contain two cycles -/
theorem zQ_ge_two_fibres {κ : Type} [DecidableEq κ] (π : Perm β) (key : β → κ)
    (hkey : ∀ x, key (π x) = key x) (pair : β → β) (hpk : ∀ x, key (pair x) = key x)
    (hpair : ∀ x, ¬ π.SameCycle x (pair x)) :
    2 * ((Finset.univ.image key).card : ℚ) ≤ zQ π := by
  unfold zQ
  rw [← Finset.sum_fiberwise_of_maps_to (g := key) (t := Finset.univ.image key)
    (fun x _ => Finset.mem_image_of_mem key (Finset.mem_univ x))]
  have : ∀ v ∈ Finset.univ.image key,
      (2 : ℚ) ≤ ∑ x ∈ Finset.univ.filter (fun x => key x = v), 1 / (Function.minimalPeriod π x : ℚ) := by
    intro v hv
    obtain ⟨x, _, rfl⟩ := Finset.mem_image.1 hv
    apply two_cycles_sum π _ _ (x := x) (y := pair x)
    · simp
    · simp [hpk]
    · exact hpair x
    · intro u hu
      rw [Finset.mem_filter] at hu ⊢
      exact ⟨Finset.mem_univ _, by rw [hkey]; exact hu.2⟩
  calc 2 * ((Finset.univ.image key).card : ℚ) = ∑ _v ∈ Finset.univ.image key, (2 : ℚ) := by
        rw [Finset.sum_const, nsmul_eq_mul]; ring
    _ ≤ _ := Finset.sum_le_sum this

end DSymVerif.PermSign

namespace DSymVerif.D2
open DSymVerif.DS

/-- the edge before edge `i` in the rotation sense `ε` -/
def kE (ε : Bool) (i : Nat) : Nat := if ε = true then (i + 1) % 3 else (i + 2) % 3
/-- the edge after edge `i` in the rotation sense `ε` -/
def sE (ε : Bool) (i : Nat) : Nat := 3 - i - kE ε i
/-- the rotation sense in which a boundary dart is positive -/
def sgnD (δ : Dart) : Bool := decide (δ.2.1 = (δ.1 + 1) % 3)

theorem kE_facts (ε : Bool) {i : Nat} (hi : i ≤ 2) :
    kE ε i ≤ 2 ∧ kE ε i ≠ i ∧ sE ε i ≤ 2 ∧ sE ε i ≠ i ∧ kE ε (sE ε i) = i ∧ sE ε (kE ε i) = i ∧
    sE ε (sE ε (sE ε i)) = i ∧ kE (!ε) i = sE ε i ∧ sE (!ε) i = kE ε i ∧ kE (!ε) (kE ε i) = i ∧
    kE ε (kE ε i) = sE ε i := by
  unfold sE kE
  have hi3 : i = 0 ∨ i = 1 ∨ i = 2 := by omega
  cases ε <;> rcases hi3 with rfl | rfl | rfl <;> simp

theorem sgnD_mk (ε : Bool) {i : Nat} (hi : i ≤ 2) (d : Nat) : sgnD (i, kE ε i, d) = ε := by
  unfold sgnD kE
  have hi3 : i = 0 ∨ i = 1 ∨ i = 2 := by omega
  cases ε <;> rcases hi3 with rfl | rfl | rfl <;> simp

theorem sgnD_spec {j k : Nat} (hj : j ≤ 2) (hk : k ≤ 2) (hjk : j ≠ k) (e : Nat) :
    k = kE (sgnD (j, k, e)) j ∧ sgnD (j, 3 - j - k, e) = !sgnD (j, k, e) := by
  unfold sgnD kE
  have hj3 : j = 0 ∨ j = 1 ∨ j = 2 := by omega
  have hk3 : k = 0 ∨ k = 1 ∨ k = 2 := by omega
  rcases hj3 with rfl | rfl | rfl <;> rcases hk3 with rfl | rfl | rfl <;> simp at hjk ⊢

/-- lifted triangle darts `(chamber, sense, edge)` -/
def TSL (y : DSymData) : Finset (Nat × Bool × Nat) :=
  (Finset.Icc 1 y.size) ×ˢ (Finset.univ ×ˢ Finset.range 3)

/-- all valid boundary darts -/
def VS (y : DSymData) : Finset Dart :=
  ((Finset.range 3) ×ˢ ((Finset.range 3) ×ˢ (Finset.Icc 1 y.size))).filter fun δ => ValidDart y δ

abbrev LDart (y : DSymData) := (TSL y) ⊕ (VS y)

theorem mem_TSL {y : DSymData} {x : Nat × Bool × Nat} :
    x ∈ TSL y ↔ (1 ≤ x.1 ∧ x.1 ≤ y.size) ∧ x.2.2 ≤ 2 := by
  unfold TSL
  simp only [Finset.mem_product, Finset.mem_Icc, Finset.mem_univ, true_and, Finset.mem_range]
  omega

theorem mem_VS {y : DSymData} {δ : Dart} : δ ∈ VS y ↔ ValidDart y δ := by
  unfold VS
  rw [Finset.mem_filter]
  constructor
  · exact fun hh => hh.2
  · intro hh
    refine ⟨?_, hh⟩
    obtain ⟨h1, h2, _, h4, h5, _⟩ := hh
    simp only [Finset.mem_product, Finset.mem_range, Finset.mem_Icc]
    omega

theorem card_TSL (y : DSymData) : (TSL y).card = 6 * y.size := by
  unfold TSL
  rw [Finset.card_product, Finset.card_product, Nat.card_Icc, Finset.card_range, Finset.card_univ,
    Fintype.card_bool]
  omega

section
variable {y : DSymData} (h : ValidSym y) (hdim : y.dim = 2)

/-- around the lifted triangles -/
def phiTL (y : DSymData) : Equiv.Perm (TSL y) where
  toFun x := ⟨(x.1.1, x.1.2.1, sE x.1.2.1 x.1.2.2), by
    have := mem_TSL.1 x.2
    exact mem_TSL.2 ⟨this.1, (kE_facts x.1.2.1 this.2).2.2.1⟩⟩
  invFun x := ⟨(x.1.1, x.1.2.1, kE x.1.2.1 x.1.2.2), by
    have := mem_TSL.1 x.2
    exact mem_TSL.2 ⟨this.1, (kE_facts x.1.2.1 this.2).1⟩⟩
  left_inv x := by
    have := mem_TSL.1 x.2
    apply Subtype.ext
    show (x.1.1, x.1.2.1, kE x.1.2.1 (sE x.1.2.1 x.1.2.2)) = x.1
    rw [(kE_facts x.1.2.1 this.2).2.2.2.2.1]
  right_inv x := by
    have := mem_TSL.1 x.2
    apply Subtype.ext
    show (x.1.1, x.1.2.1, sE x.1.2.1 (kE x.1.2.1 x.1.2.2)) = x.1
    rw [(kE_facts x.1.2.1 this.2).2.2.2.2.2.1]

/-- along the boundary, all valid darts -/
noncomputable def psiV : Equiv.Perm (VS y) :=
  Equiv.ofBijective (fun δ => ⟨phi y δ.1, mem_VS.2 (phi_valid h.set hdim (mem_VS.1 δ.2)).1⟩)
    (Finite.injective_iff_bijective.1 (fun a b hab => by
      apply Subtype.ext
      exact phi_injective h.set hdim (congrArg Subtype.val hab)))

/-- across an edge of the lifted surface -/
def alphaLF : LDart y → LDart y
  | .inl x =>
    if hl : y.dset.opU x.1.2.2 x.1.1 = x.1.1 then
      .inr ⟨(x.1.2.2, kE x.1.2.1 x.1.2.2, x.1.1), by
        have := mem_TSL.1 x.2
        have hk := kE_facts x.1.2.1 this.2
        exact mem_VS.2 ⟨this.2, hk.1, fun e => hk.2.1 e.symm, this.1.1, this.1.2, hl⟩⟩
    else
      .inl ⟨(y.dset.opU x.1.2.2 x.1.1, !x.1.2.1, x.1.2.2), by
        have := mem_TSL.1 x.2
        exact mem_TSL.2 ⟨h.set.range x.1.2.2 x.1.1 (by show x.1.2.2 ≤ y.dim; omega) this.1.1 this.1.2, this.2⟩⟩
  | .inr δ => .inl ⟨(δ.1.2.2, sgnD δ.1, δ.1.1), by
      obtain ⟨h1, _, _, h4, h5, _⟩ := mem_VS.1 δ.2
      exact mem_TSL.2 ⟨⟨h4, h5⟩, h1⟩⟩

/-- the deck transformation -/
def iotaF : LDart y → LDart y
  | .inl x => .inl ⟨(x.1.1, !x.1.2.1, x.1.2.2), by
      have := mem_TSL.1 x.2
      exact mem_TSL.2 this⟩
  | .inr δ => .inr ⟨rho δ.1, mem_VS.2 (rho_valid (mem_VS.1 δ.2)).1⟩

/-- forget the membership proofs -/
def rawL {y : DSymData} : LDart y → (Nat × Bool × Nat) ⊕ Dart := Sum.map Subtype.val Subtype.val

theorem rawL_injective {y : DSymData} : Function.Injective (rawL (y := y)) :=
  Sum.map_injective.2 ⟨Subtype.val_injective, Subtype.val_injective⟩

theorem alphaLF_invol : Function.Involutive (alphaLF h hdim) := by
  intro x
  cases x with
  | inl x =>
    have hx := mem_TSL.1 x.2
    by_cases hl : y.dset.opU x.1.2.2 x.1.1 = x.1.1
    · simp only [alphaLF, dif_pos hl]
      congr 1
      apply Subtype.ext
      show (x.1.1, sgnD (x.1.2.2, kE x.1.2.1 x.1.2.2, x.1.1), x.1.2.2) = x.1
      rw [sgnD_mk x.1.2.1 hx.2]
    · have hinv := h.set.invol x.1.2.2 x.1.1 (by show x.1.2.2 ≤ y.dim; omega) hx.1.1 hx.1.2
      have hl' : ¬ y.dset.opU x.1.2.2 (y.dset.opU x.1.2.2 x.1.1) = y.dset.opU x.1.2.2 x.1.1 := by
        rw [hinv]; exact fun e => hl e.symm
      simp only [alphaLF, dif_neg hl, dif_neg hl']
      congr 1
      apply Subtype.ext
      show (y.dset.opU x.1.2.2 (y.dset.opU x.1.2.2 x.1.1), !!x.1.2.1, x.1.2.2) = x.1
      rw [hinv, Bool.not_not]
  | inr δ =>
    obtain ⟨h1, h2, h3, h4, h5, h6⟩ := mem_VS.1 δ.2
    simp only [alphaLF, dif_pos h6]
    congr 1
    apply Subtype.ext
    show (δ.1.1, kE (sgnD δ.1) δ.1.1, δ.1.2.2) = δ.1
    rw [← (sgnD_spec h1 h2 h3 δ.1.2.2).1]

theorem alphaLF_ne (x : LDart y) : alphaLF h hdim x ≠ x := by
  cases x with
  | inl x =>
    by_cases hl : y.dset.opU x.1.2.2 x.1.1 = x.1.1
    · simp only [alphaLF, dif_pos hl]; exact fun e => by cases e
    · simp only [alphaLF, dif_neg hl]
      intro e
      have := congrArg (fun z : TSL y => z.1.1) (Sum.inl_injective e)
      exact hl this
  | inr δ => simp only [alphaLF]; exact fun e => by cases e

omit h hdim in
theorem iotaF_invol : Function.Involutive (iotaF (y := y)) := by
  intro x
  cases x with
  | inl x =>
    simp only [iotaF]
    congr 1
    apply Subtype.ext
    show (x.1.1, !!x.1.2.1, x.1.2.2) = x.1
    rw [Bool.not_not]
  | inr δ =>
    simp only [iotaF]
    congr 1
    apply Subtype.ext
    exact (rho_valid (mem_VS.1 δ.2)).2.1

/-- the deck transformation commutes with crossing an edge -/
theorem iota_alpha (x : LDart y) : iotaF (alphaLF h hdim x) = alphaLF h hdim (iotaF x) := by
  apply rawL_injective
  cases x with
  | inl x =>
    have hx := mem_TSL.1 x.2
    by_cases hl : y.dset.opU x.1.2.2 x.1.1 = x.1.1
    · simp only [alphaLF, iotaF, dif_pos hl]
      show Sum.inr (rho (x.1.2.2, kE x.1.2.1 x.1.2.2, x.1.1)) =
        Sum.inr (x.1.2.2, kE (!x.1.2.1) x.1.2.2, x.1.1)
      unfold rho
      have hk := kE_facts x.1.2.1 hx.2
      rw [hk.2.2.2.2.2.2.2.1]
      rfl
    · simp only [alphaLF, iotaF, dif_neg hl]
  | inr δ =>
    obtain ⟨h1, h2, h3, h4, h5, h6⟩ := mem_VS.1 δ.2
    simp only [alphaLF, iotaF]
    show Sum.inl (δ.1.2.2, !sgnD δ.1, δ.1.1) = Sum.inl ((rho δ.1).2.2, sgnD (rho δ.1), (rho δ.1).1)
    have := (sgnD_spec h1 h2 h3 δ.1.2.2).2
    unfold rho
    simp only
    rw [this]

/-- around the faces of the lifted surface: triangles and boundary walks -/
noncomputable def phiL : Equiv.Perm (LDart y) := Equiv.sumCongr (phiTL y) (psiV h hdim)

noncomputable def alphaL : Equiv.Perm (LDart y) := (alphaLF_invol h hdim).toPerm (alphaLF h hdim)

/-- the deck transformation reverses the faces -/
theorem phi_iota (x : LDart y) : phiL h hdim (iotaF (phiL h hdim (iotaF x))) = x := by
  apply rawL_injective
  cases x with
  | inl x =>
    have hx := mem_TSL.1 x.2
    have hk := kE_facts x.1.2.1 hx.2
    show Sum.inl (x.1.1, !!x.1.2.1, sE (!!x.1.2.1) (sE (!x.1.2.1) x.1.2.2)) = Sum.inl x.1
    rw [Bool.not_not, hk.2.2.2.2.2.2.2.2.1, hk.2.2.2.2.2.1]
  | inr δ =>
    have hv := mem_VS.1 δ.2
    show Sum.inr (phi y (rho (phi y (rho δ.1)))) = Sum.inr δ.1
    have hρ := (rho_valid hv).1
    obtain ⟨hτv, hττ, _⟩ := tau_spec h.set hdim hρ .partialSym
    rw [phi_eq h.set hdim hρ, (rho_valid hτv).2.1, phi_tau h.set hdim hρ, (rho_valid hv).2.1]

/-! ### the two reflections whose product is the vertex rotation -/

/-- around the vertices of the lifted surface -/
noncomputable def sigmaL : Equiv.Perm (LDart y) := phiL h hdim * alphaL h hdim

/-- the reflection `α ∘ ι` -/
def reflA (x : LDart y) : LDart y := alphaLF h hdim (iotaF x)
/-- the reflection `φ ∘ ι` -/
noncomputable def reflB (x : LDart y) : LDart y := phiL h hdim (iotaF x)

theorem reflA_invol : Function.Involutive (reflA h hdim) := by
  intro x
  unfold reflA
  rw [iota_alpha h hdim (iotaF x), iotaF_invol x, alphaLF_invol h hdim]

theorem reflB_invol : Function.Involutive (reflB h hdim) := fun x => phi_iota h hdim x

theorem reflA_ne (x : LDart y) : reflA h hdim x ≠ x := by
  unfold reflA
  intro e
  have e2 : iotaF x = alphaLF h hdim x := by
    have := congrArg (alphaLF h hdim) e
    rwa [alphaLF_invol h hdim] at this
  cases x with
  | inl x =>
    by_cases hl : y.dset.opU x.1.2.2 x.1.1 = x.1.1
    · simp only [alphaLF, iotaF, dif_pos hl] at e2; cases e2
    · simp only [alphaLF, iotaF, dif_neg hl] at e2
      have := congrArg (fun z : TSL y => z.1.1) (Sum.inl_injective e2)
      exact hl this.symm
  | inr δ => simp only [alphaLF, iotaF] at e2; cases e2

theorem reflB_ne (x : LDart y) : reflB h hdim x ≠ x := by
  unfold reflB
  intro e
  have e' := congrArg rawL e
  cases x with
  | inl x =>
    have e3 : (Sum.inl (x.1.1, !x.1.2.1, sE (!x.1.2.1) x.1.2.2) : (Nat × Bool × Nat) ⊕ Dart) = Sum.inl x.1 := e'
    have := congrArg (fun z : Nat × Bool × Nat => z.2.1) (Sum.inl_injective e3)
    simp at this
  | inr δ =>
    have hv := mem_VS.1 δ.2
    have e3 : (Sum.inr (phi y (rho δ.1)) : (Nat × Bool × Nat) ⊕ Dart) = Sum.inr δ.1 := e'
    have e4 := Sum.inr_injective e3
    have hρ := (rho_valid hv).1
    obtain ⟨hτv, _, hne, _⟩ := tau_spec h.set hdim hρ .partialSym
    rw [phi_eq h.set hdim hρ] at e4
    have := congrArg rho e4
    rw [(rho_valid hτv).2.1] at this
    exact hne this

/-- the product of the two reflections is the vertex rotation -/
theorem cc_refl (x : LDart y) : Dihedral.cc (reflA h hdim) (reflB h hdim) x = sigmaL h hdim x := by
  unfold Dihedral.cc reflB reflA
  rw [iota_alpha h hdim (iotaF x), iotaF_invol x]
  rfl

/-- **a vertex rotation of the lifted surface is never mapped to itself by the reflection**:
    `x` and `α ι x` lie on different cycles -/
theorem not_sameCycle_reflA (x : LDart y) : ¬ (sigmaL h hdim).SameCycle x (reflA h hdim x) := by
  intro hs
  obtain ⟨n, hn⟩ := hs.exists_nat_pow_eq
  have hit : ∀ (k : Nat) (u : LDart y),
      (Dihedral.cc (reflA h hdim) (reflB h hdim))^[k] u = ((sigmaL h hdim) ^ k) u := by
    intro k
    induction k with
    | zero => intro u; rfl
    | succ k ih =>
      intro u
      rw [Function.iterate_succ_apply', ih, cc_refl, pow_succ', Equiv.Perm.mul_apply]
  obtain ⟨z, _, hz⟩ := Dihedral.loop_of_reflection (reflA_invol h hdim) (reflB_invol h hdim) n x
    (by rw [hit]; exact hn.symm)
  rcases hz with hz | hz
  · exact reflA_ne h hdim z hz
  · exact reflB_ne h hdim z hz

/-! ### the vertices of the lifted surface -/

/-- the 2-orbit of the vertex a lifted dart starts from -/
def vkeyLR (y : DSymData) : (Nat × Bool × Nat) ⊕ Dart → Nat × Nat × Nat
  | .inl x => keyOf y (x.2.2, kE x.2.1 x.2.2, x.1)
  | .inr δ => keyOf y (rho δ)

def vkeyL (y : DSymData) (x : LDart y) : Nat × Nat × Nat := vkeyLR y (rawL x)

theorem sigmaL_inl_step (x : TSL y) (hne : y.dset.opU x.1.2.2 x.1.1 ≠ x.1.1) :
    rawL (sigmaL h hdim (.inl x)) =
      .inl (y.dset.opU x.1.2.2 x.1.1, !x.1.2.1, sE (!x.1.2.1) x.1.2.2) := by
  show rawL (phiL h hdim (alphaLF h hdim (.inl x))) = _
  simp only [alphaLF, dif_neg hne]
  rfl

theorem sigmaL_inl_loop (x : TSL y) (hl : y.dset.opU x.1.2.2 x.1.1 = x.1.1) :
    rawL (sigmaL h hdim (.inl x)) = .inr (phi y (x.1.2.2, kE x.1.2.1 x.1.2.2, x.1.1)) := by
  show rawL (phiL h hdim (alphaLF h hdim (.inl x))) = _
  simp only [alphaLF, dif_pos hl]
  rfl

theorem sigmaL_inr (δ : VS y) :
    rawL (sigmaL h hdim (.inr δ)) = .inl (δ.1.2.2, sgnD δ.1, sE (sgnD δ.1) δ.1.1) := by
  show rawL (phiL h hdim (alphaLF h hdim (.inr δ))) = _
  simp only [alphaLF]
  rfl

/-- the rotation keeps the vertex -/
theorem vkeyL_sigma (x : LDart y) : vkeyL y (sigmaL h hdim x) = vkeyL y x := by
  cases x with
  | inl x =>
    obtain ⟨hd, hi⟩ := mem_TSL.1 x.2
    have hk := kE_facts x.1.2.1 hi
    obtain ⟨d0, hd0, ho0, hkey0⟩ := keyOf_exists h hdim hi hk.1 hd
    have ha : min x.1.2.2 (kE x.1.2.1 x.1.2.2) ≤ y.dim := by have := hk.1; omega
    have hb : max x.1.2.2 (kE x.1.2.1 x.1.2.2) ≤ y.dim := by have := hk.1; omega
    have hx : vkeyL y (.inl x) = keyOf y (x.1.2.2, kE x.1.2.1 x.1.2.2, x.1.1) := rfl
    rw [hx, hkey0]
    by_cases hl : y.dset.opU x.1.2.2 x.1.1 = x.1.1
    · unfold vkeyL
      rw [sigmaL_inl_loop h hdim x hl]
      show keyOf y (rho (phi y (x.1.2.2, kE x.1.2.1 x.1.2.2, x.1.1))) = _
      have hval : ValidDart y (x.1.2.2, kE x.1.2.1 x.1.2.2, x.1.1) :=
        ⟨hi, hk.1, fun e => hk.2.1 e.symm, hd.1, hd.2, hl⟩
      obtain ⟨hτv, _, _, _, hsum, hk', horb⟩ := tau_spec h.set hdim hval .partialSym
      rw [phi_eq h.set hdim hval, (rho_valid hτv).2.1]
      simp only at hsum hk' horb
      have hne := hτv.2.2.1
      have hk1 := hk.1
      have hk2 := hk.2.1
      apply keyOf_of_orb h ha hb hd0
      · rcases hk' with hk' | hk' <;> omega
      · rcases hk' with hk' | hk' <;> omega
      · apply ho0.trans
        by_cases hjk : x.1.2.2 ≤ kE x.1.2.1 x.1.2.2
        · rw [Nat.min_eq_left hjk, Nat.max_eq_right hjk]; exact horb.swap
        · rw [Nat.min_eq_right (by omega), Nat.max_eq_left (by omega)]; exact horb
    · unfold vkeyL
      rw [sigmaL_inl_step h hdim x hl]
      show keyOf y (sE (!x.1.2.1) x.1.2.2, kE (!x.1.2.1) (sE (!x.1.2.1) x.1.2.2), y.dset.opU x.1.2.2 x.1.1) = _
      have hk' := kE_facts (!x.1.2.1) hi
      rw [hk'.2.2.2.2.1, hk.2.2.2.2.2.2.2.2.1]
      have hk1 := hk.1
      have hk2 := hk.2.1
      apply keyOf_of_orb h ha hb hd0
      · show min (kE x.1.2.1 x.1.2.2) x.1.2.2 = _; exact Nat.min_comm _ _
      · show max (kE x.1.2.1 x.1.2.2) x.1.2.2 = _; exact Nat.max_comm _ _
      · exact orb2_step ho0 (by omega)
  | inr δ =>
    obtain ⟨h1, h2, h3, h4, h5, h6⟩ := mem_VS.1 δ.2
    unfold vkeyL
    rw [sigmaL_inr h hdim δ]
    show keyOf y (sE (sgnD δ.1) δ.1.1, kE (sgnD δ.1) (sE (sgnD δ.1) δ.1.1), δ.1.2.2) = keyOf y (rho δ.1)
    have hk := kE_facts (sgnD δ.1) h1
    have hs := (sgnD_spec h1 h2 h3 δ.1.2.2).1
    rw [hk.2.2.2.2.1, keyOf_swap]
    unfold rho sE
    rw [← hs]

/-- the reflection keeps the vertex -/
theorem vkeyL_reflA (x : LDart y) : vkeyL y (reflA h hdim x) = vkeyL y x := by
  cases x with
  | inl x =>
    obtain ⟨hd, hi⟩ := mem_TSL.1 x.2
    have hk := kE_facts x.1.2.1 hi
    have hx : vkeyL y (.inl x) = keyOf y (x.1.2.2, kE x.1.2.1 x.1.2.2, x.1.1) := rfl
    rw [hx]
    by_cases hl : y.dset.opU x.1.2.2 x.1.1 = x.1.1
    · have e : rawL (reflA h hdim (.inl x)) = .inr (x.1.2.2, kE (!x.1.2.1) x.1.2.2, x.1.1) := by
        show rawL (alphaLF h hdim (iotaF (.inl x))) = _
        simp only [iotaF, alphaLF, dif_pos hl]
        rfl
      unfold vkeyL
      rw [e]
      show keyOf y (rho (x.1.2.2, kE (!x.1.2.1) x.1.2.2, x.1.1)) = _
      unfold rho
      simp only
      rw [hk.2.2.2.2.2.2.2.1]
      have : 3 - x.1.2.2 - sE x.1.2.1 x.1.2.2 = kE x.1.2.1 x.1.2.2 := by
        unfold sE; have := hk.1; have := hk.2.1; omega
      rw [this]
    · have e : rawL (reflA h hdim (.inl x)) = .inl (y.dset.opU x.1.2.2 x.1.1, x.1.2.1, x.1.2.2) := by
        show rawL (alphaLF h hdim (iotaF (.inl x))) = _
        simp only [iotaF, alphaLF, dif_neg hl]
        show Sum.inl (y.dset.opU x.1.2.2 x.1.1, !!x.1.2.1, x.1.2.2) = _
        rw [Bool.not_not]
      unfold vkeyL
      rw [e]
      show keyOf y (x.1.2.2, kE x.1.2.1 x.1.2.2, y.dset.opU x.1.2.2 x.1.1) = _
      obtain ⟨d0, hd0, ho0, hkey0⟩ := keyOf_exists h hdim hi hk.1 hd
      have ha : min x.1.2.2 (kE x.1.2.1 x.1.2.2) ≤ y.dim := by have := hk.1; omega
      have hb : max x.1.2.2 (kE x.1.2.1 x.1.2.2) ≤ y.dim := by have := hk.1; omega
      rw [hkey0]
      have hk1 := hk.1
      have hk2 := hk.2.1
      exact keyOf_of_orb h ha hb hd0 _ rfl rfl (orb2_step ho0 (by omega))
  | inr δ =>
    obtain ⟨h1, h2, h3, h4, h5, h6⟩ := mem_VS.1 δ.2
    have hρ := (rho_valid (mem_VS.1 δ.2)).1
    have e : rawL (reflA h hdim (.inr δ)) = .inl (δ.1.2.2, sgnD (rho δ.1), δ.1.1) := rfl
    unfold vkeyL
    rw [e]
    show keyOf y (δ.1.1, kE (sgnD (rho δ.1)) δ.1.1, δ.1.2.2) = keyOf y (rho δ.1)
    have hs : (rho δ.1).2.1 = kE (sgnD (rho δ.1)) δ.1.1 :=
      (sgnD_spec hρ.1 hρ.2.1 hρ.2.2.1 (rho δ.1).2.2).1
    rw [← hs]
    rfl

/-- **every 2-orbit carries at least two vertices of the lifted surface** -/
theorem zQ_sigmaL_ge : 2 * ((typesOf y).length : ℚ) ≤ PermSign.zQ (sigmaL h hdim) := by
  have hz := PermSign.zQ_ge_two_fibres (sigmaL h hdim) (vkeyL y) (vkeyL_sigma h hdim) (reflA h hdim)
    (vkeyL_reflA h hdim) (not_sameCycle_reflA h hdim)
  have hsub : (allKeys y).toFinset ⊆ Finset.univ.image (vkeyL y) := by
    intro c hc
    rw [List.mem_toFinset, mem_allKeys] at hc
    obtain ⟨a, b, d0⟩ := c
    obtain ⟨hab, hb, hd0⟩ := hc
    simp only at hab hb hd0
    have ha' : a ≤ y.dim := by omega
    have hb' : b ≤ y.dim := by omega
    have ok := orbitReps2d_ok h.set ha' hb'
    have hd := ok.range d0 hd0
    have hv : 3 - a - b ≤ 2 := by omega
    have hk := kE_facts true hv
    rw [Finset.mem_image]
    refine ⟨.inl ⟨(d0, true, kE true (3 - a - b)), mem_TSL.2 ⟨hd, hk.1⟩⟩, Finset.mem_univ _, ?_⟩
    show keyOf y (kE true (3 - a - b), kE true (kE true (3 - a - b)), d0) = (a, b, d0)
    rw [hk.2.2.2.2.2.2.2.2.2.2]
    have hs : sE true (3 - a - b) = 3 - (3 - a - b) - kE true (3 - a - b) := rfl
    have hk1 := hk.1
    have hk2 := hk.2.1
    apply keyOf_of_orb h ha' hb' hd0
    · show min (kE true (3 - a - b)) (sE true (3 - a - b)) = a; omega
    · show max (kE true (3 - a - b)) (sE true (3 - a - b)) = b; omega
    · exact Orb2.refl d0
  have hcard : (typesOf y).length ≤ (Finset.univ.image (vkeyL y)).card := by
    rw [← allKeys_length, ← List.toFinset_card_of_nodup (allKeys_nodup h hdim)]
    exact Finset.card_le_card hsub
  have : ((typesOf y).length : ℚ) ≤ ((Finset.univ.image (vkeyL y)).card : ℚ) := by exact_mod_cast hcard
  linarith

end

end DSymVerif.D2
