/-
Helper lemmas for property C10 (free words), part 1:
letter encoding into Mathlib's `FreeGroup ℕ`, the keystone
`enc (normalized w) = FreeGroup.reduce (enc w)`, the same for the Spec's naive
rewriting oracle, reducedness, closure and homomorphism lemmas, expression trees.

Everything here is about the import-free model `DSymVerif.FW` and the import-free
Spec `DSymVerif.SpecC10`; the property theorems are re-exported in `Props/C10.lean`.
-/
import Mathlib.GroupTheory.FreeGroup.Reduce
import Mathlib.Algebra.Group.Commutator
import DSymVerif.Model.FreeWord
import DSymVerif.Spec.C10

namespace DSymVerif.FWP
open DSymVerif.FW DSymVerif.SpecC10 FreeGroup

/-! ### encoding of letters and words -/

/-- a non-zero letter `x` is the generator `|x|` with exponent sign `0 < x`; `0` is no letter -/
def encL (x : Int) : Option (ℕ × Bool) :=
  if x = 0 then none else some (x.natAbs, decide (0 < x))

/-- word of `FreeGroup ℕ` denoted by a letter list (zeros dropped) -/
def enc (w : List Int) : List (ℕ × Bool) := w.filterMap encL

/-- the element of the free group denoted by a letter list -/
def den (w : List Int) : FreeGroup ℕ := FreeGroup.mk (enc w)

/-- zero-free -/
def NZ (w : List Int) : Prop := ∀ x ∈ w, x ≠ 0

@[simp] theorem enc_nil : enc [] = [] := rfl

theorem enc_cons_zero (w : List Int) : enc (0 :: w) = enc w := by simp [enc, encL]

theorem enc_cons_ne {x : Int} (h : x ≠ 0) (w : List Int) :
    enc (x :: w) = (x.natAbs, decide (0 < x)) :: enc w := by simp [enc, encL, h]

theorem enc_append (a b : List Int) : enc (a ++ b) = enc a ++ enc b := by simp [enc]

theorem encL_neg {y : Int} (hy : y ≠ 0) :
    encL (-y) = some (y.natAbs, !decide (0 < y)) := by
  unfold encL
  have h0 : -y ≠ 0 := by omega
  rcases Int.lt_or_gt_of_ne hy with h | h
  · have h2 : ¬ (0 < y) := by omega
    have h3 : 0 < -y := by omega
    simp [h0, h2]; omega
  · have h3 : ¬ (0 < -y) := by omega
    simp [h0, h]; omega

theorem encL_some {y : Int} (hy : y ≠ 0) : encL y = some (y.natAbs, decide (0 < y)) := by
  simp [encL, hy]

theorem enc_neg_cons {x : Int} (h : x ≠ 0) (w : List Int) :
    enc (-x :: w) = (x.natAbs, !decide (0 < x)) :: enc w := by
  simp [enc, encL_neg h]

theorem encL_injective {x y : Int} (hx : x ≠ 0) (hy : y ≠ 0) (h : encL x = encL y) : x = y := by
  rw [encL_some hx, encL_some hy] at h
  simp only [Option.some.injEq, Prod.mk.injEq, decide_eq_decide] at h
  omega

/-- `enc` is injective on zero-free words -/
theorem enc_injective : ∀ {a b : List Int}, NZ a → NZ b → enc a = enc b → a = b
  | [], [], _, _, _ => rfl
  | [], y :: b, _, hb, h => by
      have hy : y ≠ 0 := hb y (by simp)
      simp [enc_cons_ne hy] at h
  | x :: a, [], ha, _, h => by
      have hx : x ≠ 0 := ha x (by simp)
      simp [enc_cons_ne hx] at h
  | x :: a, y :: b, ha, hb, h => by
      have hx : x ≠ 0 := ha x (by simp)
      have hy : y ≠ 0 := hb y (by simp)
      rw [enc_cons_ne hx, enc_cons_ne hy] at h
      injection h with h1 h2
      have hxy : x = y := by
        apply encL_injective hx hy
        rw [encL_some hx, encL_some hy, h1]
      have := enc_injective (a := a) (b := b)
        (fun z hz => ha z (by simp [hz])) (fun z hz => hb z (by simp [hz])) h2
      rw [hxy, this]

/-- `enc` of the formal inverse is Mathlib's `invRev` -/
theorem enc_inv (a : List Int) : enc (a.reverse.map (fun x => -x)) = invRev (enc a) := by
  induction a with
  | nil => simp
  | cons x a ih =>
    simp only [List.reverse_cons, List.map_append, List.map_cons, List.map_nil, enc_append, ih]
    by_cases hx : x = 0
    · subst hx; simp [enc_cons_zero]
    · rw [enc_neg_cons hx, enc_cons_ne hx, invRev_cons]
      simp [invRev]

/-! ### reducedness: the Spec's Boolean, a chain formulation, Mathlib's `IsReduced` -/

theorem isReduced_iff_chain : ∀ (w : List Int),
    isReduced w = true ↔ NZ w ∧ w.IsChain (fun x y => x ≠ -y)
  | [] => by simp [isReduced, NZ]
  | [x] => by simp [isReduced, NZ]
  | x :: y :: r => by
      have ih := isReduced_iff_chain (y :: r)
      simp only [isReduced, Bool.and_eq_true, ih, List.isChain_cons_cons, NZ, List.mem_cons,
        bne_iff_ne, ne_eq, forall_eq_or_imp]
      tauto

theorem isReduced_nz {w : List Int} (h : isReduced w = true) : NZ w :=
  ((isReduced_iff_chain w).1 h).1

theorem isReduced_reverse (w : List Int) : isReduced w.reverse = isReduced w := by
  rw [Bool.eq_iff_iff, isReduced_iff_chain, isReduced_iff_chain, List.isChain_reverse]
  have : (NZ w.reverse ↔ NZ w) := by simp [NZ]
  rw [this]
  have : (w.IsChain (fun a b => b ≠ -a) ↔ w.IsChain (fun x y => x ≠ -y)) :=
    List.IsChain.iff (fun a b => by omega)
  rw [this]

/-- on zero-free words the Spec's Boolean is Mathlib's `IsReduced` of the encoding -/
theorem nz_isReduced_iff : ∀ (w : List Int), NZ w →
    (isReduced w = true ↔ IsReduced (enc w))
  | [], _ => by simp [isReduced]
  | [x], h => by
      have hx : x ≠ 0 := h x (by simp)
      simp [isReduced, hx, enc_cons_ne hx]
  | x :: y :: r, h => by
      have hx : x ≠ 0 := h x (by simp)
      have hy : y ≠ 0 := h y (by simp)
      have ih := nz_isReduced_iff (y :: r) (fun z hz => h z (by simp [hz]))
      rw [enc_cons_ne hx, enc_cons_ne hy, isReduced_cons_cons, ← enc_cons_ne hy, ← ih]
      simp only [isReduced, Bool.and_eq_true, bne_iff_ne, ne_eq, hx, not_false_eq_true, true_and,
        decide_eq_decide]
      constructor
      · rintro ⟨h1, h2⟩
        exact ⟨fun _ => by omega, h2⟩
      · rintro ⟨h1, h2⟩
        refine ⟨fun hxy => ?_, h2⟩
        have := h1 (by omega)
        omega

theorem isReduced_iff (w : List Int) :
    isReduced w = true ↔ (0 ∉ w ∧ IsReduced (enc w)) := by
  constructor
  · intro h
    have hz := isReduced_nz h
    exact ⟨fun h0 => hz 0 h0 rfl, (nz_isReduced_iff w hz).1 h⟩
  · rintro ⟨h0, h⟩
    have hz : NZ w := fun x hx hx0 => h0 (hx0 ▸ hx)
    exact (nz_isReduced_iff w hz).2 h

/-! ### the keystone: `normalized` computes `FreeGroup.reduce` -/

theorem isReduced_tail {x : Int} {l : List Int} (h : isReduced (x :: l) = true) :
    isReduced l = true := by
  cases l with
  | nil => rfl
  | cons y r => simp [isReduced] at h; exact h.2

theorem isReduced_head {x : Int} {l : List Int} (h : isReduced (x :: l) = true) : x ≠ 0 :=
  isReduced_nz h x (by simp)

/-- the loop body keeps the (reversed) buffer reduced -/
theorem step_isReduced (acc : List Int) (x : Int) (h : isReduced acc = true) :
    isReduced (step acc x) = true := by
  unfold step
  cases acc with
  | nil => by_cases hx : x ≠ 0 <;> simp [hx, isReduced]
  | cons y ys =>
    by_cases h1 : x = -y
    · simp [h1]; exact isReduced_tail h
    · by_cases hx : x ≠ 0
      · simp only [h1, hx, if_false, if_true, ne_eq, not_false_eq_true]
        simp only [isReduced, Bool.and_eq_true, bne_iff_ne, ne_eq]
        exact ⟨⟨hx, h1⟩, h⟩
      · simp [h1, hx]; exact h

theorem foldl_step_isReduced (rest acc : List Int) (h : isReduced acc = true) :
    isReduced (rest.foldl step acc) = true := by
  induction rest generalizing acc with
  | nil => simpa
  | cons x r ih => exact ih _ (step_isReduced acc x h)

theorem normalized_isReduced (w : List Int) : isReduced (normalized w) = true := by
  unfold normalized
  rw [isReduced_reverse]
  exact foldl_step_isReduced w [] rfl

/-- each iteration is zero or one `Red.Step` on the encoded words -/
theorem red_fold (rest acc : List Int) (h : isReduced acc = true) :
    Red (enc acc.reverse ++ enc rest) (enc (rest.foldl step acc).reverse) := by
  induction rest generalizing acc with
  | nil => simp; exact Red.refl
  | cons x rest ih =>
    simp only [List.foldl_cons]
    have hg := step_isReduced acc x h
    refine Red.trans ?_ (ih (step acc x) hg)
    unfold step
    cases acc with
    | nil =>
      by_cases hx : x ≠ 0
      · simp [hx, enc_cons_ne hx]; exact Red.refl
      · have : x = 0 := by omega
        subst this; simp [enc_cons_zero]; exact Red.refl
    | cons y ys =>
      have hy : y ≠ 0 := isReduced_head h
      by_cases h1 : x = -y
      · subst h1
        simp only [if_true]
        have e1 : enc (y :: ys).reverse = enc ys.reverse ++ [(y.natAbs, decide (0 < y))] := by
          simp [enc_append, enc_cons_ne hy]
        rw [e1, enc_neg_cons hy]
        have := @Red.Step.not ℕ (enc ys.reverse) (enc rest) y.natAbs (decide (0 < y))
        simp only [List.append_assoc, List.cons_append, List.nil_append] at this ⊢
        exact Red.Step.to_red this
      · by_cases hx : x ≠ 0
        · simp only [h1, hx, if_false, if_true, ne_eq, not_false_eq_true]
          have e1 : enc (x :: y :: ys).reverse
              = enc (y :: ys).reverse ++ [(x.natAbs, decide (0 < x))] := by
            rw [List.reverse_cons, enc_append, enc_cons_ne hx]; simp
          rw [e1, enc_cons_ne hx]
          simp only [List.append_assoc, List.cons_append, List.nil_append]; exact Red.refl
        · have hx0 : x = 0 := by omega
          subst hx0
          have hy' : ¬ (0 = -y) := by omega
          simp only [hy', if_false, ne_eq, not_true_eq_false]
          rw [enc_cons_zero]

theorem red_normalized (w : List Int) : Red (enc w) (enc (normalized w)) := by
  have := red_fold w [] rfl
  simpa [normalized] using this

theorem normalized_eq_reduce (w : List Int) : enc (normalized w) = reduce (enc w) := by
  have h2 : IsReduced (enc (normalized w)) :=
    ((isReduced_iff _).1 (normalized_isReduced w)).2
  rw [reduce.eq_of_red (red_normalized w), h2.reduce_eq]

/-- a reduced word with the right encoding *is* the normal form -/
theorem eq_normalized_of {w r : List Int} (hr : isReduced r = true)
    (he : enc r = reduce (enc w)) : r = normalized w :=
  enc_injective (isReduced_nz hr) (isReduced_nz (normalized_isReduced w))
    (he.trans (normalized_eq_reduce w).symm)

theorem normalized_of_isReduced {w : List Int} (h : isReduced w = true) : normalized w = w :=
  (eq_normalized_of h ((isReduced_iff w).1 h).2.reduce_eq.symm).symm

theorem normalized_idem (w : List Int) : normalized (normalized w) = normalized w :=
  normalized_of_isReduced (normalized_isReduced w)

/-- words denoting the same group element have the same normal form -/
theorem normalized_congr {v w : List Int} (h : enc v = enc w) : normalized v = normalized w :=
  eq_normalized_of (normalized_isReduced v) (by rw [normalized_eq_reduce, h])

/-! ### the Spec's naive rewriting oracle `reduceSpec` is the same function -/

theorem cancelOnce_none : ∀ (w : List Int), cancelOnce w = none → isReduced w = true
  | [], _ => rfl
  | [x], h => by
      by_cases hx : x = 0
      · simp [cancelOnce, hx] at h
      · simp [isReduced, hx]
  | x :: y :: r, h => by
      by_cases hx : x = 0
      · simp [cancelOnce, hx] at h
      · by_cases hxy : x = -y
        · subst hxy
          have hy : y ≠ 0 := by omega
          simp [cancelOnce, hy] at h
        · have h' : cancelOnce (y :: r) = none := by
            simpa [cancelOnce, hx, hxy] using h
          have ih := cancelOnce_none (y :: r) h'
          simp [isReduced, hx, hxy, ih]

theorem cancelOnce_some : ∀ (w w' : List Int), cancelOnce w = some w' →
    Red (enc w) (enc w') ∧ w'.length < w.length
  | [], _, h => by simp [cancelOnce] at h
  | [x], w', h => by
      by_cases hx : x = 0
      · subst hx
        simp [cancelOnce] at h
        subst h
        simp [enc_cons_zero, Red.refl]
      · simp [cancelOnce, hx] at h
  | x :: y :: r, w', h => by
      by_cases hx : x = 0
      · subst hx
        simp [cancelOnce] at h
        subst h
        simp [enc_cons_zero, Red.refl]
      · by_cases hxy : x = -y
        · subst hxy
          have hy : y ≠ 0 := by omega
          simp [cancelOnce, hy] at h
          subst h
          rw [enc_neg_cons hy, enc_cons_ne hy]
          exact ⟨Red.Step.to_red Red.Step.cons_not_rev, by simp only [List.length_cons]; omega⟩
        · cases h' : cancelOnce (y :: r) with
          | none => simp [cancelOnce, hx, hxy, h'] at h
          | some w'' =>
            have ih := cancelOnce_some (y :: r) w'' h'
            simp [cancelOnce, hx, hxy, h'] at h
            subst h
            rw [enc_cons_ne hx, enc_cons_ne hx]
            exact ⟨Red.cons_cons ih.1, by simpa using ih.2⟩

theorem reduceFuel_spec : ∀ (n : Nat) (w : List Int), w.length ≤ n →
    isReduced (reduceFuel n w) = true ∧ Red (enc w) (enc (reduceFuel n w))
  | 0, w, h => by
      have : w = [] := List.eq_nil_of_length_eq_zero (by omega)
      subst this
      exact ⟨rfl, Red.refl⟩
  | n + 1, w, h => by
      cases hc : cancelOnce w with
      | none =>
        simp only [reduceFuel, hc]
        exact ⟨cancelOnce_none w hc, Red.refl⟩
      | some w' =>
        simp only [reduceFuel, hc]
        have hs := cancelOnce_some w w' hc
        have ih := reduceFuel_spec n w' (by omega)
        exact ⟨ih.1, hs.1.trans ih.2⟩

theorem reduceSpec_isReduced (w : List Int) : isReduced (reduceSpec w) = true :=
  (reduceFuel_spec w.length w (Nat.le_refl _)).1

theorem reduceSpec_eq_reduce (w : List Int) : enc (reduceSpec w) = reduce (enc w) := by
  have h := reduceFuel_spec w.length w (Nat.le_refl _)
  have h2 : IsReduced (enc (reduceSpec w)) := ((isReduced_iff _).1 h.1).2
  rw [reduce.eq_of_red h.2]
  exact h2.reduce_eq.symm

/-- the Spec's oracle and the model's `normalized` are the same function -/
theorem reduceSpec_eq_normalized (w : List Int) : reduceSpec w = normalized w :=
  eq_normalized_of (reduceSpec_isReduced w) (reduceSpec_eq_reduce w)

/-! ### closure: every operation returns a reduced word (for all operands) -/

theorem new_isReduced (w : List Int) : isReduced (FW.new w) = true := normalized_isReduced w

theorem new_of_isReduced {w : List Int} (h : isReduced w = true) : FW.new w = w :=
  normalized_of_isReduced h

theorem empty_eq : FW.empty = [] := rfl

theorem mul_isReduced (a b : List Int) : isReduced (FW.mul a b) = true := new_isReduced _

theorem mulLetter_isReduced (a : List Int) (x : Int) : isReduced (FW.mulLetter a x) = true :=
  new_isReduced _

theorem mulAssign_isReduced (a b : List Int) : isReduced (FW.mulAssign a b) = true :=
  new_isReduced _

theorem inverse_isReduced (a : List Int) : isReduced (FW.inverse a) = true := new_isReduced _

theorem powNat_isReduced (a : List Int) : ∀ n : Nat, isReduced (FW.powNat a n) = true
  | 0 => rfl
  | _ + 1 => mul_isReduced _ _

theorem raisedTo_isReduced (a : List Int) (m : Int) : isReduced (FW.raisedTo a m) = true := by
  unfold FW.raisedTo
  split <;> exact powNat_isReduced _ _

theorem commutator_isReduced (a b : List Int) : isReduced (FW.commutator a b) = true :=
  mul_isReduced _ _

theorem rotated_nil (i : Int) : FW.rotated [] i = [] := by simp [FW.rotated]

theorem rotated_of_ne_nil {a : List Int} (h : a ≠ []) (i : Int) :
    FW.rotated a i = normalized
      (a.drop (i % (a.length : Int)).toNat ++ a.take (i % (a.length : Int)).toNat) := by
  have e : i.emod (a.length : Int) = i % (a.length : Int) := rfl
  simp [FW.rotated, h, FW.new, e]

theorem rotated_isReduced (a : List Int) (i : Int) : isReduced (FW.rotated a i) = true := by
  by_cases h : a = []
  · subst h; rw [rotated_nil]; rfl
  · rw [rotated_of_ne_nil h]; exact normalized_isReduced _

/-! ### homomorphism: the operations are the group operations of `FreeGroup ℕ` -/

theorem den_nil : den [] = 1 := rfl

theorem den_append (a b : List Int) : den (a ++ b) = den a * den b := by
  simp [den, enc_append]

theorem den_invRaw (a : List Int) : den (a.reverse.map (fun x => -x)) = (den a)⁻¹ := by
  unfold den
  rw [enc_inv, inv_mk]

theorem den_zero : den [0] = 1 := by simp [den, enc_cons_zero]; rfl

theorem den_pos (n : ℕ) (h : 0 < n) : den [(n : Int)] = FreeGroup.of n := by
  have hn : (n : Int) ≠ 0 := by omega
  have hp : (0 : Int) < n := by omega
  simp [den, enc_cons_ne hn, h, FreeGroup.of]

theorem den_neg (n : ℕ) (h : 0 < n) : den [-(n : Int)] = (FreeGroup.of n)⁻¹ := by
  have hn : (n : Int) ≠ 0 := by omega
  have hp : (0 : Int) < n := by omega
  simp [den, enc_neg_cons hn, h, FreeGroup.of, inv_mk, invRev]

theorem den_new (w : List Int) : den (FW.new w) = den w := by
  unfold den FW.new
  rw [normalized_eq_reduce]
  exact reduce.self

theorem den_normalized (w : List Int) : den (normalized w) = den w := den_new w

theorem den_mul (a b : List Int) : den (FW.mul a b) = den a * den b := by
  rw [FW.mul, den_new, FW.rawMul, den_append]

theorem den_mulAssign (a b : List Int) : den (FW.mulAssign a b) = den a * den b := by
  rw [FW.mulAssign, den_new, FW.rawMul, den_append]

theorem den_mulLetter (a : List Int) (x : Int) : den (FW.mulLetter a x) = den a * den [x] := by
  rw [FW.mulLetter, den_new, FW.rawMul, den_append]

theorem den_inverse (a : List Int) : den (FW.inverse a) = (den a)⁻¹ := by
  rw [FW.inverse, den_new, den_invRaw]

theorem den_powNat (a : List Int) : ∀ n : Nat, den (FW.powNat a n) = den a ^ n
  | 0 => by simp [FW.powNat, empty_eq, den_nil]
  | n + 1 => by rw [FW.powNat, den_mul, den_powNat a n, pow_succ]

theorem den_raisedTo (a : List Int) (m : Int) : den (FW.raisedTo a m) = den a ^ m := by
  unfold FW.raisedTo
  split
  · next h =>
    rw [den_powNat, den_inverse, inv_pow, ← zpow_natCast, ← zpow_neg]
    congr 1
    omega
  · next h =>
    rw [den_powNat, ← zpow_natCast]
    congr 1
    omega

theorem den_commutator (a b : List Int) :
    den (FW.commutator a b) = den a * den b * (den a)⁻¹ * (den b)⁻¹ := by
  simp only [FW.commutator, den_mul, den_inverse]

open scoped commutatorElement in
theorem den_commutator' (a b : List Int) :
    den (FW.commutator a b) = ⁅den a, den b⁆ := by
  rw [den_commutator, commutatorElement_def]

/-- the model's value is determined by the group element: it is its normal form -/
theorem eq_normalized_of_den {r w : List Int} (hr : isReduced r = true) (h : den r = den w) :
    r = normalized w := by
  apply eq_normalized_of hr
  have := reduce.sound h
  rwa [((isReduced_iff r).1 hr).2.reduce_eq] at this

/-- equality of values is equality in the free group -/
theorem eq_iff_den_eq {a b : List Int} (ha : isReduced a = true) (hb : isReduced b = true) :
    a = b ↔ den a = den b := by
  constructor
  · rintro rfl; rfl
  · intro h
    rw [eq_normalized_of_den ha h, normalized_of_isReduced hb]

theorem eq_of_den_eq {a b : List Int} (ha : isReduced a = true) (hb : isReduced b = true)
    (h : den a = den b) : a = b := (eq_iff_den_eq ha hb).2 h

/-- the group axioms, on values (`mul` is associative on *all* lists, the other laws
    need the operand to be a value, i.e. reduced) -/
theorem mul_assoc' (a b c : List Int) : FW.mul (FW.mul a b) c = FW.mul a (FW.mul b c) :=
  eq_of_den_eq (mul_isReduced _ _) (mul_isReduced _ _) (by simp only [den_mul, mul_assoc])

theorem mul_empty {a : List Int} (ha : isReduced a = true) : FW.mul a FW.empty = a :=
  eq_of_den_eq (mul_isReduced _ _) ha (by rw [den_mul, empty_eq, den_nil, mul_one])

theorem empty_mul {a : List Int} (ha : isReduced a = true) : FW.mul FW.empty a = a :=
  eq_of_den_eq (mul_isReduced _ _) ha (by rw [den_mul, empty_eq, den_nil, one_mul])

theorem mul_inverse (a : List Int) : FW.mul a (FW.inverse a) = FW.empty :=
  eq_of_den_eq (mul_isReduced _ _) rfl (by
    rw [den_mul, den_inverse, empty_eq, den_nil, mul_inv_cancel])

theorem inverse_mul (a : List Int) : FW.mul (FW.inverse a) a = FW.empty :=
  eq_of_den_eq (mul_isReduced _ _) rfl (by
    rw [den_mul, den_inverse, empty_eq, den_nil, inv_mul_cancel])

/-- reduced words are exactly the `toWord` normal forms of Mathlib -/
theorem enc_eq_toWord {a : List Int} (ha : isReduced a = true) : enc a = (den a).toWord := by
  rw [den, toWord_mk, ((isReduced_iff a).1 ha).2.reduce_eq]

/-! ### all histories of mixed operations: expression trees -/

/-- an expression over the FreeWord API (rotation is not a group operation and is
    covered by `rotated_isReduced` only) -/
inductive Expr where
  | atom (w : List Int)
  | mul (a b : Expr)
  | mulAssign (a b : Expr)
  | inv (a : Expr)
  | pow (a : Expr) (m : Int)
  | comm (a b : Expr)
  | letter (a : Expr) (x : Int)

/-- evaluation with the model of the library -/
def Expr.evalModel : Expr → List Int
  | .atom w => FW.new w
  | .mul a b => FW.mul a.evalModel b.evalModel
  | .mulAssign a b => FW.mulAssign a.evalModel b.evalModel
  | .inv a => FW.inverse a.evalModel
  | .pow a m => FW.raisedTo a.evalModel m
  | .comm a b => FW.commutator a.evalModel b.evalModel
  | .letter a x => FW.mulLetter a.evalModel x

/-- evaluation in Mathlib's free group -/
def Expr.evalGroup : Expr → FreeGroup ℕ
  | .atom w => den w
  | .mul a b => a.evalGroup * b.evalGroup
  | .mulAssign a b => a.evalGroup * b.evalGroup
  | .inv a => a.evalGroup⁻¹
  | .pow a m => a.evalGroup ^ m
  | .comm a b => a.evalGroup * b.evalGroup * a.evalGroup⁻¹ * b.evalGroup⁻¹
  | .letter a x => a.evalGroup * den [x]

/-- the raw (unreduced) word of an expression, as the driver's `runRaw` builds it
    from the Spec's `inv` and `powRaw` -/
def Expr.raw : Expr → List Int
  | .atom w => w
  | .mul a b => a.raw ++ b.raw
  | .mulAssign a b => a.raw ++ b.raw
  | .inv a => SpecC10.inv a.raw
  | .pow a m => if m < 0 then powRaw (SpecC10.inv a.raw) (-m).toNat else powRaw a.raw m.toNat
  | .comm a b => a.raw ++ b.raw ++ SpecC10.inv a.raw ++ SpecC10.inv b.raw
  | .letter a x => a.raw ++ [x]

theorem evalModel_isReduced : ∀ e : Expr, isReduced e.evalModel = true
  | .atom _ => new_isReduced _
  | .mul _ _ => mul_isReduced _ _
  | .mulAssign _ _ => mulAssign_isReduced _ _
  | .inv _ => inverse_isReduced _
  | .pow _ _ => raisedTo_isReduced _ _
  | .comm _ _ => commutator_isReduced _ _
  | .letter _ _ => mulLetter_isReduced _ _

theorem den_evalModel : ∀ e : Expr, den e.evalModel = e.evalGroup
  | .atom w => den_new w
  | .mul a b => by simp only [Expr.evalModel, Expr.evalGroup, den_mul, den_evalModel a, den_evalModel b]
  | .mulAssign a b => by
      simp only [Expr.evalModel, Expr.evalGroup, den_mulAssign, den_evalModel a, den_evalModel b]
  | .inv a => by simp only [Expr.evalModel, Expr.evalGroup, den_inverse, den_evalModel a]
  | .pow a m => by simp only [Expr.evalModel, Expr.evalGroup, den_raisedTo, den_evalModel a]
  | .comm a b => by
      simp only [Expr.evalModel, Expr.evalGroup, den_commutator, den_evalModel a, den_evalModel b]
  | .letter a x => by simp only [Expr.evalModel, Expr.evalGroup, den_mulLetter, den_evalModel a]

theorem den_specInv (a : List Int) : den (SpecC10.inv a) = (den a)⁻¹ := den_invRaw a

theorem den_powRaw (a : List Int) : ∀ n : Nat, den (powRaw a n) = den a ^ n
  | 0 => by simp [powRaw, den_nil]
  | n + 1 => by rw [powRaw, den_append, den_powRaw a n, pow_succ]

theorem den_raw : ∀ e : Expr, den e.raw = e.evalGroup
  | .atom w => rfl
  | .mul a b => by simp only [Expr.raw, Expr.evalGroup, den_append, den_raw a, den_raw b]
  | .mulAssign a b => by simp only [Expr.raw, Expr.evalGroup, den_append, den_raw a, den_raw b]
  | .inv a => by simp only [Expr.raw, Expr.evalGroup, den_specInv, den_raw a]
  | .pow a m => by
      simp only [Expr.raw, Expr.evalGroup]
      split
      · rw [den_powRaw, den_specInv, den_raw a, inv_pow, ← zpow_natCast, ← zpow_neg]
        congr 1; omega
      · rw [den_powRaw, den_raw a, ← zpow_natCast]
        congr 1; omega
  | .comm a b => by
      simp only [Expr.raw, Expr.evalGroup, den_append, den_specInv, den_raw a, den_raw b]
  | .letter a x => by simp only [Expr.raw, Expr.evalGroup, den_append, den_raw a]

/-- the model evaluates an expression to the Spec's normal form of its raw word -/
theorem evalModel_eq_reduceSpec (e : Expr) : e.evalModel = reduceSpec e.raw := by
  rw [reduceSpec_eq_normalized]
  exact eq_normalized_of_den (evalModel_isReduced e) ((den_evalModel e).trans (den_raw e).symm)

/-! ### indexing (`impl Index<usize> for FreeWord`) -/

theorem letterAt_eq_getElem? : ∀ (a : List Int) (k : Nat), letterAt a k = a[k]?
  | [], _ => by simp [letterAt]
  | _ :: _, 0 => by simp [letterAt]
  | _ :: r, k + 1 => by simp [letterAt, letterAt_eq_getElem? r k]

theorem index_ok {a : List Int} {k : Nat} (h : k < a.length) : FW.index a k = .ok a[k] := by
  simp [FW.index, List.getElem?_eq_getElem h]

theorem index_panic {a : List Int} {k : Nat} (h : a.length ≤ k) : FW.index a k = .panic := by
  simp [FW.index, List.getElem?_eq_none h]

theorem index_toOption (a : List Int) (k : Nat) : (FW.index a k).toOption = letterAt a k := by
  rw [letterAt_eq_getElem?]
  unfold FW.index
  cases a[k]? <;> rfl

end DSymVerif.FWP
