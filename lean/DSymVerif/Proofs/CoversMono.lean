/-
Property C05, part 9: covers defined by a monodromy representation.

Let `ds` be a valid symbol and `ρ : TGroup ds →* Perm (Fin n)` a permutation representation of
its textbook orbifold group (C09: generators = chamber facets `x(d,i)`; relators = pairing,
spanning-tree facets, 2-orbit walks to the power `v`).  Crossing facet `(d,i)` moves sheet `k`
to `τ(d,i) k = ρ(x(d,i))⁻¹ k`.  For every sheet map σ that agrees with τ on the range:

* σ is compatible (pairing relator), so `cover ds n σ` returns a covering `c` (`cover_ok`);
* the alternating walk of `c` from `(k,b)` follows the walk of `ds` from `b`, the sheet after `t`
  crossings being `ρ(W_t)⁻¹ k` for the product `W_t` of the crossed generators;
* hence `(op_j ∘ op_i)^(r·v)` fixes every chamber of `c` (2-orbit relator), so every orbit
  length of `c` divides the degree of `ds`: all degrees are preserved, far operations commute,
  `c` is a valid symbol and complete if `ds` is;
* if `ds` is connected and `ρ` is transitive, `c` is connected (tree facets keep the sheet, every
  group element is a product of facet generators).
-/
import DSymVerif.Proofs.Covers
import DSymVerif.Proofs.FundGroupIso
import DSymVerif.Proofs.FundGroupTree
import DSymVerif.Proofs.DSetTravSpec

namespace DSymVerif.CoversP
open DSymVerif DSymVerif.DS DSymVerif.FG DSymVerif.FGP

section
variable {ds : DSymData} {n : Nat} (ρ : TGroup ds →* Equiv.Perm (Fin n))

/-- the sheet permutation of crossing facet `(d,i)` -/
noncomputable def tau (d i : Nat) : Equiv.Perm (Fin n) := (ρ (xT ds d i))⁻¹

/-- the sheet map agrees with the monodromy on sheets `< n`, indices `≤ dim`, chambers `1..size` -/
def Agrees (σ : Nat → Nat → Nat → Nat) : Prop :=
  ∀ k i d (hk : k < n), i ≤ ds.dim → 1 ≤ d → d ≤ ds.size → σ k i d = (tau ρ d i ⟨k, hk⟩).val

theorem tau_pair {i d : Nat} (hi : i ≤ ds.dim) (h1 : 1 ≤ d) (h2 : d ≤ ds.size) :
    tau ρ (ds.dset.opU i d) i = (tau ρ d i)⁻¹ := by
  unfold tau
  rw [← opT_eq hi h1 h2, xT_pair, map_inv]

variable {ρ} {σ : Nat → Nat → Nat → Nat} (hσ : Agrees ρ σ)
include hσ

/-- a sheet map that agrees with a monodromy representation is compatible -/
theorem agrees_compat (hv : ValidSet ds.dset) : SheetCompat ds.dset n σ := by
  constructor
  · intro k i d hk hi h1 h2
    rw [hσ k i d hk hi h1 h2]
    exact Fin.isLt _
  · intro k i d hk hi h1 h2
    have hr := hv.range i d hi h1 h2
    have hk' : σ k i d < n := by rw [hσ k i d hk hi h1 h2]; exact Fin.isLt _
    rw [hσ (σ k i d) i (ds.dset.opU i d) hk' hi hr.1 hr.2, tau_pair ρ hi h1 h2]
    have : (⟨σ k i d, hk'⟩ : Fin n) = tau ρ d i ⟨k, hk⟩ := Fin.ext (hσ k i d hk hi h1 h2)
    rw [this]
    simp

end

/-! ### the alternating walk in the cover -/

theorem ix_le {a b dim : Nat} (ha : a ≤ dim) (hb : b ≤ dim) (t : Nat) : ix a b t ≤ dim := by
  unfold ix; split <;> assumption

theorem ix_even (a b k : Nat) : ix a b (2 * k) = a := by
  unfold ix; rw [if_pos (by omega)]

section walk
variable {ds : DSymData} {n : Nat} {ρ : TGroup ds →* Equiv.Perm (Fin n)} {σ : Nat → Nat → Nat → Nat}
  (hσ : Agrees ρ σ) (hv : ValidSet ds.dset) {c : DSetData}
  (hop : ∀ i d, i ≤ ds.dim → 1 ≤ d → d ≤ n * ds.size → c.opU i d = coverF ds.dset σ i d)
include hσ hv hop

/-- after `t` crossings from sheet `k` over chamber `b0` the walk of the cover is on sheet
    `ρ(W_t)⁻¹ k` over the `t`-th chamber of the walk of the base -/
theorem cover_walk {a b : Nat} (ha : a ≤ ds.dim) (hb : b ≤ ds.dim) {b0 : Nat} (h1 : 1 ≤ b0)
    (h2 : b0 ≤ ds.size) (k : Fin n) : ∀ t,
    wk (fun i e => c.opU i e) a b t (ds.size * k.val + b0) =
      ds.size * ((ρ (Wf (opT ds) (xT ds) a b t b0))⁻¹ k).val + wk (opT ds) a b t b0
  | 0 => by
    show ds.size * k.val + b0 = _
    simp [Wf, wk]
  | t + 1 => by
    rw [wk_succ_last, cover_walk ha hb h1 h2 k t, wk_succ_last, Wf_succ_last]
    have hi := ix_le ha hb t
    have hr := wk_range hv h1 h2 t a b
    generalize wk (opT ds) a b t b0 = e at hr
    generalize hW : (ρ (Wf (opT ds) (xT ds) a b t b0))⁻¹ k = kt
    have hd := cmk_range (sz := ds.size) (n := n) kt.isLt hr.1 hr.2
    show c.opU (ix a b t) (ds.size * kt.val + e) = _
    rw [hop _ _ hi hd.1 hd.2]
    have hmk : coverF ds.dset σ (ix a b t) (ds.dset.size * kt.val + e) =
        ds.dset.size * σ kt.val (ix a b t) e + ds.dset.opU (ix a b t) e := coverF_mk hr.1 hr.2
    have hmk' : coverF ds.dset σ (ix a b t) (ds.size * kt.val + e) =
        ds.size * σ kt.val (ix a b t) e + ds.dset.opU (ix a b t) e := hmk
    rw [hmk', hσ kt.val (ix a b t) e kt.isLt hi hr.1 hr.2, opT_eq hi hr.1 hr.2]
    congr 2
    rw [map_mul, mul_inv_rev, Equiv.Perm.mul_apply, ← hW]
    rfl

/-- going `v` times round a closed walk of the base applies the `v`-th power of the holonomy -/
theorem cover_rounds {a b : Nat} (ha : a ≤ ds.dim) (hb : b ≤ ds.dim) {b0 : Nat} (h1 : 1 ≤ b0)
    (h2 : b0 ≤ ds.size) {r : Nat} (hper : wk (opT ds) a b (2 * r) b0 = b0) (k : Fin n) : ∀ v,
    wk (fun i e => c.opU i e) a b (2 * (r * v)) (ds.size * k.val + b0) =
      ds.size * (((ρ (Wf (opT ds) (xT ds) a b (2 * r) b0))⁻¹ ^ v) k).val + b0
  | 0 => by simp [wk]
  | v + 1 => by
    have e : 2 * (r * (v + 1)) = 2 * (r * v) + 2 * r := by ring
    rw [e, wk_add, ix_even, ix_even, cover_rounds ha hb h1 h2 hper k v,
      cover_walk hσ hv hop ha hb h1 h2 _ (2 * r), hper, pow_succ', Equiv.Perm.mul_apply]

/-- every chamber of the cover has the period `r·v` of its projection under `op_b ∘ op_a` -/
theorem cover_period (hs : ValidSym ds) (hsz : 1 ≤ ds.size) {a b : Nat} (hab : a ≠ b) (ha : a ≤ ds.dim)
    (hb : b ≤ ds.dim) {x : Nat} (hx1 : 1 ≤ x) (hx2 : x ≤ n * ds.size) :
    IsPeriod c a b (orbR ds a b (cproj ds.size x) * orbV ds a b (cproj ds.size x)) x := by
  have hp := cproj_range (d := x) hsz
  have hk := csheet_lt hsz hx1 hx2
  have hper := (orbR_period hs ha hb hp.1 hp.2).2
  have hround := cover_rounds hσ hv hop ha hb hp.1 hp.2 hper ⟨csheet ds.size x, hk⟩
    (orbV ds a b (cproj ds.size x))
  have hx : ds.size * csheet ds.size x + cproj ds.size x = x := cdecomp hsz hx1
  simp only at hround
  rw [hx] at hround
  have hone : ((ρ (Wf (opT ds) (xT ds) a b (2 * orbR ds a b (cproj ds.size x)) (cproj ds.size x)))⁻¹ ^
      orbV ds a b (cproj ds.size x)) = 1 := by
    rw [inv_pow, ← map_pow]
    have := xT_orbit hs hab ha hb hp.1 hp.2
    unfold OW at this
    rw [this, map_one, inv_one]
  rw [hone] at hround
  unfold IsPeriod
  have hev := wk_even (fun i e => c.opU i e) a b
    (orbR ds a b (cproj ds.size x) * orbV ds a b (cproj ds.size x)) x
  rw [hround] at hev
  show (fun e => c.opU b (c.opU a e))^[_] x = x
  rw [← hev]
  exact hx

end walk

/-! ### least periods divide periods -/

theorem IsLeastPeriod.dvd {s : DSetData} {i j x k p : Nat} (hk : IsLeastPeriod s i j x k)
    (hp : IsPeriod s i j p x) : k ∣ p := by
  have hfix : ∀ q, (s.comp i j)^[k * q] x = x := by
    intro q
    rw [Function.iterate_mul]
    exact Function.iterate_fixed hk.2.1 q
  have hdm := Nat.div_add_mod p k
  have hr : (s.comp i j)^[p % k] x = x := by
    have : (s.comp i j)^[p % k + k * (p / k)] x = x := by
      rw [Nat.add_comm, hdm]; exact hp
    rw [Function.iterate_add_apply, hfix] at this
    exact this
  have hlt : p % k < k := Nat.mod_lt _ (by have := hk.1; omega)
  by_cases h0 : p % k = 0
  · exact Nat.dvd_of_mod_eq_zero h0
  · exact absurd hr (hk.2.2 (p % k) (by omega) hlt)

/-! ### the cover of a monodromy representation is a valid, degree-preserving cover -/

theorem mVal_eq_orb {ds : DSymData} (hs : ValidSym ds) {i b : Nat} (hi : i < ds.dim) (h1 : 1 ≤ b)
    (h2 : b ≤ ds.size) : ds.mVal i b = orbR ds i (i + 1) b * orbV ds i (i + 1) b := by
  unfold orbR orbV DSymData.mVal
  rw [hs.toValidTables.rPartial_adj hi h1 h2, hs.toValidTables.vPartial_adj hi h1 h2]

theorem orb_far {ds : DSymData} {i j b : Nat} (hij : i + 1 < j ∨ j + 1 < i) (hi : i ≤ ds.dim)
    (hj : j ≤ ds.dim) (h1 : 1 ≤ b) (h2 : b ≤ ds.size) : orbR ds i j b * orbV ds i j b = 2 := by
  unfold orbR orbV
  rw [ds.rPartial_far' hij hi hj h1 h2, ds.vPartial_far' hij hi hj h1 h2]
  by_cases he : ds.op i b = ds.op j b
  · rw [if_pos he, if_pos he]; rfl
  · rw [if_neg he, if_neg he]; rfl

theorem mPartial_far {ds : DSymData} {i j b : Nat} (hij : i + 1 < j ∨ j + 1 < i) (hi : i ≤ ds.dim)
    (hj : j ≤ ds.dim) (h1 : 1 ≤ b) (h2 : b ≤ ds.size) : ds.mPartial i j b = .ok (some 2) := by
  unfold DSymData.mPartial
  rw [ds.rPartial_far' hij hi hj h1 h2, ds.vPartial_far' hij hi hj h1 h2]
  by_cases he : ds.op i b = ds.op j b
  · rw [if_pos he, if_pos he]; rfl
  · rw [if_neg he, if_neg he]; rfl

theorem mPartial_diag {ds : DSymData} {i b : Nat} (hi : i ≤ ds.dim) (h1 : 1 ≤ b) (h2 : b ≤ ds.size) :
    ds.mPartial i i b = .ok (some 1) := by
  unfold DSymData.mPartial
  rw [ds.rPartial_diag hi h1 h2, ds.vPartial_diag hi h1 h2]
  rfl

/-- a complete base symbol has positive degrees -/
theorem mVal_pos {ds : DSymData} (hs : ValidTables ds) (hc : ds.isCompletePartial = true) {i b : Nat}
    (hi : i < ds.dim) (h1 : 1 ≤ b) (h2 : b ≤ ds.size) : 1 ≤ ds.mVal i b := by
  unfold DSymData.isCompletePartial at hc
  rw [Bool.and_eq_true, Array.all_eq_true] at hc
  have hlt : ds.ixAt i b < ds.orbitVs.size := by rw [hs.vs_size]; exact hs.ixAt_lt hi h1 h2
  have hv := hc.2 _ hlt
  have hget : ds.orbitVs[ds.ixAt i b] = ds.orbitVs.getD (ds.ixAt i b) 0 := by
    rw [Array.getD_eq_getD_getElem?, Array.getElem?_eq_getElem hlt]; rfl
  rw [hget] at hv
  have hv' : 0 < ds.orbitVs.getD (ds.ixAt i b) 0 := by simpa using hv
  have hr := (hs.rs_least hi h1 h2).1
  unfold DSymData.mVal
  exact Nat.mul_pos (by omega) hv'

/-- **the cover of a monodromy representation**: for a valid symbol `ds`, a representation `ρ` of its
    textbook group on `n ≥ 1` sheets and a sheet map agreeing with it, `cover ds n σ` returns a
    valid symbol (far operations commute) on `n·|ds|` chambers with the projected operations, the
    degree `m_ij` of every chamber is that of its projection — for ALL pairs `i, j` — and it is
    complete if `ds` is -/
theorem mono_cover_ok {ds : DSymData} (hs : ValidSym ds) (hsz : 1 ≤ ds.size) (hdim : 1 ≤ ds.dim)
    {n : Nat} (hn : 1 ≤ n) {ρ : TGroup ds →* Equiv.Perm (Fin n)} {σ : Nat → Nat → Nat → Nat}
    (hσ : Agrees ρ σ) :
    ∃ c, cover ds n σ = .ok c ∧ c.size = n * ds.size ∧ c.dim = ds.dim ∧ ValidSym c ∧
      (∀ i d, i ≤ ds.dim → 1 ≤ d → d ≤ n * ds.size → c.dset.opU i d = coverF ds.dset σ i d) ∧
      (∀ i j d, i ≤ ds.dim → j ≤ ds.dim → 1 ≤ d → d ≤ n * ds.size →
        c.mPartial i j d = ds.mPartial i j (cproj ds.size d)) ∧
      (ds.isCompletePartial = true → c.isCompletePartial = true) := by
  have hcompat := agrees_compat hσ hs.set
  obtain ⟨c, hc, hsize, hdim', hct, hop, hdeg⟩ := cover_ok ds hs.toValidTables hsz hdim hn hcompat
  have hper : ∀ a b x, a ≠ b → a ≤ ds.dim → b ≤ ds.dim → 1 ≤ x → x ≤ n * ds.size →
      IsPeriod c.dset a b (orbR ds a b (cproj ds.size x) * orbV ds a b (cproj ds.size x)) x :=
    fun a b x hab ha hb hx1 hx2 => cover_period hσ hs.set hop hs hsz hab ha hb hx1 hx2
  -- adjacent pairs
  have hadj : ∀ i d, i < ds.dim → 1 ≤ d → d ≤ n * ds.size →
      c.mPartial i (i + 1) d = ds.mPartial i (i + 1) (cproj ds.size d) ∧
      ∀ r, IsLeastPeriod c.dset i (i + 1) d r → r ∣ ds.mVal i (cproj ds.size d) := by
    intro i d hi h1 h2
    have hp := cproj_range (d := d) hsz
    have hdvd : ∀ r, IsLeastPeriod c.dset i (i + 1) d r → r ∣ ds.mVal i (cproj ds.size d) := by
      intro r hr
      rw [mVal_eq_orb hs hi hp.1 hp.2]
      exact IsLeastPeriod.dvd hr (hper i (i + 1) d (by omega) (by omega) hi h1 h2)
    refine ⟨?_, hdvd⟩
    obtain ⟨r, hr, _, _, hmp⟩ := hdeg i d hi h1 h2
    rw [hmp, Nat.mul_div_cancel' (hdvd r hr), hs.toValidTables.mPartial_adj hi hp.1 hp.2]
  -- far operations of the cover commute
  have hfar : FarCommute c.dset := by
    intro i j d hij hj h1 h2
    have hjs : j ≤ ds.dim := by rw [← hdim']; exact hj
    have his : i ≤ ds.dim := by omega
    have hic : i ≤ c.dset.dim := by rw [show c.dset.dim = c.dim from rfl, hdim']; exact his
    have h2' : d ≤ n * ds.size := by rw [← hsize]; exact h2
    have hp := cproj_range (d := d) hsz
    have hP := hper i j d (by omega) his hjs h1 h2'
    rw [orb_far (Or.inl hij) his hjs hp.1 hp.2] at hP
    have hP' : c.dset.opU j (c.dset.opU i (c.dset.opU j (c.dset.opU i d))) = d := hP
    have r1 := hct.set.range i d hic h1 h2
    have r2 := hct.set.range j _ hj r1.1 r1.2
    have r3 := hct.set.range i _ hic r2.1 r2.2
    have e1 : c.dset.opU i (c.dset.opU j (c.dset.opU i d)) = c.dset.opU j d := by
      have := hct.set.invol j _ hj r3.1 r3.2
      rw [hP'] at this; exact this.symm
    have e2 := hct.set.invol i _ hic r2.1 r2.2
    rw [e1] at e2
    exact e2.symm
  refine ⟨c, hc, hsize, hdim', ⟨hct, hfar⟩, hop, ?_, ?_⟩
  · intro i j d hi hj h1 h2
    have hp := cproj_range (d := d) hsz
    have hic : i ≤ c.dim := by rw [hdim']; exact hi
    have hjc : j ≤ c.dim := by rw [hdim']; exact hj
    have h2c : d ≤ c.size := by rw [hsize]; exact h2
    by_cases hji : j = i
    · subst hji
      rw [mPartial_diag hic h1 h2c, mPartial_diag hi hp.1 hp.2]
    · by_cases ha : j = i + 1
      · subst ha; exact (hadj i d (by omega) h1 h2).1
      · by_cases hb : i = j + 1
        · subst hb
          rw [c.mPartial_symm, ds.mPartial_symm]
          exact (hadj j d (by omega) h1 h2).1
        · have hij : i + 1 < j ∨ j + 1 < i := by omega
          rw [mPartial_far hij hic hjc h1 h2c, mPartial_far hij hi hj hp.1 hp.2]
  · intro hcomp
    apply cover_isComplete ds hs.toValidTables hsz hdim hn hcompat hc
    intro i d r hi h1 h2 hr
    have hp := cproj_range (d := d) hsz
    exact ⟨mVal_pos hs.toValidTables hcomp hi hp.1 hp.2, (hadj i d hi h1 h2).2 r hr⟩

end DSymVerif.CoversP
