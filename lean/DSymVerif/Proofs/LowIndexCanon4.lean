/-
C12, the canonical pruning (4): irredundancy core — two standard complete tables that both
pass `is_canonical` and are isomorphic have identical entries.
-/
import DSymVerif.Proofs.LowIndexCanon3

namespace DSymVerif.CanonP
open DSymVerif DSymVerif.Cosets DSymVerif.LowIndexP DSymVerif.CosetInvP

/-! ### the first difference is antisymmetric -/

theorem fdGens_swap (t1 t2 : Table) (row : Nat) : ∀ gs : List Int,
    fdGens t2 t1 row gs = (fdGens t1 t2 row gs).map (fun r => -r)
  | [] => rfl
  | g :: gs => by
    simp only [fdGens]
    by_cases h : ((val t1 row g : Int) - (val t2 row g : Int)) ≠ 0
    · have h' : ((val t2 row g : Int) - (val t1 row g : Int)) ≠ 0 := by omega
      rw [if_pos h, if_pos h']
      simp only [Option.map_some, Option.some.injEq]
      omega
    · have h' : ¬ ((val t2 row g : Int) - (val t1 row g : Int)) ≠ 0 := by omega
      rw [if_neg h, if_neg h']
      exact fdGens_swap t1 t2 row gs

theorem fdRows_swap (t1 t2 : Table) (gens : List Int) : ∀ rows : List Nat,
    fdRows t2 t1 gens rows = - fdRows t1 t2 gens rows
  | [] => by simp [fdRows]
  | row :: rows => by
    simp only [fdRows, fdGens_swap t1 t2 row gens]
    cases fdGens t1 t2 row gens with
    | none => simpa using fdRows_swap t1 t2 gens rows
    | some r => simp

theorem fdGens_none (t1 t2 : Table) (row : Nat) : ∀ gs : List Int, fdGens t1 t2 row gs = none →
    ∀ g ∈ gs, val t1 row g = val t2 row g
  | [], _, g, hg => by cases hg
  | x :: gs, h, g, hg => by
    simp only [fdGens] at h
    by_cases hd : ((val t1 row x : Int) - (val t2 row x : Int)) ≠ 0
    · rw [if_pos hd] at h; cases h
    · rw [if_neg hd] at h
      rcases List.mem_cons.mp hg with rfl | hg
      · omega
      · exact fdGens_none t1 t2 row gs h g hg

theorem fdGens_some_ne (t1 t2 : Table) (row : Nat) : ∀ (gs : List Int) (r : Int),
    fdGens t1 t2 row gs = some r → r ≠ 0
  | [], r, h => by cases h
  | x :: gs, r, h => by
    simp only [fdGens] at h
    by_cases hd : ((val t1 row x : Int) - (val t2 row x : Int)) ≠ 0
    · rw [if_pos hd] at h; injection h with h; rw [← h]; exact hd
    · rw [if_neg hd] at h; exact fdGens_some_ne t1 t2 row gs r h

theorem fdRows_zero (t1 t2 : Table) (gens : List Int) : ∀ rows : List Nat, fdRows t1 t2 gens rows = 0 →
    ∀ row ∈ rows, ∀ g ∈ gens, val t1 row g = val t2 row g
  | [], _, row, hr => by cases hr
  | x :: rows, h, row, hr => by
    simp only [fdRows] at h
    cases hf : fdGens t1 t2 x gens with
    | some r =>
      rw [hf] at h
      exact absurd h (fdGens_some_ne t1 t2 x gens r hf)
    | none =>
      rw [hf] at h
      rcases List.mem_cons.mp hr with rfl | hr
      · exact fdGens_none t1 t2 row gens hf
      · exact fdRows_zero t1 t2 gens rows h row hr

theorem fdRows_self (t : Table) (gens : List Int) : ∀ rows : List Nat, fdRows t t gens rows = 0
  | [] => rfl
  | row :: rows => by
    have : fdGens t t row gens = none := by
      induction gens with
      | nil => rfl
      | cons g gs ih => simp [fdGens, ih]
    simp only [fdRows, this]
    exact fdRows_self t gens rows

/-! ### inverse of an isomorphism -/

theorem iso_surj {σ : Nat → Nat} {N : Nat} (hlt : ∀ c, c < N → σ c < N)
    (hinj : ∀ a b, a < N → b < N → σ a = σ b → a = b) : ∀ c', c' < N → ∃ c, c < N ∧ σ c = c' := by
  intro c' hc'
  let f : Fin N → Fin N := fun x => ⟨σ x.val, hlt x.val x.isLt⟩
  have hf : Function.Injective f := by
    intro a b hab
    apply Fin.ext
    exact hinj a.val b.val a.isLt b.isLt (by simpa [f] using congrArg Fin.val hab)
  obtain ⟨x, hx⟩ := (Finite.injective_iff_surjective.mp hf) ⟨c', hc'⟩
  exact ⟨x.val, x.isLt, by simpa [f] using congrArg Fin.val hx⟩

/-- the inverse isomorphism -/
theorem IsoStd.symm {T1 T2 : Table} {σ : Nat → Nat} {N : Nat} (h : IsoStd T1 T2 σ N) (cs2 : CS T2)
    (hd2 : ∀ k, k < N → ∀ g ∈ T1.allGens, ∃ d, T2.get k g = .ok (some d) ∧ d < N) :
    ∃ τ, IsoStd T2 T1 τ N ∧ (∀ c, c < N → τ (σ c) = c) ∧ (∀ c, c < N → σ (τ c) = c) := by
  have hs := iso_surj h.lt h.inj
  let τ : Nat → Nat := fun c => if hc : c < N then (hs c hc).choose else c
  have hτ : ∀ c (hc : c < N), τ c < N ∧ σ (τ c) = c := fun c hc => by
    simp only [τ, dif_pos hc]
    exact (hs c hc).choose_spec
  have hτσ : ∀ c, c < N → τ (σ c) = c := fun c hc =>
    h.inj _ _ (hτ (σ c) (h.lt c hc)).1 hc (hτ (σ c) (h.lt c hc)).2
  refine ⟨τ, ⟨h.len2, h.len1, h.gens.symm, ?_, ?_, fun c hc => (hτ c hc).1, ?_, ?_, cs2⟩, hτσ,
    fun c hc => (hτ c hc).2⟩
  · intro k hk g hg
    rw [h.gens] at hg
    exact hd2 k hk g hg
  · intro k hk g hg
    rw [h.gens] at hg
    obtain ⟨d, hd, _⟩ := h.def1 k hk g hg
    exact ⟨d, hd⟩
  · intro a b ha hb hab
    have e1 := (hτ a ha).2
    have e2 := (hτ b hb).2
    rw [hab] at e1
    exact e1.symm.trans e2
  · intro c g d hc hg hget
    rw [h.gens] at hg
    obtain ⟨b, hb, hbN⟩ := h.def1 (τ c) (hτ c hc).1 g hg
    have := h.hom (τ c) g b (hτ c hc).1 hg hb
    rw [(hτ c hc).2, hget] at this
    injection this with this; injection this with this
    rw [this, hτσ b hbN]
    exact hb

/-- **irredundancy, core**: two standard complete tables that both pass `is_canonical` and
    are isomorphic have identical entries -/
theorem iso_canonical_eq {T1 T2 : Table} {σ : Nat → Nat} {N : Nat} (h : IsoStd T1 T2 σ N) (cs2 : CS T2)
    (hd2 : ∀ k, k < N → ∀ g ∈ T1.allGens, ∃ d, T2.get k g = .ok (some d) ∧ d < N) (hN : 0 < N)
    (c1 : isCanonical T1 = .ok true) (c2 : isCanonical T2 = .ok true) :
    ∀ k, k < N → ∀ g ∈ T1.allGens, val T1 k g = val T2 k g := by
  obtain ⟨τ, hτ, e1, e2⟩ := h.symm cs2 hd2
  have key : fdRows T1 T2 T1.allGens (List.range N) = 0 := by
    by_cases h0 : σ 0 = 0
    · -- same base point: compare with the identity renumbering of T2
      have a := compareRenumberedFrom_iso h hN
      have hid : IsoStd T2 T2 id N :=
        ⟨h.len2, h.len2, rfl, fun k hk g hg => hd2 k hk g (by rw [← h.gens]; exact hg),
          fun k hk g hg => by obtain ⟨d, hd, _⟩ := hd2 k hk g (by rw [← h.gens]; exact hg); exact ⟨d, hd⟩,
          fun c hc => hc, fun a b _ _ e => e, fun c g d _ _ hg => hg, cs2⟩
      have b := compareRenumberedFrom_iso hid hN
      rw [h0] at a
      simp only [id] at b
      rw [a] at b
      injection b with b
      rw [b, fdRows_self]
    · have hs : σ 0 ∈ List.range' 1 (T2.len - 1) := by
        rw [List.mem_range'_1, h.len2]
        have := h.lt 0 hN
        omega
      obtain ⟨r, hr, hr0⟩ := isCanonicalFrom_true _ c2 (σ 0) hs
      rw [compareRenumberedFrom_iso h hN] at hr
      injection hr with hr
      have hτ0 : τ 0 ≠ 0 := by
        intro e
        have := e2 0 hN
        rw [e] at this
        exact h0 this
      have hs' : τ 0 ∈ List.range' 1 (T1.len - 1) := by
        rw [List.mem_range'_1, h.len1]
        have := hτ.lt 0 hN
        omega
      obtain ⟨r', hr', hr0'⟩ := isCanonicalFrom_true _ c1 (τ 0) hs'
      rw [compareRenumberedFrom_iso hτ hN] at hr'
      injection hr' with hr'
      rw [h.gens, fdRows_swap] at hr'
      omega
  intro k hk g hg
  exact fdRows_zero T1 T2 T1.allGens (List.range N) key k (List.mem_range.mpr hk) g hg

end DSymVerif.CanonP
