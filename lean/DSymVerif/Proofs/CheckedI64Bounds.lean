/-
Sufficient conditions under which the overflow-checked `i64` back-end does not overflow
(so `i64Backend PRC.chk` and the idealised `i64Backend .ok` return the same value):

* one-row matrices: the elimination performs no arithmetic at all (`echelon_one_row`), hence
  `rank` of every `1 × n` matrix and `null_space(_matrix)` of every `n × 1` matrix;
* the closed determinant formulas: `1 × 1` always, `2 × 2` for entries `|x| ≤ 2^31 − 1`,
  `3 × 3` for entries `|x| ≤ 10^6`.

(The general statement "a run whose intermediates stay below `b ≤ i64::MAX` is a run without
overflow" is `i64_chkB_ref` of Proofs/CheckedI64.lean.)
-/
import Mathlib.Tactic.NormNum
import Mathlib.Algebra.Order.Ring.Abs
import DSymVerif.Proofs.CheckedI64

namespace DSymVerif.LA

open DSymVerif

/-! ### one row: no arithmetic -/

theorem i64PivotRow_one_row (c1 c2 : Int → Outcome Int) {nc : Nat} (col row0 : Nat)
    (a : Mat Int 1 nc) : i64PivotRow c1 col row0 a = i64PivotRow c2 col row0 a := by
  unfold i64PivotRow forRange
  have : 1 - (row0 + 1) = 0 := by omega
  rw [this]
  rfl

theorem colStep_one_row (c1 c2 : Int → Outcome Int) (rep : Bool) {nc : Nat} (col : Nat)
    (st : EchState Int 1 nc) :
    colStep (i64Backend c1) rep col st = colStep (i64Backend c2) rep col st := by
  unfold colStep forRange
  have : 1 - (st.row + 1) = 0 := by omega
  rw [this]
  show (if (rep && st.row == 1) = true then Outcome.ok st else
      (i64PivotRow c1 col st.row st.u).bind _) =
    (if (rep && st.row == 1) = true then Outcome.ok st else
      (i64PivotRow c2 col st.row st.u).bind _)
  rw [i64PivotRow_one_row c1 c2]
  rfl

/-- on a one-row matrix `RowEchelon*::new` performs no `i64` arithmetic: its result does not
    depend on the range check -/
theorem echelon_one_row (c1 c2 : Int → Outcome Int) (rep : Bool) {nc : Nat} (m : Mat Int 1 nc) :
    echelon (i64Backend c1) rep m = echelon (i64Backend c2) rep m := by
  unfold echelon
  have hs : colStep (i64Backend c1) rep (nr := 1) (nc := nc) = colStep (i64Backend c2) rep := by
    funext col st; exact colStep_one_row c1 c2 rep col st
  rw [hs]
  rfl

theorem rank_one_row (c1 c2 : Int → Outcome Int) {nc : Nat} (m : Mat Int 1 nc) :
    rank (i64Backend c1) m = rank (i64Backend c2) m := by
  unfold rank
  rw [echelon_one_row c1 c2]

theorem nullSpaceMatrix_one_col (c1 c2 : Int → Outcome Int) {nr : Nat} (m : Mat Int nr 1) :
    nullSpaceMatrix (i64Backend c1) m = nullSpaceMatrix (i64Backend c2) m := by
  unfold nullSpaceMatrix
  show (transpose (i64Backend c2) m).bind _ = _
  congr 1
  funext mt
  rw [echelon_one_row c1 c2]
  rfl

theorem nullSpace_one_col (c1 c2 : Int → Outcome Int) {nr : Nat} (m : Mat Int nr 1) :
    nullSpace (i64Backend c1) m = nullSpace (i64Backend c2) m := by
  unfold nullSpace
  show (transpose (i64Backend c2) m).bind _ = _
  congr 1
  funext mt
  rw [echelon_one_row c1 c2]
  rfl

/-! ### closed determinant formulas -/

theorem abs_mul_le_of {a b A B : Int} (ha : |a| ≤ A) (hb : |b| ≤ B) : |a * b| ≤ A * B := by
  rw [abs_mul]; exact mul_le_mul ha hb (abs_nonneg _) (le_trans (abs_nonneg _) ha)

theorem abs_add_le_of {a b A B : Int} (ha : |a| ≤ A) (hb : |b| ≤ B) : |a + b| ≤ A + B :=
  (abs_add_le a b).trans (add_le_add ha hb)

theorem abs_sub_le_of {a b A B : Int} (ha : |a| ≤ A) (hb : |b| ≤ B) : |a - b| ≤ A + B :=
  (abs_sub a b).trans (add_le_add ha hb)

theorem chk_of_abs {x : Int} (h : |x| ≤ 9223372036854775807) : PRC.chk x = .ok x := by
  have h' := abs_le.1 h
  have : PRC.inI64 x = true := by
    unfold PRC.inI64 PRC.i64Min PRC.i64Max
    simp only [Bool.and_eq_true, decide_eq_true_eq]
    omega
  unfold PRC.chk
  rw [if_pos this]

theorem chk_bind_of_abs {β : Type} {x : Int} (h : |x| ≤ 9223372036854775807)
    (f : Int → Outcome β) : (PRC.chk x).bind f = f x := by
  rw [chk_of_abs h]; rfl

theorem det1_chk (c1 c2 : Int → Outcome Int) (m : Mat Int 1 1) :
    determinant (i64Backend c1) m = determinant (i64Backend c2) m := by
  unfold determinant
  simp only [show ¬ (1 = 0) by decide, if_false, if_true]

/- the closed formulas as equations (`rfl`: only the `if n = …` tests are evaluated).  The
   proofs below use `rw` only: each step is a lemma instance the kernel checks locally
   (`simp only [bind_ok]` would leave the kernel a global definitional-unfolding problem
   that takes minutes here). -/

theorem determinant_two {α : Type} (B : Backend α) (m : Mat α 2 2) :
    determinant B m =
      (m.get 0 0).bind fun a => (m.get 1 1).bind fun d => (m.get 0 1).bind fun b =>
      (m.get 1 0).bind fun c =>
      (B.mul a d).bind fun ad => (B.mul b c).bind fun bc => B.sub ad bc := rfl

theorem determinant_three {α : Type} (B : Backend α) (m : Mat α 3 3) :
    determinant B m =
      (m.get 0 0).bind fun a00 => (m.get 0 1).bind fun a01 => (m.get 0 2).bind fun a02 =>
      (m.get 1 0).bind fun a10 => (m.get 1 1).bind fun a11 => (m.get 1 2).bind fun a12 =>
      (m.get 2 0).bind fun a20 => (m.get 2 1).bind fun a21 => (m.get 2 2).bind fun a22 =>
      (B.mul a11 a22).bind fun t => (B.mul a00 t).bind fun p1 =>
      (B.mul a12 a20).bind fun t => (B.mul a01 t).bind fun p2 =>
      (B.add p1 p2).bind fun acc =>
      (B.mul a10 a21).bind fun t => (B.mul a02 t).bind fun p3 =>
      (B.add acc p3).bind fun acc =>
      (B.mul a11 a20).bind fun t => (B.mul a02 t).bind fun p4 =>
      (B.sub acc p4).bind fun acc =>
      (B.mul a12 a21).bind fun t => (B.mul a00 t).bind fun p5 =>
      (B.sub acc p5).bind fun acc =>
      (B.mul a10 a22).bind fun t => (B.mul a01 t).bind fun p6 =>
      B.sub acc p6 := rfl

theorem mul_chk_bind {β : Type} {a b : Int} (h : |a * b| ≤ 9223372036854775807)
    (f : Int → Outcome β) : ((i64Backend PRC.chk).mul a b).bind f = f (a * b) :=
  chk_bind_of_abs h f

theorem add_chk_bind {β : Type} {a b : Int} (h : |a + b| ≤ 9223372036854775807)
    (f : Int → Outcome β) : ((i64Backend PRC.chk).add a b).bind f = f (a + b) :=
  chk_bind_of_abs h f

theorem sub_chk_bind {β : Type} {a b : Int} (h : |a - b| ≤ 9223372036854775807)
    (f : Int → Outcome β) : ((i64Backend PRC.chk).sub a b).bind f = f (a - b) :=
  chk_bind_of_abs h f

theorem sub_chk {a b : Int} (h : |a - b| ≤ 9223372036854775807) :
    (i64Backend PRC.chk).sub a b = .ok (a - b) := chk_of_abs h

/-- value of the overflow-checked 2×2 determinant for entries that fit an `i32` -/
theorem det2_chk_val (m : Mat Int 2 2) (h : AllE (fun x => |x| ≤ 2147483647) m) :
    determinant (i64Backend PRC.chk) m =
      .ok ((m[0])[0] * (m[1])[1] - (m[0])[1] * (m[1])[0]) := by
  have ha := h 0 0 (by decide) (by decide)
  have hb := h 0 1 (by decide) (by decide)
  have hc := h 1 0 (by decide) (by decide)
  have hd := h 1 1 (by decide) (by decide)
  have had := abs_mul_le_of ha hd
  have hbc := abs_mul_le_of hb hc
  have hs := abs_sub_le_of had hbc
  rw [determinant_two,
    Mat.get_ok m (show 0 < 2 by decide) (show 0 < 2 by decide),
    Mat.get_ok m (show 0 < 2 by decide) (show 1 < 2 by decide),
    Mat.get_ok m (show 1 < 2 by decide) (show 0 < 2 by decide),
    Mat.get_ok m (show 1 < 2 by decide) (show 1 < 2 by decide),
    bind_ok, bind_ok, bind_ok, bind_ok,
    mul_chk_bind (le_trans had (by norm_num)), mul_chk_bind (le_trans hbc (by norm_num)),
    sub_chk (le_trans hs (by norm_num))]

theorem det2_chk (m : Mat Int 2 2) (h : AllE (fun x => |x| ≤ 2147483647) m) :
    determinant (i64Backend PRC.chk) m = determinant (i64Backend .ok) m := by
  have h1 := det2_chk_val m h
  rw [h1, (determinant_ref i64_chk_ref m).ok_eq h1]

/-- the three-factor products of the 3×3 formula -/
theorem abs_triple {a b c : Int} (ha : |a| ≤ 1000000) (hb : |b| ≤ 1000000) (hc : |c| ≤ 1000000) :
    |b * c| ≤ 1000000000000 ∧ |a * (b * c)| ≤ 1000000000000000000 :=
  ⟨(abs_mul_le_of hb hc).trans (by norm_num),
    (abs_mul_le_of ha (abs_mul_le_of hb hc)).trans (by norm_num)⟩

/-- value of the overflow-checked 3×3 determinant for entries `|x| ≤ 10^6`
    (six products of magnitude `≤ 10^18`, partial sums `≤ 6·10^18 < 2^63`) -/
theorem det3_chk_val (m : Mat Int 3 3) (h : AllE (fun x => |x| ≤ 1000000) m) :
    determinant (i64Backend PRC.chk) m =
      .ok ((m[0])[0] * ((m[1])[1] * (m[2])[2]) + (m[0])[1] * ((m[1])[2] * (m[2])[0]) +
        (m[0])[2] * ((m[1])[0] * (m[2])[1]) - (m[0])[2] * ((m[1])[1] * (m[2])[0]) -
        (m[0])[0] * ((m[1])[2] * (m[2])[1]) - (m[0])[1] * ((m[1])[0] * (m[2])[2])) := by
  have h00 := h 0 0 (by decide) (by decide)
  have h01 := h 0 1 (by decide) (by decide)
  have h02 := h 0 2 (by decide) (by decide)
  have h10 := h 1 0 (by decide) (by decide)
  have h11 := h 1 1 (by decide) (by decide)
  have h12 := h 1 2 (by decide) (by decide)
  have h20 := h 2 0 (by decide) (by decide)
  have h21 := h 2 1 (by decide) (by decide)
  have h22 := h 2 2 (by decide) (by decide)
  obtain ⟨t1, p1⟩ := abs_triple h00 h11 h22
  obtain ⟨t2, p2⟩ := abs_triple h01 h12 h20
  obtain ⟨t3, p3⟩ := abs_triple h02 h10 h21
  obtain ⟨t4, p4⟩ := abs_triple h02 h11 h20
  obtain ⟨t5, p5⟩ := abs_triple h00 h12 h21
  obtain ⟨t6, p6⟩ := abs_triple h01 h10 h22
  have s1 := abs_add_le_of p1 p2
  have s2 := abs_add_le_of s1 p3
  have s3 := abs_sub_le_of s2 p4
  have s4 := abs_sub_le_of s3 p5
  have s5 := abs_sub_le_of s4 p6
  rw [determinant_three,
    Mat.get_ok m (show 0 < 3 by decide) (show 0 < 3 by decide),
    Mat.get_ok m (show 0 < 3 by decide) (show 1 < 3 by decide),
    Mat.get_ok m (show 0 < 3 by decide) (show 2 < 3 by decide),
    Mat.get_ok m (show 1 < 3 by decide) (show 0 < 3 by decide),
    Mat.get_ok m (show 1 < 3 by decide) (show 1 < 3 by decide),
    Mat.get_ok m (show 1 < 3 by decide) (show 2 < 3 by decide),
    Mat.get_ok m (show 2 < 3 by decide) (show 0 < 3 by decide),
    Mat.get_ok m (show 2 < 3 by decide) (show 1 < 3 by decide),
    Mat.get_ok m (show 2 < 3 by decide) (show 2 < 3 by decide),
    bind_ok, bind_ok, bind_ok, bind_ok, bind_ok, bind_ok, bind_ok, bind_ok, bind_ok,
    mul_chk_bind (le_trans t1 (by norm_num)), mul_chk_bind (le_trans p1 (by norm_num)),
    mul_chk_bind (le_trans t2 (by norm_num)), mul_chk_bind (le_trans p2 (by norm_num)),
    add_chk_bind (le_trans s1 (by norm_num)),
    mul_chk_bind (le_trans t3 (by norm_num)), mul_chk_bind (le_trans p3 (by norm_num)),
    add_chk_bind (le_trans s2 (by norm_num)),
    mul_chk_bind (le_trans t4 (by norm_num)), mul_chk_bind (le_trans p4 (by norm_num)),
    sub_chk_bind (le_trans s3 (by norm_num)),
    mul_chk_bind (le_trans t5 (by norm_num)), mul_chk_bind (le_trans p5 (by norm_num)),
    sub_chk_bind (le_trans s4 (by norm_num)),
    mul_chk_bind (le_trans t6 (by norm_num)), mul_chk_bind (le_trans p6 (by norm_num)),
    sub_chk (le_trans s5 (by norm_num))]

theorem det3_chk (m : Mat Int 3 3) (h : AllE (fun x => |x| ≤ 1000000) m) :
    determinant (i64Backend PRC.chk) m = determinant (i64Backend .ok) m := by
  have h1 := det3_chk_val m h
  rw [h1, (determinant_ref i64_chk_ref m).ok_eq h1]

end DSymVerif.LA
