/-
C13: words traced through the tables the models return (`SpecC13.traceT`) move the labels by the
action, so a word fixes row 0 iff it fixes the start label.
-/
import DSymVerif.Proofs.StabilizerCore

set_option linter.unusedSectionVars false

namespace DSymVerif.StabP
open DSymVerif DSymVerif.Cosets DSymVerif.SpecC11 DSymVerif.CosetP DSymVerif.SpecC13 DSymVerif.Stab

section Words
variable {α : Type} [BEq α] [LawfulBEq α] {act : α → Int → Option α} {n : Nat} {T : Table} {lab : List α}

theorem labelled_traceT
    (hent : ∀ (i : Nat) (g : Int) (x : α), lab[i]? = some x → g ∈ letters n →
      ∃ y j, act x g = some y ∧ T.get i g = .ok (some j) ∧ lab[j]? = some y) :
    ∀ (w : List Int), (∀ g ∈ w, g ∈ letters n) → ∀ (i : Nat) (x : α), lab[i]? = some x →
      ∃ j y, traceT T i w = some j ∧ iterAct act x w = some y ∧ lab[j]? = some y
  | [], _, i, x, hi => ⟨i, x, rfl, rfl, hi⟩
  | g :: w, hw, i, x, hi => by
    obtain ⟨y, j, hy, hget, hj⟩ := hent i g x hi (hw g (by simp))
    obtain ⟨j', y', h1, h2, h3⟩ := labelled_traceT hent w (fun g' hg' => hw g' (by simp [hg'])) j y hj
    exact ⟨j', y', by simp only [traceT, hget, h1], by simp only [iterAct, hy, h2], h3⟩

theorem labelled_traceT_fix {start : α} (hnd : lab.Nodup) (h0 : lab[0]? = some start)
    (hent : ∀ (i : Nat) (g : Int) (x : α), lab[i]? = some x → g ∈ letters n →
      ∃ y j, act x g = some y ∧ T.get i g = .ok (some j) ∧ lab[j]? = some y)
    (w : List Int) (hw : ∀ g ∈ w, g ∈ letters n) :
    traceT T 0 w = some 0 ↔ iterAct act start w = some start := by
  obtain ⟨j, y, h1, h2, h3⟩ := labelled_traceT hent w hw 0 start h0
  rw [h1, h2]
  constructor
  · intro h
    injection h with h
    subst h
    rw [h0] at h3
    injection h3 with h3
    rw [h3]
  · intro h
    injection h with h
    subst h
    have hj := (List.getElem?_eq_some_iff.mp h3)
    have h00 := (List.getElem?_eq_some_iff.mp h0)
    obtain ⟨hjl, hje⟩ := hj
    obtain ⟨h0l, h0e⟩ := h00
    have : j = 0 := (List.Nodup.getElem_inj_iff hnd).mp (by rw [hje, h0e])
    rw [this]

end Words

end DSymVerif.StabP
