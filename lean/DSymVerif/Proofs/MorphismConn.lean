/-
Helper lemmas for property C04, part 8: the `Connected` hypothesis of the morphism theorems is
what the library's `is_connected()` computes (C02 `isConnected_iff` / C03
`conn_iff_isConnected`: traversal-based reachability from chamber 1).
-/
import DSymVerif.Proofs.CanonicalDecode
import DSymVerif.Proofs.MorphismBridge

namespace DSymVerif.Mor
open DSymVerif.DS DSymVerif.DS.CanonP

theorem ValidSet.tableRange {t : DSetData} (h : ValidSet t) : TableRange t :=
  fun i d hi h1 h2 => h.range i d hi h1 h2

theorem ValidSet.tableInvol {t : DSetData} (h : ValidSet t) : TableInvol t :=
  fun i d hi h1 h2 => h.invol i d hi h1 h2

/-- the structural hypotheses hold for the view of every symbol over a valid D-set -/
theorem ofSym_validSet (ds : DSymData) (h : ValidSet ds.dset) :
    OpRange (ofSym ds) ∧ OpPos (ofSym ds) ∧ Complete (ofSym ds) (ofSym ds).dim ∧ Invol (ofSym ds) :=
  ofSym_valid ds (ValidSet.tableRange h) (ValidSet.tableInvol h)

/-- `Connected` (impredicative reachability from chamber 1) = `Conn` (inductive reachability) -/
theorem connected_iff_conn (ds : DSymData) (h : ValidSet ds.dset) :
    Connected (ofSym ds) ↔ Conn ds := by
  have hR := (ofSym_validSet ds h).1
  constructor
  · intro hconn d hd1 hd2
    apply hconn (fun d => ds.view.Reach ds.view.indices 1 d) (View.Reach.refl 1) _ d hd1 hd2
    intro d i di _ _ hi hr hdi
    exact View.Reach.step hr (List.mem_range.2 (by
      have : i ≤ ds.dim := hi
      show i < ds.view.dim + 1
      exact Nat.lt_succ_of_le this)) hdi
  · intro hC R h1 hcl d hd1 hd2
    have key : ∀ e, ds.view.Reach ds.view.indices 1 e → (1 ≤ e ∧ e ≤ ds.size) ∧ R e := by
      intro e hr
      induction hr with
      | refl => exact ⟨⟨Nat.le_refl 1, by have : d ≤ ds.size := hd2; omega⟩, h1⟩
      | @step e c i _ hi hop ih =>
        have hi' : i ≤ ds.dim := by
          have := List.mem_range.1 hi
          exact Nat.le_of_lt_succ this
        have hc := hR i e c hop
        exact ⟨hc, hcl e i c ih.1.1 ih.1.2 hi' ih.2 hop⟩
    exact (key d (hC d hd1 hd2)).2

/-- `Connected` is `is_connected()` -/
theorem connected_iff_isConnected (ds : DSymData) (h : ValidSet ds.dset) :
    Connected (ofSym ds) ↔ ds.view.isConnected = true :=
  (connected_iff_conn ds h).trans (conn_iff_isConnected h)

end DSymVerif.Mor
