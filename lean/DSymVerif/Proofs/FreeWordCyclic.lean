/-
Helper lemmas for property C10 (free words), part 3: the Spec's `relatorSet` is the
list of rotations and inverses the model visits; for a cyclically reduced word that
list is the orbit of the word under rotation and inversion, hence the relator
representative is the same for every rotation and for the inverse.
-/
import Mathlib.Data.List.Rotate
import DSymVerif.Proofs.FreeWordOrder

namespace DSymVerif.FWP
open DSymVerif.FW DSymVerif.SpecC10 FreeGroup

/-! ### the Spec's `relatorSet` is `rotInvList` -/

theorem rotated_natCast {a : List Int} (hn : a ≠ []) {k : Nat} (hk : k < a.length) :
    FW.rotated a (k : Int) = normalized (a.drop k ++ a.take k) := by
  rw [rotated_of_ne_nil hn]
  have : ((k : Int) % (a.length : Int)).toNat = k := by
    rw [Int.emod_eq_of_lt (by omega) (by omega)]; simp
  rw [this]

theorem relatorSet_nil : relatorSet [] = [[]] := rfl

theorem relatorSet_eq {a : List Int} (hn : a ≠ []) : relatorSet a = rotInvList a := by
  have he : a.isEmpty = false := by cases a <;> simp_all
  unfold relatorSet rotInvList
  simp only [he, Bool.false_eq_true, if_false]
  apply List.flatMap_congr
  intro k hk
  have hk' : k < a.length := List.mem_range.1 hk
  rw [rotated_natCast hn hk', reduceSpec_eq_normalized, reduceSpec_eq_normalized]
  rfl

/-! ### formal inverse and cyclic reducedness -/

/-- formal inverse of a raw word (the Spec's `inv`) -/
def invW (a : List Int) : List Int := a.reverse.map (fun x => -x)

theorem invW_invW (a : List Int) : invW (invW a) = a := by
  simp [invW, List.map_reverse]

theorem invW_eq_nil {a : List Int} : invW a = [] ↔ a = [] := by simp [invW]

theorem nz_invW {a : List Int} (h : NZ a) : NZ (invW a) := by
  intro x hx
  simp only [invW, List.mem_map, List.mem_reverse] at hx
  obtain ⟨y, hy, rfl⟩ := hx
  have := h y hy
  omega

/-- the inverse of a reduced word needs no normalisation -/
theorem inverse_of_isReduced {a : List Int} (h : isReduced a = true) : FW.inverse a = invW a := by
  have h1 : IsReduced (enc a) := ((isReduced_iff a).1 h).2
  symm
  apply enc_injective (nz_invW (isReduced_nz h)) (isReduced_nz (inverse_isReduced a))
  show enc (invW a) = enc (normalized (invW a))
  rw [normalized_eq_reduce]
  show enc (a.reverse.map fun x => -x) = reduce (enc (a.reverse.map fun x => -x))
  rw [enc_inv, reduce_invRev, h1.reduce_eq]

theorem isReduced_invW {a : List Int} (h : isReduced a = true) : isReduced (invW a) = true := by
  rw [← inverse_of_isReduced h]; exact inverse_isReduced a

/-- cyclically reduced, as a proposition: reduced and last letter not inverse to the first -/
def CR (a : List Int) : Prop :=
  isReduced a = true ∧ ∀ b ∈ a.getLast?, ∀ x ∈ a.head?, b ≠ -x

theorem isCyclicallyReduced_iff : ∀ (a : List Int), isCyclicallyReduced a = true ↔ CR a
  | [] => by simp [isCyclicallyReduced, CR]
  | [x] => by
      simp only [isCyclicallyReduced, CR, List.head?_cons, List.getLast?_singleton, List.length_cons,
        List.length_nil, Bool.and_eq_true, Option.mem_def, Option.some.injEq, forall_eq']
      constructor
      · rintro ⟨h, -⟩
        have := isReduced_head h
        exact ⟨h, by omega⟩
      · rintro ⟨h, -⟩
        exact ⟨h, by simp⟩
  | x :: y :: r => by
      have hl : (x :: y :: r).getLast? = some ((y :: r).getLast (by simp)) := by
        rw [List.getLast?_cons_cons, List.getLast?_eq_some_getLast]
      simp only [isCyclicallyReduced, CR, hl, List.head?_cons, List.length_cons, Bool.and_eq_true,
        Option.mem_def, Option.some.injEq, forall_eq', Bool.or_eq_true, decide_eq_true_eq,
        bne_iff_ne, ne_eq]
      constructor
      · rintro ⟨h, h2⟩
        refine ⟨h, ?_⟩
        rcases h2 with h2 | h2 <;> omega
      · rintro ⟨h, h2⟩
        exact ⟨h, Or.inr (by omega)⟩

theorem CR.rotate_one : ∀ {a : List Int}, CR a → CR (a.rotate 1)
  | [], h => by simpa using h
  | [x], h => by simpa using h
  | x :: y :: r, h => by
      obtain ⟨h1, h2⟩ := h
      have e : (x :: y :: r).rotate 1 = (y :: r) ++ [x] := by simp
      rw [e]
      obtain ⟨hz, hc⟩ := (isReduced_iff_chain _).1 h1
      have hc' := List.isChain_cons_cons.1 hc
      have hl : (x :: y :: r).getLast? = (y :: r).getLast? := List.getLast?_cons_cons
      rw [hl] at h2
      constructor
      · rw [isReduced_iff_chain]
        constructor
        · intro z hzm
          apply hz z
          simp only [List.mem_append, List.mem_cons, List.not_mem_nil, or_false] at hzm ⊢
          tauto
        · rw [List.isChain_append]
          refine ⟨hc'.2, List.isChain_singleton _, ?_⟩
          intro b hb z hzx
          simp only [List.head?_cons, Option.mem_def, Option.some.injEq] at hzx
          subst hzx
          exact h2 b hb x (by simp)
      · intro b hb z hzy
        simp only [List.getLast?_append, List.getLast?_singleton, Option.some_or, Option.mem_def,
          Option.some.injEq] at hb
        simp only [List.cons_append, List.head?_cons, Option.mem_def, Option.some.injEq] at hzy
        subst hb; subst hzy
        exact hc'.1

theorem CR.rotate {a : List Int} (h : CR a) : ∀ k : Nat, CR (a.rotate k)
  | 0 => by simpa using h
  | k + 1 => by
      rw [← List.rotate_rotate]
      exact (CR.rotate h k).rotate_one

theorem CR.invW {a : List Int} (h : CR a) : CR (invW a) := by
  refine ⟨isReduced_invW h.1, ?_⟩
  intro b hb x hx
  simp only [FWP.invW, List.getLast?_map, List.getLast?_reverse, List.head?_map, List.head?_reverse,
    Option.mem_def, Option.map_eq_some_iff] at hb hx
  obtain ⟨b', hb', rfl⟩ := hb
  obtain ⟨x', hx', rfl⟩ := hx
  have := h.2 x' hx' b' hb'
  omega

theorem CR.of_isRotated {a b : List Int} (h : CR a) (hr : a ~r b) : CR b := by
  obtain ⟨k, rfl⟩ := hr
  exact h.rotate k

/-! ### for a cyclically reduced word the visited list is the orbit -/

theorem rotated_of_CR {a : List Int} (h : CR a) (hn : a ≠ []) (i : Int) :
    FW.rotated a i = a.rotate (i % (a.length : Int)).toNat := by
  rw [rotated_of_ne_nil hn]
  have hpos : 0 < a.length := List.length_pos_iff.2 hn
  have hk : (i % (a.length : Int)).toNat ≤ a.length := by
    have := Int.emod_lt_of_pos i (show (0 : Int) < a.length by omega)
    omega
  rw [← List.rotate_eq_drop_append_take hk]
  exact normalized_of_isReduced (h.rotate _).1

theorem rotated_natCast_of_CR {a : List Int} (h : CR a) (hn : a ≠ []) {k : Nat}
    (hk : k < a.length) : FW.rotated a (k : Int) = a.rotate k := by
  rw [rotated_of_CR h hn]
  have : ((k : Int) % (a.length : Int)).toNat = k := by
    rw [Int.emod_eq_of_lt (by omega) (by omega)]; simp
  rw [this]

theorem invW_isRotated {a b : List Int} (h : a ~r b) : invW a ~r invW b :=
  (h.reverse).map _

/-- the orbit of `a` under rotation and inversion -/
def Orb (a v : List Int) : Prop := a ~r v ∨ invW a ~r v

theorem mem_rotInvList_iff {a : List Int} (h : CR a) (hn : a ≠ []) (v : List Int) :
    v ∈ rotInvList a ↔ Orb a v := by
  have hpos : 0 < a.length := List.length_pos_iff.2 hn
  simp only [rotInvList, List.mem_flatMap, List.mem_range, List.mem_cons, List.not_mem_nil,
    or_false]
  constructor
  · rintro ⟨k, hk, rfl | rfl⟩
    · rw [rotated_natCast_of_CR h hn hk]
      exact Or.inl ⟨k, rfl⟩
    · rw [rotated_natCast_of_CR h hn hk, inverse_of_isReduced (h.rotate k).1]
      exact Or.inr (invW_isRotated ⟨k, rfl⟩)
  · rintro (⟨k, rfl⟩ | hv)
    · refine ⟨k % a.length, Nat.mod_lt _ hpos, Or.inl ?_⟩
      rw [rotated_natCast_of_CR h hn (Nat.mod_lt _ hpos), List.rotate_mod]
    · have h2 : a ~r invW v := by
        have := invW_isRotated hv
        rwa [invW_invW] at this
      obtain ⟨k, hk⟩ := h2
      refine ⟨k % a.length, Nat.mod_lt _ hpos, Or.inr ?_⟩
      rw [rotated_natCast_of_CR h hn (Nat.mod_lt _ hpos), List.rotate_mod, hk,
        inverse_of_isReduced, invW_invW]
      rw [← hk]
      exact (h.rotate k).1

theorem Orb.symm' {a b : List Int} (h : Orb a b) : Orb b a := by
  rcases h with h | h
  · exact Or.inl h.symm
  · right
    have := invW_isRotated h
    rw [invW_invW] at this
    exact this.symm

theorem Orb.trans' {a b c : List Int} (h1 : Orb a b) (h2 : Orb b c) : Orb a c := by
  rcases h1 with h1 | h1 <;> rcases h2 with h2 | h2
  · exact Or.inl (h1.trans h2)
  · exact Or.inr ((invW_isRotated h1).trans h2)
  · exact Or.inr (h1.trans h2)
  · left
    have := invW_isRotated h1
    rw [invW_invW] at this
    exact this.trans h2

theorem Orb.CR {a b : List Int} (h : Orb a b) (hc : FWP.CR a) : FWP.CR b := by
  rcases h with h | h
  · exact hc.of_isRotated h
  · exact hc.invW.of_isRotated h

theorem Orb.ne_nil {a b : List Int} (h : Orb a b) (hn : a ≠ []) : b ≠ [] := by
  rcases h with h | h
  · intro e; subst e
    exact hn (List.isRotated_nil_iff'.1 h.symm).symm
  · intro e; subst e
    have := (List.isRotated_nil_iff'.1 h.symm).symm
    exact hn (invW_eq_nil.1 this)

/-- the representative only depends on the orbit -/
theorem relRep_eq_of_orb {a b : List Int} (hc : CR a) (hn : a ≠ []) (h : Orb a b) :
    FW.relatorRepresentative b = FW.relatorRepresentative a := by
  have hcb := h.CR hc
  have hnb := h.ne_nil hn
  have ma := relRep_mem hc.1 hn
  have mb := relRep_mem hcb.1 hnb
  apply le_antisymm
  · apply relRep_le b
    rw [mem_rotInvList_iff hcb hnb]
    exact h.symm'.trans' ((mem_rotInvList_iff hc hn _).1 ma)
  · apply relRep_le a
    rw [mem_rotInvList_iff hc hn]
    exact h.trans' ((mem_rotInvList_iff hcb hnb _).1 mb)

theorem relRep_rotated_of_CR {a : List Int} (hc : CR a) (i : Int) :
    FW.relatorRepresentative (FW.rotated a i) = FW.relatorRepresentative a := by
  by_cases hn : a = []
  · subst hn; rw [rotated_nil]
  · rw [rotated_of_CR hc hn]
    exact relRep_eq_of_orb hc hn (Or.inl ⟨_, rfl⟩)

theorem relRep_inverse_of_CR {a : List Int} (hc : CR a) :
    FW.relatorRepresentative (FW.inverse a) = FW.relatorRepresentative a := by
  by_cases hn : a = []
  · subst hn; rfl
  · rw [inverse_of_isReduced hc.1]
    exact relRep_eq_of_orb hc hn (Or.inr (List.IsRotated.refl _))

theorem relRep_eq_of_mem {a : List Int} (hc : CR a) {v : List Int} (hv : v ∈ rotInvList a) :
    FW.relatorRepresentative v = FW.relatorRepresentative a := by
  by_cases hn : a = []
  · subst hn; simp [rotInvList] at hv
  · exact relRep_eq_of_orb hc hn ((mem_rotInvList_iff hc hn v).1 hv)

/-! ### the Spec's Boolean clauses, evaluated on the model's outputs -/

theorem isReduced_of_mem_rotInvList {a v : List Int} (hv : v ∈ rotInvList a) :
    isReduced v = true := by
  simp only [rotInvList, List.mem_flatMap, List.mem_cons, List.not_mem_nil, or_false] at hv
  obtain ⟨i, -, rfl | rfl⟩ := hv
  · exact rotated_isReduced _ _
  · exact inverse_isReduced _

theorem isReduced_of_mem_relatorSet {a v : List Int} (hv : v ∈ relatorSet a) :
    isReduced v = true := by
  by_cases hn : a = []
  · subst hn
    simp only [relatorSet_nil, List.mem_singleton] at hv
    subst hv; rfl
  · rw [relatorSet_eq hn] at hv
    exact isReduced_of_mem_rotInvList hv

theorem wordLe_of_le {a b : List Int} (ha : NZ a) (hb : NZ b) (h : Le a b) :
    wordLe a b = true := by
  unfold wordLe
  rw [wordCmp_eq_cmp ha hb]
  unfold Le at h
  cases h' : FW.cmp a b <;> simp_all [ordInt]

theorem relRep_mem_relatorSet {a : List Int} (hr : isReduced a = true) :
    FW.relatorRepresentative a ∈ relatorSet a := by
  by_cases hn : a = []
  · subst hn; simp [relatorSet_nil, relRep_nil]
  · rw [relatorSet_eq hn]; exact relRep_mem hr hn

theorem relRep_isReduced {a : List Int} (hr : isReduced a = true) :
    isReduced (FW.relatorRepresentative a) = true :=
  isReduced_of_mem_relatorSet (relRep_mem_relatorSet hr)

theorem relRep_least_relatorSet {a : List Int} (hr : isReduced a = true) :
    ∀ v ∈ relatorSet a, wordLe (FW.relatorRepresentative a) v = true := by
  intro v hv
  apply wordLe_of_le (isReduced_nz (relRep_isReduced hr))
    (isReduced_nz (isReduced_of_mem_relatorSet hv))
  by_cases hn : a = []
  · subst hn
    simp only [relatorSet_nil, List.mem_singleton] at hv
    subst hv; exact le_refl _
  · rw [relatorSet_eq hn] at hv
    exact relRep_le a v hv

theorem isSortedStrict_of_sorted : ∀ (l : List (List Int)), Sorted l → (∀ v ∈ l, NZ v) →
    isSortedStrict l = true
  | [], _, _ => rfl
  | [_], _, _ => rfl
  | a :: b :: r, hs, hz => by
      have hs' := List.pairwise_cons.1 hs
      have ih := isSortedStrict_of_sorted (b :: r) hs'.2 (fun v hv => hz v (by simp [hv]))
      have hab : FW.cmp a b = .lt := hs'.1 b (by simp)
      simp only [isSortedStrict, ih, Bool.and_true, beq_iff_eq]
      rw [wordCmp_eq_cmp (hz a (by simp)) (hz b (by simp)), hab]; rfl

theorem mem_relPerms' (a v : List Int) : v ∈ FW.relatorPermutations a ↔ v ∈ relatorSet a := by
  by_cases hn : a = []
  · subst hn; simp [relPerms_nil, relatorSet_nil]
  · rw [relatorSet_eq hn, mem_relPerms hn]

theorem relPerms_isSortedStrict (a : List Int) :
    isSortedStrict (FW.relatorPermutations a) = true := by
  apply isSortedStrict_of_sorted _ (relPerms_sorted a)
  intro v hv
  exact isReduced_nz (isReduced_of_mem_relatorSet ((mem_relPerms' a v).1 hv))

theorem sameSet_iff (xs ys : List (List Int)) :
    sameSet xs ys = true ↔ ∀ v, v ∈ xs ↔ v ∈ ys := by
  simp only [sameSet, Bool.and_eq_true, List.all_eq_true, List.contains_iff_mem]
  constructor
  · rintro ⟨h1, h2⟩ v; exact ⟨h1 v, h2 v⟩
  · intro h; exact ⟨fun v => (h v).1, fun v => (h v).2⟩

theorem relPerms_sameSet (a : List Int) :
    sameSet (FW.relatorPermutations a) (relatorSet a) = true :=
  (sameSet_iff _ _).2 (mem_relPerms' a)

/-! ### "rotations of the word and of its inverse": inverting a rotation is rotating the inverse -/

theorem normalized_congr_den {v w : List Int} (h : den v = den w) : normalized v = normalized w :=
  eq_normalized_of_den (normalized_isReduced v) ((den_normalized v).trans h)

theorem den_invW (a : List Int) : den (invW a) = (den a)⁻¹ := den_invRaw a

theorem length_invW (a : List Int) : (invW a).length = a.length := by simp [invW]

theorem invW_rotate (a : List Int) (m : Nat) :
    (invW a).rotate m = invW (a.rotate (a.length - m % a.length)) := by
  unfold invW
  rw [← List.map_rotate, List.rotate_reverse]

/-- for a reduced word the inverse of the `k`-th rotation is the `(n-k)`-th rotation of the
    inverse, so `rotInvList` is "all rotations of the word and of its inverse" -/
theorem inverse_rotated {a : List Int} (hr : isReduced a = true) {k : Nat} (hk : k < a.length) :
    FW.inverse (FW.rotated a (k : Int))
      = FW.rotated (FW.inverse a) (((a.length - k : Nat) : Int)) := by
  have hn : a ≠ [] := by intro e; subst e; simp at hk
  have hnb : invW a ≠ [] := fun e => hn (invW_eq_nil.1 e)
  rw [inverse_of_isReduced hr, rotated_natCast hn hk, rotated_of_ne_nil hnb, length_invW]
  have e1 : (((a.length - k : Nat) : Int) % (a.length : Int)).toNat = (a.length - k) % a.length := by
    rw [← Int.natCast_mod, Int.toNat_natCast]
  have hle : (a.length - k) % a.length ≤ (invW a).length := by
    rw [length_invW]; exact (Nat.mod_lt _ (by omega)).le
  rw [e1, ← List.rotate_eq_drop_append_take hle, invW_rotate,
    ← List.rotate_eq_drop_append_take hk.le]
  have e2 : a.rotate (a.length - (a.length - k) % a.length % a.length) = a.rotate k := by
    rw [Nat.mod_mod]
    by_cases h0 : k = 0
    · subst h0; simp
    · rw [Nat.mod_eq_of_lt (by omega)]
      congr 1; omega
  rw [e2]
  show normalized (invW (normalized (a.rotate k))) = normalized (invW (a.rotate k))
  apply normalized_congr_den
  rw [den_invW, den_invW, den_normalized]

end DSymVerif.FWP
