/-
Lemmas about the model of simplify.rs (Model/Simplify.lean): `grow`, `reglue` through the
shared `build_set` lemmas of Proofs/BuildSet.lean.
-/
import DSymVerif.Model.Simplify
import DSymVerif.Proofs.BuildSet

namespace DSymVerif.Simp
open DSymVerif DSymVerif.DS

/-! ### reading a `PartialDSet` -/

theorem opPartial_eq_some {s : DSetData} {i d e : Nat} :
    s.opPartial i d = some e ↔ i ≤ s.dim ∧ 1 ≤ d ∧ d ≤ s.size ∧ s.opU i d = e ∧ e ≠ 0 := by
  unfold DSetData.opPartial
  by_cases h : (decide (i > s.dim) || decide (d < 1) || decide (d > s.size)) = true
  · rw [if_pos h]
    simp only [Bool.or_eq_true, decide_eq_true_eq] at h
    constructor
    · intro h'; cases h'
    · intro h'; omega
  · rw [if_neg h]
    simp only [Bool.or_eq_true, decide_eq_true_eq] at h
    cases hx : s.opU i d with
    | zero => simp; intro _ _ _ h0; omega
    | succ x =>
      simp only [Option.some.injEq]
      constructor
      · intro h'; subst h'; exact ⟨by omega, by omega, by omega, rfl, by omega⟩
      · intro h'; exact h'.2.2.2.1

theorem opPartial_of_ne_zero {s : DSetData} {i d : Nat} (hi : i ≤ s.dim) (h1 : 1 ≤ d) (h2 : d ≤ s.size)
    (h : s.opU i d ≠ 0) : s.opPartial i d = some (s.opU i d) :=
  opPartial_eq_some.2 ⟨hi, h1, h2, rfl, h⟩

theorem opPartial_eq_none_of_zero {s : DSetData} {i d : Nat} (h : s.opU i d = 0) : s.opPartial i d = none := by
  cases hx : s.opPartial i d with
  | none => rfl
  | some e =>
    have := opPartial_eq_some.1 hx
    omega

theorem opPartial_getD {s : DSetData} {i d : Nat} (hi : i ≤ s.dim) (h1 : 1 ≤ d) (h2 : d ≤ s.size) :
    (s.opPartial i d).getD 0 = s.opU i d := by
  by_cases h : s.opU i d = 0
  · rw [opPartial_eq_none_of_zero h, h]; rfl
  · rw [opPartial_of_ne_zero hi h1 h2 h]; rfl

/-! ### grow -/

/-- **`grow` adds `m` chambers fixed by every operation and keeps the old entries.**  On a valid
    `PartialDSet` (entries are chambers or undefined, defined entries are undone by the same
    operation — the invariant `PartialDSet::set` maintains) no assertion of `build_set` fires. -/
theorem grow_ok {ds : DSetData} (hv : ValidPartialSet ds) (hsize : 1 ≤ ds.size) (hdim : 1 ≤ ds.dim) (m : Nat) :
    ∃ s, grow ds m = .ok s ∧ s.size = ds.size + m ∧ s.dim = ds.dim ∧
      s.op.size = (ds.size + m) * (ds.dim + 1) ∧
      (∀ i d, i ≤ ds.dim → 1 ≤ d → d ≤ ds.size → s.opU i d = ds.opU i d) ∧
      (∀ i d, i ≤ ds.dim → ds.size < d → d ≤ ds.size + m → s.opU i d = d) := by
  have hrange : ∀ i d e, i ≤ ds.dim → 1 ≤ d → d ≤ ds.size + m → growOp ds i d = some e →
      1 ≤ e ∧ e ≤ ds.size + m := by
    intro i d e hi h1 h2 he
    unfold growOp at he
    split at he
    · cases he; omega
    · obtain ⟨_, _, h3, h4, h5⟩ := opPartial_eq_some.1 he
      have := hv.range i d hi h1 h3
      omega
  have hinvol : ∀ i d e, i ≤ ds.dim → 1 ≤ d → d ≤ ds.size + m → growOp ds i d = some e →
      growOp ds i e = some d := by
    intro i d e hi h1 h2 he
    unfold growOp at he ⊢
    split at he
    · cases he; rename_i h; rw [if_pos h]
    · obtain ⟨_, _, h3, h4, h5⟩ := opPartial_eq_some.1 he
      have hr := hv.range i d hi h1 h3
      have hi' := hv.invol i d hi h1 h3 (by omega)
      rw [if_neg (by omega)]
      subst h4
      exact opPartial_eq_some.2 ⟨hi, by omega, hr, hi', by omega⟩
  obtain ⟨s, hs, h1, h2, h3, h4⟩ := buildSet_of_involution (op := growOp ds) (size := ds.size + m)
    (dim := ds.dim) (by omega) hdim hrange hinvol
  refine ⟨s, hs, h1, h2, h3, ?_, ?_⟩
  · intro i d hi hd1 hd2
    rw [h4 i d hi hd1 (by omega)]
    unfold growOp
    rw [if_neg (by omega)]
    exact opPartial_getD hi hd1 hd2
  · intro i d hi hd1 hd2
    rw [h4 i d hi (by omega) hd2]
    unfold growOp
    rw [if_pos hd1]; rfl

/-! ### reglue -/

/-- the pairing is a matching on the chambers: whatever a chamber is paired with is a chamber
    and is paired back with it -/
def IsMatching (size : Nat) (pairs : List (Nat × Nat)) : Prop :=
  ∀ k x, 1 ≤ k → k ≤ size → pairedGet pairs k = some x →
    (1 ≤ x ∧ x ≤ size) ∧ pairedGet pairs x = some k

/-- both ends of every old `index`-edge are re-paired together: a chamber that is re-paired
    does not leave its old partner with a dangling entry -/
def ClosedUnder (ds : DSetData) (pairs : List (Nat × Nat)) (index : Nat) : Prop :=
  ∀ k, 1 ≤ k → k ≤ ds.size → pairedGet pairs k ≠ none → ds.opU index k ≠ 0 →
    pairedGet pairs (ds.opU index k) ≠ none

/-- the table `reglue` stores at `(i, d)` -/
def reglueVal (ds : DSetData) (pairs : List (Nat × Nat)) (index i d : Nat) : Nat :=
  if i = index then (pairedGet pairs d).getD (ds.opU i d) else ds.opU i d

theorem reglueOp_getD {ds : DSetData} {pairs : List (Nat × Nat)} {index i d : Nat}
    (hi : i ≤ ds.dim) (h1 : 1 ≤ d) (h2 : d ≤ ds.size) :
    (reglueOp ds pairs index i d).getD 0 = reglueVal ds pairs index i d := by
  unfold reglueOp reglueVal
  by_cases h : i = index
  · rw [if_pos h, if_pos h]
    cases hx : pairedGet pairs d with
    | none => simp only [Option.getD_none]; exact opPartial_getD hi h1 h2
    | some x => rfl
  · rw [if_neg h, if_neg h]; exact opPartial_getD hi h1 h2

theorem reglue_closure_range {ds : DSetData} (hv : ValidPartialSet ds) {pairs : List (Nat × Nat)} {index : Nat}
    (hm : IsMatching ds.size pairs) :
    ∀ i d e, i ≤ ds.dim → 1 ≤ d → d ≤ ds.size → reglueOp ds pairs index i d = some e →
      1 ≤ e ∧ e ≤ ds.size := by
  intro i d e hi h1 h2 he
  unfold reglueOp at he
  have old : ds.opPartial i d = some e → 1 ≤ e ∧ e ≤ ds.size := by
    intro h
    obtain ⟨_, _, _, h4, h5⟩ := opPartial_eq_some.1 h
    have := hv.range i d hi h1 h2
    omega
  split at he
  · split at he
    · rename_i x hx
      cases he
      exact (hm d _ h1 h2 hx).1
    · exact old he
  · exact old he

theorem reglue_closure_invol {ds : DSetData} (hv : ValidPartialSet ds) {pairs : List (Nat × Nat)} {index : Nat}
    (hm : IsMatching ds.size pairs) (hc : ClosedUnder ds pairs index) :
    ∀ i d e, i ≤ ds.dim → 1 ≤ d → d ≤ ds.size → reglueOp ds pairs index i d = some e →
      reglueOp ds pairs index i e = some d := by
  intro i d e hi h1 h2 he
  have old : ds.opPartial i d = some e → ds.opPartial i e = some d := by
    intro h
    obtain ⟨_, _, _, h4, h5⟩ := opPartial_eq_some.1 h
    have hr := hv.range i d hi h1 h2
    have hi' := hv.invol i d hi h1 h2 (by omega)
    subst h4
    exact opPartial_eq_some.2 ⟨hi, by omega, hr, hi', by omega⟩
  unfold reglueOp at he ⊢
  by_cases h : i = index
  · rw [if_pos h] at he ⊢
    cases hx : pairedGet pairs d with
    | some x =>
      rw [hx] at he
      cases he
      rw [(hm d _ h1 h2 hx).2]
    | none =>
      rw [hx] at he
      simp only at he
      obtain ⟨_, _, _, h4, h5⟩ := opPartial_eq_some.1 he
      have hr := hv.range i d hi h1 h2
      -- e is not re-paired: otherwise its old partner d would be
      cases hy : pairedGet pairs e with
      | none => simp only; exact old he
      | some y =>
        exfalso
        have hback : ds.opU index e = d := by
          have := hv.invol i d hi h1 h2 (by omega)
          rw [h4] at this; rw [← h]; exact this
        have := hc e (by omega) (by omega) (by rw [hy]; simp) (by rw [hback]; omega)
        rw [hback] at this
        exact this hx
  · rw [if_neg h] at he ⊢
    exact old he

/-- **`reglue` on a matching.**  If the pairs form a matching on the chambers
    (`IsMatching`: no chamber ends up with two partners, partners are chambers) and every
    re-paired chamber's old `index`-partner is re-paired as well (`ClosedUnder`), then no
    assertion of `build_set`/`set` fires; the result has the same size and dimension, its
    `index` operation equals the pairing on paired chambers and the old operation elsewhere,
    every other operation is unchanged, and all operations are again (partial) involutions. -/
theorem reglue_ok {ds : DSetData} (hv : ValidPartialSet ds) (hsize : 1 ≤ ds.size) (hdim : 1 ≤ ds.dim)
    {pairs : List (Nat × Nat)} {index : Nat} (hne : pairs ≠ [])
    (hm : IsMatching ds.size pairs) (hc : ClosedUnder ds pairs index) :
    ∃ s, reglue ds pairs index = .ok (some s) ∧ s.size = ds.size ∧ s.dim = ds.dim ∧
      (∀ i d, i ≤ ds.dim → 1 ≤ d → d ≤ ds.size → s.opU i d = reglueVal ds pairs index i d) ∧
      ValidPartialSet s := by
  obtain ⟨s, hs, h1, h2, h3, h4⟩ := buildSet_of_involution (op := reglueOp ds pairs index)
    hsize hdim (reglue_closure_range hv hm) (reglue_closure_invol hv hm hc)
  have hval : ∀ i d, i ≤ ds.dim → 1 ≤ d → d ≤ ds.size → s.opU i d = reglueVal ds pairs index i d := by
    intro i d hi hd1 hd2
    rw [h4 i d hi hd1 hd2]
    exact reglueOp_getD hi hd1 hd2
  refine ⟨s, ?_, h1, h2, hval, ?_⟩
  · unfold reglue
    have : pairs.isEmpty = false := by cases pairs with | nil => exact absurd rfl hne | cons _ _ => rfl
    rw [this, hs]; rfl
  · refine ⟨by rw [h1, h2]; exact h3, ?_, ?_⟩
    · intro i d hi hd1 hd2
      rw [h2] at hi; rw [h1] at hd2 ⊢
      rw [h4 i d hi hd1 hd2]
      cases hx : reglueOp ds pairs index i d with
      | none => simp
      | some e => exact (reglue_closure_range hv hm i d e hi hd1 hd2 hx).2
    · intro i d hi hd1 hd2 hne0
      rw [h2] at hi; rw [h1] at hd2
      rw [h4 i d hi hd1 hd2] at hne0 ⊢
      cases hx : reglueOp ds pairs index i d with
      | none => rw [hx] at hne0; exact absurd rfl hne0
      | some e =>
        have hr := reglue_closure_range hv hm i d e hi hd1 hd2 hx
        have hb := reglue_closure_invol hv hm hc i d e hi hd1 hd2 hx
        simp only [Option.getD_some]
        rw [h4 i e hi hr.1 hr.2, hb]; rfl

/-! ### the converse: whatever `reglue` accepts is stored both ways -/

theorem reglue_ok_inv {ds s : DSetData} {pairs : List (Nat × Nat)} {index : Nat}
    (h : reglue ds pairs index = .ok (some s)) :
    pairs ≠ [] ∧ s.size = ds.size ∧ s.dim = ds.dim ∧ s.op.size = ds.size * (ds.dim + 1) ∧
    ∀ i d e, i ≤ ds.dim → 1 ≤ d → d ≤ ds.size → reglueOp ds pairs index i d = some e →
      (1 ≤ e ∧ e ≤ ds.size) ∧ s.opU i d = e ∧ s.opU i e = d := by
  unfold reglue at h
  split at h
  · cases h
  · rename_i hne
    cases hb : buildSet ds.size ds.dim (reglueOp ds pairs index) with
    | ok s' =>
      rw [hb] at h
      cases h
      obtain ⟨_, _, h1, h2, h3, h4⟩ := buildSet_ok_inv hb
      refine ⟨?_, h1, h2, h3, h4⟩
      intro hp; rw [hp] at hne; exact hne rfl
    | err => rw [hb] at h; cases h
    | panic => rw [hb] at h; cases h

/-- on a complete input, an accepted `reglue` gives a complete D-set again: in-range entries,
    every operation an involution, untouched operations literally unchanged -/
theorem reglue_ok_valid {ds s : DSetData} {pairs : List (Nat × Nat)} {index : Nat} (hv : ValidSet ds)
    (h : reglue ds pairs index = .ok (some s)) :
    ValidSet s ∧ s.size = ds.size ∧ s.dim = ds.dim ∧
    (∀ i d, i ≤ ds.dim → 1 ≤ d → d ≤ ds.size → i ≠ index → s.opU i d = ds.opU i d) ∧
    (∀ d x, 1 ≤ d → d ≤ ds.size → index ≤ ds.dim → pairedGet pairs d = some x →
        s.opU index d = x ∧ s.opU index x = d) ∧
    (∀ d, 1 ≤ d → d ≤ ds.size → index ≤ ds.dim → pairedGet pairs d = none →
        s.opU index d = ds.opU index d) := by
  obtain ⟨_, h1, h2, h3, h4⟩ := reglue_ok_inv h
  have hold : ∀ i d, i ≤ ds.dim → 1 ≤ d → d ≤ ds.size → ds.opPartial i d = some (ds.opU i d) := by
    intro i d hi hd1 hd2
    exact opPartial_of_ne_zero hi hd1 hd2 (by have := hv.range i d hi hd1 hd2; omega)
  have htot : ∀ i d, i ≤ ds.dim → 1 ≤ d → d ≤ ds.size → ∃ e, reglueOp ds pairs index i d = some e := by
    intro i d hi hd1 hd2
    unfold reglueOp
    by_cases hx : i = index
    · rw [if_pos hx]
      cases hy : pairedGet pairs d with
      | some x => exact ⟨x, rfl⟩
      | none => exact ⟨_, hold i d hi hd1 hd2⟩
    · rw [if_neg hx]; exact ⟨_, hold i d hi hd1 hd2⟩
  refine ⟨⟨by rw [h1, h2]; exact h3, ?_, ?_⟩, h1, h2, ?_, ?_, ?_⟩
  · intro i d hi hd1 hd2
    rw [h2] at hi; rw [h1] at hd2 ⊢
    obtain ⟨e, he⟩ := htot i d hi hd1 hd2
    obtain ⟨hr, ha, _⟩ := h4 i d e hi hd1 hd2 he
    rw [ha]; exact hr
  · intro i d hi hd1 hd2
    rw [h2] at hi; rw [h1] at hd2
    obtain ⟨e, he⟩ := htot i d hi hd1 hd2
    obtain ⟨_, ha, hb⟩ := h4 i d e hi hd1 hd2 he
    rw [ha]; exact hb
  · intro i d hi hd1 hd2 hne
    have he : reglueOp ds pairs index i d = some (ds.opU i d) := by
      unfold reglueOp; rw [if_neg hne]; exact hold i d hi hd1 hd2
    exact (h4 i d _ hi hd1 hd2 he).2.1
  · intro d x hd1 hd2 hi hx
    have he : reglueOp ds pairs index index d = some x := by
      unfold reglueOp; rw [if_pos rfl, hx]
    exact (h4 index d x hi hd1 hd2 he).2
  · intro d hd1 hd2 hi hx
    have he : reglueOp ds pairs index index d = some (ds.opU index d) := by
      unfold reglueOp; rw [if_pos rfl, hx]; exact hold index d hi hd1 hd2
    exact (h4 index d _ hi hd1 hd2 he).2.1

/-! ### the hypotheses of `reglue_ok` are necessary -/

theorem pairedGet_partner : ∀ (pairs : List (Nat × Nat)) (k x : Nat),
    pairedGet pairs k = some x → pairedGet pairs x ≠ none
  | [], k, x, h => by cases h
  | (d, e) :: rest, k, x, h => by
    unfold pairedGet at h ⊢
    cases hr : pairedGet rest k with
    | some x' =>
      rw [hr] at h
      simp only [Option.some.injEq] at h
      subst h
      have := pairedGet_partner rest k x' hr
      cases hx : pairedGet rest x' with
      | none => exact absurd hx this
      | some y => simp
    | none =>
      rw [hr] at h
      simp only at h
      cases hx : pairedGet rest x with
      | some y => simp
      | none =>
        simp only
        by_cases h1 : e = k
        · rw [if_pos h1] at h
          simp only [Option.some.injEq] at h
          subst h
          by_cases h2 : e = d
          · rw [if_pos h2]; simp
          · rw [if_neg h2, if_pos rfl]; simp
        · rw [if_neg h1] at h
          by_cases h2 : d = k
          · rw [if_pos h2] at h
            simp only [Option.some.injEq] at h
            subst h
            rw [if_pos rfl]; simp
          · rw [if_neg h2] at h; cases h

/-- if `reglue` returns on a valid `PartialDSet` (index in range), the pairs were a matching … -/
theorem reglue_ok_matching {ds s : DSetData} {pairs : List (Nat × Nat)} {index : Nat}
    (hidx : index ≤ ds.dim) (h : reglue ds pairs index = .ok (some s)) : IsMatching ds.size pairs := by
  obtain ⟨_, _, _, _, h4⟩ := reglue_ok_inv h
  intro k x hk1 hk2 hx
  have he : reglueOp ds pairs index index k = some x := by
    unfold reglueOp; rw [if_pos rfl, hx]
  obtain ⟨hr, ha, hb⟩ := h4 index k x hidx hk1 hk2 he
  refine ⟨hr, ?_⟩
  cases hy : pairedGet pairs x with
  | none => exact absurd hy (pairedGet_partner pairs k x hx)
  | some y =>
    have he' : reglueOp ds pairs index index x = some y := by
      unfold reglueOp; rw [if_pos rfl, hy]
    obtain ⟨_, ha', _⟩ := h4 index x y hidx hr.1 hr.2 he'
    rw [← ha', hb]

/-- … and closed under the old operation -/
theorem reglue_ok_closed {ds s : DSetData} (hv : ValidPartialSet ds) {pairs : List (Nat × Nat)} {index : Nat}
    (hidx : index ≤ ds.dim) (h : reglue ds pairs index = .ok (some s)) : ClosedUnder ds pairs index := by
  have hm := reglue_ok_matching hidx h
  obtain ⟨_, _, _, _, h4⟩ := reglue_ok_inv h
  intro k hk1 hk2 hk hne hnone
  cases hx : pairedGet pairs k with
  | none => exact hk hx
  | some x =>
    have hr := hv.range index k hidx hk1 hk2
    have hinv := hv.invol index k hidx hk1 hk2 hne
    -- the old partner e keeps its old entry k, so k is stored with partner e; but also with x
    have he : reglueOp ds pairs index index (ds.opU index k) = some k := by
      unfold reglueOp
      rw [if_pos rfl, hnone]
      exact opPartial_eq_some.2 ⟨hidx, by omega, hr, hinv, by omega⟩
    obtain ⟨_, _, hb⟩ := h4 index (ds.opU index k) k hidx (by omega) hr he
    have hk' : reglueOp ds pairs index index k = some x := by
      unfold reglueOp; rw [if_pos rfl, hx]
    obtain ⟨_, ha, _⟩ := h4 index k x hidx hk1 hk2 hk'
    have hxe : x = ds.opU index k := by rw [← ha, hb]
    have := (hm k x hk1 hk2 hx).2
    rw [hxe, hnone] at this
    cases this

/-! ### build_set with a panicking closure -/

/-- one iteration of the loop body of `buildSetO` -/
def stepO (op : Nat → Nat → Outcome (Option Nat)) (acc : Outcome DSetData) (p : Nat × Nat) : Outcome DSetData :=
  match acc with
  | .ok ds =>
    (match op p.1 p.2 with
     | .ok (some di) => ds.set p.1 p.2 di
     | .ok none => .ok ds
     | .err => .err
     | .panic => .panic)
  | o => o

theorem buildSetO_eq_fold (size dim : Nat) (op : Nat → Nat → Outcome (Option Nat)) :
    buildSetO size dim op =
      match DSetData.new size dim with
      | .ok ds0 => (BS.pairs size dim).foldl (stepO op) (.ok ds0)
      | .err => .err
      | .panic => .panic := by
  unfold buildSetO BS.pairs
  cases DSetData.new size dim with
  | ok ds0 =>
    simp only
    rw [List.foldl_flatMap]
    congr 1
    funext acc i
    rw [List.foldl_map]
    rfl
  | err => rfl
  | panic => rfl

theorem foldO_not_ok (op : Nat → Nat → Outcome (Option Nat)) (ps : List (Nat × Nat)) (o : Outcome DSetData)
    (h : ∀ s, o ≠ .ok s) : ps.foldl (stepO op) o = o := by
  induction ps with
  | nil => rfl
  | cons p ps ih =>
    rw [List.foldl_cons]
    have : stepO op o p = o := by
      cases o with
      | ok s => exact absurd rfl (h s)
      | err => rfl
      | panic => rfl
    rw [this]; exact ih

/-- the pure closure behind a closure that did not panic -/
def pureOp (op : Nat → Nat → Outcome (Option Nat)) (i d : Nat) : Option Nat :=
  match op i d with
  | .ok x => x
  | _ => none

theorem foldO_ok (op : Nat → Nat → Outcome (Option Nat)) :
    ∀ (ps : List (Nat × Nat)) (s0 s : DSetData), ps.foldl (stepO op) (.ok s0) = .ok s →
      (∀ p ∈ ps, ∃ x, op p.1 p.2 = .ok x) ∧ ps.foldl (BS.step (pureOp op)) (.ok s0) = .ok s
  | [], s0, s, h => by
    simp only [List.foldl_nil] at h ⊢
    exact ⟨fun p hp => (by cases hp), h⟩
  | p :: ps, s0, s, h => by
    rw [List.foldl_cons] at h
    have key : ∃ x, op p.1 p.2 = .ok x ∧ stepO op (.ok s0) p = BS.step (pureOp op) (.ok s0) p := by
      cases hx : op p.1 p.2 with
      | ok x =>
        refine ⟨x, rfl, ?_⟩
        unfold stepO BS.step pureOp
        simp only [hx]
        cases x <;> rfl
      | err =>
        exfalso
        have : stepO op (.ok s0) p = .err := by unfold stepO; simp only [hx]
        rw [this, foldO_not_ok op ps .err (by intro s; simp)] at h; cases h
      | panic =>
        exfalso
        have : stepO op (.ok s0) p = .panic := by unfold stepO; simp only [hx]
        rw [this, foldO_not_ok op ps .panic (by intro s; simp)] at h; cases h
    obtain ⟨x, hx, hstep⟩ := key
    cases h1 : stepO op (.ok s0) p with
    | ok s1 =>
      rw [h1] at h
      obtain ⟨hall, hfold⟩ := foldO_ok op ps s1 s h
      refine ⟨?_, ?_⟩
      · intro q hq
        rcases List.mem_cons.1 hq with rfl | hq
        · exact ⟨x, hx⟩
        · exact hall q hq
      · rw [List.foldl_cons, ← hstep, h1]; exact hfold
    | err => rw [h1, foldO_not_ok op ps .err (by intro s; simp)] at h; cases h
    | panic => rw [h1, foldO_not_ok op ps .panic (by intro s; simp)] at h; cases h

/-- if `buildSetO` returns, no closure call panicked and `build_set` with the pure closure
    returns the same table -/
theorem buildSetO_ok {size dim : Nat} {op : Nat → Nat → Outcome (Option Nat)} {s : DSetData}
    (h : buildSetO size dim op = .ok s) :
    (∀ i d, i ≤ dim → 1 ≤ d → d ≤ size → ∃ x, op i d = .ok x) ∧ buildSet size dim (pureOp op) = .ok s := by
  rw [buildSetO_eq_fold] at h
  rw [BS.buildSet_eq_fold]
  cases hn : DSetData.new size dim with
  | ok ds0 =>
    rw [hn] at h
    simp only at h ⊢
    obtain ⟨hall, hfold⟩ := foldO_ok op _ ds0 s h
    exact ⟨fun i d hi h1 h2 => hall (i, d) (BS.mem_pairs.2 ⟨hi, h1, h2⟩), hfold⟩
  | err => rw [hn] at h; cases h
  | panic => rw [hn] at h; cases h

/-! ### collapse returns complete D-sets -/

theorem collapseOp_ok_some {ds : DSetData} {rn : Renum} {connector i d : Nat} {x : Option Nat}
    (h : collapseOp ds rn connector i d = .ok x) : ∃ e, x = some e := by
  unfold collapseOp at h
  split at h
  · cases h
  · split at h
    · cases h
    · simp only at h
      split at h
      · split at h
        · cases h; exact ⟨_, rfl⟩
        · cases h
      · cases h
      · cases h

/-- **Every D-set `collapse` returns is complete with involutive operations.**  Whatever the
    arguments: if the model of `collapse` returns a D-set (no `unwrap`, index or `set` assertion
    fired, the inner `while` loops ended), that D-set has `size − |remove|` chambers, every entry is
    a chamber and every operation is an involution. -/
theorem collapse_ok_valid {ds s : DSetData} {remove : List Nat} {connector : Nat}
    (h : collapse (.dset ds) remove connector = .ok (some (.dset s))) :
    ValidSet s ∧ s.size = ds.size - distinctCount ds.size remove ∧ s.dim = ds.dim := by
  unfold collapse at h
  simp only at h
  split at h
  · cases h
  · split at h
    · cases h
    · split at h
      · cases h
      · unfold ofBuild at h
        split at h
        · rename_i s' hb
          simp only [Outcome.ok.injEq, Option.some.injEq, DOE.dset.injEq] at h
          subst h
          obtain ⟨hall, hpure⟩ := buildSetO_ok hb
          obtain ⟨_, _, h1, h2, h3, h4⟩ := buildSet_ok_inv hpure
          have hsome : ∀ i d, i ≤ ds.dim → 1 ≤ d → d ≤ ds.size - distinctCount ds.size remove →
              ∃ e, pureOp (collapseOp ds (renumber ds.size (markOf ds.size remove)) connector) i d = some e := by
            intro i d hi hd1 hd2
            obtain ⟨x, hx⟩ := hall i d hi hd1 hd2
            obtain ⟨e, rfl⟩ := collapseOp_ok_some hx
            exact ⟨e, by unfold pureOp; rw [hx]⟩
          refine ⟨⟨by rw [h1, h2]; exact h3, ?_, ?_⟩, h1, h2⟩
          · intro i d hi hd1 hd2
            rw [h2] at hi; rw [h1] at hd2 ⊢
            obtain ⟨e, he⟩ := hsome i d hi hd1 hd2
            obtain ⟨hr, ha, _⟩ := h4 i d e hi hd1 hd2 he
            rw [ha]; exact hr
          · intro i d hi hd1 hd2
            rw [h2] at hi; rw [h1] at hd2
            obtain ⟨e, he⟩ := hsome i d hi hd1 hd2
            obtain ⟨_, ha, hb'⟩ := h4 i d e hi hd1 hd2 he
            rw [ha]; exact hb'
        · cases h
        · cases h

end DSymVerif.Simp
