/-
Helper lemmas for property C09, part 11: the closed walk around the 2-orbit of a chamber in a valid
symbol (`OW`), its behaviour under change of starting chamber / direction, and the word that
`trace_word` computes.
-/
import DSymVerif.Proofs.FundGroupTotal2
import DSymVerif.Proofs.DSetOrb2

namespace DSymVerif.FGP
open DSymVerif DSymVerif.DS DSymVerif.FG DSymVerif.FWP

/-- `2k` alternating crossings are `k` applications of the composite -/
theorem wk_opT_even {ds : DSymData} (hv : ValidSet ds.dset) {a b : Nat} (ha : a ≤ ds.dim)
    (hb : b ≤ ds.dim) {c : Nat} (h1 : 1 ≤ c) (h2 : c ≤ ds.size) (k : Nat) :
    wk (opT ds) a b (2 * k) c = (ds.dset.comp a b)^[k] c := by
  rw [wk_even]
  induction k with
  | zero => rfl
  | succ k ih =>
    rw [Function.iterate_succ_apply', Function.iterate_succ_apply', ih]
    have r := hv.comp_range ha hb h1 h2 k
    have r' := hv.range a _ ha r.1 r.2
    show opT ds b (opT ds a _) = ds.dset.opU b (ds.dset.opU a _)
    rw [opT_eq ha r.1 r.2, opT_eq hb r'.1 r'.2]

/-- the orbit length `r_ab(c)` as the symbol reports it (0 if it does not) -/
def orbR (ds : DSymData) (a b c : Nat) : Nat :=
  match ds.rPartial a b c with
  | .ok (some r) => r
  | _ => 0

/-- the branching number `v_ab(c)` as the symbol reports it (0 if it does not) -/
def orbV (ds : DSymData) (a b c : Nat) : Nat :=
  match ds.vPartial a b c with
  | .ok (some v) => v
  | _ => 0

theorem orbR_spec {ds : DSymData} (hs : ValidSym ds) {a b c : Nat} (ha : a ≤ ds.dim) (hb : b ≤ ds.dim)
    (h1 : 1 ≤ c) (h2 : c ≤ ds.size) :
    ds.rPartial a b c = .ok (some (orbR ds a b c)) ∧ IsLeastPeriod ds.dset a b c (orbR ds a b c) := by
  obtain ⟨k, _, hk, hr⟩ := r_generic_least hs.set ha hb ⟨h1, h2⟩
  have : ds.rPartial a b c = .ok (some k) := by
    rw [hs.rPartial_eq_generic ha hb h1 h2, ds.view_eq, hr]
  have e : orbR ds a b c = k := by unfold orbR; rw [this]
  rw [e]; exact ⟨this, hk⟩

theorem orbR_swap (ds : DSymData) (a b c : Nat) : orbR ds b a c = orbR ds a b c := by
  unfold orbR; rw [ds.rPartial_symm]

theorem orbV_swap (ds : DSymData) (a b c : Nat) : orbV ds b a c = orbV ds a b c := by
  unfold orbV; rw [ds.vPartial_symm]

theorem orbR_opA {ds : DSymData} (hs : ValidSym ds) {a b c : Nat} (ha : a ≤ ds.dim) (hb : b ≤ ds.dim)
    (h1 : 1 ≤ c) (h2 : c ≤ ds.size) :
    orbR ds a b (opT ds a c) = orbR ds a b c ∧ orbR ds a b (opT ds b c) = orbR ds a b c ∧
    orbV ds a b (opT ds a c) = orbV ds a b c ∧ orbV ds a b (opT ds b c) = orbV ds a b c := by
  have := hs.const_on_orbit ha hb h1 h2
  rw [opT_eq ha h1 h2, opT_eq hb h1 h2]
  unfold orbR orbV
  rw [this.1.1, this.1.2, this.2.1.1, this.2.1.2]
  exact ⟨rfl, rfl, rfl, rfl⟩

theorem orbR_period {ds : DSymData} (hs : ValidSym ds) {a b c : Nat} (ha : a ≤ ds.dim) (hb : b ≤ ds.dim)
    (h1 : 1 ≤ c) (h2 : c ≤ ds.size) :
    1 ≤ orbR ds a b c ∧ wk (opT ds) a b (2 * orbR ds a b c) c = c := by
  obtain ⟨_, hl⟩ := orbR_spec hs ha hb h1 h2
  refine ⟨hl.1, ?_⟩
  rw [wk_opT_even hs.set ha hb h1 h2]
  exact hl.2.1

section group
variable {G : Type} [Group G]

/-- the closed walk around the `(a,b)`-orbit of `c`, crossing `a` first, read with `val` -/
def OW (ds : DSymData) (val : Nat → Nat → G) (a b c : Nat) : G :=
  Wf (opT ds) val a b (2 * orbR ds a b c) c

variable {ds : DSymData} (hs : ValidSym ds) {val : Nat → Nat → G}
  (hpair : ∀ a c, val (opT ds a c) a = (val c a)⁻¹)
include hs hpair

theorem OW_swap {a b c : Nat} (ha : a ≤ ds.dim) (hb : b ≤ ds.dim) (h1 : 1 ≤ c) (h2 : c ≤ ds.size) :
    OW ds val b a c = (OW ds val a b c)⁻¹ := by
  unfold OW
  rw [orbR_swap ds a b c]
  exact Wf_swap_closed (opT ds) val (opT_invol hs.set) hpair (orbR_period hs ha hb h1 h2).2

theorem OW_opA {a b c : Nat} (ha : a ≤ ds.dim) (hb : b ≤ ds.dim) (h1 : 1 ≤ c) (h2 : c ≤ ds.size) :
    OW ds val a b (opT ds a c) =
      val (opT ds a c) a * (OW ds val a b c)⁻¹ * (val (opT ds a c) a)⁻¹ := by
  have hp := orbR_period hs hb ha h1 h2
  rw [orbR_swap ds a b c] at hp
  rw [← OW_swap hs hpair ha hb h1 h2]
  unfold OW
  rw [(orbR_opA hs ha hb h1 h2).1, orbR_swap ds a b c]
  exact Wf_shift_closed (opT ds) val (opT_invol hs.set) hp.1 hp.2

theorem OW_opB {a b c : Nat} (ha : a ≤ ds.dim) (hb : b ≤ ds.dim) (h1 : 1 ≤ c) (h2 : c ≤ ds.size) :
    OW ds val a b (opT ds b c) =
      val (opT ds b c) b * (OW ds val a b c)⁻¹ * (val (opT ds b c) b)⁻¹ := by
  have r := opT_range hs.set (a := b) h1 h2
  have h := OW_opA hs hpair hb ha h1 h2
  rw [OW_swap hs hpair ha hb h1 h2, inv_inv] at h
  rw [← inv_inv (OW ds val a b (opT ds b c)), ← OW_swap hs hpair ha hb r.1 r.2, h]
  group

/-- killing a power of the closed walk does not depend on the chamber of the orbit one starts from -/
theorem OW_orbit {a b : Nat} (ha : a ≤ ds.dim) (hb : b ≤ ds.dim) {c0 c : Nat}
    (h1 : 1 ≤ c0) (h2 : c0 ≤ ds.size) (ho : Orb2 ds.dset a b c0 c) (v : Nat) :
    OW ds val a b c ^ v = 1 ↔ OW ds val a b c0 ^ v = 1 := by
  induction ho with
  | refl => exact Iff.rfl
  | @stepI e ho ih =>
    have r := Orb2.range hs.set ha hb ⟨h1, h2⟩ ho
    rw [← opT_eq ha r.1 r.2, OW_opA hs hpair ha hb r.1 r.2, ← ih]
    rw [conj_pow, inv_pow]
    constructor
    · intro h
      have : (OW ds val a b e ^ v)⁻¹ = (val (opT ds a e) a)⁻¹ * 1 * val (opT ds a e) a := by
        rw [← h]; group
      simpa using this
    · intro h; rw [h]; group
  | @stepJ e ho ih =>
    have r := Orb2.range hs.set ha hb ⟨h1, h2⟩ ho
    rw [← opT_eq hb r.1 r.2, OW_opB hs hpair ha hb r.1 r.2, ← ih]
    rw [conj_pow, inv_pow]
    constructor
    · intro h
      have : (OW ds val a b e ^ v)⁻¹ = (val (opT ds b e) b)⁻¹ * 1 * val (opT ds b e) b := by
        rw [← h]; group
      simpa using this
    · intro h; rw [h]; group

end group

/-! ### what `trace_word` computes -/

/-- the element of the free group attached to crossing facet `a` of chamber `c` by `edge_to_word` -/
def valW (e2w : E2W) (c a : Nat) : FreeGroup ℕ := den (e2wGet e2w (c, a))

theorem traceLoop_den (ds : DSymData) (e2w : E2W) (d i j : Nat) : ∀ (fuel e : Nat) (res w : List Int),
    traceLoop ds e2w d i j fuel e res = .ok w →
    ∃ k, 1 ≤ k ∧ wk (opT ds) i j (2 * k) e = d ∧
      (∀ t, 1 ≤ t → t < k → wk (opT ds) i j (2 * t) e ≠ d) ∧
      den w = den res * Wf (opT ds) (valW e2w) i j (2 * k) e
  | 0, _, _, _, h => by simp [traceLoop] at h
  | fuel + 1, e, res, w, h => by
    unfold traceLoop at h
    simp only at h
    have hstep : wk (opT ds) i j 2 e = opT ds j (opT ds i e) := rfl
    split at h
    · rename_i he
      injection h with h
      refine ⟨1, Nat.le_refl _, he, fun t a b => by omega, ?_⟩
      rw [← h, den_mulAssign, den_mulAssign]
      show _ = den res * (valW e2w e i * (valW e2w (opT ds i e) j * 1))
      unfold valW opT
      group
    · rename_i he
      obtain ⟨k, hk1, hk2, hk3, hk4⟩ := traceLoop_den ds e2w d i j fuel _ _ w h
      refine ⟨k + 1, by omega, ?_, ?_, ?_⟩
      · have : 2 * (k + 1) = 2 * k + 2 := by ring
        rw [this, wk_add_two]; exact hk2
      · intro t ht1 ht2
        rcases Nat.lt_or_ge t 2 with h2 | h2
        · have : t = 1 := by omega
          subst this
          exact he
        · have : 2 * t = 2 * (t - 1) + 2 := by omega
          rw [this, wk_add_two]
          exact hk3 (t - 1) (by omega) (by omega)
      · have : 2 * (k + 1) = 2 * k + 2 := by ring
        rw [this, Wf_add_two, hk4, den_mulAssign, den_mulAssign]
        unfold valW opT
        group

/-- on a valid symbol `trace_word(ds, e2w, c, Some(a), Some(b))` is the closed walk around the
    `(a,b)`-orbit of `c`, crossing `a` first, read with `edge_to_word` -/
theorem traceWord_den {ds : DSymData} (hs : ValidSym ds) (e2w : E2W) {a b c : Nat} (ha : a ≤ ds.dim)
    (hb : b ≤ ds.dim) (h1 : 1 ≤ c) (h2 : c ≤ ds.size) {w : List Int}
    (h : traceWord ds e2w c (some a) (some b) = .ok w) :
    den w = OW ds (valW e2w) a b c := by
  unfold traceWord at h
  simp only at h
  obtain ⟨k, hk1, hk2, hk3, hk4⟩ := traceLoop_den ds e2w c a b _ _ _ _ h
  obtain ⟨_, hl⟩ := orbR_spec hs ha hb h1 h2
  have hk : IsLeastPeriod ds.dset a b c k := by
    refine ⟨hk1, ?_, ?_⟩
    · show (ds.dset.comp a b)^[k] c = c
      rw [← wk_opT_even hs.set ha hb h1 h2]; exact hk2
    · intro t ht1 ht2 hp
      apply hk3 t ht1 ht2
      rw [wk_opT_even hs.set ha hb h1 h2]; exact hp
  have : k = orbR ds a b c := hk.unique hl
  unfold OW
  rw [← this, hk4]
  show den [] * _ = _
  rw [den_nil, one_mul]

end DSymVerif.FGP
