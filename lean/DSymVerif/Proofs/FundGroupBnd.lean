/-
Helper lemmas for property C09, part 5: the invariant of `Boundary` (the ridge pairing kept in
`opposite`) and its preservation by `glue`.

  * keys are pairwise different; every key / every value is an in-range ridge or the sentinel
    `(0,0,0)`; counts are positive;
  * the pairing is symmetric on in-range ridges and has no fixed point;
  * a ridge `(d,i,j)` is present exactly when its partner `(s_i d, i, j)` (the same ridge seen
    from the other side of facet `i`) is present — this is why the `unwrap()` in `glue` succeeds.
-/
import DSymVerif.Proofs.FundGroupMap
import DSymVerif.Proofs.DSetOrbit

namespace DSymVerif.FGP
open DSymVerif DSymVerif.DS DSymVerif.FG

/-- the sentinel ridge that `glue` stores opposite to a run that ends at a glued mirror -/
def zeroR : Ridge := (0, 0, 0)

/-- `(d,i,j)` is a ridge of the symbol: chamber and both indices in range, `i ≠ j` -/
def Rng (ds : DSymData) (k : Ridge) : Prop :=
  1 ≤ k.1 ∧ k.1 ≤ ds.size ∧ k.2.1 ≤ ds.dim ∧ k.2.2 ≤ ds.dim ∧ k.2.1 ≠ k.2.2

instance (ds : DSymData) (k : Ridge) : Decidable (Rng ds k) := by unfold Rng; infer_instance

/-- the same ridge seen from the chamber on the other side of facet `i` -/
def partner (ds : DSymData) (k : Ridge) : Ridge := (ds.dset.opU k.2.1 k.1, k.2.1, k.2.2)

theorem not_rng_zero (ds : DSymData) : ¬ Rng ds zeroR := by
  intro h; have := h.1; simp [zeroR] at this

theorem rng_partner {ds : DSymData} (hv : ValidSet ds.dset) {k : Ridge} (h : Rng ds k) :
    Rng ds (partner ds k) := by
  obtain ⟨h1, h2, h3, h4, h5⟩ := h
  have := hv.range k.2.1 k.1 h3 h1 h2
  exact ⟨this.1, this.2, h3, h4, h5⟩

theorem partner_partner {ds : DSymData} (hv : ValidSet ds.dset) {k : Ridge} (h : Rng ds k) :
    partner ds (partner ds k) = k := by
  obtain ⟨h1, h2, h3, h4, h5⟩ := h
  unfold partner
  simp only
  rw [hv.invol k.2.1 k.1 h3 h1 h2]

theorem op_eq {ds : DSymData} {i d : Nat} (hi : i ≤ ds.dim) (h1 : 1 ≤ d) (h2 : d ≤ ds.size) :
    ds.op i d = some (ds.dset.opU i d) :=
  opSimple_eq_some.2 ⟨hi, h1, h2, rfl⟩

theorem op_some_iff {ds : DSymData} {i d e : Nat} :
    ds.op i d = some e ↔ i ≤ ds.dim ∧ 1 ≤ d ∧ d ≤ ds.size ∧ ds.dset.opU i d = e :=
  opSimple_eq_some

/-- the chamber across facet `a` of chamber `c`; the chamber itself when there is none
    (`ds.op(a, c).unwrap_or(c)`) -/
def opT (ds : DSymData) (a c : Nat) : Nat := (ds.op a c).getD c

theorem opT_eq {ds : DSymData} {a c : Nat} (ha : a ≤ ds.dim) (h1 : 1 ≤ c) (h2 : c ≤ ds.size) :
    opT ds a c = ds.dset.opU a c := by
  unfold opT; rw [op_eq ha h1 h2]; rfl

theorem opT_oor {ds : DSymData} {a c : Nat} (h : ¬ (a ≤ ds.dim ∧ 1 ≤ c ∧ c ≤ ds.size)) :
    opT ds a c = c := by
  unfold opT
  cases g : ds.op a c with
  | none => rfl
  | some e =>
    obtain ⟨h1, h2, h3, _⟩ := op_some_iff.1 g
    exact absurd ⟨h1, h2, h3⟩ h

theorem opT_range {ds : DSymData} (hv : ValidSet ds.dset) {a c : Nat} (h1 : 1 ≤ c) (h2 : c ≤ ds.size) :
    1 ≤ opT ds a c ∧ opT ds a c ≤ ds.size := by
  by_cases ha : a ≤ ds.dim
  · rw [opT_eq ha h1 h2]; exact hv.range a c ha h1 h2
  · rw [opT_oor (fun h => ha h.1)]; exact ⟨h1, h2⟩

theorem opT_invol {ds : DSymData} (hv : ValidSet ds.dset) (a c : Nat) : opT ds a (opT ds a c) = c := by
  by_cases h : a ≤ ds.dim ∧ 1 ≤ c ∧ c ≤ ds.size
  · have r := hv.range a c h.1 h.2.1 h.2.2
    rw [opT_eq h.1 h.2.1 h.2.2, opT_eq h.1 r.1 r.2]
    exact hv.invol a c h.1 h.2.1 h.2.2
  · rw [opT_oor h, opT_oor h]

/-- the invariant of the ridge pairing -/
structure BInv (ds : DSymData) (m : OppMap) : Prop where
  nodup : KeysNodup m
  keys : ∀ k v, oppGet m k = some v → k = zeroR ∨ Rng ds k
  vals : ∀ k v n, oppGet m k = some (v, n) → 1 ≤ n ∧ (v = zeroR ∨ Rng ds v)
  symm : ∀ k v n, Rng ds k → oppGet m k = some (v, n) → Rng ds v → oppGet m v = some (k, n)
  nofix : ∀ k n, Rng ds k → oppGet m k ≠ some (k, n)
  pres : ∀ k, Rng ds k → (oppGet m k = none ↔ oppGet m (partner ds k) = none)

/-! ### the two updates of `glue`, as finite-map equations -/

theorem ext_nonmirror {m : OppMap} (hn : KeysNodup m) (A B X Y : Ridge) (vX vY : Ridge × Nat)
    (k : Ridge) :
    oppGet (oppRemove (oppRemove (oppInsert (oppInsert m X vX) Y vY) A) B) k =
      if k = B then none else if k = A then none else if k = Y then some vY
      else if k = X then some vX else oppGet m k := by
  have h1 := keysNodup_insert (keysNodup_insert hn X vX) Y vY
  have h2 := keysNodup_remove h1 A
  rw [oppGet_remove h2, oppGet_remove h1, oppGet_insert, oppGet_insert]

theorem ext_mirror {m : OppMap} (hn : KeysNodup m) (A X : Ridge) (vX : Ridge × Nat) (k : Ridge) :
    oppGet (oppRemove (oppInsert m X vX) A) k =
      if k = A then none else if k = X then some vX else oppGet m k := by
  have h1 := keysNodup_insert hn X vX
  rw [oppGet_remove h1, oppGet_insert]

/-- preservation by the non-mirror update: `A = (d,i,j)` and `B = (s_i d,i,j)` are different
    partners, opposite to `X` and `Y`; afterwards `X` and `Y` are opposite to each other and
    `A`, `B` are gone -/
theorem binv_nonmirror {ds : DSymData} (hv : ValidSet ds.dset) {m m' : OppMap} (hm : BInv ds m)
    {A B X Y : Ridge} {cA cB : Nat} (hA : Rng ds A) (hB : B = partner ds A) (hAB : A ≠ B)
    (gA : oppGet m A = some (X, cA)) (gB : oppGet m B = some (Y, cB))
    (hn' : KeysNodup m')
    (hext : ∀ k, oppGet m' k = if k = B then none else if k = A then none
      else if k = Y then some (X, cA + cB) else if k = X then some (Y, cA + cB) else oppGet m k) :
    BInv ds m' := by
  have hBr : Rng ds B := hB ▸ rng_partner hv hA
  have hpB : partner ds B = A := by rw [hB]; exact partner_partner hv hA
  have hXA : X ≠ A := fun e => hm.nofix A cA hA (e ▸ gA)
  have hYB : Y ≠ B := fun e => hm.nofix B cB hBr (e ▸ gB)
  have vA := hm.vals A X cA gA
  have vB := hm.vals B Y cB gB
  have sX : Rng ds X → oppGet m X = some (A, cA) := fun h => hm.symm A X cA hA gA h
  have sY : Rng ds Y → oppGet m Y = some (B, cB) := fun h => hm.symm B Y cB hBr gB h
  have hXB : X = B → Y = A := by
    intro e
    have := sX (e ▸ hBr)
    rw [e, gB] at this
    exact congrArg Prod.fst (Option.some.inj this)
  have hYA : Y = A → X = B := by
    intro e
    have := sY (e ▸ hA)
    rw [e, gA] at this
    exact congrArg Prod.fst (Option.some.inj this)
  refine ⟨hn', ?_, ?_, ?_, ?_, ?_⟩
  · -- keys
    intro k v hk
    rw [hext k] at hk
    split at hk
    · cases hk
    · split at hk
      · cases hk
      · split at hk
        · rename_i h; rw [h]; exact vB.2
        · split at hk
          · rename_i h; rw [h]; exact vA.2
          · exact hm.keys k v hk
  · -- vals
    intro k v n hk
    rw [hext k] at hk
    split at hk
    · cases hk
    · split at hk
      · cases hk
      · split at hk
        · cases hk; exact ⟨by omega, vA.2⟩
        · split at hk
          · cases hk; exact ⟨by omega, vB.2⟩
          · exact hm.vals k v n hk
  · -- symm
    intro k v n hk gk hvr
    rw [hext k] at gk
    by_cases kB : k = B
    · rw [if_pos kB] at gk; cases gk
    · rw [if_neg kB] at gk
      by_cases kA : k = A
      · rw [if_pos kA] at gk; cases gk
      · rw [if_neg kA] at gk
        by_cases kY : k = Y
        · rw [if_pos kY] at gk
          cases gk
          -- v = X, in range
          have h1 : ¬ X = B := fun e => kA (kY ▸ hXB e)
          rw [hext X, if_neg h1, if_neg hXA]
          by_cases hXY : X = Y
          · rw [if_pos hXY, kY, hXY]
          · rw [if_neg hXY, if_pos rfl, kY]
        · rw [if_neg kY] at gk
          by_cases kX : k = X
          · rw [if_pos kX] at gk
            cases gk
            have h1 : ¬ Y = A := fun e => kB (kX ▸ hYA e)
            rw [hext Y, if_neg hYB, if_neg h1, if_pos rfl, kX]
          · rw [if_neg kX] at gk
            have hs := hm.symm k v n hk gk hvr
            have vB' : ¬ v = B := by
              intro e; rw [e, gB] at hs
              exact kY (congrArg Prod.fst (Option.some.inj hs)).symm
            have vA' : ¬ v = A := by
              intro e; rw [e, gA] at hs
              exact kX (congrArg Prod.fst (Option.some.inj hs)).symm
            have vY' : ¬ v = Y := by
              intro e
              have := sY (e ▸ hvr)
              rw [← e, hs] at this
              exact kB (congrArg Prod.fst (Option.some.inj this))
            have vX' : ¬ v = X := by
              intro e
              have := sX (e ▸ hvr)
              rw [← e, hs] at this
              exact kA (congrArg Prod.fst (Option.some.inj this))
            rw [hext v, if_neg vB', if_neg vA', if_neg vY', if_neg vX']
            exact hs
  · -- nofix
    intro k n hk gk
    rw [hext k] at gk
    by_cases kB : k = B
    · rw [if_pos kB] at gk; cases gk
    · rw [if_neg kB] at gk
      by_cases kA : k = A
      · rw [if_pos kA] at gk; cases gk
      · rw [if_neg kA] at gk
        by_cases kY : k = Y
        · rw [if_pos kY] at gk
          have hXY : X = Y := kY ▸ (congrArg Prod.fst (Option.some.inj gk))
          -- X = Y in range: both opposite to A and to B
          have h1 := sX (hXY ▸ kY ▸ hk)
          have h2 := sY (kY ▸ hk)
          rw [hXY, h2] at h1
          exact hAB (congrArg Prod.fst (Option.some.inj h1)).symm
        · rw [if_neg kY] at gk
          by_cases kX : k = X
          · rw [if_pos kX] at gk
            exact kY (kX ▸ (congrArg Prod.fst (Option.some.inj gk)).symm)
          · rw [if_neg kX] at gk
            exact hm.nofix k n hk gk
  · -- pres
    intro k hk
    have hpk := rng_partner hv hk
    have hX : X = zeroR ∨ Rng ds X := vA.2
    have hY : X = zeroR ∨ Rng ds X := vA.2
    -- presence of a ridge other than A, B is unchanged
    have keep : ∀ r, Rng ds r → r ≠ A → r ≠ B → (oppGet m' r = none ↔ oppGet m r = none) := by
      intro r hr rA rB
      rw [hext r, if_neg rB, if_neg rA]
      by_cases rY : r = Y
      · rw [if_pos rY]
        have := sY (rY ▸ hr)
        rw [rY, this]
        simp
      · rw [if_neg rY]
        by_cases rX : r = X
        · rw [if_pos rX]
          have := sX (rX ▸ hr)
          rw [rX, this]
          simp
        · rw [if_neg rX]
    by_cases kA : k = A
    · have : partner ds k = B := by rw [kA, hB]
      rw [this, hext k, hext B, kA]
      simp [hAB]
    · by_cases kB : k = B
      · have : partner ds k = A := by rw [kB, hpB]
        rw [this, hext k, hext A, kB]
        simp
      · have pA : partner ds k ≠ A := by
          intro e
          have := partner_partner hv hk
          rw [e, ← hB] at this
          exact kB this.symm
        have pB : partner ds k ≠ B := by
          intro e
          have := partner_partner hv hk
          rw [e, hpB] at this
          exact kA this.symm
        rw [keep k hk kA kB, keep _ hpk pA pB]
        exact hm.pres k hk

/-- preservation by the mirror update: `A = (d,i,j)` with `s_i d = d`, opposite to `X`;
    afterwards `X` is opposite to the sentinel and `A` is gone -/
theorem binv_mirror {ds : DSymData} (hv : ValidSet ds.dset) {m m' : OppMap} (hm : BInv ds m)
    {A X : Ridge} {cA : Nat} (hA : Rng ds A) (hAA : partner ds A = A)
    (gA : oppGet m A = some (X, cA))
    (hn' : KeysNodup m')
    (hext : ∀ k, oppGet m' k = if k = A then none
      else if k = X then some (zeroR, cA) else oppGet m k) :
    BInv ds m' := by
  have hXA : X ≠ A := fun e => hm.nofix A cA hA (e ▸ gA)
  have vA := hm.vals A X cA gA
  have sX : Rng ds X → oppGet m X = some (A, cA) := fun h => hm.symm A X cA hA gA h
  refine ⟨hn', ?_, ?_, ?_, ?_, ?_⟩
  · intro k v hk
    rw [hext k] at hk
    split at hk
    · cases hk
    · split at hk
      · rename_i h; rw [h]; exact vA.2
      · exact hm.keys k v hk
  · intro k v n hk
    rw [hext k] at hk
    split at hk
    · cases hk
    · split at hk
      · cases hk; exact ⟨vA.1, Or.inl rfl⟩
      · exact hm.vals k v n hk
  · intro k v n hk gk hvr
    rw [hext k] at gk
    by_cases kA : k = A
    · rw [if_pos kA] at gk; cases gk
    · rw [if_neg kA] at gk
      by_cases kX : k = X
      · rw [if_pos kX] at gk
        cases gk
        exact absurd hvr (not_rng_zero ds)
      · rw [if_neg kX] at gk
        have hs := hm.symm k v n hk gk hvr
        have vA' : ¬ v = A := by
          intro e; rw [e, gA] at hs
          exact kX (congrArg Prod.fst (Option.some.inj hs)).symm
        have vX' : ¬ v = X := by
          intro e
          have := sX (e ▸ hvr)
          rw [← e, hs] at this
          exact kA (congrArg Prod.fst (Option.some.inj this))
        rw [hext v, if_neg vA', if_neg vX']
        exact hs
  · intro k n hk gk
    rw [hext k] at gk
    by_cases kA : k = A
    · rw [if_pos kA] at gk; cases gk
    · rw [if_neg kA] at gk
      by_cases kX : k = X
      · rw [if_pos kX] at gk
        have : zeroR = k := congrArg Prod.fst (Option.some.inj gk)
        exact not_rng_zero ds (this ▸ hk)
      · rw [if_neg kX] at gk
        exact hm.nofix k n hk gk
  · intro k hk
    have hpk := rng_partner hv hk
    have keep : ∀ r, Rng ds r → r ≠ A → (oppGet m' r = none ↔ oppGet m r = none) := by
      intro r hr rA
      rw [hext r, if_neg rA]
      by_cases rX : r = X
      · rw [if_pos rX]
        have := sX (rX ▸ hr)
        rw [rX, this]
        simp
      · rw [if_neg rX]
    by_cases kA : k = A
    · rw [kA, hAA]
    · have pA : partner ds k ≠ A := by
        intro e
        have := partner_partner hv hk
        rw [e, hAA] at this
        exact kA this.symm
      rw [keep k hk kA, keep _ hpk pA]
      exact hm.pres k hk

end DSymVerif.FGP
