/-
The alternating walk along a chain (used for `opposite` / `trace_boundary`, property C08).
Two involutions `A`, `B`, a point `z` fixed by `B`, `r` the least period of `z` under `B ∘ A`.
The walk  z, A z, B A z, A B A z, …  (starting with `A`) meets its first fixed point — of the
operation that is due — after exactly `r - 1` steps, and that mirror end is not `(B, z)` again.
-/
import DSymVerif.Proofs.DihedralLoops
import Mathlib.Data.Int.ModEq

namespace DSymVerif.Dihedral

section
variable {α : Type} {A B : α → α} (hA : Function.Involutive A) (hB : Function.Involutive B)
variable {z : α} {r : Nat} (hr : 1 ≤ r) (hper : (cc A B)^[r] z = z)
  (hmin : ∀ t, 1 ≤ t → t < r → (cc A B)^[t] z ≠ z) (hz : B z = z)

/-- the walk: `w 0 = z`, then alternately `A`, `B`, `A`, … -/
def walk (A B : α → α) (z : α) : Nat → α
  | 0 => z
  | n + 1 => if n % 2 = 0 then A (walk A B z n) else B (walk A B z n)

/-- the operation due at step `n` -/
def opAt (A B : α → α) (n : Nat) : α → α := if n % 2 = 0 then A else B

theorem walk_succ (n : Nat) : walk A B z (n + 1) = opAt A B n (walk A B z n) := by
  unfold opAt
  show (if n % 2 = 0 then A (walk A B z n) else B (walk A B z n)) = _
  split <;> rfl

/-- `r - 1 ≡ -1 (mod r)` -/
theorem pred_modEq_neg_one {r : Nat} (hr : 1 ≤ r) : ((r - 1 : Nat) : Int) ≡ -1 [ZMOD (r : Int)] := by
  have : ((r - 1 : Nat) : Int) = (r : Int) - 1 := by omega
  rw [this]
  have h : (r : Int) ≡ 0 [ZMOD (r : Int)] := Int.emod_self
  have := h.sub_right 1
  simpa using this

include hA hB hr hper hmin

/-- equality of iterates as a congruence of integers -/
theorem iter_eq_iff_zmod (a b : Nat) :
    (cc A B)^[a] z = (cc A B)^[b] z ↔ (a : Int) ≡ (b : Int) [ZMOD (r : Int)] := by
  rw [iter_eq_iff hA hB hr hper hmin, Int.natCast_modEq_iff]
  rfl

include hz

omit hmin in
theorem A_e (n : Nat) : A ((cc A B)^[n] z) = (cc A B)^[(r - 1) * (n + 1)] z := by
  have hAz : A z = ci A B z := by simp only [ci]; rw [hz]
  rw [A_iter A B, hAz, ← Function.iterate_succ_apply (ci A B), ci_iter_eq hA hB hr hper]

theorem B_e (n : Nat) : B ((cc A B)^[n] z) = (cc A B)^[(r - 1) * n] z := by
  have : B ((cc A B)^[n] z) = cc A B (A ((cc A B)^[n] z)) := by simp only [cc]; rw [hA]
  rw [this, A_e hA hB hr hper hz, ← Function.iterate_succ_apply' (cc A B),
    iter_eq_iff_zmod hA hB hr hper hmin]
  have h1 := pred_modEq_neg_one hr
  push_cast
  have e : ((r - 1 : Nat) : Int) * ((n : Int) + 1) + 1 = ((r - 1 : Nat) : Int) * (n : Int) + (r : Int) := by
    have : ((r - 1 : Nat) : Int) = (r : Int) - 1 := by omega
    rw [this]; ring
  rw [e]
  simp

theorem walk_even (t : Nat) : walk A B z (2 * t) = (cc A B)^[t] z := by
  induction t with
  | zero => rfl
  | succ t ih =>
    have e : 2 * (t + 1) = (2 * t + 1) + 1 := by ring
    rw [e, walk_succ, walk_succ, ih]
    have o1 : opAt A B (2 * t) = A := by unfold opAt; rw [if_pos (by omega)]
    have o2 : opAt A B (2 * t + 1) = B := by unfold opAt; rw [if_neg (by omega)]
    rw [o1, o2, A_e hA hB hr hper hz, B_e hA hB hr hper hmin hz,
      iter_eq_iff_zmod hA hB hr hper hmin]
    have h1 := pred_modEq_neg_one hr
    push_cast
    have := (h1.mul h1).mul_right ((t : Int) + 1)
    have e2 : ((r - 1 : Nat) : Int) * (((r - 1 : Nat) : Int) * ((t : Int) + 1)) =
        ((r - 1 : Nat) : Int) * ((r - 1 : Nat) : Int) * ((t : Int) + 1) := by ring
    rw [e2]
    simpa using this

theorem walk_odd (t : Nat) : walk A B z (2 * t + 1) = (cc A B)^[(r - 1) * (t + 1)] z := by
  rw [walk_succ, walk_even hA hB hr hper hmin hz]
  have o1 : opAt A B (2 * t) = A := by unfold opAt; rw [if_pos (by omega)]
  rw [o1, A_e hA hB hr hper hz]

/-- **the walk meets a mirror exactly at the steps `s` with `r ∣ s + 1`** -/
theorem walk_loop_iff (s : Nat) : opAt A B s (walk A B z s) = walk A B z s ↔ r ∣ s + 1 := by
  have h1 := pred_modEq_neg_one hr
  rcases Nat.even_or_odd' s with ⟨t, rfl | rfl⟩
  · have o1 : opAt A B (2 * t) = A := by unfold opAt; rw [if_pos (by omega)]
    rw [o1, walk_even hA hB hr hper hmin hz, A_e hA hB hr hper hz,
      iter_eq_iff_zmod hA hB hr hper hmin]
    push_cast
    have hm : ((r - 1 : Nat) : Int) * ((t : Int) + 1) ≡ -((t : Int) + 1) [ZMOD (r : Int)] := by
      simpa using h1.mul_right ((t : Int) + 1)
    constructor
    · intro h
      have := (hm.symm.trans h)
      -- -(t+1) ≡ t  →  r ∣ 2t+1
      have hd := this.symm.dvd
      have : ((r : Int)) ∣ ((2 * t + 1 : Nat) : Int) := by
        have e : -((t : Int) + 1) - (t : Int) = -(((2 * t + 1 : Nat)) : Int) := by push_cast; ring
        rw [e] at hd
        exact (Int.dvd_neg).1 hd
      exact Int.natCast_dvd_natCast.1 this
    · intro h
      refine hm.trans ?_
      have hd : ((r : Int)) ∣ ((2 * t + 1 : Nat) : Int) := Int.natCast_dvd_natCast.2 h
      apply Int.ModEq.symm
      apply (Int.modEq_iff_dvd).2
      have e : -((t : Int) + 1) - (t : Int) = -(((2 * t + 1 : Nat)) : Int) := by push_cast; ring
      rw [e]
      exact (Int.dvd_neg).2 hd
  · have o2 : opAt A B (2 * t + 1) = B := by unfold opAt; rw [if_neg (by omega)]
    rw [o2, walk_odd hA hB hr hper hmin hz, B_e hA hB hr hper hmin hz,
      iter_eq_iff_zmod hA hB hr hper hmin]
    push_cast
    -- (r-1)·((r-1)(t+1)) ≡ (t+1),  (r-1)(t+1) ≡ -(t+1)
    have hm1 : ((r - 1 : Nat) : Int) * ((t : Int) + 1) ≡ -((t : Int) + 1) [ZMOD (r : Int)] := by
      simpa using h1.mul_right ((t : Int) + 1)
    have hm2 : ((r - 1 : Nat) : Int) * (((r - 1 : Nat) : Int) * ((t : Int) + 1)) ≡ (t : Int) + 1
        [ZMOD (r : Int)] := by
      have := (h1.mul h1).mul_right ((t : Int) + 1)
      have e2 : ((r - 1 : Nat) : Int) * (((r - 1 : Nat) : Int) * ((t : Int) + 1)) =
          ((r - 1 : Nat) : Int) * ((r - 1 : Nat) : Int) * ((t : Int) + 1) := by ring
      rw [e2]; simpa using this
    have e : ((2 * t + 1 + 1 : Nat) : Int) = 2 * ((t : Int) + 1) := by push_cast; ring
    constructor
    · intro h
      have := (hm2.symm.trans h).trans hm1
      -- t+1 ≡ -(t+1)
      have hd := this.dvd
      have : ((r : Int)) ∣ ((2 * t + 1 + 1 : Nat) : Int) := by
        rw [e]
        have e3 : -((t : Int) + 1) - ((t : Int) + 1) = -(2 * ((t : Int) + 1)) := by ring
        rw [e3] at hd
        exact (Int.dvd_neg).1 hd
      exact Int.natCast_dvd_natCast.1 this
    · intro h
      have hd : ((r : Int)) ∣ ((2 * t + 1 + 1 : Nat) : Int) := Int.natCast_dvd_natCast.2 h
      rw [e] at hd
      refine hm2.trans (Int.ModEq.trans ?_ hm1.symm)
      apply (Int.modEq_iff_dvd).2
      have e3 : -((t : Int) + 1) - ((t : Int) + 1) = -(2 * ((t : Int) + 1)) := by ring
      rw [e3]
      exact (Int.dvd_neg).2 hd

/-- no mirror before step `r - 1`, a mirror at step `r - 1` -/
theorem walk_first_loop :
    (∀ s, s < r - 1 → opAt A B s (walk A B z s) ≠ walk A B z s) ∧
    opAt A B (r - 1) (walk A B z (r - 1)) = walk A B z (r - 1) := by
  constructor
  · intro s hs hl
    have := (walk_loop_iff hA hB hr hper hmin hz s).1 hl
    have := Nat.le_of_dvd (by omega) this
    omega
  · apply (walk_loop_iff hA hB hr hper hmin hz (r - 1)).2
    have : r - 1 + 1 = r := by omega
    rw [this]

/-- the other mirror end is not the starting one -/
theorem walk_end_ne (hodd : (r - 1) % 2 = 1) : walk A B z (r - 1) ≠ z := by
  obtain ⟨t, ht⟩ : ∃ t, r - 1 = 2 * t + 1 := ⟨(r - 1) / 2, by omega⟩
  rw [ht, walk_odd hA hB hr hper hmin hz]
  intro h
  have h0 : (cc A B)^[(r - 1) * (t + 1)] z = (cc A B)^[0] z := h
  rw [iter_eq_iff_zmod hA hB hr hper hmin] at h0
  have h1 := pred_modEq_neg_one hr
  push_cast at h0
  have hm1 : ((r - 1 : Nat) : Int) * ((t : Int) + 1) ≡ -((t : Int) + 1) [ZMOD (r : Int)] := by
    simpa using h1.mul_right ((t : Int) + 1)
  have := (hm1.symm.trans h0).dvd
  have hd : (r : Int) ∣ ((t + 1 : Nat) : Int) := by
    have e : (0 : Int) - -((t : Int) + 1) = ((t + 1 : Nat) : Int) := by push_cast; ring
    rw [e] at this; exact this
  have := Nat.le_of_dvd (by omega) (Int.natCast_dvd_natCast.1 hd)
  omega

end

/-- a reflection `B x = c^t x` of a `c`-cycle onto itself has a fixed point of `A` or of `B` -/
theorem loop_of_reflection_B {α : Type} {A B : α → α} (hA : Function.Involutive A)
    (hB : Function.Involutive B) : ∀ (t : Nat) (x : α), B x = (cc A B)^[t] x →
    ∃ z, Orbit A B x z ∧ (A z = z ∨ B z = z) := by
  intro t
  induction t using Nat.strong_induction_on with
  | _ t ih =>
    intro x hx
    match t, ih, hx with
    | 0, _, hx => exact ⟨x, Orbit.refl, Or.inr hx⟩
    | 1, _, hx =>
      -- B x = B (A x), so x = A x
      refine ⟨x, Orbit.refl, Or.inl ?_⟩
      have : B x = B (A x) := hx
      exact (hB.injective this).symm
    | t + 2, ih, hx =>
      -- x' = c x satisfies B x' = c^t x'
      have h' : B (cc A B x) = (cc A B)^[t] (cc A B x) := by
        have e1 : B (cc A B x) = ci A B (B x) := by simp only [cc, ci]; rw [hB, hB]
        rw [e1, hx, ← Function.iterate_succ_apply, Function.iterate_succ_apply' (cc A B) (t + 1),
          ci_cc hA hB]
      obtain ⟨z, hz, hl⟩ := ih t (by omega) (cc A B x) h'
      exact ⟨z, (orbit_cc Orbit.refl).trans hz, hl⟩

end DSymVerif.Dihedral
