/-
Property C05, part 12: the wired models `coverForTableC`, `subgroupCover`,
`finiteUniversalCover`, `covers` (Model/CoversWired.lean) return coverings.

`IsCoverOf ds c n` collects what the property demands of one cover with `n` sheets.
-/
import DSymVerif.Proofs.CoversAction
import DSymVerif.Proofs.CosetView
import DSymVerif.Proofs.LowIndexGeneral
import DSymVerif.Proofs.FundGroupTotal2
import DSymVerif.Proofs.LowIndexClasses

namespace DSymVerif.CoversP
open DSymVerif DSymVerif.DS DSymVerif.FG DSymVerif.FGP DSymVerif.Cosets DSymVerif.SpecC11
open DSymVerif.CosetP DSymVerif.Covers DSymVerif.LowIndexP DSymVerif.CosetInvP

/-- `c` is an `n`-sheeted covering of `ds` by the projection `π(d) = (d-1) mod |ds| + 1`:
    a valid symbol on `n·|ds|` chambers (complete D-set, involutions, far operations commuting,
    tables of `collect_orbits`) of the same dimension; π commutes with every operation; the degree
    `m_ij` of every chamber is that of its projection for all `i, j`; it is `is_complete()` if `ds`
    is and connected if `ds` is.  (Every fibre of π has `n` elements: `fibre_length`.) -/
structure IsCoverOf (ds c : DSymData) (n : Nat) : Prop where
  sheets : 1 ≤ n
  size : c.size = n * ds.size
  dim : c.dim = ds.dim
  valid : ValidSym c
  proj : ∀ i d, i ≤ ds.dim → 1 ≤ d → d ≤ n * ds.size →
    cproj ds.size (c.dset.opU i d) = ds.dset.opU i (cproj ds.size d)
  deg : ∀ i j d, i ≤ ds.dim → j ≤ ds.dim → 1 ≤ d → d ≤ n * ds.size →
    c.mPartial i j d = ds.mPartial i j (cproj ds.size d)
  complete : ds.isCompletePartial = true → c.isCompletePartial = true
  connected : ds.view.isConnected = true → c.view.isConnected = true

section
variable {ds : DSymData} (hs : ValidSym ds) (hsz : 1 ≤ ds.size) (hdim : 1 ≤ ds.dim) {f : FundGroup}
  (hf : fundamentalGroup ds = .ok f)
include hs hsz hdim hf

/-- **`cover_for_table` on a valid table**: if the model table `t` shows the entries of a table
    valid for the returned presentation (all entries defined and in range, inverse letters inverse,
    every relator closing at every row, transitive), `cover_for_table` returns a covering with
    `t.len()` sheets, explicitly `op_i(sz·k + b) = sz·(k·edge_to_word(b,i)) + op_i b` -/
theorem coverForTableC_covering {tab : Tab} {subs : List (List Int)}
    (hv : Valid tab f.nrGenerators f.relators subs) {t : Cosets.Table}
    (hsh : Shows t tab f.nrGenerators) :
    ∃ c, coverForTableC ds t f.edgeToWord = .ok c ∧ IsCoverOf ds c t.len ∧
      (∀ i d, i ≤ ds.dim → 1 ≤ d → d ≤ t.len * ds.size →
        c.dset.opU i d = coverF ds.dset (sheetMapC t f.edgeToWord) i d) ∧
      Agrees (rhoT hs hdim hf hv) (sheetMapC t f.edgeToWord) := by
  have hlen : tab.size = t.len := hsh.1
  have hσ := sheetMapC_agrees hs hdim hf hv hsh
  have hpos := hv.pos
  obtain ⟨c, hc, hsize, hdim', hvc, hop, hdeg, hcomp⟩ := mono_cover_ok hs hsz hdim hpos hσ
  rw [← hlen]
  refine ⟨c, ?_, ⟨hpos, hsize, hdim', hvc, ?_, hdeg, hcomp, ?_⟩, hop, hσ⟩
  · unfold coverForTableC
    rw [if_pos (allTracesDefinedC_of_shows hf hsh), ← hlen]
    exact hc
  · intro i d hi h1 h2
    rw [hop i d hi h1 h2]
    exact cproj_coverF hs.set hsz hi
  · intro hconn
    exact mono_cover_connected hs.set hsz hconn hpos (rhoT_transitive hs hdim hf hv) hσ hvc.set
      hsize hdim' hop

end

/-! ### `subgroup_cover`, `finite_universal_cover` -/

/-- **`subgroup_cover` returns a covering** whenever it returns (the Todd–Coxeter model may hit
    the 100 000-row assertion or its fuel for subgroups of infinite index): for a valid symbol
    and subgroup generators over the letters of the group -/
theorem subgroupCover_covering {ds : DSymData} (hs : ValidSym ds) (hsz : 1 ≤ ds.size) (hdim : 1 ≤ ds.dim)
    (subgens : List (List Int)) {c : DSymData} (hc : subgroupCover ds subgens = .ok c) :
    ∃ f t, fundamentalGroup ds = .ok f ∧ cosetTable f.nrGenerators f.relators subgens = .ok t ∧
      ((∀ w ∈ subgens, ∀ x ∈ w, x ∈ allGensOf f.nrGenerators) → IsCoverOf ds c t.len) := by
  unfold subgroupCover at hc
  cases hf : fundamentalGroup ds with
  | ok f =>
    rw [hf] at hc
    simp only at hc
    cases ht : cosetTable f.nrGenerators f.relators subgens with
    | ok t =>
      rw [ht] at hc
      simp only at hc
      refine ⟨f, t, rfl, ht, ?_⟩
      intro hsub
      have hlet := (fundamentalGroup_letters ds f hf).1
      obtain ⟨v, _, hval, hsize, _, hget⟩ := CosetInvP.cosetTable_view hlet hsub ht
      obtain ⟨c', hc', hcov, _⟩ := coverForTableC_covering hs hsz hdim hf hval ⟨hsize, hget⟩
      rw [hc] at hc'
      cases hc'
      exact hcov
    | err => rw [ht] at hc; cases hc
    | panic => rw [ht] at hc; cases hc
  | err => rw [hf] at hc; cases hc
  | panic => rw [hf] at hc; cases hc

/-- **`finite_universal_cover` returns a covering** whenever it returns -/
theorem finiteUniversalCover_covering {ds : DSymData} (hs : ValidSym ds) (hsz : 1 ≤ ds.size)
    (hdim : 1 ≤ ds.dim) {c : DSymData} (hc : finiteUniversalCover ds = .ok c) :
    ∃ f t, fundamentalGroup ds = .ok f ∧ cosetTable f.nrGenerators f.relators [] = .ok t ∧
      IsCoverOf ds c t.len := by
  obtain ⟨f, t, hf, ht, h⟩ := subgroupCover_covering hs hsz hdim [] hc
  exact ⟨f, t, hf, ht, h (fun w hw => by cases hw)⟩

/-! ### `covers` -/

/-- the operations of a table cover, in terms of the Spec table: `op_i(sz·k + b) = sz·(k·w) + op_i b`
    with `k·w` the row reached from row `k` by the edge word `w = edge_to_word(b,i)` -/
def TableOps (ds c : DSymData) (e2w : E2W) (tab : Tab) (n : Nat) : Prop :=
  ∀ i b k, i ≤ ds.dim → 1 ≤ b → b ≤ ds.size → k < tab.size →
    ∃ r, SpecC11.traceWord tab n k (e2wGet e2w (b, i)) = some r ∧
      c.dset.opU i (ds.size * k + b) = ds.size * r + ds.dset.opU i b

theorem tableOps_of_shows {ds : DSymData} {f : FundGroup} (hf : fundamentalGroup ds = .ok f)
    {tab : Tab} {t : Cosets.Table} (hsh : Shows t tab f.nrGenerators) {c : DSymData}
    (hop : ∀ i d, i ≤ ds.dim → 1 ≤ d → d ≤ t.len * ds.size →
      c.dset.opU i d = coverF ds.dset (sheetMapC t f.edgeToWord) i d) :
    TableOps ds c f.edgeToWord tab f.nrGenerators := by
  have hlet := (fundamentalGroup_letters ds f hf).2.2.1
  intro i b k hi h1 h2 hk
  have hk' : k < t.len := by rw [← hsh.1]; exact hk
  obtain ⟨r, hr, hsp, _⟩ := traceC_shows hsh _ (hlet (b, i)) k hk'
  refine ⟨r, hsp, ?_⟩
  have hd := cmk_range (sz := ds.size) (n := t.len) hk' h1 h2
  rw [hop i _ hi hd.1 hd.2]
  have hmk : coverF ds.dset (sheetMapC t f.edgeToWord) i (ds.size * k + b) =
      ds.size * sheetMapC t f.edgeToWord k i b + ds.dset.opU i b := coverF_mk (s := ds.dset) h1 h2
  rw [hmk]
  unfold sheetMapC sheetTraceC
  rw [hr]

/-- the loop of `covers` over a list of items each of which is a table showing a valid table
    (with an arbitrary extra property `P` of the pair (model table, valid table) carried along) -/
theorem coversFrom_covering {ds : DSymData} (hs : ValidSym ds) (hsz : 1 ≤ ds.size) (hdim : 1 ≤ ds.dim)
    {f : FundGroup} (hf : fundamentalGroup ds = .ok f) (P : Cosets.Table → Tab → Prop) :
    ∀ (xs : List (Outcome Cosets.Table)),
      (∀ x ∈ xs, ∃ t tab, x = .ok t ∧ Valid tab f.nrGenerators f.relators [] ∧
        Shows t tab f.nrGenerators ∧ P t tab) →
      ∃ cs, coversFrom ds f.edgeToWord xs = .ok cs ∧
        List.Forall₂ (fun x c => ∃ t tab, x = Outcome.ok t ∧ coverForTableC ds t f.edgeToWord = .ok c ∧
          IsCoverOf ds c tab.size ∧ TableOps ds c f.edgeToWord tab f.nrGenerators ∧ tab.size = t.len ∧
          P t tab) xs cs
  | [], _ => ⟨[], rfl, List.Forall₂.nil⟩
  | x :: xs, h => by
    obtain ⟨t, tab, hx, hval, hsh, hP⟩ := h x (List.mem_cons_self ..)
    obtain ⟨c, hc, hcov, hop, _⟩ := coverForTableC_covering hs hsz hdim hf hval hsh
    obtain ⟨cs, hcs, hall⟩ := coversFrom_covering hs hsz hdim hf P xs
      (fun y hy => h y (List.mem_cons_of_mem _ hy))
    subst hx
    refine ⟨c :: cs, ?_, List.Forall₂.cons ⟨t, tab, rfl, hc, ?_, tableOps_of_shows hf hsh hop, hsh.1, hP⟩ hall⟩
    · unfold coversFrom
      rw [hc]
      simp only
      rw [hcs]
    · rw [hsh.1]; exact hcov

/-- **`covers(ds, k)` returns a list of coverings**: for every valid symbol and every bound the
    model returns (no panic anywhere: `fundamental_group` is total, the low-index search never
    panics, every yielded table is valid so no `unwrap` in `trace_word` fails and no assertion of
    `cover` fires), one cover per yielded table, in order, each a covering with at most
    `max k 1` sheets -/
theorem covers_covering {ds : DSymData} (hs : ValidSym ds) (hsz : 1 ≤ ds.size) (hdim : 1 ≤ ds.dim)
    (k fuel : Nat) :
    ∃ f, fundamentalGroup ds = .ok f ∧
      ((BT.dfs (btProblem f.nrGenerators (expandedRelatorSet f.relators) k) (height k)
          (.ok (Table.new f.nrGenerators))).length ≤ fuel →
        ∃ cs, Covers.covers ds k fuel = .ok cs ∧
          List.Forall₂ (fun x c => ∃ t, x = Outcome.ok t ∧ coverForTableC ds t f.edgeToWord = .ok c ∧
            IsCoverOf ds c t.len ∧ t.len ≤ max k 1)
            (cosetTables f.nrGenerators f.relators k fuel) cs) := by
  obtain ⟨f, hf⟩ := fundamentalGroup_ok hs
  refine ⟨f, hf, ?_⟩
  intro hfuel
  have hlet := (fundamentalGroup_letters ds f hf).1
  have hok := CanonP.cosetTables_ok_all f.nrGenerators f.relators k fuel hlet hfuel
  have hval := CanonP.cosetTables_valid_all f.nrGenerators f.relators k fuel hlet hfuel
  obtain ⟨cs, hcs, hall⟩ := coversFrom_covering hs hsz hdim hf (fun t _ => t.len ≤ max k 1)
    (cosetTables f.nrGenerators f.relators k fuel) (by
      intro x hx
      obtain ⟨t, v, hxt, hview, hsize, hget⟩ := hok x hx
      obtain ⟨v', hview', hvt, hle⟩ := hval x hx t hxt
      rw [hview] at hview'
      cases hview'
      refine ⟨t, viewTab v, hxt, valid_of_validTable hvt, ⟨hsize, hget⟩, ?_⟩
      rw [← hsize]; exact hle)
  refine ⟨cs, ?_, hall.imp ?_⟩
  · unfold Covers.covers
    rw [hf]
    exact hcs
  · rintro x c ⟨t, tab, hx, hc, hcov, _, hsize, hP⟩
    exact ⟨t, hx, hc, hsize ▸ hcov, hP⟩

/-- **one entry per conjugacy class of subgroups**: `covers(ds,k)` lists, in the order of the
    tables yielded by `coset_tables`, the covers of valid tables whose stabilisers of row 0 are a
    system of representatives of the conjugacy classes of subgroups of index `1..k` of the returned
    presentation `⟨1..n | relators⟩` (C12 `cosetTables_subgroup_classes`); the operations of each
    cover are those of its table (`TableOps`), so the subgroup of a cover — the stabiliser of
    sheet 0 under its own sheet action — is the stabiliser of row 0 of its table, and its number
    of sheets is the index of that subgroup -/
theorem covers_classes {ds : DSymData} (hs : ValidSym ds) (hsz : 1 ≤ ds.size) (hdim : 1 ≤ ds.dim)
    (k fuel : Nat) :
    ∃ f, fundamentalGroup ds = .ok f ∧
      ((BT.dfs (btProblem f.nrGenerators (expandedRelatorSet f.relators) k) (height k)
          (.ok (Table.new f.nrGenerators))).length ≤ fuel →
        ∃ cs, Covers.covers ds k fuel = .ok cs ∧
          List.Forall₂ (fun x c => ∃ (t : Cosets.Table) (v : List (List Int))
              (hv : Valid (viewTab v) f.nrGenerators f.relators []),
              x = Outcome.ok t ∧ t.view = .ok v ∧ coverForTableC ds t f.edgeToWord = .ok c ∧
              IsCoverOf ds c (viewTab v).size ∧
              TableOps ds c f.edgeToWord (viewTab v) f.nrGenerators ∧
              (stab0 hv).index = (viewTab v).size ∧ (viewTab v).size ≤ max k 1)
            (cosetTables f.nrGenerators f.relators k fuel) cs ∧
          (cosetTables f.nrGenerators f.relators k fuel).Pairwise (fun x y =>
            ∀ (t1 t2 : Cosets.Table) (v1 v2 : List (List Int))
              (hv1 : Valid (viewTab v1) f.nrGenerators f.relators [])
              (hv2 : Valid (viewTab v2) f.nrGenerators f.relators []),
              x = .ok t1 → y = .ok t2 → t1.view = .ok v1 → t2.view = .ok v2 →
              ¬ CanonP.SubConj (stab0 hv1) (stab0 hv2)) ∧
          (∀ H : Subgroup (PresentedGroup (relSet f.nrGenerators f.relators)), H.index ≠ 0 → H.index ≤ k →
            ∃ (t : Cosets.Table) (v : List (List Int))
              (hv : Valid (viewTab v) f.nrGenerators f.relators []),
              (Outcome.ok t) ∈ cosetTables f.nrGenerators f.relators k fuel ∧ t.view = .ok v ∧
              CanonP.SubConj H (stab0 hv))) := by
  obtain ⟨f, hf⟩ := fundamentalGroup_ok hs
  refine ⟨f, hf, ?_⟩
  intro hfuel
  have hlet := (fundamentalGroup_letters ds f hf).1
  have hok := CanonP.cosetTables_ok_all f.nrGenerators f.relators k fuel hlet hfuel
  obtain ⟨p1, p2, p3⟩ := CanonP.cosetTables_subgroup_classes f.nrGenerators f.relators k fuel hlet hfuel
  obtain ⟨cs, hcs, hall⟩ := coversFrom_covering hs hsz hdim hf
    (fun t tab => ∃ (v : List (List Int)) (hv : Valid (viewTab v) f.nrGenerators f.relators []),
      tab = viewTab v ∧ t.view = .ok v ∧ (stab0 hv).index = (viewTab v).size ∧ (viewTab v).size ≤ max k 1)
    (cosetTables f.nrGenerators f.relators k fuel) (by
      intro x hx
      obtain ⟨t, v, hxt, hview, hsize, hget⟩ := hok x hx
      obtain ⟨t', v', hv, hxt', hview', hidx, hle⟩ := p1 x hx
      rw [hxt] at hxt'
      cases hxt'
      rw [hview] at hview'
      cases hview'
      exact ⟨t, viewTab v, hxt, hv, ⟨hsize, hget⟩, v, hv, rfl, hview, hidx, hle⟩)
  refine ⟨cs, ?_, hall.imp ?_, p2, p3⟩
  · unfold Covers.covers
    rw [hf]
    exact hcs
  · rintro x c ⟨t, tab, hx, hc, hcov, hops, _, v, hv, rfl, hview, hidx, hle⟩
    exact ⟨t, v, hv, hx, hview, hc, hcov, hops, hidx, hle⟩

end DSymVerif.CoversP
