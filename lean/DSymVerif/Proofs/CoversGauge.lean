/-
Property C05, part 14: gauge fixing along the spanning tree.

For any assignment `u(d,i)` of group elements to facets there is a function `γ` on chambers with
`γ(op_i d) = γ(d) · u(d,i)` for every facet `(d,i)` of `spanning_tree(ds)`: the tree facets are
recorded in the order in which the traversal reaches new chambers, every recorded facet leads
from a chamber already reached to a chamber not yet reached, so `γ` can be defined facet by
facet (the same loop invariant as C09 `tree_fold`).
-/
import DSymVerif.Proofs.FundGroupTree

namespace DSymVerif.CoversP
open DSymVerif DSymVerif.DS DSymVerif.FG DSymVerif.FGP

structure GaugeInv {G : Type} [Group G] (ds : DSymData) (u : Nat → Nat → G)
    (pre : List View.TravItem) (acc : List Nat × List Item) : Prop where
  seen : ∀ x, x ∈ acc.1 ↔ ∃ t ∈ pre, t.2.2 = x
  gauge : ∃ γ : Nat → G, ∀ it ∈ acc.2, it.2.2 = none ∧ it.1 ∈ acc.1 ∧
    ds.dset.opU it.2.1 it.1 ∈ acc.1 ∧ γ (ds.dset.opU it.2.1 it.1) = γ it.1 * u it.1 it.2.1

theorem gauge_fold {G : Type} [Group G] {ds : DSymData} (hv : ValidSet ds.dset) (u : Nat → Nat → G) :
    ∀ (post pre : List View.TravItem) (acc : List Nat × List Item),
    ds.view.traversal ds.view.indices ds.view.elements.reverse = pre ++ post →
    GaugeInv ds u pre acc →
    GaugeInv ds u (pre ++ post) (post.foldl treeStep acc)
  | [], pre, acc, _, h => by simpa using h
  | t :: post, pre, acc, hsplit, h => by
    have hseeds : ∀ d ∈ ds.view.elements.reverse, 1 ≤ d ∧ d ≤ ds.size := fun d hd =>
      (DS.mem_elements ds.view d).1 (List.mem_reverse.1 hd)
    obtain ⟨s1, s2, _⟩ := C02.traversal_sound ds.view ds.view.indices ds.view.elements.reverse
      pre post t hsplit
    have hmem : t ∈ ds.view.traversal ds.view.indices ds.view.elements.reverse := by
      rw [hsplit]; simp
    rw [List.foldl_cons]
    have happ : pre ++ t :: post = (pre ++ [t]) ++ post := by simp
    rw [happ]
    apply gauge_fold hv u post (pre ++ [t]) _ (by rw [hsplit]; simp)
    have hseen' : ∀ (l : List Nat), (∀ x, x ∈ l ↔ (x = t.2.2 ∨ x ∈ acc.1)) →
        ∀ x, x ∈ l ↔ ∃ s ∈ pre ++ [t], s.2.2 = x := by
      intro l hl x
      rw [hl x, h.seen x]
      constructor
      · rintro (hx | ⟨s, hs, hx⟩)
        · exact ⟨t, by simp, hx.symm⟩
        · exact ⟨s, List.mem_append_left _ hs, hx⟩
      · rintro ⟨s, hs, hx⟩
        rcases List.mem_append.1 hs with hs | hs
        · exact Or.inr ⟨s, hs, hx⟩
        · simp only [List.mem_singleton] at hs
          subst hs
          exact Or.inl hx.symm
    unfold treeStep
    by_cases hc : acc.1.contains t.2.2 = true
    · rw [if_pos hc]
      have hin : t.2.2 ∈ acc.1 := by simpa using hc
      refine ⟨hseen' acc.1 (fun x => ?_), h.gauge⟩
      constructor
      · intro hx; exact Or.inr hx
      · rintro (hx | hx)
        · rw [hx]; exact hin
        · exact hx
    · rw [if_neg hc]
      have hnin : t.2.2 ∉ acc.1 := by simpa using hc
      have hcons : ∀ x, x ∈ t.2.2 :: acc.1 ↔ (x = t.2.2 ∨ x ∈ acc.1) := fun x => List.mem_cons
      obtain ⟨γ, hγ⟩ := h.gauge
      cases ht : t.1 with
      | none =>
        simp only
        refine ⟨hseen' _ hcons, γ, ?_⟩
        intro it hit
        obtain ⟨a, b, c, d⟩ := hγ it hit
        exact ⟨a, List.mem_cons_of_mem _ b, List.mem_cons_of_mem _ c, d⟩
      | some i =>
        simp only
        obtain ⟨_, e2, s, hs, hse⟩ := s1 i ht
        have hfac := traversal_item_range hv _ hseeds t hmem i ht
        have htgt : t.2.2 = ds.dset.opU i t.2.1 := by
          rw [e2]
          show (ds.op i t.2.1).getD t.2.1 = _
          rw [op_eq hfac.2.2 hfac.1 hfac.2.1]; rfl
        have hsrc : t.2.1 ∈ acc.1 := (h.seen _).2 ⟨s, hs, hse⟩
        have hne : t.2.1 ≠ t.2.2 := fun he => hnin (by rw [← he]; exact hsrc)
        refine ⟨hseen' _ hcons, Function.update γ t.2.2 (γ t.2.1 * u t.2.1 i), ?_⟩
        intro it hit
        rcases List.mem_append.1 hit with hit | hit
        · obtain ⟨a, b, c, d⟩ := hγ it hit
          refine ⟨a, List.mem_cons_of_mem _ b, List.mem_cons_of_mem _ c, ?_⟩
          rw [Function.update_of_ne (fun he => hnin (by rw [← he]; exact c)),
            Function.update_of_ne (fun he => hnin (by rw [← he]; exact b))]
          exact d
        · simp only [List.mem_singleton] at hit
          subst hit
          refine ⟨rfl, List.mem_cons_of_mem _ hsrc, ?_, ?_⟩
          · show ds.dset.opU i t.2.1 ∈ t.2.2 :: acc.1
            rw [← htgt]; exact List.mem_cons_self ..
          · show Function.update γ t.2.2 _ (ds.dset.opU i t.2.1) = Function.update γ t.2.2 _ t.2.1 * _
            rw [← htgt, Function.update_self, Function.update_of_ne hne]

/-- **gauge along the spanning tree** -/
theorem exists_gauge {G : Type} [Group G] {ds : DSymData} (hv : ValidSet ds.dset) (u : Nat → Nat → G) :
    ∃ γ : Nat → G, ∀ d i, (d, i, none) ∈ spanningTree ds → γ (ds.dset.opU i d) = γ d * u d i := by
  have h0 : GaugeInv ds u [] ([], []) :=
    ⟨fun x => by simp, ⟨fun _ => 1, fun it hit => by cases hit⟩⟩
  have := gauge_fold hv u (ds.view.traversal ds.view.indices ds.view.elements.reverse) [] ([], [])
    (by simp) h0
  obtain ⟨γ, hγ⟩ := this.gauge
  refine ⟨γ, ?_⟩
  intro d i hmem
  rw [spanningTree_eq] at hmem
  exact (hγ (d, i, none) hmem).2.2.2

end DSymVerif.CoversP
