/-
Lemmas for property C07, phase 2, part 2: **the generator's curvature is the crate's curvature**.
For a complete two-dimensional D-set with commuting s0, s2 and a branching vector with one
positive entry per orbit, the symbol the generator emits (`PartialDSym::from_fields(dset,
orbit_index, orbit_rs, vs)`) has, according to the C08 model of `delaney2d::curvature`, exactly
the curvature Σ_orbits k/v − size/2 (k = 1 on chains, 2 on cycles) that the generator's integer
bookkeeping represents (`curvQ`).  Uses C08's chamber sum (dihedral orbit size), C02's
`collect_orbits` correctness and the chain-flag lemma of part 1.
-/
import DSymVerif.Proofs.DSymGenChain
import DSymVerif.Proofs.Delaney2dSum
import DSymVerif.Proofs.DSymGenCurv

namespace DSymVerif.SymGen
open DSymVerif.DS DSymVerif.D2 Finset

/-- the symbol `extract` builds: `PartialDSym::from_fields(dset, orbit_index, orbit_rs, vs)` -/
def emittedSym (c : Ctx) (vs : List Nat) : DSymData :=
  { dset := c.dset, orbitIndex := c.orbitIndex, orbitRs := c.rs.toArray, orbitVs := vs.toArray }

theorem emittedSym_tables {ds : DSetData} {g : Geom} {c : Ctx} (h : mkCtx ds g = .ok c)
    (hds : ValidSet ds) (vs : List Nat) (hl : vs.length = c.count) : ValidTables (emittedSym c vs) := by
  obtain ⟨hd, hrs, _, hvm, hix, _⟩ := mkCtx_fields h
  have hcount : c.count = (collectOrbits ds).rs.size := by
    unfold Ctx.count; rw [hvm]; simp [computeVmins]
  refine ⟨by show ValidSet c.dset; rw [hd]; exact hds, ?_, ?_, ?_⟩
  · show c.orbitIndex = (collectOrbits c.dset).index
    rw [hix, hd]
  · show c.rs.toArray = (collectOrbits c.dset).rs
    rw [hrs, hd]
  · show vs.toArray.size = c.rs.toArray.size
    rw [hrs]
    simp only [List.size_toArray, Array.length_toList]
    omega

/-! ### one row of orbits -/

section row
variable {y : DSymData} (hv : ValidSym y) {i : Nat} (hi : i < y.dim)
include hv hi

theorem loopless_iff (d : Nat) (hd : 1 ≤ d ∧ d ≤ y.size) :
    ((y.view.orbit [i, i + 1] d).all fun e => y.op i e != some e && y.op (i + 1) e != some e) = true ↔
      ¬ ChainFix y.dset i d := by
  have hi0 : i ≤ y.dim := by omega
  have hop : ∀ j e, j ≤ y.dim → 1 ≤ e → e ≤ y.size → y.op j e = some (y.dset.opU j e) := by
    intro j e hj h1 h2
    show y.dset.opSimple j e = _
    unfold DSetData.opSimple
    have h2' : e ≤ y.dset.size := h2
    have hj' : j ≤ y.dset.dim := hj
    rw [if_neg (by simp only [Bool.or_eq_true, decide_eq_true_eq]; omega)]
  rw [List.all_eq_true]
  constructor
  · rintro hall ⟨z, hz, hf⟩
    have hzr := Orb2.range hv.set hi0 hi hd hz
    have := hall z ((mem_orbit_iff hv.set hi0 hi hd).mpr hz)
    rw [hop i z hi0 hzr.1 hzr.2, hop (i + 1) z hi hzr.1 hzr.2] at this
    simp only [Bool.and_eq_true, bne_iff_ne, ne_eq, Option.some.injEq] at this
    rcases hf with hf | hf
    · exact this.1 hf
    · exact this.2 hf
  · intro hno z hz
    have hzo := (mem_orbit_iff hv.set hi0 hi hd).mp hz
    have hzr := Orb2.range hv.set hi0 hi hd hzo
    rw [hop i z hi0 hzr.1 hzr.2, hop (i + 1) z hi hzr.1 hzr.2]
    simp only [Bool.and_eq_true, bne_iff_ne, ne_eq, Option.some.injEq]
    exact ⟨fun hf => hno ⟨z, hzo, Or.inl hf⟩, fun hf => hno ⟨z, hzo, Or.inr hf⟩⟩

/-- Σ_chambers 1/m_{i,i+1} = Σ over the orbit numbers of row `i` of k/v -/
theorem row_sum :
    ∑ x ∈ Icc 1 y.size, 1 / mQ y i (i + 1) x =
      ∑ k ∈ (y.view.orbitReps2d i (i + 1)).toFinset.image (y.ixAt i),
        (kOf ((collectOrbits y.dset).isChain.getD k false) : ℚ) / (y.orbitVs.getD k 0 : ℚ) := by
  have hi0 : i ≤ y.dim := by omega
  have ok := orbitReps2d_ok hv.set hi0 hi
  have hnodup : (y.view.orbitReps2d i (i + 1)).Nodup :=
    ok.distinct.imp (fun {a b} hab he => hab (by subst he; exact Orb2.refl _))
  have hinj : Set.InjOn (y.ixAt i) ((y.view.orbitReps2d i (i + 1)).toFinset : Set Nat) := by
    intro a ha b hb hab
    rw [Finset.mem_coe, List.mem_toFinset] at ha hb
    have hra := ok.range a ha
    have hrb := ok.range b hb
    have horb := (hv.toValidTables.ixAt_eq_iff hi hra.1 hra.2 hrb.1 hrb.2).mp hab
    by_contra hne
    have hp : (y.view.orbitReps2d i (i + 1)).Pairwise
        (fun a b => ¬ Orb2 y.dset i (i + 1) a b ∧ ¬ Orb2 y.dset i (i + 1) b a) :=
      ok.distinct.imp_of_mem (fun {a b} ha hb hab =>
        ⟨hab, fun hba => hab (Orb2.symm hv.set hi0 hi (ok.range b hb) hba)⟩)
    have : Std.Symm (fun a b => ¬ Orb2 y.dset i (i + 1) a b ∧ ¬ Orb2 y.dset i (i + 1) b a) :=
      ⟨fun _ _ hh => ⟨hh.2, hh.1⟩⟩
    exact (hp.forall ha hb hne).1 horb
  rw [← pair_sum hv hi0 hi, sum_image hinj, ← List.sum_toFinset _ hnodup]
  apply sum_congr rfl
  intro d hd
  rw [List.mem_toFinset] at hd
  have hr := ok.range d hd
  -- the branching number
  have hvn : vN y i (i + 1) d = y.orbitVs.getD (y.ixAt i d) 0 := by
    unfold vN
    rw [hv.toValidTables.vPartial_adj hi hr.1 hr.2]
  rw [hvn]
  congr 1
  -- the factor 2 or 1
  have hchain := collectOrbits_isChain hv.set hi hr.1 hr.2
  have hix : ((collectOrbits y.dset).index.getD i #[]).getD d 0 = y.ixAt i d := by
    unfold DSymData.ixAt; rw [hv.index_eq]
  rw [hix] at hchain
  by_cases hcf : ChainFix y.dset i d
  · rw [if_neg (by rw [loopless_iff hv hi d hr]; exact not_not.mpr hcf), hchain.mpr hcf]
    simp [kOf]
  · rw [if_pos ((loopless_iff hv hi d hr).mpr hcf)]
    have : (collectOrbits y.dset).isChain.getD (y.ixAt i d) false = false := by
      cases hb : (collectOrbits y.dset).isChain.getD (y.ixAt i d) false
      · rfl
      · exact absurd (hchain.mp hb) hcf
    rw [this]
    simp [kOf]

/-- the orbit numbers of row `i` -/
theorem row_image_mem (k : Nat) :
    k ∈ (y.view.orbitReps2d i (i + 1)).toFinset.image (y.ixAt i) ↔
      ∃ x, 1 ≤ x ∧ x ≤ y.size ∧ y.ixAt i x = k := by
  have hi0 : i ≤ y.dim := by omega
  have ok := orbitReps2d_ok hv.set hi0 hi
  simp only [mem_image, List.mem_toFinset]
  constructor
  · rintro ⟨d, hd, rfl⟩
    exact ⟨d, (ok.range d hd).1, (ok.range d hd).2, rfl⟩
  · rintro ⟨x, hx1, hx2, rfl⟩
    obtain ⟨d, hd, ho⟩ := ok.cover x hx1 hx2
    have hr := ok.range d hd
    exact ⟨d, hd, (hv.toValidTables.ixAt_eq_iff hi hr.1 hr.2 hx1 hx2).mpr ho⟩

end row

/-! ### both rows: the chamber sum is the sum over all orbit numbers -/

theorem sum_map_range_eq_finset (f : Nat → ℚ) (n : Nat) :
    ((List.range n).map f).sum = ∑ i ∈ range n, f i := by
  induction n with
  | zero => simp
  | succ n ih =>
    rw [List.range_succ, List.map_append, List.sum_append, ih, sum_range_succ]
    simp

theorem chamberSum_eq_orbit_sum {y : DSymData} (hv : ValidSym y) (hdim : y.dim = 2) :
    chamberSum y =
      ∑ k ∈ range y.orbitRs.size,
        (kOf ((collectOrbits y.dset).isChain.getD k false) : ℚ) / (y.orbitVs.getD k 0 : ℚ)
      - (y.size : ℚ) / 2 := by
  have h0 : 0 < y.dim := by omega
  have h1 : 1 < y.dim := by omega
  unfold chamberSum
  rw [sum_sub_distrib, sum_add_distrib, row_sum hv h0, row_sum hv h1, sum_const, Nat.card_Icc]
  -- the two images partition the orbit numbers
  have hdisj : Disjoint ((y.view.orbitReps2d 0 (0 + 1)).toFinset.image (y.ixAt 0))
      ((y.view.orbitReps2d 1 (1 + 1)).toFinset.image (y.ixAt 1)) := by
    rw [disjoint_left]
    intro k hk0 hk1
    obtain ⟨x, hx1, hx2, hx⟩ := (row_image_mem hv h0 k).mp hk0
    obtain ⟨z, hz1, hz2, hz⟩ := (row_image_mem hv h1 k).mp hk1
    have := collectOrbits_rows_lt hv.set (show 0 < 1 by omega) (show 1 < y.dset.dim from h1) hx1 hx2 hz1 hz2
    rw [← hv.index_eq] at this
    unfold DSymData.ixAt at hx hz
    omega
  have hunion : range y.orbitRs.size =
      (y.view.orbitReps2d 0 (0 + 1)).toFinset.image (y.ixAt 0) ∪
      (y.view.orbitReps2d 1 (1 + 1)).toFinset.image (y.ixAt 1) := by
    ext k
    rw [mem_range, mem_union, row_image_mem hv h0, row_image_mem hv h1]
    constructor
    · intro hk
      rw [hv.rs_eq] at hk
      obtain ⟨i, x, hi, hx1, hx2, hx⟩ := collectOrbits_surj hv.set hk
      rw [← hv.index_eq] at hx
      have hi2 : i < 2 := by rw [← hdim]; exact hi
      rcases Nat.lt_succ_iff_lt_or_eq.mp hi2 with hlt | heq
      · have : i = 0 := by omega
        subst this
        exact Or.inl ⟨x, hx1, hx2, hx⟩
      · subst heq
        exact Or.inr ⟨x, hx1, hx2, hx⟩
    · rintro (⟨x, hx1, hx2, rfl⟩ | ⟨x, hx1, hx2, rfl⟩)
      · exact hv.toValidTables.ixAt_lt h0 hx1 hx2
      · exact hv.toValidTables.ixAt_lt h1 hx1 hx2
  rw [hunion, sum_union hdisj]
  simp only [Nat.add_sub_cancel, nsmul_eq_mul]
  ring

/-! ### the statement for the generator -/

/-- **`curvQ_is_model_curvature`**: the C08 model of `delaney2d::curvature`, asked about the symbol
    the generator emits for `vs`, answers (in either representation) the lowest-terms fraction of
    the exact rational curvature `curvQ c vs` that the generator's bookkeeping represents. -/
theorem curvature_emitted {ds : DSetData} {g : Geom} {c : Ctx} (h : mkCtx ds g = .ok c)
    (hds : ValidSet ds) (hdim : ds.dim = 2) (hfar : FarCommute ds) (vs : List Nat)
    (hl : vs.length = c.count) (hpos : ∀ i, i < c.count → 1 ≤ vs.getD i 0) (rep : Rep) :
    D2.curvature ⟨emittedSym c vs, rep⟩ = .ok (Frac.ofRat (curvQ c vs)) ∧
    chamberSum (emittedSym c vs) = curvQ c vs := by
  obtain ⟨hd, hrs, hch, hvm, _, _⟩ := mkCtx_fields h
  have hcount : c.count = (collectOrbits ds).rs.size := by
    unfold Ctx.count; rw [hvm]; simp [computeVmins]
  have ht := emittedSym_tables h hds vs hl
  have hv : ValidSym (emittedSym c vs) := ⟨ht, by show FarCommute c.dset; rw [hd]; exact hfar⟩
  have hdim' : (emittedSym c vs).dim = 2 := by show c.dset.dim = 2; rw [hd]; exact hdim
  have hcompl : (emittedSym c vs).isCompletePartial = true := by
    unfold DSymData.isCompletePartial
    rw [Bool.and_eq_true]
    constructor
    · show c.dset.isCompletePartial = true
      rw [hd]
      unfold DSetData.isCompletePartial
      simp only [List.all_eq_true, List.mem_range, bne_iff_ne, ne_eq]
      intro i hi d hdlt
      have := (hds.range i (d + 1) (by omega) (by omega) (by omega)).1
      omega
    · show vs.toArray.all (· > 0) = true
      rw [Array.all_eq_true]
      intro i hi
      have hi' : i < vs.length := by simpa using hi
      have := hpos i (by omega)
      simp only [List.getD, List.getElem?_eq_getElem hi', Option.getD_some] at this
      have : 0 < vs[i] := this
      simpa using this
  have hgood : Good2d ⟨emittedSym c vs, rep⟩ := ⟨hv, hdim', hcompl⟩
  have hsum : chamberSum (emittedSym c vs) = curvQ c vs := by
    rw [chamberSum_eq_orbit_sum hv hdim']
    unfold curvQ
    rw [sum_map_range_eq_finset]
    have hsz : (emittedSym c vs).orbitRs.size = c.count := by
      show c.rs.toArray.size = c.count
      rw [hrs, hcount]
    rw [hsz]
    congr 1
    · apply sum_congr rfl
      intro k _
      have e1 : (collectOrbits (emittedSym c vs).dset).isChain.getD k false = c.isChain.getD k false := by
        show (collectOrbits c.dset).isChain.getD k false = _
        rw [hch, hd]
        simp [List.getD, Array.getD_eq_getD_getElem?]
      have e2 : (emittedSym c vs).orbitVs.getD k 0 = vs.getD k 0 := by
        show vs.toArray.getD k 0 = _
        simp [List.getD, Array.getD_eq_getD_getElem?]
      rw [e1, e2]
      rfl
  refine ⟨?_, hsum⟩
  rw [curvature_eq_chamberSum hgood, hsum]

end DSymVerif.SymGen
