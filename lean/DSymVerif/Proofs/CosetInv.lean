/-
Invariants of the coset table under the union-find view (C11): shape (widths, ranges,
partition inside the rows), the coincidence invariant `UInv` (every entry has its inverse
entry up to the pending identifications), creation edges, and their preservation by `set`
into a free slot and `join` of two free slots.
-/
import DSymVerif.Proofs.CosetPart
import DSymVerif.Proofs.LowIndexSound

namespace DSymVerif.CosetInvP
open DSymVerif DSymVerif.Cosets DSymVerif.LowIndexP DSymVerif.CosetPartP

/-! ### rows, widths and lengths under `set` -/

theorem set_rows {t t' : Table} {c : Nat} {g : Int} {d : Nat} (h : t.set c g d = .ok t') :
    ∃ row, (padRows t.nrGens t.rows c)[c]? = some row ∧ 0 ≤ g + (t.nrGens : Int) ∧
      (g + (t.nrGens : Int)).toNat < row.size ∧
      t'.rows = (padRows t.nrGens t.rows c).setIfInBounds c
        (row.setIfInBounds (g + (t.nrGens : Int)).toNat (d : Int)) := by
  unfold Table.set at h
  simp only [] at h
  by_cases hn : g + (t.nrGens : Int) < 0
  · simp [hn] at h
  · simp only [hn, if_false] at h
    cases hr : (padRows t.nrGens t.rows c)[c]? with
    | none => simp [hr] at h
    | some row =>
      simp only [hr] at h
      by_cases hj : (g + (t.nrGens : Int)).toNat < row.size
      · simp only [hj, if_true, Outcome.ok.injEq] at h
        subst h
        exact ⟨row, rfl, by omega, hj, rfl⟩
      · simp [hj] at h

theorem padRows_size (n : Nat) (rows : Array (Array Int)) (c : Nat) :
    (padRows n rows c).size = max rows.size (c + 1) := by
  simp [padRows]; omega

theorem set_len {t t' : Table} {c : Nat} {g : Int} {d : Nat} (h : t.set c g d = .ok t') :
    t'.len = max t.len (c + 1) := by
  obtain ⟨row, _, _, _, hr⟩ := set_rows h
  unfold Table.len
  rw [hr, Array.size_setIfInBounds, padRows_size]

theorem padRows_get (n : Nat) (rows : Array (Array Int)) (c x : Nat) (row : Array Int)
    (h : (padRows n rows c)[x]? = some row) : rows[x]? = some row ∨ row = blankRow n := by
  unfold padRows at h
  rw [Array.getElem?_append] at h
  by_cases hx : x < rows.size
  · rw [if_pos hx] at h; exact Or.inl h
  · rw [if_neg hx, Array.getElem?_replicate] at h
    split at h
    · right; injection h with h; exact h.symm
    · cases h

theorem set_width {t t' : Table} {c : Nat} {g : Int} {d : Nat} (h : t.set c g d = .ok t')
    (hw : ∀ (x : Nat) (row : Array Int), t.rows[x]? = some row → row.size = t.nrGens * 2 + 1) :
    ∀ (x : Nat) (row : Array Int), t'.rows[x]? = some row → row.size = t'.nrGens * 2 + 1 := by
  obtain ⟨row0, h0, _, _, hr⟩ := set_rows h
  have hn : t'.nrGens = t.nrGens := (set_ok h).1
  intro x row hx
  rw [hn]
  rw [hr, Array.getElem?_setIfInBounds] at hx
  have hpad : ∀ (y : Nat) (r : Array Int), (padRows t.nrGens t.rows c)[y]? = some r → r.size = t.nrGens * 2 + 1 := by
    intro y r hy
    rcases padRows_get _ _ _ _ _ hy with h1 | h1
    · exact hw y r h1
    · rw [h1]; simp [blankRow]
  by_cases hcx : c = x
  · subst hcx
    simp only [if_true] at hx
    split at hx
    · injection hx with hx
      rw [← hx, Array.size_setIfInBounds]
      exact hpad c row0 h0
    · cases hx
  · simp only [hcx, if_false] at hx
    exact hpad x row hx


/-! ### the shape of a coset table -/

structure Shape (t : Table) : Prop where
  wfp : WFP t.part
  psize : t.part.parent.size ≤ t.len
  pos : 0 < t.len
  width : ∀ (c : Nat) (row : Array Int), t.rows[c]? = some row → row.size = t.nrGens * 2 + 1
  range : ∀ c g d, g ∈ t.allGens → t.get c g = .ok (some d) → d < t.len

theorem canon_lt {t : Table} (s : Shape t) {c : Nat} (h : c < t.len) : t.canon c < t.len := by
  unfold Table.canon
  by_cases hc : c < t.part.parent.size
  · have := find_lt s.wfp c hc
    have := s.psize
    omega
  · rw [find_ge s.wfp (by omega)]; exact h

theorem canon_idem {t : Table} (s : Shape t) (c : Nat) : t.canon (t.canon c) = t.canon c :=
  find_idem s.wfp c

theorem canon_ge {t : Table} (s : Shape t) {c : Nat} (h : t.len ≤ c) : t.canon c = c := by
  unfold Table.canon
  exact find_ge s.wfp (by have := s.psize; omega)

theorem get_total {t : Table} (s : Shape t) {c : Nat} {g : Int} (hc : c < t.len) (hg : g ∈ t.allGens) :
    t.get c g = .ok none ∨ ∃ d, t.get c g = .ok (some d) := by
  have hg' := mem_allGensOf.mp hg
  rw [get_eq]
  have hc' : c < t.rows.size := hc
  have hrow : t.rows[c]? = some t.rows[c] := Array.getElem?_eq_getElem hc'
  rw [hrow]
  have hw := s.width c _ hrow
  have hn : ¬ g + (t.nrGens : Int) < 0 := by omega
  have hidx : (g + (t.nrGens : Int)).toNat < (t.rows[c]).size := by rw [hw]; omega
  simp only [hn, if_false]
  rw [Array.getElem?_eq_getElem hidx]
  simp only []
  split
  · exact Or.inr ⟨_, rfl⟩
  · exact Or.inl rfl

/-- outputs of `get` are canonical -/
theorem get_canon {t : Table} (s : Shape t) {c : Nat} {g : Int} {d : Nat}
    (h : t.get c g = .ok (some d)) : t.canon d = d := by
  rw [get_eq] at h
  cases hr : t.rows[c]? with
  | none => simp [hr] at h
  | some row =>
    simp only [hr] at h
    split at h
    · cases h
    · split at h
      · cases h
      · split at h
        · injection h with h
          injection h with h
          rw [← h]
          exact canon_idem s _
        · cases h

theorem get_ge_len {t : Table} {c : Nat} (g : Int) (h : t.len ≤ c) : t.get c g = .ok none := by
  rw [get_eq, Array.getElem?_eq_none (by unfold Table.len at h; omega)]

/-! ### compatible labelings: the equivalence generated by the partition and a queue -/

/-- `f` is constant on the classes of the partition and identifies the queued pairs -/
def Compat (t : Table) (q : List (Nat × Nat)) (f : Nat → Nat) : Prop :=
  (∀ x, f (t.canon x) = f x) ∧ ∀ p ∈ q, f p.1 = f p.2

/-- `e` and `x` are identified by every compatible labeling, i.e. they are equivalent under
    the equivalence generated by the partition and the queue -/
def Sim (t : Table) (q : List (Nat × Nat)) (e x : Nat) : Prop := ∀ f, Compat t q f → f e = f x

theorem Sim.refl (t : Table) (q : List (Nat × Nat)) (x : Nat) : Sim t q x x := fun _ _ => rfl

theorem Sim.canon_left {t : Table} {q : List (Nat × Nat)} {e x : Nat} (h : Sim t q e x) :
    Sim t q (t.canon e) x := fun f hf => (hf.1 e).trans (h f hf)

theorem Sim.trans {t : Table} {q : List (Nat × Nat)} {a b c : Nat} (h1 : Sim t q a b)
    (h2 : Sim t q b c) : Sim t q a c := fun f hf => (h1 f hf).trans (h2 f hf)

theorem Sim.symm {t : Table} {q : List (Nat × Nat)} {a b : Nat} (h : Sim t q a b) : Sim t q b a :=
  fun f hf => (h f hf).symm

/-- with an empty queue, equivalent canonical rows are equal -/
theorem Sim.eq_of_nil {t : Table} (s : Shape t) {e x : Nat} (h : Sim t [] e x) :
    t.canon e = t.canon x :=
  h t.canon ⟨fun y => canon_idem s y, fun _ hp => by cases hp⟩

/-- a labeling compatible with `(t', q')` is compatible with `(t, q)` ⇒ `Sim` transfers -/
theorem Sim.mono {t t' : Table} {q q' : List (Nat × Nat)} {e x : Nat}
    (hc : ∀ f, Compat t' q' f → Compat t q f) (h : Sim t q e x) : Sim t' q' e x :=
  fun f hf => h f (hc f hf)

/-- the coincidence invariant: every entry has its inverse entry, up to the pending
    identifications -/
def UInv (t : Table) (q : List (Nat × Nat)) : Prop :=
  ∀ x g d, g ∈ t.allGens → t.get x g = .ok (some d) →
    ∃ e, t.get d (-g) = .ok (some e) ∧ Sim t q e x

/-- every row but 0 has an entry leading to (the class of) a smaller row: the edge by which
    it was created -/
def Creation (t : Table) : Prop :=
  ∀ m, 0 < m → m < t.len → ∃ g ∈ t.allGens, ∃ i, i < m ∧ t.get m g = .ok (some (t.canon i))

structure TCq (t : Table) (q : List (Nat × Nat)) : Prop where
  shape : Shape t
  uinv : UInv t q
  creation : Creation t
  qrange : ∀ p ∈ q, p.1 < t.len ∧ p.2 < t.len

/-- raw definedness only grows -/
def Mono (t t' : Table) : Prop :=
  t'.nrGens = t.nrGens ∧ t.len ≤ t'.len ∧ ∀ c g, IsDef t c g → IsDef t' c g

theorem Mono.refl (t : Table) : Mono t t := ⟨rfl, Nat.le_refl _, fun _ _ h => h⟩
theorem Mono.trans {a b c : Table} (h1 : Mono a b) (h2 : Mono b c) : Mono a c :=
  ⟨h2.1.trans h1.1, Nat.le_trans h1.2.1 h2.2.1, fun x g h => h2.2.2 x g (h1.2.2 x g h)⟩
theorem Mono.allGens {a b : Table} (h : Mono a b) : b.allGens = a.allGens := by
  unfold Table.allGens; rw [h.1]


/-! ### `join` of two free slots keeps the invariants -/

theorem compat_of_canon_eq {t t' : Table} (h : ∀ x, t'.canon x = t.canon x) (q : List (Nat × Nat))
    (f : Nat → Nat) : Compat t' q f ↔ Compat t q f := by
  unfold Compat
  simp only [h]

theorem join_len {t t' : Table} {c d : Nat} {g : Int} (h : t.join c d g = .ok t') :
    t'.len = max (max t.len (c + 1)) (d + 1) := by
  obtain ⟨t1, s1, s2⟩ := join_split h
  rw [set_len s2, set_len s1]

theorem join_width {t t' : Table} {c d : Nat} {g : Int} (h : t.join c d g = .ok t')
    (hw : ∀ (x : Nat) (row : Array Int), t.rows[x]? = some row → row.size = t.nrGens * 2 + 1) :
    ∀ (x : Nat) (row : Array Int), t'.rows[x]? = some row → row.size = t'.nrGens * 2 + 1 := by
  obtain ⟨t1, s1, s2⟩ := join_split h
  exact set_width s2 (set_width s1 hw)

theorem join_tcq {t t' : Table} {c d : Nat} {g : Int} (inv : TCq t []) (h : t.join c d g = .ok t')
    (hg : g ∈ t.allGens) (hc : t.canon c = c) (hcl : c < t.len) (hd : t.canon d = d)
    (hdl : d < t.len ∨ (d = t.len ∧ c < d))
    (h1 : t.get c g = .ok none) (h2 : t.get d (-g) = .ok none) :
    TCq t' [] ∧ Mono t t' ∧ t'.part = t.part := by
  have hlen : t'.len = max t.len (d + 1) := by rw [join_len h]; omega
  have hcan : ∀ x, t'.canon x = t.canon x := join_canon h
  have hgens : t'.allGens = t.allGens := join_allGens h
  have hpart : t'.part = t.part := (join_ok h).2.1
  have hng : -g ∈ t.allGens := neg_mem_allGensOf hg
  have hne : g ≠ -g := ne_neg_of_mem_allGens hg
  have hfst : t'.get c g = .ok (some d) := by rw [join_get_fst h hg, hd]
  have hsnd : t'.get d (-g) = .ok (some c) := by rw [join_get_snd h, hc]
  -- every defined entry of t' is one of the two new ones or an old one
  have hcases : ∀ x y z, y ∈ t.allGens → t'.get x y = .ok (some z) →
      (x = c ∧ y = g ∧ z = d) ∨ (x = d ∧ y = -g ∧ z = c) ∨ t.get x y = .ok (some z) := by
    intro x y z hy hget
    by_cases e1 : x = c ∧ y = g
    · obtain ⟨rfl, rfl⟩ := e1
      rw [hfst] at hget
      injection hget with hget; injection hget with hget
      exact Or.inl ⟨rfl, rfl, hget.symm⟩
    · by_cases e2 : x = d ∧ y = -g
      · obtain ⟨rfl, rfl⟩ := e2
        rw [hsnd] at hget
        injection hget with hget; injection hget with hget
        exact Or.inr (Or.inl ⟨rfl, rfl, hget.symm⟩)
      · right; right
        rw [← join_get_frame h hy (by tauto) (by tauto)]
        exact hget
  have hold : ∀ x y z, y ∈ t.allGens → t.get x y = .ok (some z) → t'.get x y = .ok (some z) := by
    intro x y z hy hget
    rw [join_get_frame h hy]
    · exact hget
    · by_cases e : x = c
      · right; rintro rfl; rw [e, h1] at hget; cases hget
      · exact Or.inl e
    · by_cases e : x = d
      · right; rintro rfl; rw [e, h2] at hget; cases hget
      · exact Or.inl e
  refine ⟨⟨⟨?_, ?_, ?_, join_width h inv.shape.width, ?_⟩, ?_, ?_, fun p hp => by cases hp⟩,
    ⟨(join_ok h).1, by rw [hlen]; omega, (join_ok h).2.2.2.2⟩, hpart⟩
  · rw [hpart]; exact inv.shape.wfp
  · rw [hpart, hlen]; have := inv.shape.psize; omega
  · rw [hlen]; have := inv.shape.pos; omega
  · intro x y z hy hget
    rw [hgens] at hy
    rw [hlen]
    rcases hcases x y z hy hget with ⟨_, _, rfl⟩ | ⟨_, _, rfl⟩ | hh
    · rcases hdl with h | h <;> omega
    · omega
    · have := inv.shape.range x y z hy hh; omega
  · intro x y z hy hget
    rw [hgens] at hy
    rcases hcases x y z hy hget with ⟨rfl, rfl, rfl⟩ | ⟨rfl, rfl, rfl⟩ | hh
    · exact ⟨x, hsnd, Sim.refl _ _ _⟩
    · exact ⟨x, by rw [Int.neg_neg]; exact hfst, Sim.refl _ _ _⟩
    · obtain ⟨e, he, hs⟩ := inv.uinv x y z hy hh
      exact ⟨e, hold z (-y) e (neg_mem_allGensOf hy) he,
        hs.mono (fun f hf => (compat_of_canon_eq hcan [] f).mp hf)⟩
  · intro m hm0 hml
    rw [hlen] at hml
    by_cases hmo : m < t.len
    · obtain ⟨y, hy, i, hi, hget⟩ := inv.creation m hm0 hmo
      exact ⟨y, by rw [hgens]; exact hy, i, hi, by rw [hcan]; exact hold m y _ hy hget⟩
    · have hmd : m = d := by omega
      have hcd : c < d := by rcases hdl with h | h <;> omega
      subst hmd
      exact ⟨-g, by rw [hgens]; exact hng, c, hcd, by rw [hcan, hc]; exact hsnd⟩


/-! ### changing the partition only -/

/-- `get` after replacing the partition, when the new `find` factors through the old one -/
theorem get_with_part (t : Table) (p2 : Part) (F : Nat → Nat)
    (hF : ∀ v, p2.find v = F (t.part.find v)) (c : Nat) (g : Int) :
    ({ t with part := p2 } : Table).get c g =
      match t.get c g with
      | .ok (some d) => .ok (some (F d))
      | o => o := by
  rw [get_eq, get_eq]
  simp only []
  cases t.rows[c]? with
  | none => rfl
  | some row =>
    simp only []
    by_cases hn : g + (t.nrGens : Int) < 0
    · simp [hn]
    · simp only [hn, if_false]
      cases row[(g + (t.nrGens : Int)).toNat]? with
      | none => rfl
      | some r =>
        simp only []
        by_cases hr : r ≥ 0
        · simp only [hr, if_true, Table.canon, hF]
        · simp only [hr, if_false]

theorem isDef_with_part (t : Table) (p2 : Part) (c : Nat) (g : Int) :
    IsDef ({ t with part := p2 } : Table) c g ↔ IsDef t c g := Iff.rfl

/-! ### one letter of the `merge` loop: copying an entry into a free slot -/

theorem set_tcq {t t1 : Table} {Q : List (Nat × Nat)} {b v : Nat} {g : Int} (inv : TCq t Q)
    (h : t.set b g v = .ok t1) (hg : g ∈ t.allGens) (hb : b < t.len)
    (hfree : t.get b g = .ok none) (hv : t.canon v = v) (hvl : v < t.len)
    (hu : ∃ e, t.get v (-g) = .ok (some e) ∧ Sim t Q e b) :
    TCq t1 Q ∧ Mono t t1 ∧ t1.part = t.part ∧ t1.len = t.len ∧
      t1.get b g = .ok (some v) ∧
      (∀ c' g', g' ∈ t.allGens → (c' ≠ b ∨ g' ≠ g) → t1.get c' g' = t.get c' g') := by
  have hpart : t1.part = t.part := (set_ok h).2.1
  have hcan : ∀ x, t1.canon x = t.canon x := set_canon h
  have hgens : t1.allGens = t.allGens := set_allGens h
  have hlen : t1.len = t.len := by rw [set_len h]; omega
  have hself : t1.get b g = .ok (some v) := by rw [set_get_self h, hcan, hv]
  have hframe : ∀ c' g', g' ∈ t.allGens → (c' ≠ b ∨ g' ≠ g) → t1.get c' g' = t.get c' g' :=
    fun c' g' hg' hne => set_get_frame h hg' hne
  have hne : g ≠ -g := ne_neg_of_mem_allGens hg
  have hold : ∀ x y z, y ∈ t.allGens → t.get x y = .ok (some z) → t1.get x y = .ok (some z) := by
    intro x y z hy hget
    rw [hframe x y hy]
    · exact hget
    · by_cases e : x = b
      · right; rintro rfl; rw [e, hfree] at hget; cases hget
      · exact Or.inl e
  have hcases : ∀ x y z, y ∈ t.allGens → t1.get x y = .ok (some z) →
      (x = b ∧ y = g ∧ z = v) ∨ t.get x y = .ok (some z) := by
    intro x y z hy hget
    by_cases e1 : x = b ∧ y = g
    · obtain ⟨rfl, rfl⟩ := e1
      rw [hself] at hget
      injection hget with hget; injection hget with hget
      exact Or.inl ⟨rfl, rfl, hget.symm⟩
    · right
      rw [← hframe x y hy (by tauto)]
      exact hget
  have hsim : ∀ {e x}, Sim t Q e x → Sim t1 Q e x := fun hs =>
    hs.mono (fun f hf => (compat_of_canon_eq hcan Q f).mp hf)
  refine ⟨⟨⟨?_, ?_, ?_, set_width h inv.shape.width, ?_⟩, ?_, ?_, ?_⟩,
    ⟨(set_ok h).1, by omega, (set_ok h).2.2.2⟩, hpart, hlen, hself, hframe⟩
  · rw [hpart]; exact inv.shape.wfp
  · rw [hpart, hlen]; exact inv.shape.psize
  · rw [hlen]; exact inv.shape.pos
  · intro x y z hy hget
    rw [hgens] at hy
    rw [hlen]
    rcases hcases x y z hy hget with ⟨_, _, rfl⟩ | hh
    · exact hvl
    · exact inv.shape.range x y z hy hh
  · intro x y z hy hget
    rw [hgens] at hy
    rcases hcases x y z hy hget with ⟨rfl, rfl, rfl⟩ | hh
    · obtain ⟨e, he, hs⟩ := hu
      exact ⟨e, hold _ _ _ (neg_mem_allGensOf hg) he, hsim hs⟩
    · obtain ⟨e, he, hs⟩ := inv.uinv x y z hy hh
      exact ⟨e, hold z (-y) e (neg_mem_allGensOf hy) he, hsim hs⟩
  · intro m hm0 hml
    rw [hlen] at hml
    obtain ⟨y, hy, i, hi, hget⟩ := inv.creation m hm0 hml
    exact ⟨y, by rw [hgens]; exact hy, i, hi, by rw [hcan]; exact hold m y _ hy hget⟩
  · intro p hp
    rw [hlen]; exact inv.qrange p hp

end DSymVerif.CosetInvP
