/-
Lemmas about the model of the D-set generator, part 5: soundness of
`check_and_apply_implications`.  A *3-path* is an alternating path
x0 -a- x1 -b- x2 -a- x3 of defined entries with |a − b| > 1; it is *closed* when the
entry (b, x3) is defined and leads back to x0 — for a complete set this is
s_a s_b = s_b s_a.  After a successful run of the implication queue every 3-path is
closed.  Core Lean only.
-/
import DSymVerif.Proofs.DSetGenReach

namespace DSymVerif.DSG
open DSymVerif.DS

set_option linter.unusedSimpArgs false

/-- unrolled `scan_single_direction` on a word of four indices, limit `L ≤ 4` -/
theorem scanSingle4 {ds : DSetData} (hv : ValidPartialSet ds) {w0 w1 w2 w3 e : Nat}
    (h0 : w0 ≤ ds.dim) (h1 : w1 ≤ ds.dim) (h2 : w2 ≤ ds.dim) (h3 : w3 ≤ ds.dim)
    (he1 : 1 ≤ e) (he2 : e ≤ ds.size) (L : Nat) (hL : L ≤ 4) :
    scanSingle ds ([w0, w1, w2, w3].take L) e 0 = .ok (
      if L = 0 ∨ ds.opU w0 e = 0 then (e, 0)
      else if L = 1 ∨ ds.opU w1 (ds.opU w0 e) = 0 then (ds.opU w0 e, 1)
      else if L = 2 ∨ ds.opU w2 (ds.opU w1 (ds.opU w0 e)) = 0 then (ds.opU w1 (ds.opU w0 e), 2)
      else if L = 3 ∨ ds.opU w3 (ds.opU w2 (ds.opU w1 (ds.opU w0 e))) = 0 then
        (ds.opU w2 (ds.opU w1 (ds.opU w0 e)), 3)
      else (ds.opU w3 (ds.opU w2 (ds.opU w1 (ds.opU w0 e))), 4)) := by
  have hL' : L = 0 ∨ L = 1 ∨ L = 2 ∨ L = 3 ∨ L = 4 := by omega
  have r : ∀ k x, k ≤ ds.dim → 1 ≤ x → x ≤ ds.size → ds.opU k x ≠ 0 →
      1 ≤ ds.opU k x ∧ ds.opU k x ≤ ds.size := by
    intro k x hk a b c
    exact ⟨Nat.pos_of_ne_zero c, hv.range k x hk a b⟩
  rcases hL' with rfl | rfl | rfl | rfl | rfl
  · simp [scanSingle]
  · simp only [List.take, scanSingle, opC_valid hv h0 he1 he2]
    by_cases c1 : ds.opU w0 e = 0
    · simp [c1]
    · simp [c1]
  · simp only [List.take, scanSingle, opC_valid hv h0 he1 he2]
    by_cases c1 : ds.opU w0 e = 0
    · simp [c1]
    · obtain ⟨a1, b1⟩ := r _ _ h0 he1 he2 c1
      simp only [c1, opC_valid hv h1 a1 b1]
      by_cases c2 : ds.opU w1 (ds.opU w0 e) = 0
      · simp [c1, c2]
      · simp [c1, c2]
  · simp only [List.take, scanSingle, opC_valid hv h0 he1 he2]
    by_cases c1 : ds.opU w0 e = 0
    · simp [c1]
    · obtain ⟨a1, b1⟩ := r _ _ h0 he1 he2 c1
      simp only [c1, opC_valid hv h1 a1 b1]
      by_cases c2 : ds.opU w1 (ds.opU w0 e) = 0
      · simp [c1, c2]
      · obtain ⟨a2, b2⟩ := r _ _ h1 a1 b1 c2
        simp only [c2, opC_valid hv h2 a2 b2]
        by_cases c3 : ds.opU w2 (ds.opU w1 (ds.opU w0 e)) = 0
        · simp [c1, c2, c3]
        · simp [c1, c2, c3]
  · simp only [List.take, scanSingle, opC_valid hv h0 he1 he2]
    by_cases c1 : ds.opU w0 e = 0
    · simp [c1]
    · obtain ⟨a1, b1⟩ := r _ _ h0 he1 he2 c1
      simp only [c1, opC_valid hv h1 a1 b1]
      by_cases c2 : ds.opU w1 (ds.opU w0 e) = 0
      · simp [c1, c2]
      · obtain ⟨a2, b2⟩ := r _ _ h1 a1 b1 c2
        simp only [c2, opC_valid hv h2 a2 b2]
        by_cases c3 : ds.opU w2 (ds.opU w1 (ds.opU w0 e)) = 0
        · simp [c1, c2, c3]
        · obtain ⟨a3, b3⟩ := r _ _ h2 a2 b2 c3
          simp only [c3, opC_valid hv h3 a3 b3]
          by_cases c4 : ds.opU w3 (ds.opU w2 (ds.opU w1 (ds.opU w0 e))) = 0
          · simp [c1, c2, c3, c4]
          · simp [c1, c2, c3, c4]

/-- in-range, defined images are chambers, and the operation leads back -/
theorem step_facts {ds : DSetData} (hv : ValidPartialSet ds) {k x : Nat} (hk : k ≤ ds.dim)
    (h1 : 1 ≤ x) (h2 : x ≤ ds.size) (hne : ds.opU k x ≠ 0) :
    1 ≤ ds.opU k x ∧ ds.opU k x ≤ ds.size ∧ ds.opU k (ds.opU k x) = x :=
  ⟨Nat.pos_of_ne_zero hne, hv.range k x hk h1 h2, hv.invol k x hk h1 h2 hne⟩

/-- what `scan_orbit(ds, i, j, d)` and the action taken on its result achieve for the
    three 3-paths ("windows") through the entry (i, d) that alternate i and j:
    W0 = d,f1,f2,f3   W1 = g1,d,f1,f2   W2 = g2,g1,d,f1
    (f = forward images of d under i,j,i; g = backward images under j,i).  `ds'` is the
    set the loop continues with. -/
theorem scan_windows {ds : DSetData} (hv : ValidPartialSet ds) {i j d : Nat}
    (hi : i ≤ ds.dim) (hj : j ≤ ds.dim) (h1 : 1 ≤ d) (h2 : d ≤ ds.size)
    (f1 f2 f3 g1 g2 : Nat) (hf1 : f1 = ds.opU i d) (hf2 : f2 = ds.opU j f1)
    (hf3 : f3 = ds.opU i f2) (hg1 : g1 = ds.opU j d) (hg2 : g2 = ds.opU i g1) :
    ∃ head tail gap k, scanOrbit ds i j d = .ok (head, tail, gap, k) ∧
      ∀ ds', ((gap = 0 ∧ head = tail ∧ ds' = ds) ∨ (gap = 1 ∧ setC ds k head tail = .ok ds') ∨
          (2 ≤ gap ∧ ds' = ds)) →
        (f1 ≠ 0 → f2 ≠ 0 → f3 ≠ 0 → ds'.opU j f3 = d) ∧
        (g1 ≠ 0 → f1 ≠ 0 → f2 ≠ 0 → ds'.opU i f2 = g1) ∧
        (g1 ≠ 0 → g2 ≠ 0 → f1 ≠ 0 → ds'.opU j f1 = g2) := by
  have hfw := scanSingle4 hv hi hj hi hj h1 h2 4 (Nat.le_refl _)
  have hbw := fun L hL => scanSingle4 hv hj hi hj hi h1 h2 L hL
  rw [← hf1, ← hf2, ← hf3] at hfw
  simp only [← hg1, ← hg2] at hbw
  simp only [List.take] at hfw
  unfold scanOrbit
  rw [hfw]
  by_cases c1 : f1 = 0
  · -- a = 0: no window exists
    simp only [c1, Nat.reduceEqDiff, false_or, true_or, or_true, or_false, or_self, if_true, if_false]
    rw [hbw 4 (Nat.le_refl _)]
    generalize (if (4:Nat) = 0 ∨ g1 = 0 then (d, 0) else _) = r
    obtain ⟨tail, b⟩ := r
    refine ⟨_, _, _, _, rfl, ?_⟩
    intro ds' _
    exact ⟨fun h => absurd rfl h, fun _ h => absurd rfl h, fun _ _ h => absurd rfl h⟩
  · obtain ⟨r11, r12, r13⟩ := step_facts hv hi h1 h2 (by rw [← hf1]; exact c1)
    rw [← hf1] at r11 r12 r13
    by_cases c2 : f2 = 0
    · -- a = 1
      simp only [c1, c2, Nat.reduceEqDiff, false_or, true_or, or_true, or_false, or_self, if_true, if_false]
      rw [hbw 3 (by omega)]
      by_cases e1 : g1 = 0
      · simp only [e1, Nat.reduceEqDiff, false_or, true_or, or_true, or_false, or_self, if_true, if_false]
        refine ⟨_, _, _, _, rfl, ?_⟩
        intro ds' _
        exact ⟨fun _ h => absurd rfl h, fun h => absurd rfl h, fun h => absurd rfl h⟩
      · obtain ⟨s11, s12, s13⟩ := step_facts hv hj h1 h2 (by rw [← hg1]; exact e1)
        rw [← hg1] at s11 s12 s13
        by_cases e2 : g2 = 0
        · simp only [e1, e2, Nat.reduceEqDiff, false_or, true_or, or_true, or_false, or_self, if_true, if_false]
          refine ⟨_, _, _, _, rfl, ?_⟩
          intro ds' _
          exact ⟨fun _ h => absurd rfl h, fun _ _ h => absurd rfl h, fun _ h => absurd rfl h⟩
        · obtain ⟨s21, s22, s23⟩ := step_facts hv hi s11 s12 (by rw [← hg2]; exact e2)
          rw [← hg2] at s21 s22 s23
          by_cases e3 : ds.opU j g2 = 0
          · simp only [e1, e2, e3, Nat.reduceEqDiff, false_or, true_or, or_true, or_false, or_self, if_true, if_false]
            refine ⟨_, _, _, _, rfl, ?_⟩
            intro ds' hc
            rcases hc with ⟨hc, _⟩ | ⟨_, hset⟩ | ⟨hc, _⟩
            · omega
            · refine ⟨fun _ h => absurd rfl h, fun _ _ h => absurd rfl h, fun _ _ _ => ?_⟩
              rw [setC_opU hset hj r11]
              simp
            · omega
          · simp only [e1, e2, e3, Nat.reduceEqDiff, false_or, true_or, or_true, or_false, or_self, if_true, if_false]
            refine ⟨_, _, _, _, rfl, ?_⟩
            intro ds' hc
            exfalso
            obtain ⟨s31, s32, s33⟩ := step_facts hv hj s21 s22 e3
            rcases hc with ⟨_, hc, _⟩ | ⟨hc, _⟩ | ⟨hc, _⟩
            · -- f1 = g3, but (j, f1) is undefined and (j, g3) is defined
              rw [← hc, ← hf2, c2] at s33
              omega
            · omega
            · omega
    · obtain ⟨r21, r22, r23⟩ := step_facts hv hj r11 r12 (by rw [← hf2]; exact c2)
      rw [← hf2] at r21 r22 r23
      by_cases c3 : f3 = 0
      · -- a = 2
        simp only [c1, c2, c3, Nat.reduceEqDiff, false_or, true_or, or_true, or_false, or_self, if_true, if_false]
        rw [hbw 2 (by omega)]
        by_cases e1 : g1 = 0
        · simp only [e1, Nat.reduceEqDiff, false_or, true_or, or_true, or_false, or_self, if_true, if_false]
          refine ⟨_, _, _, _, rfl, ?_⟩
          intro ds' _
          exact ⟨fun _ _ h => absurd rfl h, fun h => absurd rfl h, fun h => absurd rfl h⟩
        · obtain ⟨s11, s12, s13⟩ := step_facts hv hj h1 h2 (by rw [← hg1]; exact e1)
          rw [← hg1] at s11 s12 s13
          by_cases e2 : g2 = 0
          · simp only [e1, e2, Nat.reduceEqDiff, false_or, true_or, or_true, or_false, or_self, if_true, if_false]
            refine ⟨_, _, _, _, rfl, ?_⟩
            intro ds' hc
            rcases hc with ⟨hc, _⟩ | ⟨_, hset⟩ | ⟨hc, _⟩
            · omega
            · refine ⟨fun _ _ h => absurd rfl h, fun _ _ _ => ?_, fun _ h => absurd rfl h⟩
              rw [setC_opU hset hi r21]
              simp
            · omega
          · simp only [e1, e2, Nat.reduceEqDiff, false_or, true_or, or_true, or_false, or_self, if_true, if_false]
            refine ⟨_, _, _, _, rfl, ?_⟩
            intro ds' hc
            exfalso
            obtain ⟨s21, s22, s23⟩ := step_facts hv hi s11 s12 (by rw [← hg2]; exact e2)
            rw [← hg2] at s21 s22 s23
            rcases hc with ⟨_, hc, _⟩ | ⟨hc, _⟩ | ⟨hc, _⟩
            · rw [← hc, ← hf3, c3] at s23
              omega
            · omega
            · omega
      · obtain ⟨r31, r32, r33⟩ := step_facts hv hi r21 r22 (by rw [← hf3]; exact c3)
        rw [← hf3] at r31 r32 r33
        by_cases c4 : ds.opU j f3 = 0
        · -- a = 3
          simp only [c1, c2, c3, c4, Nat.reduceEqDiff, false_or, true_or, or_true, or_false, or_self, if_true, if_false]
          rw [hbw 1 (by omega)]
          by_cases e1 : g1 = 0
          · simp only [e1, Nat.reduceEqDiff, false_or, true_or, or_true, or_false, or_self, if_true, if_false]
            refine ⟨_, _, _, _, rfl, ?_⟩
            intro ds' hc
            rcases hc with ⟨hc, _⟩ | ⟨_, hset⟩ | ⟨hc, _⟩
            · omega
            · refine ⟨fun _ _ _ => ?_, fun h => absurd rfl h, fun h => absurd rfl h⟩
              rw [setC_opU hset hj r31]
              by_cases hh : f3 = d
              · simp [hh]
              · simp [hh]
            · omega
          · simp only [e1, Nat.reduceEqDiff, false_or, true_or, or_true, or_false, or_self, if_true, if_false]
            refine ⟨_, _, _, _, rfl, ?_⟩
            intro ds' hc
            exfalso
            obtain ⟨s11, s12, s13⟩ := step_facts hv hj h1 h2 (by rw [← hg1]; exact e1)
            rw [← hg1] at s11 s12 s13
            rcases hc with ⟨_, hc, _⟩ | ⟨hc, _⟩ | ⟨hc, _⟩
            · rw [← hc, c4] at s13
              omega
            · omega
            · omega
        · -- a = 4
          obtain ⟨r41, r42, r43⟩ := step_facts hv hj r31 r32 c4
          simp only [c1, c2, c3, c4, Nat.reduceEqDiff, false_or, true_or, or_true, or_false, or_self, if_true, if_false]
          rw [hbw 0 (by omega)]
          simp only [Nat.reduceEqDiff, false_or, true_or, or_true, or_false, or_self, if_true, if_false]
          refine ⟨_, _, _, _, rfl, ?_⟩
          intro ds' hc
          rcases hc with ⟨_, hc, rfl⟩ | ⟨hc, _⟩ | ⟨hc, _⟩
          · -- the 4-cycle closes: f4 = d
            have e1 : g1 = f3 := by rw [hg1, ← hc, r43]
            have e2 : g2 = f2 := by rw [hg2, e1, r33]
            exact ⟨fun _ _ _ => hc, fun _ _ _ => by rw [← hf3, e1], fun _ _ _ => by rw [← hf2, e2]⟩
          · omega
          · omega

/-! ### 3-paths -/

/-- the alternating path x0 -a- x1 -b- x2 -a- x3 exists: all three entries are defined -/
structure Path3 (ds : DSetData) (a b x0 : Nat) : Prop where
  ha : a ≤ ds.dim
  hb : b ≤ ds.dim
  far : absDiff a b > 1
  lo : 1 ≤ x0
  hi : x0 ≤ ds.size
  e1 : ds.opU a x0 ≠ 0
  e2 : ds.opU b (ds.opU a x0) ≠ 0
  e3 : ds.opU a (ds.opU b (ds.opU a x0)) ≠ 0

/-- the fourth entry is defined and leads back to the start -/
def ClosedAt (ds : DSetData) (a b x0 : Nat) : Prop :=
  ds.opU b (ds.opU a (ds.opU b (ds.opU a x0))) = x0

/-- the path runs through the entry (k, h), in either direction -/
def Uses (ds : DSetData) (a b x0 k h : Nat) : Prop :=
  (k = a ∧ (h = x0 ∨ h = ds.opU a x0)) ∨
  (k = b ∧ (h = ds.opU a x0 ∨ h = ds.opU b (ds.opU a x0))) ∨
  (k = a ∧ (h = ds.opU b (ds.opU a x0) ∨ h = ds.opU a (ds.opU b (ds.opU a x0))))

theorem absDiff_self (a : Nat) : absDiff a a = 0 := by simp [absDiff]

theorem absDiff_comm (a b : Nat) : absDiff a b = absDiff b a := by
  unfold absDiff
  split <;> split <;> omega

/-- a 3-path that exists in `ds` is the same path in every extension -/
theorem Path3.ext {ds ds' : DSetData} {a b x0 : Nat} (hp : Path3 ds a b x0) (hx : Ext ds ds') :
    ds'.opU a x0 = ds.opU a x0 ∧
    ds'.opU b (ds.opU a x0) = ds.opU b (ds.opU a x0) ∧
    ds'.opU a (ds.opU b (ds.opU a x0)) = ds.opU a (ds.opU b (ds.opU a x0)) :=
  ⟨hx.opU_keep hp.e1, hx.opU_keep hp.e2, hx.opU_keep hp.e3⟩

theorem Path3.of_ext {ds ds' : DSetData} {a b x0 : Nat} (hp : Path3 ds a b x0) (hx : Ext ds ds') :
    Path3 ds' a b x0 := by
  obtain ⟨h1, h2, h3⟩ := hp.ext hx
  exact ⟨by rw [hx.dim_eq]; exact hp.ha, by rw [hx.dim_eq]; exact hp.hb, hp.far, hp.lo,
    by rw [hx.size_eq]; exact hp.hi, by rw [h1]; exact hp.e1, by rw [h1, h2]; exact hp.e2,
    by rw [h1, h2, h3]; exact hp.e3⟩

theorem ClosedAt.ext {ds ds' : DSetData} {a b x0 : Nat} (hp : Path3 ds a b x0) (hx : Ext ds ds')
    (hc : ClosedAt ds a b x0) : ClosedAt ds' a b x0 := by
  obtain ⟨h1, h2, h3⟩ := hp.ext hx
  unfold ClosedAt at hc ⊢
  rw [h1, h2, h3]
  have hne : ds.opU b (ds.opU a (ds.opU b (ds.opU a x0))) ≠ 0 := by rw [hc]; have := hp.lo; omega
  rw [hx.opU_keep hne]
  exact hc

/-- a 3-path through the entry (i, d) alternating i and j is one of the three windows of
    `scan_windows`, in one of two directions; the window facts close it -/
theorem path_closed_of_windows {ds ds' : DSetData} (hv : ValidPartialSet ds)
    (hv' : ValidPartialSet ds') (hx : Ext ds ds') {i j d : Nat}
    {a b x0 : Nat} (hp : Path3 ds a b x0)
    (hu : Uses ds a b x0 i d) (hpair : (a = i ∧ b = j) ∨ (a = j ∧ b = i))
    (hW : (ds.opU i d ≠ 0 → ds.opU j (ds.opU i d) ≠ 0 → ds.opU i (ds.opU j (ds.opU i d)) ≠ 0 →
            ds'.opU j (ds.opU i (ds.opU j (ds.opU i d))) = d) ∧
          (ds.opU j d ≠ 0 → ds.opU i d ≠ 0 → ds.opU j (ds.opU i d) ≠ 0 →
            ds'.opU i (ds.opU j (ds.opU i d)) = ds.opU j d) ∧
          (ds.opU j d ≠ 0 → ds.opU i (ds.opU j d) ≠ 0 → ds.opU i d ≠ 0 →
            ds'.opU j (ds.opU i d) = ds.opU i (ds.opU j d))) :
    ClosedAt ds' a b x0 := by
  obtain ⟨k1, k2, k3⟩ := hp.ext hx
  unfold ClosedAt
  unfold Uses at hu
  rw [k1, k2, k3]
  have hane : a ≠ b := by
    intro h; have := hp.far; rw [h, absDiff_self] at this; omega
  obtain ⟨p11, p12, p13⟩ := step_facts hv hp.ha hp.lo hp.hi hp.e1
  obtain ⟨p21, p22, p23⟩ := step_facts hv hp.hb p11 p12 hp.e2
  obtain ⟨p31, p32, p33⟩ := step_facts hv hp.ha p21 p22 hp.e3
  have hp1 := hp.e1
  have hp2 := hp.e2
  have hp3 := hp.e3
  -- short names for the vertices
  generalize hx1 : ds.opU a x0 = x1 at *
  generalize hx2 : ds.opU b x1 = x2 at *
  generalize hx3 : ds.opU a x2 = x3 at *
  have hdim' : ds'.dim = ds.dim := hx.dim_eq
  have hsize' : ds'.size = ds.size := hx.size_eq
  have hlo := hp.lo
  -- turning a window fact around with the involution property of ds'
  have turn : ∀ k u v, k ≤ ds.dim → 1 ≤ u → u ≤ ds.size → v ≠ 0 → ds'.opU k u = v →
      ds'.opU k v = u := by
    intro k u v hk hu1 hu2 hv0 huv
    have := hv'.invol k u (by rw [hdim']; exact hk) hu1 (by rw [hsize']; exact hu2)
      (by rw [huv]; exact hv0)
    rw [huv] at this
    exact this
  obtain ⟨W0, W1, W2⟩ := hW
  rcases hu with ⟨hk, hh⟩ | ⟨hk, hh⟩ | ⟨hk, hh⟩
  · -- first edge
    have hab : a = i ∧ b = j := by
      rcases hpair with h | h
      · exact h
      · exact absurd (h.2.trans hk).symm hane
    obtain ⟨hai, hbj⟩ := hab
    rw [← hai, ← hbj] at W0 W2
    rcases hh with hd | hd
    · -- d = x0 : window W0 forwards
      rw [hd, hx1, hx2, hx3] at W0
      exact W0 hp1 hp2 hp3
    · -- d = x1 : window W2 backwards
      rw [hd, p13, hx2, hx3] at W2
      have := W2 hp2 hp3 (by omega)
      exact turn _ _ _ hp.hb hp.lo hp.hi hp3 this
  · -- middle edge
    have hab : a = j ∧ b = i := by
      rcases hpair with h | h
      · exact absurd (h.1.trans hk) hane
      · exact h
    obtain ⟨haj, hbi⟩ := hab
    rw [← haj, ← hbi] at W1
    rcases hh with hd | hd
    · -- d = x1 : window W1 forwards
      rw [hd, p13, hx2, hx3] at W1
      exact W1 (by omega) hp2 hp3
    · -- d = x2 : window W1 backwards
      rw [hd, p23, p13, hx3] at W1
      have := W1 hp3 hp1 (by omega)
      exact turn _ _ _ hp.hb hp.lo hp.hi hp3 this
  · -- last edge
    have hab : a = i ∧ b = j := by
      rcases hpair with h | h
      · exact h
      · exact absurd (h.2.trans hk).symm hane
    obtain ⟨hai, hbj⟩ := hab
    rw [← hai, ← hbj] at W0 W2
    rcases hh with hd | hd
    · -- d = x2 : window W2 forwards
      rw [hd, p23, p13, hx3] at W2
      exact W2 hp1 (by omega) hp3
    · -- d = x3 : window W0 backwards
      rw [hd, p33, p23, p13] at W0
      have := W0 hp2 hp1 (by omega)
      exact turn _ _ _ hp.hb hp.lo hp.hi hp3 this

/-! ### the queue invariant -/

/-- every open 3-path runs through a pending entry -/
def ClosedExcept (ds : DSetData) (q : List (Nat × Nat)) : Prop :=
  ∀ a b x0, Path3 ds a b x0 → ¬ ClosedAt ds a b x0 → ∃ p, p ∈ q ∧ Uses ds a b x0 p.1 p.2

/-- inside the `for j` loop for the popped entry (i, d): an open 3-path runs through a
    pending entry, or through (i, d) with a second index still to be scanned -/
def RowInv (ds : DSetData) (i d : Nat) (q : List (Nat × Nat)) (todo : List Nat) : Prop :=
  ∀ a b x0, Path3 ds a b x0 → ¬ ClosedAt ds a b x0 →
    (∃ p, p ∈ q ∧ Uses ds a b x0 p.1 p.2) ∨
    (Uses ds a b x0 i d ∧ ((a = i ∧ b ∈ todo) ∨ (b = i ∧ a ∈ todo)))

theorem Uses.ext {ds ds' : DSetData} {a b x0 k h : Nat} (hp : Path3 ds a b x0) (hx : Ext ds ds')
    (hu : Uses ds a b x0 k h) : Uses ds' a b x0 k h := by
  obtain ⟨k1, k2, k3⟩ := hp.ext hx
  unfold Uses at hu ⊢
  rw [k1, k2, k3]
  exact hu

/-- an entry that `set(k, h, t)` defined is the entry (k, h) seen from one of its ends -/
theorem new_entry {ds ds1 : DSetData} {k h t : Nat} (hset : setC ds k h t = .ok ds1)
    {c v : Nat} (hc : c ≤ ds.dim) (hv1 : 1 ≤ v) (h0 : ds.opU c v = 0) (h1 : ds1.opU c v ≠ 0) :
    k = c ∧ (h = v ∨ h = ds1.opU c v) := by
  rw [setC_opU hset hc hv1] at h1 ⊢
  split at h1
  · rename_i hh
    rw [if_pos hh]
    exact ⟨hh.1.symm, Or.inr rfl⟩
  · rename_i hh
    rw [if_neg hh]
    split at h1
    · rename_i hh2
      exact ⟨hh2.1.symm, Or.inl hh2.2.symm⟩
    · exact absurd h0 h1

/-- a 3-path that exists after `set(k, h, t)` but not before runs through (k, h) -/
theorem new_path_uses {ds ds1 : DSetData} {k h t : Nat} (hset : setC ds k h t = .ok ds1)
    {a b x0 : Nat} (hp1 : Path3 ds1 a b x0) (hnp : ¬ Path3 ds a b x0) :
    Uses ds1 a b x0 k h := by
  have hx := setC_ext hset
  have hdim : ds1.dim = ds.dim := hx.dim_eq
  have hsize : ds1.size = ds.size := hx.size_eq
  have ha : a ≤ ds.dim := by rw [← hdim]; exact hp1.ha
  have hb : b ≤ ds.dim := by rw [← hdim]; exact hp1.hb
  unfold Uses
  by_cases c1 : ds.opU a x0 = 0
  · exact Or.inl (new_entry hset ha hp1.lo c1 hp1.e1)
  · have k1 := hx.opU_keep c1
    by_cases c2 : ds.opU b (ds.opU a x0) = 0
    · have := new_entry hset hb (Nat.pos_of_ne_zero c1) c2 (by rw [← k1]; exact hp1.e2)
      rw [k1]
      exact Or.inr (Or.inl this)
    · have k2 := hx.opU_keep c2
      by_cases c3 : ds.opU a (ds.opU b (ds.opU a x0)) = 0
      · have := new_entry hset ha (Nat.pos_of_ne_zero c2) c3 (by rw [← k2, ← k1]; exact hp1.e3)
        rw [k1, k2]
        exact Or.inr (Or.inr this)
      · exact absurd ⟨ha, hb, hp1.far, hp1.lo, by rw [← hsize]; exact hp1.hi, c1, c2, c3⟩ hnp

theorem setC_closedExcept {ds ds1 : DSetData} {k h t : Nat} (hc : ClosedExcept ds [])
    (hset : setC ds k h t = .ok ds1) : ClosedExcept ds1 [(k, h)] := by
  intro a b x0 hp1 hnc
  by_cases hp : Path3 ds a b x0
  · exfalso
    by_cases hcl : ClosedAt ds a b x0
    · exact hnc (hcl.ext hp (setC_ext hset))
    · obtain ⟨p, hp', _⟩ := hc a b x0 hp hcl
      cases hp'
  · exact ⟨(k, h), by simp, new_path_uses hset hp1 hp⟩

theorem rowInv_skip {ds : DSetData} {i d j : Nat} {q : List (Nat × Nat)} {js : List Nat}
    (h : RowInv ds i d q (j :: js))
    (hj : ∀ a b x0, Path3 ds a b x0 → Uses ds a b x0 i d → ((a = i ∧ b = j) ∨ (a = j ∧ b = i)) →
      ClosedAt ds a b x0) : RowInv ds i d q js := by
  intro a b x0 hp hnc
  rcases h a b x0 hp hnc with h1 | ⟨hu, h2⟩
  · exact Or.inl h1
  · right
    refine ⟨hu, ?_⟩
    rcases h2 with ⟨rfl, hb⟩ | ⟨rfl, ha⟩
    · rcases List.mem_cons.1 hb with rfl | hb
      · exact absurd (hj _ _ _ hp hu (Or.inl ⟨rfl, rfl⟩)) hnc
      · exact Or.inl ⟨rfl, hb⟩
    · rcases List.mem_cons.1 ha with rfl | ha
      · exact absurd (hj _ _ _ hp hu (Or.inr ⟨rfl, rfl⟩)) hnc
      · exact Or.inr ⟨rfl, ha⟩

theorem rowInv_set {ds ds1 : DSetData} {i d j k h t : Nat} {q : List (Nat × Nat)} {js : List Nat}
    (hr : RowInv ds i d q (j :: js)) (hset : setC ds k h t = .ok ds1)
    (hj : ∀ a b x0, Path3 ds a b x0 → Uses ds a b x0 i d → ((a = i ∧ b = j) ∨ (a = j ∧ b = i)) →
      ClosedAt ds1 a b x0) : RowInv ds1 i d (q ++ [(k, h)]) js := by
  have hx := setC_ext hset
  intro a b x0 hp1 hnc
  by_cases hp : Path3 ds a b x0
  · have hnc0 : ¬ ClosedAt ds a b x0 := fun hcl => hnc (hcl.ext hp hx)
    rcases hr a b x0 hp hnc0 with ⟨p, hp', hu⟩ | ⟨hu, h2⟩
    · exact Or.inl ⟨p, by simp [hp'], hu.ext hp hx⟩
    · right
      refine ⟨hu.ext hp hx, ?_⟩
      rcases h2 with ⟨rfl, hb⟩ | ⟨rfl, ha⟩
      · rcases List.mem_cons.1 hb with rfl | hb
        · exact absurd (hj _ _ _ hp hu (Or.inl ⟨rfl, rfl⟩)) hnc
        · exact Or.inl ⟨rfl, hb⟩
      · rcases List.mem_cons.1 ha with rfl | ha
        · exact absurd (hj _ _ _ hp hu (Or.inr ⟨rfl, rfl⟩)) hnc
        · exact Or.inr ⟨rfl, ha⟩
  · exact Or.inl ⟨(k, h), by simp, new_path_uses hset hp1 hp⟩

theorem implRow_sound (i d : Nat) : ∀ (js : List Nat) (ds : DSetData) (q : List (Nat × Nat)),
    ValidPartialSet ds → i ≤ ds.dim → 1 ≤ d → d ≤ ds.size → (∀ j, j ∈ js → j ≤ ds.dim) →
    RowInv ds i d q js →
    ∀ ds' q', implRow i d js ds q = .ok (some (ds', q')) → ClosedExcept ds' q' := by
  intro js
  induction js with
  | nil =>
    intro ds q _ _ _ _ _ hr ds' q' h
    simp only [implRow] at h
    cases h
    intro a b x0 hp hnc
    rcases hr a b x0 hp hnc with h1 | ⟨_, h2⟩
    · exact h1
    · rcases h2 with ⟨_, h⟩ | ⟨_, h⟩ <;> cases h
  | cons j js ih =>
    intro ds q hv hi h1 h2 hjs hr ds' q' h
    have hj : j ≤ ds.dim := hjs j (by simp)
    have hjs' : ∀ j, j ∈ js → j ≤ ds.dim := fun x hx => hjs x (by simp [hx])
    simp only [implRow] at h
    split at h
    · rename_i hfar
      obtain ⟨head, tail, gap, k, hs, hwin⟩ := scan_windows hv hi hj h1 h2 _ _ _ _ _ rfl rfl rfl rfl rfl
      rw [hs] at h
      simp only at h
      split at h
      · cases h
      · rename_i hnf
        split at h
        · rename_i hg1
          split at h
          · rename_i ds1 hset
            have hv1 := setC_valid hv hset
            have hx1 := setC_ext hset
            have hW := hwin ds1 (Or.inr (Or.inl ⟨hg1, hset⟩))
            have hr1 : RowInv ds1 i d (q ++ [(k, head)]) js :=
              rowInv_set hr hset (fun a b x0 hp hu hpair =>
                path_closed_of_windows hv hv1 hx1 hp hu hpair hW)
            exact ih ds1 _ hv1 (by rw [hx1.dim_eq]; exact hi) h1 (by rw [hx1.size_eq]; exact h2)
              (by rw [hx1.dim_eq]; exact hjs') hr1 ds' q' h
          · cases h
        · rename_i hg1
          have hcase : (gap = 0 ∧ head = tail ∧ ds = ds) ∨ (gap = 1 ∧ setC ds k head tail = .ok ds) ∨
              (2 ≤ gap ∧ ds = ds) := by
            by_cases hg0 : gap = 0
            · left
              refine ⟨hg0, ?_, rfl⟩
              exact Classical.byContradiction fun hne => hnf ⟨hg0, hne⟩
            · right; right; exact ⟨by omega, rfl⟩
          have hW := hwin ds hcase
          have hr1 : RowInv ds i d q js :=
            rowInv_skip hr (fun a b x0 hp hu hpair =>
              path_closed_of_windows hv hv (Ext.refl _) hp hu hpair hW)
          exact ih ds q hv hi h1 h2 hjs' hr1 ds' q' h
    · rename_i hfar
      have hr1 : RowInv ds i d q js := by
        apply rowInv_skip hr
        intro a b x0 hp _ hpair
        exfalso
        have := hp.far
        rcases hpair with ⟨rfl, rfl⟩ | ⟨rfl, rfl⟩
        · exact hfar this
        · rw [absDiff_comm] at this; exact hfar this
      exact ih ds q hv hi h1 h2 hjs' hr1 ds' q' h

theorem implLoop_sound : ∀ (fuel : Nat) (ds : DSetData) (q : List (Nat × Nat)),
    ValidPartialSet ds → QOk ds q → ClosedExcept ds q →
    ∀ ds', implLoop fuel ds q = .ok (some ds') → ClosedExcept ds' [] := by
  intro fuel
  induction fuel with
  | zero =>
    intro ds q _ _ hc ds' h
    cases q with
    | nil => simp only [implLoop] at h; cases h; exact hc
    | cons a q => simp only [implLoop] at h; cases h
  | succ fuel ih =>
    intro ds q hv hq hc ds' h
    cases q with
    | nil => simp only [implLoop] at h; cases h; exact hc
    | cons p q =>
      obtain ⟨i, d⟩ := p
      have hp := hq (i, d) (by simp)
      have hrange : ∀ j, j ∈ List.range (ds.dim + 1) → j ≤ ds.dim := by
        intro j hj; have := List.mem_range.1 hj; omega
      obtain ⟨r, hr, hspec⟩ := implRow_spec i d (List.range (ds.dim + 1)) ds q hv hp.1 hp.2.1 hp.2.2 hrange
      simp only [implLoop] at h
      rw [hr] at h
      cases r with
      | none => cases h
      | some pr =>
        obtain ⟨ds1, q1⟩ := pr
        simp only at h
        obtain ⟨hv1, hx1, nw, hq1, hnw, _⟩ := hspec ds1 q1 rfl
        have hq1ok : QOk ds1 q1 := by
          intro p hp'
          rw [hq1] at hp'
          rw [hx1.dim_eq, hx1.size_eq]
          rcases List.mem_append.1 hp' with hp' | hp'
          · exact hq p (by simp [hp'])
          · exact hnw p hp'
        have hrow : RowInv ds i d q (List.range (ds.dim + 1)) := by
          intro a b x0 hpath hnc
          obtain ⟨p, hp', hu⟩ := hc a b x0 hpath hnc
          rcases List.mem_cons.1 hp' with rfl | hp'
          · right
            refine ⟨hu, ?_⟩
            have hu' := hu
            unfold Uses at hu'
            simp only at hu'
            have ha := hpath.ha
            have hb := hpath.hb
            rcases hu' with ⟨hk, _⟩ | ⟨hk, _⟩ | ⟨hk, _⟩
            · exact Or.inl ⟨hk.symm, List.mem_range.2 (by omega)⟩
            · exact Or.inr ⟨hk.symm, List.mem_range.2 (by omega)⟩
            · exact Or.inl ⟨hk.symm, List.mem_range.2 (by omega)⟩
          · exact Or.inl ⟨p, hp', hu⟩
        have hc1 := implRow_sound i d _ ds q hv hp.1 hp.2.1 hp.2.2 hrange hrow ds1 q1 hr
        exact ih ds1 q1 hv1 hq1ok hc1 ds' h

/-- **implications_sound**: if all 3-paths of `ds` not running through the entry
    (i, d) are closed and `check_and_apply_implications(ds, i, d)` returns true, then
    every 3-path of the resulting set is closed -/
theorem checkImpl_sound {ds ds' : DSetData} (hv : ValidPartialSet ds) {i d : Nat}
    (hi : i ≤ ds.dim) (h1 : 1 ≤ d) (h2 : d ≤ ds.size) (hc : ClosedExcept ds [(i, d)])
    (h : checkImpl ds i d = .ok (some ds')) : ClosedExcept ds' [] :=
  implLoop_sound _ ds [(i, d)] hv
    (by intro p hp; simp at hp; subst hp; exact ⟨hi, h1, h2⟩) hc ds' h

end DSymVerif.DSG
