/-
The zeros on the diagonal left by `diagonalize_in_place` are at the end: once `find_pivot` finds
nothing the remaining block is zero and stays zero.
-/
import DSymVerif.Proofs.InvariantsDiagonal

namespace DSymVerif.Inv

theorem innerLoop_pivot_ne (i n m : Nat) (hin : i < n) (him : i < m) (fuel : Nat) (mat L : Mat)
    (hR : Rect mat n m) (he : get mat i i ≠ 0) (h : innerLoop fuel mat i = some L) :
    get L i i ≠ 0 := by
  induction fuel generalizing mat with
  | zero => unfold innerLoop at h; cases h
  | succ fuel ih =>
    unfold innerLoop at h
    simp only at h
    obtain ⟨r1, e1, _⟩ := clearLaterRows_spec i n m mat hR him he
    obtain ⟨r2, e2, _, _⟩ := clearLaterCols_spec i n m (clearLaterRows mat i).1 r1 hin e1
    split at h
    · injection h with h; subst h; exact e2
    · exact ih _ r2 e2 h

/-- the two ways an outer step can go -/
theorem diagStep_cases (mat M : Mat) (n m i : Nat) (hR : Rect mat n m) (hin : i < n) (him : i < m)
    (h : diagStep mat i = some M) :
    (get mat (findPivot mat i).1 (findPivot mat i).2 ≠ 0 ∧ get M i i ≠ 0) ∨
    (get mat (findPivot mat i).1 (findPivot mat i).2 = 0 ∧
      M = set mat i i ((get mat i i).natAbs : Int)) := by
  unfold diagStep at h
  simp only at h
  obtain ⟨hb1, hb2⟩ := findPivot_bounds mat i n m hR.nrows (hR.ncols (by omega)) hin him
  by_cases hp : get mat (findPivot mat i).1 (findPivot mat i).2 ≠ 0
  · left
    rw [if_pos hp] at h
    obtain ⟨hR', hg⟩ := movePivot_spec mat n m i (findPivot mat i).1 (findPivot mat i).2 hR hin him hb1 hb2
    have he : get (movePivot mat i ((findPivot mat i).1, (findPivot mat i).2)) i i ≠ 0 := by
      rw [hg]; exact hp
    rw [show (findPivot mat i) = ((findPivot mat i).1, (findPivot mat i).2) from rfl] at h
    split at h
    · rename_i L hL
      injection h with h; subst h
      obtain ⟨L', hL', hRL⟩ := innerLoop_fuel i n m hin him _ _ hR' he (Nat.lt_succ_self _)
      rw [hL] at hL'; injection hL' with hL'; subst hL'
      have hne := innerLoop_pivot_ne i n m hin him _ _ L hR' he hL
      refine ⟨hp, ?_⟩
      rw [get_set_self L n m i _ hRL hin him]
      omega
    · cases h
  · right
    rw [if_neg hp] at h
    simp only at h
    injection h with h
    exact ⟨by by_contra hne; exact hp hne, h.symm⟩

/-- the block of rows and columns `≥ s` is zero -/
def Block (mat : Mat) (n m s : Nat) : Prop :=
  ∀ k c, s ≤ k → k < n → s ≤ c → c < m → get mat k c = 0

theorem diagStep_block (mat M : Mat) (n m s0 s : Nat) (hR : Rect mat n m) (hs : s0 ≤ s) (hin : s < n)
    (him : s < m) (hB : Block mat n m s0) (h : diagStep mat s = some M) : Block M n m s0 := by
  obtain ⟨hl1, hl2⟩ := findPivot_lower mat s
  obtain ⟨hb1, hb2⟩ := findPivot_bounds mat s n m hR.nrows (hR.ncols (by omega)) hin him
  rcases diagStep_cases mat M n m s hR hin him h with ⟨hp, _⟩ | ⟨_, hM⟩
  · exact absurd (hB _ _ (by omega) hb1 (by omega) hb2) hp
  · subst hM
    intro k c hk hkn hc hcm
    by_cases hkc : k = s ∧ c = s
    · rw [hkc.1, hkc.2, get_set_self mat n m s _ hR hin him, hB s s hs hin hs him]; rfl
    · rw [get_set_ne _ _ _ _ _ _ (by omega)]; exact hB k c hk hkn hc hcm

theorem diagFrom_block (n m s0 len s : Nat) (mat D : Mat) (hR : Rect mat n m) (hs0 : s0 ≤ s)
    (hs : s + len ≤ n ∧ s + len ≤ m) (hB : Block mat n m s0)
    (h : diagFrom (List.range' s len) mat = some D) : Block D n m s0 := by
  induction len generalizing s mat with
  | zero =>
    simp only [List.range'_zero] at h
    unfold diagFrom at h
    injection h with h; subst h; exact hB
  | succ len ih =>
    rw [List.range'_succ] at h
    unfold diagFrom at h
    split at h
    · rename_i M hM
      obtain ⟨M', hM', hRM⟩ := diagStep_some mat n m s hR (by omega) (by omega)
      rw [hM] at hM'; injection hM' with hM'; subst hM'
      exact ih (s + 1) M hRM (by omega) (by omega)
        (diagStep_block mat M n m s0 s hR hs0 (by omega) (by omega) hB hM) h
    · cases h

theorem diagFrom_frame (n m len s : Nat) (mat D : Mat) (hR : Rect mat n m)
    (hs : s + len ≤ n ∧ s + len ≤ m) (h : diagFrom (List.range' s len) mat = some D) :
    ∀ k, k < s → get D k k = get mat k k := by
  induction len generalizing s mat with
  | zero =>
    simp only [List.range'_zero] at h
    unfold diagFrom at h
    injection h with h; subst h; intro k _; rfl
  | succ len ih =>
    rw [List.range'_succ] at h
    unfold diagFrom at h
    split at h
    · rename_i M hM
      obtain ⟨M', hM', hRM⟩ := diagStep_some mat n m s hR (by omega) (by omega)
      rw [hM] at hM'; injection hM' with hM'; subst hM'
      obtain ⟨d1, _⟩ := diagStep_diag mat M n m s hR (by omega) (by omega) hM
      intro k hk
      rw [ih (s + 1) M hRM (by omega) h k (by omega), d1 k hk]
    · cases h

theorem diagFrom_tail (n m len s : Nat) (mat D : Mat) (hR : Rect mat n m)
    (hs : s + len ≤ n ∧ s + len ≤ m)
    (h : diagFrom (List.range' s len) mat = some D) :
    ∀ i j, s ≤ i → i < j → j < s + len → get D i i = 0 → get D j j = 0 := by
  induction len generalizing s mat with
  | zero => intro i j _ _ _; omega
  | succ len ih =>
    rw [List.range'_succ] at h
    unfold diagFrom at h
    split at h
    · rename_i M hM
      obtain ⟨M', hM', hRM⟩ := diagStep_some mat n m s hR (by omega) (by omega)
      rw [hM] at hM'; injection hM' with hM'; subst hM'
      intro i j hsi hij hj h0
      by_cases his : i = s
      · subst his
        have hfr := diagFrom_frame n m len (i + 1) M D hRM (by omega) h i (by omega)
        rcases diagStep_cases mat M n m i hR (by omega) (by omega) hM with ⟨_, hne⟩ | ⟨hz, _⟩
        · rw [hfr] at h0; exact absurd h0 hne
        · -- nothing found: the block is zero and stays zero
          have hzz := findPivot_zero mat i n m hR.nrows (hR.ncols (by omega)) hz
          have hB : Block mat n m i := hzz
          have hBM := diagStep_block mat M n m i i hR (Nat.le_refl _) (by omega) (by omega) hB hM
          have hBD := diagFrom_block n m i len (i + 1) M D hRM (by omega) (by omega) hBM h
          exact hBD j j (by omega) (by omega) (by omega) (by omega)
      · exact ih (s + 1) M hRM (by omega) h i j (by omega) hij (by omega) h0
    · cases h

/-- zeros of the diagonal of the diagonalised matrix are trailing -/
theorem diagonalize_tail (mat D : Mat) (n m : Nat) (hR : Rect mat n m) (hn : 0 < n)
    (h : diagonalize mat = some D) :
    ∀ i j, i < j → j < min n m → get D i i = 0 → get D j j = 0 := by
  unfold diagonalize at h
  rw [hR.nrows, hR.ncols hn, List.range_eq_range'] at h
  intro i j hij hj h0
  exact diagFrom_tail n m (min n m) 0 mat D hR (by omega) h i j (Nat.zero_le _) hij (by omega) h0

end DSymVerif.Inv
