/-
Products of cyclic groups indexed by a list of natural numbers:
`ZL L = Π j : Fin L.length, ZMod (L.get j)`  (`ZMod 0 = ℤ`, `ZMod 1` trivial).
Isomorphic for permuted lists, unchanged by dropping entries `1`.
-/
import Mathlib.Data.ZMod.Basic
import Mathlib.Algebra.Group.Equiv.Basic
import Mathlib.Data.List.OfFn

namespace DSymVerif.Inv

/-- the product of the cyclic groups `ZMod d`, `d ∈ L` -/
abbrev ZL (L : List ℕ) : Type := (j : Fin L.length) → ZMod (L.get j)

/-- `Π_{i < n+1} α i ≃ α 0 × Π_{i < n} α (i+1)` for additive groups -/
def piFinSuccAdd {n : ℕ} (α : Fin (n + 1) → Type) [∀ i, AddCommGroup (α i)] :
    ((i : Fin (n + 1)) → α i) ≃+ (α 0 × ((i : Fin n) → α i.succ)) where
  toFun f := (f 0, fun i => f i.succ)
  invFun p := Fin.cons p.1 p.2
  left_inv f := by
    funext i
    refine Fin.cases ?_ (fun j => ?_) i <;> simp
  right_inv p := by
    ext <;> simp
  map_add' f g := rfl

theorem ZL_cons (x : ℕ) (L : List ℕ) : Nonempty (ZL (x :: L) ≃+ (ZMod x × ZL L)) :=
  ⟨piFinSuccAdd (fun j : Fin (L.length + 1) => ZMod ((x :: L).get j))⟩

theorem ZL_cons_congr (x : ℕ) {L L' : List ℕ} (h : Nonempty (ZL L ≃+ ZL L')) :
    Nonempty (ZL (x :: L) ≃+ ZL (x :: L')) := by
  obtain ⟨e⟩ := h
  obtain ⟨e1⟩ := ZL_cons x L
  obtain ⟨e2⟩ := ZL_cons x L'
  exact ⟨e1.trans ((AddEquiv.prodCongr (AddEquiv.refl _) e).trans e2.symm)⟩

theorem ZL_perm {L L' : List ℕ} (h : L.Perm L') : Nonempty (ZL L ≃+ ZL L') := by
  induction h with
  | nil => exact ⟨AddEquiv.refl _⟩
  | cons x _ ih => exact ZL_cons_congr x ih
  | swap x y L =>
    obtain ⟨e1⟩ := ZL_cons y (x :: L)
    obtain ⟨e2⟩ := ZL_cons x L
    obtain ⟨e3⟩ := ZL_cons x (y :: L)
    obtain ⟨e4⟩ := ZL_cons y L
    refine ⟨e1.trans ((AddEquiv.prodCongr (AddEquiv.refl _) e2).trans ?_)⟩
    refine AddEquiv.trans ?_ (e3.trans (AddEquiv.prodCongr (AddEquiv.refl _) e4)).symm
    exact (AddEquiv.prodAssoc.symm.trans ((AddEquiv.prodCongr AddEquiv.prodComm (AddEquiv.refl _)).trans
      AddEquiv.prodAssoc))
  | trans _ _ ih1 ih2 =>
    obtain ⟨e1⟩ := ih1
    obtain ⟨e2⟩ := ih2
    exact ⟨e1.trans e2⟩

theorem ZL_filter (L : List ℕ) : Nonempty (ZL (L.filter (· ≠ 1)) ≃+ ZL L) := by
  induction L with
  | nil => exact ⟨AddEquiv.refl _⟩
  | cons x L ih =>
    by_cases hx : x = 1
    · subst hx
      have : (1 :: L).filter (· ≠ 1) = L.filter (· ≠ 1) := by simp
      rw [this]
      obtain ⟨e⟩ := ih
      obtain ⟨e1⟩ := ZL_cons 1 L
      haveI : Unique (ZMod 1) := inferInstanceAs (Unique (Fin 1))
      exact ⟨e.trans ((AddEquiv.uniqueProd : ZMod 1 × ZL L ≃+ ZL L).symm.trans e1.symm)⟩
    · have : (x :: L).filter (· ≠ 1) = x :: L.filter (· ≠ 1) := by simp [hx]
      rw [this]
      exact ZL_cons_congr x ih

theorem ZL_ofFn {n : ℕ} (δ : Fin n → ℕ) :
    Nonempty (((i : Fin n) → ZMod (δ i)) ≃+ ZL (List.ofFn δ)) := by
  induction n with
  | zero =>
    rw [List.ofFn_zero]
    exact ⟨{ toFun := fun _ j => j.elim0, invFun := fun _ i => i.elim0,
             left_inv := fun f => by funext i; exact i.elim0,
             right_inv := fun f => by funext j; exact j.elim0,
             map_add' := fun f g => by funext j; exact j.elim0 }⟩
  | succ n ih =>
    rw [List.ofFn_succ]
    obtain ⟨e⟩ := ih (fun i => δ i.succ)
    obtain ⟨e1⟩ := ZL_cons (δ 0) (List.ofFn fun i => δ i.succ)
    exact ⟨(piFinSuccAdd (fun i => ZMod (δ i))).trans
      ((AddEquiv.prodCongr (AddEquiv.refl _) e).trans e1.symm)⟩

theorem ZL_replicate_zero (k : ℕ) : Nonempty (ZL (List.replicate k 0) ≃+ (Fin k → ℤ)) := by
  induction k with
  | zero =>
    exact ⟨{ toFun := fun _ j => j.elim0, invFun := fun _ i => i.elim0,
             left_inv := fun f => by funext i; exact i.elim0,
             right_inv := fun f => by funext j; exact j.elim0,
             map_add' := fun f g => by funext j; exact j.elim0 }⟩
  | succ k ih =>
    rw [List.replicate_succ]
    obtain ⟨e⟩ := ih
    obtain ⟨e1⟩ := ZL_cons 0 (List.replicate k 0)
    exact ⟨e1.trans ((AddEquiv.prodCongr (AddEquiv.refl ℤ) e).trans
      (piFinSuccAdd (fun _ : Fin (k + 1) => ℤ)).symm)⟩

end DSymVerif.Inv
