/-
Property C05, π1 of a cover, part 7: the covering-space correspondence for table covers.

* `MCover.of_ops`: a covering whose operations are `op_i(sz·k + b) = sz·τ(b,i)(k) + op_i b` for the
  monodromy `τ` of a representation `ρ` is a monodromy cover;
* `cover_group_embeds_at`: for a transitive `ρ` the base sheet may be chosen;
* `cover_group_iso_stabiliser`: the textbook group of the cover of a valid coset table is
  isomorphic to the stabiliser of row 0 under the monodromy representation `rhoT`, by the
  homomorphism induced by the projection;
* `finiteUniversalCover_simply_connected`: the textbook group of the finite universal cover is
  trivial, hence so is the group `fundamental_group` returns for it.
-/
import DSymVerif.Proofs.CoversPi1Main
import DSymVerif.Proofs.CoversWired
import DSymVerif.Proofs.CoversUniversal
import DSymVerif.Proofs.CoversPi1Reindex

namespace DSymVerif.CoversP
open DSymVerif DSymVerif.DS DSymVerif.FG DSymVerif.FGP DSymVerif.Cosets DSymVerif.SpecC11
open DSymVerif.CosetP DSymVerif.Covers DSymVerif.LowIndexP

section
variable {ds c : DSymData} {n : Nat} {ρ : TGroup ds →* Equiv.Perm (Fin n)}

/-- the sheet map of a representation -/
noncomputable def sigOf (ρ : TGroup ds →* Equiv.Perm (Fin n)) (k i b : Nat) : Nat :=
  if h : k < n then (tau ρ b i ⟨k, h⟩).val else 0

theorem agrees_sigOf : Agrees ρ (sigOf ρ) := by
  intro k i d hk _ _ _
  unfold sigOf
  rw [dif_pos hk]

/-- a covering with the operations of the monodromy of `ρ` is a monodromy cover -/
theorem MCover.of_ops (hs : ValidSym ds) (hsz : 1 ≤ ds.size) (hdim : 1 ≤ ds.dim)
    (cov : IsCoverOf ds c n)
    (hops : ∀ i b (k : Fin n), i ≤ ds.dim → 1 ≤ b → b ≤ ds.size →
      c.dset.opU i (ds.size * k.val + b) = ds.size * (tau ρ b i k).val + ds.dset.opU i b) :
    MCover ds c n ρ (sigOf ρ) := by
  refine ⟨hs, hsz, hdim, agrees_sigOf, cov, ?_⟩
  intro i d hi h1 h2
  have hk := csheet_lt hsz h1 h2
  have hb := cproj_range (d := d) hsz
  have hd : ds.size * csheet ds.size d + cproj ds.size d = d := cdecomp hsz h1
  have h3 := hops i (cproj ds.size d) ⟨csheet ds.size d, hk⟩ hi hb.1 hb.2
  have hmk : coverF ds.dset (sigOf ρ) i (ds.size * csheet ds.size d + cproj ds.size d) =
      ds.size * sigOf ρ (csheet ds.size d) i (cproj ds.size d) + ds.dset.opU i (cproj ds.size d) :=
    coverF_mk (s := ds.dset) hb.1 hb.2
  simp only at h3
  rw [hd] at h3 hmk
  rw [h3, hmk]
  unfold sigOf
  rw [dif_pos hk]

/-- the correspondence at a chosen sheet of a transitive representation -/
theorem cover_group_embeds_at {σ : Nat → Nat → Nat → Nat} (M : MCover ds c n ρ σ)
    (hconn : ds.view.isConnected = true) (k1 : Fin n) (htrans : ∀ k : Fin n, ∃ g, ρ g k1 = k) :
    ∃ (φ : TGroup c →* TGroup ds) (q : Nat → TGroup ds),
      (∀ x i, FacetR c x i → φ (xT c x i) = q x * xT ds (cproj ds.size x) i * (q (c.dset.opU i x))⁻¹) ∧
      Function.Injective φ ∧
      ∀ g, g ∈ φ.range ↔ ρ g k1 = k1 := by
  obtain ⟨φ, k0, q, hgen, hinj, hrange⟩ := cover_group_embeds M hconn
  obtain ⟨h, hh⟩ := htrans k0
  have hh' : (ρ h)⁻¹ k0 = k1 := by rw [Equiv.Perm.inv_eq_iff_eq]; exact hh.symm
  refine ⟨(MulAut.conj h⁻¹).toMonoidHom.comp φ, fun x => h⁻¹ * q x, ?_, ?_, ?_⟩
  · intro x i hx
    show MulAut.conj h⁻¹ (φ (xT c x i)) = _
    rw [hgen x i hx, MulAut.conj_apply]
    group
  · intro a b hab
    apply hinj
    exact (MulAut.conj h⁻¹).injective hab
  · intro g
    have key : g ∈ ((MulAut.conj h⁻¹).toMonoidHom.comp φ).range ↔ h * g * h⁻¹ ∈ φ.range := by
      constructor
      · rintro ⟨y, rfl⟩
        refine ⟨y, ?_⟩
        show φ y = h * (MulAut.conj h⁻¹ (φ y)) * h⁻¹
        rw [MulAut.conj_apply]
        group
      · rintro ⟨y, hy⟩
        refine ⟨y, ?_⟩
        show MulAut.conj h⁻¹ (φ y) = g
        rw [hy, MulAut.conj_apply]
        group
    rw [key, hrange]
    rw [map_mul, map_mul, map_inv, Equiv.Perm.mul_apply, Equiv.Perm.mul_apply, hh']
    constructor
    · intro e
      have : ρ h (ρ g k1) = ρ h k1 := by rw [e, hh]
      exact (ρ h).injective this
    · intro e
      rw [e, hh]

end

/-- **the covering-space correspondence for table covers** (`cover_group_iso_stabiliser`): let
    `ds` be a connected valid symbol of dimension ≥ 1, `tab` a valid transitive coset table of the
    presentation `fundamental_group(ds)` returns, and `c` a covering of `ds` with the operations of
    the table (`TableOps`: what `cover_for_table` builds).  The textbook group of `ds` acts on the
    rows by the monodromy representation `rhoT`.  Then the projection induces an **injective**
    homomorphism `φ : TGroup c →* TGroup ds` — the generator of facet `(x,i)` of `c` goes to
    `q(x) · x(π x, i) · q(op_i x)⁻¹`, a conjugate of the generator of the projected facet — whose
    **range is the stabiliser of row 0**. -/
theorem cover_group_iso_stabiliser {ds c : DSymData} (hs : ValidSym ds) (hsz : 1 ≤ ds.size)
    (hdim : 1 ≤ ds.dim) (hconn : ds.view.isConnected = true) {f : FundGroup}
    (hf : fundamentalGroup ds = .ok f) {tab : Tab} {subs : List (List Int)}
    (hv : Valid tab f.nrGenerators f.relators subs) (cov : IsCoverOf ds c tab.size)
    (hops : TableOps ds c f.edgeToWord tab f.nrGenerators) :
    ∃ (φ : TGroup c →* TGroup ds) (q : Nat → TGroup ds),
      (∀ x i, FacetR c x i → φ (xT c x i) = q x * xT ds (cproj ds.size x) i * (q (c.dset.opU i x))⁻¹) ∧
      Function.Injective φ ∧
      φ.range = (MulAction.stabilizer (Equiv.Perm (Fin tab.size)) (⟨0, hv.pos⟩ : Fin tab.size)).comap
        (rhoT hs hdim hf hv) := by
  have M : MCover ds c tab.size (rhoT hs hdim hf hv) (sigOf (rhoT hs hdim hf hv)) := by
    apply MCover.of_ops hs hsz hdim cov
    intro i b k hi h1 h2
    obtain ⟨r, htr, hop⟩ := hops i b k.val hi h1 h2 k.isLt
    rw [hop, tau_rhoT hs hdim hf hv hi h1 h2 k htr]
  obtain ⟨φ, q, hgen, hinj, hrange⟩ := cover_group_embeds_at M hconn ⟨0, hv.pos⟩
    (rhoT_transitive hs hdim hf hv)
  refine ⟨φ, q, hgen, hinj, ?_⟩
  ext g
  rw [hrange g, Subgroup.mem_comap, MulAction.mem_stabilizer_iff, Equiv.Perm.smul_def]

/-- the same for the cover `derived::cover` builds from any sheet map that agrees with the
    monodromy representation (the form in which C15 meets `cover_for_table`) -/
theorem cover_group_iso_stabiliser_mono {ds c : DSymData} (hs : ValidSym ds) (hsz : 1 ≤ ds.size)
    (hdim : 1 ≤ ds.dim) (hconn : ds.view.isConnected = true) {f : FundGroup}
    (hf : fundamentalGroup ds = .ok f) {tab : Tab} {subs : List (List Int)}
    (hv : Valid tab f.nrGenerators f.relators subs) {σ : Nat → Nat → Nat → Nat}
    (hσ : Agrees (rhoT hs hdim hf hv) σ) (hc : cover ds tab.size σ = .ok c) :
    IsCoverOf ds c tab.size ∧
    ∃ (φ : TGroup c →* TGroup ds) (q : Nat → TGroup ds),
      (∀ x i, FacetR c x i → φ (xT c x i) = q x * xT ds (cproj ds.size x) i * (q (c.dset.opU i x))⁻¹) ∧
      Function.Injective φ ∧
      φ.range = (MulAction.stabilizer (Equiv.Perm (Fin tab.size)) (⟨0, hv.pos⟩ : Fin tab.size)).comap
        (rhoT hs hdim hf hv) := by
  obtain ⟨c', hc', hsize, hdim', hvc, hop, hdeg, hcomp⟩ := mono_cover_ok hs hsz hdim hv.pos hσ
  rw [hc] at hc'
  cases hc'
  have cov : IsCoverOf ds c tab.size := by
    refine ⟨hv.pos, hsize, hdim', hvc, ?_, hdeg, hcomp, ?_⟩
    · intro i d hi h1 h2
      rw [hop i d hi h1 h2]
      exact cproj_coverF hs.set hsz hi
    · intro hcn
      exact mono_cover_connected hs.set hsz hcn hv.pos (rhoT_transitive hs hdim hf hv) hσ hvc.set
        hsize hdim' hop
  have M : MCover ds c tab.size (rhoT hs hdim hf hv) σ := ⟨hs, hsz, hdim, hσ, cov, hop⟩
  obtain ⟨φ, q, hgen, hinj, hrange⟩ := cover_group_embeds_at M hconn ⟨0, hv.pos⟩
    (rhoT_transitive hs hdim hf hv)
  refine ⟨cov, φ, q, hgen, hinj, ?_⟩
  ext g
  rw [hrange g, Subgroup.mem_comap, MulAction.mem_stabilizer_iff, Equiv.Perm.smul_def]

/-- the correspondence as an isomorphism of groups -/
theorem cover_group_mulEquiv_stabiliser {ds c : DSymData} (hs : ValidSym ds) (hsz : 1 ≤ ds.size)
    (hdim : 1 ≤ ds.dim) (hconn : ds.view.isConnected = true) {f : FundGroup}
    (hf : fundamentalGroup ds = .ok f) {tab : Tab} {subs : List (List Int)}
    (hv : Valid tab f.nrGenerators f.relators subs) (cov : IsCoverOf ds c tab.size)
    (hops : TableOps ds c f.edgeToWord tab f.nrGenerators) :
    Nonempty (TGroup c ≃*
      ((MulAction.stabilizer (Equiv.Perm (Fin tab.size)) (⟨0, hv.pos⟩ : Fin tab.size)).comap
        (rhoT hs hdim hf hv))) := by
  obtain ⟨φ, _, _, hinj, hrange⟩ := cover_group_iso_stabiliser hs hsz hdim hconn hf hv cov hops
  exact ⟨(MonoidHom.ofInjective hinj).trans (MulEquiv.subgroupCongr hrange)⟩

/-- the stabiliser of row 0 in the textbook group is trivial if it is in the returned presentation -/
theorem rhoT_stab_trivial {ds : DSymData} (hs : ValidSym ds) (hdim : 1 ≤ ds.dim) {f : FundGroup}
    (hf : fundamentalGroup ds = .ok f) {tab : Tab} {subs : List (List Int)}
    (hv : Valid tab f.nrGenerators f.relators subs) (hbot : stab0 hv = ⊥) (g : TGroup ds)
    (hg : rhoT hs hdim hf hv g ⟨0, hv.pos⟩ = ⟨0, hv.pos⟩) : g = 1 := by
  have hlet := (fundamentalGroup_letters ds f hf).1
  unfold rhoT at hg
  rw [MonoidHom.comp_apply] at hg
  have hg' : rhoM hv (presIso hs hdim hf g) ⟨0, hv.pos⟩ = ⟨0, hv.pos⟩ := hg
  rw [← homUp_homDown_apply hlet (presIso hs hdim hf g), rhoM_homUp_apply hlet hv] at hg'
  have hmem : homDown f.nrGenerators f.relators (presIso hs hdim hf g) ∈ stab0 hv :=
    (mem_stab0 hv _).2 hg'
  rw [hbot, Subgroup.mem_bot] at hmem
  have h1 : presIso hs hdim hf g = 1 := by
    rw [← homUp_homDown_apply hlet (presIso hs hdim hf g), hmem, map_one]
  exact (presIso hs hdim hf).injective (by rw [h1, map_one])

/-- **the finite universal cover is simply connected**: whenever the model of
    `finite_universal_cover(ds)` returns `c` for a connected valid symbol, the textbook orbifold
    group of `c` is trivial, and so is the group `fundamental_group(c)` presents -/
theorem finiteUniversalCover_simply_connected {ds : DSymData} (hs : ValidSym ds) (hsz : 1 ≤ ds.size)
    (hdim : 1 ≤ ds.dim) (hconn : ds.view.isConnected = true) {c : DSymData}
    (hc : finiteUniversalCover ds = .ok c) :
    (∀ x : TGroup c, x = 1) ∧
      ∃ fc, fundamentalGroup c = .ok fc ∧ ∀ y : MGroup fc, y = 1 := by
  obtain ⟨f, t, v, hv, hf, _, _, cov, hops, hbot, _⟩ := finiteUniversalCover_trivial_subgroup hs hsz hdim hc
  obtain ⟨φ, _, _, hinj, hrange⟩ := cover_group_iso_stabiliser hs hsz hdim hconn hf hv cov hops
  have htriv : ∀ x : TGroup c, x = 1 := by
    intro x
    apply hinj
    rw [map_one]
    have hx : φ x ∈ φ.range := ⟨x, rfl⟩
    rw [hrange, Subgroup.mem_comap, MulAction.mem_stabilizer_iff, Equiv.Perm.smul_def] at hx
    exact rhoT_stab_trivial hs hdim hf hv hbot _ hx
  refine ⟨htriv, ?_⟩
  have hdimc : 1 ≤ c.dim := by rw [cov.dim]; exact hdim
  obtain ⟨fc, hfc⟩ := fundamentalGroup_ok cov.valid
  refine ⟨fc, hfc, ?_⟩
  intro y
  have := htriv ((presIso cov.valid hdimc hfc).symm y)
  have h2 := congrArg (presIso cov.valid hdimc hfc) this
  rw [MulEquiv.apply_symm_apply, map_one] at h2
  exact h2

/-- every entry of `covers(ds, k)`: its textbook group embeds in that of `ds` with range the
    stabiliser of row 0 of its table -/
theorem covers_groups {ds : DSymData} (hs : ValidSym ds) (hsz : 1 ≤ ds.size) (hdim : 1 ≤ ds.dim)
    (hconn : ds.view.isConnected = true) (k fuel : Nat) :
    ∃ (f : FundGroup) (hf : fundamentalGroup ds = .ok f),
      ((BT.dfs (btProblem f.nrGenerators (expandedRelatorSet f.relators) k) (height k)
          (.ok (Cosets.Table.new f.nrGenerators))).length ≤ fuel →
        ∃ cs, Covers.covers ds k fuel = .ok cs ∧
          List.Forall₂ (fun x c => ∃ (t : Cosets.Table) (v : List (List Int))
              (hv : Valid (CosetInvP.viewTab v) f.nrGenerators f.relators []),
              x = Outcome.ok t ∧ t.view = .ok v ∧ coverForTableC ds t f.edgeToWord = .ok c ∧
              ∃ φ : TGroup c →* TGroup ds, Function.Injective φ ∧
                φ.range = (MulAction.stabilizer (Equiv.Perm (Fin (CosetInvP.viewTab v).size))
                    (⟨0, hv.pos⟩ : Fin (CosetInvP.viewTab v).size)).comap (rhoT hs hdim hf hv))
            (cosetTables f.nrGenerators f.relators k fuel) cs) := by
  obtain ⟨f, hf, h⟩ := covers_classes hs hsz hdim k fuel
  refine ⟨f, hf, fun hfuel => ?_⟩
  obtain ⟨cs, hcs, hall, _, _⟩ := h hfuel
  refine ⟨cs, hcs, hall.imp ?_⟩
  rintro x c ⟨t, v, hv, hx, hview, hc, hcov, hops, _, _⟩
  obtain ⟨φ, _, _, hinj, hrange⟩ := cover_group_iso_stabiliser hs hsz hdim hconn hf hv hcov hops
  exact ⟨t, v, hv, hx, hview, hc, φ, hinj, hrange⟩

end DSymVerif.CoversP
