/-
Helper definitions and lemmas for property C02, part 1: well-formedness predicates for
the model data (`ValidSet`, `ValidSym`), the out-of-range behaviour of every query and
the literal equality of the `PartialDSym` / `SimpleDSym` overrides.
-/
import DSymVerif.Model.DSym
import DSymVerif.Spec.C02

namespace DSymVerif.DS

/-! ### well-formedness -/

/-- chamber `d` and index `i` are in range for a D-set of the given size and dimension -/
def InR (size dim i d : Nat) : Prop := i ≤ dim ∧ 1 ≤ d ∧ d ≤ size

/-- a complete D-set stored in a `DSetData`: the table has the right length, every
    in-range entry is a chamber (never 0 = undefined), every operation is an involution -/
structure ValidSet (s : DSetData) : Prop where
  size_eq : s.op.size = s.size * (s.dim + 1)
  range : ∀ i d, i ≤ s.dim → 1 ≤ d → d ≤ s.size → 1 ≤ s.opU i d ∧ s.opU i d ≤ s.size
  invol : ∀ i d, i ≤ s.dim → 1 ≤ d → d ≤ s.size → s.opU i (s.opU i d) = d

/-- a possibly incomplete D-set (`PartialDSet`): entries are chambers or 0, and defined
    entries are undone by the same operation -/
structure ValidPartialSet (s : DSetData) : Prop where
  size_eq : s.op.size = s.size * (s.dim + 1)
  range : ∀ i d, i ≤ s.dim → 1 ≤ d → d ≤ s.size → s.opU i d ≤ s.size
  invol : ∀ i d, i ≤ s.dim → 1 ≤ d → d ≤ s.size → s.opU i d ≠ 0 → s.opU i (s.opU i d) = d

theorem ValidSet.toPartial {s : DSetData} (h : ValidSet s) : ValidPartialSet s :=
  ⟨h.size_eq, fun i d hi h1 h2 => (h.range i d hi h1 h2).2, fun i d hi h1 h2 _ => h.invol i d hi h1 h2⟩

/-- operations whose indices differ by more than one commute (the D-symbol axiom m_ij = 2) -/
def FarCommute (s : DSetData) : Prop :=
  ∀ i j d, i + 1 < j → j ≤ s.dim → 1 ≤ d → d ≤ s.size →
    s.opU j (s.opU i d) = s.opU i (s.opU j d)

/-- symbol data whose orbit tables are the ones `collect_orbits` computes for the stored complete
    D-set, with one branching entry per orbit (no commutation assumption: this is what e.g. a cover
    built from an arbitrary sheet map satisfies) -/
structure ValidTables (s : DSymData) : Prop where
  set : ValidSet s.dset
  index_eq : s.orbitIndex = (collectOrbits s.dset).index
  rs_eq : s.orbitRs = (collectOrbits s.dset).rs
  vs_size : s.orbitVs.size = s.orbitRs.size

/-- a D-symbol as the library builds it: valid tables and commuting far operations -/
structure ValidSym (s : DSymData) : Prop extends ValidTables s where
  far : FarCommute s.dset

theorem ValidTables.ofSimple {ds : DSetData} (h : ValidSet ds) : ValidTables (DSymData.ofSimple ds) :=
  ⟨h, rfl, rfl, by simp [DSymData.ofSimple]⟩

theorem ValidSym.ofSimple {ds : DSetData} (h : ValidSet ds) (hf : FarCommute ds) :
    ValidSym (DSymData.ofSimple ds) :=
  ⟨ValidTables.ofSimple h, hf⟩

theorem ValidTables.setV {s t : DSymData} (h : ValidTables s) {i d v : Nat} (ht : s.setV i d v = .ok t) :
    ValidTables t ∧ t.dset = s.dset := by
  unfold DSymData.setV at ht
  split at ht
  · cases ht
  · split at ht
    · split at ht
      · cases ht
        exact ⟨⟨h.set, h.index_eq, h.rs_eq, by simpa using h.vs_size⟩, rfl⟩
      · cases ht
    · cases ht
    · cases ht

theorem ValidSym.setV {s t : DSymData} (h : ValidSym s) {i d v : Nat} (ht : s.setV i d v = .ok t) :
    ValidSym t := by
  obtain ⟨h1, h2⟩ := h.toValidTables.setV ht
  exact ⟨h1, by rw [h2]; exact h.far⟩

/-! ### out-of-range arguments -/

theorem opPartial_oor (s : DSetData) (i d : Nat) (h : i > s.dim ∨ d < 1 ∨ d > s.size) :
    s.opPartial i d = none := by
  unfold DSetData.opPartial
  rw [if_pos]
  simp only [Bool.or_eq_true, decide_eq_true_eq]
  omega

theorem opSimple_oor (s : DSetData) (i d : Nat) (h : i > s.dim ∨ d < 1 ∨ d > s.size) :
    s.opSimple i d = none := by
  unfold DSetData.opSimple
  rw [if_pos]
  simp only [Bool.or_eq_true, decide_eq_true_eq]
  omega

theorem View.r_oor (s : View) (i j d : Nat) (h : i > s.dim ∨ j > s.dim ∨ d < 1 ∨ d > s.size) :
    s.r i j d = .ok none := by
  unfold View.r
  rw [if_pos]
  simp only [Bool.or_eq_true, decide_eq_true_eq]
  omega

theorem View.m_oor (s : View) (i j d : Nat) (h : i > s.dim ∨ j > s.dim ∨ d < 1 ∨ d > s.size) :
    s.m i j d = none := by
  unfold View.m
  rw [if_pos]
  simp only [Bool.or_eq_true, decide_eq_true_eq]
  omega

theorem outOfRange_iff (s : DSymData) (i j d : Nat) :
    s.outOfRange i j d = true ↔ (i > s.dim ∨ j > s.dim ∨ d < 1 ∨ d > s.size) := by
  unfold DSymData.outOfRange
  simp only [Bool.or_eq_true, decide_eq_true_eq]
  omega

namespace DSymData

theorem rPartial_oor (s : DSymData) (i j d : Nat) (h : i > s.dim ∨ j > s.dim ∨ d < 1 ∨ d > s.size) :
    s.rPartial i j d = .ok none := by
  unfold rPartial; rw [if_pos ((outOfRange_iff s i j d).2 h)]

theorem vPartial_oor (s : DSymData) (i j d : Nat) (h : i > s.dim ∨ j > s.dim ∨ d < 1 ∨ d > s.size) :
    s.vPartial i j d = .ok none := by
  unfold vPartial; rw [if_pos ((outOfRange_iff s i j d).2 h)]

theorem rSimple_eq_rPartial (s : DSymData) : s.rSimple = s.rPartial := rfl
theorem vSimple_eq_vPartial (s : DSymData) : s.vSimple = s.vPartial := rfl
theorem mSimple_eq_mPartial (s : DSymData) : s.mSimple = s.mPartial := rfl

theorem mPartial_oor (s : DSymData) (i j d : Nat) (h : i > s.dim ∨ j > s.dim ∨ d < 1 ∨ d > s.size) :
    s.mPartial i j d = .ok none := by
  unfold mPartial; rw [rPartial_oor s i j d h]; rfl

/-! ### symmetry in (i, j) — holds for all data -/

theorem outOfRange_symm (s : DSymData) (i j d : Nat) : s.outOfRange i j d = s.outOfRange j i d := by
  unfold outOfRange
  cases decide (i > s.dim) <;> cases decide (j > s.dim) <;> rfl

theorem rPartial_symm (s : DSymData) (i j d : Nat) : s.rPartial i j d = s.rPartial j i d := by
  unfold rPartial
  rw [outOfRange_symm s i j d]
  by_cases ho : s.outOfRange j i d = true
  · simp [ho]
  · by_cases h1 : j = i
    · subst h1; rfl
    · have h1' : ¬ i = j := fun h => h1 h.symm
      by_cases h2 : j = i + 1
      · subst h2
        have h3 : ¬ i = i + 1 + 1 := by omega
        simp [ho, h3]
      · by_cases h3 : i = j + 1
        · subst h3
          have h4 : ¬ j = j + 1 + 1 := by omega
          simp [ho, h4]
        · have : (s.op i d = s.op j d) = (s.op j d = s.op i d) := propext ⟨Eq.symm, Eq.symm⟩
          simp only [ho, h1, h1', h2, h3, if_false, this]

theorem vPartial_symm (s : DSymData) (i j d : Nat) : s.vPartial i j d = s.vPartial j i d := by
  unfold vPartial
  rw [outOfRange_symm s i j d]
  by_cases ho : s.outOfRange j i d = true
  · simp [ho]
  · by_cases h1 : j = i
    · subst h1; rfl
    · have h1' : ¬ i = j := fun h => h1 h.symm
      by_cases h2 : j = i + 1
      · subst h2
        have h3 : ¬ i = i + 1 + 1 := by omega
        simp [ho, h3]
      · by_cases h3 : i = j + 1
        · subst h3
          have h4 : ¬ j = j + 1 + 1 := by omega
          simp [ho, h4]
        · have : (s.op i d = s.op j d) = (s.op j d = s.op i d) := propext ⟨Eq.symm, Eq.symm⟩
          simp only [ho, h1, h1', h2, h3, if_false, this]

theorem mPartial_symm (s : DSymData) (i j d : Nat) : s.mPartial i j d = s.mPartial j i d := by
  unfold mPartial; rw [rPartial_symm s i j d, vPartial_symm s i j d]

/-! ### m = r * v -/

theorem mOf_some {r v : Outcome (Option Nat)} {a b : Nat} (hr : r = .ok (some a)) (hv : v = .ok (some b)) :
    mOf r v = .ok (some (a * b)) := by subst hr hv; rfl

theorem mOf_eq_some {r v : Outcome (Option Nat)} {c : Nat} (h : mOf r v = .ok (some c)) :
    ∃ a b, r = .ok (some a) ∧ v = .ok (some b) ∧ c = a * b := by
  unfold mOf at h
  split at h <;> first | cases h | skip
  rename_i a b
  exact ⟨a, b, rfl, rfl, rfl⟩

end DSymData

end DSymVerif.DS
