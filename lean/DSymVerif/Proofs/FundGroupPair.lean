/-
Helper lemmas for property C09, part 8: every generator sits on its own facet pair and that
facet pair carries exactly the generator letter.

Invariant of the double loop of `find_generators` (`GInv`):
  * every facet recorded in `gen_to_edge`, and the facet on its other side, has no ridge left in
    the boundary (`Glued`) — so `glue_recursively` never touches it again and it never gets a
    second generator;
  * its edge words are `[g]` / `[-g]` (a mirror facet carries `[-g]`: the second `insert`
    overwrites the first).
-/
import DSymVerif.Proofs.FundGroupTotal2

namespace DSymVerif.FGP
open DSymVerif DSymVerif.DS DSymVerif.FG DSymVerif.FWP DSymVerif.SpecC10

theorem glued_partner {ds : DSymData} (hv : ValidSet ds.dset) {m : OppMap} (hm : BInv ds m)
    {d i : Nat} (hd : FacetR ds d i) (h : Glued ds m d i) : Glued ds m (ds.dset.opU i d) i := by
  intro j hj
  have hr : Rng ds (d, i, j) := ⟨hd.1, hd.2.1, hj.2.2.1, hj.2.2.2.1, hj.2.2.2.2⟩
  exact (hm.pres _ hr).1 (h j hr)

theorem facetR_partner {ds : DSymData} (hv : ValidSet ds.dset) {d i : Nat} (hd : FacetR ds d i) :
    FacetR ds (ds.dset.opU i d) i :=
  ⟨(hv.range i d hd.2.2 hd.1 hd.2.1).1, (hv.range i d hd.2.2 hd.1 hd.2.1).2, hd.2.2⟩

/-- a facet with a ridge still present is different from a glued facet and from its other side -/
theorem ne_of_present {ds : DSymData} (hv : ValidSet ds.dset) {m : OppMap} (hm : BInv ds m)
    {e a j x b : Nat} (hj : Rng ds (e, a, j)) (hp : oppGet m (e, a, j) ≠ none)
    (hx : FacetR ds x b) (hg : Glued ds m x b) :
    (e, a) ≠ (x, b) ∧ (e, a) ≠ (ds.dset.opU b x, b) ∧ (ds.dset.opU a e, a) ≠ (x, b) ∧
      (ds.dset.opU a e, a) ≠ (ds.dset.opU b x, b) := by
  have hg' := glued_partner hv hm hx hg
  have he : FacetR ds e a := ⟨hj.1, hj.2.1, hj.2.2.1⟩
  have hpp : oppGet m (ds.dset.opU a e, a, j) ≠ none := fun e' => hp ((hm.pres _ hj).2 e')
  have hjp := rng_partner hv hj
  refine ⟨?_, ?_, ?_, ?_⟩
  · intro e'
    have h1 : e = x := congrArg Prod.fst e'
    have h2 : a = b := congrArg Prod.snd e'
    subst h1; subst h2
    exact hp (hg j hj)
  · intro e'
    have h1 : e = ds.dset.opU b x := congrArg Prod.fst e'
    have h2 : a = b := congrArg Prod.snd e'
    subst h2
    rw [h1] at hp hj
    exact hp (hg' j hj)
  · intro e'
    have h1 : ds.dset.opU a e = x := congrArg Prod.fst e'
    have h2 : a = b := congrArg Prod.snd e'
    subst h2
    rw [h1] at hpp
    exact hpp (hg j (h1 ▸ hjp))
  · intro e'
    have h1 : ds.dset.opU a e = ds.dset.opU b x := congrArg Prod.fst e'
    have h2 : a = b := congrArg Prod.snd e'
    subst h2
    rw [h1] at hpp
    exact hpp (hg' j (h1 ▸ hjp))

/-! ### `glue_recursively(vec![(d, i, None)])` unrolled once -/

theorem glueRec_single {ds : DSymData} (hs : ValidSym ds) {m : OppMap} (hm : Bnd ds m)
    {d i : Nat} (hd : FacetR ds d i) :
    ∃ m1 m' l, glueRecursively ds m [(d, i, none)] = .ok (m', (d, i, none) :: l) ∧ Bnd ds m' ∧
      BInv ds m1 ∧
      (∀ k, Rng ds k → oppGet m k = none → oppGet m1 k = none) ∧
      (∀ k, Rng ds k → oppGet m1 k = none → oppGet m' k = none) ∧
      Glued ds m1 d i ∧ Glued ds m1 (ds.dset.opU i d) i ∧
      ∀ it ∈ l, ItemR ds it ∧
        ∃ j, it.2.2 = some j ∧ Rng ds (it.1, it.2.1, j) ∧ oppGet m1 (it.1, it.2.1, j) ≠ none := by
  unfold glueRecursively
  have hf : glueFuel ds [(d, i, none)] = (2 * (ds.size + 1) * (ds.dim + 1) * (ds.dim + 1) + 16) + 1 := by
    unfold glueFuel; simp; omega
  rw [hf]
  unfold glueRecLoop
  have hg : glueGood ds m d i none = .ok true := rfl
  rw [hg]
  simp only
  obtain ⟨m1, rs, e1, go⟩ := glue_ok hs.set hm.1 hd
  rw [e1]
  simp only
  have hle : ds.size * (ds.dim + 1) * (ds.dim + 1) ≤ 2 * (ds.size + 1) * (ds.dim + 1) * (ds.dim + 1) := by
    have : ds.size ≤ 2 * (ds.size + 1) := by omega
    exact Nat.mul_le_mul_right _ (Nat.mul_le_mul_right _ this)
  obtain ⟨m', out, e, inv, mono, ⟨l, hl, hlr, hlp⟩, hc, _⟩ := glueRecLoop_ok hs
    (2 * (ds.size + 1) * (ds.dim + 1) * (ds.dim + 1) + 16) m1
    ([] ++ rs.map (fun r => (r.1, r.2.1, some r.2.2))) [(d, i, none)] go.inv
    (by
      intro it hit
      rw [List.nil_append] at hit
      obtain ⟨r, _, rfl⟩ := List.mem_map.1 hit
      intro hn; cases hn)
    (by
      have := go.count
      have := hm.2
      simp
      omega)
  have hgd : Glued ds m1 d i := fun j hj => (go.gone j hj.2.2.2.1 (fun e => hj.2.2.2.2 e.symm)).1
  have hgp : Glued ds m1 (ds.dset.opU i d) i := glued_partner hs.set go.inv hd hgd
  have hb' : realCount m' ≤ ds.size * (ds.dim + 1) * (ds.dim + 1) := by
    have := go.count
    have := hm.2
    omega
  refine ⟨m1, m', l, ?_, ⟨inv, hb'⟩, go.inv,
    go.mono, mono, hgd, hgp, ?_⟩
  · rw [e, hl]; rfl
  · intro it hit
    refine ⟨hlr it hit, ?_⟩
    rcases hlp it hit with ⟨h1, h2⟩ | h
    · rw [List.nil_append] at h2
      obtain ⟨r, _, hr⟩ := List.mem_map.1 h2
      rw [← hr] at h1
      cases h1
    · exact h

/-! ### which entries of `edge_to_word` a batch of glued items can change -/

/-- the item's facet and the facet on its other side are both different from `f` -/
def NoTouch (ds : DSymData) (it : Item) (f : Edge) : Prop :=
  (it.1, it.2.1) ≠ f ∧ (ds.dset.opU it.2.1 it.1, it.2.1) ≠ f

theorem applyGlued_frame {ds : DSymData} : ∀ (items : List Item) (e2w e2w' : E2W),
    (∀ it ∈ items, FacetR ds it.1 it.2.1) → applyGlued ds e2w items = .ok e2w' →
    ∀ f, (∀ it ∈ items, NoTouch ds it f) → e2wGet? e2w' f = e2wGet? e2w f
  | [], e2w, e2w', _, h, f, _ => by
    simp [applyGlued] at h; rw [h]
  | (e, i, jo) :: rest, e2w, e2w', hf, h, f, hnt => by
    have hfe := hf (e, i, jo) List.mem_cons_self
    have hn := hnt (e, i, jo) List.mem_cons_self
    unfold applyGlued at h
    rw [op_eq hfe.2.2 hfe.1 hfe.2.1] at h
    simp only at h
    split at h
    · split at h
      · rw [applyGlued_frame rest _ e2w' (fun it hit => hf it (List.mem_cons_of_mem _ hit)) h f
          (fun it hit => hnt it (List.mem_cons_of_mem _ hit))]
        rw [e2wGet?_insert, e2wGet?_insert, if_neg (fun e' => hn.2 e'.symm), if_neg (fun e' => hn.1 e'.symm)]
      · exact applyGlued_frame rest _ e2w' (fun it hit => hf it (List.mem_cons_of_mem _ hit)) h f
          (fun it hit => hnt it (List.mem_cons_of_mem _ hit))
    · cases h
    · cases h

/-- the edge words of the facet pair of generator `g` on facet `(d,i)`:
    `[g]` on `(d,i)` and `[-g]` on the other side; a mirror facet carries `[-g]` -/
def GenWords (ds : DSymData) (e2w : E2W) (g d i : Nat) : Prop :=
  (ds.dset.opU i d ≠ d → e2wGet e2w (d, i) = [(g : Int)] ∧
    e2wGet e2w (ds.dset.opU i d, i) = [-(g : Int)]) ∧
  (ds.dset.opU i d = d → e2wGet e2w (d, i) = [-(g : Int)])

theorem genWords_congr {ds : DSymData} {e2w e2w' : E2W} {g d i : Nat}
    (h1 : e2wGet? e2w' (d, i) = e2wGet? e2w (d, i))
    (h2 : e2wGet? e2w' (ds.dset.opU i d, i) = e2wGet? e2w (ds.dset.opU i d, i))
    (h : GenWords ds e2w g d i) : GenWords ds e2w' g d i := by
  unfold GenWords e2wGet at *
  rw [h1, h2]
  exact h

theorem new_pos_letter (n : Nat) : FW.new [((n + 1 : Nat) : Int)] = [((n + 1 : Nat) : Int)] :=
  new_of_isReduced (by simp [isReduced]; omega)

theorem new_neg_letter (n : Nat) : FW.new [-((n + 1 : Nat) : Int)] = [-((n + 1 : Nat) : Int)] :=
  new_of_isReduced (by simp [isReduced]; omega)

theorem inverse_neg_letter (n : Nat) :
    FW.inverse [-((n + 1 : Nat) : Int)] = [((n + 1 : Nat) : Int)] := by
  have := new_gen_eq n
  rw [new_pos_letter, new_neg_letter] at this
  exact this.symm

theorem mem_g2eInsert {k : Nat} {e : Edge} : ∀ {m : G2E} {p : Nat × Edge},
    p ∈ g2eInsert m k e → p = (k, e) ∨ p ∈ m
  | [], p, h => by simp [g2eInsert] at h; exact Or.inl h
  | (k', e') :: rest, p, h => by
    unfold g2eInsert at h
    split at h
    · rcases List.mem_cons.1 h with h | h
      · exact Or.inl h
      · exact Or.inr (List.mem_cons_of_mem _ h)
    · split at h
      · rcases List.mem_cons.1 h with h | h
        · exact Or.inl h
        · exact Or.inr h
      · rcases List.mem_cons.1 h with h | h
        · exact Or.inr (h ▸ List.mem_cons_self)
        · rcases mem_g2eInsert h with h | h
          · exact Or.inl h
          · exact Or.inr (List.mem_cons_of_mem _ h)

/-! ### the invariant of the double loop of `find_generators` -/

structure GInv (ds : DSymData) (st : GenState) : Prop where
  bnd : Bnd ds st.bnd
  keys : ∀ p ∈ st.g2e, 1 ≤ p.1 ∧ p.1 ≤ st.g2e.length
  gens : ∀ p ∈ st.g2e, FacetR ds p.2.1 p.2.2 ∧ Glued ds st.bnd p.2.1 p.2.2 ∧
    GenWords ds st.e2w p.1 p.2.1 p.2.2
  distinct : ∀ p ∈ st.g2e, ∀ q ∈ st.g2e, p.1 ≠ q.1 →
    q.2 ≠ p.2 ∧ q.2 ≠ (ds.dset.opU p.2.2 p.2.1, p.2.2)

theorem genStep_ginv {ds : DSymData} (hs : ValidSym ds) {st st' : GenState} (hst : GInv ds st)
    {d i : Nat} (hd : FacetR ds d i) (h : genStep ds st d i = .ok st') : GInv ds st' := by
  have hv := hs.set
  unfold genStep at h
  split at h
  · rename_i hany
    -- some ridge of (d,i) is present
    obtain ⟨j0, hj0, hp0⟩ := List.any_eq_true.1 hany
    rw [List.mem_range] at hj0
    have hp0' : oppGet st.bnd (d, i, j0) ≠ none := by
      intro e; rw [e] at hp0; simp at hp0
    have hr0 : Rng ds (d, i, j0) := by
      cases g : oppGet st.bnd (d, i, j0) with
      | none => exact absurd g hp0'
      | some v =>
        rcases hst.bnd.1.keys _ _ g with hz | hr
        · have : d = 0 := congrArg Prod.fst hz
          have := hd.1
          omega
        · exact hr
    rw [op_eq hd.2.2 hd.1 hd.2.1] at h
    simp only at h
    obtain ⟨m1, m', l, eg, hb', inv1, mono1, mono2, hgd, hgp, hl⟩ := glueRec_single hs hst.bnd hd
    rw [eg] at h
    simp only at h
    split at h
    · rename_i e2w' hag
      injection h with h
      -- unfold the first glued item `(d, i, None)`
      unfold applyGlued at hag
      rw [op_eq hd.2.2 hd.1 hd.2.1] at hag
      simp only at hag
      have htw : traceWord ds (e2wInsert (e2wInsert st.e2w (d, i) (FW.new [((st.g2e.length + 1 : Nat) : Int)]))
            (ds.dset.opU i d, i) (FW.new [-((st.g2e.length + 1 : Nat) : Int)]))
          (ds.dset.opU i d) none (some i) = .ok [-((st.g2e.length + 1 : Nat) : Int)] := by
        unfold traceWord
        simp only
        rw [e2wGet_insert, if_pos rfl, new_neg_letter]
        show Outcome.ok (FW.new ([] ++ [-((st.g2e.length + 1 : Nat) : Int)])) = _
        rw [List.nil_append, new_neg_letter]
      rw [htw] at hag
      simp only at hag
      rw [if_pos (by simp)] at hag
      rw [inverse_neg_letter, new_pos_letter, new_neg_letter] at hag
      -- facets touched later are different from glued facets
      have hlf : ∀ it ∈ l, FacetR ds it.1 it.2.1 := fun it hit => (hl it hit).1.1
      have notouch : ∀ x b, FacetR ds x b → Glued ds m1 x b → ∀ it ∈ l,
          NoTouch ds it (x, b) ∧ NoTouch ds it (ds.dset.opU b x, b) := by
        intro x b hx hg it hit
        obtain ⟨_, j, _, hrj, hpj⟩ := hl it hit
        have := ne_of_present hv inv1 hrj hpj hx hg
        exact ⟨⟨this.1, this.2.2.1⟩, ⟨this.2.1, this.2.2.2⟩⟩
      have frame := applyGlued_frame l _ e2w' hlf hag
      -- the new facet pair is different from every recorded facet pair
      have hnew : ∀ p ∈ st.g2e, (d, i) ≠ p.2 ∧ (d, i) ≠ (ds.dset.opU p.2.2 p.2.1, p.2.2) ∧
          (ds.dset.opU i d, i) ≠ p.2 ∧ (ds.dset.opU i d, i) ≠ (ds.dset.opU p.2.2 p.2.1, p.2.2) := by
        intro p hp
        obtain ⟨hf, hg, _⟩ := hst.gens p hp
        exact ne_of_present hv hst.bnd.1 hr0 hp0' hf hg
      have hlt : ∀ p ∈ st.g2e, p.1 < st.g2e.length + 1 := fun p hp => by
        have := (hst.keys p hp).2; omega
      have happ := g2eInsert_append st.g2e (st.g2e.length + 1) (d, i) hlt
      rw [← h]
      refine ⟨hb', ?_, ?_, ?_⟩
      · intro p hp
        simp only at hp
        rw [happ] at hp ⊢
        rw [List.length_append, List.length_singleton]
        rcases List.mem_append.1 hp with hp | hp
        · have := hst.keys p hp; omega
        · simp only [List.mem_singleton] at hp
          subst hp
          simp
      · intro p hp
        simp only at hp ⊢
        rcases mem_g2eInsert hp with hp | hp
        · subst hp
          simp only
          refine ⟨hd, glued_mono mono2 hgd, ?_⟩
          have f1 := frame (d, i) (fun it hit => (notouch d i hd hgd it hit).1)
          have f2 := frame (ds.dset.opU i d, i) (fun it hit => (notouch d i hd hgd it hit).2)
          unfold GenWords e2wGet
          rw [f1, f2]
          simp only [e2wGet?_insert]
          constructor
          · intro hne
            have : ¬ (d, i) = (ds.dset.opU i d, i) := fun e => hne (congrArg Prod.fst e).symm
            have this' : ¬ (ds.dset.opU i d, i) = (d, i) := fun e => this e.symm
            simp [this, this']
          · intro he
            simp [he]
        · obtain ⟨hf, hg, hw⟩ := hst.gens p hp
          have hg1 := glued_mono mono1 hg
          refine ⟨hf, glued_mono mono2 hg1, ?_⟩
          have hn := hnew p hp
          have f1 := frame p.2 (fun it hit => (notouch p.2.1 p.2.2 hf hg1 it hit).1)
          have f2 := frame (ds.dset.opU p.2.2 p.2.1, p.2.2)
            (fun it hit => (notouch p.2.1 p.2.2 hf hg1 it hit).2)
          apply genWords_congr _ _ hw
          · show e2wGet? e2w' p.2 = _
            rw [f1, e2wGet?_insert, e2wGet?_insert, e2wGet?_insert, e2wGet?_insert,
              if_neg (fun e => hn.2.2.1 e.symm), if_neg (fun e => hn.1 e.symm),
              if_neg (fun e => hn.2.2.1 e.symm), if_neg (fun e => hn.1 e.symm)]
          · rw [f2, e2wGet?_insert, e2wGet?_insert, e2wGet?_insert, e2wGet?_insert,
              if_neg (fun e => hn.2.2.2 e.symm), if_neg (fun e => hn.2.1 e.symm),
              if_neg (fun e => hn.2.2.2 e.symm), if_neg (fun e => hn.2.1 e.symm)]
      · intro p hp q hq hpq
        simp only at hp hq
        rcases mem_g2eInsert hp with hp | hp
        · rcases mem_g2eInsert hq with hq | hq
          · subst hp; subst hq; exact absurd rfl hpq
          · subst hp
            have hn := hnew q hq
            simp only
            exact ⟨fun e => hn.1 e.symm, fun e => hn.2.2.1 e.symm⟩
        · rcases mem_g2eInsert hq with hq | hq
          · subst hq
            have hn := hnew p hp
            simp only
            exact ⟨hn.1, hn.2.1⟩
          · exact hst.distinct p hp q hq hpq
    · cases h
    · cases h
  · injection h with h
    rw [← h]; exact hst

theorem genLoop_ginv {ds : DSymData} (hs : ValidSym ds) : ∀ (fs : List Edge) (st st' : GenState),
    GInv ds st → (∀ f ∈ fs, FacetR ds f.1 f.2) → genLoop ds st fs = .ok st' → GInv ds st'
  | [], st, st', hst, _, h => by simp [genLoop] at h; rw [← h]; exact hst
  | (d, i) :: rest, st, st', hst, hf, h => by
    unfold genLoop at h
    split at h
    · rename_i st1 h1
      exact genLoop_ginv hs rest st1 st'
        (genStep_ginv hs hst (hf (d, i) List.mem_cons_self) h1)
        (fun f hf' => hf f (List.mem_cons_of_mem _ hf')) h
    · cases h
    · cases h

theorem findGenerators_ginv {ds : DSymData} (hs : ValidSym ds) {e2w : E2W} {g2e : G2E}
    (h : findGenerators ds = .ok (e2w, g2e)) :
    ∃ bnd, GInv ds { bnd := bnd, e2w := e2w, g2e := g2e } := by
  unfold findGenerators at h
  obtain ⟨m', out, e, hb', _, _⟩ := glueRecursively_ok hs (boundaryNew_bnd hs.set) (spanningTree ds)
    (spanningTree_ok hs.set)
  rw [e] at h
  simp only at h
  split at h
  · rename_i st hst
    injection h with h
    have h0 : GInv ds { bnd := m', e2w := [], g2e := [] } :=
      ⟨hb', fun p hp => (by cases hp), fun p hp => (by cases hp), fun p hp => (by cases hp)⟩
    have := genLoop_ginv hs (facets ds) _ st h0 (fun f hf => mem_facets.1 hf) hst
    have h1 : st.e2w = e2w := congrArg Prod.fst h
    have h2 : st.g2e = g2e := congrArg Prod.snd h
    refine ⟨st.bnd, ?_⟩
    rw [← h1, ← h2]
    exact this
  · cases h
  · cases h

/-! ### facets glued before the generator loop (tree facets and what they force) carry no word -/

structure NInv (ds : DSymData) (bnd0 : OppMap) (st : GenState) : Prop where
  mono0 : ∀ k, Rng ds k → oppGet bnd0 k = none → oppGet st.bnd k = none
  noentry : ∀ x b, FacetR ds x b → Glued ds bnd0 x b → e2wGet? st.e2w (x, b) = none

theorem genStep_ninv {ds : DSymData} (hs : ValidSym ds) {bnd0 : OppMap} {st st' : GenState}
    (hst : GInv ds st) (hn : NInv ds bnd0 st) {d i : Nat} (hd : FacetR ds d i)
    (h : genStep ds st d i = .ok st') : NInv ds bnd0 st' := by
  have hv := hs.set
  unfold genStep at h
  split at h
  · rename_i hany
    obtain ⟨j0, hj0, hp0⟩ := List.any_eq_true.1 hany
    have hp0' : oppGet st.bnd (d, i, j0) ≠ none := by
      intro e; rw [e] at hp0; simp at hp0
    have hr0 : Rng ds (d, i, j0) := by
      cases g : oppGet st.bnd (d, i, j0) with
      | none => exact absurd g hp0'
      | some v =>
        rcases hst.bnd.1.keys _ _ g with hz | hr
        · have : d = 0 := congrArg Prod.fst hz
          have := hd.1
          omega
        · exact hr
    rw [op_eq hd.2.2 hd.1 hd.2.1] at h
    simp only at h
    obtain ⟨m1, m', l, eg, hb', inv1, mono1, mono2, hgd, hgp, hl⟩ := glueRec_single hs hst.bnd hd
    rw [eg] at h
    simp only at h
    split at h
    · rename_i e2w' hag
      injection h with h
      rw [← h]
      refine ⟨fun k hk hk0 => mono2 k hk (mono1 k hk (hn.mono0 k hk hk0)), ?_⟩
      intro x b hx hg0
      simp only
      have hgs : Glued ds st.bnd x b := glued_mono hn.mono0 hg0
      have hg1 : Glued ds m1 x b := glued_mono mono1 hgs
      have hne := ne_of_present hv hst.bnd.1 hr0 hp0' hx hgs
      have hfr : ∀ it ∈ ((d, i, none) :: l : List Item), FacetR ds it.1 it.2.1 := by
        intro it hit
        rcases List.mem_cons.1 hit with h' | h'
        · rw [h']; exact hd
        · exact (hl it h').1.1
      have hnt : ∀ it ∈ ((d, i, none) :: l : List Item), NoTouch ds it (x, b) := by
        intro it hit
        rcases List.mem_cons.1 hit with h' | h'
        · rw [h']; exact ⟨hne.1, hne.2.2.1⟩
        · obtain ⟨_, j, _, hrj, hpj⟩ := hl it h'
          have := ne_of_present hv inv1 hrj hpj hx hg1
          exact ⟨this.1, this.2.2.1⟩
      rw [applyGlued_frame _ _ e2w' hfr hag (x, b) hnt, e2wGet?_insert, e2wGet?_insert,
        if_neg (fun e => hne.2.2.1 e.symm), if_neg (fun e => hne.1 e.symm)]
      exact hn.noentry x b hx hg0
    · cases h
    · cases h
  · injection h with h
    rw [← h]; exact hn

theorem genLoop_ninv {ds : DSymData} (hs : ValidSym ds) {bnd0 : OppMap} : ∀ (fs : List Edge)
    (st st' : GenState), GInv ds st → NInv ds bnd0 st → (∀ f ∈ fs, FacetR ds f.1 f.2) →
    genLoop ds st fs = .ok st' → NInv ds bnd0 st'
  | [], st, st', _, hn, _, h => by simp [genLoop] at h; rw [← h]; exact hn
  | (d, i) :: rest, st, st', hst, hn, hf, h => by
    unfold genLoop at h
    split at h
    · rename_i st1 h1
      have hd := hf (d, i) List.mem_cons_self
      exact genLoop_ninv hs rest st1 st' (genStep_ginv hs hst hd h1) (genStep_ninv hs hst hn hd h1)
        (fun f hf' => hf f (List.mem_cons_of_mem _ hf')) h
    · cases h
    · cases h

/-- the facets of `spanning_tree` carry no edge word -/
theorem tree_facets_trivial {ds : DSymData} (hs : ValidSym ds) {e2w : E2W} {g2e : G2E}
    (h : findGenerators ds = .ok (e2w, g2e)) :
    ∀ it ∈ spanningTree ds, e2wGet? e2w (it.1, it.2.1) = none ∧
      e2wGet? e2w (ds.dset.opU it.2.1 it.1, it.2.1) = none := by
  unfold findGenerators at h
  obtain ⟨m', out, e, hb', _, _, hgl⟩ := glueRecursively_ok hs (boundaryNew_bnd hs.set) (spanningTree ds)
    (spanningTree_ok hs.set)
  rw [e] at h
  simp only at h
  split at h
  · rename_i st hst
    injection h with h
    have h0 : GInv ds { bnd := m', e2w := [], g2e := [] } :=
      ⟨hb', fun p hp => (by cases hp), fun p hp => (by cases hp), fun p hp => (by cases hp)⟩
    have n0 : NInv ds m' { bnd := m', e2w := [], g2e := [] } :=
      ⟨fun _ _ h => h, fun _ _ _ _ => rfl⟩
    have := genLoop_ninv hs (facets ds) _ st h0 n0 (fun f hf => mem_facets.1 hf) hst
    have h1 : st.e2w = e2w := congrArg Prod.fst h
    intro it hit
    have hok := spanningTree_ok hs.set it hit
    obtain ⟨hnone, _⟩ := spanningTree_itemOk hs.set it hit
    have hf := hok hnone
    have hg := hgl it hit hnone
    rw [← h1]
    exact ⟨this.noentry _ _ hf hg,
      this.noentry _ _ (facetR_partner hs.set hf) (glued_partner hs.set hb'.1 hf hg)⟩
  · cases h
  · cases h

end DSymVerif.FGP
