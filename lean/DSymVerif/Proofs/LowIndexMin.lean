/-
C12 completeness, part 9: the re-basing with the lexicographically smallest key, as a model
table, passes `is_canonical` (each `compare_renumbered_from` is the first difference against
another re-basing).
-/
import DSymVerif.Proofs.LowIndexKey

namespace DSymVerif.CanonP
open DSymVerif DSymVerif.Cosets DSymVerif.SpecC11 DSymVerif.SpecC12 DSymVerif.CosetP DSymVerif.RebaseP
open DSymVerif.LowIndexP DSymVerif.CosetInvP DSymVerif.CosetPartP

theorem trace_iso {t u : Tab} {n : Nat} {σ : Nat → Nat} (iso : TabIso t u n σ) :
    ∀ (w : List Int) (c : Nat), c < t.size → traceWord u n (σ c) w = (traceWord t n c w).map σ
  | [], c, _ => rfl
  | g :: w, c, hc => by
    simp only [traceWord]
    rw [iso.comm c g hc]
    cases he : entry t n c g with
    | none => rfl
    | some d =>
      simp only [Option.map_some]
      exact trace_iso iso w d (entry_some he).1

/-- a standard table isomorphic to a valid table (no subgroup generators) is valid -/
theorem valid_iso_std {t u : Tab} {n : Nat} {rels : List (List Int)} {σ : Nat → Nat}
    (iso : TabIso t u n σ) (hv : Valid t n rels []) (hstd : StdTab u n) : Valid u n rels [] := by
  have hsz := iso.size
  refine ⟨by rw [hsz]; exact hv.pos, ?_, ?_, ?_, (fun _ h => by cases h), ?_⟩
  · intro c' hc' g hg
    rw [hsz] at hc'
    obtain ⟨c, hc, rfl⟩ := iso.surj c' hc'
    obtain ⟨d, hd⟩ := hv.total c hc g hg
    exact ⟨σ d, by rw [iso.comm c g hc, hd]; rfl⟩
  · intro c' g d' he
    have hc' := (entry_some he).2.1
    rw [hsz] at hc'
    obtain ⟨c, hc, rfl⟩ := iso.surj c' hc'
    rw [iso.comm c g hc] at he
    cases hd : entry t n c g with
    | none => rw [hd] at he; cases he
    | some d =>
      rw [hd] at he
      simp only [Option.map_some, Option.some.injEq] at he
      subst he
      have := hv.inv c g d hd
      rw [iso.comm d (-g) (entry_some hd).1, this]; rfl
  · intro r hr c' hc'
    rw [hsz] at hc'
    obtain ⟨c, hc, rfl⟩ := iso.surj c' hc'
    rw [trace_iso iso r c hc, hv.rel r hr c hc]; rfl
  · intro j
    induction j using Nat.strongRecOn with
    | _ j ih =>
      intro hj
      by_cases h0 : j = 0
      · subst h0; exact ⟨[], rfl⟩
      · obtain ⟨k, g, _, _, hk, _, he, _⟩ := hstd j (by omega) hj
        obtain ⟨w, hw⟩ := ih k hk (by omega)
        exact ⟨w ++ [g], traceWord_snoc_intro hw he⟩

section
variable {n : Nat} {rels : List (List Int)}

/-- the isomorphism of the model tables of a table and one of its re-basings -/
theorem isoStd_of_renum {u us : Tab} {s : Nat} {ord o2n : Array Nat} (hvu : Valid u n rels [])
    (hvs : Valid us n rels []) (r : Renum u n s us ord o2n) (hstd : StdTab us n) :
    IsoStd (Table.ofView n us) (Table.ofView n u) (fun i => ord.getD i 0) u.size := by
  have iso := r.iso_bwd
  have husz : us.size = u.size := iso.size.symm
  have hgens : ∀ g, g ∈ (Table.ofView n us).allGens ↔ g ∈ letters n := fun g => by
    rw [ofView_allGens, allGensOf_eq_letters]
  refine ⟨by rw [ofView_len, husz], ofView_len n u, rfl, ?_, ?_, ?_, ?_, ?_, ofView_cs hstd⟩
  · intro k hk g hg
    obtain ⟨d, hd⟩ := hvs.total k (by omega) g ((hgens g).mp hg)
    exact ⟨d, get_ofView hd, by have := (entry_some hd).1; omega⟩
  · intro k hk g hg
    obtain ⟨d, hd⟩ := hvu.total k hk g ((hgens g).mp hg)
    exact ⟨d, get_ofView hd⟩
  · intro c hc
    have := iso.lt c (by omega)
    omega
  · intro a b ha hb hab
    exact iso.inj a b (by omega) (by omega) hab
  · intro c g d hc hg hget
    have he := entry_of_get_ofView hvs (by rw [allGensOf_eq_letters]; exact (hgens g).mp hg) hget
    have := iso.comm c g (by omega)
    rw [he] at this
    exact get_ofView this

/-- the model table of the re-basing with the smallest key passes `is_canonical` -/
theorem ofView_canonical {u : Tab} (hvu : Valid u n rels []) (hstdu : StdTab u n)
    {t : Tab} {b : Nat} {ordu o2nu : Array Nat} (hvt : Valid t n rels []) (ru : Renum t n b u ordu o2nu)
    (hmin : ∀ x ∈ rebasings u n, lexLt x (tabKey u) = false) :
    isCanonical (Table.ofView n u) = .ok true := by
  unfold isCanonical
  apply isCanonicalFrom_of
  intro s hs
  rw [List.mem_range'_1, ofView_len] at hs
  have hsl : s < u.size := by omega
  obtain ⟨us, ord, o2n, hren, r, h0, hstd⟩ := renumberFrom_std hvu s hsl
  have hvs : Valid us n rels [] := valid_iso_std r.iso_fwd hvu hstd
  have iso := isoStd_of_renum hvu hvs r hstd
  have hcmp := compareRenumberedFrom_iso iso hvu.pos
  simp only [h0] at hcmp
  refine ⟨_, hcmp, ?_⟩
  by_contra hneg
  have hlt : fdRows (Table.ofView n us) (Table.ofView n u) (Table.ofView n us).allGens (List.range u.size) < 0 := by
    omega
  have hlex := fdRows_lex _ _ _ _ hlt
  have hk1 := tabKey_renum hvu r
  have hk2 := tabKey_renum hvt ru
  have husz : us.size = u.size := r.iso_bwd.size.symm
  have hmem : tabKey us ∈ rebasings u n := mem_rebasings.mpr ⟨s, hsl, us, hren, rfl⟩
  have := hmin _ hmem
  rw [hk1, hk2, husz] at this
  simp only [lexLt, Int.lt_irrefl, if_false] at this
  rw [ofView_allGens, allGensOf_eq_letters] at hlex
  rw [hlex] at this
  cases this

end

end DSymVerif.CanonP
