/-
Helper lemmas for property C09, part 27: the graph the driver hands to the Spec (`specG`, the raw
protocol tables) is, entry by entry, the graph `gOf ds` of the symbol `ds` that `RawSym.toSym`
decodes and on which the model runs.  Cites `C03.decode_raw_valid` and `C03.agrees_tables`.
-/
import DSymVerif.Props.C03
import DSymVerif.Driver.C09View
import DSymVerif.Proofs.FundGroupSpecB
import DSymVerif.Proofs.FundGroupSpecCongr

namespace DSymVerif.FGP
open DSymVerif DSymVerif.DS DSymVerif.SpecC02 DSymVerif.DrvC09View

theorem gOf_v {ds : DSymData} (hs : ValidTables ds) {i d : Nat} (hi : i < ds.dim) (h1 : 1 ≤ d)
    (h2 : d ≤ ds.size) : (gOf ds).v i d = ds.orbitVs.getD (ds.ixAt i d) 0 := by
  show orbV ds i (i + 1) d = _
  unfold orbV
  rw [hs.vPartial_adj hi h1 h2]

theorem specG_agrees (r : Proto.RawSym) (h : inDomain r = true) :
    ∃ ds, r.toSym = .ok ds ∧ ValidSym ds ∧ 1 ≤ ds.size ∧ 1 ≤ ds.dim ∧
      ds.view.isConnected = true ∧
      (specG r).size = (gOf ds).size ∧ (specG r).dim = (gOf ds).dim ∧
      (∀ i d, i ≤ ds.dim → 1 ≤ d → d ≤ ds.size → (specG r).op i d = (gOf ds).op i d) ∧
      (∀ i d, i < ds.dim → 1 ≤ d → d ≤ ds.size → (specG r).v i d = (gOf ds).v i d) := by
  obtain ⟨ds, hdec, hs, hsz, hdim, hcon, hag⟩ := DSymVerif.C03.decode_raw_valid r h
  obtain ⟨e1, e2, eop, ev⟩ := DSymVerif.C03.agrees_tables hag hs.toValidTables
  refine ⟨ds, hdec, hs, hsz, hdim, (CanonP.conn_iff_isConnected hs.set).1 hcon, e1.symm, e2.symm, ?_, ?_⟩
  · intro i d hi h1 h2
    rw [gOf_op]
    exact eop i d hi h1 h2
  · intro i d hi h1 h2
    rw [gOf_v hs.toValidTables hi h1 h2]
    exact ev i d hi h1 h2

/-- the driver's graph and the graph of the decoded symbol agree wherever a symbol is defined -/
theorem specG_gagree (r : Proto.RawSym) (h : inDomain r = true) :
    ∃ ds, r.toSym = .ok ds ∧ ValidSym ds ∧ 1 ≤ ds.size ∧ 1 ≤ ds.dim ∧
      ds.view.isConnected = true ∧ GAgree (specG r) (gOf ds) := by
  obtain ⟨ds, hdec, hs, hsz, hdim, hcon, e1, e2, eop, ev⟩ := specG_agrees r h
  refine ⟨ds, hdec, hs, hsz, hdim, hcon, e1, e2, eop, ev, ?_⟩
  intro i d hi h1 h2
  rw [gOf_op]
  exact hs.set.range i d hi h1 h2

/-- … hence the Spec builds literally the same textbook presentation from both -/
theorem specG_textbook (r : Proto.RawSym) (h : inDomain r = true) :
    ∃ ds, r.toSym = .ok ds ∧ ValidSym ds ∧ 1 ≤ ds.size ∧ 1 ≤ ds.dim ∧
      ds.view.isConnected = true ∧
      SpecC09.textbook (specG r) = SpecC09.textbook (gOf ds) := by
  obtain ⟨ds, hdec, hs, hsz, hdim, hcon, hag⟩ := specG_gagree r h
  exact ⟨ds, hdec, hs, hsz, hdim, hcon, textbook_congr hag hsz⟩

end DSymVerif.FGP
