/-
Helper lemmas for property C04, part 16: the Spec's partition-refinement oracle, part B —
`coarsest s` is the coarsest partition of 1..size that respects the degree tuples and is closed
under the operations; `classes s` is its number of classes.
-/
import DSymVerif.Proofs.MorphismSpecA

namespace DSymVerif.SpecC04P
open DSymVerif.SpecC04

/-- operations map chambers to chambers -/
def OpsInRange (s : S) : Prop :=
  ∀ i d, i ≤ s.dim → 1 ≤ d → d ≤ s.size → 1 ≤ s.op i d ∧ s.op i d ≤ s.size

theorem opsInRange_of_valid (s : S) (h : s.valid = true) : OpsInRange s := by
  intro i d hi hd1 hd2
  unfold S.valid at h
  simp only [Bool.and_eq_true, decide_eq_true_eq, List.all_eq_true] at h
  have hi' : i ∈ s.indices := by unfold S.indices; exact List.mem_range.2 (by omega)
  have hd' : d ∈ s.chambers := by
    unfold S.chambers
    exact List.mem_map.2 ⟨d - 1, List.mem_range.2 (by omega), by omega⟩
  have := (h.2 i hi' d hd').1
  unfold S.inRange at this
  simp only [Bool.and_eq_true, decide_eq_true_eq] at this
  exact this

/-- a class function is a degree-respecting congruence in the Spec's terms -/
structure SCong (s : S) (c : Nat → Nat) : Prop where
  deg : ∀ d d', 1 ≤ d → d ≤ s.size → 1 ≤ d' → d' ≤ s.size → c d = c d' →
    s.degTable.getD d [] = s.degTable.getD d' []
  closed : ∀ d d', 1 ≤ d → d ≤ s.size → 1 ≤ d' → d' ≤ s.size → c d = c d' →
    ∀ i, i ≤ s.dim → c (s.op i d) = c (s.op i d')

/-- the signature used by `refineStep` -/
def sigOf (s : S) (l : Array Nat) (d : Nat) : List Nat :=
  l.getD d 0 :: s.indices.map fun i => l.getD (s.op i d) 0

theorem refineStep_eq (s : S) (l : Array Nat) : refineStep s l = relabel s.size (sigOf s l) := rfl

theorem sigOf_eq_iff (s : S) (l : Array Nat) (d d' : Nat) :
    sigOf s l d = sigOf s l d' ↔
      l.getD d 0 = l.getD d' 0 ∧ ∀ i, i ≤ s.dim → l.getD (s.op i d) 0 = l.getD (s.op i d') 0 := by
  unfold sigOf
  rw [List.cons.injEq, List.map_inj_left]
  unfold S.indices
  constructor
  · rintro ⟨h1, h2⟩
    exact ⟨h1, fun i hi => h2 i (List.mem_range.2 (by omega))⟩
  · rintro ⟨h1, h2⟩
    exact ⟨h1, fun i hi => h2 i (by have := List.mem_range.1 hi; omega)⟩

/-- what `refineAux` returns -/
structure RefOut (s : S) (l out : Array Nat) : Prop where
  canon : Canon s.size (fun d => out.getD d 0)
  refines : ∀ d d', 1 ≤ d → d ≤ s.size → 1 ≤ d' → d' ≤ s.size →
    out.getD d 0 = out.getD d' 0 → l.getD d 0 = l.getD d' 0
  stable : ∀ d d', 1 ≤ d → d ≤ s.size → 1 ≤ d' → d' ≤ s.size → out.getD d 0 = out.getD d' 0 →
    ∀ i, i ≤ s.dim → out.getD (s.op i d) 0 = out.getD (s.op i d') 0
  above : ∀ c : Nat → Nat,
    (∀ d d', 1 ≤ d → d ≤ s.size → 1 ≤ d' → d' ≤ s.size → c d = c d' →
      ∀ i, i ≤ s.dim → c (s.op i d) = c (s.op i d')) →
    (∀ d d', 1 ≤ d → d ≤ s.size → 1 ≤ d' → d' ≤ s.size → c d = c d' → l.getD d 0 = l.getD d' 0) →
    ∀ d d', 1 ≤ d → d ≤ s.size → 1 ≤ d' → d' ≤ s.size → c d = c d' → out.getD d 0 = out.getD d' 0

theorem refineAux_spec (s : S) (hops : OpsInRange s) :
    ∀ (fuel : Nat) (l : Array Nat), Canon s.size (fun d => l.getD d 0) →
      s.size + 1 ≤ fuel + countClasses s.size l → RefOut s l (refineAux s fuel l) := by
  intro fuel
  induction fuel with
  | zero =>
    intro l hl hf
    have := card_reps_le s.size (fun d => l.getD d 0)
    rw [countClasses_eq] at hf
    omega
  | succ fuel ih =>
    intro l hl hf
    have hl' : Canon s.size (fun d => (refineStep s l).getD d 0) := by
      rw [refineStep_eq]; exact relabel_canon _ _
    have href : ∀ d d', 1 ≤ d → d ≤ s.size → 1 ≤ d' → d' ≤ s.size →
        (refineStep s l).getD d 0 = (refineStep s l).getD d' 0 → l.getD d 0 = l.getD d' 0 := by
      intro d d' h1 h2 h1' h2' h
      rw [refineStep_eq] at h
      exact ((sigOf_eq_iff s l d d').1 ((relabel_eq_iff _ _ d d' h1 h2 h1' h2').1 h)).1
    have hge := card_le_of_refines hl hl' href
    unfold refineAux
    simp only
    split
    · rename_i heq
      have heq' : countClasses s.size (refineStep s l) = countClasses s.size l := by simpa using heq
      rw [countClasses_eq, countClasses_eq] at heq'
      have hsame := same_partition hl hl' href (by omega)
      refine ⟨hl, fun _ _ _ _ _ _ h => h, ?_, fun c _ hcl => hcl⟩
      intro d d' h1 h2 h1' h2' h i hi
      have := hsame d d' h1 h2 h1' h2' h
      have hs : (refineStep s l).getD d 0 = (refineStep s l).getD d' 0 := this
      rw [refineStep_eq] at hs
      exact ((sigOf_eq_iff s l d d').1 ((relabel_eq_iff _ _ d d' h1 h2 h1' h2').1 hs)).2 i hi
    · rename_i hne
      have hne' : countClasses s.size (refineStep s l) ≠ countClasses s.size l := by simpa using hne
      have hf' : s.size + 1 ≤ fuel + countClasses s.size (refineStep s l) := by
        rw [countClasses_eq, countClasses_eq] at hne'
        rw [countClasses_eq] at hf ⊢
        omega
      have r := ih (refineStep s l) hl' hf'
      refine ⟨r.canon, fun d d' h1 h2 h1' h2' h => href d d' h1 h2 h1' h2' (r.refines d d' h1 h2 h1' h2' h),
        r.stable, fun c hcc hcl => ?_⟩
      apply r.above c hcc
      intro d d' h1 h2 h1' h2' hcd
      rw [refineStep_eq]
      apply (relabel_eq_iff _ _ d d' h1 h2 h1' h2').2
      apply (sigOf_eq_iff s l d d').2
      refine ⟨hcl d d' h1 h2 h1' h2' hcd, fun i hi => ?_⟩
      have r1 := hops i d hi h1 h2
      have r2 := hops i d' hi h1' h2'
      exact hcl _ _ r1.1 r1.2 r2.1 r2.2 (hcc d d' h1 h2 h1' h2' hcd i hi)

/-- **spec_refinement_correct**: Moore refinement from the degree-tuple partition stabilises at
    the coarsest degree-respecting congruence; its labels are class minima and `classes s` counts
    them -/
theorem coarsest_spec (s : S) (hops : OpsInRange s) :
    SCong s (fun d => (coarsest s).getD d 0) ∧
    (∀ c : Nat → Nat, SCong s c → ∀ d d', 1 ≤ d → d ≤ s.size → 1 ≤ d' → d' ≤ s.size →
      c d = c d' → (coarsest s).getD d 0 = (coarsest s).getD d' 0) ∧
    Canon s.size (fun d => (coarsest s).getD d 0) ∧
    classes s = (reps s.size (fun d => (coarsest s).getD d 0)).card := by
  have h0 : Canon s.size (fun d => (relabel s.size fun d => s.degTable.getD d []).getD d 0) :=
    relabel_canon _ _
  have r := refineAux_spec s hops (s.size + 1) (relabel s.size fun d => s.degTable.getD d []) h0 (by omega)
  have hco : coarsest s = refineAux s (s.size + 1) (relabel s.size fun d => s.degTable.getD d []) := rfl
  rw [hco]
  refine ⟨⟨fun d d' h1 h2 h1' h2' h => ?_, r.stable⟩, fun c hc => ?_, r.canon, ?_⟩
  · exact (relabel_eq_iff _ _ d d' h1 h2 h1' h2').1 (r.refines d d' h1 h2 h1' h2' h)
  · apply r.above c hc.closed
    intro d d' h1 h2 h1' h2' hcd
    exact (relabel_eq_iff _ _ d d' h1 h2 h1' h2').2 (hc.deg d d' h1 h2 h1' h2' hcd)
  · unfold classes
    rw [hco, countClasses_eq]

end DSymVerif.SpecC04P
