/-
The group meaning of the result: the abelianisation of the presented group is the product of the
cyclic groups `ZMod d`, `d` running over the list the Spec defines (= the list the model returns).
-/
import DSymVerif.Proofs.InvariantsGroupQuot
import DSymVerif.Proofs.InvariantsGroupList

namespace DSymVerif.Inv
open DSymVerif.SpecC14 DSymVerif.CosetP Matrix

/-- the chain the model ends with, and what it knows about it -/
theorem model_chain (n : ℕ) (rels : List (List ℤ)) (hin : ∀ w ∈ rels, ∀ g ∈ w, InRange n g) :
    ∃ c : List ℤ, c.length = min rels.length n ∧ (∀ x ∈ c, 0 ≤ x) ∧
      UEquiv (relMat n rels) (diagL c rels.length n) ∧
      expected n rels = finish n (min rels.length n) c := by
  have hR := relMatrix_rect n rels
  have hmain := abelianInvariants_eq_expected n rels hin
  unfold abelianInvariants at hmain
  rw [rowsOf_ok n rels hin] at hmain
  simp only at hmain
  by_cases h0 : n = 0
  · rw [if_pos h0] at hmain
    injection hmain with hmain
    subst h0
    refine ⟨[], by simp, by simp, ?_, ?_⟩
    · have : relMat 0 rels = diagL [] rels.length 0 := by ext i j; exact j.elim0
      rw [this]; exact UEquiv.refl _
    · rw [← hmain]; simp [finish]
  · rw [if_neg h0] at hmain
    by_cases h1 : (relMatrix n rels).length = 0
    · rw [if_pos h1] at hmain
      injection hmain with hmain
      have hrl : rels = [] := by
        have := hR.1; rw [h1] at this
        exact List.eq_nil_of_length_eq_zero this.symm
      subst hrl
      refine ⟨[], by simp, by simp, ?_, ?_⟩
      · have : relMat n [] = diagL [] ([] : List (List ℤ)).length n := by ext i j; exact i.elim0
        rw [this]; exact UEquiv.refl _
      · rw [← hmain]
        simp only [finish, List.filter_nil, List.nil_append, List.length_nil, Nat.zero_min,
          Nat.sub_zero, List.map_replicate, Int.natAbs_zero]
        rw [mergeSort_leNat_eq, sortAsc_replicate_zero]
    · rw [if_neg h1] at hmain
      have hr : 0 < rels.length := by have := hR.1; omega
      obtain ⟨D, hD, hRD⟩ := diagonalize_some _ rels.length n hR hr
      rw [hD] at hmain
      simp only at hmain
      rw [hRD.1] at hmain
      injection hmain with hmain
      obtain ⟨hlen, hnn, _, _⟩ := dk_of_model _ D rels.length n hR hr hD
      exact ⟨_, hlen, hnn, model_uequiv _ D rels.length n hR hr hD, hmain.symm⟩

theorem filter_map_natAbs (c : List ℤ) (hnn : ∀ x ∈ c, 0 ≤ x) :
    (c.map Int.natAbs).filter (· ≠ 1) = (c.filter (fun x => x ≠ 1)).map Int.natAbs := by
  induction c with
  | nil => rfl
  | cons x c ih =>
    have hx := hnn x List.mem_cons_self
    have ih' := ih (fun y hy => hnn y (List.mem_cons_of_mem _ hy))
    by_cases h1 : x = 1
    · subst h1; simpa using ih'
    · have : x.natAbs ≠ 1 := by omega
      simp only [List.map_cons, List.filter_cons, this, h1, ne_eq, not_false_eq_true, decide_true,
        if_true]
      rw [← ih']

/-- the Spec's list is a rearrangement of the `|cᵢ| ≠ 1`, `i < n` -/
theorem expected_perm (n N : ℕ) (c : List ℤ) (hlen : c.length = N) (hNn : N ≤ n)
    (hnn : ∀ x ∈ c, 0 ≤ x) :
    (finish n N c).Perm ((List.ofFn fun i : Fin n => (c.getD i.val 0).natAbs).filter (· ≠ 1)) := by
  have hof : (List.ofFn fun i : Fin n => (c.getD i.val 0).natAbs)
      = c.map Int.natAbs ++ List.replicate (n - N) 0 := by
    apply List.ext_getElem
    · simp; omega
    · intro i h1 h2
      simp only [List.getElem_ofFn]
      by_cases hi : i < c.length
      · rw [List.getElem_append_left (by simpa using hi)]
        simp [List.getD_eq_getElem?_getD, List.getElem?_eq_getElem hi]
      · rw [List.getElem_append_right (by simpa using Nat.le_of_not_lt hi)]
        simp only [List.getElem_replicate]
        rw [getD_default c i 0 (by omega)]; rfl
  rw [hof, List.filter_append, filter_map_natAbs c hnn]
  have : (List.replicate (n - N) 0).filter (· ≠ 1) = List.replicate (n - N) 0 := by
    rw [List.filter_eq_self]
    intro x hx
    rw [List.eq_of_mem_replicate hx]; decide
  rw [this]
  exact finish_perm n N c

/-- **the group the list describes**: the abelianisation of `⟨x₁ … xₙ | rels⟩` is the product of
    the cyclic groups `ZMod d` for `d` in the Spec's list (`ZMod 0 = ℤ`) -/
theorem abelianization_equiv_expected (n : ℕ) (rels : List (List ℤ))
    (hin : ∀ w ∈ rels, ∀ g ∈ w, InRange n g) :
    Nonempty (Abelianization (PresentedGroup (relSet n rels)) ≃*
      Multiplicative (ZL (expected n rels))) := by
  obtain ⟨c, hlen, hnn, hU, hexp⟩ := model_chain n rels hin
  obtain ⟨e2⟩ := quot_equiv_of_uequiv hU
  obtain ⟨e3⟩ := quot_diagL c rels.length n (by omega)
  obtain ⟨e4⟩ := ZL_ofFn (fun i : Fin n => (c.getD i.val 0).natAbs)
  obtain ⟨e5⟩ := ZL_filter (List.ofFn fun i : Fin n => (c.getD i.val 0).natAbs)
  obtain ⟨e6⟩ := ZL_perm (expected_perm n (min rels.length n) c hlen (by omega) hnn)
  rw [← hexp] at e6
  exact ⟨AddEquiv.toMultiplicativeRight
    ((abelianizationEquivQuot n rels).trans (e2.trans (e3.trans (e4.trans (e5.symm.trans e6.symm)))))⟩

/-- free abelian case: if the list consists of `k` zeros, the abelianisation is `ℤᵏ` -/
theorem abelianization_free (n k : ℕ) (rels : List (List ℤ))
    (hin : ∀ w ∈ rels, ∀ g ∈ w, InRange n g) (h : expected n rels = List.replicate k 0) :
    Nonempty (Abelianization (PresentedGroup (relSet n rels)) ≃* Multiplicative (Fin k → ℤ)) := by
  obtain ⟨e⟩ := abelianization_equiv_expected n rels hin
  rw [h] at e
  obtain ⟨e'⟩ := ZL_replicate_zero k
  exact ⟨e.trans (AddEquiv.toMultiplicative e')⟩

end DSymVerif.Inv
